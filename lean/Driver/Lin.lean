import PPLV.Lin.Parse
import PPLV.Lin.Ops2

/-! `pplv_lin`: replays a polyhedron journal on the reference model and decides every
observation with the verified K1 procedures.  See `harness/c01_poly.cc` for the grammar.

Events of the second C02 batch (models: `PPLV/Lin/Ops2.lean`, theorems: `PPLV/Props/C02.lean`):
* `op <s> pos_time_elapse <t>` · `op <s> conv <cs>` (through the other topology and back: closure of
  `P ∩ cs`) · `op <s> add_cgs <cgs>` · `op <s> fold <dest> <m> <v_1..v_m>` (after `hint <s>`);
  congruence system `<m> (<modulus> <expr>)*`, modulus 0 = equality;
* `pre <s> diff <t>`, `piece <s> <constraint> gens <gs>`*, `res <s> diff <t> 2 <cs>`: leastness of
  `poly_difference_assign` judged by `RefPoly.diffJudge` (flag `1`: no hints, containments only);
* `pre <s> refine_cgs <s>`, `res <s> refine_cgs <s> 1 <cs> <cgs>`: `P ∩ cgs ⊆ R ⊆ P`;
* `q <s> threw <operation> <0|1>`: an operation documented to throw did (1) or did not (0). -/
open PPLV.Lin

structure St where
  slots : Array (Option RefPoly) := Array.replicate 16 none
  hints : Array (Option (List Gen)) := Array.replicate 16 none
  lastOp : Option (Nat × RefPoly) := none      -- slot and model value before the last op
  pieces : List (Con × List Gen) := []         -- `piece` hints of a pending `diff`
  maxGens : Nat := 9
  nOk : Nat := 0
  nBad : Nat := 0
  nSkip : Nat := 0

abbrev M := StateT St IO

def getSlot (i : Nat) : M (Option RefPoly) := do return (← get).slots.getD i none
def setSlot (i : Nat) (p : RefPoly) : M Unit :=
  modify fun s => { s with slots := s.slots.setIfInBounds i (some p) }
def getHint (i : Nat) : M (Option (List Gen)) := do return (← get).hints.getD i none
def clearHints : M Unit := modify fun s => { s with hints := Array.replicate 16 none }

def ok (ln : Nat) : M Unit := do
  modify fun s => { s with nOk := s.nOk + 1 }
  IO.println s!"ok {ln}"
def bad (ln : Nat) (what : String) : M Unit := do
  modify fun s => { s with nBad := s.nBad + 1 }
  IO.println s!"MISMATCH {ln} {what}"
def skip (ln : Nat) (why : String) : M Unit := do
  modify fun s => { s with nSkip := s.nSkip + 1 }
  IO.println s!"skip {ln} {why}"

/-- keep the model small: drop rows implied by the others when the system grows -/
def shrink (p : RefPoly) : RefPoly :=
  if p.cs.length ≤ 12 then p else { p with cs := dropRedundant p.n [] (tidy p.cs) }

def b2s (b : Bool) : String := if b then "1" else "0"

/-- congruence system `<m> (<modulus> <expr>)*` -/
def parseCongs (n : Nat) (ts : List String) : List Cong × List String :=
  match ts with
  | m :: rest =>
    let rec go (k : Nat) (ts : List String) (acc : List Cong) : List Cong × List String :=
      match k with
      | 0 => (acc, ts)
      | k+1 =>
        match ts with
        | md :: ts1 => let (e, ts2) := parseExpr n ts1; go k ts2 (acc ++ [⟨tokInt md, e⟩])
        | [] => (acc, [])
    go (tokNat m) rest []
  | [] => ([], [])

/-- apply an operator to the model; `none` = operator not modelled (slot becomes unknown) -/
def applyOp (p : RefPoly) (name : String) (args : List String) (other : Nat → Option RefPoly)
    (hint : Nat → Option (List Gen)) (self : Nat) : Option RefPoly :=
  let n := p.n
  match name, args with
  | "add_cons", a => some (p.addCons (parseCS n a).1)
  | "refine_cons", a =>
    let rows := (parseCS n a).1
    some (p.addCons (if p.nnc then rows else relax rows))
  | "meet", [t] => (other (tokNat t)).map fun q => p.meet q
  | "concat", [t] => (other (tokNat t)).map fun q => p.concat q
  | "aff_img", v :: d :: a => some (p.affineImage (tokNat v) (parseExpr n a).1 (tokInt d))
  | "aff_pre", v :: d :: a => some (p.affinePreimage (tokNat v) (parseExpr n a).1 (tokInt d))
  | "gen_img", v :: r :: d :: a => some (p.genAffineImage (tokNat v) (parseRel r) (parseExpr n a).1 (tokInt d))
  | "gen_pre", v :: r :: d :: a => some (p.genAffinePreimage (tokNat v) (parseRel r) (parseExpr n a).1 (tokInt d))
  | "gen_img2", r :: a =>
    let (lhs, a') := parseExpr n a
    let (rhs, _) := parseExpr n a'
    some (p.genAffineImage2 lhs (parseRel r) rhs)
  | "gen_pre2", r :: a =>
    let (lhs, a') := parseExpr n a
    let (rhs, _) := parseExpr n a'
    some (p.genAffinePreimage2 lhs (parseRel r) rhs)
  | "bnd_img", v :: d :: a =>
    let (lb, a') := parseExpr n a
    let (ub, _) := parseExpr n a'
    some (p.boundedAffineImage (tokNat v) lb ub (tokInt d))
  | "bnd_pre", v :: d :: a =>
    let (lb, a') := parseExpr n a
    let (ub, _) := parseExpr n a'
    some (p.boundedAffinePreimage (tokNat v) lb ub (tokInt d))
  | "unconstrain", _ :: vs => some (p.unconstrain (vs.map tokNat))
  | "closure", _ => some p.closure
  | "add_dims_embed", [m] => some (p.addDimsEmbed (tokNat m))
  | "add_dims_project", [m] => some (p.addDimsProject (tokNat m))
  | "remove_dims", _ :: vs => some (p.removeDims (vs.map tokNat))
  | "remove_higher", [m] => some (p.removeHigherDims (tokNat m))
  | "map_dims", nOut :: _ :: prs =>
    let rec pairs : List String → List (Nat × Nat)
      | a :: b :: r => (tokNat a, tokNat b) :: pairs r
      | _ => []
    some (p.mapDims (tokNat nOut) (pairs prs))
  | "expand", [v, m] => some (p.expandDim (tokNat v) (tokNat m))
  | "add_gens", a =>
    let gs := (parseGS n a).1
    if p.isEmpty then some (RefPoly.ofGens p.nnc n gs)
    else (hint self).map fun hg => RefPoly.ofGens p.nnc n (hg ++ gs)
  | "hull", [t] =>
    match other (tokNat t) with
    | none => none
    | some q =>
      if p.isEmpty then some { q with nnc := p.nnc }
      else if q.isEmpty then some p
      else match hint self, hint (tokNat t) with
        | some g1, some g2 => some (RefPoly.ofGens p.nnc n (g1 ++ g2))
        | _, _ => none
  | "time_elapse", [t] =>
    match other (tokNat t) with
    | none => none
    | some q =>
      if p.isEmpty || q.isEmpty then some (emptyP p.nnc n)
      else match hint self, hint (tokNat t) with
        | some g1, some g2 => some (RefPoly.ofGens p.nnc n (timeElapseGens g1 g2))
        | _, _ => none
  -- ---- C02, second batch (models in `PPLV/Lin/Ops2.lean`) ----
  | "pos_time_elapse", [t] => (other (tokNat t)).map fun q => p.posTimeElapse q
  | "conv", a =>
    -- through the other topology and back: the closure of `P ∩ rows`
    some (p.addCons (parseCS n a).1).closure
  | "add_cgs", a => some (p.addCongs (parseCongs n a).1)
  | "fold", dest :: _ :: vs =>
    let vars := vs.map tokNat
    if p.isEmpty then some (emptyP p.nnc (otherVars n vars).length)
    else match hint self with
      | some hg => if hg.length * (vars.length + 1) > 18 then none else some (p.foldGens vars (tokNat dest) hg)
      | none => none
  | _, _ => none

def supStr : Sup → String
  | .empty => "empty"
  | .unbounded => "unbounded"
  | .val p q a => s!"{p}/{q} att={b2s a}"

/-- compare a reported optimum `num/den` with the model's -/
def supMatches (s : Sup) (num den : Int) (incl : Bool) : Bool :=
  match s with
  | .val p q a => decide (p * den = num * q) && (a == incl)
  | _ => false

def processLine (ln : Nat) (line : String) : M Unit := do
  let ts := (line.trimAscii.toString.splitOn " ").filter (· ≠ "")
  match ts with
  | "hist" :: _ => do
    modify fun s => { s with slots := Array.replicate 16 none, hints := Array.replicate 16 none, lastOp := none, pieces := [] }
  | "new" :: s :: topo :: n :: kind :: rest => do
    let nn := tokNat n
    let nnc := topo == "N"
    let p : RefPoly :=
      if kind == "univ" then univ nnc nn
      else if kind == "empty" then emptyP nnc nn
      else if kind == "cons" then ⟨nnc, nn, (parseCS nn rest).1⟩
      else RefPoly.ofGens nnc nn (parseGS nn rest).1
    setSlot (tokNat s) p
  | ["copy", d, s] => do
    match ← getSlot (tokNat s) with
    | some p => setSlot (tokNat d) p
    | none => modify fun st => { st with slots := st.slots.setIfInBounds (tokNat d) none }
  | ["swap", a, b] => do
    let pa ← getSlot (tokNat a); let pb ← getSlot (tokNat b)
    modify fun st => { st with slots := (st.slots.setIfInBounds (tokNat a) pb).setIfInBounds (tokNat b) pa }
  | "hint" :: s :: "gens" :: rest => do
    match ← getSlot (tokNat s) with
    | some p =>
      let gs := (parseGS p.n rest).1
      if gs.length > (← get).maxGens then skip ln "hint-too-large"
      else if gensWF p.n gs && checkDD p.n p.cs gs then
        modify fun st => { st with hints := st.hints.setIfInBounds (tokNat s) (some gs) }
        ok ln
      else
        bad ln s!"hint: generators of a copy of slot {s} do not denote the model set"
    | none => skip ln "unknown-slot"
  | "op" :: s :: name :: args => do
    let si := tokNat s
    match ← getSlot si with
    | some p =>
      let st ← get
      let r := applyOp p name args (fun i => st.slots.getD i none) (fun i => st.hints.getD i none) si
      modify fun st => { st with lastOp := some (si, p),
                                 slots := st.slots.setIfInBounds si (r.map shrink) }
      clearHints
    | none => clearHints
  | "pre" :: s :: _ => do
    -- an operator whose result is judged by its defining relations (see `res`)
    match ← getSlot (tokNat s) with
    | some p => modify fun st => { st with lastOp := some (tokNat s, p), pieces := [] }
    | none => modify fun st => { st with lastOp := none, pieces := [] }
  | "piece" :: s :: rest => do
    -- `piece <s> <constraint> gens <gs>`: generators claimed for (slot s) ∩ constraint; verified by `diffJudge`
    match ← getSlot (tokNat s) with
    | some p =>
      match parseCon p.n rest with
      | ([row], "gens" :: gt) =>
        modify fun st => { st with pieces := st.pieces ++ [(row, (parseGS p.n gt).1)] }
      | _ => pure ()
    | none => pure ()
  | "res" :: s :: name :: t :: b :: rest => do
    let si := tokNat s
    let st ← get
    match st.slots.getD si none, st.slots.getD (tokNat t) none with
    | some p, some q =>
      let n := p.n
      let (rcs, rest') := parseCS n rest
      let r : RefPoly := { p with cs := rcs }
      let hints := st.hints
      let pieceHints := st.pieces
      modify fun st => { st with pieces := [] }
      clearHints
      let verdict : Option String :=
        if name == "simplify_ctx" then
          let meetPQ := p.meet q
          let nonEmpty := !meetPQ.isEmpty
          if (b == "1") != nonEmpty then some s!"simplify_using_context_assign returned {b} but the intersection is {if nonEmpty then "non-empty" else "empty"}"
          else if nonEmpty && !((r.meet q).equiv meetPQ) then some "simplify_using_context_assign: result ∩ context ≠ argument ∩ context"
          else if nonEmpty && !(r.contains p) then some "simplify_using_context_assign: result does not contain the argument"
          else none
        else if name == "diff" then
          -- every piece P ∩ ¬c (c a row of Q) lies in R, and R ⊆ P
          -- (for C polyhedra the result is closed: a non-empty piece P ∩ ¬c enters with its closure)
          let pieces := q.cs.filterMap fun c =>
            let strictPiece := p.addCons [c.neg]
            if strictPiece.isEmpty then none
            else some (if p.nnc then strictPiece else p.addCons [{ c.neg with strict := false }])
          if !(pieces.all fun pc => r.contains pc) then some "poly_difference_assign: a point of the set difference is missing from the result"
          else if !(p.contains r) then some "poly_difference_assign: the result is not contained in the minuend"
          else if q.contains p && !r.isEmpty then some "poly_difference_assign: subtrahend contains minuend but result non-empty"
          -- leastness (b = 2: the harness supplied generator hints of every non-empty piece)
          else if b == "2" && !(wfB n p.cs && wfB n q.cs && wfB n rcs && p.diffJudge q pieceHints rcs) then
            some "poly_difference_assign: the result is not the least polyhedron containing the set difference (or a piece hint is wrong)"
          else none
        else if name == "refine_cgs" then
          -- P ∩ cgs ⊆ R ⊆ P
          let cgs := (parseCongs n rest').1
          if !(wfB n p.cs && wfB n rcs && cgs.all (fun c => decide (0 ≤ c.m)) && p.refineCongsJudge cgs rcs) then some "refine_with_congruences: result is not between P ∩ congruences and P"
          else none
        else if name == "hull_if_exact" then
          -- exact iff hull ⊆ P ∪ Q, i.e. every piece hull ∩ ¬c (c a row of P) lies in Q
          let hull : Option RefPoly :=
            if p.isEmpty then some { q with nnc := p.nnc } else if q.isEmpty then some p
            else match hints.getD si none, hints.getD (tokNat t) none with
              | some g1, some g2 => some (RefPoly.ofGens p.nnc n (g1 ++ g2))
              | _, _ => none
          match hull with
          | none => none
          | some h =>
            let exact := p.cs.all fun c => q.contains (h.addCons [c.neg])
            if (b == "1") != exact then some s!"upper_bound_assign_if_exact returned {b} but the union is {if exact then "convex" else "not convex"}"
            else if b == "1" && !(r.equiv h) then some "upper_bound_assign_if_exact: true but result is not the hull"
            else if b == "0" && !(r.equiv p) then some "upper_bound_assign_if_exact: false but the object changed"
            else none
        else none
      match verdict with
      | none => ok ln
      | some w => bad ln w
      setSlot si (shrink r)
    | _, _ =>
      clearHints
      skip ln "unknown-slot"
  | "exc" :: cls :: _ => do
    -- the preceding operation threw: the library must have left the object unchanged
    match (← get).lastOp with
    | some (si, p) => setSlot si p; bad ln s!"unexpected exception {cls}"
    | none => bad ln s!"unexpected exception {cls}"
  | "obs" :: s :: kind :: rest => do
    match ← getSlot (tokNat s) with
    | none => skip ln "unknown-slot"
    | some p =>
      if kind == "cons" || kind == "mcons" then
        let cs := (parseCS p.n rest).1
        if equivB p.n p.cs cs then do
          ok ln
          setSlot (tokNat s) { p with cs := cs }     -- same set, smaller representative
        else do
          bad ln s!"{kind} of slot {s} do not denote the model set (model rows: {p.cs.length})"
          setSlot (tokNat s) { p with cs := cs }     -- re-base: one defect, one report
      else
        let gs := (parseGS p.n rest).1
        if !gensWF p.n gs then bad ln s!"{kind}: ill-formed generator system"
        else if gs.length > (← get).maxGens then
          -- cheap direction only: every generator lies in the model set
          let okAll := gs.all fun g =>
            match g.kind with
            | .point => p.hasPoint g.coords g.div
            | .cpoint => ({ p with cs := relax p.cs } : RefPoly).hasPoint g.coords g.div
            | .ray => p.hasRay g.coords
            | .line => p.hasRay g.coords && p.hasRay (g.coords.map (- ·))
          if okAll then skip ln "size-skipped" else bad ln s!"{kind}: a generator lies outside the model set"
        else if checkDD p.n p.cs gs then ok ln
        else do
          bad ln s!"{kind} of slot {s} do not denote the model set"
          setSlot (tokNat s) (RefPoly.ofGens p.nnc p.n gs)
  | "q" :: s :: qn :: rest => do
    match ← getSlot (tokNat s) with
    | none => skip ln "unknown-slot"
    | some p =>
      let st ← get
      let other (t : String) : Option RefPoly := st.slots.getD (tokNat t) none
      let cmpB (model : Bool) (ans : String) : M Unit :=
        if b2s model == ans then ok ln else bad ln s!"{qn}: library {ans}, set dictates {b2s model}"
      let withOther (t : String) (f : RefPoly → M Unit) : M Unit :=
        match other t with
        | some q => f q
        | none => skip ln "unknown-slot"
      if qn == "is_empty" then cmpB p.isEmpty (rest.getD 0 "")
      else if qn == "is_universe" then cmpB p.isUniverse (rest.getD 0 "")
      else if qn == "is_bounded" then cmpB p.isBounded (rest.getD 0 "")
      else if qn == "is_closed" then cmpB p.isClosed (rest.getD 0 "")
      else if qn == "contains" then withOther (rest.getD 0 "") fun q => cmpB (p.contains q) (rest.getD 1 "")
      else if qn == "strictly_contains" then
        withOther (rest.getD 0 "") fun q => cmpB (p.contains q && !q.contains p) (rest.getD 1 "")
      else if qn == "disjoint" then withOther (rest.getD 0 "") fun q => cmpB (p.disjoint q) (rest.getD 1 "")
      else if qn == "equals" then withOther (rest.getD 0 "") fun q => cmpB (p.equiv q) (rest.getD 1 "")
      else if qn == "constrains" then cmpB (p.constrains (tokNat (rest.getD 0 ""))) (rest.getD 1 "")
      else if qn == "affdim" then
        let d := rest.getD 0 ""
        if p.affineDim == tokNat d then ok ln else bad ln s!"affine_dimension: library {d}, set dictates {p.affineDim}"
      else if qn == "relcon" then
        -- args: <con> then 4 flags: disjoint strictly_intersects included saturates
        let args := rest
        let (rows, r') := parseCon p.n args
        match r' with
        | [fd, fs, fi, fsat] =>
          let rel := args.getD 0 ""
          let k := args.getD 1 ""
          let cf := (takeInts p.n (args.drop 2)).1
          let hyper := eqRows cf (tokInt k)
          let rows' := if rel == "=" then hyper else rows
          let (dj, inc, sat) := p.relCon rows' hyper
          let si := !dj && !inc
          let good := (fd == b2s dj) && (fi == b2s inc) && (fs == b2s si) && (fsat == b2s sat)
          if good then ok ln
          else bad ln s!"relation_with(constraint): library D{fd} S{fs} I{fi} T{fsat}, set dictates D{b2s dj} S{b2s si} I{b2s inc} T{b2s sat}"
        | _ => skip ln "parse"
      else if qn == "relcg" then
        -- args: <modulus> <expr> then 4 flags; the congruence is  expr ≡ 0 (mod modulus)
        let m := tokInt (rest.getD 0 "")
        let (e, r') := parseExpr p.n (rest.drop 1)
        match r' with
        | [fd, fs, fi, fsat] =>
          if m == 0 then
            let hyper := eqRows e.coeffs e.k
            let (dj, inc, sat) := p.relCon hyper hyper
            let si := !dj && !inc
            if (fd == b2s dj) && (fi == b2s inc) && (fs == b2s si) && (fsat == b2s sat) then ok ln
            else bad ln s!"relation_with(congruence, modulus 0): library D{fd} S{fs} I{fi} T{fsat}, set dictates D{b2s dj} S{b2s si} I{b2s inc} T{b2s sat}"
          else
            let (dj, inc) := p.relCongruence e m
            let si := !dj && !inc
            -- `saturates` is reported together with inclusion for congruences
            if (fd == b2s dj) && (fi == b2s inc) && (fs == b2s si) then ok ln
            else bad ln s!"relation_with(congruence): library D{fd} S{fs} I{fi}, set dictates D{b2s dj} S{b2s si} I{b2s inc}"
        | _ => skip ln "parse"
      else if qn == "relgen" then
        match parseGen p.n rest with
        | (some g, [a]) =>
          let sub := p.subsumes g
          cmpB sub a
        | _ => skip ln "parse"
      else if qn == "threw" then
        -- `threw <operation> <0|1>`: the operation is documented to throw (object unchanged)
        cmpB true (rest.getD 1 "")
      else if qn == "bounds_above" then
        let (e, r) := parseExpr p.n rest
        cmpB (match p.sup e with | .unbounded => false | _ => true) (r.getD 0 "")
      else if qn == "bounds_below" then
        let (e, r) := parseExpr p.n rest
        cmpB (match p.inf e with | .unbounded => false | _ => true) (r.getD 0 "")
      else if qn == "max" || qn == "min" then
        let (e, r) := parseExpr p.n rest
        let s := if qn == "max" then p.sup e else p.inf e
        match r with
        | ["none"] =>
          (match s with
           | .val .. => bad ln s!"{qn}: library reports no optimum, set dictates {supStr s}"
           | _ => ok ln)
        | num :: den :: incl :: gt =>
          if !supMatches s (tokInt num) (tokInt den) (incl == "1") then
            bad ln s!"{qn}: library {num}/{den} incl={incl}, set dictates {supStr s}"
          else
            -- witness: a point (or closure point) of the closure where the value is attained
            match parseGen p.n gt with
            | (some g, _) =>
              let inCl := ({ p with cs := relax p.cs } : RefPoly).hasPoint g.coords g.div
              let v := (List.zipWith (· * ·) e.coeffs g.coords).foldl (· + ·) 0 + e.k * g.div
              if inCl && decide (v * tokInt den = tokInt num * g.div) &&
                 (incl == "0" || p.hasPoint g.coords g.div) then ok ln
              else bad ln s!"{qn}: witness point does not attain the optimum inside the set"
            | _ => ok ln
        | _ => skip ln "parse"
      else skip ln s!"unknown-query {qn}"
  | "crash" :: sig => do
    bad ln s!"crash {" ".intercalate sig}"
  | _ => pure ()

partial def loop (h : IO.FS.Stream) (ln : Nat) : M Unit := do
  let line ← h.getLine
  if line.isEmpty then return ()
  let t0 ← IO.monoMsNow
  processLine ln line
  let t1 ← IO.monoMsNow
  if t1 - t0 > 200 then IO.eprintln s!"slow {ln} {t1 - t0}ms {line.take 60}"
  loop h (ln + 1)

def main (args : List String) : IO UInt32 := do
  let maxG := match args with
    | ["--max-gens", k] => k.toNat?.getD 9
    | _ => 9
  let stdin ← IO.getStdin
  let ((), st) ← (loop stdin 1).run { maxGens := maxG }
  IO.println s!"summary ok={st.nOk} mismatch={st.nBad} skipped={st.nSkip}"
  return 0
