import PPLV.Lin.Parse
import PPLV.Lattice.ModelOps
import PPLV.Widen.Model

/-!
# `pplv_widen` — judges the journal of `harness/c08_widen.cc`

stdin: the journal (one event per line), stdout: one verdict line per obligation:
`ok <ln> <obligation>` | `MISMATCH <ln> <obligation> <detail>` | `skip <ln> <obligation> <why>`,
where `<ln>` is the line number of the `step` / `cert` / `chain` line the obligation belongs to.

Every set-level judgement is made with the verified K1 deciders (`subsetB`, `equivB`, `checkDD`,
`RefPoly.affineDim`) on the constraint systems the library printed, K2 (`PPLV.Lattice`) for grids; the
certificates are recomputed from the printed minimized descriptions and ordered by the models of
`PPLV.Widen.Model`, whose orders are proved well-founded in `PPLV.Props.C08`.

Obligations:
* `sup` result ⊇ larger argument · `repind` results on two differently built equal argument pairs are equal
  (`rehist`: the rebuilt arguments themselves differ) · `yconst` the smaller argument still denotes the same set
* `token` the token protocol · `lim_lower` / `lim_upper` / `lim_keeps` limited and bounded extrapolation
* `cert_fields` the printed minimized descriptions are descriptions of the set, irredundant, affine
  dimension as K1 computes it · `cert_model` model `compare` = real `compare` (both overloads)
* `cert_decrease` non-stationary step ⇒ certificate strictly smaller in the proved order
* `box_model` the box result is what the interval model computes · `overlong` a chain exceeded the limit
* `crash` / `exc`
-/
open PPLV.Lin PPLV.Widen

abbrev Toks := List String

structure Hdr where
  dom : String := ""
  n : Nat := 0
  op : String := ""
  conv : Bool := false
  cert : String := "none"
  exact : Bool := true
  stops : List Rat := []
  ln : Nat := 0

structure St where
  hdr : Hdr := {}
  stepLn : Nat := 0
  inStep : Bool := false
  lastRun : String := ""
  fields : List (String × Toks) := []     -- in order of arrival
  maxGens : Nat := 9
  nOk : Nat := 0
  nBad : Nat := 0
  nSkip : Nat := 0

abbrev M := StateT St IO

def ok (ln : Nat) (obl : String) : M Unit := do
  modify fun s => { s with nOk := s.nOk + 1 }
  IO.println s!"ok {ln} {obl}"
def bad (ln : Nat) (obl : String) (what : String) : M Unit := do
  modify fun s => { s with nBad := s.nBad + 1 }
  IO.println s!"MISMATCH {ln} {obl} {what}"
def skip (ln : Nat) (obl : String) (why : String) : M Unit := do
  modify fun s => { s with nSkip := s.nSkip + 1 }
  IO.println s!"skip {ln} {obl} {why}"
def judge (ln : Nat) (obl : String) (b : Bool) (what : String) : M Unit :=
  if b then ok ln obl else bad ln obl what

/-! ### parsing helpers -/

def splitBar (ts : Toks) : List Toks :=
  let rec go (ts : Toks) (cur : Toks) (acc : List Toks) : List Toks :=
    match ts with
    | [] => (cur.reverse :: acc).reverse
    | t :: r => if t == "|" then go r [] (cur.reverse :: acc) else go r (t :: cur) acc
  go ts [] []

def parseRat (s : String) : Rat :=
  match s.splitOn "/" with
  | [a] => (tokInt a : Rat)
  | [a, b] => (tokInt a : Rat) / (tokInt b : Rat)
  | _ => 0

/-- constraints one by one: rows of each, the relation symbol -/
def parseCSGrouped (n : Nat) (ts : Toks) : List (String × List Con) × Toks :=
  match ts with
  | m :: rest =>
    let rec go (k : Nat) (ts : Toks) (acc : List (String × List Con)) : List (String × List Con) × Toks :=
      match k with
      | 0 => (acc.reverse, ts)
      | k + 1 =>
        let rel := ts.headD ""
        let (rows, ts') := parseCon n ts
        go k ts' ((rel, rows) :: acc)
    go (tokNat m) rest []
  | [] => ([], [])

def kv (ts : Toks) (key : String) : String :=
  match ts.find? (fun t => t.startsWith (key ++ "=")) with
  | some t => (t.drop (key.length + 1)).toString
  | none => ""

def getField (fs : List (String × Toks)) (tag : String) : Option Toks :=
  (fs.find? (·.1 == tag)).map (·.2)
def getFields (fs : List (String × Toks)) (tag : String) : List Toks :=
  (fs.filter (·.1 == tag)).map (·.2)

/-! ### certificates from minimized descriptions -/

structure Descr where
  cs : List Con
  grouped : List (String × List Con)
  gs : List Gen
  nCons : Nat
  nEq : Nat

def parseDescr (n : Nat) (ts : Toks) : Descr :=
  match splitBar ts with
  | [a, b] =>
    let (g, _) := parseCSGrouped n a
    let gs := (parseGS n b).1
    { cs := g.flatMap (·.2), grouped := g, gs := gs, nCons := g.length,
      nEq := (g.filter (·.1 == "=")).length }
  | _ => { cs := [], grouped := [], gs := [], nCons := 0, nEq := 0 }

def Descr.bhrz (n : Nat) (d : Descr) : BHRZ03Cert :=
  mkBHRZ03 n d.nCons d.nEq (d.gs.filter fun g => g.kind == .point || g.kind == .cpoint).length
    (d.gs.filter fun g => g.kind == .line).length
    ((d.gs.filter fun g => g.kind == .ray).map (·.coords))

def Descr.h79 (n : Nat) (d : Descr) : H79Cert := mkH79 n d.nCons d.nEq

/-- every inequality row of a minimized system must be irredundant, and no row may be an implicit equality
    listed as an inequality (closed systems only) -/
def irredundant (n : Nat) (g : List (String × List Con)) : Bool :=
  let idx := List.range g.length
  idx.all fun i =>
    match g[i]? with
    | some (rel, rows) =>
      if rel == "=" then true
      else
        let others := (idx.filter (· ≠ i)).flatMap fun j => (g[j]?.map (·.2)).getD []
        rows.all fun c => !implies n others c
    | none => true

def ord2i (o : Ordering) : Int := match o with | .gt => 1 | .eq => 0 | .lt => -1

/-! ### boxes -/

/-- read a box from single-variable constraints; `none` if some row is not an interval constraint -/
def boxOfCons (n : Nat) (g : List (String × List Con)) : Option BoxM :=
  let init : BoxM := List.replicate n ⟨none, true, none, true⟩
  g.foldl (fun acc (rel, rows) =>
    match acc, rows.head? with
    | some b, some c =>
      let nzs := (List.range n).filter fun i => c.at i != 0
      match nzs with
      | [i] =>
        let a := c.at i
        let v : Rat := -(c.k : Rat) / (a : Rat)        -- a x + k ⋈ 0  ⇒  x ⋈ -k/a
        let strict := rel == ">"
        let I := b.getD i default
        let setLo (I : Itv) : Itv :=
          match I.lo with
          | some l => if l < v || (l == v && strict) then { I with lo := some v, loOpen := strict } else I
          | none => { I with lo := some v, loOpen := strict }
        let setHi (I : Itv) : Itv :=
          match I.hi with
          | some u => if v < u || (u == v && strict) then { I with hi := some v, hiOpen := strict } else I
          | none => { I with hi := some v, hiOpen := strict }
        let I' := if rel == "=" then setHi (setLo I) else if a > 0 then setLo I else setHi I
        some (b.set i I')
      | [] => some b
      | _ => none
    | _, _ => acc) (some init)

def itvSame (a b : Itv) : Bool :=
  a.lo == b.lo && (a.lo.isNone || a.loOpen == b.loOpen) && a.hi == b.hi && (a.hi.isNone || a.hiOpen == b.hiOpen)

def boxSame (a b : BoxM) : Bool := a.length == b.length && (List.zipWith itvSame a b).all id

def boxRank (stops : List Rat) (b : BoxM) : Nat := (b.map (Itv.rank stops)).foldl (· + ·) 0

/-! ### structural tags of a failing case (used only to match narrow known-finding predicates) -/

/-- dimension of the lineality space of a non-empty polyhedron: `n − rank` of its coefficient rows -/
def linDim (n : Nat) (cs : List Con) : Nat :=
  eqFree (List.range n) (cs.map fun c => ({ c with k := 0, strict := false } : Con))

/-- some strict row supports the closure in a face that is not a facet -/
def hasNonFacetStrict (n : Nat) (cs : List Con) : Bool :=
  let cl := relax cs
  let d := (⟨false, n, cl⟩ : RefPoly).affineDim
  cs.any fun c =>
    c.strict &&
      let face := cl ++ eqRows c.coeffs c.k
      feasible n face && (⟨false, n, face⟩ : RefPoly).affineDim + 1 < d

def tagsLin (dom op : String) (n : Nat) (sets : List (List Con)) : String :=
  let t1 := if sets.any (fun s => linDim n s > 0) then ["lineality"] else []
  let t2 := if dom == "N" && sets.any (hasNonFacetStrict n) then ["nnc_nonfacet_strict"] else []
  let t3 := if sets.any (fun s => s.any (·.strict)) then ["strict"] else []
  " tags=" ++ ",".intercalate (t1 ++ t2 ++ t3 ++ ["op_" ++ op])

/-! ### one step of a chain over a domain whose elements are printed as constraint systems -/

def judgeStepLin : M Unit := do
  let st ← get
  let h := st.hdr
  let n := h.n
  let ln := st.stepLn
  let fs := st.fields
  let cs (tag : String) : Option (List Con) := (getField fs tag).map fun t => (parseCS n t).1
  match cs "Y", cs "Z", cs "R" with
  | some Y, some Z, some R => do
    if !(subsetB n Y Z) then
      skip ln "precondition" "generated larger argument does not contain the smaller one"
      return
    -- sup
    judge ln "sup" (subsetB n Z R) s!"{h.dom} {h.op}: result does not contain the larger argument"
    -- the smaller argument is not changed as a set
    match cs "YA" with
    | some YA => judge ln "yconst" (equivB n Y YA) s!"{h.dom} {h.op}: the smaller argument changed its point set"
    | none => pure ()
    -- representation independence
    if h.exact then
      match cs "Y2", cs "Z2", cs "R2" with
      | some Y2, some Z2, some R2 =>
        if !(equivB n Y Y2 && equivB n Z Z2) then
          bad ln "rehist" s!"{h.dom}: a rebuilt copy of an argument denotes a different set"
        else
          judge ln "repind" (equivB n R R2)
            (s!"{h.dom} {h.op}: results differ on two representations of the same pair of sets" ++ tagsLin h.dom h.op n [Y, Z, Y2, Z2])
      | _, _, _ => pure ()
    -- tokens
    let lossy := !(subsetB n R Z)
    IO.println s!"info {ln} extrapolated={if lossy then 1 else 0} stationary={if subsetB n R Y then 1 else 0} universe={if R.isEmpty then 1 else 0}"
    match getField fs "T" with
    | some (t0 :: t1 :: rest) =>
      let tp0 := tokNat t0
      let tp1 := tokNat t1
      let RT := (parseCS n rest).1
      if tp0 == 0 then
        judge ln "token" (tp1 == 0 && equivB n RT R) s!"{h.dom} {h.op}: with 0 tokens the result must be the plain widening (tp {tp0}->{tp1})"
      else if lossy then
        judge ln "token" (tp1 + 1 == tp0 && equivB n RT Z)
          s!"{h.dom} {h.op}: plain widening loses precision: one token must be consumed and the object left unchanged (tp {tp0}->{tp1}, unchanged={equivB n RT Z})"
      else
        judge ln "token" (tp1 == tp0 && equivB n RT Z)
          s!"{h.dom} {h.op}: plain widening is exact: no token may be consumed (tp {tp0}->{tp1}, unchanged={equivB n RT Z})"
    | _ => pure ()
    -- limited / bounded
    for l in getFields fs "L" do
      match l with
      | kind :: rest =>
        match splitBar rest with
        | [a, flags, res] =>
          let (g, _) := parseCSGrouped n a
          let RL := (parseCS n res).1
          judge ln "lim_lower" (subsetB n Z RL) s!"{h.dom} {h.op} {kind}: limited result does not contain the larger argument"
          judge ln "lim_upper" (subsetB n RL R) s!"{h.dom} {h.op} {kind}: limited result is not inside the plain widening"
          let keepsAll := (List.zip g flags).all fun ((_, rows), f) =>
            f != "1" || !(subsetB n Z rows) || subsetB n RL rows
          judge ln "lim_keeps" keepsAll s!"{h.dom} {h.op} {kind}: a supplied constraint satisfied by the larger argument is violated by the result"
        | _ => skip ln "lim" "parse"
      | [] => pure ()
    -- certificates
    let stationary := subsetB n R Y
    if h.cert == "h79" || h.cert == "bhrz" || h.cert == "h79s" then
      match getField fs "CY", getField fs "CR", getField fs "CK" with
      | some cy, some cr, some ck =>
        let dY := parseDescr n cy
        let dR := parseDescr n cr
        let shape := h.cert == "h79s"
        -- the descriptions must describe the sets
        let gensOK (d : Descr) (S : List Con) : Option Bool :=
          if shape then some true
          else if d.gs.length > st.maxGens then none
          else some (gensWF n d.gs && checkDD n S d.gs)
        let adY := (⟨false, n, Y⟩ : RefPoly).affineDim
        let adR := (⟨false, n, R⟩ : RefPoly).affineDim
        let closed := h.dom != "N"
        let fieldsOK := equivB n Y dY.cs && equivB n R dR.cs
          && (shape || (adY + dY.nEq == n && adR + dR.nEq == n))
          && (!closed || shape || (irredundant n dY.grouped && irredundant n dR.grouped))
        match gensOK dY Y, gensOK dR R with
        | some gy, some gr =>
          if !(fieldsOK && gy && gr) then
            bad ln "cert_fields" s!"{h.dom}: minimized descriptions do not describe the set / are redundant / wrong number of equalities (affdim K1 {adY},{adR}; eq {dY.nEq},{dR.nEq})"
          else do
            ok ln "cert_fields"
            -- model vs real compare
            let rec findK (ts : Toks) (key : String) : Toks :=
              match ts with
              | [] => []
              | t :: r => if t == key then r else findK r key
            if !shape then
              let hk := findK ck "h79"
              let bk := findK ck "bhrz"
              let hY := dY.h79 n; let hR := dR.h79 n
              let bY := dY.bhrz n; let bR := dR.bhrz n
              let m1 := s!"{ord2i (hY.comparePh hR)} {ord2i (hY.compare hR)} {ord2i (hR.compare hY)}"
              let r1 := " ".intercalate (hk.take 3)
              let m2 := s!"{ord2i (bY.comparePh bR)} {ord2i (bY.compare bR)} {ord2i (bR.compare bY)}"
              let r2 := " ".intercalate (bk.take 3)
              judge ln "cert_model" (m1 == r1 && m2 == r2)
                s!"{h.dom}: compare(ph)/compare(cert)/reverse: H79 model [{m1}] real [{r1}]; BHRZ03 model [{m2}] real [{r2}]"
              if (bk.getD 3 "11") != "11" then bad ln "cert_ok" s!"BHRZ03_Certificate::OK() false: {bk.getD 3 ""}"
              if !(bY.ok n && bR.ok n) then bad ln "cert_ok" "model OK() false on recomputed certificate"
            else
              let hk := findK ck "h79s"
              let hY : H79Cert := ⟨adY, dY.nCons⟩; let hR : H79Cert := ⟨adR, dR.nCons⟩
              let m1 := s!"{ord2i (hY.comparePh hR)} {ord2i (hY.compare hR)} {ord2i (hR.compare hY)}"
              let r1 := " ".intercalate (hk.take 3)
              if h.exact then
                judge ln "cert_model" (m1 == r1) s!"{h.dom}: H79 certificate of shapes: model [{m1}] real [{r1}]"
            -- decrease
            if h.conv then
              if stationary then ok ln "cert_decrease"
              else
                let dec :=
                  if h.cert == "bhrz" then
                    let bY := dY.bhrz n; let bR := dR.bhrz n
                    bY.comparePh bR == .gt && bY.affineDim ≤ bR.affineDim && bY.linSpaceDim ≤ bR.linSpaceDim
                  else
                    let hY : H79Cert := ⟨adY, dY.nCons⟩; let hR : H79Cert := ⟨adR, dR.nCons⟩
                    hY.comparePh hR == .gt && hY.affineDim ≤ hR.affineDim
                judge ln "cert_decrease" dec
                  (s!"{h.dom} {h.op}: non-stationary step does not decrease the {h.cert} certificate: Y (aff {adY}, cons {dY.nCons}, gens {dY.gs.length}) R (aff {adR}, cons {dR.nCons}, gens {dR.gs.length})" ++ tagsLin h.dom h.op n [Y, R])
        | _, _ => skip ln "cert_fields" "size-skipped"
      | _, _, _ =>
        if h.conv then skip ln "cert_decrease" "no-certificate-lines"
    else if h.cert == "box" then
      let gY := (getField fs "Y").map fun t => (parseCSGrouped n t).1
      let gZ := (getField fs "Z").map fun t => (parseCSGrouped n t).1
      let gR := (getField fs "R").map fun t => (parseCSGrouped n t).1
      match gY.bind (boxOfCons n), gZ.bind (boxOfCons n), gR.bind (boxOfCons n) with
      | some bY, some bZ, some bR =>
        let model := BoxM.cc76 h.stops bZ bY
        judge ln "box_model" (boxSame model bR) s!"{h.dom} {h.op}: result differs from the interval model (stop points {h.stops})"
        if stationary then ok ln "cert_decrease"
        else
          judge ln "cert_decrease" (decide (boxRank h.stops bR < boxRank h.stops bY))
            s!"{h.dom} {h.op}: non-stationary step does not decrease the stop-point rank ({boxRank h.stops bY} -> {boxRank h.stops bR})"
      | _, _, _ => skip ln "box_model" "not-a-box"
  | _, _, _ => skip ln "step" "incomplete"

/-! ### grids (K2) -/

namespace G
open PPLV.Lattice

/-- `m (a_0 … a_{n-1} b f)*` -/
def parseCgs (n : Nat) (ts : Toks) : List Cg × Toks :=
  match ts with
  | m :: rest =>
    let rec go (k : Nat) (ts : Toks) (acc : List Cg) : List Cg × Toks :=
      match k with
      | 0 => (acc.reverse, ts)
      | k + 1 =>
        let a := (ts.take n).map fun t => ((tokInt t : Int) : Rat)
        let r := ts.drop n
        let b : Rat := (tokInt (r.headD "0") : Int)
        let f : Rat := (tokInt ((r.drop 1).headD "0") : Int)
        go k (r.drop 2) ({ a := a, b := b, f := f } :: acc)
    go (tokNat m) rest []
  | [] => ([], [])

def gridOf (n : Nat) (cs : List Cg) : GridGens := consToGens n cs
def sub (a b : GridGens) : Bool := PPLV.Lattice.subsetB a b
def eqv (a b : GridGens) : Bool := PPLV.Lattice.equivB a b

def certOf (cs : List Cg) : GridCert :=
  { numEqualities := (cs.filter fun c => c.f == 0).length,
    numProperCongruences := (cs.filter fun c => c.f != 0).length }

end G

def judgeStepGrid : M Unit := do
  let st ← get
  let h := st.hdr
  let n := h.n
  let ln := st.stepLn
  let fs := st.fields
  let gr (tag : String) : Option PPLV.Lattice.GridGens := (getField fs tag).map fun t => G.gridOf n (G.parseCgs n t).1
  match gr "Y", gr "Z", gr "R" with
  | some Y, some Z, some R => do
    if !(G.sub Y Z) then
      skip ln "precondition" "generated larger argument does not contain the smaller one"
      return
    judge ln "sup" (G.sub Z R) s!"G {h.op}: result does not contain the larger argument"
    match gr "YA" with
    | some YA => judge ln "yconst" (G.eqv Y YA) s!"G {h.op}: the smaller argument changed its point set"
    | none => pure ()
    match gr "Y2", gr "Z2", gr "R2" with
    | some Y2, some Z2, some R2 =>
      if !(G.eqv Y Y2 && G.eqv Z Z2) then bad ln "rehist" "G: a rebuilt copy of an argument denotes a different set"
      else
        let zc := ((getField fs "Z").map fun t => (G.parseCgs n t).1).getD []
        let tag := if (zc.filter fun c => c.f != 0).length ≥ 2 then " tags=grid_two_proper" else " tags="
        judge ln "repind" (G.eqv R R2) (s!"G {h.op}: results differ on two representations of the same pair of sets" ++ tag)
    | _, _, _ => pure ()
    let lossy := !(G.sub R Z)
    IO.println s!"info {ln} extrapolated={if lossy then 1 else 0} stationary={if G.sub R Y then 1 else 0} universe=0"
    match getField fs "T" with
    | some (t0 :: t1 :: rest) =>
      let tp0 := tokNat t0
      let tp1 := tokNat t1
      let RT := G.gridOf n (G.parseCgs n rest).1
      if tp0 == 0 then
        judge ln "token" (tp1 == 0 && G.eqv RT R) s!"G {h.op}: with 0 tokens the result must be the plain widening (tp {tp0}->{tp1})"
      else if lossy then
        judge ln "token" (tp1 + 1 == tp0 && G.eqv RT Z)
          s!"G {h.op}: plain widening loses precision: one token must be consumed and the object left unchanged (tp {tp0}->{tp1}, unchanged={G.eqv RT Z})"
      else
        judge ln "token" (tp1 == tp0 && G.eqv RT Z)
          s!"G {h.op}: plain widening is exact: no token may be consumed (tp {tp0}->{tp1}, unchanged={G.eqv RT Z})"
    | _ => pure ()
    for l in getFields fs "L" do
      match l with
      | kind :: rest =>
        match splitBar rest with
        | [a, _flags, res] =>
          let cgs := (G.parseCgs n a).1
          let RL := G.gridOf n (G.parseCgs n res).1
          let nonint := match Z with
            | .empty => false
            | .gens g => (g.pt :: g.params).any fun v => v.any fun q => q.den != 1
          judge ln "lim_lower" (G.sub Z RL) (s!"G {h.op} {kind}: limited result does not contain the larger argument" ++ (if nonint then " tags=grid_nonintegral" else " tags="))
          judge ln "lim_upper" (G.sub RL R) s!"G {h.op} {kind}: limited result is not inside the plain widening"
          let keepsAll := cgs.all fun c => !(PPLV.Lattice.satCgB Z c) || PPLV.Lattice.satCgB RL c
          judge ln "lim_keeps" keepsAll s!"G {h.op} {kind}: a supplied congruence satisfied by the larger argument is violated by the result"
        | _ => skip ln "lim" "parse"
      | [] => pure ()
    let stationary := G.sub R Y
    match getField fs "CY", getField fs "CR", getField fs "CK" with
    | some cy, some cr, some ck =>
      let cY := (G.parseCgs n cy).1
      let cR := (G.parseCgs n cr).1
      let kY := G.certOf cY; let kR := G.certOf cR
      let fieldsOK := G.eqv (G.gridOf n cY) Y && G.eqv (G.gridOf n cR) R
        && kY.numEqualities + PPLV.Lattice.affineDim Y == n && kR.numEqualities + PPLV.Lattice.affineDim R == n
      if !fieldsOK then bad ln "cert_fields" s!"G: minimized congruences do not describe the set / wrong number of equalities"
      else do
        ok ln "cert_fields"
        let m := s!"{ord2i (kY.comparePh kR)} {ord2i (kY.compare kR)} {ord2i (kR.compare kY)}"
        let r := " ".intercalate ((ck.drop 1).take 3)
        judge ln "cert_model" (m == r) s!"G: Grid_Certificate compare(gr)/compare(cert)/reverse: model [{m}] real [{r}]"
        if stationary then ok ln "cert_decrease"
        else
          judge ln "cert_decrease" (kY.comparePh kR == .gt)
            s!"G {h.op}: non-stationary step does not decrease the grid certificate: Y (eq {kY.numEqualities}, pc {kY.numProperCongruences}) R (eq {kR.numEqualities}, pc {kR.numProperCongruences})"
    | _, _, _ => skip ln "cert_decrease" "no-certificate-lines"
  | _, _, _ => skip ln "step" "incomplete"

/-! ### powersets -/

/-- `p ⊆ q₁ ∪ … ∪ q_k`, exactly: split `p` against the constraints of `q₁` -/
def subUnion (n : Nat) (fuel : Nat) (p : List Con) (qs : List (List Con)) : Bool :=
  match fuel with
  | 0 => false
  | fuel + 1 =>
    if !feasible n p then true
    else match qs with
      | [] => false
      | q :: rest =>
        if subsetB n p q then true
        else q.all fun c => subUnion n fuel (c.neg :: p) rest

def parsePS (n : Nat) (ts : Toks) : List (List Con) :=
  match ts with
  | k :: rest =>
    let rec go (k : Nat) (ts : Toks) (acc : List (List Con)) : List (List Con) :=
      match k with
      | 0 => acc.reverse
      | k + 1 => let (cs, ts') := parseCS n ts; go k ts' (cs :: acc)
    go (tokNat k) rest []
  | [] => []

def entails (n : Nat) (X Y : List (List Con)) : Bool := X.all fun p => Y.any fun q => subsetB n p q
def coveredBy (n : Nat) (X Y : List (List Con)) : Bool :=
  X.all fun p => (Y.any fun q => subsetB n p q) || subUnion n 12 p Y

def judgeStepPS : M Unit := do
  let st ← get
  let h := st.hdr
  let n := h.n
  let ln := st.stepLn
  let fs := st.fields
  let ps (tag : String) : Option (List (List Con)) := (getField fs tag).map (parsePS n)
  match ps "Y", ps "Z", ps "R" with
  | some Y, some Z, some R => do
    if !(entails n Y Z) then
      skip ln "precondition" "the smaller powerset does not entail the larger one"
      return
    judge ln "sup" (coveredBy n Z R) s!"{h.dom} {h.op}: the result does not cover the larger argument"
    IO.println s!"info {ln} extrapolated={if entails n R Z then 0 else 1} stationary={if entails n R Y then 1 else 0} universe=0"
    match ps "YA" with
    | some YA => judge ln "yconst" (entails n Y YA && entails n YA Y) s!"{h.dom} {h.op}: the smaller argument changed"
    | none => pure ()
    match ps "Y2", ps "Z2", ps "R2" with
    | some Y2, some Z2, some R2 =>
      if !(entails n Y Y2 && entails n Y2 Y && entails n Z Z2 && entails n Z2 Z) then
        bad ln "rehist" s!"{h.dom}: a rebuilt copy of an argument denotes a different collection"
      else
        if h.conv then
          judge ln "repind" (entails n R R2 && entails n R2 R)
            (s!"{h.dom} {h.op}: results differ on two representations of the same pair of collections (|R|={R.length}, |R2|={R2.length})" ++ tagsLin h.dom h.op n (Y ++ Z))
    | _, _, _ => pure ()
    if h.conv then
      let stationary := entails n R Y && entails n Y R
      if stationary then ok ln "cert_decrease"
      else
        let dY := (getFields fs "CYD").map (parseDescr n)
        let dR := (getFields fs "CRD").map (parseDescr n)
        match (getField fs "CYH").map (parseDescr n), (getField fs "CRH").map (parseDescr n) with
        | some hY, some hR =>
          let gensY := dY.flatMap (·.gs)
          let gensR := dR.flatMap (·.gs)
          if gensY.length > st.maxGens + 3 || gensR.length > st.maxGens + 3 then skip ln "cert_fields" "size-skipped"
          else
            let descrOK := dY.length == Y.length && dR.length == R.length
              && (List.zip dY Y).all (fun (d, s) => equivB n d.cs s) && (List.zip dR R).all (fun (d, s) => equivB n d.cs s)
              && gensWF n gensY && gensWF n gensR && checkDD n hY.cs gensY && checkDD n hR.cs gensR
              && (dY ++ dR ++ [hY, hR]).all (fun d => (⟨false, n, d.cs⟩ : RefPoly).affineDim + d.nEq == n)
            if !descrOK then bad ln "cert_fields" s!"{h.dom}: minimized descriptions of the disjuncts / of the hull do not describe them"
            else do
              ok ln "cert_fields"
              let less :=
                if h.cert == "h79" then
                  let a := hY.h79 n; let b := hR.h79 n
                  match a.comparePh b with
                  | .gt => decide (a.affineDim ≤ b.affineDim)
                  | .eq => (dR.length == 1 && dY.length > 1) ||
                           (dY.length > 1 && isCertMultisetStabilizing H79Cert.compare (dR.map (·.h79 n)) (dY.map (·.h79 n)))
                  | .lt => false
                else
                  let a := hY.bhrz n; let b := hR.bhrz n
                  match a.comparePh b with
                  | .gt => decide (a.affineDim ≤ b.affineDim) && decide (a.linSpaceDim ≤ b.linSpaceDim)
                  | .eq => (dR.length == 1 && dY.length > 1) ||
                           (dY.length > 1 && isCertMultisetStabilizing BHRZ03Cert.compare (dR.map (·.bhrz n)) (dY.map (·.bhrz n)))
                  | .lt => false
              judge ln "cert_decrease" less
                (s!"{h.dom} {h.op}: non-stationary step does not decrease the BHZ03 certificate (hull, singleton rule, multiset): |Y|={dY.length} |R|={dR.length}" ++ tagsLin h.dom h.op n (Y ++ R))
        | _, _ => skip ln "cert_decrease" "no-certificate-lines"
  | _, _, _ => skip ln "step" "incomplete"

def parsePSG (n : Nat) (ts : Toks) : List PPLV.Lattice.GridGens :=
  match ts with
  | k :: rest =>
    let rec go (k : Nat) (ts : Toks) (acc : List PPLV.Lattice.GridGens) : List PPLV.Lattice.GridGens :=
      match k with
      | 0 => acc.reverse
      | k + 1 => let (cs, ts') := G.parseCgs n ts; go k ts' (G.gridOf n cs :: acc)
    go (tokNat k) rest []
  | [] => []

def entailsG (X Y : List PPLV.Lattice.GridGens) : Bool := X.all fun p => Y.any fun q => G.sub p q

def judgeStepPSG : M Unit := do
  let st ← get
  let h := st.hdr
  let n := h.n
  let ln := st.stepLn
  let fs := st.fields
  let ps (tag : String) : Option (List PPLV.Lattice.GridGens) := (getField fs tag).map (parsePSG n)
  match ps "Y", ps "Z", ps "R" with
  | some Y, some Z, some R => do
    if !(entailsG Y Z) then
      skip ln "precondition" "the smaller powerset does not entail the larger one"
      return
    judge ln "sup" (entailsG Z R) s!"PG {h.op}: a disjunct of the larger argument is in no disjunct of the result"
    IO.println s!"info {ln} extrapolated={if entailsG R Z then 0 else 1} stationary={if entailsG R Y then 1 else 0} universe=0"
    match ps "YA" with
    | some YA => judge ln "yconst" (entailsG Y YA && entailsG YA Y) s!"PG {h.op}: the smaller argument changed"
    | none => pure ()
    match ps "Y2", ps "Z2", ps "R2" with
    | some Y2, some Z2, some R2 =>
      if !(entailsG Y Y2 && entailsG Y2 Y && entailsG Z Z2 && entailsG Z2 Z) then
        bad ln "rehist" "PG: a rebuilt copy of an argument denotes a different collection"
      else
        if h.conv then
          judge ln "repind" (entailsG R R2 && entailsG R2 R)
            s!"PG {h.op}: results differ on two representations of the same pair of collections (|R|={R.length}, |R2|={R2.length})"
    | _, _, _ => pure ()
    if h.conv then
      let stationary := entailsG R Y && entailsG Y R
      if stationary then ok ln "cert_decrease"
      else
        let cY := (getFields fs "CYD").map fun t => (G.parseCgs n t).1
        let cR := (getFields fs "CRD").map fun t => (G.parseCgs n t).1
        match (getField fs "CYH").map (fun t => (G.parseCgs n t).1), (getField fs "CRH").map (fun t => (G.parseCgs n t).1) with
        | some hY, some hR =>
          let gY := G.gridOf n hY; let gR := G.gridOf n hR
          let descrOK := cY.length == Y.length && cR.length == R.length
            && (List.zip cY Y).all (fun (c, s) => G.eqv (G.gridOf n c) s) && (List.zip cR R).all (fun (c, s) => G.eqv (G.gridOf n c) s)
            && Y.all (fun s => G.sub s gY) && R.all (fun s => G.sub s gR)
            && G.eqv gY (Y.foldl PPLV.Lattice.join .empty) && G.eqv gR (R.foldl PPLV.Lattice.join .empty)
          if !descrOK then bad ln "cert_fields" "PG: minimized congruences of the disjuncts / of the join do not describe them"
          else do
            ok ln "cert_fields"
            let a := G.certOf hY; let b := G.certOf hR
            let less :=
              match a.comparePh b with
              | .gt => true
              | .eq => (cR.length == 1 && cY.length > 1) ||
                       (cY.length > 1 && isCertMultisetStabilizing GridCert.compare (cR.map G.certOf) (cY.map G.certOf))
              | .lt => false
            judge ln "cert_decrease" less
              s!"PG {h.op}: non-stationary step does not decrease the BHZ03 certificate (join, singleton rule, multiset): |Y|={cY.length} |R|={cR.length}"
        | _, _ => skip ln "cert_decrease" "no-certificate-lines"
  | _, _, _ => skip ln "step" "incomplete"

def judgeGCert : M Unit := do
  let st ← get
  let ln := st.stepLn
  let fs := st.fields
  match getField fs "cert", getField fs "CY", getField fs "CR", getField fs "CK" with
  | some (_ :: _ :: _ :: nn :: _incl :: _), some cy, some cr, some ck =>
    let n := tokNat nn
    let cY := (G.parseCgs n cy).1
    let cR := (G.parseCgs n cr).1
    let kY := G.certOf cY; let kR := G.certOf cR
    let gY := G.gridOf n cY; let gR := G.gridOf n cR
    if !(kY.numEqualities + PPLV.Lattice.affineDim gY == n && kR.numEqualities + PPLV.Lattice.affineDim gR == n) then
      bad ln "cert_fields" "G: number of equalities of the minimized congruences ≠ n − affine dimension"
    else do
      ok ln "cert_fields"
      let m := s!"{ord2i (kY.comparePh kR)} {ord2i (kY.compare kR)} {ord2i (kR.compare kY)}"
      let r := " ".intercalate ((ck.drop 1).take 3)
      judge ln "cert_model" (m == r) s!"G: Grid_Certificate compare(gr)/compare(cert)/reverse: model [{m}] real [{r}]"
      let rep := (ck.drop 5).take 2
      judge ln "cert_value" (rep == ["0", "0"]) s!"G: the certificate of a re-represented copy of the same grid differs: {rep}"
  | _, _, _, _ => skip ln "cert" "incomplete"

/-! ### standalone certificate lines -/

def judgeCert : M Unit := do
  let st ← get
  let ln := st.stepLn
  let fs := st.fields
  match getField fs "cert", getField fs "CY", getField fs "CR", getField fs "CK" with
  | some (_ :: _ :: dom :: nn :: incl :: _), some cy, some cr, some ck =>
    let n := tokNat nn
    let dY := parseDescr n cy
    let dR := parseDescr n cr
    if dY.gs.length > st.maxGens || dR.gs.length > st.maxGens then skip ln "cert_fields" "size-skipped"
    else
      let adY := (⟨false, n, dY.cs⟩ : RefPoly).affineDim
      let adR := (⟨false, n, dR.cs⟩ : RefPoly).affineDim
      let closed := dom != "N"
      let fieldsOK := gensWF n dY.gs && checkDD n dY.cs dY.gs && gensWF n dR.gs && checkDD n dR.cs dR.gs
        && adY + dY.nEq == n && adR + dR.nEq == n
        && (!closed || (irredundant n dY.grouped && irredundant n dR.grouped))
      if !fieldsOK then bad ln "cert_fields" s!"{dom}: minimized constraints and generators disagree / redundant / wrong number of equalities"
      else do
        ok ln "cert_fields"
        let rec findK (ts : Toks) (key : String) : Toks :=
          match ts with
          | [] => []
          | t :: r => if t == key then r else findK r key
        let hk := findK ck "h79"
        let bk := findK ck "bhrz"
        let hY := dY.h79 n; let hR := dR.h79 n
        let bY := dY.bhrz n; let bR := dR.bhrz n
        let phH := if incl == "1" then s!"{ord2i (hY.comparePh hR)}" else "9"
        let phB := if incl == "1" then s!"{ord2i (bY.comparePh bR)}" else "9"
        let m1 := s!"{phH} {ord2i (hY.compare hR)} {ord2i (hR.compare hY)}"
        let m2 := s!"{phB} {ord2i (bY.compare bR)} {ord2i (bR.compare bY)}"
        let r1 := " ".intercalate (hk.take 3)
        let r2 := " ".intercalate (bk.take 3)
        judge ln "cert_model" (m1 == r1 && m2 == r2)
          s!"{dom}: compare(ph)/compare(cert)/reverse: H79 model [{m1}] real [{r1}]; BHRZ03 model [{m2}] real [{r2}]"
        if (bk.getD 3 "11") != "11" then bad ln "cert_ok" s!"BHRZ03_Certificate::OK() false: {bk.getD 3 ""}"
        -- which component decided the BHRZ03 comparison (coverage)
        let level :=
          if bY.affineDim != bR.affineDim then 0 else if bY.linSpaceDim != bR.linSpaceDim then 1
          else if bY.numConstraints != bR.numConstraints then 2 else if bY.numPoints != bR.numPoints then 3
          else if bY.numRaysNullCoord != bR.numRaysNullCoord then 4 else 5
        IO.println s!"info {ln} level={level} incl={incl}"
        let rep := findK ck "rep"
        if !rep.isEmpty then
          judge ln "cert_value" (rep.all (· == "0"))
            (s!"{dom}: certificates of two representations of the same polyhedron differ (H79, BHRZ03, H79, BHRZ03): {rep}" ++ tagsLin dom "cert" n [dY.cs])
  | _, _, _, _ => skip ln "cert" "incomplete"

/-! ### main loop -/

def processLine (ln : Nat) (line : String) : M Unit := do
  let ts := (line.trimAscii.toString.splitOn " ").filter (· ≠ "")
  match ts with
  | "chain" :: _id :: dom :: n :: op :: rest => do
    let stops :=
      let rec after (ts : Toks) : Toks :=
        match ts with
        | [] => []
        | t :: r => if t == "stops" then r else after r
      match after rest with
      | k :: vs => (vs.take (tokNat k)).map parseRat
      | [] => []
    modify fun s => { s with hdr := { dom := dom, n := tokNat n, op := op, conv := kv rest "conv" == "1",
                                       cert := kv rest "cert", exact := kv rest "exact" == "1", stops := stops, ln := ln },
                             inStep := false, fields := [] }
  | "step" :: _ => modify fun s => { s with stepLn := ln, inStep := true, fields := [], lastRun := "" }
  | "cert" :: _ => modify fun s => { s with stepLn := ln, inStep := true, fields := [("cert", ts)], lastRun := "", hdr := { s.hdr with dom := "cert" } }
  | "gcert" :: _ => modify fun s => { s with stepLn := ln, inStep := true, fields := [("cert", ts)], lastRun := "", hdr := { s.hdr with dom := "gcert" } }
  | "run" :: what :: _ => modify fun s => { s with lastRun := what }
  | "endstep" :: _ => do
    let d := (← get).hdr.dom
    if d == "C" || d == "N" || d == "BQ" || d == "BD" || d == "OQ" || d == "OD" || d == "XQ" then judgeStepLin
    else if d == "G" then judgeStepGrid
    else if d == "PC" || d == "PN" then judgeStepPS
    else if d == "PG" then judgeStepPSG
    modify fun s => { s with inStep := false, fields := [] }
  | "endcert" :: _ => do
    if (← get).hdr.dom == "gcert" then judgeGCert else judgeCert
    modify fun s => { s with inStep := false, fields := [] }
  | "endchain" :: k :: status :: _ => do
    let st ← get
    if status == "limit" then
      if st.hdr.conv then bad st.hdr.ln "overlong" s!"{st.hdr.dom} {st.hdr.op}: chain not stationary after {k} steps"
      else skip st.hdr.ln "overlong" s!"extrapolation-{st.hdr.op}-{k}"
    else if status == "capped" then skip st.hdr.ln "overlong" s!"disjunct-cap-{k}"
    else ok st.hdr.ln "chain_end"
  | "exc" :: cls => do
    let st ← get
    bad (if st.inStep then st.stepLn else st.hdr.ln) "exc" s!"{st.hdr.dom} {st.hdr.op} during {st.lastRun}: {" ".intercalate cls}"
  | "crash" :: sig => do
    let st ← get
    bad (if st.inStep then st.stepLn else st.hdr.ln) "crash" s!"{st.hdr.dom} {st.hdr.op} during {st.lastRun}: {" ".intercalate sig}"
  | tag :: rest => do
    if (← get).inStep then modify fun s => { s with fields := s.fields ++ [(tag, rest)] }
  | [] => pure ()

partial def loop (h : IO.FS.Stream) (ln : Nat) : M Unit := do
  let line ← h.getLine
  if line.isEmpty then return ()
  let t0 ← IO.monoMsNow
  processLine ln line
  let t1 ← IO.monoMsNow
  if t1 - t0 > 2000 then IO.eprintln s!"slow {ln} {t1 - t0}ms {line.take 60}"
  loop h (ln + 1)

def main (args : List String) : IO UInt32 := do
  let maxG := match args with
    | ["--max-gens", k] => k.toNat?.getD 9
    | _ => 9
  let stdin ← IO.getStdin
  let ((), st) ← (loop stdin 1).run { maxGens := maxG }
  IO.println s!"summary ok={st.nOk} mismatch={st.nBad} skipped={st.nSkip}"
  return 0
