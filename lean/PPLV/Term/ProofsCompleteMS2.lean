import PPLV.Term.ProofsCompleteMS

/-! # C18 completeness of the Mesnard–Serebrenik encoding, part 2: the single system, the empty
relation, the projected space, the decision

* `ms_complete_of_farkas`: `termination_test_MS` / `one_affine_ranking_function_MS` on a non-empty
  closed relation: every ranking function (normal form) extends to a solution of the single system.
* `ms_complete_empty_of_farkas`: on an empty relation the system is satisfiable too (`μ = 0`,
  `y` = the infeasibility multipliers, `z = 0`): the real `termination_test_MS(cs)` has no
  emptiness test on that path and answers `true` through the encoding.
* `ms_space_exact_of_farkas`: `all_affine_ranking_functions_MS` (termination.cc:503-540): the
  intersection of the two projected solution spaces is exactly the set of ranking functions.
* `termination_test_MS_iff_of_farkas`: the satisfiability test decides existence.

`FarkasImplied` / `FarkasInfeasible` are explicit hypotheses (proved in
`ProofsCompleteFarkas.lean`). -/
namespace PPLV.Term
open PPLV.Lin

/-! ### writing the rows of the two systems from multipliers -/

/-- sufficient conditions, in terms of multipliers `y`, for a solution of system 1 -/
theorem fillMS1_of (n : Nat) (cs : List Con) (yb : Nat) (hyb : n ≤ yb) (sol y : Val)
    (hsol : ∀ i < cs.length, sol (yb + i) = y i) (hy0 : ∀ i < cs.length, 0 ≤ y i)
    (hk : dot (consts cs) y ≤ -1)
    (hx : ∀ j < n, dot (col cs (n + j)) y = sol j)
    (hp : ∀ j < n, dot (col cs j) y = - sol j) : Sat (fillMS1 n cs yb) sol := by
  have hd : ∀ l : List Int, l.length = cs.length → dot l (fun i => sol (i + yb)) = dot l y :=
    fun l hl => dot_shift_eq l sol y yb (fun i hi => hsol i (by omega))
  unfold fillMS1
  rw [Sat_append, Sat_append, Sat_append, Sat_nonnegRows, Sat_singleton, sat_geRow,
    Sat_flatMap, Sat_flatMap]
  refine ⟨⟨⟨fun i hi => ?_, ?_⟩, fun j hj => ?_⟩, fun j hj => ?_⟩
  · rw [hsol i hi]; exact hy0 i hi
  · rw [dot_replicate_zero_append, dot_map_neg, hd _ (length_consts cs)]
    push_cast
    linarith
  · have hj' : j < n := List.mem_range.mp hj
    rw [Sat_eqRows, dot_headRow yb j (by omega), hd _ (length_col cs (n + j)), hx j hj']
    push_cast
    ring
  · have hj' : j < n := List.mem_range.mp hj
    rw [Sat_eqRows, dot_headRow yb j (by omega), hd _ (length_col cs j), hp j hj']
    push_cast
    ring

/-- sufficient conditions, in terms of multipliers `z`, for a solution of system 2 -/
theorem fillMS2_of (n : Nat) (cs : List Con) (zb : Nat) (hzb : n < zb) (sol z : Val)
    (hsol : ∀ i < cs.length + 2, sol (zb + i) = z i) (hz0 : ∀ i < cs.length + 2, 0 ≤ z i)
    (hk : dot (consts cs) z ≤ z cs.length - z (cs.length + 1))
    (hx : ∀ j < n, dot (col cs (n + j)) z = sol j)
    (hp : ∀ j < n, dot (col cs j) z = 0)
    (h0 : z cs.length - z (cs.length + 1) = sol n) : Sat (fillMS2 n cs zb) sol := by
  have hd : ∀ l : List Int, l.length = cs.length → dot l (fun i => sol (i + zb)) = dot l z :=
    fun l hl => dot_shift_eq l sol z zb (fun i hi => hsol i (by omega))
  have htail : ∀ v : Val, dot [1, -1] v = v 0 - v 1 := by
    intro v; simp [dot_cons, Val.tail]; ring
  have hsm : sol (0 + cs.length + zb) = z cs.length := by
    rw [← hsol cs.length (by omega)]; congr 1; omega
  have hsm1 : sol (1 + cs.length + zb) = z (cs.length + 1) := by
    rw [← hsol (cs.length + 1) (by omega)]; congr 1; omega
  unfold fillMS2
  simp only
  rw [Sat_append, Sat_append, Sat_append, Sat_append, Sat_nonnegRows, Sat_singleton, sat_geRow,
    Sat_flatMap, Sat_flatMap, Sat_eqRows]
  refine ⟨⟨⟨⟨fun i hi => ?_, ?_⟩, fun j hj => ?_⟩, fun j hj => ?_⟩, ?_⟩
  · rw [hsol i hi]; exact hz0 i hi
  · rw [dot_replicate_zero_append, dot_append, dot_map_neg, List.length_map, length_consts, htail,
      hd _ (length_consts cs)]
    show 0 ≤ - dot (consts cs) z + (sol (0 + cs.length + zb) - sol (1 + cs.length + zb))
      + ((0 : Int) : Rat)
    rw [hsm, hsm1]
    push_cast
    linarith
  · have hj' : j < n := List.mem_range.mp hj
    rw [Sat_eqRows, dot_headRow zb j (by omega), hd _ (length_col cs (n + j)), hx j hj']
    push_cast
    ring
  · have hj' : j < n := List.mem_range.mp hj
    rw [Sat_eqRows, dot_replicate_zero_append, hd _ (length_col cs j), hp j hj']
    push_cast
    ring
  · rw [dot_headRow zb n hzb, dot_replicate_zero_append, htail]
    show ((-1 : Int) : Rat) * sol n + (sol (0 + cs.length + zb) - sol (1 + cs.length + zb))
      + ((0 : Int) : Rat) = 0
    rw [hsm, hsm1, h0]
    push_cast
    ring

/-! ### the single system -/

/-- **completeness of `termination_test_MS` / `one_affine_ranking_function_MS`** on a non-empty
    closed relation: every ranking function in normal form is the `μ`-part of a solution -/
theorem ms_complete_of_farkas (hF : FarkasImplied) (n : Nat) (cs : List Con) (hwf : WF (2*n) cs)
    (hns : ∀ c ∈ cs, c.strict = false) (hne : ∃ w, Sat cs w) (mu : Val)
    (h : Spec.isRanking n (sem cs) mu) :
    ∃ sol, Sat (msSystem n cs) sol ∧ ∀ j ≤ n, sol j = mu j := by
  obtain ⟨y, _, hy⟩ := fillMS1_complete hF n cs hwf hns hne mu (fun w hw => (h w hw).2)
  obtain ⟨z, _, hz⟩ := fillMS2_complete hF n cs hwf hns hne mu (fun w hw => (h w hw).1)
  let sol : Val := fun j =>
    if j ≤ n then mu j else if j < n + 1 + cs.length then y (j - (n + 1))
    else z (j - (n + 1 + cs.length))
  have hlo : ∀ j ≤ n, sol j = mu j := fun j hj => by simp only [sol, hj, if_true]
  refine ⟨sol, ?_, hlo⟩
  unfold msSystem
  rw [Sat_append]
  refine ⟨hy (n + 1) sol (by omega) (fun j hj => hlo j (by omega)) (fun i hi => ?_),
    hz (n + 1 + cs.length) sol (by omega) hlo (fun i hi => ?_)⟩
  · have h1 : ¬ (n + 1 + i ≤ n) := by omega
    have h2 : n + 1 + i < n + 1 + cs.length := by omega
    simp only [sol, h1, h2, if_true, if_false, Nat.add_sub_cancel_left]
  · have h1 : ¬ (n + 1 + cs.length + i ≤ n) := by omega
    have h2 : ¬ (n + 1 + cs.length + i < n + 1 + cs.length) := by omega
    simp only [sol, h1, h2, if_false, Nat.add_sub_cancel_left]

/-- **the empty relation**: the single system is satisfiable (`μ = 0`, `y` = multipliers of the
    contradiction `−1 ≥ 0`, `z = 0`); this is the path the real `termination_test_MS` takes, it
    does not test the relation for emptiness -/
theorem ms_complete_empty_of_farkas (hE : FarkasInfeasible) (n : Nat) (cs : List Con)
    (hwf : WF (2*n) cs) (hns : ∀ c ∈ cs, c.strict = false) (hem : ¬ ∃ w, Sat cs w) :
    ∃ sol, Sat (msSystem n cs) sol := by
  obtain ⟨y, hy0, hycol, hyk⟩ := hE (2*n) cs hwf hns hem
  let sol : Val := fun j =>
    if j ≤ n then 0 else if j < n + 1 + cs.length then y (j - (n + 1)) else 0
  have hlo : ∀ j ≤ n, sol j = 0 := fun j hj => by simp only [sol, hj, if_true]
  refine ⟨sol, ?_⟩
  unfold msSystem
  rw [Sat_append]
  constructor
  · refine fillMS1_of n cs (n + 1) (by omega) sol y (fun i hi => ?_) (fun i _ => hy0 i)
      (le_of_eq hyk) (fun j hj => ?_) (fun j hj => ?_)
    · have h1 : ¬ (n + 1 + i ≤ n) := by omega
      have h2 : n + 1 + i < n + 1 + cs.length := by omega
      simp only [sol, h1, h2, if_true, if_false, Nat.add_sub_cancel_left]
    · rw [hycol (n + j) (by omega), hlo j (by omega)]
    · rw [hycol j (by omega), hlo j (by omega)]; ring
  · refine fillMS2_of n cs (n + 1 + cs.length) (by omega) sol Val.zero (fun i hi => ?_)
      (fun i _ => le_refl _) ?_ (fun j hj => ?_) (fun j hj => dot_zero _) ?_
    · have h1 : ¬ (n + 1 + cs.length + i ≤ n) := by omega
      have h2 : ¬ (n + 1 + cs.length + i < n + 1 + cs.length) := by omega
      simp only [sol, h1, h2, if_false, Val.zero]
    · rw [dot_zero]; simp [Val.zero]
    · rw [dot_zero, hlo j (by omega)]
    · rw [hlo n (le_refl _)]; simp [Val.zero]

/-! ### the projected space (`all_affine_ranking_functions_MS`) -/

/-- **`all_affine_ranking_functions_MS` is exact** (termination.cc:503-540: `ph1` = `cs_out1`
    projected on the first `n` dimensions and embedded with `μ_0` free, `ph2` = `cs_out2` projected
    on `n+1` dimensions, `mu_space = ph1 ∩ ph2`): on a non-empty closed relation, `μ` is a ranking
    function (normal form) iff its first `n` coordinates extend to a solution of system 1 and its
    first `n+1` coordinates extend to a solution of system 2 -/
theorem ms_space_exact_of_farkas (hF : FarkasImplied) (n : Nat) (cs : List Con)
    (hwf : WF (2*n) cs) (hns : ∀ c ∈ cs, c.strict = false) (hne : ∃ w, Sat cs w) (mu : Val) :
    Spec.isRanking n (sem cs) mu ↔
      ((∃ s1, (∀ j < n, s1 j = mu j) ∧ Sat (fillMS1 n cs (n + 1)) s1) ∧
       (∃ s2, (∀ j ≤ n, s2 j = mu j) ∧ Sat (fillMS2 n cs (n + 1)) s2)) := by
  constructor
  · intro h
    obtain ⟨y, _, hy⟩ := fillMS1_complete hF n cs hwf hns hne mu (fun w hw => (h w hw).2)
    obtain ⟨z, _, hz⟩ := fillMS2_complete hF n cs hwf hns hne mu (fun w hw => (h w hw).1)
    constructor
    · let s1 : Val := fun j => if j ≤ n then mu j else y (j - (n + 1))
      have hlo : ∀ j ≤ n, s1 j = mu j := fun j hj => by simp only [s1, hj, if_true]
      refine ⟨s1, fun j hj => hlo j (by omega),
        hy (n + 1) s1 (by omega) (fun j hj => hlo j (by omega)) (fun i _ => ?_)⟩
      have h1 : ¬ (n + 1 + i ≤ n) := by omega
      simp only [s1, h1, if_false, Nat.add_sub_cancel_left]
    · let s2 : Val := fun j => if j ≤ n then mu j else z (j - (n + 1))
      have hlo : ∀ j ≤ n, s2 j = mu j := fun j hj => by simp only [s2, hj, if_true]
      refine ⟨s2, hlo, hz (n + 1) s2 (by omega) hlo (fun i _ => ?_)⟩
      have h1 : ¬ (n + 1 + i ≤ n) := by omega
      simp only [s2, h1, if_false, Nat.add_sub_cancel_left]
  · rintro ⟨⟨s1, h1, S1⟩, ⟨s2, h2, S2⟩⟩
    intro w hw
    constructor
    · rw [valueAt_congr n mu s2 w (fun j hj => (h2 j hj).symm)]
      exact fillMS2_sound n cs _ (by omega) hwf s2 S2 w hw
    · rw [decrAt_congr n mu s1 w (fun j hj => (h1 j hj).symm)]
      exact fillMS1_sound n cs _ (by omega) hwf s1 S1 w hw

/-! ### well-formedness of the single system -/

private theorem wf_app (N : Nat) (as bs : List Con) (h1 : WF N as) (h2 : WF N bs) :
    WF N (as ++ bs) := by
  intro c hc
  rcases List.mem_append.mp hc with h | h
  · exact h1 c h
  · exact h2 c h

private theorem wf_eqRows (N : Nat) (cf : List Int) (k : Int) (h : cf.length ≤ N) :
    WF N (eqRows cf k) := by
  intro c hc
  simp only [eqRows, List.mem_cons, List.not_mem_nil, or_false] at hc
  rcases hc with rfl | rfl
  · exact h
  · simpa using h

private theorem wf_flatMap {α} (N : Nat) (l : List α) (f : α → List Con)
    (h : ∀ a ∈ l, WF N (f a)) : WF N (l.flatMap f) := by
  intro c hc
  obtain ⟨a, ha, hca⟩ := List.mem_flatMap.mp hc
  exact h a ha c hca

private theorem wf_nonnegRows (N off m : Nat) (h : off + m ≤ N) : WF N (nonnegRows off m) := by
  intro c hc
  simp only [nonnegRows, List.mem_map, List.mem_range] at hc
  obtain ⟨i, hi, rfl⟩ := hc
  simp [geRow, unitRow]
  omega

private theorem wf_single (N : Nat) (c : Con) (h : c.coeffs.length ≤ N) : WF N [c] := by
  intro d hd
  simp only [List.mem_cons, List.not_mem_nil, or_false] at hd
  subst hd; exact h

theorem length_headRow (N j : Nat) (hj : j < N) (a : Int) (tl : List Int) :
    (headRow N j a tl).length = N + tl.length := by
  simp [headRow, unitRow]; omega

theorem fillMS1_wf (n : Nat) (cs : List Con) (yb : Nat) (hyb : n ≤ yb) (N : Nat)
    (hN : yb + cs.length ≤ N) : WF N (fillMS1 n cs yb) := by
  unfold fillMS1
  refine wf_app _ _ _ (wf_app _ _ _ (wf_app _ _ _ (wf_nonnegRows N yb _ hN) (wf_single _ _ ?_))
    (wf_flatMap _ _ _ fun j hj => wf_eqRows _ _ _ ?_)) (wf_flatMap _ _ _ fun j hj => wf_eqRows _ _ _ ?_)
  · simp [geRow, length_consts]; omega
  · rw [length_headRow _ _ (by have := List.mem_range.mp hj; omega), length_col]; exact hN
  · rw [length_headRow _ _ (by have := List.mem_range.mp hj; omega), length_col]; exact hN

theorem fillMS2_wf (n : Nat) (cs : List Con) (zb : Nat) (hzb : n < zb) (N : Nat)
    (hN : zb + cs.length + 2 ≤ N) : WF N (fillMS2 n cs zb) := by
  unfold fillMS2
  simp only
  refine wf_app _ _ _ (wf_app _ _ _ (wf_app _ _ _ (wf_app _ _ _
    (wf_nonnegRows N zb _ (by omega)) (wf_single _ _ ?_))
    (wf_flatMap _ _ _ fun j hj => wf_eqRows _ _ _ ?_))
    (wf_flatMap _ _ _ fun j hj => wf_eqRows _ _ _ ?_)) (wf_eqRows _ _ _ ?_)
  · simp [geRow, length_consts]; omega
  · rw [length_headRow _ _ (by have := List.mem_range.mp hj; omega), length_col]; omega
  · simp [length_col]; omega
  · rw [length_headRow _ _ hzb]; simp; omega

/-- the single system lives in `n + 1 + 2m + 2` dimensions (`μ`, `y`, `z`) -/
theorem msSystem_wf (n : Nat) (cs : List Con) : WF (msDim n cs) (msSystem n cs) := by
  unfold msSystem msDim
  exact wf_app _ _ _ (fillMS1_wf n cs (n + 1) (by omega) _ (by omega))
    (fillMS2_wf n cs (n + 1 + cs.length) (by omega) _ (by omega))

/-! ### the decision -/

/-- **`termination_test_MS` decides the existence of an affine ranking function** (normal form) of
    a closed relation: the verified feasibility test of the single system answers `true` iff some
    `μ` is bounded from below by `0` and decreases by at least `1` on every pair.  (On an empty
    relation both sides are true.) -/
theorem termination_test_MS_iff_of_farkas (hF : FarkasImplied) (hE : FarkasInfeasible) (n : Nat)
    (cs : List Con) (hwf : WF (2*n) cs) (hns : ∀ c ∈ cs, c.strict = false) :
    feasible (msDim n cs) (msSystem n cs) = true ↔ ∃ mu, Spec.isRanking n (sem cs) mu := by
  rw [feasible_iff _ _ (msSystem_wf n cs)]
  constructor
  · rintro ⟨sol, hs⟩
    unfold msSystem at hs
    rw [Sat_append] at hs
    exact ⟨sol, fun w hw => ⟨fillMS2_sound n cs _ (by omega) hwf sol hs.2 w hw,
      fillMS1_sound n cs _ (by omega) hwf sol hs.1 w hw⟩⟩
  · rintro ⟨mu, h⟩
    by_cases hne : ∃ w, Sat cs w
    · obtain ⟨sol, hs, _⟩ := ms_complete_of_farkas hF n cs hwf hns hne mu h
      exact ⟨sol, hs⟩
    · exact ms_complete_empty_of_farkas hE n cs hwf hns hne

/-! ### non-vacuity -/

/-- `x' = x − 1`, `x ≥ 0` over the pair `(x', x)` -/
def decLoopC : List Con := eqRows [1, -1] 1 ++ [geRow [0, 1] 0]

/-- the hypotheses of the theorems above are satisfiable: well-formed, closed, non-empty
    (`(x', x) = (0, 1)`) -/
example : WF (2*1) decLoopC ∧ (∀ c ∈ decLoopC, c.strict = false) ∧ ∃ w, Sat decLoopC w :=
  ⟨(wfB_iff _ _).mp (by decide), by decide, certFeas_sound _ [0, 1] 1 (by decide +kernel)⟩

/-- … and so is the conclusion of `ms_complete_of_farkas` on that loop: `μ(x) = x` with
    `y = (0,1,0)`, `z = (0,0,1)`, `z_4 = z_5 = 0` -/
example : ∃ sol, Sat (msSystem 1 decLoopC) sol :=
  certFeas_sound _ [1, 0, 0, 1, 0, 0, 0, 1, 0, 0] 1 (by decide +kernel)

/-- the hypotheses of `ms_complete_empty_of_farkas`: `x ≥ 0 ∧ −x − 1 ≥ 0` is well-formed, closed,
    and the system of the empty relation is satisfiable with `μ = 0`, `y = (1,1)`, `z = 0` -/
example : WF (2*1) [geRow [0, 1] 0, geRow [0, -1] (-1)] ∧
    (∀ c ∈ [geRow [0, 1] 0, geRow [0, -1] (-1)], c.strict = false) ∧
    ∃ sol, Sat (msSystem 1 [geRow [0, 1] 0, geRow [0, -1] (-1)]) sol :=
  ⟨(wfB_iff _ _).mp (by decide), by decide,
    certFeas_sound _ [0, 0, 1, 1, 0, 0, 0, 0] 1 (by decide +kernel)⟩

end PPLV.Term
