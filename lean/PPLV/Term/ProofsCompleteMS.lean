import PPLV.Term.FarkasStmt

/-! # C18 completeness of the Mesnard–Serebrenik encoding, part 1: the two systems

`fill_constraint_systems_MS` (termination.cc:133).  `ProofsEnc.lean` shows that every solution of
`cs_out1` / `cs_out2` is a decreasing / bounded function (weighted-sum argument).  Here the
converse: by the affine Farkas lemma (`FarkasImplied`, an explicit hypothesis, proved in
`ProofsCompleteFarkas.lean`) every function that decreases by `1` (is non-negative) on a non-empty
closed relation has multipliers `y ≥ 0` (`z ≥ 0`) such that `(μ, y)` solves `cs_out1`
(`(μ, z)` solves `cs_out2`), wherever the multipliers are placed (`yb`, `zb`). -/
namespace PPLV.Term
open PPLV.Lin

/-! ### congruence lemmas -/

theorem dot_congr (as : List Int) (x x' : Val) (h : ∀ i < as.length, x i = x' i) :
    dot as x = dot as x' := by
  induction as generalizing x x' with
  | nil => rfl
  | cons a as ih =>
    rw [dot_cons, dot_cons, h 0 (by simp),
      ih x.tail x'.tail (fun i hi => by
        have := h (i+1) (by simp; omega)
        simpa [Val.tail] using this)]

theorem linAt_congr (n : Nat) (mu mu' : Val) (off : Nat) (w : Val) (h : ∀ j < n, mu j = mu' j) :
    linAt n mu off w = linAt n mu' off w := by
  unfold linAt
  exact sumTo_congr _ _ _ (fun i hi => by rw [h i hi])

/-- `μ(x) − μ(x')` reads `μ` at the indices `< n` only (not `μ_0`) -/
theorem decrAt_congr (n : Nat) (mu mu' w : Val) (h : ∀ j < n, mu j = mu' j) :
    Spec.decrAt n mu w = Spec.decrAt n mu' w := by
  unfold Spec.decrAt
  rw [linAt_congr n mu mu' n w h, linAt_congr n mu mu' 0 w h]

/-- `μ(x)` reads `μ` at the indices `≤ n` only -/
theorem valueAt_congr (n : Nat) (mu mu' w : Val) (h : ∀ j ≤ n, mu j = mu' j) :
    Spec.valueAt n mu w = Spec.valueAt n mu' w := by
  unfold Spec.valueAt
  rw [h n (le_refl _), linAt_congr n mu mu' n w (fun j hj => h j (by omega))]

/-- the multipliers read off a solution at base `b` -/
theorem dot_shift_eq (l : List Int) (sol y : Val) (b : Nat)
    (h : ∀ i < l.length, sol (b + i) = y i) : dot l (fun i => sol (i + b)) = dot l y :=
  dot_congr l _ _ (fun i hi => by show sol (i + b) = y i; rw [Nat.add_comm]; exact h i hi)

/-! ### system 1 -/

/-- the objective `μ(x) − μ(x')` as one sum over the `2n` coordinates of the pair -/
theorem sumTo_decr (n : Nat) (mu w : Val) :
    sumTo (2*n) (fun j => (if j < n then - mu j else mu (j - n)) * w j) = Spec.decrAt n mu w := by
  rw [Nat.two_mul, sumTo_split]
  unfold Spec.decrAt linAt
  have h1 : sumTo n (fun j => (if j < n then - mu j else mu (j - n)) * w j)
      = - sumTo n (fun i => mu i * w (0 + i)) := by
    rw [← neg_one_mul, ← sumTo_mul_left]
    apply sumTo_congr
    intro j hj
    simp only [hj, if_true, Nat.zero_add]
    ring
  have h2 : sumTo n (fun j => (if n + j < n then - mu (n + j) else mu (n + j - n)) * w (n + j))
      = sumTo n (fun i => mu i * w (n + i)) := by
    apply sumTo_congr
    intro j _
    have : ¬ (n + j < n) := by omega
    simp only [this, if_false, Nat.add_sub_cancel_left]
  rw [h1, h2]; ring

/-- **completeness of `cs_out1`**: a function that decreases by at least `1` on every pair of a
    non-empty closed relation extends, by Farkas multipliers that do not depend on where they are
    placed, to a solution of system 1 -/
theorem fillMS1_complete (hF : FarkasImplied) (n : Nat) (cs : List Con) (hwf : WF (2*n) cs)
    (hns : ∀ c ∈ cs, c.strict = false) (hne : ∃ w, Sat cs w) (mu : Val)
    (h : ∀ w, Sat cs w → 1 ≤ Spec.decrAt n mu w) :
    ∃ y : Val, (∀ i, 0 ≤ y i) ∧ ∀ (yb : Nat) (sol : Val), n ≤ yb → (∀ j < n, sol j = mu j) →
      (∀ i < cs.length, sol (yb + i) = y i) → Sat (fillMS1 n cs yb) sol := by
  obtain ⟨y, hy0, hycol, hyk⟩ := hF (2*n) cs hwf hns hne
    (fun j => if j < n then - mu j else mu (j - n)) (-1) (fun w hw => by
      rw [sumTo_decr]
      have := h w hw
      linarith)
  refine ⟨y, hy0, fun yb sol hyb hmu hsol => ?_⟩
  have hd : ∀ l : List Int, l.length = cs.length → dot l (fun i => sol (i + yb)) = dot l y :=
    fun l hl => dot_shift_eq l sol y yb (fun i hi => hsol i (by omega))
  unfold fillMS1
  rw [Sat_append, Sat_append, Sat_append, Sat_nonnegRows, Sat_singleton, sat_geRow,
    Sat_flatMap, Sat_flatMap]
  refine ⟨⟨⟨fun i hi => ?_, ?_⟩, fun j hj => ?_⟩, fun j hj => ?_⟩
  · rw [hsol i hi]; exact hy0 i
  · rw [dot_replicate_zero_append, dot_map_neg, hd _ (length_consts cs)]
    push_cast
    linarith
  · have hj' : j < n := List.mem_range.mp hj
    rw [Sat_eqRows, dot_headRow yb j (by omega), hd _ (length_col cs (n + j)),
      hycol (n + j) (by omega), hmu j hj']
    have : ¬ (n + j < n) := by omega
    simp only [this, if_false, Nat.add_sub_cancel_left]
    push_cast
    ring
  · have hj' : j < n := List.mem_range.mp hj
    rw [Sat_eqRows, dot_headRow yb j (by omega), hd _ (length_col cs j),
      hycol j (by omega), hmu j hj']
    simp only [hj', if_true]
    push_cast
    ring

/-! ### system 2 -/

/-- the objective `μ(x) − μ_0` as one sum over the `2n` coordinates of the pair -/
theorem sumTo_value (n : Nat) (mu w : Val) :
    sumTo (2*n) (fun j => (if j < n then 0 else mu (j - n)) * w j) = linAt n mu n w := by
  rw [Nat.two_mul, sumTo_split]
  unfold linAt
  have h1 : sumTo n (fun j => (if j < n then 0 else mu (j - n)) * w j) = 0 := by
    refine (sumTo_congr n _ (fun _ => 0) ?_).trans (sumTo_zero n)
    intro j hj
    simp only [hj, if_true, zero_mul]
  have h2 : sumTo n (fun j => (if n + j < n then 0 else mu (n + j - n)) * w (n + j))
      = sumTo n (fun i => mu i * w (n + i)) := by
    apply sumTo_congr
    intro j _
    have : ¬ (n + j < n) := by omega
    simp only [this, if_false, Nat.add_sub_cancel_left]
  rw [h1, h2]; ring

/-- **completeness of `cs_out2`**: a function that is non-negative on every pair of a non-empty
    closed relation extends to a solution of system 2; `μ_0 = z_{m+1} − z_{m+2}` is split into its
    positive and negative part -/
theorem fillMS2_complete (hF : FarkasImplied) (n : Nat) (cs : List Con) (hwf : WF (2*n) cs)
    (hns : ∀ c ∈ cs, c.strict = false) (hne : ∃ w, Sat cs w) (mu : Val)
    (h : ∀ w, Sat cs w → 0 ≤ Spec.valueAt n mu w) :
    ∃ z : Val, (∀ i, 0 ≤ z i) ∧ ∀ (zb : Nat) (sol : Val), n < zb → (∀ j ≤ n, sol j = mu j) →
      (∀ i < cs.length + 2, sol (zb + i) = z i) → Sat (fillMS2 n cs zb) sol := by
  obtain ⟨z0, hz0, hzcol, hzk⟩ := hF (2*n) cs hwf hns hne
    (fun j => if j < n then 0 else mu (j - n)) (mu n) (fun w hw => by
      rw [sumTo_value]
      have := h w hw
      unfold Spec.valueAt at this
      linarith)
  let z : Val := fun i =>
    if i < cs.length then z0 i else if i = cs.length then max (mu n) 0 else max (- mu n) 0
  have hzlo : ∀ i < cs.length, z i = z0 i := by
    intro i hi; simp only [z, hi, if_true]
  have hzm : z cs.length = max (mu n) 0 := by simp [z]
  have hzm1 : z (cs.length + 1) = max (- mu n) 0 := by simp [z]
  have hdiff : z cs.length - z (cs.length + 1) = mu n := by
    rw [hzm, hzm1]
    rcases le_total 0 (mu n) with hm | hm
    · rw [max_eq_left hm, max_eq_right (by linarith)]; ring
    · rw [max_eq_right hm, max_eq_left (by linarith)]; ring
  refine ⟨z, fun i => ?_, fun zb sol hzb hmu hsol => ?_⟩
  · simp only [z]
    split
    · exact hz0 i
    · split
      · exact le_max_right _ _
      · exact le_max_right _ _
  have hd : ∀ l : List Int, l.length = cs.length → dot l (fun i => sol (i + zb)) = dot l z0 := by
    intro l hl
    rw [dot_shift_eq l sol z zb (fun i hi => hsol i (by omega))]
    exact dot_congr l _ _ (fun i hi => hzlo i (by omega))
  have htail : ∀ v : Val, dot [1, -1] v = v 0 - v 1 := by
    intro v; simp [dot_cons, Val.tail]; ring
  have hsm : sol (0 + cs.length + zb) = z cs.length := by
    rw [← hsol cs.length (by omega)]; congr 1; omega
  have hsm1 : sol (1 + cs.length + zb) = z (cs.length + 1) := by
    rw [← hsol (cs.length + 1) (by omega)]; congr 1; omega
  unfold fillMS2
  simp only
  rw [Sat_append, Sat_append, Sat_append, Sat_append, Sat_nonnegRows, Sat_singleton, sat_geRow,
    Sat_flatMap, Sat_flatMap, Sat_eqRows]
  refine ⟨⟨⟨⟨fun i hi => ?_, ?_⟩, fun j hj => ?_⟩, fun j hj => ?_⟩, ?_⟩
  · rw [hsol i hi]
    simp only [z]
    split
    · exact hz0 i
    · split
      · exact le_max_right _ _
      · exact le_max_right _ _
  · rw [dot_replicate_zero_append, dot_append, dot_map_neg, List.length_map, length_consts, htail,
      hd _ (length_consts cs)]
    show 0 ≤ - dot (consts cs) z0 + (sol (0 + cs.length + zb) - sol (1 + cs.length + zb))
      + ((0 : Int) : Rat)
    rw [hsm, hsm1, hdiff]
    push_cast
    linarith
  · have hj' : j < n := List.mem_range.mp hj
    rw [Sat_eqRows, dot_headRow zb j (by omega), hd _ (length_col cs (n + j)),
      hzcol (n + j) (by omega), hmu j (by omega)]
    have : ¬ (n + j < n) := by omega
    simp only [this, if_false, Nat.add_sub_cancel_left]
    push_cast
    ring
  · have hj' : j < n := List.mem_range.mp hj
    rw [Sat_eqRows, dot_replicate_zero_append, hd _ (length_col cs j), hzcol j (by omega)]
    simp only [hj', if_true]
    push_cast
    ring
  · rw [dot_headRow zb n hzb, dot_replicate_zero_append, htail]
    show ((-1 : Int) : Rat) * sol n + (sol (0 + cs.length + zb) - sol (1 + cs.length + zb))
      + ((0 : Int) : Rat) = 0
    rw [hsm, hsm1, hdiff, hmu n (le_refl _)]
    push_cast
    ring

end PPLV.Term
