import PPLV.Term.ProofsSpace

/-! # C18 helper lemmas, part 7: the NNC space returned by the Podelski–Rybalchenko functions -/
namespace PPLV.Term
open PPLV.Lin

/-- termwise lower bounds add up -/
theorem wsum_lower (S : Val → Prop) (F : Gen → Val → Rat) (gs : List Gen) (lam : Val)
    (h : ∀ j < gs.length, ∃ b : Rat, ∀ w, S w → b ≤ lam j * F (gs.getD j default) w) :
    ∃ β : Rat, ∀ w, S w → β ≤ wsum (fun g => F g w) gs lam := by
  induction gs generalizing lam with
  | nil => exact ⟨0, fun w _ => by simp [wsum]⟩
  | cons g gs ih =>
    obtain ⟨b0, hb0⟩ := h 0 (by simp)
    obtain ⟨β, hβ⟩ := ih lam.tail (fun j hj => by
      obtain ⟨b, hb⟩ := h (j+1) (by simp; omega)
      exact ⟨b, fun w hw => by simpa [Val.tail] using hb w hw⟩)
    refine ⟨b0 + β, fun w hw => ?_⟩
    simp only [wsum]
    have := hb0 w hw
    simp only [List.getD_cons_zero] at this
    have := hβ w hw
    linarith

/-- non-negative termwise lower bounds, one of them positive, add up to a positive bound -/
theorem wsum_pos_lower (S : Val → Prop) (F : Gen → Val → Rat) (gs : List Gen) (lam : Val)
    (Q : Nat → Prop)
    (h : ∀ j < gs.length, ∃ e : Rat, 0 ≤ e ∧ (Q j → 0 < e) ∧
      ∀ w, S w → e ≤ lam j * F (gs.getD j default) w)
    (hq : ∃ j < gs.length, Q j) :
    ∃ δ : Rat, 0 < δ ∧ ∀ w, S w → δ ≤ wsum (fun g => F g w) gs lam := by
  induction gs generalizing lam Q with
  | nil => obtain ⟨j, hj, -⟩ := hq; simp at hj
  | cons g gs ih =>
    obtain ⟨e0, he0, hq0, hb0⟩ := h 0 (by simp)
    simp only [List.getD_cons_zero] at hb0
    have htail : ∀ j < gs.length, ∃ e : Rat, 0 ≤ e ∧ (Q (j+1) → 0 < e) ∧
        ∀ w, S w → e ≤ lam.tail j * F (gs.getD j default) w := by
      intro j hj
      obtain ⟨e, he, hqe, hb⟩ := h (j+1) (by simp; omega)
      exact ⟨e, he, hqe, fun w hw => by simpa [Val.tail] using hb w hw⟩
    by_cases hex : ∃ j < gs.length, Q (j+1)
    · obtain ⟨δ, hδ, hb⟩ := ih lam.tail (fun j => Q (j+1)) htail hex
      refine ⟨e0 + δ, by linarith, fun w hw => ?_⟩
      simp only [wsum]
      have := hb0 w hw
      have := hb w hw
      linarith
    · have hQ0 : Q 0 := by
        obtain ⟨j, hj, hqj⟩ := hq
        cases j with
        | zero => exact hqj
        | succ j => exact absurd ⟨j, by simpa using hj, hqj⟩ hex
      refine ⟨e0, hq0 hQ0, fun w hw => ?_⟩
      simp only [wsum]
      have h1 := hb0 w hw
      have h2 : 0 ≤ wsum (fun g => F g w) gs lam.tail := by
        apply wsum_nonneg
        intro j hj
        obtain ⟨e, he, -, hb⟩ := htail j hj
        have := hb w hw
        linarith
      linarith

theorem homGenOK_spec (n : Nat) (R : List Con) (c : List Int) (d : Int) (hd : 0 < d) (hwf : WF (2*n) R)
    (h : homGenOK n R c = true) :
    (∀ w ∈ sem R, 0 ≤ Spec.decrAt n (ratPoint c d) w) ∧
    ∃ β : Rat, ∀ w ∈ sem R, β ≤ Spec.valueAt n (ratPoint c d) w := by
  have hd' : (0 : Rat) < (d : Rat) := by exact_mod_cast hd
  unfold homGenOK at h
  rw [Bool.and_eq_true, implies_iff (2*n) R _ hwf (decrRow_len n c 0),
    lowerBoundedB_iff (2*n) R _ _ hwf (valueRow_len n c)] at h
  obtain ⟨h1, β, hβ⟩ := h
  constructor
  · intro w hw
    have a := h1 w hw
    have e2 := decrRow_eval_ratPoint n c d 0 (ne_of_gt hd') w
    unfold Con.sat at a
    simp only [decrRow, Bool.false_eq_true, if_false] at a e2
    rw [e2] at a
    simp only [Int.cast_zero, sub_zero] at a
    exact (mul_nonneg_iff_of_pos_left hd').mp a
  · refine ⟨β / d, fun w hw => ?_⟩
    have a := hβ w hw
    have e1 := valueRow_eval_ratPoint n c d (ne_of_gt hd') w
    unfold Con.eval at e1
    rw [e1] at a
    rw [div_le_iff₀ hd']; linarith

/-- **Every element of an NNC space whose generators pass `spaceGenOKAll` is bounded from below
    and decreases by a fixed positive amount on the relation.** -/
theorem spaceGenOKAll_sound (n : Nat) (R : List Con) (gs : List Gen) (hwf : WF (2*n) R)
    (h : spaceGenOKAll n R gs = true) (mu : Val) (hmu : mu ∈ GenSem (n + 1) gs) :
    Spec.isRankingGen n (sem R) mu := by
  obtain ⟨lam, hnn, -, hpt, hcoord⟩ := hmu
  unfold spaceGenOKAll at h
  rw [List.all_eq_true] at h
  -- facts about one generator
  have key : ∀ j < gs.length,
      (∃ b : Rat, ∀ w, sem R w → b ≤ lam j * Spec.valueAt n (gs.getD j default).coord w) ∧
      (∃ e : Rat, 0 ≤ e ∧ (((gs.getD j default).isPt = true ∧ 0 < lam j) → 0 < e) ∧
        ∀ w, sem R w → e ≤ lam j * Spec.decrAt n (gs.getD j default).coord w) := by
    intro j hj
    have hg := h _ (mem_of_getD gs j hj)
    have hl := hnn j hj
    generalize gs.getD j default = g at hg hl
    unfold spaceGenGenOK at hg
    rw [coord_eq_ratPoint]
    cases hk : g.kind with
    | point =>
      rw [hk] at hg
      have hd : g.d = g.div := by simp [Gen.d, Gen.isPtOrCp, hk]
      have hlam := hl (by simp [Gen.isLine, hk])
      obtain ⟨-, δ, β, hδ, hr⟩ := (isRankingGenB_iff n R _ _ hwf).mp hg
      rw [hd]
      refine ⟨⟨lam j * β, fun w hw => mul_le_mul_of_nonneg_left (hr w hw).1 hlam⟩,
        lam j * δ, mul_nonneg hlam (le_of_lt hδ), fun hq => mul_pos hq.2 hδ,
        fun w hw => mul_le_mul_of_nonneg_left (hr w hw).2 hlam⟩
    | cpoint =>
      rw [hk] at hg
      have hd : g.d = g.div := by simp [Gen.d, Gen.isPtOrCp, hk]
      have hlam := hl (by simp [Gen.isLine, hk])
      rw [Bool.and_eq_true, decide_eq_true_eq] at hg
      obtain ⟨hD, β, hβ⟩ := homGenOK_spec n R g.coords g.div hg.1 hwf hg.2
      rw [hd]
      refine ⟨⟨lam j * β, fun w hw => mul_le_mul_of_nonneg_left (hβ w hw) hlam⟩,
        0, le_refl _, fun hq => ?_, fun w hw => mul_nonneg hlam (hD w hw)⟩
      have : g.isPt = false := by simp [Gen.isPt, hk]
      rw [this] at hq; cases hq.1
    | ray =>
      rw [hk] at hg
      have hd : g.d = 1 := by simp [Gen.d, Gen.isPtOrCp, hk]
      have hlam := hl (by simp [Gen.isLine, hk])
      obtain ⟨hD, β, hβ⟩ := homGenOK_spec n R g.coords 1 (by norm_num) hwf hg
      rw [hd]
      refine ⟨⟨lam j * β, fun w hw => mul_le_mul_of_nonneg_left (hβ w hw) hlam⟩,
        0, le_refl _, fun hq => ?_, fun w hw => mul_nonneg hlam (hD w hw)⟩
      have : g.isPt = false := by simp [Gen.isPt, hk]
      rw [this] at hq; cases hq.1
    | line =>
      rw [hk] at hg
      have hd : g.d = 1 := by simp [Gen.d, Gen.isPtOrCp, hk]
      rw [Bool.and_eq_true] at hg
      obtain ⟨hD1, β1, hβ1⟩ := homGenOK_spec n R g.coords 1 (by norm_num) hwf hg.1
      obtain ⟨hD2, β2, hβ2⟩ := homGenOK_spec n R _ 1 (by norm_num) hwf hg.2
      rw [hd]
      have d0 : ∀ w, sem R w → Spec.decrAt n (ratPoint g.coords 1) w = 0 := by
        intro w hw
        have a := hD1 w hw
        have b := hD2 w hw
        rw [decrAt_ratPoint_neg] at b
        linarith
      refine ⟨?_, 0, le_refl _, fun hq => ?_, fun w hw => by rw [d0 w hw]; simp⟩
      · by_cases hs : 0 ≤ lam j
        · exact ⟨lam j * β1, fun w hw => mul_le_mul_of_nonneg_left (hβ1 w hw) hs⟩
        · refine ⟨(- lam j) * β2, fun w hw => ?_⟩
          have b := hβ2 w hw
          rw [valueAt_ratPoint_neg] at b
          have hneg : 0 ≤ - lam j := by linarith
          have := mul_le_mul_of_nonneg_left b hneg
          linarith
      · have : g.isPt = false := by simp [Gen.isPt, hk]
        rw [this] at hq; cases hq.1
  obtain ⟨β, hβ⟩ := wsum_lower (sem R) (fun g w => Spec.valueAt n g.coord w) gs lam
    (fun j hj => (key j hj).1)
  obtain ⟨δ, hδ, hb⟩ := wsum_pos_lower (sem R) (fun g w => Spec.decrAt n g.coord w) gs lam
    (fun j => (gs.getD j default).isPt = true ∧ 0 < lam j) (fun j hj => (key j hj).2) hpt
  refine ⟨δ, β, hδ, fun w hw => ?_⟩
  rw [valueAt_genSem n gs lam mu w hcoord, decrAt_genSem n gs lam mu w hcoord]
  exact ⟨hβ w hw, hb w hw⟩

end PPLV.Term
