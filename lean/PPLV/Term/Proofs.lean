import PPLV.Term.Model
import PPLV.Lin.Sup
import PPLV.Lin.GenSem
import Mathlib.Tactic.Linarith
import Mathlib.Tactic.Ring
import Mathlib.Tactic.FieldSimp

/-! # C18 helper lemmas, part 1: finite sums, the rows of the checkers, `ranking_iff` -/
namespace PPLV.Term
open PPLV.Lin

/-! ### `sumTo` algebra -/

theorem sumTo_congr (k : Nat) (f g : Nat → Rat) (h : ∀ i < k, f i = g i) : sumTo k f = sumTo k g := by
  induction k with
  | zero => rfl
  | succ k ih =>
    simp only [sumTo]
    rw [ih (fun i hi => h i (by omega)), h k (by omega)]

theorem sumTo_add (k : Nat) (f g : Nat → Rat) :
    sumTo k (fun i => f i + g i) = sumTo k f + sumTo k g := by
  induction k with
  | zero => simp [sumTo]
  | succ k ih => simp only [sumTo, ih]; ring

theorem sumTo_sub (k : Nat) (f g : Nat → Rat) :
    sumTo k (fun i => f i - g i) = sumTo k f - sumTo k g := by
  induction k with
  | zero => simp [sumTo]
  | succ k ih => simp only [sumTo, ih]; ring

theorem sumTo_mul_left (k : Nat) (a : Rat) (f : Nat → Rat) :
    sumTo k (fun i => a * f i) = a * sumTo k f := by
  induction k with
  | zero => simp [sumTo]
  | succ k ih => simp only [sumTo, ih]; ring

theorem sumTo_zero (k : Nat) : sumTo k (fun _ => 0) = 0 := by
  induction k with
  | zero => rfl
  | succ k ih => simp [sumTo, ih]

theorem sumTo_succ' (k : Nat) (f : Nat → Rat) :
    sumTo (k+1) f = f 0 + sumTo k (fun i => f (i+1)) := by
  induction k with
  | zero => simp [sumTo]
  | succ k ih =>
    rw [sumTo, ih]
    simp only [sumTo]
    ring

theorem sumTo_split (n m : Nat) (f : Nat → Rat) :
    sumTo (n + m) f = sumTo n f + sumTo m (fun j => f (n + j)) := by
  induction m with
  | zero => simp [sumTo]
  | succ m ih =>
    rw [← Nat.add_assoc]
    simp only [sumTo, ih]
    ring

theorem sumTo_nonneg (k : Nat) (f : Nat → Rat) (h : ∀ i < k, 0 ≤ f i) : 0 ≤ sumTo k f := by
  induction k with
  | zero => exact le_refl _
  | succ k ih =>
    simp only [sumTo]
    have := ih (fun i hi => h i (by omega))
    have := h k (by omega)
    linarith

/-- `dot` as an indexed sum -/
theorem dot_sumTo (as : List Int) (N : Nat) (h : as.length ≤ N) (x : Val) :
    dot as x = sumTo N (fun i => ((as.getD i 0 : Int) : Rat) * x i) := by
  induction as generalizing N x with
  | nil =>
    simp only [dot_nil, List.getD_nil, Int.cast_zero, zero_mul]
    exact (sumTo_zero N).symm
  | cons a as ih =>
    cases N with
    | zero => simp at h
    | succ N =>
      rw [dot_cons, sumTo_succ', ih N (by simpa using h) x.tail]
      simp [Val.tail]

theorem length_padTo (n : Nat) (c : List Int) : (padTo n c).length = n := by
  simp [padTo]; omega

theorem dot_padTo (n : Nat) (c : List Int) (x : Val) :
    dot (padTo n c) x = sumTo n (fun i => ((c.getD i 0 : Int) : Rat) * x i) := by
  unfold padTo
  rw [dot_append, dot_replicate_zero, add_zero, dot_sumTo (c.take n) n (by simp)]
  apply sumTo_congr
  intro i hi
  have : (c.take n).getD i 0 = c.getD i 0 := by
    simp [List.getD_eq_getElem?_getD, hi]
  rw [this]

/-! ### the rows of `isRankingB` -/

theorem valueRow_eval (n : Nat) (c : List Int) (w : Val) :
    (valueRow n c).eval w = sumTo n (fun i => ((c.getD i 0 : Int) : Rat) * w (n + i)) + ((c.getD n 0 : Int) : Rat) := by
  unfold valueRow Con.eval
  simp only
  rw [dot_replicate_zero_append, dot_padTo]
  congr 1
  apply sumTo_congr
  intro i _
  rw [Nat.add_comm]

theorem decrRow_eval (n : Nat) (c : List Int) (e : Int) (w : Val) :
    (decrRow n c e).eval w = sumTo n (fun i => ((c.getD i 0 : Int) : Rat) * w (n + i))
      - sumTo n (fun i => ((c.getD i 0 : Int) : Rat) * w (0 + i)) - (e : Rat) := by
  unfold decrRow Con.eval
  simp only
  rw [dot_append, dot_map_neg, List.length_map, length_padTo, dot_padTo, dot_padTo]
  have h1 : sumTo n (fun i => ((c.getD i 0 : Int) : Rat) * (fun j => w (j + n)) i)
      = sumTo n (fun i => ((c.getD i 0 : Int) : Rat) * w (n + i)) :=
    sumTo_congr _ _ _ (fun i _ => by simp [Nat.add_comm])
  have h2 : sumTo n (fun i => ((c.getD i 0 : Int) : Rat) * w i)
      = sumTo n (fun i => ((c.getD i 0 : Int) : Rat) * w (0 + i)) :=
    sumTo_congr _ _ _ (fun i _ => by simp)
  rw [h1, h2]; push_cast; ring

theorem valueRow_len (n : Nat) (c : List Int) : (valueRow n c).coeffs.length ≤ 2 * n := by
  simp [valueRow, length_padTo]; omega
theorem decrRow_len (n : Nat) (c : List Int) (e : Int) : (decrRow n c e).coeffs.length ≤ 2 * n := by
  simp [decrRow, length_padTo]; omega

/-- `d · linAt` of the rational vector `c/d` is the integer sum -/
theorem linAt_ratPoint (n : Nat) (c : List Int) (d : Int) (hd : (d : Rat) ≠ 0) (off : Nat) (w : Val) :
    (d : Rat) * linAt n (ratPoint c d) off w = sumTo n (fun i => ((c.getD i 0 : Int) : Rat) * w (off + i)) := by
  unfold linAt
  rw [← sumTo_mul_left]
  apply sumTo_congr
  intro i _
  simp only [ratPoint]
  field_simp

theorem valueRow_eval_ratPoint (n : Nat) (c : List Int) (d : Int) (hd : (d : Rat) ≠ 0) (w : Val) :
    (valueRow n c).eval w = (d : Rat) * Spec.valueAt n (ratPoint c d) w := by
  rw [valueRow_eval, Spec.valueAt, mul_add, linAt_ratPoint n c d hd]
  have : (d : Rat) * ratPoint c d n = ((c.getD n 0 : Int) : Rat) := by
    simp only [ratPoint]; field_simp
  rw [this]; ring

theorem decrRow_eval_ratPoint (n : Nat) (c : List Int) (d e : Int) (hd : (d : Rat) ≠ 0) (w : Val) :
    (decrRow n c e).eval w = (d : Rat) * Spec.decrAt n (ratPoint c d) w - (e : Rat) := by
  rw [decrRow_eval, Spec.decrAt, mul_sub, linAt_ratPoint n c d hd, linAt_ratPoint n c d hd]

/-- **The checker decides the specification** (two K1 inclusions). -/
theorem isRankingB_iff (n : Nat) (R : List Con) (c : List Int) (d : Int) (hwf : WF (2*n) R) :
    isRankingB n R c d = true ↔ 0 < d ∧ Spec.isRanking n (sem R) (ratPoint c d) := by
  unfold isRankingB
  rw [Bool.and_eq_true, Bool.and_eq_true, decide_eq_true_eq,
    implies_iff (2*n) R _ hwf (valueRow_len n c), implies_iff (2*n) R _ hwf (decrRow_len n c d)]
  constructor
  · rintro ⟨⟨hd, h1⟩, h2⟩
    have hd' : (0 : Rat) < (d : Rat) := by exact_mod_cast hd
    refine ⟨hd, fun w hw => ?_⟩
    have a1 := h1 w hw
    have a2 := h2 w hw
    simp only [Con.sat, valueRow, decrRow, Bool.false_eq_true, if_false] at a1 a2
    have e1 := valueRow_eval_ratPoint n c d (ne_of_gt hd') w
    have e2 := decrRow_eval_ratPoint n c d d (ne_of_gt hd') w
    simp only [valueRow, decrRow] at e1 e2
    rw [e1] at a1
    rw [e2] at a2
    constructor
    · exact (mul_nonneg_iff_of_pos_left hd').mp a1
    · have : 0 ≤ (d : Rat) * (Spec.decrAt n (ratPoint c d) w - 1) := by rw [mul_sub, mul_one]; exact a2
      have := (mul_nonneg_iff_of_pos_left hd').mp this
      linarith
  · rintro ⟨hd, h⟩
    have hd' : (0 : Rat) < (d : Rat) := by exact_mod_cast hd
    refine ⟨⟨hd, fun w hw => ?_⟩, fun w hw => ?_⟩
    · have := (h w hw).1
      show (valueRow n c).sat w
      unfold Con.sat
      rw [valueRow_eval_ratPoint n c d (ne_of_gt hd') w]
      simp only [valueRow, Bool.false_eq_true, if_false]
      exact mul_nonneg (le_of_lt hd') this
    · have := (h w hw).2
      show (decrRow n c d).sat w
      unfold Con.sat
      rw [decrRow_eval_ratPoint n c d d (ne_of_gt hd') w]
      simp only [decrRow, Bool.false_eq_true, if_false]
      have : 0 ≤ (d : Rat) * (Spec.decrAt n (ratPoint c d) w - 1) := mul_nonneg (le_of_lt hd') (by linarith)
      rw [mul_sub, mul_one] at this
      exact this

end PPLV.Term
