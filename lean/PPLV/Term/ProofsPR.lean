import PPLV.Term.ProofsEnc

/-! # C18 helper lemmas, part 4: the Podelski–Rybalchenko encodings are sound -/
namespace PPLV.Term
open PPLV.Lin

theorem Sat_map_shift' (k : Nat) (cs : List Con) (w : Val) :
    Sat (cs.map (Con.shift k)) w ↔ Sat cs (fun j => w (j + k)) := by
  unfold Sat
  simp only [List.mem_map, forall_exists_index, and_imp, forall_apply_eq_imp_iff₂]
  constructor
  · intro h c hc; exact (sat_shift k c w).mp (h c hc)
  · intro h c hc; exact (sat_shift k c w).mpr (h c hc)

theorem length_lincomb (a b : Int) (xs ys : List Int) (h : xs.length = ys.length) :
    (lincomb a b xs ys).length = xs.length := by
  induction xs generalizing ys with
  | nil => cases ys with
    | nil => simp [lincomb]
    | cons y ys => simp at h
  | cons x xs ih =>
    cases ys with
    | nil => simp at h
    | cons y ys => simp only [lincomb, List.length_cons]; rw [ih ys (by simpa using h)]

theorem prMu_n (n : Nat) (csA : List Con) (u : Val) : prMu n csA u n = 0 := by simp [prMu]
theorem prMu_lt (n : Nat) (csA : List Con) (u : Val) (j : Nat) (hj : j < n) :
    prMu n csA u j = - dot (col csA j) u := by simp [prMu, hj]

/-- `fill_constraint_system_PR` + `le_out ≤ −1`: the synthesised function decreases by at least
    `1` and is bounded from below by `−u_1·d_B` on the relation of the before/after pair. -/
theorem prSystem_sound (n : Nat) (csB csA : List Con) (hB : WF n csB) (hA : WF (2*n) csA)
    (u : Val) (hs : Sat (prSystem n csB csA) u) :
    Spec.isRankingWith n (sem (pairRel n csB csA)) (prMu n csA u) 1
      (- dot (consts csB) (fun i => u (i + csB.length + csA.length))) := by
  unfold prSystem fillPR at hs
  simp only at hs
  rw [Sat_append, Sat_append, Sat_append, Sat_nonnegRows, Sat_singleton, sat_geRow,
    Sat_flatMap, Sat_flatMap] at hs
  obtain ⟨⟨⟨hnn, he1⟩, he2⟩, hle⟩ := hs
  let u2 : Val := fun i => u (i + csA.length)
  let u1 : Val := fun i => u (i + csB.length + csA.length)
  rw [dot_map_neg, dot_append, length_consts] at hle
  have hle' : 1 ≤ -(dot (consts csA) u + dot (consts csB) u2) := by
    have : (((-1 : Int)) : Rat) = -1 := by norm_num
    rw [this] at hle
    show 1 ≤ -(dot (consts csA) u + dot (consts csB) (fun j => u (j + csA.length)))
    linarith
  -- the two families of equalities
  have h1 : ∀ j < n, - dot (col csA (n + j)) u - dot (col csB j) u2 + dot (col csB j) u1 = 0 := by
    intro j hj
    have := (Sat_eqRows _ _ _).mp (he1 j (List.mem_range.mpr hj))
    rw [dot_append, dot_append, dot_map_neg, dot_map_neg, List.length_map, List.length_map,
      length_col, length_col] at this
    simp only [Int.cast_zero, add_zero] at this
    show - dot (col csA (n + j)) u - dot (col csB j) (fun i => u (i + csA.length))
      + dot (col csB j) (fun i => u (i + csB.length + csA.length)) = 0
    linarith
  have h2 : ∀ j < n, dot (col csA (n + j)) u + dot (col csA j) u + dot (col csB j) u2 = 0 := by
    intro j hj
    have := (Sat_eqRows _ _ _).mp (he2 j (List.mem_range.mpr hj))
    rw [dot_append, dot_lincomb, length_lincomb _ _ _ _ (by simp [length_col]), length_col] at this
    simp only [Int.cast_zero, Int.cast_one, add_zero, one_mul] at this
    exact this
  intro w hw
  have hw' : Sat (pairRel n csB csA) w := hw
  unfold pairRel at hw'
  rw [Sat_append, Sat_map_shift'] at hw'
  obtain ⟨hwA, hwB⟩ := hw'
  let xw : Val := fun j => w (j + n)
  have pA := wrows_nonneg csA u w (fun i hi => by have := hnn i (by omega); simpa using this) hwA
  have pB2 := wrows_nonneg csB u2 xw (fun i hi => by
    have := hnn (i + csA.length) (by omega); simpa using this) hwB
  have pB1 := wrows_nonneg csB u1 xw (fun i hi => by
    have := hnn (i + csB.length + csA.length) (by omega); simpa using this) hwB
  rw [wrows_exchange (2*n) csA u w hA, Nat.two_mul, sumTo_split] at pA
  rw [wrows_exchange n csB u2 xw hB] at pB2
  rw [wrows_exchange n csB u1 xw hB] at pB1
  -- sums in terms of μ
  have s1 : sumTo n (fun j => dot (col csA j) u * w j) = - linAt n (prMu n csA u) 0 w := by
    unfold linAt
    rw [← neg_one_mul, ← sumTo_mul_left]
    apply sumTo_congr
    intro j hj
    rw [prMu_lt n csA u j hj]; simp
  have s2 : sumTo n (fun j => dot (col csA (n + j)) u * w (n + j))
      + sumTo n (fun j => dot (col csB j) u2 * xw j) = linAt n (prMu n csA u) n w := by
    unfold linAt
    rw [← sumTo_add]
    apply sumTo_congr
    intro j hj
    rw [prMu_lt n csA u j hj]
    have := h2 j hj
    show dot (col csA (n + j)) u * w (n + j) + dot (col csB j) u2 * w (j + n) = _
    rw [Nat.add_comm j n]
    have e : dot (col csA (n + j)) u + dot (col csB j) u2 = - dot (col csA j) u := by linarith
    rw [← e]; ring
  have s3 : sumTo n (fun j => dot (col csB j) u1 * xw j) = linAt n (prMu n csA u) n w := by
    unfold linAt
    apply sumTo_congr
    intro j hj
    rw [prMu_lt n csA u j hj]
    have a := h1 j hj
    have b := h2 j hj
    show dot (col csB j) u1 * w (j + n) = _
    rw [Nat.add_comm j n]
    have e : dot (col csB j) u1 = - dot (col csA j) u := by linarith
    rw [e]
  constructor
  · unfold Spec.valueAt
    rw [prMu_n, ← s3]
    show - dot (consts csB) u1 ≤ _
    linarith
  · unfold Spec.decrAt
    rw [← s2]
    linarith

theorem prOrigMu_n (n : Nat) (cs : List Con) (u : Val) : prOrigMu n cs u n = 0 := by simp [prOrigMu]
theorem prOrigMu_lt (n : Nat) (cs : List Con) (u : Val) (j : Nat) (hj : j < n) :
    prOrigMu n cs u j = - dot (col cs j) (fun i => u (i + cs.length)) := by simp [prOrigMu, hj]

/-- `fill_constraint_system_PR_original` + `le_out ≤ −1`: decrease by at least `1`, bounded
    from below by `−λ_1·b`. -/
theorem prOrigSystem_sound (n : Nat) (cs : List Con) (hwf : WF (2*n) cs)
    (u : Val) (hs : Sat (prOrigSystem n cs) u) :
    Spec.isRankingWith n (sem cs) (prOrigMu n cs u) 1 (- dot (consts cs) u) := by
  unfold prOrigSystem fillPROrig at hs
  simp only at hs
  rw [Sat_append, Sat_append, Sat_append, Sat_append, Sat_nonnegRows, Sat_singleton, sat_geRow,
    Sat_flatMap, Sat_flatMap, Sat_flatMap] at hs
  obtain ⟨⟨⟨⟨hnn, hA⟩, hB⟩, hC⟩, hle⟩ := hs
  let l2 : Val := fun i => u (i + cs.length)
  rw [dot_map_neg, dot_replicate_zero_append] at hle
  have hle' : 1 ≤ - dot (consts cs) l2 := by
    have : (((-1 : Int)) : Rat) = -1 := by norm_num
    rw [this] at hle
    show 1 ≤ - dot (consts cs) (fun j => u (j + cs.length))
    linarith
  have hAj : ∀ j < n, dot (col cs j) u = 0 := by
    intro j hj
    have := (Sat_eqRows _ _ _).mp (hA j (List.mem_range.mpr hj))
    simpa using this
  have hBj : ∀ j < n, dot (col cs (n + j)) u = dot (col cs (n + j)) l2 := by
    intro j hj
    have := (Sat_eqRows _ _ _).mp (hB j (List.mem_range.mpr hj))
    rw [dot_append, dot_map_neg, length_col] at this
    simp only [Int.cast_zero, add_zero] at this
    show _ = dot (col cs (n + j)) (fun i => u (i + cs.length))
    linarith
  have hCj : ∀ j < n, dot (col cs j) l2 + dot (col cs (n + j)) l2 = 0 := by
    intro j hj
    have := (Sat_eqRows _ _ _).mp (hC j (List.mem_range.mpr hj))
    rw [dot_replicate_zero_append, dot_lincomb] at this
    simp only [Int.cast_zero, Int.cast_one, add_zero, one_mul] at this
    exact this
  intro w hw
  have hw' : Sat cs w := hw
  have p1 := wrows_nonneg cs u w (fun i hi => by have := hnn i (by omega); simpa using this) hw'
  have p2 := wrows_nonneg cs l2 w (fun i hi => by
    have := hnn (i + cs.length) (by omega); simpa using this) hw'
  rw [wrows_exchange (2*n) cs u w hwf, Nat.two_mul, sumTo_split] at p1
  rw [wrows_exchange (2*n) cs l2 w hwf, Nat.two_mul, sumTo_split] at p2
  have a1 : sumTo n (fun j => dot (col cs j) u * w j) = 0 := by
    rw [← sumTo_zero n]
    apply sumTo_congr
    intro j hj
    rw [hAj j hj]; simp
  have a2 : sumTo n (fun j => dot (col cs (n + j)) u * w (n + j)) = linAt n (prOrigMu n cs u) n w := by
    unfold linAt
    apply sumTo_congr
    intro j hj
    rw [prOrigMu_lt n cs u j hj, hBj j hj]
    have := hCj j hj
    have e : dot (col cs (n + j)) l2 = - dot (col cs j) l2 := by linarith
    rw [e]
  have b1 : sumTo n (fun j => dot (col cs j) l2 * w j) = - linAt n (prOrigMu n cs u) 0 w := by
    unfold linAt
    rw [← neg_one_mul, ← sumTo_mul_left]
    apply sumTo_congr
    intro j hj
    rw [prOrigMu_lt n cs u j hj]
    show dot (col cs j) l2 * w j = -1 * (-dot (col cs j) l2 * w (0 + j))
    rw [Nat.zero_add]; ring
  have b2 : sumTo n (fun j => dot (col cs (n + j)) l2 * w (n + j)) = linAt n (prOrigMu n cs u) n w := by
    unfold linAt
    apply sumTo_congr
    intro j hj
    rw [prOrigMu_lt n cs u j hj]
    have := hCj j hj
    have e : dot (col cs (n + j)) l2 = - dot (col cs j) l2 := by linarith
    rw [e]
  constructor
  · unfold Spec.valueAt
    rw [prOrigMu_n, ← a2]
    linarith
  · unfold Spec.decrAt
    rw [← b2]
    linarith

end PPLV.Term

namespace PPLV.Term
open PPLV.Lin

/-- When the rows of `cs_after` have no inhomogeneous term (updates such as
    `x_2' = x_2 − x_1`, `x_1' ≥ x_1`), the strict inequality of the encoding rests on the guard
    alone: every solution has `u_2·d_B ≤ −1`, so the multipliers `u_2` of the guard rows are
    non-zero and the term `u_2·d_B` of `le_out` cannot be dropped. -/
theorem prSystem_guard_term (n : Nat) (csB csA : List Con) (h0 : (consts csA).all (· == 0) = true)
    (u : Val) (hs : Sat (prSystem n csB csA) u) :
    dot (consts csB) (fun i => u (i + csA.length)) ≤ -1 := by
  unfold prSystem fillPR at hs
  simp only at hs
  rw [Sat_append, Sat_singleton, sat_geRow] at hs
  have hle := hs.2
  rw [dot_map_neg, dot_append, length_consts, dot_allZero _ h0] at hle
  have : (((-1 : Int)) : Rat) = -1 := by norm_num
  rw [this] at hle
  linarith

end PPLV.Term
