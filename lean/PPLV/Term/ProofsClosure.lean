import PPLV.Term.Proofs

/-! # C18: `assign_all_inequalities_approximation` (termination.cc:35) loses nothing

The termination functions analyse the topological closure of the relation (`relax`: strict rows
become non-strict).  For a **non-empty** relation the affine ranking functions of the relation
and of its closure coincide: every point `w` of the closure is the limit, along the segment to a
point `w0` of the relation, of points of the relation, and the value and the decrease of an affine
function are affine along that segment.  For an empty relation with a non-empty "closure"
(`relax cs` is the closure of `sem cs` only when `sem cs ≠ ∅`) the statement fails: see
`relax_ranking_empty_sharp`. -/
namespace PPLV.Term
open PPLV.Lin

/-- the point `(1−t)·p + t·q` of the segment from `p` to `q` -/
def seg (p q : Val) (t : Rat) : Val := fun i => (1 - t) * p i + t * q i

theorem seg_tail (p q : Val) (t : Rat) : (seg p q t).tail = seg p.tail q.tail t := rfl

theorem dot_seg (a : List Int) (p q : Val) (t : Rat) :
    dot a (seg p q t) = (1 - t) * dot a p + t * dot a q := by
  induction a generalizing p q with
  | nil => simp
  | cons x xs ih =>
    rw [dot_cons, dot_cons, dot_cons, seg_tail, ih]
    simp only [seg]; ring

theorem eval_seg (c : Con) (p q : Val) (t : Rat) :
    c.eval (seg p q t) = (1 - t) * c.eval p + t * c.eval q := by
  unfold Con.eval; rw [dot_seg]; ring

theorem linAt_seg (n : Nat) (mu : Val) (off : Nat) (p q : Val) (t : Rat) :
    linAt n mu off (seg p q t) = (1 - t) * linAt n mu off p + t * linAt n mu off q := by
  unfold linAt
  rw [← sumTo_mul_left, ← sumTo_mul_left, ← sumTo_add]
  apply sumTo_congr
  intro i _
  simp only [seg]; ring

theorem valueAt_seg (n : Nat) (mu p q : Val) (t : Rat) :
    Spec.valueAt n mu (seg p q t) = (1 - t) * Spec.valueAt n mu p + t * Spec.valueAt n mu q := by
  unfold Spec.valueAt; rw [linAt_seg]; ring

theorem decrAt_seg (n : Nat) (mu p q : Val) (t : Rat) :
    Spec.decrAt n mu (seg p q t) = (1 - t) * Spec.decrAt n mu p + t * Spec.decrAt n mu q := by
  unfold Spec.decrAt; rw [linAt_seg, linAt_seg]; ring

/-- the relation is included in its relaxation -/
theorem Sat_relax_of_Sat (cs : List Con) (w : Val) (h : Sat cs w) : Sat (relax cs) w := by
  intro c hc
  obtain ⟨d, hd, rfl⟩ := List.mem_map.mp hc
  have := h d hd
  unfold Con.sat at this ⊢
  simp only [Bool.false_eq_true, if_false]
  split at this
  · exact le_of_lt this
  · exact this

theorem eval_nonneg_of_relax (cs : List Con) (w : Val) (h : Sat (relax cs) w) (c : Con)
    (hc : c ∈ cs) : 0 ≤ c.eval w := by
  have := h _ (List.mem_map_of_mem (f := fun c : Con => { c with strict := false }) hc)
  simpa [Con.sat, Con.eval] using this

/-- the half-open segment from a point of the relaxation to a point of the relation lies in the
    relation -/
theorem Sat_seg (cs : List Con) (p q : Val) (t : Rat) (ht0 : 0 < t) (ht1 : t ≤ 1)
    (hp : Sat (relax cs) p) (hq : Sat cs q) : Sat cs (seg p q t) := by
  intro c hc
  have h1 := eval_nonneg_of_relax cs p hp c hc
  have h2 := hq c hc
  have h3 : 0 ≤ (1 - t) * c.eval p := mul_nonneg (by linarith) h1
  unfold Con.sat at h2 ⊢
  rw [eval_seg]
  split
  · rename_i hs
    simp only [hs, if_true] at h2
    have := mul_pos ht0 h2
    linarith
  · rename_i hs
    simp only [hs] at h2
    have : 0 ≤ t * c.eval q := mul_nonneg (le_of_lt ht0) h2
    linarith

/-- an affine function of `t` that is `≥ c` on `(0, 1]` is `≥ c` at `0` -/
theorem le_of_segment (a b c : Rat) (h : ∀ t, 0 < t → t ≤ 1 → c ≤ (1 - t) * a + t * b) : c ≤ a := by
  refine not_lt.mp (fun hlt => ?_)
  have hb := h 1 one_pos (le_refl _)
  have hb' : c ≤ b := by linarith
  have hba : 0 < b - a := by linarith
  have hca : 0 < c - a := by linarith
  have h2 : 0 < 2 * (b - a) := by linarith
  have ht0 : 0 < (c - a) / (2 * (b - a)) := div_pos hca h2
  have ht1 : (c - a) / (2 * (b - a)) ≤ 1 := by
    rw [div_le_one h2]; linarith
  have := h _ ht0 ht1
  have e : (1 - (c - a) / (2 * (b - a))) * a + (c - a) / (2 * (b - a)) * b = a + (c - a) / 2 := by
    have : b - a ≠ 0 := ne_of_gt hba
    field_simp
    ring
  rw [e] at this
  linarith

/-- ranking conditions with fixed constants transfer between a non-empty relation and its
    relaxation -/
theorem isRankingWith_relax_iff (n : Nat) (cs : List Con) (hne : ∃ w, Sat cs w) (mu : Val)
    (δ β : Rat) :
    Spec.isRankingWith n (sem (relax cs)) mu δ β ↔ Spec.isRankingWith n (sem cs) mu δ β := by
  constructor
  · intro h w hw
    exact h w (Sat_relax_of_Sat cs w hw)
  · intro h w hw
    obtain ⟨q, hq⟩ := hne
    have key : ∀ t : Rat, 0 < t → t ≤ 1 → Sat cs (seg w q t) :=
      fun t h0 h1 => Sat_seg cs w q t h0 h1 hw hq
    constructor
    · apply le_of_segment _ (Spec.valueAt n mu q)
      intro t h0 h1
      rw [← valueAt_seg]
      exact (h _ (key t h0 h1)).1
    · apply le_of_segment _ (Spec.decrAt n mu q)
      intro t h0 h1
      rw [← decrAt_seg]
      exact (h _ (key t h0 h1)).2

/-- **`assign_all_inequalities_approximation` is exact for ranking functions**: a non-empty
    relation and its closure have the same ranking functions (normal form). -/
theorem isRanking_relax_iff (n : Nat) (cs : List Con) (hne : ∃ w, Sat cs w) (mu : Val) :
    Spec.isRanking n (sem (relax cs)) mu ↔ Spec.isRanking n (sem cs) mu :=
  isRankingWith_relax_iff n cs hne mu 1 0

/-- the same for the general form (some `δ > 0`, some `β`) -/
theorem isRankingGen_relax_iff (n : Nat) (cs : List Con) (hne : ∃ w, Sat cs w) (mu : Val) :
    Spec.isRankingGen n (sem (relax cs)) mu ↔ Spec.isRankingGen n (sem cs) mu := by
  unfold Spec.isRankingGen
  constructor
  · rintro ⟨δ, β, hδ, h⟩
    exact ⟨δ, β, hδ, (isRankingWith_relax_iff n cs hne mu δ β).mp h⟩
  · rintro ⟨δ, β, hδ, h⟩
    exact ⟨δ, β, hδ, (isRankingWith_relax_iff n cs hne mu δ β).mpr h⟩

/-- non-vacuity: `x − x' ≥ 1 ∧ x > 0` (`n = 1`) is non-empty and has a strict row; `μ(x) = x`
    is a ranking function of it, hence (by the theorem) of its closure -/
example : ∃ (n : Nat) (cs : List Con) (mu : Val), (∃ w, Sat cs w) ∧ (∃ c ∈ cs, c.strict = true) ∧
    Spec.isRanking n (sem cs) mu ∧ Spec.isRanking n (sem (relax cs)) mu := by
  have hne : ∃ w, Sat [(⟨[-1, 1], -1, false⟩ : Con), ⟨[0, 1], 0, true⟩] w := by
    refine ⟨fun j => if j = 0 then 0 else 1, ?_⟩
    intro c hc; simp at hc
    rcases hc with rfl | rfl <;> simp [Con.sat, Con.eval, Val.tail]
  have hr : Spec.isRanking 1 (sem [(⟨[-1, 1], -1, false⟩ : Con), ⟨[0, 1], 0, true⟩])
      (fun j => if j = 0 then 1 else 0) := by
    intro w hw
    have h1 := hw ⟨[-1, 1], -1, false⟩ (by simp)
    have h2 := hw ⟨[0, 1], 0, true⟩ (by simp)
    simp [Con.sat, Con.eval, Val.tail] at h1 h2
    simp [Spec.valueAt, Spec.decrAt, linAt, sumTo]
    constructor <;> linarith
  exact ⟨1, _, _, hne, ⟨⟨[0, 1], 0, true⟩, by simp, rfl⟩, hr, (isRanking_relax_iff 1 _ hne _).mpr hr⟩

/-- `x' = x ∧ x > 0 ∧ x ≤ 0` (`n = 1`; coordinate 0 is `x'`, coordinate 1 is `x`) -/
def closureCex : List Con :=
  [⟨[1, -1], 0, false⟩, ⟨[-1, 1], 0, false⟩, ⟨[0, 1], 0, true⟩, ⟨[0, -1], 0, false⟩]

/-- **the hypothesis `hne` is sharp**: `closureCex` is empty, so every function is vacuously a
    ranking function of it, while its relaxation `x' = x = 0` is a non-empty relation (a
    self-loop) that has no ranking function at all, not even in the general form.  On such an
    input the termination functions analyse `relax cs` (and answer "no ranking function"),
    although the relation given to them is empty. -/
theorem relax_ranking_empty_sharp :
    (¬ ∃ w, Sat closureCex w) ∧ (∀ mu, Spec.isRanking 1 (sem closureCex) mu) ∧
    (∃ w, Sat (relax closureCex) w) ∧ (∀ mu, ¬ Spec.isRankingGen 1 (sem (relax closureCex)) mu) ∧
    (∀ mu, ¬ Spec.isRanking 1 (sem (relax closureCex)) mu) := by
  have hem : ¬ ∃ w, Sat closureCex w := by
    rintro ⟨w, hw⟩
    have h1 := hw ⟨[0, 1], 0, true⟩ (by simp [closureCex])
    have h2 := hw ⟨[0, -1], 0, false⟩ (by simp [closureCex])
    simp [Con.sat, Con.eval, Val.tail] at h1 h2
    linarith
  have hz : Sat (relax closureCex) Val.zero := by
    intro c hc
    simp [relax, closureCex] at hc
    rcases hc with rfl | rfl | rfl | rfl <;> simp [Con.sat, Con.eval, Val.tail, Val.zero]
  have hno : ∀ mu, ¬ Spec.isRankingGen 1 (sem (relax closureCex)) mu := by
    rintro mu ⟨δ, β, hδ, h⟩
    have := (h Val.zero hz).2
    simp [Spec.decrAt, linAt, sumTo, Val.zero] at this
    linarith
  refine ⟨hem, fun mu w hw => absurd ⟨w, hw⟩ hem, ⟨_, hz⟩, hno, ?_⟩
  intro mu h
  exact hno mu ⟨1, 0, one_pos, h⟩

end PPLV.Term
