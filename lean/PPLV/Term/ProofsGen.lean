import PPLV.Term.Proofs

/-! # C18 helper lemmas, part 5: refutation through generators; the existence decider -/
namespace PPLV.Term
open PPLV.Lin

/-! ### moving along a direction -/

def along (p r : Val) (t : Rat) : Val := fun i => p i + t * r i

theorem along_tail (p r : Val) (t : Rat) : (along p r t).tail = along p.tail r.tail t := rfl

theorem dot_along (a : List Int) (p r : Val) (t : Rat) :
    dot a (along p r t) = dot a p + t * dot a r := by
  induction a generalizing p r with
  | nil => simp
  | cons x xs ih =>
    rw [dot_cons, dot_cons, dot_cons, along_tail, ih]
    simp only [along]; ring

theorem linAt_along (n : Nat) (mu : Val) (off : Nat) (p r : Val) (t : Rat) :
    linAt n mu off (along p r t) = linAt n mu off p + t * linAt n mu off r := by
  unfold linAt
  rw [← sumTo_mul_left, ← sumTo_add]
  apply sumTo_congr
  intro i _
  simp only [along]; ring

theorem Sat_along (cs : List Con) (p r : Val) (t : Rat) (ht : 0 ≤ t) (hp : Sat cs p)
    (hr : ∀ c ∈ cs, 0 ≤ dot c.coeffs r) : Sat cs (along p r t) := by
  intro c hc
  have h1 := hp c hc
  have h2 := mul_nonneg ht (hr c hc)
  unfold Con.sat Con.eval at *
  rw [dot_along]
  split
  · rename_i hs; simp only [hs, if_true] at h1; linarith
  · rename_i hs; simp only [hs] at h1; simp only [Bool.false_eq_true, if_false] at h1; linarith

/-! ### the rows a generator imposes on `μ` -/

theorem getD_padTo (n : Nat) (c : List Int) (i : Nat) (hi : i < n) : (padTo n c).getD i 0 = c.getD i 0 := by
  unfold padTo
  simp only [List.getD_eq_getElem?_getD, List.getElem?_append, List.length_take]
  by_cases h : i < c.length
  · have : i < min n c.length := by omega
    simp [this, List.getElem?_eq_getElem h]
  · have : ¬ i < min n c.length := by omega
    simp only [this, if_false]
    have h2 : c[i]? = none := by simp; omega
    rw [h2, List.getElem?_replicate]
    split <;> simp

theorem length_xPart (n : Nat) (c : List Int) : (xPart n c).length = n := by
  simp [xPart, length_padTo]; omega

theorem dot_xPart (n : Nat) (c : List Int) (mu : Val) :
    dot (xPart n c) mu = sumTo n (fun i => ((c.getD (n + i) 0 : Int) : Rat) * mu i) := by
  rw [dot_sumTo (xPart n c) n (le_of_eq (length_xPart n c))]
  apply sumTo_congr
  intro i hi
  have : (xPart n c).getD i 0 = c.getD (n + i) 0 := by
    unfold xPart
    rw [List.getD_eq_getElem?_getD, List.getElem?_drop, ← List.getD_eq_getElem?_getD,
      getD_padTo (2*n) c (n + i) (by omega)]
  rw [this]

theorem dot_pPart (n : Nat) (c : List Int) (mu : Val) :
    dot (pPart n c) mu = sumTo n (fun i => ((c.getD i 0 : Int) : Rat) * mu i) := dot_padTo n c mu

theorem dot_diffPart (n : Nat) (c : List Int) (mu : Val) :
    dot (diffPart n c) mu = dot (xPart n c) mu - dot (pPart n c) mu := by
  unfold diffPart
  rw [dot_lincomb]; push_cast; ring

theorem linAt_ratPoint' (n : Nat) (mu : Val) (c : List Int) (d : Int) (hd : (d : Rat) ≠ 0) (off : Nat) :
    (d : Rat) * linAt n mu off (ratPoint c d) = sumTo n (fun i => ((c.getD (off + i) 0 : Int) : Rat) * mu i) := by
  unfold linAt
  rw [← sumTo_mul_left]
  apply sumTo_congr
  intro i _
  simp only [ratPoint]
  field_simp

theorem value_row_point (n : Nat) (mu : Val) (c : List Int) (d : Int) (hd : (d : Rat) ≠ 0) :
    dot (xPart n c ++ [d]) mu = (d : Rat) * Spec.valueAt n mu (ratPoint c d) := by
  rw [dot_append, length_xPart, dot_xPart, Spec.valueAt, mul_add, linAt_ratPoint' n mu c d hd n]
  simp [dot_cons]; ring

theorem decr_row_gen (n : Nat) (mu : Val) (c : List Int) (d : Int) (hd : (d : Rat) ≠ 0) :
    dot (diffPart n c) mu = (d : Rat) * Spec.decrAt n mu (ratPoint c d) := by
  rw [dot_diffPart, dot_xPart, dot_pPart, Spec.decrAt, mul_sub, linAt_ratPoint' n mu c d hd n,
    linAt_ratPoint' n mu c d hd 0]
  congr 1
  apply sumTo_congr
  intro i _
  simp

theorem lin_row_ray (n : Nat) (mu : Val) (c : List Int) :
    dot (xPart n c) mu = linAt n mu n (ratPoint c 1) := by
  have := linAt_ratPoint' n mu c 1 (by norm_num) n
  rw [dot_xPart, ← this]; simp

theorem valueAt_along (n : Nat) (mu p r : Val) (t : Rat) :
    Spec.valueAt n mu (along p r t) = Spec.valueAt n mu p + t * linAt n mu n r := by
  unfold Spec.valueAt; rw [linAt_along]; ring

theorem decrAt_along (n : Nat) (mu p r : Val) (t : Rat) :
    Spec.decrAt n mu (along p r t) = Spec.decrAt n mu p + t * Spec.decrAt n mu r := by
  unfold Spec.decrAt; rw [linAt_along, linAt_along]; ring

/-! ### well-formedness of `rankCons` -/

theorem length_diffPart (n : Nat) (c : List Int) : (diffPart n c).length = n := by
  unfold diffPart
  rw [length_lincomb' ]
  all_goals simp [length_xPart, pPart, length_padTo]
where
  length_lincomb' : ∀ {a b : Int} {xs ys : List Int}, xs.length = ys.length →
      (lincomb a b xs ys).length = xs.length := by
    intro a b xs
    induction xs with
    | nil => intro ys h; cases ys with
      | nil => simp [lincomb]
      | cons y ys => simp at h
    | cons x xs ih =>
      intro ys h
      cases ys with
      | nil => simp at h
      | cons y ys => simp only [lincomb, List.length_cons]; rw [ih (by simpa using h)]

theorem rankCons_wf (n : Nat) (gs : List Gen) : WF (n + 1) (rankCons n gs) := by
  intro c hc
  unfold rankCons at hc
  rw [List.mem_flatMap] at hc
  obtain ⟨g, -, hcg⟩ := hc
  unfold rankRows at hcg
  split at hcg
  · simp only [List.mem_cons, List.not_mem_nil, or_false] at hcg
    rcases hcg with rfl | rfl
    · simp [geRow, length_xPart]
    · simp [geRow, length_diffPart]
  · simp only [List.mem_cons, List.not_mem_nil, or_false] at hcg
    rcases hcg with rfl | rfl
    · simp [geRow, length_xPart]
    · simp [geRow, length_diffPart]
  · simp only [List.mem_cons, List.not_mem_nil, or_false] at hcg
    subst hcg; simp [falseRow]

/-! ### refutation -/

theorem genInB_point (cs : List Con) (g : Gen) (hk : g.kind = .point) (h : genInB cs g = true) :
    0 < g.div ∧ Sat cs (ratPoint g.coords g.div) := by
  unfold genInB at h
  rw [hk] at h
  simp only [Bool.and_eq_true, decide_eq_true_eq, List.all_eq_true] at h
  exact ⟨h.1, fun c hc => (holdsAt_iff c _ _ h.1).mp (h.2 c hc)⟩

theorem genInB_ray (cs : List Con) (g : Gen) (hk : g.kind = .ray) (h : genInB cs g = true) :
    ∀ c ∈ cs, 0 ≤ dot c.coeffs (ratPoint g.coords 1) := by
  unfold genInB at h
  rw [hk] at h
  simp only [List.all_eq_true] at h
  intro c hc
  have := (holdsAt_iff _ _ _ (by norm_num : (0:Int) < 1)).mp (h c hc)
  simpa [Con.sat, Con.eval] using this

theorem genInB_kind (cs : List Con) (g : Gen) (h : genInB cs g = true) :
    g.kind = .point ∨ g.kind = .ray := by
  unfold genInB at h
  cases hk : g.kind <;> simp [hk] at h ⊢

/-- a ranking function of `sem cs` satisfies the rows of every generator lying in `sem cs` -/
theorem rankCons_of_ranking (n : Nat) (cs : List Con) (gs : List Gen)
    (hpt : ∃ g ∈ gs, g.kind = .point) (hin : ∀ g ∈ gs, genInB cs g = true)
    (mu : Val) (hmu : Spec.isRanking n (sem cs) mu) : Sat (rankCons n gs) mu := by
  obtain ⟨g0, hg0, hk0⟩ := hpt
  obtain ⟨hd0, hp0⟩ := genInB_point cs g0 hk0 (hin g0 hg0)
  have hbase := hmu _ hp0
  intro c hc
  unfold rankCons at hc
  rw [List.mem_flatMap] at hc
  obtain ⟨g, hg, hcg⟩ := hc
  rcases genInB_kind cs g (hin g hg) with hk | hk
  · -- a point of the relation
    obtain ⟨hd, hp⟩ := genInB_point cs g hk (hin g hg)
    have hd' : (0 : Rat) < (g.div : Rat) := by exact_mod_cast hd
    have hr := hmu _ hp
    unfold rankRows at hcg
    rw [hk] at hcg
    simp only [List.mem_cons, List.not_mem_nil, or_false] at hcg
    rcases hcg with rfl | rfl
    · rw [sat_geRow', value_row_point n mu _ _ (ne_of_gt hd')]
      have := mul_nonneg (le_of_lt hd') hr.1
      simpa using this
    · rw [sat_geRow', decr_row_gen n mu _ _ (ne_of_gt hd')]
      have : 0 ≤ (g.div : Rat) * (Spec.decrAt n mu (ratPoint g.coords g.div) - 1) :=
        mul_nonneg (le_of_lt hd') (by linarith [hr.2])
      push_cast; linarith
  · -- a recession direction
    have hrec := genInB_ray cs g hk (hin g hg)
    have hall : ∀ t : Rat, 0 ≤ t →
        0 ≤ Spec.valueAt n mu (ratPoint g0.coords g0.div) + t * linAt n mu n (ratPoint g.coords 1) ∧
        1 ≤ Spec.decrAt n mu (ratPoint g0.coords g0.div) + t * Spec.decrAt n mu (ratPoint g.coords 1) := by
      intro t ht
      have := hmu _ (Sat_along cs _ _ t ht hp0 hrec)
      rw [valueAt_along, decrAt_along] at this
      exact this
    unfold rankRows at hcg
    rw [hk] at hcg
    simp only [List.mem_cons, List.not_mem_nil, or_false] at hcg
    rcases hcg with rfl | rfl
    · rw [sat_geRow', lin_row_ray]
      by_contra hneg
      have hneg' : linAt n mu n (ratPoint g.coords 1) < 0 := by simpa using hneg
      have hV := hbase.1
      have ht : 0 ≤ (Spec.valueAt n mu (ratPoint g0.coords g0.div) + 1) / (- linAt n mu n (ratPoint g.coords 1)) :=
        div_nonneg (by linarith) (by linarith)
      have := (hall _ ht).1
      have e : (Spec.valueAt n mu (ratPoint g0.coords g0.div) + 1) / (- linAt n mu n (ratPoint g.coords 1))
          * linAt n mu n (ratPoint g.coords 1) = -(Spec.valueAt n mu (ratPoint g0.coords g0.div) + 1) := by
        have hne : linAt n mu n (ratPoint g.coords 1) ≠ 0 := ne_of_lt hneg'
        field_simp
      rw [e] at this
      linarith
    · rw [sat_geRow', decr_row_gen n mu _ 1 (by norm_num)]
      by_contra hneg
      have hneg' : Spec.decrAt n mu (ratPoint g.coords 1) < 0 := by simpa using hneg
      have hD := hbase.2
      have ht : 0 ≤ (Spec.decrAt n mu (ratPoint g0.coords g0.div)) / (- Spec.decrAt n mu (ratPoint g.coords 1)) :=
        div_nonneg (by linarith) (by linarith)
      have := (hall _ ht).2
      have e : (Spec.decrAt n mu (ratPoint g0.coords g0.div)) / (- Spec.decrAt n mu (ratPoint g.coords 1))
          * Spec.decrAt n mu (ratPoint g.coords 1) = -(Spec.decrAt n mu (ratPoint g0.coords g0.div)) := by
        have hne : Spec.decrAt n mu (ratPoint g.coords 1) ≠ 0 := ne_of_lt hneg'
        field_simp
      rw [e] at this
      linarith
where
  sat_geRow' : ∀ {cf : List Int} {k : Int} {w : Val}, (geRow cf k).sat w ↔ 0 ≤ dot cf w + (k : Rat) := by
    intro cf k w; simp [Con.sat, geRow, Con.eval]

/-- **Refutation is sound**: `noRankingB` proves that no affine ranking function exists. -/
theorem noRankingB_sound (n : Nat) (cs : List Con) (gs : List Gen) (h : noRankingB n cs gs = true) :
    ¬ ∃ mu, Spec.isRanking n (sem cs) mu := by
  unfold noRankingB at h
  simp only [Bool.and_eq_true, List.any_eq_true, List.all_eq_true, Bool.not_eq_true', beq_iff_eq] at h
  obtain ⟨⟨hpt, hin⟩, hinf⟩ := h
  rintro ⟨mu, hmu⟩
  have hs := rankCons_of_ranking n cs (expandLines gs) hpt hin mu hmu
  have := (feasible_iff (n + 1) _ (rankCons_wf n _)).mpr ⟨mu, hs⟩
  rw [hinf] at this
  cases this

/-- **The existence decider is sound in both answers.** -/
theorem existsRankingDecider_sound (n : Nat) (cs : List Con) (gs : List Gen) (hwf : WF (2*n) cs)
    (b : Bool) (h : existsRankingDecider n cs gs = some b) :
    b = true ↔ ∃ mu, Spec.isRanking n (sem cs) mu := by
  unfold existsRankingDecider at h
  split at h
  · rename_i he
    have hempty := (isEmptyB_iff (2*n) cs hwf).mp he
    cases h
    refine ⟨fun _ => ⟨Val.zero, fun w hw => ?_⟩, fun _ => rfl⟩
    have hw' : w ∈ sem cs := hw
    rw [hempty] at hw'
    exact absurd hw' (Set.notMem_empty w)
  · split at h
    · rename_i c d _
      split at h
      · rename_i hr
        cases h
        exact ⟨fun _ => ⟨_, ((isRankingB_iff n cs c d hwf).mp hr).2⟩, fun _ => rfl⟩
      · cases h
    · split at h
      · rename_i hno
        cases h
        exact ⟨fun h => (by cases h), fun hex => absurd hex (noRankingB_sound n cs gs hno)⟩
      · cases h

end PPLV.Term
