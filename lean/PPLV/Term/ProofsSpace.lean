import PPLV.Term.Proofs2

/-! # C18 helper lemmas, part 6: every element of a returned space is a ranking function

`mu_space` is a polyhedron of dimension `n+1`; by `GenSem` each of its elements is
`Σ_j λ_j g_j` (points with weights summing to one, rays `≥ 0`, lines free).  `μ ↦ μ(x)` and
`μ ↦ μ(x) − μ(x')` are linear in `μ` for a fixed pair `(x', x)`, so the conditions checked on the
generators (`spaceOK`) carry over to every element. -/
namespace PPLV.Term
open PPLV.Lin

theorem sumTo_wsum (N : Nat) (a : Nat → Rat) (F : Gen → Nat → Rat) (gs : List Gen) (lam : Val) :
    sumTo N (fun i => wsum (fun g => F g i) gs lam * a i)
      = wsum (fun g => sumTo N (fun i => F g i * a i)) gs lam := by
  induction gs generalizing lam with
  | nil =>
    simp only [wsum, zero_mul]
    exact sumTo_zero N
  | cons g gs ih =>
    simp only [wsum]
    rw [← ih lam.tail, ← sumTo_mul_left, ← sumTo_add]
    apply sumTo_congr
    intro i _
    ring

theorem wsum_sub (f h : Gen → Rat) (gs : List Gen) (lam : Val) :
    wsum (fun g => f g - h g) gs lam = wsum f gs lam - wsum h gs lam := by
  induction gs generalizing lam with
  | nil => simp [wsum]
  | cons g gs ih => simp only [wsum, ih]; ring

theorem valueAt_genSem (n : Nat) (gs : List Gen) (lam mu w : Val)
    (hmu : ∀ i < n + 1, mu i = wsum (fun g => g.coord i) gs lam) :
    Spec.valueAt n mu w = wsum (fun g => Spec.valueAt n g.coord w) gs lam := by
  let a : Nat → Rat := fun i => if i < n then w (n + i) else 1
  have h1 : Spec.valueAt n mu w = sumTo (n + 1) (fun i => mu i * a i) := by
    unfold Spec.valueAt linAt
    simp only [sumTo, a, Nat.lt_irrefl, if_false, mul_one]
    rw [add_comm]
    congr 1
    apply sumTo_congr
    intro i hi
    simp [hi]
  have h2 : ∀ g : Gen, Spec.valueAt n g.coord w = sumTo (n + 1) (fun i => g.coord i * a i) := by
    intro g
    unfold Spec.valueAt linAt
    simp only [sumTo, a, Nat.lt_irrefl, if_false, mul_one]
    rw [add_comm]
    congr 1
    apply sumTo_congr
    intro i hi
    simp [hi]
  rw [h1]
  have : (fun g : Gen => Spec.valueAt n g.coord w) = fun g : Gen => sumTo (n + 1) (fun i => g.coord i * a i) :=
    funext h2
  rw [this, ← sumTo_wsum]
  apply sumTo_congr
  intro i hi
  rw [hmu i hi]

theorem decrAt_genSem (n : Nat) (gs : List Gen) (lam mu w : Val)
    (hmu : ∀ i < n + 1, mu i = wsum (fun g => g.coord i) gs lam) :
    Spec.decrAt n mu w = wsum (fun g => Spec.decrAt n g.coord w) gs lam := by
  let b : Nat → Rat := fun i => w (n + i) - w (0 + i)
  have h0 : ∀ m : Val, Spec.decrAt n m w = sumTo n (fun i => m i * b i) := by
    intro m
    unfold Spec.decrAt linAt
    rw [← sumTo_sub]
    apply sumTo_congr
    intro i _
    simp only [b]; ring
  rw [h0 mu]
  have : (fun g : Gen => Spec.decrAt n g.coord w) = fun g : Gen => sumTo n (fun i => g.coord i * b i) :=
    funext (fun g => h0 g.coord)
  rw [this, ← sumTo_wsum]
  apply sumTo_congr
  intro i hi
  rw [hmu i (by omega)]

/-! ### what the checks on one generator mean -/

theorem coord_eq_ratPoint (g : Gen) : g.coord = ratPoint g.coords g.d := rfl

theorem getD_map_neg (c : List Int) (i : Nat) : (c.map (- ·)).getD i 0 = - c.getD i 0 := by
  simp only [List.getD_eq_getElem?_getD, List.getElem?_map]
  cases c[i]? <;> simp

theorem linAt_ratPoint_neg (n : Nat) (c : List Int) (d : Int) (off : Nat) (w : Val) :
    linAt n (ratPoint (c.map (- ·)) d) off w = - linAt n (ratPoint c d) off w := by
  unfold linAt
  rw [← neg_one_mul, ← sumTo_mul_left]
  apply sumTo_congr
  intro i _
  simp only [ratPoint, getD_map_neg]
  push_cast; ring

theorem valueAt_ratPoint_neg (n : Nat) (c : List Int) (d : Int) (w : Val) :
    Spec.valueAt n (ratPoint (c.map (- ·)) d) w = - Spec.valueAt n (ratPoint c d) w := by
  unfold Spec.valueAt
  rw [linAt_ratPoint_neg]
  simp only [ratPoint, getD_map_neg]
  push_cast; ring

theorem decrAt_ratPoint_neg (n : Nat) (c : List Int) (d : Int) (w : Val) :
    Spec.decrAt n (ratPoint (c.map (- ·)) d) w = - Spec.decrAt n (ratPoint c d) w := by
  unfold Spec.decrAt
  rw [linAt_ratPoint_neg, linAt_ratPoint_neg]; ring

theorem homOK_spec (n : Nat) (R : List Con) (c : List Int) (hwf : WF (2*n) R) (h : homOK n R c = true)
    (w : Val) (hw : w ∈ sem R) :
    0 ≤ Spec.valueAt n (ratPoint c 1) w ∧ 0 ≤ Spec.decrAt n (ratPoint c 1) w := by
  unfold homOK at h
  rw [Bool.and_eq_true, implies_iff (2*n) R _ hwf (valueRow_len n c),
    implies_iff (2*n) R _ hwf (decrRow_len n c 0)] at h
  have a1 := h.1 w hw
  have a2 := h.2 w hw
  have e1 := valueRow_eval_ratPoint n c 1 (by norm_num) w
  have e2 := decrRow_eval_ratPoint n c 1 0 (by norm_num) w
  unfold Con.sat at a1 a2
  simp only [valueRow, decrRow, Bool.false_eq_true, if_false] at a1 a2 e1 e2
  rw [e1] at a1
  rw [e2] at a2
  constructor
  · simpa using a1
  · simpa using a2

theorem mem_of_getD (gs : List Gen) (j : Nat) (hj : j < gs.length) : gs.getD j default ∈ gs := by
  rw [List.getD_eq_getElem?_getD, List.getElem?_eq_getElem hj]
  exact List.getElem_mem hj

/-- **Every element of a space whose generators pass `spaceOK` is a ranking function.** -/
theorem spaceOK_sound (n : Nat) (R : List Con) (gs : List Gen) (hwf : WF (2*n) R)
    (h : spaceOK n R gs = true) (mu : Val) (hmu : mu ∈ GenSem (n + 1) gs) :
    Spec.isRanking n (sem R) mu := by
  obtain ⟨lam, hnn, hsum, -, hcoord⟩ := hmu
  unfold spaceOK at h
  rw [List.all_eq_true] at h
  intro w hw
  have hw' : w ∈ sem R := hw
  rw [valueAt_genSem n gs lam mu w hcoord, decrAt_genSem n gs lam mu w hcoord]
  -- facts about one generator
  have key : ∀ j < gs.length,
      0 ≤ lam j * Spec.valueAt n (gs.getD j default).coord w ∧
      0 ≤ lam j * (Spec.decrAt n (gs.getD j default).coord w
                    - (if (gs.getD j default).isPtOrCp then 1 else 0)) := by
    intro j hj
    have hg := h _ (mem_of_getD gs j hj)
    have hl := hnn j hj
    generalize gs.getD j default = g at hg hl
    unfold spaceGenOK at hg
    rw [coord_eq_ratPoint]
    cases hk : g.kind with
    | point =>
      rw [hk] at hg
      have hd : g.d = g.div := by simp [Gen.d, Gen.isPtOrCp, hk]
      have hpc : g.isPtOrCp = true := by simp [Gen.isPtOrCp, hk]
      have hlam := hl (by simp [Gen.isLine, hk])
      have hr := ((isRankingB_iff n R _ _ hwf).mp hg).2 w hw
      rw [hd, hpc]
      exact ⟨mul_nonneg hlam hr.1, mul_nonneg hlam (by simp only [if_true]; linarith [hr.2])⟩
    | ray =>
      rw [hk] at hg
      have hd : g.d = 1 := by simp [Gen.d, Gen.isPtOrCp, hk]
      have hpc : g.isPtOrCp = false := by simp [Gen.isPtOrCp, hk]
      have hlam := hl (by simp [Gen.isLine, hk])
      have hr := homOK_spec n R _ hwf hg w hw'
      rw [hd, hpc]
      exact ⟨mul_nonneg hlam hr.1, mul_nonneg hlam (by simpa using hr.2)⟩
    | line =>
      rw [hk] at hg
      have hd : g.d = 1 := by simp [Gen.d, Gen.isPtOrCp, hk]
      have hpc : g.isPtOrCp = false := by simp [Gen.isPtOrCp, hk]
      rw [Bool.and_eq_true] at hg
      have hr1 := homOK_spec n R _ hwf hg.1 w hw'
      have hr2 := homOK_spec n R _ hwf hg.2 w hw'
      rw [valueAt_ratPoint_neg, decrAt_ratPoint_neg] at hr2
      have v0 : Spec.valueAt n (ratPoint g.coords 1) w = 0 := by linarith [hr1.1, hr2.1]
      have d0 : Spec.decrAt n (ratPoint g.coords 1) w = 0 := by linarith [hr1.2, hr2.2]
      rw [hd, hpc, v0, d0]
      simp
    | cpoint =>
      rw [hk] at hg
      cases hg
  constructor
  · exact wsum_nonneg _ gs lam (fun j hj => (key j hj).1)
  · have := wsum_nonneg (fun g => Spec.decrAt n g.coord w - (if g.isPtOrCp then 1 else 0)) gs lam
      (fun j hj => (key j hj).2)
    rw [wsum_sub, hsum] at this
    linarith

end PPLV.Term

namespace PPLV.Term
open PPLV.Lin

/-! ### the two quasi spaces of `all_affine_quasi_ranking_functions_MS` -/

theorem decrRow_implies_spec (n : Nat) (R : List Con) (c : List Int) (d e : Int) (hd : 0 < d)
    (hwf : WF (2*n) R) (h : implies (2*n) R (decrRow n c e) = true) (w : Val) (hw : w ∈ sem R) :
    (e : Rat) ≤ (d : Rat) * Spec.decrAt n (ratPoint c d) w := by
  have hd' : (0 : Rat) < (d : Rat) := by exact_mod_cast hd
  rw [implies_iff (2*n) R _ hwf (decrRow_len n c e)] at h
  have a := h w hw
  have e2 := decrRow_eval_ratPoint n c d e (ne_of_gt hd') w
  unfold Con.sat at a
  simp only [decrRow, Bool.false_eq_true, if_false] at a e2
  rw [e2] at a
  linarith

theorem valueRow_implies_spec (n : Nat) (R : List Con) (c : List Int) (d : Int) (hd : 0 < d)
    (hwf : WF (2*n) R) (h : implies (2*n) R (valueRow n c) = true) (w : Val) (hw : w ∈ sem R) :
    0 ≤ Spec.valueAt n (ratPoint c d) w := by
  have hd' : (0 : Rat) < (d : Rat) := by exact_mod_cast hd
  rw [implies_iff (2*n) R _ hwf (valueRow_len n c)] at h
  have a := h w hw
  have e1 := valueRow_eval_ratPoint n c d (ne_of_gt hd') w
  unfold Con.sat at a
  simp only [valueRow, Bool.false_eq_true, if_false] at a e1
  rw [e1] at a
  exact (mul_nonneg_iff_of_pos_left hd').mp a

/-- every element of a space whose generators pass `decrGenOK` decreases by at least `1` -/
theorem quasi_decreasing_sound (n : Nat) (R : List Con) (gs : List Gen) (hwf : WF (2*n) R)
    (h : quasiOK n R true gs = true) (mu : Val) (hmu : mu ∈ GenSem (n + 1) gs)
    (w : Val) (hw : w ∈ sem R) : 1 ≤ Spec.decrAt n mu w := by
  obtain ⟨lam, hnn, hsum, -, hcoord⟩ := hmu
  unfold quasiOK at h
  simp only [if_true, List.all_eq_true] at h
  rw [decrAt_genSem n gs lam mu w hcoord]
  have key : ∀ j < gs.length,
      0 ≤ lam j * (Spec.decrAt n (gs.getD j default).coord w
                    - (if (gs.getD j default).isPtOrCp then 1 else 0)) := by
    intro j hj
    have hg := h _ (mem_of_getD gs j hj)
    have hl := hnn j hj
    generalize gs.getD j default = g at hg hl
    unfold decrGenOK at hg
    rw [coord_eq_ratPoint]
    cases hk : g.kind with
    | point =>
      rw [hk] at hg
      rw [Bool.and_eq_true, decide_eq_true_eq] at hg
      have hd : g.d = g.div := by simp [Gen.d, Gen.isPtOrCp, hk]
      have hpc : g.isPtOrCp = true := by simp [Gen.isPtOrCp, hk]
      have hlam := hl (by simp [Gen.isLine, hk])
      have hd' : (0 : Rat) < (g.div : Rat) := by exact_mod_cast hg.1
      have a := decrRow_implies_spec n R g.coords g.div g.div hg.1 hwf hg.2 w hw
      have : 0 ≤ (g.div : Rat) * (Spec.decrAt n (ratPoint g.coords g.div) w - 1) := by linarith
      have := (mul_nonneg_iff_of_pos_left hd').mp this
      rw [hd, hpc]
      exact mul_nonneg hlam (by simpa using this)
    | ray =>
      rw [hk] at hg
      have hd : g.d = 1 := by simp [Gen.d, Gen.isPtOrCp, hk]
      have hpc : g.isPtOrCp = false := by simp [Gen.isPtOrCp, hk]
      have hlam := hl (by simp [Gen.isLine, hk])
      have a := decrRow_implies_spec n R g.coords 1 0 (by norm_num) hwf hg w hw
      rw [hd, hpc]
      exact mul_nonneg hlam (by simpa using a)
    | line =>
      rw [hk] at hg
      rw [Bool.and_eq_true] at hg
      have hd : g.d = 1 := by simp [Gen.d, Gen.isPtOrCp, hk]
      have hpc : g.isPtOrCp = false := by simp [Gen.isPtOrCp, hk]
      have a := decrRow_implies_spec n R g.coords 1 0 (by norm_num) hwf hg.1 w hw
      have b := decrRow_implies_spec n R _ 1 0 (by norm_num) hwf hg.2 w hw
      rw [decrAt_ratPoint_neg] at b
      have d0 : Spec.decrAt n (ratPoint g.coords 1) w = 0 := by
        simp only [Int.cast_zero, Int.cast_one, one_mul] at a b
        linarith
      rw [hd, hpc, d0]; simp
    | cpoint => rw [hk] at hg; cases hg
  have := wsum_nonneg (fun g => Spec.decrAt n g.coord w - (if g.isPtOrCp then 1 else 0)) gs lam key
  rw [wsum_sub, hsum] at this
  linarith

/-- every element of a space whose generators pass `boundGenOK` is bounded from below by `0` -/
theorem quasi_bounded_sound (n : Nat) (R : List Con) (gs : List Gen) (hwf : WF (2*n) R)
    (h : quasiOK n R false gs = true) (mu : Val) (hmu : mu ∈ GenSem (n + 1) gs)
    (w : Val) (hw : w ∈ sem R) : 0 ≤ Spec.valueAt n mu w := by
  obtain ⟨lam, hnn, -, -, hcoord⟩ := hmu
  unfold quasiOK at h
  simp only [Bool.false_eq_true, if_false, List.all_eq_true] at h
  rw [valueAt_genSem n gs lam mu w hcoord]
  apply wsum_nonneg
  intro j hj
  have hg := h _ (mem_of_getD gs j hj)
  have hl := hnn j hj
  generalize gs.getD j default = g at hg hl
  unfold boundGenOK at hg
  rw [coord_eq_ratPoint]
  cases hk : g.kind with
  | point =>
    rw [hk] at hg
    rw [Bool.and_eq_true, decide_eq_true_eq] at hg
    have hd : g.d = g.div := by simp [Gen.d, Gen.isPtOrCp, hk]
    have hlam := hl (by simp [Gen.isLine, hk])
    rw [hd]
    exact mul_nonneg hlam (valueRow_implies_spec n R g.coords g.div hg.1 hwf hg.2 w hw)
  | ray =>
    rw [hk] at hg
    have hd : g.d = 1 := by simp [Gen.d, Gen.isPtOrCp, hk]
    have hlam := hl (by simp [Gen.isLine, hk])
    rw [hd]
    exact mul_nonneg hlam (valueRow_implies_spec n R g.coords 1 (by norm_num) hwf hg w hw)
  | line =>
    rw [hk] at hg
    rw [Bool.and_eq_true] at hg
    have hd : g.d = 1 := by simp [Gen.d, Gen.isPtOrCp, hk]
    have a := valueRow_implies_spec n R g.coords 1 (by norm_num) hwf hg.1 w hw
    have b := valueRow_implies_spec n R _ 1 (by norm_num) hwf hg.2 w hw
    rw [valueAt_ratPoint_neg] at b
    have v0 : Spec.valueAt n (ratPoint g.coords 1) w = 0 := by linarith
    rw [hd, v0]; simp
  | cpoint => rw [hk] at hg; cases hg

end PPLV.Term
