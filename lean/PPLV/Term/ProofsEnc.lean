import PPLV.Term.Proofs

/-! # C18 helper lemmas, part 3: the Farkas encodings are sound (weighted-sum argument)

If `y ≥ 0` and every row `a_i·w + b_i ≥ 0` holds at `w`, then `Σ_i y_i (a_i·w + b_i) ≥ 0`;
exchanging the two sums, `Σ_j (Σ_i y_i a_{ij}) w_j + Σ_i y_i b_i ≥ 0`.  The equalities of the
encodings identify the column sums `Σ_i y_i a_{ij}` with `±μ_j`. -/
namespace PPLV.Term
open PPLV.Lin

/-- `Σ_i y_i · (a_i·w + b_i)` -/
def wrows : List Con → Val → Val → Rat
  | [], _, _ => 0
  | c :: cs, y, w => y 0 * c.eval w + wrows cs y.tail w

theorem wrows_nonneg (cs : List Con) (y w : Val) (hy : ∀ i < cs.length, 0 ≤ y i) (hs : Sat cs w) :
    0 ≤ wrows cs y w := by
  induction cs generalizing y with
  | nil => exact le_refl _
  | cons c cs ih =>
    simp only [wrows]
    have h0 : 0 ≤ y 0 := hy 0 (by simp)
    have hc : 0 ≤ c.eval w := by
      have := hs c (by simp)
      unfold Con.sat at this
      split at this
      · exact le_of_lt this
      · exact this
    have hr : 0 ≤ wrows cs y.tail w := by
      apply ih
      · intro i hi
        have := hy (i+1) (by simp; omega)
        simpa [Val.tail] using this
      · intro d hd; exact hs d (by simp [hd])
    have := mul_nonneg h0 hc
    linarith

theorem wrows_exchange (N : Nat) (cs : List Con) (y w : Val) (hwf : WF N cs) :
    wrows cs y w = sumTo N (fun j => dot (col cs j) y * w j) + dot (consts cs) y := by
  induction cs generalizing y with
  | nil =>
    simp only [wrows, col, consts, List.map_nil, dot_nil, zero_mul, add_zero]
    exact (sumTo_zero N).symm
  | cons c cs ih =>
    have hwf' : WF N cs := fun d hd => hwf d (by simp [hd])
    have hc : c.coeffs.length ≤ N := hwf c (by simp)
    simp only [wrows, ih y.tail hwf']
    have hcol : ∀ j, dot (col (c :: cs) j) y = ((c.at j : Int) : Rat) * y 0 + dot (col cs j) y.tail := by
      intro j; simp [col, dot_cons]
    have hk : dot (consts (c :: cs)) y = ((c.k : Int) : Rat) * y 0 + dot (consts cs) y.tail := by
      simp [consts, dot_cons]
    rw [hk]
    have : sumTo N (fun j => dot (col (c :: cs) j) y * w j)
        = y 0 * sumTo N (fun j => ((c.coeffs.getD j 0 : Int) : Rat) * w j)
          + sumTo N (fun j => dot (col cs j) y.tail * w j) := by
      rw [← sumTo_mul_left, ← sumTo_add]
      apply sumTo_congr
      intro j _
      rw [hcol j]
      simp only [Con.at]
      ring
    rw [this]
    unfold Con.eval
    rw [dot_sumTo c.coeffs N hc w]
    ring

/-! ### reading the rows of the encodings -/

theorem Sat_nonnegRows (off m : Nat) (sol : Val) :
    Sat (nonnegRows off m) sol ↔ ∀ i < m, 0 ≤ sol (off + i) := by
  unfold Sat nonnegRows
  simp only [List.mem_map, List.mem_range, forall_exists_index, and_imp, forall_apply_eq_imp_iff₂]
  have key : ∀ i, (geRow (unitRow (off + i) 1) 0).sat sol ↔ 0 ≤ sol (off + i) := by
    intro i
    unfold Con.sat geRow Con.eval
    simp only [Bool.false_eq_true, if_false, dot_unitRow]
    simp
  exact ⟨fun h i hi => (key i).mp (h i hi), fun h i hi => (key i).mpr (h i hi)⟩

theorem dot_headRow (N j : Nat) (hj : j < N) (a : Int) (tl : List Int) (sol : Val) :
    dot (headRow N j a tl) sol = (a : Rat) * sol j + dot tl (fun i => sol (i + N)) := by
  unfold headRow
  have hlen : (unitRow j a ++ List.replicate (N - 1 - j) 0).length = N := by
    simp [unitRow]; omega
  rw [dot_append, dot_append, dot_unitRow, dot_replicate_zero, hlen]
  ring

theorem sat_geRow (cf : List Int) (k : Int) (w : Val) : (geRow cf k).sat w ↔ 0 ≤ dot cf w + (k : Rat) := by
  simp [Con.sat, geRow, Con.eval]

theorem Sat_singleton (c : Con) (w : Val) : Sat [c] w ↔ c.sat w := by
  simp [Sat]

theorem length_col (cs : List Con) (j : Nat) : (col cs j).length = cs.length := by simp [col]
theorem length_consts (cs : List Con) : (consts cs).length = cs.length := by simp [consts]

/-! ### Mesnard–Serebrenik -/

/-- system 1 forces a decrease of at least `1` on every pair of the relation -/
theorem fillMS1_sound (n : Nat) (cs : List Con) (yb : Nat) (hyb : n ≤ yb) (hwf : WF (2*n) cs)
    (sol : Val) (hs : Sat (fillMS1 n cs yb) sol) (w : Val) (hw : Sat cs w) :
    1 ≤ Spec.decrAt n sol w := by
  unfold fillMS1 at hs
  rw [Sat_append, Sat_append, Sat_append, Sat_nonnegRows, Sat_singleton, sat_geRow,
    Sat_flatMap, Sat_flatMap] at hs
  obtain ⟨⟨⟨hnn, hle⟩, hx⟩, hp⟩ := hs
  let y : Val := fun i => sol (i + yb)
  rw [dot_replicate_zero_append, dot_map_neg] at hle
  have hxj : ∀ j < n, dot (col cs (n + j)) y = sol j := by
    intro j hj
    have := (Sat_eqRows _ _ _).mp (hx j (List.mem_range.mpr hj))
    rw [dot_headRow yb j (by omega)] at this
    simp only [Int.cast_neg, Int.cast_one, Int.cast_zero, add_zero] at this
    show dot (col cs (n + j)) (fun i => sol (i + yb)) = sol j
    linarith
  have hpj : ∀ j < n, dot (col cs j) y = - sol j := by
    intro j hj
    have := (Sat_eqRows _ _ _).mp (hp j (List.mem_range.mpr hj))
    rw [dot_headRow yb j (by omega)] at this
    simp only [Int.cast_one, Int.cast_zero, add_zero] at this
    show dot (col cs j) (fun i => sol (i + yb)) = - sol j
    linarith
  have hpos := wrows_nonneg cs y w (fun i hi => by
    have := hnn i hi; show 0 ≤ sol (i + yb); rwa [Nat.add_comm]) hw
  rw [wrows_exchange (2*n) cs y w hwf, Nat.two_mul, sumTo_split] at hpos
  have h1 : sumTo n (fun j => dot (col cs j) y * w j) = - linAt n sol 0 w := by
    unfold linAt
    rw [← neg_one_mul, ← sumTo_mul_left]
    apply sumTo_congr
    intro j hj
    rw [hpj j hj]; simp
  have h2 : sumTo n (fun j => dot (col cs (n + j)) y * w (n + j)) = linAt n sol n w := by
    unfold linAt
    apply sumTo_congr
    intro j hj
    rw [hxj j hj]
  rw [h1, h2] at hpos
  unfold Spec.decrAt
  have hle' : 0 ≤ -dot (consts cs) y + ((-1 : Int) : Rat) := hle
  push_cast at hle'
  linarith

/-- system 2 forces `μ(x) ≥ 0` on every pair of the relation -/
theorem fillMS2_sound (n : Nat) (cs : List Con) (zb : Nat) (hzb : n < zb) (hwf : WF (2*n) cs)
    (sol : Val) (hs : Sat (fillMS2 n cs zb) sol) (w : Val) (hw : Sat cs w) :
    0 ≤ Spec.valueAt n sol w := by
  unfold fillMS2 at hs
  simp only at hs
  rw [Sat_append, Sat_append, Sat_append, Sat_append, Sat_nonnegRows, Sat_singleton, sat_geRow,
    Sat_flatMap, Sat_flatMap, Sat_eqRows] at hs
  obtain ⟨⟨⟨⟨hnn, hle⟩, hx⟩, hp⟩, h0⟩ := hs
  let z : Val := fun i => sol (i + zb)
  have htail : ∀ v : Val, dot [1, -1] v = v 0 - v 1 := by
    intro v; simp [dot_cons, Val.tail]; ring
  rw [dot_replicate_zero_append, dot_append, dot_map_neg, List.length_map, length_consts, htail] at hle
  rw [dot_headRow zb n hzb, dot_replicate_zero_append, htail] at h0
  have hxj : ∀ j < n, dot (col cs (n + j)) z = sol j := by
    intro j hj
    have := (Sat_eqRows _ _ _).mp (hx j (List.mem_range.mpr hj))
    rw [dot_headRow zb j (by omega)] at this
    simp only [Int.cast_neg, Int.cast_one, Int.cast_zero, add_zero] at this
    show dot (col cs (n + j)) (fun i => sol (i + zb)) = sol j
    linarith
  have hpj : ∀ j < n, dot (col cs j) z = 0 := by
    intro j hj
    have := (Sat_eqRows _ _ _).mp (hp j (List.mem_range.mpr hj))
    rw [dot_replicate_zero_append] at this
    simp only [Int.cast_zero, add_zero] at this
    exact this
  have hpos := wrows_nonneg cs z w (fun i hi => by
    have := hnn i (by omega); show 0 ≤ sol (i + zb); rwa [Nat.add_comm]) hw
  rw [wrows_exchange (2*n) cs z w hwf, Nat.two_mul, sumTo_split] at hpos
  have h1 : sumTo n (fun j => dot (col cs j) z * w j) = 0 := by
    rw [← sumTo_zero n]
    apply sumTo_congr
    intro j hj
    rw [hpj j hj]; simp
  have h2 : sumTo n (fun j => dot (col cs (n + j)) z * w (n + j)) = linAt n sol n w := by
    unfold linAt
    apply sumTo_congr
    intro j hj
    rw [hxj j hj]
  rw [h1, h2] at hpos
  unfold Spec.valueAt
  simp only [Int.cast_neg, Int.cast_one, Int.cast_zero, add_zero] at hle h0
  have : dot (consts cs) (fun j => sol (j + zb)) = dot (consts cs) z := rfl
  rw [this] at hle
  linarith

end PPLV.Term
