import PPLV.Term.ProofsGen
import PPLV.Term.ProofsSpace

/-! # C18 helper lemmas, part 8: when the generator hint covers the relation, every solution of
the finite system `rankCons` is a ranking function (the converse of `rankCons_of_ranking`) -/
namespace PPLV.Term
open PPLV.Lin

theorem wsum_add (f h : Gen → Rat) (gs : List Gen) (lam : Val) :
    wsum (fun g => f g + h g) gs lam = wsum f gs lam + wsum h gs lam := by
  induction gs generalizing lam with
  | nil => simp [wsum]
  | cons g gs ih => simp only [wsum, ih]; ring

theorem wsum_mul_left (a : Rat) (f : Gen → Rat) (gs : List Gen) (lam : Val) :
    wsum (fun g => a * f g) gs lam = a * wsum f gs lam := by
  induction gs generalizing lam with
  | nil => simp [wsum]
  | cons g gs ih => simp only [wsum, ih]; ring

/-- `μ`-linear forms of a combination of generators -/
theorem linAt_genSem (n N : Nat) (mu : Val) (off : Nat) (hoff : off + n ≤ N) (gs : List Gen) (lam w : Val)
    (hw : ∀ i < N, w i = wsum (fun g => g.coord i) gs lam) :
    linAt n mu off w = wsum (fun g => linAt n mu off g.coord) gs lam := by
  unfold linAt
  have h1 : sumTo n (fun i => mu i * w (off + i))
      = sumTo n (fun i => wsum (fun g => g.coord (off + i)) gs lam * mu i) := by
    apply sumTo_congr
    intro i hi
    rw [hw (off + i) (by omega)]; ring
  rw [h1, sumTo_wsum n mu (fun g i => g.coord (off + i)) gs lam]
  congr 1
  funext g
  apply sumTo_congr
  intro i _
  ring

theorem mem_expandLines (gs : List Gen) (g : Gen) (hg : g ∈ gs) :
    (g.kind ≠ .line → g ∈ expandLines gs) ∧
    (g.kind = .line → (⟨.ray, g.coords, 1⟩ : Gen) ∈ expandLines gs ∧
                       (⟨.ray, g.coords.map (- ·), 1⟩ : Gen) ∈ expandLines gs) := by
  unfold expandLines
  simp only [List.mem_flatMap]
  constructor
  · intro hk
    refine ⟨g, hg, ?_⟩
    have : (g.kind == GKind.line) = false := by simpa using hk
    simp [this]
  · intro hk
    have : (g.kind == GKind.line) = true := by simpa using hk
    exact ⟨⟨g, hg, by simp [this]⟩, ⟨g, hg, by simp [this]⟩⟩

theorem Sat_rankRows (n : Nat) (gs : List Gen) (mu : Val) (h : Sat (rankCons n gs) mu)
    (g : Gen) (hg : g ∈ gs) : Sat (rankRows n g) mu := by
  unfold rankCons at h
  exact (Sat_flatMap gs (rankRows n) mu).mp h g hg

theorem rankRows_ray (n : Nat) (c : List Int) (mu : Val)
    (h : Sat (rankRows n (⟨.ray, c, 1⟩ : Gen)) mu) :
    0 ≤ linAt n mu n (ratPoint c 1) ∧ 0 ≤ Spec.decrAt n mu (ratPoint c 1) := by
  unfold rankRows at h
  simp only at h
  have h1 := h _ (by simp : geRow (xPart n c) 0 ∈ [geRow (xPart n c) 0, geRow (diffPart n c) 0])
  have h2 := h _ (by simp : geRow (diffPart n c) 0 ∈ [geRow (xPart n c) 0, geRow (diffPart n c) 0])
  simp only [Con.sat, geRow, Con.eval, Bool.false_eq_true, if_false, Int.cast_zero, add_zero] at h1 h2
  rw [lin_row_ray] at h1
  rw [decr_row_gen n mu c 1 (by norm_num)] at h2
  exact ⟨h1, by simpa using h2⟩

/-- **Covering hint**: if every pair of the relation is a combination of the generators `gs`
    (no closure points), a solution of `rankCons` is a ranking function of the relation. -/
theorem rankCons_sound (n : Nat) (gs : List Gen) (hclosed : ∀ g ∈ gs, g.kind ≠ .cpoint)
    (hwf : gensWF (2*n) gs = true) (mu : Val) (h : Sat (rankCons n (expandLines gs)) mu)
    (w : Val) (hw : w ∈ GenSem (2*n) gs) :
    0 ≤ Spec.valueAt n mu w ∧ 1 ≤ Spec.decrAt n mu w := by
  obtain ⟨lam, hnn, hsum, -, hcoord⟩ := hw
  have hL0 := linAt_genSem n (2*n) mu 0 (by omega) gs lam w hcoord
  have hLn := linAt_genSem n (2*n) mu n (by omega) gs lam w hcoord
  -- value and decrease as weighted sums over the generators
  have hV : Spec.valueAt n mu w
      = wsum (fun g => mu n * (if g.isPtOrCp then 1 else 0) + linAt n mu n g.coord) gs lam := by
    rw [wsum_add, wsum_mul_left, hsum, ← hLn]; unfold Spec.valueAt; ring
  have hD : Spec.decrAt n mu w = wsum (fun g => Spec.decrAt n mu g.coord) gs lam := by
    unfold Spec.decrAt
    rw [wsum_sub, ← hLn, ← hL0]
  have key : ∀ j < gs.length,
      0 ≤ lam j * (mu n * (if (gs.getD j default).isPtOrCp then 1 else 0)
                    + linAt n mu n (gs.getD j default).coord) ∧
      0 ≤ lam j * (Spec.decrAt n mu (gs.getD j default).coord
                    - (if (gs.getD j default).isPtOrCp then 1 else 0)) := by
    intro j hj
    have hmem := mem_of_getD gs j hj
    have hl := hnn j hj
    have hdpos := gensWF_d (2*n) gs hwf j hj
    have hnc := hclosed _ hmem
    have hexp := mem_expandLines gs _ hmem
    generalize gs.getD j default = g at hmem hl hdpos hnc hexp
    rw [coord_eq_ratPoint]
    cases hk : g.kind with
    | point =>
      have hd : g.d = g.div := by simp [Gen.d, Gen.isPtOrCp, hk]
      have hpc : g.isPtOrCp = true := by simp [Gen.isPtOrCp, hk]
      have hlam := hl (by simp [Gen.isLine, hk])
      have hrows := Sat_rankRows n _ mu h g (hexp.1 (by simp [hk]))
      unfold rankRows at hrows
      rw [hk] at hrows
      have h1 := hrows _ (by simp : geRow (xPart n g.coords ++ [g.div]) 0 ∈
        [geRow (xPart n g.coords ++ [g.div]) 0, geRow (diffPart n g.coords) (-g.div)])
      have h2 := hrows _ (by simp : geRow (diffPart n g.coords) (-g.div) ∈
        [geRow (xPart n g.coords ++ [g.div]) 0, geRow (diffPart n g.coords) (-g.div)])
      rw [hd] at hdpos ⊢
      have hd' : (0 : Rat) < (g.div : Rat) := by exact_mod_cast hdpos
      simp only [Con.sat, geRow, Con.eval, Bool.false_eq_true, if_false] at h1 h2
      rw [value_row_point n mu _ _ (ne_of_gt hd')] at h1
      rw [decr_row_gen n mu _ _ (ne_of_gt hd')] at h2
      have v0 : 0 ≤ Spec.valueAt n mu (ratPoint g.coords g.div) := by
        have : 0 ≤ (g.div : Rat) * Spec.valueAt n mu (ratPoint g.coords g.div) := by simpa using h1
        exact (mul_nonneg_iff_of_pos_left hd').mp this
      have d1 : 1 ≤ Spec.decrAt n mu (ratPoint g.coords g.div) := by
        have : 0 ≤ (g.div : Rat) * (Spec.decrAt n mu (ratPoint g.coords g.div) - 1) := by
          push_cast at h2; linarith
        have := (mul_nonneg_iff_of_pos_left hd').mp this
        linarith
      rw [hpc]
      simp only [if_true, mul_one]
      exact ⟨mul_nonneg hlam (by unfold Spec.valueAt at v0; exact v0), mul_nonneg hlam (by linarith)⟩
    | ray =>
      have hd : g.d = 1 := by simp [Gen.d, Gen.isPtOrCp, hk]
      have hpc : g.isPtOrCp = false := by simp [Gen.isPtOrCp, hk]
      have hlam := hl (by simp [Gen.isLine, hk])
      have hrows := Sat_rankRows n _ mu h g (hexp.1 (by simp [hk]))
      have hr : Sat (rankRows n (⟨.ray, g.coords, 1⟩ : Gen)) mu := by
        unfold rankRows at hrows ⊢
        rw [hk] at hrows
        exact hrows
      obtain ⟨a1, a2⟩ := rankRows_ray n g.coords mu hr
      rw [hd, hpc]
      simp only [Bool.false_eq_true, if_false, mul_zero, zero_add, sub_zero]
      exact ⟨mul_nonneg hlam a1, mul_nonneg hlam a2⟩
    | line =>
      have hd : g.d = 1 := by simp [Gen.d, Gen.isPtOrCp, hk]
      have hpc : g.isPtOrCp = false := by simp [Gen.isPtOrCp, hk]
      obtain ⟨m1, m2⟩ := hexp.2 hk
      obtain ⟨a1, a2⟩ := rankRows_ray n g.coords mu (Sat_rankRows n _ mu h _ m1)
      obtain ⟨b1, b2⟩ := rankRows_ray n (g.coords.map (- ·)) mu (Sat_rankRows n _ mu h _ m2)
      have e1 : linAt n mu n (ratPoint (g.coords.map (- ·)) 1) = - linAt n mu n (ratPoint g.coords 1) := by
        unfold linAt
        rw [← neg_one_mul, ← sumTo_mul_left]
        apply sumTo_congr
        intro i _
        simp only [ratPoint, getD_map_neg]; push_cast; ring
      have e0 : linAt n mu 0 (ratPoint (g.coords.map (- ·)) 1) = - linAt n mu 0 (ratPoint g.coords 1) := by
        unfold linAt
        rw [← neg_one_mul, ← sumTo_mul_left]
        apply sumTo_congr
        intro i _
        simp only [ratPoint, getD_map_neg]; push_cast; ring
      have e2 : Spec.decrAt n mu (ratPoint (g.coords.map (- ·)) 1) = - Spec.decrAt n mu (ratPoint g.coords 1) := by
        unfold Spec.decrAt; rw [e1, e0]; ring
      rw [e1] at b1
      rw [e2] at b2
      have v0 : linAt n mu n (ratPoint g.coords 1) = 0 := by linarith
      have d0 : Spec.decrAt n mu (ratPoint g.coords 1) = 0 := by linarith
      rw [hd, hpc, v0, d0]
      simp
    | cpoint => exact absurd hk hnc
  constructor
  · rw [hV]
    exact wsum_nonneg _ gs lam (fun j hj => (key j hj).1)
  · rw [hD]
    have := wsum_nonneg (fun g => Spec.decrAt n mu g.coord - (if g.isPtOrCp then 1 else 0)) gs lam
      (fun j hj => (key j hj).2)
    rw [wsum_sub, hsum] at this
    linarith

theorem findPoint_sound (n : Nat) (cs : List Con) (c : List Int) (d : Int)
    (h : findPoint n cs = some (c, d)) : 0 < d ∧ Sat cs (ratPoint c d) := by
  unfold findPoint at h
  split at h
  · rename_i num den _
    split at h
    · rename_i hc
      cases h
      refine ⟨?_, certFeas_point cs c d hc⟩
      unfold certFeas at hc
      simp only [Bool.and_eq_true, decide_eq_true_eq] at hc
      exact hc.1
    · cases h
  · cases h

end PPLV.Term
