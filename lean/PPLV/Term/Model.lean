import PPLV.Lin.Parse

/-!
# C18 — termination analysis: specification, verified checkers, code-shaped encodings
(executable model, no Mathlib; the theorems are in `PPLV/Term/Proofs*.lean`, `PPLV/Props/C18.lean`)

Conventions of `src/termination_defs.hh`: a loop relation over `n` program variables is a subset
of `ℚ^{2n}`; a pair `w = (x', x)` has the **primed** (after) values in coordinates `0 … n-1` and
the **unprimed** (before) values in coordinates `n … 2n-1`; the transition is `x → x'`.
An affine function `μ(x) = μ_0 + Σ_{i=1..n} μ_i x_i` is encoded by a vector of dimension `n+1`
with `μ_i` in coordinate `i-1` and `μ_0` in coordinate `n`
("the coefficients of mu corresponding to the space dimensions n, 0, …, n-1").

`fill_constraint_systems_MS` (termination.cc:133) encodes, through Farkas multipliers,
`μ(x) − μ(x') ≥ 1` (system 1: `y_le >= 1`) and `μ(x) ≥ 0` (system 2) on every pair of the
relation: that is `Spec.isRanking`.  The Podelski–Rybalchenko encodings produce a function with
`μ_0 = 0` that decreases by at least a positive constant and is bounded from below by *some*
constant: `Spec.isRankingGen`.
-/
namespace PPLV.Term
open PPLV.Lin

/-! ## specification -/

/-- `Σ_{i<k} f i` -/
def sumTo : Nat → (Nat → Rat) → Rat
  | 0, _ => 0
  | k+1, f => sumTo k f + f k

/-- `Σ_{i<n} mu_i · w_{off+i}` -/
def linAt (n : Nat) (mu : Val) (off : Nat) (w : Val) : Rat := sumTo n fun i => mu i * w (off + i)

namespace Spec

/-- `μ(x)` on the pair `w = (x', x)` -/
def valueAt (n : Nat) (mu w : Val) : Rat := mu n + linAt n mu n w
/-- `μ(x) − μ(x')` on the pair `w = (x', x)` -/
def decrAt (n : Nat) (mu w : Val) : Rat := linAt n mu n w - linAt n mu 0 w

/-- on every pair of the relation `S`: `μ(x) ≥ β` and `μ(x) − μ(x') ≥ δ` -/
def isRankingWith (n : Nat) (S : Val → Prop) (mu : Val) (δ β : Rat) : Prop :=
  ∀ w, S w → β ≤ valueAt n mu w ∧ δ ≤ decrAt n mu w

/-- the documented (Mesnard–Serebrenik) normal form: bounded from below by `0` on every state
    from which the body can execute, decreasing by at least `1` across every transition -/
def isRanking (n : Nat) (S : Val → Prop) (mu : Val) : Prop := isRankingWith n S mu 1 0

/-- bounded from below and decreasing by at least a fixed positive amount -/
def isRankingGen (n : Nat) (S : Val → Prop) (mu : Val) : Prop :=
  ∃ δ β : Rat, 0 < δ ∧ isRankingWith n S mu δ β

end Spec

/-! ## the verified checkers (two K1 inclusions) -/

/-- `d·μ(x) ≥ 0` as a row over `(x', x)`; `c` = integer coordinates of `μ` (`μ_i = c_i / d`) -/
def valueRow (n : Nat) (c : List Int) : Con :=
  ⟨List.replicate n 0 ++ padTo n c, c.getD n 0, false⟩
/-- `d·(μ(x) − μ(x')) − e ≥ 0` as a row over `(x', x)` -/
def decrRow (n : Nat) (c : List Int) (e : Int) : Con :=
  ⟨(padTo n c).map (- ·) ++ padTo n c, -e, false⟩

/-- `μ = c/d` is a ranking function (normal form) of the relation `sem R` -/
def isRankingB (n : Nat) (R : List Con) (c : List Int) (d : Int) : Bool :=
  decide (0 < d) && implies (2*n) R (valueRow n c) && implies (2*n) R (decrRow n c d)

/-- `e·w + k` is bounded from below on `sem R` -/
def lowerBoundedB (N : Nat) (R : List Con) (e : List Int) (k : Int) : Bool :=
  match supB N (e.map (- ·)) (-k) R with
  | .unbounded => false
  | _ => true

/-- `e·w + k ≥ δ` on `sem R` for some `δ > 0` -/
def posBoundedB (N : Nat) (R : List Con) (e : List Int) (k : Int) : Bool :=
  match supB N (e.map (- ·)) (-k) R with
  | .empty => true
  | .unbounded => false
  | .val p _ _ => decide (p < 0)

/-- `μ = c/d` is bounded from below and decreases by a fixed positive amount on `sem R` -/
def isRankingGenB (n : Nat) (R : List Con) (c : List Int) (d : Int) : Bool :=
  decide (0 < d) && lowerBoundedB (2*n) R (valueRow n c).coeffs (valueRow n c).k
    && posBoundedB (2*n) R (decrRow n c 0).coeffs 0

/-! ## `assign_all_inequalities_approximation` (termination.cc:35)

Equalities become two opposite inequalities (the journal parser `parseCon` already does exactly
that: `eqRows`), strict inequalities are relaxed. -/
def approxIneq (cs : List Con) : List Con := relax cs

/-! ## code-shaped models of the Farkas encodings -/

/-- column `j` of the constraint matrix (`a_{i,j}` over the rows `i`) -/
def col (cs : List Con) (j : Nat) : List Int := cs.map (·.at j)
/-- the inhomogeneous terms `b_i` -/
def consts (cs : List Con) : List Int := cs.map (·.k)

/-- `a` at position `j < N`, zeros up to position `N`, then `tl` -/
def headRow (N j : Nat) (a : Int) (tl : List Int) : List Int :=
  unitRow j a ++ List.replicate (N - 1 - j) 0 ++ tl

/-- `v_{off+i} ≥ 0` for `i < m` -/
def nonnegRows (off m : Nat) : List Con := (List.range m).map fun i => geRow (unitRow (off + i) 1) 0

/-- `cs_out1` of `fill_constraint_systems_MS`: variables `μ_1..μ_n` (0..n-1), `μ_0` (n),
    multipliers `y_1..y_m` from position `yb ≥ n+1`:
    `y ≥ 0`, `−Σ b_i y_i ≥ 1`, `Σ_i a_{i,n+j} y_i = μ_j`, `Σ_i a_{i,j} y_i = −μ_j`. -/
def fillMS1 (n : Nat) (cs : List Con) (yb : Nat) : List Con :=
  nonnegRows yb cs.length
  ++ [geRow (List.replicate yb 0 ++ (consts cs).map (- ·)) (-1)]
  ++ (List.range n).flatMap (fun j => eqRows (headRow yb j (-1) (col cs (n + j))) 0)
  ++ (List.range n).flatMap (fun j => eqRows (headRow yb j 1 (col cs j)) 0)

/-- `cs_out2` of `fill_constraint_systems_MS`: multipliers `z_1..z_m, z_{m+1}, z_{m+2}` from
    position `zb ≥ n+1`: `z ≥ 0`, `−Σ b_i z_i + z_{m+1} − z_{m+2} ≥ 0`,
    `Σ_i a_{i,n+j} z_i = μ_j`, `Σ_i a_{i,j} z_i = 0`, `z_{m+1} − z_{m+2} = μ_0`. -/
def fillMS2 (n : Nat) (cs : List Con) (zb : Nat) : List Con :=
  let m := cs.length
  nonnegRows zb (m + 2)
  ++ [geRow (List.replicate zb 0 ++ ((consts cs).map (- ·) ++ [1, -1])) 0]
  ++ (List.range n).flatMap (fun j => eqRows (headRow zb j (-1) (col cs (n + j))) 0)
  ++ (List.range n).flatMap (fun j => eqRows (List.replicate zb 0 ++ col cs j) 0)
  ++ eqRows (headRow zb n (-1) (List.replicate m 0 ++ [1, -1])) 0

/-- the single system of `termination_test_MS` / `one_affine_ranking_function_MS`
    (`&cs_out1 == &cs_out2`: `z_begin = y_begin + m`) -/
def msSystem (n : Nat) (cs : List Con) : List Con :=
  fillMS1 n cs (n + 1) ++ fillMS2 n cs (n + 1 + cs.length)
def msDim (n : Nat) (cs : List Con) : Nat := n + 1 + 2 * cs.length + 2

/-- `fill_constraint_system_PR` (before/after form).  Variables: `u_3` (0..s-1), `u_2`
    (s..s+r-1), `u_1` (s+r..s+2r-1), all `≥ 0`.  With `B` = rows of `cs_before` over `x`
    (0..n-1) and `C` = rows of `cs_after` over `(x', x)`:
    `(u_1 − u_2)·B_j − u_3·C_{n+j} = 0`, `u_2·B_j + u_3·(C_{n+j} + C_j) = 0` (`j < n`);
    second component: `le_out = u_3·d_C + u_2·d_B` (the tests add `le_out ≤ −1`). -/
def fillPR (n : Nat) (csB csA : List Con) : List Con × List Int :=
  let r := csB.length
  let s := csA.length
  let eq1 := (List.range n).flatMap fun j =>
    eqRows ((col csA (n + j)).map (- ·) ++ ((col csB j).map (- ·) ++ col csB j)) 0
  let eq2 := (List.range n).flatMap fun j =>
    eqRows (lincomb 1 1 (col csA (n + j)) (col csA j) ++ col csB j) 0
  (nonnegRows 0 (s + 2 * r) ++ eq1 ++ eq2, consts csA ++ consts csB)

/-- the satisfiability problem of `termination_test_PR(cs_before, cs_after)` -/
def prSystem (n : Nat) (csB csA : List Con) : List Con :=
  (fillPR n csB csA).1 ++ [geRow ((fillPR n csB csA).2.map (- ·)) (-1)]
def prDim (csB csA : List Con) : Nat := csA.length + 2 * csB.length

/-- the function synthesised from a solution: `μ = −u_3ᵀ E'_C`, `μ_0 = 0` -/
def prMu (n : Nat) (csA : List Con) (u : Val) : Val :=
  fun j => if j < n then - dot (col csA j) u else 0

/-- `fill_constraint_system_PR_original` (single system).  Variables `λ_1` (0..m-1), `λ_2`
    (m..2m-1), all `≥ 0`: `λ_1·A'_j = 0`, `(λ_1 − λ_2)·A_j = 0`, `λ_2·(A'_j + A_j) = 0`;
    `le_out = λ_2·b`. -/
def fillPROrig (n : Nat) (cs : List Con) : List Con × List Int :=
  let m := cs.length
  let eqA := (List.range n).flatMap fun j => eqRows (col cs j) 0
  let eqB := (List.range n).flatMap fun j => eqRows (col cs (n + j) ++ (col cs (n + j)).map (- ·)) 0
  let eqC := (List.range n).flatMap fun j =>
    eqRows (List.replicate m 0 ++ lincomb 1 1 (col cs j) (col cs (n + j))) 0
  (nonnegRows 0 (2 * m) ++ eqA ++ eqB ++ eqC, List.replicate m 0 ++ consts cs)

def prOrigSystem (n : Nat) (cs : List Con) : List Con :=
  (fillPROrig n cs).1 ++ [geRow ((fillPROrig n cs).2.map (- ·)) (-1)]
def prOrigDim (cs : List Con) : Nat := 2 * cs.length

/-- `μ = −λ_2ᵀ A'`, `μ_0 = 0` -/
def prOrigMu (n : Nat) (cs : List Con) (u : Val) : Val :=
  fun j => if j < n then - dot (col cs j) (fun i => u (i + cs.length)) else 0

/-- the relation denoted by a before/after pair: `x ∈ before ∧ (x', x) ∈ after` -/
def pairRel (n : Nat) (csB csA : List Con) : List Con := csA ++ csB.map (Con.shift n)

/-! ## the generator form of the set of all ranking functions -/

/-- unprimed part `x` of a generator of the relation (length `n`) -/
def xPart (n : Nat) (c : List Int) : List Int := (padTo (2*n) c).drop n
/-- primed part `x'` (length `n`) -/
def pPart (n : Nat) (c : List Int) : List Int := padTo n c
/-- `x − x'` -/
def diffPart (n : Nat) (c : List Int) : List Int := lincomb 1 (-1) (xPart n c) (pPart n c)

/-- a line is a pair of opposite rays -/
def expandLines (gs : List Gen) : List Gen :=
  gs.flatMap fun g =>
    if g.kind == .line then [⟨.ray, g.coords, 1⟩, ⟨.ray, g.coords.map (- ·), 1⟩] else [g]

/-- the conditions a generator of the relation imposes on `(μ_1..μ_n, μ_0)`:
    point `p/d`: `d·μ(x_p) ≥ 0`, `d·(μ(x_p) − μ(x'_p)) ≥ d`;
    ray `r`: `μ_lin(x_r) ≥ 0`, `μ_lin(x_r) − μ_lin(x'_r) ≥ 0`. -/
def rankRows (n : Nat) (g : Gen) : List Con :=
  match g.kind with
  | .point => [geRow (xPart n g.coords ++ [g.div]) 0, geRow (diffPart n g.coords) (-g.div)]
  | .ray => [geRow (xPart n g.coords) 0, geRow (diffPart n g.coords) 0]
  | _ => [falseRow]

def rankCons (n : Nat) (gs : List Gen) : List Con := gs.flatMap (rankRows n)

/-- the generator lies in `sem cs` (point) / is a recession direction of it (ray) -/
def genInB (cs : List Con) (g : Gen) : Bool :=
  match g.kind with
  | .point => decide (0 < g.div) && cs.all fun c => c.holdsAt g.coords g.div
  | .ray => cs.all fun c => ({ c with k := 0, strict := false } : Con).holdsAt g.coords 1
  | _ => false

/-- **refutation**: some point of `gs` lies in the relation, all points lie in it, all rays are
    recession directions of it, and the finitely many conditions they impose on `μ` are
    unsatisfiable: no affine ranking function exists. -/
def noRankingB (n : Nat) (cs : List Con) (gs : List Gen) : Bool :=
  let gs' := expandLines gs
  gs'.any (fun g => g.kind == .point) && gs'.all (genInB cs) && !feasible (n + 1) (rankCons n gs')

/-- (untrusted search) a rational point proposed by the simplex for `cs` over `n` variables -/
def findPointRaw (n : Nat) (cs : List Con) : Option (List Int × Int) :=
  let m := cs.length
  if m == 0 then some (List.replicate n 0, 1) else
  let act : List Nat := (List.range n).filter fun j => cs.any fun c => c.coeffs.getD j 0 != 0
  let na := act.length
  let nv := m + 2
  let csA := cs.toArray
  let rowOf (f : Con → Rat) (cu cv : Rat) : Simplex.Row :=
    (Array.range nv).map fun i => if i < m then f (csA.getD i default) else if i == m then cu else cv
  let A : Array Simplex.Row :=
    ((act.map fun j => rowOf (fun c => ((c.coeffs.getD j 0 : Int) : Rat)) 0 0).toArray).push
      (rowOf (fun c => ((c.k : Int) : Rat)) 1 0) |>.push
      (rowOf (fun c => if c.strict then 1 else 0) 1 1)
  let b : Array Rat := (Array.replicate (na + 1) (0 : Rat)).push 1
  let c : Array Rat := (Array.range nv).map fun i =>
    if i < m then (if (csA.getD i default).strict then -1 else 0) else if i == m then -1 else 0
  match Simplex.solve A b c nv with
  | .optimal _ w =>
    let x0 := w.getD na 0
    if x0 == 0 then none else
    let xs : List Rat := (List.range n).map fun j =>
      match act.idxOf? j with
      | some idx => w.getD idx 0 / x0
      | none => 0
    some (toIntVec xs)
  | _ => none

/-- a solution of `cs`, returned only when the verified checker `certFeas` accepts it -/
def findPoint (n : Nat) (cs : List Con) : Option (List Int × Int) :=
  match findPointRaw n cs with
  | some (num, den) => if certFeas cs num den then some (num, den) else none
  | none => none

/-- **Does an affine ranking function exist?**  `cs`: the relation (over `2n` variables); `gs`: a
    generator system proposed for it (untrusted hint, e.g. what the library reports).
    `some true` is backed by a function that passes `isRankingB` (or the relation is empty),
    `some false` by `noRankingB`; `none`: the hint did not allow a conclusion. -/
def existsRankingDecider (n : Nat) (cs : List Con) (gs : List Gen) : Option Bool :=
  if isEmptyB (2*n) cs then some true
  else
    match findPoint (n + 1) (rankCons n (expandLines gs)) with
    | some (c, d) => if isRankingB n cs c d then some true else none
    | none => if noRankingB n cs gs then some false else none

/-! ## every element of a returned space of functions is a ranking function -/

/-- homogeneous conditions for a direction of the space (normal form) -/
def homOK (n : Nat) (R : List Con) (c : List Int) : Bool :=
  implies (2*n) R (valueRow n c) && implies (2*n) R (decrRow n c 0)

/-- each generator of `mu_space` (a closed polyhedron of dimension `n+1`) keeps the space inside
    the set of ranking functions of `sem R` -/
def spaceGenOK (n : Nat) (R : List Con) (g : Gen) : Bool :=
  match g.kind with
  | .point => isRankingB n R g.coords g.div
  | .ray => homOK n R g.coords
  | .line => homOK n R g.coords && homOK n R (g.coords.map (- ·))
  | .cpoint => false

def spaceOK (n : Nat) (R : List Con) (gs : List Gen) : Bool := gs.all (spaceGenOK n R)

/-- generator-wise check of `decreasing_mu_space` (`all_affine_quasi_ranking_functions_MS`) -/
def decrGenOK (n : Nat) (R : List Con) (g : Gen) : Bool :=
  match g.kind with
  | .point => decide (0 < g.div) && implies (2*n) R (decrRow n g.coords g.div)
  | .ray => implies (2*n) R (decrRow n g.coords 0)
  | .line => implies (2*n) R (decrRow n g.coords 0) && implies (2*n) R (decrRow n (g.coords.map (- ·)) 0)
  | .cpoint => false

/-- generator-wise check of `bounded_mu_space` -/
def boundGenOK (n : Nat) (R : List Con) (g : Gen) : Bool :=
  match g.kind with
  | .point => decide (0 < g.div) && implies (2*n) R (valueRow n g.coords)
  | .ray => implies (2*n) R (valueRow n g.coords)
  | .line => implies (2*n) R (valueRow n g.coords) && implies (2*n) R (valueRow n (g.coords.map (- ·)))
  | .cpoint => false

def quasiOK (n : Nat) (R : List Con) (decreasing : Bool) (gs : List Gen) : Bool :=
  gs.all (if decreasing then decrGenOK n R else boundGenOK n R)

/-- homogeneous conditions, general form: non-increasing and bounded from below -/
def homGenOK (n : Nat) (R : List Con) (c : List Int) : Bool :=
  implies (2*n) R (decrRow n c 0) && lowerBoundedB (2*n) R (valueRow n c).coeffs (valueRow n c).k

/-- the same for the NNC space returned by the Podelski–Rybalchenko functions -/
def spaceGenGenOK (n : Nat) (R : List Con) (g : Gen) : Bool :=
  match g.kind with
  | .point => isRankingGenB n R g.coords g.div
  | .cpoint => decide (0 < g.div) && homGenOK n R g.coords
  | .ray => homGenOK n R g.coords
  | .line => homGenOK n R g.coords && homGenOK n R (g.coords.map (- ·))

def spaceGenOKAll (n : Nat) (R : List Con) (gs : List Gen) : Bool := gs.all (spaceGenGenOK n R)

end PPLV.Term
