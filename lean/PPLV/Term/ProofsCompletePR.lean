import PPLV.Term.ProofsCompleteAux

/-! # C18 completeness, part 2: `fill_constraint_system_PR` (before/after form, termination.cc:347)

The encoding bounds the synthesised function from below with the rows of `cs_before` only
(`μ = u_1·B`), so it characterises exactly the affine functions that are bounded from below on
the **guard** `sem csB` (not merely on the states from which a transition exists) and decrease by
a fixed positive amount on the relation `pairRel n csB csA`: `Spec.isRankingGuard`.  This is the
documented incompleteness KF-C18-1 with respect to `Spec.isRankingGen`.  `FarkasImplied` /
`FarkasInfeasible` are explicit hypotheses (proved in `ProofsCompleteFarkas.lean`). -/
namespace PPLV.Term
open PPLV.Lin

/-- the rows of `prSystem`, read back as conditions on `u_3 = u_{0..s-1}`, `u_2 = u_{s..s+r-1}`,
    `u_1 = u_{s+r..s+2r-1}` -/
theorem Sat_prSystem_iff (n : Nat) (csB csA : List Con) (u : Val) :
    Sat (prSystem n csB csA) u ↔
      (∀ i < csA.length + 2 * csB.length, 0 ≤ u i) ∧
      (∀ j < n, dot (col csB j) (fun i => u (i + csB.length + csA.length))
          = dot (col csA (n + j)) u + dot (col csB j) (fun i => u (i + csA.length))) ∧
      (∀ j < n, dot (col csA (n + j)) u + dot (col csA j) u
          + dot (col csB j) (fun i => u (i + csA.length)) = 0) ∧
      dot (consts csA) u + dot (consts csB) (fun i => u (i + csA.length)) ≤ -1 := by
  unfold prSystem fillPR
  simp only
  rw [Sat_append, Sat_append, Sat_append, Sat_nonnegRows, Sat_singleton, sat_geRow,
    Sat_flatMap, Sat_flatMap, dot_map_neg, dot_append, length_consts]
  have hm1 : (((-1 : Int)) : Rat) = -1 := by norm_num
  have e1 : ∀ j, Sat (eqRows ((col csA (n + j)).map (- ·)
        ++ ((col csB j).map (- ·) ++ col csB j)) 0) u ↔
      dot (col csB j) (fun i => u (i + csB.length + csA.length))
        = dot (col csA (n + j)) u + dot (col csB j) (fun i => u (i + csA.length)) := by
    intro j
    rw [Sat_eqRows, dot_append, dot_append, dot_map_neg, dot_map_neg, List.length_map,
      List.length_map, length_col, length_col]
    simp only [Int.cast_zero, add_zero]
    constructor <;> intro h <;> linarith
  have e2 : ∀ j, Sat (eqRows (lincomb 1 1 (col csA (n + j)) (col csA j) ++ col csB j) 0) u ↔
      dot (col csA (n + j)) u + dot (col csA j) u
        + dot (col csB j) (fun i => u (i + csA.length)) = 0 := by
    intro j
    rw [Sat_eqRows, dot_append, dot_lincomb,
      length_lincomb _ _ _ _ (by rw [length_col, length_col]), length_col]
    simp only [Int.cast_zero, Int.cast_one, add_zero, one_mul]
  simp only [List.mem_range, e1, e2, hm1, Nat.zero_add]
  constructor
  · rintro ⟨⟨⟨hnn, h1⟩, h2⟩, hle⟩
    exact ⟨hnn, h1, h2, by linarith⟩
  · rintro ⟨hnn, h1, h2, hle⟩
    exact ⟨⟨⟨hnn, h1⟩, h2⟩, by linarith⟩

/-- **Soundness with respect to the guard**: the function synthesised from a solution decreases
    by at least `1` on the relation and is bounded from below by `−u_1·d_B` on every state of
    `cs_before` (strengthening of `prSystem_sound`, whose bound is stated on the relation only). -/
theorem prSystem_sound_guard (n : Nat) (csB csA : List Con) (hB : WF n csB) (hA : WF (2*n) csA)
    (u : Val) (hs : Sat (prSystem n csB csA) u) :
    Spec.isRankingGuard n (fun x => Sat csB x) (fun w => Sat (pairRel n csB csA) w)
      (prMu n csA u) := by
  refine ⟨1, - dot (consts csB) (fun i => u (i + csB.length + csA.length)), one_pos, ?_, ?_⟩
  · obtain ⟨hnn, h1, h2, -⟩ := (Sat_prSystem_iff n csB csA u).mp hs
    intro x hx
    have p := wrows_nonneg csB (fun i => u (i + csB.length + csA.length)) x
      (fun i hi => hnn (i + csB.length + csA.length) (by omega)) hx
    rw [wrows_exchange n csB _ x hB] at p
    have s : sumTo n (fun j => dot (col csB j) (fun i => u (i + csB.length + csA.length)) * x j)
        = linAt n (prMu n csA u) 0 x := by
      unfold linAt
      apply sumTo_congr
      intro j hj
      rw [prMu_lt n csA u j hj, Nat.zero_add]
      have a := h1 j hj
      have b := h2 j hj
      have e : dot (col csB j) (fun i => u (i + csB.length + csA.length)) = - dot (col csA j) u := by
        linarith
      rw [e]
    unfold Spec.valueOn
    rw [prMu_n, ← s]
    linarith
  · intro w hw
    exact (prSystem_sound n csB csA hB hA u hs w hw).2

/-- **Completeness of the Podelski–Rybalchenko encoding, before/after form**: on a non-empty
    closed relation every affine function that is bounded from below on the guard and decreases
    by a positive amount on the relation is, up to the positive factor `t = 1/δ`, the function
    `prMu` synthesised from a solution of the encoding. -/
theorem pr_complete_of_farkas (hF : FarkasImplied) (n : Nat) (csB csA : List Con)
    (hB : WF n csB) (hA : WF (2*n) csA) (hnsB : ∀ c ∈ csB, c.strict = false)
    (hnsA : ∀ c ∈ csA, c.strict = false) (hne : ∃ w, Sat (pairRel n csB csA) w) (mu : Val)
    (h : Spec.isRankingGuard n (fun x => Sat csB x) (fun w => Sat (pairRel n csB csA) w) mu) :
    ∃ (u : Val) (t : Rat), 0 < t ∧ Sat (prSystem n csB csA) u ∧
      ∀ j < n, prMu n csA u j = t * mu j := by
  obtain ⟨δ, β, hδ, hb, hd⟩ := h
  have ht : 0 < 1 / δ := one_div_pos.mpr hδ
  have htδ : 1 / δ * δ = 1 := by field_simp
  -- the decrease on the relation: multipliers `(u_3, u_2)`
  obtain ⟨y, hy, hc, hk⟩ := hF (2*n) (pairRel n csB csA) (pairRel_wf n csB csA hB hA)
    (pairRel_nonstrict n csB csA hnsB hnsA) hne
    (splice n (fun j => -(1 / δ * mu j)) (fun j => 1 / δ * mu j)) (-1) (by
      intro w hw
      rw [sumTo_splice]
      have hd' := hd w hw
      have e1 : linAt n (fun j => -(1 / δ * mu j)) 0 w = -(1 / δ) * linAt n mu 0 w := by
        unfold linAt; rw [← sumTo_mul_left]; apply sumTo_congr; intro i _; ring
      have e2 : linAt n (fun j => 1 / δ * mu j) n w = 1 / δ * linAt n mu n w := by
        unfold linAt; rw [← sumTo_mul_left]; apply sumTo_congr; intro i _; ring
      rw [e1, e2]
      unfold Spec.decrAt at hd'
      have := mul_le_mul_of_nonneg_left hd' (le_of_lt ht)
      rw [htδ] at this
      linarith)
  -- the lower bound on the guard: multipliers `u_1`
  have hneB : ∃ x, Sat csB x := by
    obtain ⟨w, hw⟩ := hne
    exact ⟨_, ((Sat_pairRel n csB csA w).mp hw).2⟩
  obtain ⟨y1, hy1, hc1, -⟩ := hF n csB hB hnsB hneB (fun j => 1 / δ * mu j)
    (1 / δ * (mu n - β)) (by
      intro x hx
      have hb' := hb x hx
      unfold Spec.valueOn linAt at hb'
      have e : sumTo n (fun j => 1 / δ * mu j * x j)
          = 1 / δ * sumTo n (fun i => mu i * x (0 + i)) := by
        rw [← sumTo_mul_left]; apply sumTo_congr; intro i _; rw [Nat.zero_add]; ring
      rw [e]
      have := mul_nonneg (le_of_lt ht) (sub_nonneg.mpr hb')
      linarith)
  -- reading the columns of the relation
  have cp : ∀ j < n, dot (col csA j) y = -(1 / δ * mu j) := by
    intro j hj
    rw [← dot_col_pairRel_lt n csB csA j hj, hc j (by omega), splice_lt _ _ _ _ hj]
  have cu : ∀ j < n, dot (col csA (n + j)) y + dot (col csB j) (fun i => y (i + csA.length))
      = 1 / δ * mu j := by
    intro j hj
    rw [← dot_col_pairRel_add, hc (n + j) (by omega), splice_add]
  rw [dot_consts_pairRel] at hk
  -- the solution
  have hlA : ∀ as : List Int, as.length = csA.length →
      dot as (splice (csA.length + csB.length) y y1) = dot as y :=
    fun as h => dot_splice_left _ _ _ _ (by omega)
  have hlB : ∀ as : List Int, as.length = csB.length →
      dot as (fun i => splice (csA.length + csB.length) y y1 (i + csA.length))
        = dot as (fun i => y (i + csA.length)) :=
    fun as h => dot_agree as _ _ (fun i hi => splice_lt _ _ _ _ (by omega))
  have hs1 : (fun i => splice (csA.length + csB.length) y y1 (i + csB.length + csA.length)) = y1 := by
    funext i
    have : i + csB.length + csA.length = (csA.length + csB.length) + i := by omega
    rw [this, splice_add]
  refine ⟨splice (csA.length + csB.length) y y1, 1 / δ, ht, ?_, ?_⟩
  · rw [Sat_prSystem_iff, hs1]
    refine ⟨fun i _ => splice_nonneg _ _ _ hy hy1 i, ?_, ?_, ?_⟩
    · intro j hj
      rw [hlA _ (length_col _ _), hlB _ (length_col _ _), cu j hj, hc1 j hj]
    · intro j hj
      rw [hlA _ (length_col _ _), hlA _ (length_col _ _), hlB _ (length_col _ _)]
      have a := cp j hj
      have b := cu j hj
      linarith
    · rw [hlA _ (length_consts _), hlB _ (length_consts _)]
      exact hk
  · intro j hj
    rw [prMu_lt n csA _ j hj, hlA _ (length_col _ _), cp j hj]; ring

/-- non-vacuity: guard `x ≥ 0`, update `x' ≤ x − 1` (`n = 1`), `μ(x) = x` -/
example : ∃ (n : Nat) (csB csA : List Con) (mu : Val), WF n csB ∧ WF (2*n) csA ∧
    (∀ c ∈ csB, c.strict = false) ∧ (∀ c ∈ csA, c.strict = false) ∧
    (∃ w, Sat (pairRel n csB csA) w) ∧
    Spec.isRankingGuard n (fun x => Sat csB x) (fun w => Sat (pairRel n csB csA) w) mu := by
  refine ⟨1, [⟨[1], 0, false⟩], [⟨[-1, 1], -1, false⟩], fun j => if j = 0 then 1 else 0, ?_, ?_,
    ?_, ?_, ⟨fun j => if j = 0 then 0 else 1, ?_⟩, 1, 0, one_pos, ?_, ?_⟩
  · intro c hc; simp at hc; subst hc; simp
  · intro c hc; simp at hc; subst hc; simp
  · intro c hc; simp at hc; subst hc; rfl
  · intro c hc; simp at hc; subst hc; rfl
  · intro c hc
    simp [pairRel, Con.shift] at hc
    rcases hc with rfl | rfl <;> simp [Con.sat, Con.eval, Val.tail]
  · intro x hx
    have h1 := hx ⟨[1], 0, false⟩ (by simp)
    simp [Con.sat, Con.eval] at h1
    simp [Spec.valueOn, linAt, sumTo]
    exact h1
  · intro w hw
    have h1 := hw ⟨[-1, 1], -1, false⟩ (by simp [pairRel])
    simp [Con.sat, Con.eval, Val.tail] at h1
    simp [Spec.decrAt, linAt, sumTo]
    linarith

/-- **the empty relation**: the encoding is satisfiable (`(u_3, u_2)` = the infeasibility
    multipliers of the relation, `u_1 = 0`). -/
theorem pr_complete_empty_of_farkas (hE : FarkasInfeasible) (n : Nat) (csB csA : List Con)
    (hB : WF n csB) (hA : WF (2*n) csA) (hnsB : ∀ c ∈ csB, c.strict = false)
    (hnsA : ∀ c ∈ csA, c.strict = false) (hem : ¬ ∃ w, Sat (pairRel n csB csA) w) :
    ∃ u, Sat (prSystem n csB csA) u := by
  obtain ⟨y, hy, hc, hk⟩ := hE (2*n) (pairRel n csB csA) (pairRel_wf n csB csA hB hA)
    (pairRel_nonstrict n csB csA hnsB hnsA) hem
  have cp : ∀ j < n, dot (col csA j) y = 0 := by
    intro j hj
    rw [← dot_col_pairRel_lt n csB csA j hj, hc j (by omega)]
  have cu : ∀ j < n, dot (col csA (n + j)) y + dot (col csB j) (fun i => y (i + csA.length)) = 0 := by
    intro j hj
    rw [← dot_col_pairRel_add, hc (n + j) (by omega)]
  rw [dot_consts_pairRel] at hk
  have hlA : ∀ as : List Int, as.length = csA.length →
      dot as (splice (csA.length + csB.length) y (fun _ => 0)) = dot as y :=
    fun as h => dot_splice_left _ _ _ _ (by omega)
  have hlB : ∀ as : List Int, as.length = csB.length →
      dot as (fun i => splice (csA.length + csB.length) y (fun _ => 0) (i + csA.length))
        = dot as (fun i => y (i + csA.length)) :=
    fun as h => dot_agree as _ _ (fun i hi => splice_lt _ _ _ _ (by omega))
  have hs1 : (fun i => splice (csA.length + csB.length) y (fun _ => 0)
      (i + csB.length + csA.length)) = Val.zero := by
    funext i
    have : i + csB.length + csA.length = (csA.length + csB.length) + i := by omega
    rw [this, splice_add]; rfl
  refine ⟨splice (csA.length + csB.length) y (fun _ => 0), ?_⟩
  rw [Sat_prSystem_iff, hs1]
  refine ⟨fun i _ => splice_nonneg _ _ _ hy (fun _ => le_refl _) i, ?_, ?_, ?_⟩
  · intro j hj
    rw [hlA _ (length_col _ _), hlB _ (length_col _ _), cu j hj, dot_zero]
  · intro j hj
    rw [hlA _ (length_col _ _), hlA _ (length_col _ _), hlB _ (length_col _ _)]
    have a := cp j hj
    have b := cu j hj
    linarith
  · rw [hlA _ (length_consts _), hlB _ (length_consts _)]
    exact le_of_eq hk

/-- non-vacuity: guard `x ≤ 0`, update `x' = x ∧ x ≥ 1` is an empty closed relation (`n = 1`) -/
example : ∃ (n : Nat) (csB csA : List Con), WF n csB ∧ WF (2*n) csA ∧
    (∀ c ∈ csB, c.strict = false) ∧ (∀ c ∈ csA, c.strict = false) ∧
    ¬ ∃ w, Sat (pairRel n csB csA) w := by
  refine ⟨1, [⟨[-1], 0, false⟩], [⟨[0, 1], -1, false⟩], ?_, ?_, ?_, ?_, ?_⟩
  · intro c hc; simp at hc; subst hc; simp
  · intro c hc; simp at hc; subst hc; simp
  · intro c hc; simp at hc; subst hc; rfl
  · intro c hc; simp at hc; subst hc; rfl
  · rintro ⟨w, hw⟩
    have h1 := hw ⟨[0, 1], -1, false⟩ (by simp [pairRel])
    have h2 := hw ⟨[0, -1], 0, false⟩ (by simp [pairRel, Con.shift])
    simp [Con.sat, Con.eval, Val.tail] at h1 h2
    linarith

theorem prSystem_wf (n : Nat) (csB csA : List Con) : WF (prDim csB csA) (prSystem n csB csA) := by
  unfold prSystem fillPR prDim
  simp only
  rw [WF_append_iff, WF_append_iff, WF_append_iff]
  refine ⟨⟨⟨WF_nonnegRows _ _ _ (by omega), ?_⟩, ?_⟩, ?_⟩
  · exact WF_flatMap _ _ _ (fun j _ => WF_eqRows_len _ _ _ (by
      simp only [List.length_append, List.length_map, length_col]; omega))
  · exact WF_flatMap _ _ _ (fun j _ => WF_eqRows_len _ _ _ (by
      rw [List.length_append, length_lincomb _ _ _ _ (by rw [length_col, length_col]),
        length_col, length_col]; omega))
  · apply WF_singleton
    simp [geRow, length_consts]; omega

/-- **`termination_test_PR(cs_before, cs_after)` decides `Spec.isRankingGuard`** for closed
    operands (given the Farkas lemma): the satisfiability problem is feasible iff some affine `μ`
    is bounded from below on the guard and decreases by a fixed positive amount on the relation. -/
theorem termination_test_PR_iff_of_farkas (hF : FarkasImplied) (hE : FarkasInfeasible)
    (n : Nat) (csB csA : List Con) (hB : WF n csB) (hA : WF (2*n) csA)
    (hnsB : ∀ c ∈ csB, c.strict = false) (hnsA : ∀ c ∈ csA, c.strict = false) :
    feasible (prDim csB csA) (prSystem n csB csA) = true ↔
      ∃ mu, Spec.isRankingGuard n (fun x => Sat csB x) (fun w => Sat (pairRel n csB csA) w) mu := by
  rw [feasible_iff _ _ (prSystem_wf n csB csA)]
  constructor
  · rintro ⟨u, hu⟩
    exact ⟨prMu n csA u, prSystem_sound_guard n csB csA hB hA u hu⟩
  · rintro ⟨mu, hmu⟩
    by_cases hne : ∃ w, Sat (pairRel n csB csA) w
    · obtain ⟨u, _, _, hu, _⟩ := pr_complete_of_farkas hF n csB csA hB hA hnsB hnsA hne mu hmu
      exact ⟨u, hu⟩
    · exact pr_complete_empty_of_farkas hE n csB csA hB hA hnsB hnsA hne

end PPLV.Term
