import PPLV.Term.ProofsPR

/-! # C18 completeness, interface: the affine Farkas lemma in the vocabulary of the encodings

The two statements below are *propositions* (no axiom): the completeness proofs of the
encodings (`PPLV/Term/ProofsComplete*.lean`) take them as explicit hypotheses, and
`PPLV/Term/ProofsCompleteFarkas.lean` proves both from the verified Fourier–Motzkin kernel
(`PPLV/Farkas/*`).  Multipliers are a valuation `y : Val` indexed by the rows of `cs`;
`dot (col cs j) y = Σ_i y_i a_{ij}`, `dot (consts cs) y = Σ_i y_i b_i`. -/
namespace PPLV.Term
open PPLV.Lin

/-- **affine Farkas lemma**: an affine function that is non-negative on a non-empty closed
    polyhedron is a non-negative combination of its rows plus a non-negative constant -/
def FarkasImplied : Prop :=
  ∀ (N : Nat) (cs : List Con), WF N cs → (∀ c ∈ cs, c.strict = false) → (∃ w, Sat cs w) →
    ∀ (e : Val) (k : Rat), (∀ w, Sat cs w → 0 ≤ sumTo N (fun j => e j * w j) + k) →
      ∃ y : Val, (∀ i, 0 ≤ y i) ∧ (∀ j < N, dot (col cs j) y = e j) ∧ dot (consts cs) y ≤ k

/-- **Farkas lemma, infeasibility**: an empty closed polyhedron has a non-negative combination of
    its rows that is the constant `−1` -/
def FarkasInfeasible : Prop :=
  ∀ (N : Nat) (cs : List Con), WF N cs → (∀ c ∈ cs, c.strict = false) → (¬ ∃ w, Sat cs w) →
    ∃ y : Val, (∀ i, 0 ≤ y i) ∧ (∀ j < N, dot (col cs j) y = 0) ∧ dot (consts cs) y = -1

namespace Spec

/-- `μ(x)` at a state `x ∈ ℚ^n` -/
def valueOn (n : Nat) (mu x : Val) : Rat := mu n + linAt n mu 0 x

/-- what the before/after Podelski–Rybalchenko encoding characterises: `μ` is bounded from below
    on the *guard* `G` (the states of `pset_before`) and decreases by a fixed positive amount on
    every pair of the relation `S` -/
def isRankingGuard (n : Nat) (G S : Val → Prop) (mu : Val) : Prop :=
  ∃ δ β : Rat, 0 < δ ∧ (∀ x, G x → β ≤ valueOn n mu x) ∧ (∀ w, S w → δ ≤ decrAt n mu w)

end Spec

end PPLV.Term
