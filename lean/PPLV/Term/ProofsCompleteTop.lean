import PPLV.Term.ProofsCompleteFarkas
import PPLV.Term.ProofsCompleteMS2
import PPLV.Term.ProofsCompletePR
import PPLV.Term.ProofsCompletePRO
import PPLV.Term.ProofsClosure

/-! # C18 completeness, top: relations with strict rows (the code analyses the closure), and the
    before/after form when the guard entails what `after` implies about `x` -/
namespace PPLV.Term
open PPLV.Lin

theorem approxIneq_nonstrict (cs : List Con) : ∀ c ∈ approxIneq cs, c.strict = false := by
  intro c hc
  unfold approxIneq relax at hc
  obtain ⟨d, -, rfl⟩ := List.mem_map.mp hc
  rfl

theorem approxIneq_wf (N : Nat) (cs : List Con) (h : WF N cs) : WF N (approxIneq cs) := by
  intro c hc
  unfold approxIneq relax at hc
  obtain ⟨d, hd, rfl⟩ := List.mem_map.mp hc
  exact h d hd

theorem approxIneq_nonempty (cs : List Con) (h : ∃ w, Sat cs w) : ∃ w, Sat (approxIneq cs) w := by
  obtain ⟨w, hw⟩ := h
  exact ⟨w, Sat_relax_of_Sat cs w hw⟩

/-- `termination_test_MS` on a pointset with strict constraints: `assign_all_inequalities_approximation`
    relaxes them, the encoding is built for the closure; for a NON-EMPTY relation the answer is still
    exactly "an affine ranking function of the relation exists". -/
theorem termination_test_MS_iff_nnc (n : Nat) (cs : List Con) (hwf : WF (2*n) cs) (hne : ∃ w, Sat cs w) :
    feasible (msDim n (approxIneq cs)) (msSystem n (approxIneq cs)) = true ↔
      ∃ mu, Spec.isRanking n (sem cs) mu := by
  rw [termination_test_MS_iff_of_farkas farkasImplied_holds farkasInfeasible_holds n (approxIneq cs)
    (approxIneq_wf _ cs hwf) (approxIneq_nonstrict cs)]
  constructor
  · rintro ⟨mu, h⟩; exact ⟨mu, (isRanking_relax_iff n cs hne mu).mp h⟩
  · rintro ⟨mu, h⟩; exact ⟨mu, (isRanking_relax_iff n cs hne mu).mpr h⟩

theorem termination_test_PR_original_iff_nnc (n : Nat) (cs : List Con) (hwf : WF (2*n) cs)
    (hne : ∃ w, Sat cs w) :
    feasible (prOrigDim (approxIneq cs)) (prOrigSystem n (approxIneq cs)) = true ↔
      ∃ mu, Spec.isRankingGen n (sem cs) mu := by
  rw [termination_test_PR_original_iff_of_farkas farkasImplied_holds farkasInfeasible_holds n
    (approxIneq cs) (approxIneq_wf _ cs hwf) (approxIneq_nonstrict cs)]
  constructor
  · rintro ⟨mu, h⟩; exact ⟨mu, (isRankingGen_relax_iff n cs hne mu).mp h⟩
  · rintro ⟨mu, h⟩; exact ⟨mu, (isRankingGen_relax_iff n cs hne mu).mpr h⟩

/-- when every state of the guard has a successor (`sem csB ⊆ π_x(sem csA)`), a function that is
    bounded from below on the *relation* is bounded from below on the guard: the before/after
    Podelski–Rybalchenko encoding is then complete for all ranking functions -/
theorem rankingGuard_of_guard_entailed (n : Nat) (csB csA : List Con) (hB : WF n csB)
    (hent : ∀ x, Sat csB x → ∃ w, Sat csA w ∧ ∀ j < n, w (n + j) = x j) (mu : Val)
    (h : Spec.isRankingGen n (sem (pairRel n csB csA)) mu) :
    Spec.isRankingGuard n (fun x => Sat csB x) (fun w => Sat (pairRel n csB csA) w) mu := by
  obtain ⟨δ, β, hδ, hr⟩ := h
  refine ⟨δ, β, hδ, fun x hx => ?_, fun w hw => (hr w hw).2⟩
  obtain ⟨w, hwA, hwx⟩ := hent x hx
  have hwB : Sat csB (fun j => w (j + n)) := by
    intro c hc
    refine (sat_agree c _ x ?_).mpr (hx c hc)
    intro i hi
    have : i < n := lt_of_lt_of_le hi (hB c hc)
    show w (i + n) = x i
    rw [Nat.add_comm]; exact hwx i this
  have hw : Sat (pairRel n csB csA) w := (Sat_pairRel n csB csA w).mpr ⟨hwA, hwB⟩
  have h1 := (hr w hw).1
  unfold Spec.valueAt at h1
  unfold Spec.valueOn
  have : linAt n mu 0 x = linAt n mu n w := by
    unfold linAt
    apply sumTo_congr
    intro i hi
    rw [Nat.zero_add, hwx i hi]
  rw [this]
  exact h1

end PPLV.Term

namespace PPLV.Term
open PPLV.Lin

theorem approxIneq_of_nonstrict (cs : List Con) (h : ∀ c ∈ cs, c.strict = false) : approxIneq cs = cs := by
  unfold approxIneq relax
  induction cs with
  | nil => rfl
  | cons c cs ih =>
    simp only [List.map_cons]
    rw [ih (fun d hd => h d (by simp [hd]))]
    have hc := h c (by simp)
    cases c with
    | mk cf k s => simp only at hc; subst hc; rfl

theorem feasible_of_certify (N : Nat) (cs : List Con) (b : Bool) (h : certify N cs = some b) :
    feasible N cs = b := by
  unfold feasible; rw [h]

/-- what `pplv_term` prints as `ms_model=`: the certified verdict of the model of the MS encoding on
    the relaxed system is the exact answer to "does an affine ranking function of the relation exist",
    for closed relations (empty or not) and for non-empty relations with strict rows -/
theorem ms_certified_verdict (n : Nat) (cs : List Con) (hwf : WF (2*n) cs)
    (hc : (∀ c ∈ cs, c.strict = false) ∨ ∃ w, Sat cs w) (b : Bool)
    (h : certify (msDim n (approxIneq cs)) (msSystem n (approxIneq cs)) = some b) :
    b = true ↔ ∃ mu, Spec.isRanking n (sem cs) mu := by
  rw [← feasible_of_certify _ _ b h]
  rcases hc with hns | hne
  · rw [approxIneq_of_nonstrict cs hns]
    exact termination_test_MS_iff_of_farkas farkasImplied_holds farkasInfeasible_holds n cs hwf hns
  · exact termination_test_MS_iff_nnc n cs hwf hne

/-- the same for `pr_model=` in the single-relation form -/
theorem pr_original_certified_verdict (n : Nat) (cs : List Con) (hwf : WF (2*n) cs)
    (hc : (∀ c ∈ cs, c.strict = false) ∨ ∃ w, Sat cs w) (b : Bool)
    (h : certify (prOrigDim (approxIneq cs)) (prOrigSystem n (approxIneq cs)) = some b) :
    b = true ↔ ∃ mu, Spec.isRankingGen n (sem cs) mu := by
  rw [← feasible_of_certify _ _ b h]
  rcases hc with hns | hne
  · rw [approxIneq_of_nonstrict cs hns]
    exact termination_test_PR_original_iff_of_farkas farkasImplied_holds farkasInfeasible_holds n cs hwf hns
  · exact termination_test_PR_original_iff_nnc n cs hwf hne

end PPLV.Term
