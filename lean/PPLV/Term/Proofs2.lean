import PPLV.Term.Proofs

/-! # C18 helper lemmas, part 2: the supremum-based checker of the general form -/
namespace PPLV.Term
open PPLV.Lin

theorem neg_obj (e : List Int) (k : Int) (x : Val) :
    dot (e.map (- ·)) x + (((-k : Int)) : Rat) = - (dot e x + (k : Rat)) := by
  rw [dot_map_neg]; push_cast; ring

theorem lowerBoundedB_iff (N : Nat) (R : List Con) (e : List Int) (k : Int) (hwf : WF N R)
    (he : e.length ≤ N) :
    lowerBoundedB N R e k = true ↔ ∃ β : Rat, ∀ w ∈ sem R, β ≤ dot e w + (k : Rat) := by
  have hs := supB_spec N (e.map (- ·)) (-k) R hwf (by simpa using he)
  unfold lowerBoundedB
  cases h : supB N (e.map (- ·)) (-k) R with
  | empty =>
    rw [h] at hs
    simp only at hs
    refine ⟨fun _ => ⟨0, fun w hw => ?_⟩, fun _ => rfl⟩
    rw [hs] at hw; exact absurd hw (Set.notMem_empty w)
  | unbounded =>
    rw [h] at hs
    simp only at hs
    refine ⟨fun h => (by cases h), ?_⟩
    rintro ⟨β, hβ⟩
    obtain ⟨x, hx, hM⟩ := hs.2 (-β)
    rw [neg_obj] at hM
    have := hβ x hx
    linarith
  | val p q att =>
    rw [h] at hs
    simp only at hs
    refine ⟨fun _ => ⟨-((p:Rat)/q), fun w hw => ?_⟩, fun _ => rfl⟩
    have := hs.2.1 w hw
    rw [neg_obj] at this
    linarith

theorem posBoundedB_iff (N : Nat) (R : List Con) (e : List Int) (k : Int) (hwf : WF N R)
    (he : e.length ≤ N) :
    posBoundedB N R e k = true ↔ ∃ δ : Rat, 0 < δ ∧ ∀ w ∈ sem R, δ ≤ dot e w + (k : Rat) := by
  have hs := supB_spec N (e.map (- ·)) (-k) R hwf (by simpa using he)
  unfold posBoundedB
  cases h : supB N (e.map (- ·)) (-k) R with
  | empty =>
    rw [h] at hs
    simp only at hs
    refine ⟨fun _ => ⟨1, one_pos, fun w hw => ?_⟩, fun _ => rfl⟩
    rw [hs] at hw; exact absurd hw (Set.notMem_empty w)
  | unbounded =>
    rw [h] at hs
    simp only at hs
    refine ⟨fun h => (by cases h), ?_⟩
    rintro ⟨δ, hδ, hb⟩
    obtain ⟨x, hx, hM⟩ := hs.2 0
    rw [neg_obj] at hM
    have := hb x hx
    linarith
  | val p q att =>
    rw [h] at hs
    simp only at hs
    obtain ⟨hq, hle, hatt, hnatt⟩ := hs
    have hq' : (0 : Rat) < (q : Rat) := by exact_mod_cast hq
    simp only [decide_eq_true_eq]
    constructor
    · intro hp
      have hp' : (p : Rat) < 0 := by exact_mod_cast hp
      have hneg : (p : Rat) / q < 0 := div_neg_of_neg_of_pos hp' hq'
      refine ⟨-((p:Rat)/q), by linarith, fun w hw => ?_⟩
      have := hle w hw
      rw [neg_obj] at this
      linarith
    · rintro ⟨δ, hδ, hb⟩
      have hneg : (p : Rat) / q < 0 := by
        cases att with
        | true =>
          obtain ⟨x, hx, hxe⟩ := hatt rfl
          rw [neg_obj] at hxe
          have := hb x hx
          linarith
        | false =>
          obtain ⟨-, heps⟩ := hnatt rfl
          obtain ⟨x, hx, hxe⟩ := heps (δ / 2) (by linarith)
          rw [neg_obj] at hxe
          have := hb x hx
          linarith
      have : (p : Rat) < 0 := by
        by_contra hc
        have : 0 ≤ (p : Rat) / q := div_nonneg (not_lt.mp hc) (le_of_lt hq')
        linarith
      exact_mod_cast this

/-- **The general-form checker decides the general specification.** -/
theorem isRankingGenB_iff (n : Nat) (R : List Con) (c : List Int) (d : Int) (hwf : WF (2*n) R) :
    isRankingGenB n R c d = true ↔ 0 < d ∧ Spec.isRankingGen n (sem R) (ratPoint c d) := by
  unfold isRankingGenB
  rw [Bool.and_eq_true, Bool.and_eq_true, decide_eq_true_eq,
    lowerBoundedB_iff (2*n) R _ _ hwf (valueRow_len n c),
    posBoundedB_iff (2*n) R _ _ hwf (decrRow_len n c 0)]
  constructor
  · rintro ⟨⟨hd, β, hβ⟩, δ, hδ, hb⟩
    have hd' : (0 : Rat) < (d : Rat) := by exact_mod_cast hd
    refine ⟨hd, δ / d, β / d, div_pos hδ hd', fun w hw => ⟨?_, ?_⟩⟩
    · have := hβ w hw
      have e1 := valueRow_eval_ratPoint n c d (ne_of_gt hd') w
      unfold Con.eval at e1
      rw [e1] at this
      rw [div_le_iff₀ hd']; linarith
    · have := hb w hw
      have e2 := decrRow_eval_ratPoint n c d 0 (ne_of_gt hd') w
      unfold Con.eval at e2
      simp only [decrRow, Int.cast_zero, neg_zero, add_zero, sub_zero] at e2 this
      rw [e2] at this
      rw [div_le_iff₀ hd']; linarith
  · rintro ⟨hd, δ, β, hδ, h⟩
    have hd' : (0 : Rat) < (d : Rat) := by exact_mod_cast hd
    refine ⟨⟨hd, β * d, fun w hw => ?_⟩, δ * d, mul_pos hδ hd', fun w hw => ?_⟩
    · have := (h w hw).1
      have e1 := valueRow_eval_ratPoint n c d (ne_of_gt hd') w
      unfold Con.eval at e1
      rw [e1]
      nlinarith
    · have := (h w hw).2
      have e2 := decrRow_eval_ratPoint n c d 0 (ne_of_gt hd') w
      unfold Con.eval at e2
      simp only [decrRow, Int.cast_zero, neg_zero, add_zero, sub_zero] at e2 ⊢
      rw [e2]
      nlinarith

end PPLV.Term
