import PPLV.Term.FarkasStmt
import PPLV.Farkas.Main

/-! # C18 completeness, part 1: the two Farkas statements of `FarkasStmt.lean` hold

Bridge from the list/integer form proved over K1's elimination (`PPLV/Farkas/Main.lean`) to the
vocabulary of the encodings: multipliers as a valuation, column sums `dot (col cs j) y`, rational
target `Σ_j e_j w_j + k` (scaled to an integer row by the product of the denominators). -/
namespace PPLV.Term
open PPLV.Lin PPLV.Farkas

/-! ### multipliers: from a list of integers (scaled by `s`) to a valuation -/

theorem wrows_of_list (cs : List Con) (y : List Int) (s : Rat) (w : Val) :
    wrows cs (fun i => ((y.getD i 0 : Int) : Rat) * s) w = s * wev cs y w := by
  induction cs generalizing y with
  | nil => simp [wrows, wev]
  | cons c cs ih =>
    cases y with
    | nil =>
      have h0 := ih []
      simp only [List.getD_nil, wev, mul_zero] at h0 ⊢
      simp only [wrows, Int.cast_zero, zero_mul, zero_add]
      have : Val.tail (fun _ : Nat => (0 : Rat)) = fun _ => 0 := rfl
      rw [this]
      simpa using h0
    | cons a ys =>
      simp only [wrows, wev, List.getD_cons_zero]
      have : Val.tail (fun i => (((a :: ys).getD i 0 : Int) : Rat) * s)
          = fun i => ((ys.getD i 0 : Int) : Rat) * s := by
        funext i; simp [Val.tail]
      rw [this, ih ys]; ring

theorem getD_nonneg (y : List Int) (hy : ∀ a ∈ y, 0 ≤ a) (i : Nat) : 0 ≤ y.getD i 0 := by
  by_cases hi : i < y.length
  · have : y.getD i 0 = y[i] := by simp [List.getD_eq_getElem?_getD, List.getElem?_eq_getElem hi]
    rw [this]; exact hy _ (List.getElem_mem hi)
  · have : y.getD i 0 = 0 := by
      simp [List.getD_eq_getElem?_getD, List.getElem?_eq_none (by omega : y.length ≤ i)]
    rw [this]

/-! ### reading off the coefficients of an affine identity -/

theorem sumTo_eq_zero (N : Nat) (f : Nat → Rat) (h : ∀ i < N, f i = 0) : sumTo N f = 0 :=
  (sumTo_congr N f _ h).trans (sumTo_zero N)

theorem sumTo_unit (N : Nat) (A : Nat → Rat) (j : Nat) (hj : j < N) :
    sumTo N (fun i => A i * (if i = j then 1 else 0)) = A j := by
  induction N with
  | zero => omega
  | succ N ih =>
    simp only [sumTo]
    by_cases h : j = N
    · subst h
      have : sumTo j (fun i => A i * (if i = j then (1 : Rat) else 0)) = 0 := by
        apply sumTo_eq_zero
        intro i hi
        have : i ≠ j := by omega
        simp [this]
      rw [this]; simp
    · have hne : N ≠ j := fun h' => h h'.symm
      rw [ih (by omega)]; simp [hne]

theorem affine_coeffs (N : Nat) (A E : Nat → Rat) (B C : Rat)
    (h : ∀ w : Val, sumTo N (fun j => A j * w j) + B = sumTo N (fun j => E j * w j) + C) :
    (∀ j < N, A j = E j) ∧ B = C := by
  have h0 : B = C := by
    have := h (fun _ => 0)
    have z1 : sumTo N (fun j => A j * (0 : Rat)) = 0 := sumTo_eq_zero _ _ (fun i _ => by simp)
    have z2 : sumTo N (fun j => E j * (0 : Rat)) = 0 := sumTo_eq_zero _ _ (fun i _ => by simp)
    rw [z1, z2] at this
    linarith
  refine ⟨fun j hj => ?_, h0⟩
  have := h (fun i => if i = j then 1 else 0)
  rw [sumTo_unit N A j hj, sumTo_unit N E j hj, h0] at this
  linarith

/-! ### a rational target as an integer row -/

/-- product of the denominators of `e 0 … e (N-1)` -/
def denProd (e : Val) : Nat → Nat
  | 0 => 1
  | j + 1 => denProd e j * (e j).den

theorem denProd_pos (e : Val) (N : Nat) : 0 < denProd e N := by
  induction N with
  | zero => exact Nat.one_pos
  | succ N ih => exact Nat.mul_pos ih (e N).den_pos

theorem denProd_int (e : Val) (N : Nat) : ∀ j < N, ∃ z : Int, (z : Rat) = (denProd e N : Rat) * e j := by
  induction N with
  | zero => intro j hj; omega
  | succ N ih =>
    intro j hj
    by_cases h : j = N
    · subst h
      refine ⟨(denProd e j : Int) * (e j).num, ?_⟩
      simp only [denProd]
      push_cast
      rw [mul_assoc, mul_comm ((e j).den : Rat) (e j), Rat.mul_den_eq_num]
    · obtain ⟨z, hz⟩ := ih j (by omega)
      refine ⟨z * (e N).den, ?_⟩
      simp only [denProd]
      push_cast
      rw [hz]; ring

theorem num_of_int (q : Rat) (h : ∃ z : Int, (z : Rat) = q) : ((q.num : Int) : Rat) = q := by
  obtain ⟨z, rfl⟩ := h
  simp

/-- the row `D·(Σ_j e_j w_j + k) ≥ 0` with integer coefficients -/
theorem exists_int_row (N : Nat) (e : Val) (k : Rat) :
    ∃ (D : Int) (t : Con), 0 < D ∧ t.coeffs.length ≤ N ∧ t.strict = false ∧
      ∀ w, t.eval w = (D : Rat) * (sumTo N (fun j => e j * w j) + k) := by
  let D : Nat := denProd e N * k.den
  have hD : 0 < D := Nat.mul_pos (denProd_pos e N) k.den_pos
  have hint : ∀ j < N, ∃ z : Int, (z : Rat) = (D : Rat) * e j := by
    intro j hj
    obtain ⟨z, hz⟩ := denProd_int e N j hj
    refine ⟨z * k.den, ?_⟩
    show ((z * (k.den : Int) : Int) : Rat) = ((denProd e N * k.den : Nat) : Rat) * e j
    push_cast
    rw [hz]; ring
  have hk : ∃ z : Int, (z : Rat) = (D : Rat) * k := by
    refine ⟨(denProd e N : Int) * k.num, ?_⟩
    show (((denProd e N : Int) * k.num : Int) : Rat) = ((denProd e N * k.den : Nat) : Rat) * k
    push_cast
    rw [mul_assoc, mul_comm ((k.den : Rat)) k, Rat.mul_den_eq_num]
  let cf : List Int := (List.range N).map fun j => ((D : Rat) * e j).num
  refine ⟨(D : Int), ⟨cf, ((D : Rat) * k).num, false⟩, by exact_mod_cast hD, by simp [cf], rfl, fun w => ?_⟩
  unfold Con.eval
  simp only
  rw [dot_sumTo cf N (by simp [cf]) w, num_of_int _ hk, mul_add, ← sumTo_mul_left]
  congr 1
  apply sumTo_congr
  intro j hj
  have : cf.getD j 0 = ((D : Rat) * e j).num := by
    simp [cf, List.getD_eq_getElem?_getD, hj]
  rw [this, num_of_int _ (hint j hj)]
  push_cast
  ring

/-! ### the two statements -/

/-- **the affine Farkas lemma holds** (from K1's Fourier–Motzkin elimination) -/
theorem farkasImplied_holds : FarkasImplied := by
  intro N cs hwf hns hne e k himp
  obtain ⟨D, t, hD, htl, hts, hte⟩ := exists_int_row N e k
  have hD' : (0 : Rat) < (D : Rat) := by exact_mod_cast hD
  have ht : ∀ x, Sat cs x → t.sat x := by
    intro x hx
    unfold Con.sat
    simp only [hts, Bool.false_eq_true, if_false]
    rw [hte]
    exact mul_nonneg (le_of_lt hD') (himp x hx)
  obtain ⟨ys, y0, l0, hy0, hl, hys, hl0, hev⟩ := farkas_implied N cs hwf hns hne t htl hts ht
  have hy0' : (0 : Rat) < (y0 : Rat) := by exact_mod_cast hy0
  let s : Rat := 1 / ((y0 : Rat) * (D : Rat))
  have hs : 0 < s := by positivity
  let y : Val := fun i => ((ys.getD i 0 : Int) : Rat) * s
  have hcoef := affine_coeffs N (fun j => dot (col cs j) y) e (dot (consts cs) y) (k - s * l0) (by
    intro w
    rw [← wrows_exchange N cs y w hwf, wrows_of_list cs ys s w]
    have h1 := hev w
    rw [hte] at h1
    have : wev cs ys w = (y0 : Rat) * ((D : Rat) * (sumTo N (fun j => e j * w j) + k)) - l0 := by
      linarith
    rw [this]
    simp only [s]
    field_simp
    ring)
  refine ⟨y, fun i => ?_, hcoef.1, ?_⟩
  · have : (0 : Rat) ≤ ((ys.getD i 0 : Int) : Rat) := by exact_mod_cast getD_nonneg ys hys i
    exact mul_nonneg this (le_of_lt hs)
  · rw [hcoef.2]
    have := mul_nonneg (le_of_lt hs) hl0
    linarith

/-- **the Farkas lemma for empty closed polyhedra holds** -/
theorem farkasInfeasible_holds : FarkasInfeasible := by
  intro N cs hwf hns hem
  obtain ⟨ys, hl, hys, K, hK, hsign⟩ := farkas_refutation N cs hwf hem
  have hK0 : K < 0 := by
    rcases hsign with h | h
    · exact h
    · rw [sw_nonstrict cs hns ys] at h; exact absurd h.2 (lt_irrefl _)
  let s : Rat := 1 / (-K)
  have hs : 0 < s := by
    have : 0 < -K := by linarith
    positivity
  let y : Val := fun i => ((ys.getD i 0 : Int) : Rat) * s
  have hcoef := affine_coeffs N (fun j => dot (col cs j) y) (fun _ => 0) (dot (consts cs) y) (-1) (by
    intro w
    rw [← wrows_exchange N cs y w hwf, wrows_of_list cs ys s w, hK w]
    have z : sumTo N (fun j => (fun _ => (0 : Rat)) j * w j) = 0 :=
      sumTo_eq_zero _ _ (fun i _ => by simp)
    rw [z]
    simp only [s]
    have hKne : K ≠ 0 := ne_of_lt hK0
    field_simp
    ring)
  refine ⟨y, fun i => ?_, hcoef.1, hcoef.2⟩
  have : (0 : Rat) ≤ ((ys.getD i 0 : Int) : Rat) := by exact_mod_cast getD_nonneg ys hys i
  exact mul_nonneg this (le_of_lt hs)

end PPLV.Term
