import PPLV.Term.FarkasStmt

/-! # C18 completeness, shared helpers: splicing valuations, well-formedness of built rows,
columns of shifted rows -/
namespace PPLV.Term
open PPLV.Lin

/-! ### splicing two valuations (`a` on `0..m-1`, then `b`) -/

/-- `a_0 … a_{m-1}, b_0, b_1, …` -/
def splice (m : Nat) (a b : Val) : Val := fun i => if i < m then a i else b (i - m)

theorem splice_lt (m : Nat) (a b : Val) (i : Nat) (h : i < m) : splice m a b i = a i := by
  simp [splice, h]

theorem splice_add (m : Nat) (a b : Val) (i : Nat) : splice m a b (m + i) = b i := by
  simp [splice]

theorem splice_shift (m : Nat) (a b : Val) : (fun i => splice m a b (i + m)) = b := by
  funext i; simp [splice]

theorem splice_nonneg (m : Nat) (a b : Val) (ha : ∀ i, 0 ≤ a i) (hb : ∀ i, 0 ≤ b i) (i : Nat) :
    0 ≤ splice m a b i := by
  unfold splice; split
  · exact ha i
  · exact hb _

theorem dot_splice_left (m : Nat) (a b : Val) (as : List Int) (h : as.length ≤ m) :
    dot as (splice m a b) = dot as a :=
  dot_agree as _ _ (fun i hi => splice_lt m a b i (by omega))

/-- an affine form over `(x', x)` given by its two halves -/
theorem sumTo_splice (n : Nat) (a b w : Val) :
    sumTo (2 * n) (fun j => splice n a b j * w j) = linAt n a 0 w + linAt n b n w := by
  rw [Nat.two_mul, sumTo_split]
  unfold linAt
  congr 1
  · apply sumTo_congr
    intro i hi
    rw [splice_lt n a b i hi, Nat.zero_add]
  · apply sumTo_congr
    intro i _
    rw [splice_add]

/-! ### well-formedness of the rows the encodings build -/

theorem WF_append_iff (N : Nat) (as bs : List Con) : WF N (as ++ bs) ↔ WF N as ∧ WF N bs := by
  unfold WF
  simp only [List.mem_append]
  exact ⟨fun h => ⟨fun c hc => h c (Or.inl hc), fun c hc => h c (Or.inr hc)⟩,
    fun h c hc => hc.elim (h.1 c) (h.2 c)⟩

theorem WF_flatMap {α} (N : Nat) (l : List α) (f : α → List Con) (h : ∀ a ∈ l, WF N (f a)) :
    WF N (l.flatMap f) := by
  intro c hc
  obtain ⟨a, ha, hc⟩ := List.mem_flatMap.mp hc
  exact h a ha c hc

theorem WF_eqRows_len (N : Nat) (cf : List Int) (k : Int) (h : cf.length ≤ N) : WF N (eqRows cf k) := by
  intro c hc
  simp only [eqRows, List.mem_cons, List.not_mem_nil, or_false] at hc
  rcases hc with rfl | rfl
  · exact h
  · simpa using h

theorem WF_singleton (N : Nat) (c : Con) (h : c.coeffs.length ≤ N) : WF N [c] := by
  intro d hd
  simp only [List.mem_cons, List.not_mem_nil, or_false] at hd
  subst hd; exact h

theorem WF_nonnegRows (N off m : Nat) (h : off + m ≤ N) : WF N (nonnegRows off m) := by
  intro c hc
  simp only [nonnegRows, List.mem_map, List.mem_range] at hc
  obtain ⟨i, hi, rfl⟩ := hc
  simp [geRow, unitRow]; omega

/-! ### columns of a concatenation / of rows shifted by `n` -/

theorem col_append (as bs : List Con) (j : Nat) : col (as ++ bs) j = col as j ++ col bs j := by
  simp [col]

theorem consts_append (as bs : List Con) : consts (as ++ bs) = consts as ++ consts bs := by
  simp [consts]

theorem consts_shift (n : Nat) (cs : List Con) : consts (cs.map (Con.shift n)) = consts cs := by
  simp [consts, Con.shift, Function.comp_def]

theorem at_shift_add (n : Nat) (c : Con) (j : Nat) : (c.shift n).at (n + j) = c.at j := by
  simp [Con.at, Con.shift, List.getD_eq_getElem?_getD, List.getElem?_append_right]

theorem at_shift_lt (n : Nat) (c : Con) (j : Nat) (hj : j < n) : (c.shift n).at j = 0 := by
  simp [Con.at, Con.shift, List.getD_eq_getElem?_getD, List.getElem?_append_left, hj]

theorem col_shift_add (n : Nat) (cs : List Con) (j : Nat) :
    col (cs.map (Con.shift n)) (n + j) = col cs j := by
  simp [col, Function.comp_def, at_shift_add]

theorem dot_col_shift_lt (n : Nat) (cs : List Con) (j : Nat) (hj : j < n) (y : Val) :
    dot (col (cs.map (Con.shift n)) j) y = 0 := by
  apply dot_allZero
  simp [col, at_shift_lt n _ j hj]

/-- columns of the relation of a before/after pair -/
theorem dot_col_pairRel_lt (n : Nat) (csB csA : List Con) (j : Nat) (hj : j < n) (y : Val) :
    dot (col (pairRel n csB csA) j) y = dot (col csA j) y := by
  unfold pairRel
  rw [col_append, dot_append, dot_col_shift_lt n csB j hj, add_zero]

theorem dot_col_pairRel_add (n : Nat) (csB csA : List Con) (j : Nat) (y : Val) :
    dot (col (pairRel n csB csA) (n + j)) y
      = dot (col csA (n + j)) y + dot (col csB j) (fun i => y (i + csA.length)) := by
  unfold pairRel
  rw [col_append, dot_append, col_shift_add, length_col]

theorem dot_consts_pairRel (n : Nat) (csB csA : List Con) (y : Val) :
    dot (consts (pairRel n csB csA)) y
      = dot (consts csA) y + dot (consts csB) (fun i => y (i + csA.length)) := by
  unfold pairRel
  rw [consts_append, dot_append, consts_shift, length_consts]

theorem pairRel_wf (n : Nat) (csB csA : List Con) (hB : WF n csB) (hA : WF (2*n) csA) :
    WF (2*n) (pairRel n csB csA) := by
  unfold pairRel
  rw [WF_append_iff]
  refine ⟨hA, ?_⟩
  intro c hc
  obtain ⟨d, hd, rfl⟩ := List.mem_map.mp hc
  have := hB d hd
  simp [Con.shift]; omega

theorem pairRel_nonstrict (n : Nat) (csB csA : List Con) (hnsB : ∀ c ∈ csB, c.strict = false)
    (hnsA : ∀ c ∈ csA, c.strict = false) : ∀ c ∈ pairRel n csB csA, c.strict = false := by
  intro c hc
  unfold pairRel at hc
  rcases List.mem_append.mp hc with h | h
  · exact hnsA c h
  · obtain ⟨d, hd, rfl⟩ := List.mem_map.mp h
    exact hnsB d hd

/-- a pair of the relation restricts to a state of the guard -/
theorem Sat_pairRel (n : Nat) (csB csA : List Con) (w : Val) :
    Sat (pairRel n csB csA) w ↔ Sat csA w ∧ Sat csB (fun j => w (j + n)) := by
  unfold pairRel
  rw [Sat_append, Sat_map_shift']

end PPLV.Term
