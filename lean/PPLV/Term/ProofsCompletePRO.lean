import PPLV.Term.ProofsCompleteAux

/-! # C18 completeness, part 1: `fill_constraint_system_PR_original` (termination.cc:437)

`prOrigSystem_sound` (`ProofsPR.lean`) shows that every solution of the encoding yields a
function that decreases by `1` and is bounded from below on the relation.  Here the converse:
given the affine Farkas lemma (`FarkasImplied`, `FarkasInfeasible`: explicit hypotheses, proved in
`ProofsCompleteFarkas.lean`), every function `μ` with `Spec.isRankingGen` on a non-empty closed
relation is, up to a positive factor, synthesised from a solution of the encoding; on an empty
relation the encoding is satisfiable too.  Hence `termination_test_PR_original` answers `true`
exactly when a (general) affine ranking function exists. -/
namespace PPLV.Term
open PPLV.Lin

/-- the rows of `prOrigSystem`, read back as conditions on `λ_1 = u_{0..m-1}`, `λ_2 = u_{m..2m-1}` -/
theorem Sat_prOrigSystem_iff (n : Nat) (cs : List Con) (u : Val) :
    Sat (prOrigSystem n cs) u ↔
      (∀ i < 2 * cs.length, 0 ≤ u i) ∧
      (∀ j < n, dot (col cs j) u = 0) ∧
      (∀ j < n, dot (col cs (n + j)) u = dot (col cs (n + j)) (fun i => u (i + cs.length))) ∧
      (∀ j < n, dot (col cs j) (fun i => u (i + cs.length))
          + dot (col cs (n + j)) (fun i => u (i + cs.length)) = 0) ∧
      dot (consts cs) (fun i => u (i + cs.length)) ≤ -1 := by
  unfold prOrigSystem fillPROrig
  simp only
  rw [Sat_append, Sat_append, Sat_append, Sat_append, Sat_nonnegRows, Sat_singleton, sat_geRow,
    Sat_flatMap, Sat_flatMap, Sat_flatMap, dot_map_neg, dot_replicate_zero_append]
  have hm1 : (((-1 : Int)) : Rat) = -1 := by norm_num
  have eA : ∀ j, Sat (eqRows (col cs j) 0) u ↔ dot (col cs j) u = 0 := by
    intro j; rw [Sat_eqRows]; simp
  have eB : ∀ j, Sat (eqRows (col cs (n + j) ++ (col cs (n + j)).map (- ·)) 0) u ↔
      dot (col cs (n + j)) u = dot (col cs (n + j)) (fun i => u (i + cs.length)) := by
    intro j
    rw [Sat_eqRows, dot_append, dot_map_neg, length_col]
    simp only [Int.cast_zero, add_zero]
    constructor <;> intro h <;> linarith
  have eC : ∀ j, Sat (eqRows (List.replicate cs.length 0 ++ lincomb 1 1 (col cs j) (col cs (n + j))) 0) u ↔
      dot (col cs j) (fun i => u (i + cs.length))
        + dot (col cs (n + j)) (fun i => u (i + cs.length)) = 0 := by
    intro j
    rw [Sat_eqRows, dot_replicate_zero_append, dot_lincomb]
    simp only [Int.cast_zero, Int.cast_one, add_zero, one_mul]
  simp only [List.mem_range, eA, eB, eC, hm1, Nat.zero_add]
  constructor
  · rintro ⟨⟨⟨⟨hnn, hA⟩, hB⟩, hC⟩, hle⟩
    exact ⟨hnn, hA, hB, hC, by linarith⟩
  · rintro ⟨hnn, hA, hB, hC, hle⟩
    exact ⟨⟨⟨⟨hnn, hA⟩, hB⟩, hC⟩, by linarith⟩

/-- **Completeness of the Podelski–Rybalchenko encoding, single-relation form**: on a non-empty
    closed relation every affine function that decreases by a positive amount and is bounded from
    below is, up to the positive factor `t = 1/δ`, the function `prOrigMu` synthesised from a
    solution of the encoding. -/
theorem pr_original_complete_of_farkas (hF : FarkasImplied) (n : Nat) (cs : List Con)
    (hwf : WF (2*n) cs) (hns : ∀ c ∈ cs, c.strict = false) (hne : ∃ w, Sat cs w) (mu : Val)
    (h : Spec.isRankingGen n (sem cs) mu) :
    ∃ (u : Val) (t : Rat), 0 < t ∧ Sat (prOrigSystem n cs) u ∧
      ∀ j < n, prOrigMu n cs u j = t * mu j := by
  obtain ⟨δ, β, hδ, hr⟩ := h
  have ht : 0 < 1 / δ := one_div_pos.mpr hδ
  have htδ : 1 / δ * δ = 1 := by field_simp
  -- the decrease: multipliers `λ_2`
  obtain ⟨y2, hy2, hc2, hk2⟩ := hF (2*n) cs hwf hns hne
    (splice n (fun j => -(1 / δ * mu j)) (fun j => 1 / δ * mu j)) (-1) (by
      intro w hw
      rw [sumTo_splice]
      have hd := (hr w hw).2
      have e1 : linAt n (fun j => -(1 / δ * mu j)) 0 w = -(1 / δ) * linAt n mu 0 w := by
        unfold linAt; rw [← sumTo_mul_left]; apply sumTo_congr; intro i _; ring
      have e2 : linAt n (fun j => 1 / δ * mu j) n w = 1 / δ * linAt n mu n w := by
        unfold linAt; rw [← sumTo_mul_left]; apply sumTo_congr; intro i _; ring
      rw [e1, e2]
      unfold Spec.decrAt at hd
      have := mul_le_mul_of_nonneg_left hd (le_of_lt ht)
      rw [htδ] at this
      linarith)
  -- the lower bound: multipliers `λ_1`
  obtain ⟨y1, hy1, hc1, -⟩ := hF (2*n) cs hwf hns hne
    (splice n (fun _ => 0) (fun j => 1 / δ * mu j)) (1 / δ * (mu n - β)) (by
      intro w hw
      rw [sumTo_splice]
      have hb := (hr w hw).1
      have e1 : linAt n (fun _ => (0 : Rat)) 0 w = 0 :=
        (sumTo_congr n _ (fun _ => 0) (fun i _ => by ring)).trans (sumTo_zero n)
      have e2 : linAt n (fun j => 1 / δ * mu j) n w = 1 / δ * linAt n mu n w := by
        unfold linAt; rw [← sumTo_mul_left]; apply sumTo_congr; intro i _; ring
      rw [e1, e2]
      unfold Spec.valueAt at hb
      have := mul_nonneg (le_of_lt ht) (sub_nonneg.mpr hb)
      linarith)
  have c2p : ∀ j < n, dot (col cs j) y2 = -(1 / δ * mu j) := by
    intro j hj; rw [hc2 j (by omega), splice_lt _ _ _ _ hj]
  have c2u : ∀ j < n, dot (col cs (n + j)) y2 = 1 / δ * mu j := by
    intro j hj; rw [hc2 (n + j) (by omega), splice_add]
  have c1p : ∀ j < n, dot (col cs j) y1 = 0 := by
    intro j hj; rw [hc1 j (by omega), splice_lt _ _ _ _ hj]
  have c1u : ∀ j < n, dot (col cs (n + j)) y1 = 1 / δ * mu j := by
    intro j hj; rw [hc1 (n + j) (by omega), splice_add]
  have hl : ∀ j, dot (col cs j) (splice cs.length y1 y2) = dot (col cs j) y1 :=
    fun j => dot_splice_left _ _ _ _ (by rw [length_col])
  refine ⟨splice cs.length y1 y2, 1 / δ, ht, ?_, ?_⟩
  · rw [Sat_prOrigSystem_iff, splice_shift]
    refine ⟨fun i _ => splice_nonneg _ _ _ hy1 hy2 i, ?_, ?_, ?_, hk2⟩
    · intro j hj; rw [hl, c1p j hj]
    · intro j hj; rw [hl, c1u j hj, c2u j hj]
    · intro j hj; rw [c2p j hj, c2u j hj]; ring
  · intro j hj
    rw [prOrigMu_lt n cs _ j hj, splice_shift, c2p j hj]; ring

/-- non-vacuity: `x − x' ≥ 1 ∧ x ≥ 0` (`n = 1`), `μ(x) = x` -/
example : ∃ (n : Nat) (cs : List Con) (mu : Val), WF (2*n) cs ∧ (∀ c ∈ cs, c.strict = false) ∧
    (∃ w, Sat cs w) ∧ Spec.isRankingGen n (sem cs) mu := by
  refine ⟨1, [⟨[-1, 1], -1, false⟩, ⟨[0, 1], 0, false⟩], fun j => if j = 0 then 1 else 0, ?_, ?_,
    ⟨fun j => if j = 0 then 0 else 1, ?_⟩, 1, 0, one_pos, ?_⟩
  · intro c hc; simp at hc; rcases hc with rfl | rfl <;> simp
  · intro c hc; simp at hc; rcases hc with rfl | rfl <;> rfl
  · intro c hc; simp at hc
    rcases hc with rfl | rfl <;> simp [Con.sat, Con.eval, Val.tail]
  · intro w hw
    have h1 := hw ⟨[-1, 1], -1, false⟩ (by simp)
    have h2 := hw ⟨[0, 1], 0, false⟩ (by simp)
    simp [Con.sat, Con.eval, Val.tail] at h1 h2
    simp [Spec.valueAt, Spec.decrAt, linAt, sumTo]
    constructor <;> linarith

/-- **the empty relation**: the encoding is satisfiable (`λ_1 = λ_2` = the infeasibility
    multipliers), so `termination_test_PR_original` answers `true` through the encoding. -/
theorem pr_original_complete_empty_of_farkas (hE : FarkasInfeasible) (n : Nat) (cs : List Con)
    (hwf : WF (2*n) cs) (hns : ∀ c ∈ cs, c.strict = false) (hem : ¬ ∃ w, Sat cs w) :
    ∃ u, Sat (prOrigSystem n cs) u := by
  obtain ⟨y, hy, hc, hk⟩ := hE (2*n) cs hwf hns hem
  have hl : ∀ j, dot (col cs j) (splice cs.length y y) = dot (col cs j) y :=
    fun j => dot_splice_left _ _ _ _ (by rw [length_col])
  refine ⟨splice cs.length y y, ?_⟩
  rw [Sat_prOrigSystem_iff, splice_shift]
  refine ⟨fun i _ => splice_nonneg _ _ _ hy hy i, ?_, ?_, ?_, le_of_eq hk⟩
  · intro j hj; rw [hl, hc j (by omega)]
  · intro j hj; rw [hl]
  · intro j hj; rw [hc j (by omega), hc (n + j) (by omega)]; ring

/-- non-vacuity: `x' = x ∧ x ≥ 1 ∧ x ≤ 0` (`n = 1`) is closed, well-formed and empty -/
example : ∃ (n : Nat) (cs : List Con), WF (2*n) cs ∧ (∀ c ∈ cs, c.strict = false) ∧
    ¬ ∃ w, Sat cs w := by
  refine ⟨1, [⟨[0, 1], -1, false⟩, ⟨[0, -1], 0, false⟩], ?_, ?_, ?_⟩
  · intro c hc; simp at hc; rcases hc with rfl | rfl <;> simp
  · intro c hc; simp at hc; rcases hc with rfl | rfl <;> rfl
  · rintro ⟨w, hw⟩
    have h1 := hw ⟨[0, 1], -1, false⟩ (by simp)
    have h2 := hw ⟨[0, -1], 0, false⟩ (by simp)
    simp [Con.sat, Con.eval, Val.tail] at h1 h2
    linarith

theorem prOrigSystem_wf (n : Nat) (cs : List Con) : WF (prOrigDim cs) (prOrigSystem n cs) := by
  unfold prOrigSystem fillPROrig prOrigDim
  simp only
  rw [WF_append_iff, WF_append_iff, WF_append_iff, WF_append_iff]
  refine ⟨⟨⟨⟨WF_nonnegRows _ _ _ (by omega), ?_⟩, ?_⟩, ?_⟩, ?_⟩
  · exact WF_flatMap _ _ _ (fun j _ => WF_eqRows_len _ _ _ (by rw [length_col]; omega))
  · exact WF_flatMap _ _ _ (fun j _ => WF_eqRows_len _ _ _ (by
      rw [List.length_append, List.length_map, length_col]; omega))
  · exact WF_flatMap _ _ _ (fun j _ => WF_eqRows_len _ _ _ (by
      rw [List.length_append, List.length_replicate,
        length_lincomb _ _ _ _ (by rw [length_col, length_col]), length_col]; omega))
  · apply WF_singleton
    simp [geRow, length_consts]; omega

/-- **`termination_test_PR_original` decides the existence of a general affine ranking function**
    of a closed relation (given the Farkas lemma): the satisfiability problem it hands to the
    MIP solver is feasible iff some `μ` is bounded from below and decreases by a fixed positive
    amount on every pair of the relation. -/
theorem termination_test_PR_original_iff_of_farkas (hF : FarkasImplied) (hE : FarkasInfeasible)
    (n : Nat) (cs : List Con) (hwf : WF (2*n) cs) (hns : ∀ c ∈ cs, c.strict = false) :
    feasible (prOrigDim cs) (prOrigSystem n cs) = true ↔ ∃ mu, Spec.isRankingGen n (sem cs) mu := by
  rw [feasible_iff _ _ (prOrigSystem_wf n cs)]
  constructor
  · rintro ⟨u, hu⟩
    exact ⟨prOrigMu n cs u, 1, _, one_pos, prOrigSystem_sound n cs hwf u hu⟩
  · rintro ⟨mu, hmu⟩
    by_cases hne : ∃ w, Sat cs w
    · obtain ⟨u, _, _, hu, _⟩ := pr_original_complete_of_farkas hF n cs hwf hns hne mu hmu
      exact ⟨u, hu⟩
    · exact pr_original_complete_empty_of_farkas hE n cs hwf hns hne

end PPLV.Term
