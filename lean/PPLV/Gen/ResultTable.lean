import PPLV.Checked.Result
/-! GENERATED at every run of `bin/check C11` by `gen/c11_tables.py` from the clang AST of
`src/Result_defs.hh` and `src/Rounding_Dir_defs.hh` — do not edit.

The theorems tie the hand-written model to the source: same enumerators, same order, same
numeric values; and the record view of a result code is faithful (`ofNat ∘ toNat = id`). -/
namespace PPLV.Gen.C11
open PPLV.Checked

def resultClassEnum : List (String × Nat) := [("VC_NORMAL", 0), ("VC_MINUS_INFINITY", 16), ("VC_PLUS_INFINITY", 32), ("VC_NAN", 48), ("VC_MASK", 48)]
def resultRelationEnum : List (String × Nat) := [("VR_EMPTY", 0), ("VR_EQ", 1), ("VR_LT", 2), ("VR_GT", 4), ("VR_NE", 6), ("VR_LE", 3), ("VR_GE", 5), ("VR_LGE", 7), ("VR_MASK", 7)]
def resultEnum : List (String × Nat) := [("V_EMPTY", 0), ("V_EQ", 1), ("V_LT", 2), ("V_GT", 4), ("V_NE", 6), ("V_LE", 3), ("V_GE", 5), ("V_LGE", 7), ("V_OVERFLOW", 64), ("V_LT_INF", 66), ("V_GT_SUP", 68), ("V_LT_PLUS_INFINITY", 34), ("V_GT_MINUS_INFINITY", 20), ("V_EQ_MINUS_INFINITY", 17), ("V_EQ_PLUS_INFINITY", 33), ("V_NAN", 48), ("V_CVT_STR_UNK", 304), ("V_DIV_ZERO", 560), ("V_INF_ADD_INF", 816), ("V_INF_DIV_INF", 1072), ("V_INF_MOD", 1328), ("V_INF_MUL_ZERO", 1584), ("V_INF_SUB_INF", 1840), ("V_MOD_ZERO", 2096), ("V_SQRT_NEG", 2352), ("V_UNKNOWN_NEG_OVERFLOW", 2608), ("V_UNKNOWN_POS_OVERFLOW", 2864), ("V_UNREPRESENTABLE", 128)]
def roundingDirEnum : List (String × Nat) := [("ROUND_DOWN", 0), ("ROUND_UP", 1), ("ROUND_IGNORE", 6), ("ROUND_NATIVE", 6), ("ROUND_NOT_NEEDED", 7), ("ROUND_DIRECT", 1), ("ROUND_INVERSE", 0), ("ROUND_DIR_MASK", 7), ("ROUND_STRICT_RELATION", 8), ("ROUND_CHECK", 9)]

theorem result_table_eq : Result.table.map (fun p => (p.1, p.2.toNat)) = resultEnum := by decide
theorem result_roundtrip : Result.table.all (fun p => Result.ofNat p.2.toNat == p.2) = true := by decide
theorem dir_table_eq : Dir.table = roundingDirEnum := by decide
theorem dir_codes : [Dir.down, Dir.up, Dir.ignore, Dir.notNeeded].map Dir.code =
    ["ROUND_DOWN", "ROUND_UP", "ROUND_IGNORE", "ROUND_NOT_NEEDED"].map (fun n => (roundingDirEnum.lookup n).getD 99) := by decide
theorem class_codes : [Cls.normal, Cls.minf, Cls.pinf, Cls.nan].map Cls.code =
    ["VC_NORMAL", "VC_MINUS_INFINITY", "VC_PLUS_INFINITY", "VC_NAN"].map (fun n => (resultClassEnum.lookup n).getD 99) := by decide
theorem relation_codes : [Rel.EMPTY, Rel.EQ, Rel.LT, Rel.GT, Rel.NE, Rel.LE, Rel.GE, Rel.LGE].map Rel.toNat =
    ["VR_EMPTY", "VR_EQ", "VR_LT", "VR_GT", "VR_NE", "VR_LE", "VR_GE", "VR_LGE"].map
      (fun n => (resultRelationEnum.lookup n).getD 99) := by decide

end PPLV.Gen.C11
