import PPLV.Checked.T2Base
/-! GENERATED at every run of `bin/check C11` by `gen/c11_t2.py` from the clang AST of the
uninstantiated function templates of `src/checked_int_inlines.hh` / `src/checked_inlines.hh`
(through `src/ppl.hh`) — do not edit.  One `def t2_<function>` per translated C++ function, over
the parameter types of the hand-written model (`PPLV/Checked/Model.lean`): template policy
parameters are `Policy` records, template integer types are `IntTy` descriptors, values are `Int`,
`unsigned int` is `Nat`, a function `Result f(T& to, ..)` returns `(to, result)`.
`PPLV/Checked/T2Agree.lean` proves each definition equal to the hand-written model. -/
set_option linter.unusedVariables false
namespace PPLV.Gen.T2
open PPLV.Checked PPLV.Checked.Result

/-- `Larger<T>::type_for_*` (the table of specialisations was checked against this rule) -/
def t2_larger_type_for_neg (T : IntTy) : IntTy := T.larger true
def t2_larger_type_for_add (T : IntTy) : IntTy := T.larger T.signed
def t2_larger_type_for_sub (T : IntTy) : IntTy := T.larger true
def t2_larger_type_for_mul (T : IntTy) : IntTy := T.larger T.signed

/-- `Extended_Int<Policy, Type>::plus_infinity` (checked_int_inlines.hh:73) -/
-- [t2:Extended_Int_plus_infinity]
def t2_Extended_Int_plus_infinity (P : Policy) (Ty : IntTy) : Int :=
  Ty.cmax
-- [end]

/-- `Extended_Int<Policy, Type>::minus_infinity` (checked_int_inlines.hh:74) -/
-- [t2:Extended_Int_minus_infinity]
def t2_Extended_Int_minus_infinity (P : Policy) (Ty : IntTy) : Int :=
  (if decide (Ty.cmin ≥ 0) then (Ty.cmax - 1) else Ty.cmin)
-- [end]

/-- `Extended_Int<Policy, Type>::not_a_number` (checked_int_inlines.hh:77) -/
-- [t2:Extended_Int_not_a_number]
def t2_Extended_Int_not_a_number (P : Policy) (Ty : IntTy) : Int :=
  (if decide (Ty.cmin ≥ 0) then (Ty.cmax - (2 * (if P.hasInfinity then (1 : Int) else 0))) else (Ty.cmin + (if P.hasInfinity then (1 : Int) else 0)))
-- [end]

/-- `Extended_Int<Policy, Type>::min` (checked_int_inlines.hh:81) -/
-- [t2:Extended_Int_min]
def t2_Extended_Int_min (P : Policy) (Ty : IntTy) : Int :=
  (Ty.cmin + (if decide (Ty.cmin ≥ 0) then 0 else ((if P.hasInfinity then (1 : Int) else 0) + (if P.hasNan then (1 : Int) else 0))))
-- [end]

/-- `Extended_Int<Policy, Type>::max` (checked_int_inlines.hh:86) -/
-- [t2:Extended_Int_max]
def t2_Extended_Int_max (P : Policy) (Ty : IntTy) : Int :=
  (Ty.cmax - (if decide (Ty.cmin ≥ 0) then ((2 * (if P.hasInfinity then (1 : Int) else 0)) + (if P.hasNan then (1 : Int) else 0)) else (if P.hasInfinity then (1 : Int) else 0)))
-- [end]

/-- `set_neg_overflow_int` (checked_int_inlines.hh:94) -/
-- [t2:set_neg_overflow_int]
def t2_set_neg_overflow_int (P : Policy) (To : IntTy) (to : Int) (dir : Dir) : Int × Result :=
  if dir.roundUp then
    let to : Int := (To.emin P)
    (to, V_LT_INF)
  else
    if P.hasInfinity then
      let to : Int := To.minusInf
      (to, V_GT_MINUS_INFINITY)
    else
      (to, V_GT_MINUS_INFINITY.orUnrep)
-- [end]

/-- `set_pos_overflow_int` (checked_int_inlines.hh:110) -/
-- [t2:set_pos_overflow_int]
def t2_set_pos_overflow_int (P : Policy) (To : IntTy) (to : Int) (dir : Dir) : Int × Result :=
  if dir.roundDown then
    let to : Int := (To.emax P)
    (to, V_GT_SUP)
  else
    if P.hasInfinity then
      let to : Int := To.plusInf
      (to, V_LT_PLUS_INFINITY)
    else
      (to, V_LT_PLUS_INFINITY.orUnrep)
-- [end]

/-- `round_lt_int_no_overflow` (checked_int_inlines.hh:126) -/
-- [t2:round_lt_int_no_overflow]
def t2_round_lt_int_no_overflow (P : Policy) (To : IntTy) (to : Int) (dir : Dir) : Int × Result :=
  if dir.roundDown then
    let to : Int := (to - 1)
    (to, V_GT)
  else
    (to, V_LT)
-- [end]

/-- `round_gt_int_no_overflow` (checked_int_inlines.hh:136) -/
-- [t2:round_gt_int_no_overflow]
def t2_round_gt_int_no_overflow (P : Policy) (To : IntTy) (to : Int) (dir : Dir) : Int × Result :=
  if dir.roundUp then
    let to : Int := (to + 1)
    (to, V_LT)
  else
    (to, V_GT)
-- [end]

/-- `round_lt_int` (checked_int_inlines.hh:146) -/
-- [t2:round_lt_int]
def t2_round_lt_int (P : Policy) (To : IntTy) (to : Int) (dir : Dir) : Int × Result :=
  if dir.roundDown then
    if (to == (To.emin P)) then
      if P.hasInfinity then
        let to : Int := To.minusInf
        (to, V_GT_MINUS_INFINITY)
      else
        (to, V_GT_MINUS_INFINITY.orUnrep)
    else
      let to : Int := (to - 1)
      (to, V_GT)
  else
    (to, V_LT)
-- [end]

/-- `round_gt_int` (checked_int_inlines.hh:165) -/
-- [t2:round_gt_int]
def t2_round_gt_int (P : Policy) (To : IntTy) (to : Int) (dir : Dir) : Int × Result :=
  if dir.roundUp then
    if (to == (To.emax P)) then
      if P.hasInfinity then
        let to : Int := To.plusInf
        (to, V_LT_PLUS_INFINITY)
      else
        (to, V_LT_PLUS_INFINITY.orUnrep)
    else
      let to : Int := (to + 1)
      (to, V_LT)
  else
    (to, V_GT)
-- [end]

/-- `classify_int` (checked_int_inlines.hh:196) -/
-- [t2:classify_int]
def t2_classify_int (P : Policy) (Ty : IntTy) (v : Int) (nan : Bool) (inf : Bool) (sign : Bool) : Result :=
  if ((P.hasNan && (nan || sign)) && (v == (Ty.nanV P))) then
    V_NAN
  else
    if ((!inf) && (!sign)) then
      V_LGE
    else
      if P.hasInfinity then
        if (v == Ty.minusInf) then
          (if inf then V_EQ_MINUS_INFINITY else V_LT)
        else
          if (v == Ty.plusInf) then
            (if inf then V_EQ_PLUS_INFINITY else V_GT)
          else
            if sign then
              if decide (v < 0) then
                V_LT
              else
                if decide (v > 0) then
                  V_GT
                else
                  V_EQ
            else
              V_LGE
      else
        if sign then
          if decide (v < 0) then
            V_LT
          else
            if decide (v > 0) then
              V_GT
            else
              V_EQ
        else
          V_LGE
-- [end]

/-- `is_nan_int` (checked_int_inlines.hh:239) -/
-- [t2:is_nan_int]
def t2_is_nan_int (P : Policy) (Ty : IntTy) (v : Int) : Bool :=
  (P.hasNan && (v == (Ty.nanV P)))
-- [end]

/-- `is_minf_int` (checked_int_inlines.hh:257) -/
-- [t2:is_minf_int]
def t2_is_minf_int (P : Policy) (Ty : IntTy) (v : Int) : Bool :=
  (P.hasInfinity && (v == Ty.minusInf))
-- [end]

/-- `is_pinf_int` (checked_int_inlines.hh:276) -/
-- [t2:is_pinf_int]
def t2_is_pinf_int (P : Policy) (Ty : IntTy) (v : Int) : Bool :=
  (P.hasInfinity && (v == Ty.plusInf))
-- [end]

/-- `assign_special_int` (checked_int_inlines.hh:313) -/
-- [t2:assign_special_int]
def t2_assign_special_int (P : Policy) (Ty : IntTy) (v : Int) (c : Cls) (dir : Dir) : Int × Result :=
  match c with
  | .nan =>
    if P.hasNan then
      let v : Int := (Ty.nanV P)
      (v, V_NAN)
    else
      (v, V_NAN.orUnrep)
  | .minf =>
    if P.hasInfinity then
      let v : Int := Ty.minusInf
      (v, V_EQ_MINUS_INFINITY)
    else
      if dir.roundUp then
        let v : Int := (Ty.emin P)
        (v, V_LT_INF)
      else
        (v, V_EQ_MINUS_INFINITY.orUnrep)
  | .pinf =>
    if P.hasInfinity then
      let v : Int := Ty.plusInf
      (v, V_EQ_PLUS_INFINITY)
    else
      if dir.roundDown then
        let v : Int := (Ty.emax P)
        (v, V_GT_SUP)
      else
        (v, V_EQ_PLUS_INFINITY.orUnrep)
  | _ =>
    (v, V_NAN.orUnrep)
-- [end]

/-- `assign_nan` (checked_inlines.hh:650) -/
-- [t2:assign_nan]
def t2_assign_nan (P : Policy) (Ty : IntTy) (to : Int) (r : Result) : Int × Result :=
  let to : Int := (t2_assign_special_int P Ty to Cls.nan Dir.ignore).1
  (to, r)
-- [end]

/-- `assign_signed_int_signed_int` (checked_int_inlines.hh:362) -/
-- [t2:assign_signed_int_signed_int]
def t2_assign_signed_int_signed_int (To_Policy : Policy) (From_Policy : Policy) (To : IntTy) (From : IntTy) (to : Int) (frm : Int) (dir : Dir) : Int × Result :=
  if (decide (To.bits < From.bits) || ((To.bits == From.bits) && (decide ((To.emin To_Policy) > (From.emin From_Policy)) || decide ((To.emax To_Policy) < (From.emax From_Policy))))) then
    if (To_Policy.checkOverflow && decide (frm < (To.emin To_Policy))) then
      t2_set_neg_overflow_int To_Policy To to dir
    else
      if (To_Policy.checkOverflow && decide (frm > (To.emax To_Policy))) then
        t2_set_pos_overflow_int To_Policy To to dir
      else
        let to : Int := frm
        (to, V_EQ)
  else
    let to : Int := frm
    (to, V_EQ)
-- [end]

/-- `assign_signed_int_unsigned_int` (checked_int_inlines.hh:384) -/
-- [t2:assign_signed_int_unsigned_int]
def t2_assign_signed_int_unsigned_int (To_Policy : Policy) (From_Policy : Policy) (To : IntTy) (From : IntTy) (to : Int) (frm : Int) (dir : Dir) : Int × Result :=
  if decide (To.bits ≤ From.bits) then
    if (To_Policy.checkOverflow && decide (frm > (To.emax To_Policy))) then
      t2_set_pos_overflow_int To_Policy To to dir
    else
      let to : Int := frm
      (to, V_EQ)
  else
    let to : Int := frm
    (to, V_EQ)
-- [end]

/-- `assign_unsigned_int_signed_int` (checked_int_inlines.hh:397) -/
-- [t2:assign_unsigned_int_signed_int]
def t2_assign_unsigned_int_signed_int (To_Policy : Policy) (From_Policy : Policy) (To : IntTy) (From : IntTy) (to : Int) (frm : Int) (dir : Dir) : Int × Result :=
  if (To_Policy.checkOverflow && decide (frm < 0)) then
    t2_set_neg_overflow_int To_Policy To to dir
  else
    if decide (To.bits < From.bits) then
      if (To_Policy.checkOverflow && decide (frm > (To.emax To_Policy))) then
        t2_set_pos_overflow_int To_Policy To to dir
      else
        let to : Int := frm
        (to, V_EQ)
    else
      let to : Int := frm
      (to, V_EQ)
-- [end]

/-- `assign_unsigned_int_unsigned_int` (checked_int_inlines.hh:413) -/
-- [t2:assign_unsigned_int_unsigned_int]
def t2_assign_unsigned_int_unsigned_int (To_Policy : Policy) (From_Policy : Policy) (To : IntTy) (From : IntTy) (to : Int) (frm : Int) (dir : Dir) : Int × Result :=
  if (decide (To.bits < From.bits) || ((To.bits == From.bits) && decide ((To.emax To_Policy) < (From.emax From_Policy)))) then
    if (To_Policy.checkOverflow && decide (frm > (To.emax To_Policy))) then
      t2_set_pos_overflow_int To_Policy To to dir
    else
      let to : Int := frm
      (to, V_EQ)
  else
    let to : Int := frm
    (to, V_EQ)
-- [end]

/-- generic `assign<To_Policy, From_Policy>(to, from, dir)` on native integers (the PPL_SPECIALIZE_ASSIGN table) -/
def t2_assign (To_Policy : Policy) (From_Policy : Policy) (To : IntTy) (From : IntTy) (to : Int) (frm : Int) (dir : Dir) : Int × Result :=
  match To.signed, From.signed with
  | true, true => t2_assign_signed_int_signed_int To_Policy From_Policy To From to frm dir
  | true, false => t2_assign_signed_int_unsigned_int To_Policy From_Policy To From to frm dir
  | false, true => t2_assign_unsigned_int_signed_int To_Policy From_Policy To From to frm dir
  | false, false => t2_assign_unsigned_int_unsigned_int To_Policy From_Policy To From to frm dir

/-- `neg_int_larger` (checked_int_inlines.hh:966) -/
-- [t2:neg_int_larger]
def t2_neg_int_larger (To_Policy : Policy) (From_Policy : Policy) (Ty : IntTy) (to : Int) (x : Int) (dir : Dir) : Int × Result :=
  let l : Int := x
  let l : Int := (-l)
  t2_assign To_Policy To_Policy Ty (t2_larger_type_for_neg Ty) to l dir
-- [end]

/-- `add_int_larger` (checked_int_inlines.hh:975) -/
-- [t2:add_int_larger]
def t2_add_int_larger (To_Policy : Policy) (From1_Policy : Policy) (From2_Policy : Policy) (Ty : IntTy) (to : Int) (x : Int) (y : Int) (dir : Dir) : Int × Result :=
  let l : Int := x
  let l : Int := (l + y)
  t2_assign To_Policy To_Policy Ty (t2_larger_type_for_add Ty) to l dir
-- [end]

/-- `sub_int_larger` (checked_int_inlines.hh:984) -/
-- [t2:sub_int_larger]
def t2_sub_int_larger (To_Policy : Policy) (From1_Policy : Policy) (From2_Policy : Policy) (Ty : IntTy) (to : Int) (x : Int) (y : Int) (dir : Dir) : Int × Result :=
  let l : Int := x
  let l : Int := (l - y)
  t2_assign To_Policy To_Policy Ty (t2_larger_type_for_sub Ty) to l dir
-- [end]

/-- `mul_int_larger` (checked_int_inlines.hh:993) -/
-- [t2:mul_int_larger]
def t2_mul_int_larger (To_Policy : Policy) (From1_Policy : Policy) (From2_Policy : Policy) (Ty : IntTy) (to : Int) (x : Int) (y : Int) (dir : Dir) : Int × Result :=
  let l : Int := x
  let l : Int := (l * y)
  t2_assign To_Policy To_Policy Ty (t2_larger_type_for_mul Ty) to l dir
-- [end]

/-- `neg_signed_int` (checked_int_inlines.hh:1001) -/
-- [t2:neg_signed_int]
def t2_neg_signed_int (To_Policy : Policy) (From_Policy : Policy) (Ty : IntTy) (to : Int) (frm : Int) (dir : Dir) : Int × Result :=
  if (To_Policy.checkOverflow && Ty.useNeg) then
    t2_neg_int_larger To_Policy From_Policy Ty to frm dir
  else
    if (To_Policy.checkOverflow && decide (frm < (-(Ty.emax To_Policy)))) then
      t2_set_pos_overflow_int To_Policy Ty to dir
    else
      let to : Int := (-frm)
      (to, V_EQ)
-- [end]

/-- `neg_unsigned_int` (checked_int_inlines.hh:1015) -/
-- [t2:neg_unsigned_int]
def t2_neg_unsigned_int (To_Policy : Policy) (From_Policy : Policy) (Ty : IntTy) (to : Int) (frm : Int) (dir : Dir) : Int × Result :=
  if (To_Policy.checkOverflow && Ty.useNeg) then
    t2_neg_int_larger To_Policy From_Policy Ty to frm dir
  else
    if (To_Policy.checkOverflow && (frm != 0)) then
      t2_set_neg_overflow_int To_Policy Ty to dir
    else
      let to : Int := frm
      (to, V_EQ)
-- [end]

/-- generic `neg<..>` on native integers (the PPL_SPECIALIZE_NEG table: by signedness) -/
def t2_neg (To_Policy : Policy) (From_Policy : Policy) (To : IntTy) (to : Int) (x : Int) (dir : Dir) : Int × Result :=
  if To.signed then t2_neg_signed_int To_Policy From_Policy To to x dir else t2_neg_unsigned_int To_Policy From_Policy To to x dir

/-- `add_signed_int` (checked_int_inlines.hh:1029) -/
-- [t2:add_signed_int]
def t2_add_signed_int (To_Policy : Policy) (From1_Policy : Policy) (From2_Policy : Policy) (Ty : IntTy) (to : Int) (x : Int) (y : Int) (dir : Dir) : Int × Result :=
  if (To_Policy.checkOverflow && Ty.useAdd) then
    t2_add_int_larger To_Policy From1_Policy From2_Policy Ty to x y dir
  else
    if To_Policy.checkOverflow then
      if decide (y ≥ 0) then
        if decide (x > ((Ty.emax To_Policy) - y)) then
          t2_set_pos_overflow_int To_Policy Ty to dir
        else
          let to : Int := (x + y)
          (to, V_EQ)
      else
        if decide (x < ((Ty.emin To_Policy) - y)) then
          t2_set_neg_overflow_int To_Policy Ty to dir
        else
          let to : Int := (x + y)
          (to, V_EQ)
    else
      let to : Int := (x + y)
      (to, V_EQ)
-- [end]

/-- `add_unsigned_int` (checked_int_inlines.hh:1050) -/
-- [t2:add_unsigned_int]
def t2_add_unsigned_int (To_Policy : Policy) (From1_Policy : Policy) (From2_Policy : Policy) (Ty : IntTy) (to : Int) (x : Int) (y : Int) (dir : Dir) : Int × Result :=
  if (To_Policy.checkOverflow && Ty.useAdd) then
    t2_add_int_larger To_Policy From1_Policy From2_Policy Ty to x y dir
  else
    if (To_Policy.checkOverflow && decide (x > ((Ty.emax To_Policy) - y))) then
      t2_set_pos_overflow_int To_Policy Ty to dir
    else
      let to : Int := (x + y)
      (to, V_EQ)
-- [end]

/-- generic `add<..>` on native integers (the PPL_SPECIALIZE_ADD table: by signedness) -/
def t2_add (To_Policy : Policy) (From1_Policy : Policy) (From2_Policy : Policy) (To : IntTy) (to : Int) (x : Int) (y : Int) (dir : Dir) : Int × Result :=
  if To.signed then t2_add_signed_int To_Policy From1_Policy From2_Policy To to x y dir else t2_add_unsigned_int To_Policy From1_Policy From2_Policy To to x y dir

/-- `sub_signed_int` (checked_int_inlines.hh:1065) -/
-- [t2:sub_signed_int]
def t2_sub_signed_int (To_Policy : Policy) (From1_Policy : Policy) (From2_Policy : Policy) (Ty : IntTy) (to : Int) (x : Int) (y : Int) (dir : Dir) : Int × Result :=
  if (To_Policy.checkOverflow && Ty.useSub) then
    t2_sub_int_larger To_Policy From1_Policy From2_Policy Ty to x y dir
  else
    if To_Policy.checkOverflow then
      if decide (y ≥ 0) then
        if decide (x < ((Ty.emin To_Policy) + y)) then
          t2_set_neg_overflow_int To_Policy Ty to dir
        else
          let to : Int := (x - y)
          (to, V_EQ)
      else
        if decide (x > ((Ty.emax To_Policy) + y)) then
          t2_set_pos_overflow_int To_Policy Ty to dir
        else
          let to : Int := (x - y)
          (to, V_EQ)
    else
      let to : Int := (x - y)
      (to, V_EQ)
-- [end]

/-- `sub_unsigned_int` (checked_int_inlines.hh:1086) -/
-- [t2:sub_unsigned_int]
def t2_sub_unsigned_int (To_Policy : Policy) (From1_Policy : Policy) (From2_Policy : Policy) (Ty : IntTy) (to : Int) (x : Int) (y : Int) (dir : Dir) : Int × Result :=
  if (To_Policy.checkOverflow && Ty.useSub) then
    t2_sub_int_larger To_Policy From1_Policy From2_Policy Ty to x y dir
  else
    if (To_Policy.checkOverflow && decide (x < ((Ty.emin To_Policy) + y))) then
      t2_set_neg_overflow_int To_Policy Ty to dir
    else
      let to : Int := (x - y)
      (to, V_EQ)
-- [end]

/-- generic `sub<..>` on native integers (the PPL_SPECIALIZE_SUB table: by signedness) -/
def t2_sub (To_Policy : Policy) (From1_Policy : Policy) (From2_Policy : Policy) (To : IntTy) (to : Int) (x : Int) (y : Int) (dir : Dir) : Int × Result :=
  if To.signed then t2_sub_signed_int To_Policy From1_Policy From2_Policy To to x y dir else t2_sub_unsigned_int To_Policy From1_Policy From2_Policy To to x y dir

/-- `mul_signed_int` (checked_int_inlines.hh:1101) -/
-- [t2:mul_signed_int]
def t2_mul_signed_int (To_Policy : Policy) (From1_Policy : Policy) (From2_Policy : Policy) (Ty : IntTy) (to : Int) (x : Int) (y : Int) (dir : Dir) : Int × Result :=
  if (To_Policy.checkOverflow && Ty.useMul) then
    t2_mul_int_larger To_Policy From1_Policy From2_Policy Ty to x y dir
  else
    if (!To_Policy.checkOverflow) then
      let to : Int := (x * y)
      (to, V_EQ)
    else
      if (y == 0) then
        let to : Int := 0
        (to, V_EQ)
      else
        if (y == (-1)) then
          t2_neg_signed_int To_Policy From1_Policy Ty to x dir
        else
          if decide (x ≥ 0) then
            if decide (y > 0) then
              if decide (x > (Int.tdiv (Ty.emax To_Policy) y)) then
                t2_set_pos_overflow_int To_Policy Ty to dir
              else
                let to : Int := (x * y)
                (to, V_EQ)
            else
              if decide (x > (Int.tdiv (Ty.emin To_Policy) y)) then
                t2_set_neg_overflow_int To_Policy Ty to dir
              else
                let to : Int := (x * y)
                (to, V_EQ)
          else
            if decide (y < 0) then
              if decide (x < (Int.tdiv (Ty.emax To_Policy) y)) then
                t2_set_pos_overflow_int To_Policy Ty to dir
              else
                let to : Int := (x * y)
                (to, V_EQ)
            else
              if decide (x < (Int.tdiv (Ty.emin To_Policy) y)) then
                t2_set_neg_overflow_int To_Policy Ty to dir
              else
                let to : Int := (x * y)
                (to, V_EQ)
-- [end]

/-- `mul_unsigned_int` (checked_int_inlines.hh:1147) -/
-- [t2:mul_unsigned_int]
def t2_mul_unsigned_int (To_Policy : Policy) (From1_Policy : Policy) (From2_Policy : Policy) (Ty : IntTy) (to : Int) (x : Int) (y : Int) (dir : Dir) : Int × Result :=
  if (To_Policy.checkOverflow && Ty.useMul) then
    t2_mul_int_larger To_Policy From1_Policy From2_Policy Ty to x y dir
  else
    if (!To_Policy.checkOverflow) then
      let to : Int := (x * y)
      (to, V_EQ)
    else
      if (y == 0) then
        let to : Int := 0
        (to, V_EQ)
      else
        if decide (x > (Int.tdiv (Ty.emax To_Policy) y)) then
          t2_set_pos_overflow_int To_Policy Ty to dir
        else
          let to : Int := (x * y)
          (to, V_EQ)
-- [end]

/-- generic `mul<..>` on native integers (the PPL_SPECIALIZE_MUL table: by signedness) -/
def t2_mul (To_Policy : Policy) (From1_Policy : Policy) (From2_Policy : Policy) (To : IntTy) (to : Int) (x : Int) (y : Int) (dir : Dir) : Int × Result :=
  if To.signed then t2_mul_signed_int To_Policy From1_Policy From2_Policy To to x y dir else t2_mul_unsigned_int To_Policy From1_Policy From2_Policy To to x y dir

/-- `div_signed_int` (checked_int_inlines.hh:1169) -/
-- [t2:div_signed_int]
def t2_div_signed_int (To_Policy : Policy) (From1_Policy : Policy) (From2_Policy : Policy) (Ty : IntTy) (to : Int) (x : Int) (y : Int) (dir : Dir) : Int × Result :=
  if (To_Policy.checkDivZero && (y == 0)) then
    t2_assign_nan To_Policy Ty to V_DIV_ZERO
  else
    if (To_Policy.checkOverflow && (y == (-1))) then
      t2_neg_signed_int To_Policy From1_Policy Ty to x dir
    else
      let to : Int := (Int.tdiv x y)
      if dir.notRequested then
        (to, V_LGE)
      else
        if (y == (-1)) then
          (to, V_EQ)
        else
          let m : Int := (Int.tmod x y)
          if (m == 0) then
            (to, V_EQ)
          else
            if ((decide (m < 0)) != (decide (y < 0))) then
              t2_round_lt_int_no_overflow To_Policy Ty to dir
            else
              t2_round_gt_int_no_overflow To_Policy Ty to dir
-- [end]

/-- `div_unsigned_int` (checked_int_inlines.hh:1200) -/
-- [t2:div_unsigned_int]
def t2_div_unsigned_int (To_Policy : Policy) (From1_Policy : Policy) (From2_Policy : Policy) (Ty : IntTy) (to : Int) (x : Int) (y : Int) (dir : Dir) : Int × Result :=
  if (To_Policy.checkDivZero && (y == 0)) then
    t2_assign_nan To_Policy Ty to V_DIV_ZERO
  else
    let to : Int := (Int.tdiv x y)
    if dir.notRequested then
      (to, V_GE)
    else
      let m : Int := (Int.tmod x y)
      if (m == 0) then
        (to, V_EQ)
      else
        t2_round_gt_int To_Policy Ty to dir
-- [end]

/-- generic `div<..>` on native integers (the PPL_SPECIALIZE_DIV table: by signedness) -/
def t2_div (To_Policy : Policy) (From1_Policy : Policy) (From2_Policy : Policy) (To : IntTy) (to : Int) (x : Int) (y : Int) (dir : Dir) : Int × Result :=
  if To.signed then t2_div_signed_int To_Policy From1_Policy From2_Policy To to x y dir else t2_div_unsigned_int To_Policy From1_Policy From2_Policy To to x y dir

/-- `idiv_signed_int` (checked_int_inlines.hh:1218) -/
-- [t2:idiv_signed_int]
def t2_idiv_signed_int (To_Policy : Policy) (From1_Policy : Policy) (From2_Policy : Policy) (Ty : IntTy) (to : Int) (x : Int) (y : Int) (dir : Dir) : Int × Result :=
  if (To_Policy.checkDivZero && (y == 0)) then
    t2_assign_nan To_Policy Ty to V_DIV_ZERO
  else
    if (To_Policy.checkOverflow && (y == (-1))) then
      t2_neg_signed_int To_Policy From1_Policy Ty to x dir
    else
      let to : Int := (Int.tdiv x y)
      (to, V_EQ)
-- [end]

/-- `idiv_unsigned_int` (checked_int_inlines.hh:1232) -/
-- [t2:idiv_unsigned_int]
def t2_idiv_unsigned_int (To_Policy : Policy) (From1_Policy : Policy) (From2_Policy : Policy) (Ty : IntTy) (to : Int) (x : Int) (y : Int) (_a4 : Dir) : Int × Result :=
  if (To_Policy.checkDivZero && (y == 0)) then
    t2_assign_nan To_Policy Ty to V_DIV_ZERO
  else
    let to : Int := (Int.tdiv x y)
    (to, V_EQ)
-- [end]

/-- generic `idiv<..>` on native integers (the PPL_SPECIALIZE_IDIV table: by signedness) -/
def t2_idiv (To_Policy : Policy) (From1_Policy : Policy) (From2_Policy : Policy) (To : IntTy) (to : Int) (x : Int) (y : Int) (dir : Dir) : Int × Result :=
  if To.signed then t2_idiv_signed_int To_Policy From1_Policy From2_Policy To to x y dir else t2_idiv_unsigned_int To_Policy From1_Policy From2_Policy To to x y dir

/-- `rem_signed_int` (checked_int_inlines.hh:1243) -/
-- [t2:rem_signed_int]
def t2_rem_signed_int (To_Policy : Policy) (From1_Policy : Policy) (From2_Policy : Policy) (Ty : IntTy) (to : Int) (x : Int) (y : Int) (_a4 : Dir) : Int × Result :=
  if (To_Policy.checkDivZero && (y == 0)) then
    t2_assign_nan To_Policy Ty to V_MOD_ZERO
  else
    let to : Int := (if (y == (-1)) then 0 else (Int.tmod x y))
    (to, V_EQ)
-- [end]

/-- `rem_unsigned_int` (checked_int_inlines.hh:1254) -/
-- [t2:rem_unsigned_int]
def t2_rem_unsigned_int (To_Policy : Policy) (From1_Policy : Policy) (From2_Policy : Policy) (Ty : IntTy) (to : Int) (x : Int) (y : Int) (_a4 : Dir) : Int × Result :=
  if (To_Policy.checkDivZero && (y == 0)) then
    t2_assign_nan To_Policy Ty to V_MOD_ZERO
  else
    let to : Int := (Int.tmod x y)
    (to, V_EQ)
-- [end]

/-- generic `rem<..>` on native integers (the PPL_SPECIALIZE_REM table: by signedness) -/
def t2_rem (To_Policy : Policy) (From1_Policy : Policy) (From2_Policy : Policy) (To : IntTy) (to : Int) (x : Int) (y : Int) (dir : Dir) : Int × Result :=
  if To.signed then t2_rem_signed_int To_Policy From1_Policy From2_Policy To to x y dir else t2_rem_unsigned_int To_Policy From1_Policy From2_Policy To to x y dir

/-- `div_2exp_unsigned_int` (checked_int_inlines.hh:1264) -/
-- [t2:div_2exp_unsigned_int]
def t2_div_2exp_unsigned_int (To_Policy : Policy) (From_Policy : Policy) (Ty : IntTy) (to : Int) (x : Int) (exp : Nat) (dir : Dir) : Int × Result :=
  if decide (exp ≥ Ty.bits) then
    let to : Int := 0
    if dir.notRequested then
      (to, V_GE)
    else
      if (x == 0) then
        (to, V_EQ)
      else
        t2_round_gt_int_no_overflow To_Policy Ty to dir
  else
    let to : Int := (x / pow2 exp)
    if dir.notRequested then
      (to, V_GE)
    else
      if ((T2.andLow x (pow2 exp)) != 0) then
        t2_round_gt_int_no_overflow To_Policy Ty to dir
      else
        (to, V_EQ)
-- [end]

/-- `div_2exp_signed_int` (checked_int_inlines.hh:1290) -/
-- [t2:div_2exp_signed_int]
def t2_div_2exp_signed_int (To_Policy : Policy) (From_Policy : Policy) (Ty : IntTy) (to : Int) (x : Int) (exp : Nat) (dir : Dir) : Int × Result :=
  if decide (x < 0) then
    if decide (exp ≥ Ty.bits) then
      let to : Int := 0
      if dir.notRequested then
        (to, V_LE)
      else
        t2_round_lt_int_no_overflow To_Policy Ty to dir
    else
      let ux : Int := T2.toU Ty x
      let ux : Int := (T2.toU Ty (-ux))
      let to : Int := (T2.notS (T2.toS Ty (T2.notU Ty (T2.toU Ty (-(ux / pow2 exp))))))
      if dir.notRequested then
        (to, V_LE)
      else
        if ((T2.andLow ux (pow2 exp)) != 0) then
          t2_round_lt_int_no_overflow To_Policy Ty to dir
        else
          (to, V_EQ)
  else
    if decide (exp ≥ (Ty.bits - 1)) then
      let to : Int := 0
      if dir.notRequested then
        (to, V_GE)
      else
        if (x == 0) then
          (to, V_EQ)
        else
          t2_round_gt_int_no_overflow To_Policy Ty to dir
    else
      let to : Int := (x / pow2 exp)
      if dir.notRequested then
        (to, V_GE)
      else
        if ((T2.andLow x (pow2 exp)) != 0) then
          t2_round_gt_int_no_overflow To_Policy Ty to dir
        else
          (to, V_EQ)
-- [end]

/-- generic `div_2exp<..>` on native integers (the PPL_SPECIALIZE_DIV_2EXP table: by signedness) -/
def t2_div_2exp (To_Policy : Policy) (From_Policy : Policy) (To : IntTy) (to : Int) (x : Int) (exp : Nat) (dir : Dir) : Int × Result :=
  if To.signed then t2_div_2exp_signed_int To_Policy From_Policy To to x exp dir else t2_div_2exp_unsigned_int To_Policy From_Policy To to x exp dir

/-- `add_2exp_unsigned_int` (checked_int_inlines.hh:1338) -/
-- [t2:add_2exp_unsigned_int]
def t2_add_2exp_unsigned_int (To_Policy : Policy) (From_Policy : Policy) (Ty : IntTy) (to : Int) (x : Int) (exp : Nat) (dir : Dir) : Int × Result :=
  if (!To_Policy.checkOverflow) then
    let to : Int := (x + (pow2 exp))
    (to, V_EQ)
  else
    if decide (exp ≥ Ty.bits) then
      t2_set_pos_overflow_int To_Policy Ty to dir
    else
      let n : Int := (pow2 exp)
      t2_add_unsigned_int To_Policy From_Policy default Ty to x n dir
-- [end]

/-- `add_2exp_signed_int` (checked_int_inlines.hh:1353) -/
-- [t2:add_2exp_signed_int]
def t2_add_2exp_signed_int (To_Policy : Policy) (From_Policy : Policy) (Ty : IntTy) (to : Int) (x : Int) (exp : Nat) (dir : Dir) : Int × Result :=
  if (!To_Policy.checkOverflow) then
    let to : Int := (x + (pow2 exp))
    (to, V_EQ)
  else
    if decide (exp ≥ Ty.bits) then
      t2_set_pos_overflow_int To_Policy Ty to dir
    else
      if (exp == (Ty.bits - 1)) then
        let n : Int := ((-2) * (pow2 (exp - 1)))
        t2_sub_signed_int To_Policy From_Policy default Ty to x n dir
      else
        let n : Int := (pow2 exp)
        t2_add_signed_int To_Policy From_Policy default Ty to x n dir
-- [end]

/-- generic `add_2exp<..>` on native integers (the PPL_SPECIALIZE_ADD_2EXP table: by signedness) -/
def t2_add_2exp (To_Policy : Policy) (From_Policy : Policy) (To : IntTy) (to : Int) (x : Int) (exp : Nat) (dir : Dir) : Int × Result :=
  if To.signed then t2_add_2exp_signed_int To_Policy From_Policy To to x exp dir else t2_add_2exp_unsigned_int To_Policy From_Policy To to x exp dir

/-- `sub_2exp_unsigned_int` (checked_int_inlines.hh:1374) -/
-- [t2:sub_2exp_unsigned_int]
def t2_sub_2exp_unsigned_int (To_Policy : Policy) (From_Policy : Policy) (Ty : IntTy) (to : Int) (x : Int) (exp : Nat) (dir : Dir) : Int × Result :=
  if (!To_Policy.checkOverflow) then
    let to : Int := (x - (pow2 exp))
    (to, V_EQ)
  else
    if decide (exp ≥ Ty.bits) then
      t2_set_neg_overflow_int To_Policy Ty to dir
    else
      let n : Int := (pow2 exp)
      t2_sub_unsigned_int To_Policy From_Policy default Ty to x n dir
-- [end]

/-- `sub_2exp_signed_int` (checked_int_inlines.hh:1389) -/
-- [t2:sub_2exp_signed_int]
def t2_sub_2exp_signed_int (To_Policy : Policy) (From_Policy : Policy) (Ty : IntTy) (to : Int) (x : Int) (exp : Nat) (dir : Dir) : Int × Result :=
  if (!To_Policy.checkOverflow) then
    let to : Int := (x - (pow2 exp))
    (to, V_EQ)
  else
    if decide (exp ≥ Ty.bits) then
      t2_set_neg_overflow_int To_Policy Ty to dir
    else
      if (exp == (Ty.bits - 1)) then
        let n : Int := ((-2) * (pow2 (exp - 1)))
        t2_add_signed_int To_Policy From_Policy default Ty to x n dir
      else
        let n : Int := (pow2 exp)
        t2_sub_signed_int To_Policy From_Policy default Ty to x n dir
-- [end]

/-- generic `sub_2exp<..>` on native integers (the PPL_SPECIALIZE_SUB_2EXP table: by signedness) -/
def t2_sub_2exp (To_Policy : Policy) (From_Policy : Policy) (To : IntTy) (to : Int) (x : Int) (exp : Nat) (dir : Dir) : Int × Result :=
  if To.signed then t2_sub_2exp_signed_int To_Policy From_Policy To to x exp dir else t2_sub_2exp_unsigned_int To_Policy From_Policy To to x exp dir

/-- `mul_2exp_unsigned_int` (checked_int_inlines.hh:1410) -/
-- [t2:mul_2exp_unsigned_int]
def t2_mul_2exp_unsigned_int (To_Policy : Policy) (From_Policy : Policy) (Ty : IntTy) (to : Int) (x : Int) (exp : Nat) (dir : Dir) : Int × Result :=
  if (!To_Policy.checkOverflow) then
    let to : Int := (x * pow2 exp)
    (to, V_EQ)
  else
    if decide (exp ≥ Ty.bits) then
      if (x == 0) then
        let to : Int := 0
        (to, V_EQ)
      else
        t2_set_pos_overflow_int To_Policy Ty to dir
    else
      if decide (x > ((Ty.emax To_Policy) / pow2 exp)) then
        t2_set_pos_overflow_int To_Policy Ty to dir
      else
        let to : Int := (x * pow2 exp)
        (to, V_EQ)
-- [end]

/-- `mul_2exp_signed_int` (checked_int_inlines.hh:1432) -/
-- [t2:mul_2exp_signed_int]
def t2_mul_2exp_signed_int (To_Policy : Policy) (From_Policy : Policy) (Ty : IntTy) (to : Int) (x : Int) (exp : Nat) (dir : Dir) : Int × Result :=
  if decide (x < 0) then
    if (!To_Policy.checkOverflow) then
      let to : Int := (x * (pow2 exp))
      (to, V_EQ)
    else
      if decide (exp ≥ Ty.bits) then
        t2_set_neg_overflow_int To_Policy Ty to dir
      else
        let mask : Int := (T2.toU Ty ((T2.umax Ty) * pow2 ((Ty.bits - exp) - 1)))
        let ux : Int := T2.toU Ty x
        if ((T2.andHigh ux ((Ty.bits - exp) - 1)) != mask) then
          t2_set_neg_overflow_int To_Policy Ty to dir
        else
          let ux : Int := (T2.toU Ty (ux * pow2 exp))
          let n : Int := (T2.notS (T2.toS Ty (T2.notU Ty ux)))
          if decide (n < (Ty.emin To_Policy)) then
            t2_set_neg_overflow_int To_Policy Ty to dir
          else
            let to : Int := n
            (to, V_EQ)
  else
    if (!To_Policy.checkOverflow) then
      let to : Int := (x * pow2 exp)
      (to, V_EQ)
    else
      if decide (exp ≥ (Ty.bits - 1)) then
        if (x == 0) then
          let to : Int := 0
          (to, V_EQ)
        else
          t2_set_pos_overflow_int To_Policy Ty to dir
      else
        if decide (x > ((Ty.emax To_Policy) / pow2 exp)) then
          t2_set_pos_overflow_int To_Policy Ty to dir
        else
          let to : Int := (x * pow2 exp)
          (to, V_EQ)
-- [end]

/-- generic `mul_2exp<..>` on native integers (the PPL_SPECIALIZE_MUL_2EXP table: by signedness) -/
def t2_mul_2exp (To_Policy : Policy) (From_Policy : Policy) (To : IntTy) (to : Int) (x : Int) (exp : Nat) (dir : Dir) : Int × Result :=
  if To.signed then t2_mul_2exp_signed_int To_Policy From_Policy To to x exp dir else t2_mul_2exp_unsigned_int To_Policy From_Policy To to x exp dir

/-- `smod_2exp_unsigned_int` (checked_int_inlines.hh:1477) -/
-- [t2:smod_2exp_unsigned_int]
def t2_smod_2exp_unsigned_int (To_Policy : Policy) (From_Policy : Policy) (Ty : IntTy) (to : Int) (x : Int) (exp : Nat) (dir : Dir) : Int × Result :=
  if decide (exp > Ty.bits) then
    let to : Int := x
    (to, V_EQ)
  else
    let v : Int := (if (exp == Ty.bits) then x else (T2.andLow x (pow2 exp)))
    if decide (v ≥ (pow2 (exp - 1))) then
      t2_set_neg_overflow_int To_Policy Ty to dir
    else
      let to : Int := v
      (to, V_EQ)
-- [end]

/-- `smod_2exp_signed_int` (checked_int_inlines.hh:1496) -/
-- [t2:smod_2exp_signed_int]
def t2_smod_2exp_signed_int (To_Policy : Policy) (From_Policy : Policy) (Ty : IntTy) (to : Int) (x : Int) (exp : Nat) (_a4 : Dir) : Int × Result :=
  if decide (exp ≥ Ty.bits) then
    let to : Int := x
    (to, V_EQ)
  else
    let m : Int := (pow2 (exp - 1))
    let to : Int := ((T2.andLow x m) - (T2.andBit x m))
    (to, V_EQ)
-- [end]

/-- generic `smod_2exp<..>` on native integers (the PPL_SPECIALIZE_SMOD_2EXP table: by signedness) -/
def t2_smod_2exp (To_Policy : Policy) (From_Policy : Policy) (To : IntTy) (to : Int) (x : Int) (exp : Nat) (dir : Dir) : Int × Result :=
  if To.signed then t2_smod_2exp_signed_int To_Policy From_Policy To to x exp dir else t2_smod_2exp_unsigned_int To_Policy From_Policy To to x exp dir

/-- `umod_2exp_unsigned_int` (checked_int_inlines.hh:1510) -/
-- [t2:umod_2exp_unsigned_int]
def t2_umod_2exp_unsigned_int (To_Policy : Policy) (From_Policy : Policy) (Ty : IntTy) (to : Int) (x : Int) (exp : Nat) (_a4 : Dir) : Int × Result :=
  if decide (exp ≥ Ty.bits) then
    let to : Int := x
    (to, V_EQ)
  else
    let to : Int := (T2.andLow x (pow2 exp))
    (to, V_EQ)
-- [end]

/-- `umod_2exp_signed_int` (checked_int_inlines.hh:1523) -/
-- [t2:umod_2exp_signed_int]
def t2_umod_2exp_signed_int (To_Policy : Policy) (From_Policy : Policy) (Ty : IntTy) (to : Int) (x : Int) (exp : Nat) (dir : Dir) : Int × Result :=
  if decide (exp ≥ Ty.bits) then
    if decide (x < 0) then
      t2_set_pos_overflow_int To_Policy Ty to dir
    else
      let to : Int := x
      (to, V_EQ)
  else
    let v : Int := (T2.andLow x (pow2 exp))
    if decide (v > (Ty.emax To_Policy)) then
      t2_set_pos_overflow_int To_Policy Ty to dir
    else
      let to : Int := v
      (to, V_EQ)
-- [end]

/-- generic `umod_2exp<..>` on native integers (the PPL_SPECIALIZE_UMOD_2EXP table: by signedness) -/
def t2_umod_2exp (To_Policy : Policy) (From_Policy : Policy) (To : IntTy) (to : Int) (x : Int) (exp : Nat) (dir : Dir) : Int × Result :=
  if To.signed then t2_umod_2exp_signed_int To_Policy From_Policy To to x exp dir else t2_umod_2exp_unsigned_int To_Policy From_Policy To to x exp dir

/-- `abs_generic` (checked_inlines.hh:287) -/
-- [t2:abs_generic]
def t2_abs_generic (To_Policy : Policy) (From_Policy : Policy) (To : IntTy) (From : IntTy) (to : Int) (frm : Int) (dir : Dir) : Int × Result :=
  if decide (frm < 0) then
    t2_neg To_Policy From_Policy To to frm dir
  else
    t2_assign To_Policy From_Policy To From to frm dir
-- [end]

/-- generic `abs<..>` on native integers (the PPL_SPECIALIZE_ABS table: by signedness) -/
def t2_abs (To_Policy : Policy) (From_Policy : Policy) (To : IntTy) (to : Int) (x : Int) (dir : Dir) : Int × Result :=
  if To.signed then t2_abs_generic To_Policy From_Policy To To to x dir else t2_assign_unsigned_int_unsigned_int To_Policy From_Policy To To to x dir

/-- `sgn_generic` (checked_inlines.hh:451) -/
-- [t2:sgn_generic]
def t2_sgn_generic (P : Policy) (Ty : IntTy) (x : Int) : Rel :=
  if decide (x > 0) then
    Rel.GT
  else
    if (x == 0) then
      Rel.EQ
    else
      Rel.LT
-- [end]

/-- `cmp_generic` (checked_inlines.hh:638) -/
-- [t2:cmp_generic]
def t2_cmp_generic (P1 : Policy) (P2 : Policy) (Type1 : IntTy) (Type2 : IntTy) (x : Int) (y : Int) : Rel :=
  if decide (y < x) then
    Rel.GT
  else
    if decide (x < y) then
      Rel.LT
    else
      Rel.EQ
-- [end]

/-- `add_mul_int` (checked_int_inlines.hh:1589) -/
-- [t2:add_mul_int]
def t2_add_mul_int (To_Policy : Policy) (From1_Policy : Policy) (From2_Policy : Policy) (Ty : IntTy) (to : Int) (x : Int) (y : Int) (dir : Dir) : Int × Result :=
  let (z, r) := t2_mul To_Policy From1_Policy From2_Policy Ty 0 x y dir
  let z : Int := Ty.wrap z
  if (Result.resultOverflow r) == 0 then
    t2_add To_Policy To_Policy To_Policy Ty to to z dir
  else
    if (Result.resultOverflow r) == (-1) then
      if decide (to ≤ 0) then
        t2_set_neg_overflow_int To_Policy Ty to dir
      else
        if dir.roundUp then
          let to : Int := (to + (Ty.emin To_Policy))
          (to, V_LT)
        else
          t2_assign_nan To_Policy Ty to V_UNKNOWN_NEG_OVERFLOW
    else
      if (Result.resultOverflow r) == 1 then
        if decide (to ≥ 0) then
          t2_set_pos_overflow_int To_Policy Ty to dir
        else
          if dir.roundDown then
            let to : Int := (to + (Ty.emax To_Policy))
            (to, V_GT)
          else
            t2_assign_nan To_Policy Ty to V_UNKNOWN_POS_OVERFLOW
      else
        (to, V_NAN)
-- [end]

/-- `sub_mul_int` (checked_int_inlines.hh:1626) -/
-- [t2:sub_mul_int]
def t2_sub_mul_int (To_Policy : Policy) (From1_Policy : Policy) (From2_Policy : Policy) (Ty : IntTy) (to : Int) (x : Int) (y : Int) (dir : Dir) : Int × Result :=
  let (z, r) := t2_mul To_Policy From1_Policy From2_Policy Ty 0 x y dir
  let z : Int := Ty.wrap z
  if (Result.resultOverflow r) == 0 then
    t2_sub To_Policy To_Policy To_Policy Ty to to z dir
  else
    if (Result.resultOverflow r) == (-1) then
      if decide (to ≥ 0) then
        t2_set_pos_overflow_int To_Policy Ty to dir
      else
        if dir.roundDown then
          let to : Int := (to - (Ty.emin To_Policy))
          (to, V_GT)
        else
          t2_assign_nan To_Policy Ty to V_UNKNOWN_NEG_OVERFLOW
    else
      if (Result.resultOverflow r) == 1 then
        if (decide (to < 0) || ((to == 0) && decide (((Ty.emin To_Policy) + (Ty.emax To_Policy)) ≥ 0))) then
          t2_set_neg_overflow_int To_Policy Ty to dir
        else
          if (dir.roundUp && decide ((Ty.emin To_Policy) < 0)) then
            let to : Int := (to - (Ty.emax To_Policy))
            (to, V_LT)
          else
            t2_assign_nan To_Policy Ty to V_UNKNOWN_POS_OVERFLOW
      else
        (to, V_NAN)
-- [end]

/-- the functions translated in this run, in the order of emission -/
def translated : List String := ["set_neg_overflow_int", "set_pos_overflow_int", "round_lt_int_no_overflow", "round_gt_int_no_overflow", "round_lt_int", "round_gt_int", "classify_int", "is_nan_int", "is_minf_int", "is_pinf_int", "assign_special_int", "assign_nan", "assign_signed_int_signed_int", "assign_signed_int_unsigned_int", "assign_unsigned_int_signed_int", "assign_unsigned_int_unsigned_int", "neg_int_larger", "add_int_larger", "sub_int_larger", "mul_int_larger", "neg_signed_int", "neg_unsigned_int", "add_signed_int", "add_unsigned_int", "sub_signed_int", "sub_unsigned_int", "mul_signed_int", "mul_unsigned_int", "div_signed_int", "div_unsigned_int", "idiv_signed_int", "idiv_unsigned_int", "rem_signed_int", "rem_unsigned_int", "div_2exp_unsigned_int", "div_2exp_signed_int", "add_2exp_unsigned_int", "add_2exp_signed_int", "sub_2exp_unsigned_int", "sub_2exp_signed_int", "mul_2exp_unsigned_int", "mul_2exp_signed_int", "smod_2exp_unsigned_int", "smod_2exp_signed_int", "umod_2exp_unsigned_int", "umod_2exp_signed_int", "abs_generic", "sgn_generic", "cmp_generic", "add_mul_int", "sub_mul_int"]

end PPLV.Gen.T2
