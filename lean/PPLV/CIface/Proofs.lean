import PPLV.Gen.CIfaceTable
/-! C20 plumbing: a Boolean sweep over the chunks of the generated table gives `∀ f ∈ cEntryPoints`. -/
namespace PPLV.CIface
open PPLV.Gen

theorem forall_of_chunks (p : EntryPoint → Bool)
    (h : cEntryChunks.all (fun c => c.all p) = true) : ∀ f ∈ cEntryPoints, p f = true := by
  intro f hf
  unfold cEntryPoints at hf
  rcases List.mem_flatten.mp hf with ⟨c, hc, hfc⟩
  exact List.all_eq_true.mp (List.all_eq_true.mp h c hc) f hfc

end PPLV.CIface
