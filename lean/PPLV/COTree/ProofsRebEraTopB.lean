import PPLV.COTree.ProofsRebEraTopA
import PPLV.COTree.ProofsRebRoot

/-!
# C16 stage 2 — `erase(tree_iterator)` after the optional `rebuild_smaller_tree`
the hole sinks, `rebalance`, the search for the returned iterator
-/
namespace PPLV.COTree.EraTop
open PPLV.COTree PPLV.COTree.Tree

/-- the text of `eraseAt` after the optional `rebuild_smaller_tree` -/
def eraseTail (t : Tree) (itr : TIt) : Option (Tree × Option Nat) :=
  let deletedKey := t.keyAt itr.i
  let deletedNode := itr
  match eraseSink t t.maxDepth itr with
  | none => none
  | some (t, itr) =>
    let t := { t.setCell itr.i none with size := t.size - 1 }
    match rebalance t itr 0 0 with
    | none => none
    | some (t, itr) =>
      let itr := if itr.offset < deletedNode.offset then deletedNode else itr
      let itr := t.goDownSearchingKey deletedKey itr
      let res := if t.keyAt itr.i < deletedKey then nextKey t itr.i else some (t.keyAt itr.i)
      some (t, res)

theorem eraseAt_eq (t : Tree) (itr : TIt) (h1 : t.size ≠ 1) :
    eraseAt t itr =
      match (if eraseRebuilds t.size t.rs then rebuildSmallerTree t else some t) with
      | none => none
      | some t' => eraseTail t' (if eraseRebuilds t.size t.rs
          then t'.goDownSearchingKey (t.keyAt itr.i) t'.getRoot else itr) := by
  unfold eraseAt
  rw [if_neg h1]
  rfl


theorem isNode_of_rs {t t' : Tree} (e : t'.rs = t.rs) {a o : Nat} (h : t.IsNode a o) :
    t'.IsNode a o := by
  obtain ⟨h, m, ho, ha, hle⟩ := h
  exact ⟨h, m, ho, ha, by rw [e]; exact hle⟩

theorem self_in_range (e oe : Nat) : e - (oe - 1) ≤ e ∧ e ≤ e + (oe - 1) := by omega

/-- what the search for the returned iterator needs from the tree `t'` that `rebalance` returns
    with the node `(j, oj)`; `(i, o)` is the node that held the erased key -/
def StartOK (t' : Tree) (key i o j oj : Nat) : Prop :=
  ∃ si so, (if oj < o then (⟨i, o⟩ : TIt) else ⟨j, oj⟩) = ⟨si, so⟩ ∧ t'.IsNode si so ∧
    t'.isUnused si = false ∧ t'.Brackets (si - (so - 1)) (si + (so - 1)) key

/-- the end of `eraseTail`: the search on the final tree returns the successor of `key` -/
theorem tail_finish (hg : GoDownSpec) (t' : Tree) (key i o j oj : Nat) (m : SMap)
    (hs : t'.Shape) (hup : t'.UpClosed) (hm : SMap.Sorted m) (htl : t'.toList = SMap.erase m key)
    (hst : StartOK t' key i o j oj) :
    (let itr := if oj < o then (⟨i, o⟩ : TIt) else ⟨j, oj⟩
     let itr := t'.goDownSearchingKey key itr
     if t'.keyAt itr.i < key then nextKey t' itr.i else some (t'.keyAt itr.i))
      = SMap.next m key := by
  obtain ⟨si, so, est, hn, hu, hb⟩ := hst
  have hso' : SMap.Sorted t'.toList := by
    rw [htl]; exact SMap.Sorted.filter _ hm
  obtain ⟨g1, g2, -, -, -, g6⟩ := hg t' key si so hs hso' hup hn hu hb
  simp only
  rw [est]
  generalize t'.goDownSearchingKey key ⟨si, so⟩ = it at g1 g2 g6
  have hb' := g1.bounds hs
  have hne : t'.keyAt it.i ≠ key := by
    have hc := cell_eq_of_used g2
    have hmem : (t'.keyAt it.i, t'.valAt it.i) ∈ t'.toList :=
      (mem_listRange t' 1 (t'.rs + 1) _).2 ⟨it.i, by omega, by omega, hc⟩
    rw [htl] at hmem
    exact (mem_erase key m _ hmem).2
  rw [next_of_brackets t' key it.i hs (by omega) (by omega) g2 hne (g6 hne).1, htl]
  unfold SMap.next
  exact lowerBound_erase key m

theorem tail_spec (hg : GoDownSpec) (hsink : EraseSinkSpec) (hre : RebalanceEraseSpec)
    (T : Tree) (i o : Nat) (hs : T.Shape) (hso : SMap.Sorted T.toList) (hup : T.UpClosed)
    (hc : T.countRange 1 (T.rs + 1) = T.size) (h2 : 2 ≤ T.size)
    (hn : T.IsNode i o) (hu : T.isUnused i = false)
    (hroot : T.rs = 3 ∨ (7 ≤ T.rs ∧ rebalanceCond T.maxDepth (T.size - 1) T.rs 0 = false)) :
    ∃ t' r, eraseTail T ⟨i, o⟩ = some (t', r) ∧ t'.Shape ∧ t'.rs = T.rs ∧ t'.size = T.size - 1 ∧
      t'.toList = SMap.erase T.toList (T.keyAt i) ∧ t'.UpClosed ∧
      t'.countRange 1 (t'.rs + 1) = t'.size ∧ r = SMap.next T.toList (T.keyAt i) := by
  obtain ⟨t1, e, oe, hsk, hne, r1, r2, hne1, hne2, hrest⟩ := hsink T i o hs hso hup hn hu
  dsimp only at hrest
  obtain ⟨s2, rs2, md2, sz2, tl2, so2, up2, emp2, anc2, fr2, cnt2, ui2⟩ := hrest
  have hbi := hn.bounds hs
  obtain ⟨⟨ki, vi⟩, hci⟩ := (isUnused_false_iff T i).1 hu
  have hkey : T.keyAt i = ki := keyAt_of_cell hci
  -- keys of `T` outside the subtree of `i`
  have hsc := sorted_cells hso
  have hTl : ∀ p kv, 1 ≤ p → p < i → T.cell p = some kv → kv.1 < ki :=
    fun p kv a b c => hsc p i kv (ki, vi) a b (by omega) c hci
  have hTr : ∀ p kv, i < p → p ≤ T.rs → T.cell p = some kv → ki < kv.1 :=
    fun p kv a b c => hsc i p (ki, vi) kv (by omega) a b hci c
  generalize hT3 : ({ t1.setCell e none with size := t1.size - 1 } : Tree) = T3
  have c0 : ∀ p, T3.cell p = (t1.setCell e none).cell p := by intro p; rw [← hT3]; rfl
  have q1 : T3.rs = T.rs := by rw [← hT3]; exact rs2
  have q2 : T3.maxDepth = T.maxDepth := by rw [← hT3]; exact md2
  have q3 : T3.size = T.size - 1 := by
    rw [← hT3]; show t1.size - 1 = T.size - 1
    have : t1.size = T.size := sz2
    rw [this]
  have q4 : T3.Shape := by rw [← hT3]; exact s2
  have q5 : T3.toList = SMap.erase T.toList (T.keyAt i) := by rw [← hT3]; exact tl2
  have q6 : SMap.Sorted T3.toList := by rw [← hT3]; exact so2
  have q7 : T3.UpClosed := by rw [← hT3]; exact up2
  have q8 : T3.countRange 1 (T3.rs + 1) = T3.size := by
    have : T3.countRange 1 (T3.rs + 1) + 1 = T.countRange 1 (T.rs + 1) := by
      rw [← hT3]; exact cnt2
    omega
  have q9 : T3.IsNode e oe := by rw [← hT3]; exact hne
  have hreb : ∃ t' j oj, rebalance T3 ⟨e, oe⟩ 0 0 = some (t', ⟨j, oj⟩) ∧ t'.Shape ∧ t'.rs = T.rs ∧
      t'.size = T.size - 1 ∧ t'.toList = T3.toList ∧ t'.UpClosed ∧
      t'.countRange 1 (t'.rs + 1) = t'.size ∧ StartOK t' ki i o j oj := by
    rcases hroot with h3 | ⟨h7, hrc⟩
    · refine ⟨T3, T3.rs / 2 + 1, T3.rs / 2 + 1, ?_, q4, q1, q3, rfl, q7, q8, ?_⟩
      · unfold rebalance
        rw [if_pos (by rw [q1]; exact h3)]
        rfl
      · refine ⟨T3.rs / 2 + 1, T3.rs / 2 + 1, ?_, IsNode.root q4, ?_, root_brackets T3 q4 ki⟩
        · rw [if_neg (by rw [q1]; omega)]
        · exact root_used T3 q4 q7 (by omega)
    · obtain ⟨t', j, oj, hrb, s', rs', md', sz', tl', up', cnt', nj, hlt, c1, c2, uj, fr', -⟩ :=
        hre T3 e oe q4 (by omega) q6 q7 q9
          (by intro p a b; rw [c0]; exact emp2 p a b)
          (by
            intro j oj a b c d
            have : (t1.setCell e none).IsNode j oj := isNode_of_rs (by rw [← hT3]) a
            have := anc2 j oj this b c d
            unfold Tree.isUnused at this ⊢
            rw [c0]; exact this)
          q8 (by omega) (by rw [q2, q3, q1]; exact hrc)
      refine ⟨t', j, oj, hrb, s', by omega, by omega, tl', up', by omega, ?_⟩
      have hni : t'.IsNode i o := isNode_of_rs (by omega) hn
      obtain ⟨ee1, ee2⟩ := self_in_range e oe
      -- cells of `t'` outside the subtrees of `j` and of `i` are those of `T`
      have hcell : ∀ p, (p < j - (oj - 1) ∨ j + (oj - 1) < p) → (p < i - (o - 1) ∨ i + (o - 1) < p) →
          t'.cell p = T.cell p := by
        intro p a b
        rw [fr' p a, c0, fr2 p b]
      by_cases hjo : oj < o
      · obtain ⟨l1, l2⟩ := IsNode.laminar nj hni (by omega) (e := e) (by omega) (by omega)
          (by omega) (by omega)
        have hout : i < j - (oj - 1) ∨ j + (oj - 1) < i := by
          by_cases hx : j - (oj - 1) ≤ i ∧ i ≤ j + (oj - 1)
          · exact (IsNode.not_in_smaller nj hni hjo hx.1 hx.2).elim
          · omega
        refine ⟨i, o, by rw [if_pos hjo], hni, ?_, ?_, ?_⟩
        · have hei : e ≠ i := by
            intro h; have := hne2 h; omega
          have := ui2 hei
          unfold Tree.isUnused at this ⊢
          rw [fr' i hout, c0]; exact this
        · intro p kv a b c
          rw [hcell p (by omega) (by omega)] at c
          exact hTl p kv a (by omega) c
        · intro p kv a b c
          rw [hcell p (by omega) (by omega)] at c
          exact hTr p kv (by omega) (by omega) c
      · obtain ⟨l1, l2⟩ := IsNode.laminar hni nj (by omega) (e := e) (by omega) (by omega)
          (by omega) (by omega)
        refine ⟨j, oj, by rw [if_neg hjo], nj, uj, ?_, ?_⟩
        · intro p kv a b c
          rw [hcell p (by omega) (by omega)] at c
          exact hTl p kv a (by omega) c
        · intro p kv a b c
          rw [hcell p (by omega) (by omega)] at c
          exact hTr p kv (by omega) (by omega) c
  obtain ⟨t', j, oj, hrb, s', rs', sz', tl', up', cnt', hst⟩ := hreb
  refine ⟨t', ?r, ?h, s', rs', sz', by rw [tl', q5], up', cnt', ?g⟩
  case h =>
    unfold eraseTail
    simp only [hsk, hT3, hrb]
    rfl
  case g =>
    rw [hkey]
    exact tail_finish hg t' ki i o j oj T.toList s' up' hso (by rw [tl', q5, hkey]) hst

end PPLV.COTree.EraTop
