import PPLV.COTree.ProofsRebNav

/-!
# C16 stage 2 — the `while` of `CO_Tree::rebalance` stops at the latest at the root

`walkSpecA : WalkSpecA`.  Plain `WalkSpec` (without the hypothesis that the proper ancestors of
the start node are used) is false: `walkSpec_false`.  No Mathlib.
-/
namespace PPLV.COTree

open Tree

/-! ## unfolding the loop -/

theorem rebalanceLoop_zero (t : Tree) (itr : TIt) (s r : Nat) :
    rebalanceLoop t 0 itr s r =
      if rebalanceCond t.maxDepth s r 0 then none else some (itr, s) := rfl

theorem rebalanceLoop_succ_false (t : Tree) (d : Nat) (itr : TIt) (s r : Nat)
    (hc : rebalanceCond t.maxDepth s r (d + 1) = false) :
    rebalanceLoop t (d + 1) itr s r = some (itr, s) := by
  simp [rebalanceLoop, hc]

theorem rebalanceLoop_succ_true (t : Tree) (d : Nat) (itr : TIt) (s r : Nat)
    (hc : rebalanceCond t.maxDepth s r (d + 1) = true) :
    rebalanceLoop t (d + 1) itr s r =
      rebalanceLoop t d
        ((if t.isRightChild itr then itr.getParent.getLeftChild else itr.getParent.getRightChild).getParent)
        (s + t.countUsedInSubtree
              (if t.isRightChild itr then itr.getParent.getLeftChild else itr.getParent.getRightChild)
          + 1)
        (2 * r + 1) := by
  simp [rebalanceLoop, hc]

/-! ## the thresholds lie between 1 and 100 percent -/

/-- a subtree whose density is within the thresholds of its depth holds between 1 and
    `subtree_reserved_size` elements -/
theorem rebalanceCond_false_bounds (md n res d : Nat) (_hmd : 2 ≤ md) (hd : d ≤ md - 1)
    (hres : 1 ≤ res) (hc : rebalanceCond md n res d = false) : 1 ≤ n ∧ n ≤ res := by
  have h9 : d * (100 - maxDensityPercent) / (md - 1) ≤ 9 := by
    apply Nat.div_le_of_le_mul
    have := Nat.mul_le_mul_right 9 hd
    simp only [maxDensityPercent]; omega
  have h37 : d * (minDensityPercent - minLeafDensityPercent) / (md - 1) ≤ 37 := by
    apply Nat.div_le_of_le_mul
    have := Nat.mul_le_mul_right 37 hd
    simp only [minDensityPercent, minLeafDensityPercent]; omega
  simp only [rebalanceCond, Bool.or_eq_false_iff] at hc
  obtain ⟨hc1, hc2⟩ := hc
  have hc1' : ¬ isGreaterThanRatio n res
      (maxDensityPercent + d * (100 - maxDensityPercent) / (md - 1)) = true := by simp [hc1]
  have hc2' : ¬ isLessThanRatio n res
      (minDensityPercent - d * (minDensityPercent - minLeafDensityPercent) / (md - 1)) = true := by
    simp [hc2]
  rw [isGreaterThanRatio_iff] at hc1'
  rw [isLessThanRatio_iff] at hc2'
  generalize d * (100 - maxDensityPercent) / (md - 1) = x at h9 hc1'
  generalize d * (minDensityPercent - minLeafDensityPercent) / (md - 1) = y at h37 hc2'
  simp only [maxDensityPercent, minDensityPercent] at hc1' hc2'
  have hA : (91 + x) * res ≤ 100 * res := Nat.mul_le_mul_right res (by omega)
  have hB : 1 * res ≤ (38 - y) * res := Nat.mul_le_mul_right res (by omega)
  omega

/-! ## the loop invariant -/

/-- the walk from the node `(i, o)`, `o = 2^h`, at depth-1 `d = maxDepth - h - 1` -/
theorem walk_aux (t : Tree) (extra : Nat) (hs : t.Shape)
    (hroot : rebalanceCond t.maxDepth (t.countRange 1 (t.rs + 1) + extra) t.rs 0 = false) :
    ∀ (d i o h : Nat), t.IsNode i o → o = 2 ^ h → d + h + 1 = t.maxDepth →
      (∀ j oj, t.IsNode j oj → j - (oj - 1) ≤ i - (o - 1) → i + (o - 1) ≤ j + (oj - 1) → o < oj →
          t.isUnused j = false) →
      ∃ j oj n, rebalanceLoop t d ⟨i, o⟩ (t.countRange (i - (o - 1)) (i + o) + extra) (2 * o - 1)
                  = some (⟨j, oj⟩, n) ∧
        t.IsNode j oj ∧ j - (oj - 1) ≤ i - (o - 1) ∧ i + (o - 1) ≤ j + (oj - 1) ∧
        n = t.countRange (j - (oj - 1)) (j + oj) + extra ∧
        rebalanceCond t.maxDepth n (2 * oj - 1) (t.depth ⟨j, oj⟩ - 1) = false ∧
        (rebalanceCond t.maxDepth (t.countRange (i - (o - 1)) (i + o) + extra) (2 * o - 1) d = true →
          o < oj) := by
  intro d
  induction d with
  | zero =>
    intro i o h hn ho hd _
    have hdep := (depth_node hs ho hn).1
    have hrp := hs.root_pow
    have ho' : o = t.rs / 2 + 1 := by
      rw [hrp, ho]; congr 1; omega
    have hi' := hn.eq_root hs ho'
    have hodd := hs.rs_odd
    have e1 : i - (o - 1) = 1 := by omega
    have e2 : i + o = t.rs + 1 := by omega
    have e3 : 2 * o - 1 = t.rs := by omega
    refine ⟨i, o, t.countRange (i - (o - 1)) (i + o) + extra, ?_, hn, Nat.le_refl _, Nat.le_refl _,
      rfl, ?_, ?_⟩
    · rw [rebalanceLoop_zero, e1, e2, e3, hroot]; rfl
    · have : t.depth ⟨i, o⟩ - 1 = 0 := by omega
      rw [this, e1, e2, e3]; exact hroot
    · rw [e1, e2, e3, hroot]; intro hh; cases hh
  | succ d ih =>
    intro i o h hn ho hd hanc
    have hdep := (depth_node hs ho hn).1
    cases hc : rebalanceCond t.maxDepth (t.countRange (i - (o - 1)) (i + o) + extra) (2 * o - 1) (d + 1) with
    | false =>
      refine ⟨i, o, t.countRange (i - (o - 1)) (i + o) + extra, ?_, hn, Nat.le_refl _, Nat.le_refl _,
        rfl, ?_, ?_⟩
      · exact rebalanceLoop_succ_false t d ⟨i, o⟩ _ _ hc
      · have : t.depth ⟨i, o⟩ - 1 = d + 1 := by omega
        rw [this]; exact hc
      · intro hh; cases hh
    | true =>
      have hb := hn.bounds hs
      -- not the root
      have hrp := hs.root_pow
      have hne : o ≠ t.rs / 2 + 1 := by
        intro heq
        rw [hrp, ho] at heq
        have h1 := (Nat.pow_le_pow_iff_right (by decide : 1 < 2)).mp (Nat.le_of_eq heq.symm)
        omega
      obtain ⟨h', m, a, b, ho2, _, him, _, _, _, _, _, hopos, _⟩ := hn.lin hs
      have hpar := hn.parent hs hne
      have ho2x : 2 * o = 2 ^ (h + 1) := by rw [ho, Nat.pow_succ']
      rw [rebalanceLoop_succ_true t d ⟨i, o⟩ _ _ hc]
      rcases Nat.mod_two_eq_zero_or_one m with hm | hm
      · -- `(i, o)` is a left child
        have hrc : t.isRightChild ⟨i, o⟩ = false := by
          cases hx : t.isRightChild ⟨i, o⟩ with
          | false => rfl
          | true => have := (isRightChild_iff hopos him hne).mp hx; omega
        obtain ⟨s1, s2, s3⟩ := step_left hopos him hm
        rw [s1] at hpar
        rw [s2] at s3
        simp only [hrc, Bool.false_eq_true, if_false, s2, s3]
        have hused : t.isUnused (i + o) = false :=
          hanc (i + o) (2 * o) hpar.1 (by omega) (by omega) (by omega)
        have hcnt := countRange_parent_left t i o hopos hb.2.1
        rw [hused] at hcnt
        simp only [Bool.false_eq_true, if_false] at hcnt
        rw [countUsedInSubtree_eq t (i + 2 * o) o hopos (by omega)]
        have eS : t.countRange (i - (o - 1)) (i + o) + extra
              + t.countRange (i + 2 * o - (o - 1)) (i + 2 * o + o) + 1
            = t.countRange (i + o - (2 * o - 1)) (i + o + 2 * o) + extra := by omega
        have eR : 2 * (2 * o - 1) + 1 = 2 * (2 * o) - 1 := by omega
        rw [eS, eR]
        obtain ⟨j, oj, n, r1, r2, r3, r4, r5, r6, r7⟩ :=
          ih (i + o) (2 * o) (h + 1) hpar.1 ho2x (by omega)
            (fun j oj hj l1 l2 l3 => hanc j oj hj (by omega) (by omega) (by omega))
        have hbj := r2.bounds hs
        refine ⟨j, oj, n, r1, r2, by omega, by omega, r5, r6, fun _ => ?_⟩
        omega
      · -- `(i, o)` is a right child
        have hrc : t.isRightChild ⟨i, o⟩ = true := (isRightChild_iff hopos him hne).mpr hm
        obtain ⟨s1, s2, s3, hge⟩ := step_right hopos him hm
        rw [s1] at hpar
        rw [s2] at s3
        simp only [hrc, if_true, s2, s3]
        have hused : t.isUnused (i - o) = false :=
          hanc (i - o) (2 * o) hpar.1 (by omega) (by omega) (by omega)
        have hcnt := countRange_parent_right t i o hopos hge
        rw [hused] at hcnt
        simp only [Bool.false_eq_true, if_false] at hcnt
        rw [countUsedInSubtree_eq t (i - 2 * o) o hopos (by omega)]
        have eS : t.countRange (i - (o - 1)) (i + o) + extra
              + t.countRange (i - 2 * o - (o - 1)) (i - 2 * o + o) + 1
            = t.countRange (i - o - (2 * o - 1)) (i - o + 2 * o) + extra := by omega
        have eR : 2 * (2 * o - 1) + 1 = 2 * (2 * o) - 1 := by omega
        rw [eS, eR]
        obtain ⟨j, oj, n, r1, r2, r3, r4, r5, r6, r7⟩ :=
          ih (i - o) (2 * o) (h + 1) hpar.1 ho2x (by omega)
            (fun j oj hj l1 l2 l3 => hanc j oj hj (by omega) (by omega) (by omega))
        have hbj := r2.bounds hs
        refine ⟨j, oj, n, r1, r2, by omega, by omega, r5, r6, fun _ => ?_⟩
        omega

/-- **the `while` of `rebalance`** (`WalkSpecA` of `RebSpec.lean`) -/
theorem walkSpecA : WalkSpecA := by
  intro t i o extra hs hn _ hanc hroot
  obtain ⟨h, m, a, b, ho, hh, _, _, _, _, _, _, hopos, _⟩ := hn.lin hs
  have hdep := (depth_node hs ho hn).1
  have hd : t.depth ⟨i, o⟩ - 1 + h + 1 = t.maxDepth := by omega
  obtain ⟨j, oj, n, r1, r2, r3, r4, r5, r6, r7⟩ :=
    walk_aux t extra hs hroot (t.depth ⟨i, o⟩ - 1) i o h hn ho hd hanc
  obtain ⟨hj, mj, aj, bj, hoj, hhj, _, _, _, _, _, _, hojpos, _⟩ := r2.lin hs
  have hdepj := (depth_node hs hoj r2).1
  have hbnd := rebalanceCond_false_bounds t.maxDepth n (2 * oj - 1) (t.depth ⟨j, oj⟩ - 1)
    hs.2.1 (by omega) (by omega) r6
  refine ⟨j, oj, n, r1, r2, r3, r4, r5, hbnd.1, hbnd.2, r6, r7, ?_⟩
  have : t.maxDepth - (t.depth ⟨i, o⟩ - 1) = h + 1 := by omega
  rw [this, Nat.pow_succ', ← ho]

/-! ## plain `WalkSpec` is false: an unused ancestor is counted by `++subtree_size` -/

/-- 7 slots; the root (slot 4) and slot 2 are unused, slots 1, 3, 5, 6, 7 are used -/
def walkCex : Tree :=
  ⟨7, 3, 5, #[sentinel, some (1, 0), none, some (3, 0), none, some (5, 0), some (6, 0), some (7, 0),
    sentinel]⟩

theorem walkCex_shape : walkCex.Shape := by
  refine ⟨by decide, by decide, by decide, by decide, by decide⟩

theorem walkCex_root_ok :
    rebalanceCond walkCex.maxDepth (walkCex.countRange 1 (walkCex.rs + 1) + 1) walkCex.rs 0 = false := by
  decide

/-- from the leaf `(1, 1)` with `extra = 1` the loop counts 2, 4, 8 and asks for the parent of
    the root although the whole tree (5 + 1 elements in 7 slots) is within the root thresholds -/
theorem walkCex_loop :
    rebalanceLoop walkCex (walkCex.depth ⟨1, 1⟩ - 1) ⟨1, 1⟩
      (walkCex.countRange (1 - (1 - 1)) (1 + 1) + 1) (2 * 1 - 1) = none := by
  decide

theorem walkSpec_false : ¬ WalkSpec := by
  intro hw
  obtain ⟨j, oj, n, h1, _⟩ :=
    hw walkCex 1 1 1 walkCex_shape ⟨0, 0, rfl, rfl, by decide⟩ (Nat.le_refl 1) walkCex_root_ok
  rw [walkCex_loop] at h1
  cases h1

end PPLV.COTree
