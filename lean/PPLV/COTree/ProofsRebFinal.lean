import PPLV.COTree.ProofsRebIns2
import PPLV.COTree.ProofsRebEra
import PPLV.COTree.ProofsRebRedist
import PPLV.COTree.ProofsRebBigger
import PPLV.COTree.ProofsRebSearch

/-!
# C16 stage 2 — `rebalance` (insertion, deletion) and `insert`, unconditionally

`rebalanceInsertSpec_of`, `rebalanceEraseSpec_of`, `insertSpec_of` with `redistSpec : RedistSpec`,
`biggerSpec : BiggerSpec`, `goDownSpec : GoDownSpec`.  No Mathlib.
-/
namespace PPLV.COTree

theorem rebalanceInsertSpec : RebalanceInsertSpec := rebalanceInsertSpec_of redistSpec

theorem rebalanceEraseSpec : RebalanceEraseSpec := rebalanceEraseSpec_of redistSpec

theorem insertSpec : InsertSpec := insertSpec_of redistSpec biggerSpec goDownSpec

end PPLV.COTree
