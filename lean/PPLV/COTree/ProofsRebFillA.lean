import PPLV.COTree.ProofsRebFillBasic
import Mathlib.Tactic.Ring

/-!
# C16 stage 2 — the stack loop of `move_data_from` / `CO_Tree(Iterator, n)` (`fillLoop`)

One entry `(n, op)` (`op ∈ {1,2,3}`) fills the subtree it is aimed at with the next `n` source
elements in the half/half layout, within `6n - 5` steps (`1` when `n = 0`), and leaves the iterator
at the root of that subtree.
-/
namespace PPLV.COTree.FillB

/-! ## parent of a child (private copies; `ProofsRebNav.lean` has the general navigation lemmas) -/

theorem parent_left (q m i : Nat) (hq : 0 < q) (hi : i = 2 * q * (2 * m + 1)) :
    TIt.getParent ⟨i - q, q⟩ = ⟨i, 2 * q⟩ := by
  have e1 : i - q = q * (4 * m + 1) := by
    have : i = q * (4 * m + 1) + q := by rw [hi]; ring
    omega
  have e2 : i - q - q = (q * 2) * (2 * m) := by
    have : i = (q * 2) * (2 * m) + q + q := by rw [hi]; ring
    omega
  have h1 : (i - q) / q % 2 = 1 := by
    rw [e1, Nat.mul_div_cancel_left _ hq]; omega
  have h2 : ¬ (i - q - q) / (q * 2) % 2 = 1 := by
    rw [e2, Nat.mul_div_cancel_left _ (by omega)]; omega
  simp only [TIt.getParent, h1, if_true, h2, if_false]
  have : 2 * q ≤ i := by
    have : i = 2 * q + 2 * q * (2 * m) := by rw [hi]; ring
    omega
  congr 1 <;> omega

theorem parent_right (q m i : Nat) (hq : 0 < q) (hi : i = 2 * q * (2 * m + 1)) :
    TIt.getParent ⟨i + q, q⟩ = ⟨i, 2 * q⟩ := by
  have e1 : i + q = q * (4 * m + 3) := by rw [hi]; ring
  have e2 : i + q - q = (q * 2) * (2 * m + 1) := by
    have : i = (q * 2) * (2 * m + 1) := by rw [hi]; ring
    omega
  have h1 : (i + q) / q % 2 = 1 := by
    rw [e1, Nat.mul_div_cancel_left _ hq]; omega
  have h2 : (i + q - q) / (q * 2) % 2 = 1 := by
    rw [e2, Nat.mul_div_cancel_left _ (by omega)]; omega
  simp only [TIt.getParent, h1, if_true, h2]
  congr 1 <;> omega

/-- popping `|l|` times from `s` yields the list `l` and ends in `s'` -/
def Delivers {σ : Type} (pop : σ → Option ((Nat × Int) × σ)) : σ → List (Nat × Int) → σ → Prop
  | s, [], s' => s = s'
  | s, kv :: l, s' => ∃ s1, pop s = some (kv, s1) ∧ Delivers pop s1 l s'

theorem delivers_append {σ : Type} (pop : σ → Option ((Nat × Int) × σ)) :
    ∀ (l1 l2 : List (Nat × Int)) (s s' : σ), Delivers pop s (l1 ++ l2) s' →
      ∃ s1, Delivers pop s l1 s1 ∧ Delivers pop s1 l2 s'
  | [], l2, s, s', h => ⟨s, rfl, h⟩
  | kv :: l1, l2, s, s', h => by
    obtain ⟨s1, h1, h2⟩ := h
    obtain ⟨s2, h3, h4⟩ := delivers_append pop l1 l2 s1 s' h2
    exact ⟨s2, ⟨s1, h1, h3⟩, h4⟩

/-- the first move of an entry: operation 1 / 2 = to the left / right child, 3 = stay -/
def mv (op : Nat) (root : TIt) : TIt :=
  if op = 1 then root.getLeftChild else if op = 2 then root.getRightChild else root

section steps
variable {σ : Type} (pop : σ → Option ((Nat × Int) × σ))

theorem fill_step_parent (f n : Nat) (stk : List (Nat × Nat)) (t : Tree) (root : TIt) (s : σ) :
    fillLoop pop (f + 1) ((n, 0) :: stk) t root s = fillLoop pop f stk t root.getParent s := by
  simp [fillLoop]

theorem fill_step_zero (f op : Nat) (hop : op ≠ 0) (stk : List (Nat × Nat)) (t : Tree) (root : TIt)
    (s : σ) :
    fillLoop pop (f + 1) ((0, op) :: stk) t root s = fillLoop pop f stk t (mv op root) s := by
  simp [fillLoop, hop, mv]

theorem fill_step_one (f op : Nat) (hop : op ≠ 0) (stk : List (Nat × Nat)) (t : Tree) (root : TIt)
    (s s1 : σ) (kv : Nat × Int) (hp : pop s = some (kv, s1)) :
    fillLoop pop (f + 1) ((1, op) :: stk) t root s =
      fillLoop pop f stk (t.setCell (mv op root).i (some kv)) (mv op root) s1 := by
  simp [fillLoop, hop, mv, hp]

theorem fill_step_expand (f n op : Nat) (hop : op ≠ 0) (hn : 2 ≤ n) (stk : List (Nat × Nat))
    (t : Tree) (root : TIt) (s : σ) :
    fillLoop pop (f + 1) ((n, op) :: stk) t root s =
      fillLoop pop f (((n + 1) / 2 - 1, 1) :: (0, 0) :: (1, 3) :: (n - (n + 1) / 2, 2) :: (n, 0) :: stk)
        t (mv op root) s := by
  have h0 : n ≠ 0 := by omega
  have h1 : n ≠ 1 := by omega
  simp [fillLoop, hop, mv, h0, h1]

end steps

/-! ## `Balanced` -/

theorem balanced_unfold (t : Tree) (h i n : Nat) : t.Balanced (h + 1) i n ↔
    ((n = 0 ∧ ∀ p, i - (2 ^ h - 1) ≤ p → p ≤ i + (2 ^ h - 1) → t.cell p = none) ∨
    (n ≠ 0 ∧ t.isUnused i = false ∧ t.Balanced h (i - 2 ^ h / 2) ((n + 1) / 2 - 1)
      ∧ t.Balanced h (i + 2 ^ h / 2) (n - (n + 1) / 2))) := by
  rw [Tree.Balanced]

theorem balanced_zero (t : Tree) (h j : Nat)
    (hn : ∀ p, j - (2 ^ (h - 1) - 1) ≤ p → p ≤ j + (2 ^ (h - 1) - 1) → t.cell p = none) :
    t.Balanced h j 0 := by
  cases h with
  | zero => rw [Tree.Balanced]
  | succ h => rw [balanced_unfold]; exact Or.inl ⟨rfl, hn⟩

/-- `Balanced` reads only the slots of the subtree -/
theorem balanced_congr (t t' : Tree) : ∀ (h j n : Nat),
    (∀ p, j - (2 ^ h - 1) ≤ p → p ≤ j + (2 ^ h - 1) → t'.cell p = t.cell p) →
    t.Balanced (h + 1) j n → t'.Balanced (h + 1) j n
  | 0, j, n, hc, hb => by
    rw [balanced_unfold] at hb ⊢
    rcases hb with ⟨h0, hnone⟩ | ⟨h0, hu, hl, hr⟩
    · exact Or.inl ⟨h0, fun p h1 h2 => by rw [hc p h1 h2]; exact hnone p h1 h2⟩
    · refine Or.inr ⟨h0, ?_, ?_, ?_⟩
      · unfold Tree.isUnused at *
        rw [hc j (by omega) (by omega)]; exact hu
      · rw [Tree.Balanced] at hl ⊢; exact hl
      · rw [Tree.Balanced] at hr ⊢; exact hr
  | h + 1, j, n, hc, hb => by
    rw [balanced_unfold] at hb ⊢
    have e : 2 ^ (h + 1) = 2 * 2 ^ h := by rw [Nat.pow_succ]; omega
    have hP : 1 ≤ 2 ^ h := Nat.one_le_two_pow
    have e2 : 2 ^ (h + 1) / 2 = 2 ^ h := by omega
    rw [e2] at hb ⊢
    rw [e] at hb hc ⊢
    rcases hb with ⟨h0, hnone⟩ | ⟨h0, hu, hl, hr⟩
    · exact Or.inl ⟨h0, fun p h1 h2 => by rw [hc p h1 h2]; exact hnone p h1 h2⟩
    · refine Or.inr ⟨h0, ?_, balanced_congr t t' h _ _ ?_ hl, balanced_congr t t' h _ _ ?_ hr⟩
      · unfold Tree.isUnused at *
        rw [hc j (by omega) (by omega)]; exact hu
      · intro p h1 h2; exact hc p (by omega) (by omega)
      · intro p h1 h2; exact hc p (by omega) (by omega)

end PPLV.COTree.FillB
