import PPLV.COTree.ProofsRowOnTree
import PPLV.COTree.ProofsRebHint

/-!
# C16 stage 3 — `SparseRowOnTreeSpec`, unconditionally
(`insertHintedSpec`, `insertHinted0Spec` from `ProofsRebHint.lean`)
-/
namespace PPLV.COTree

theorem sparseRowOnTreeSpec : SparseRowOnTreeSpec :=
  sparseRowOnTreeSpec_of insertHintedSpec insertHinted0Spec

end PPLV.COTree
