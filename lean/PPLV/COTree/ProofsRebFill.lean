import PPLV.COTree.ProofsRebFillB

/-!
# C16 stage 2 — `CO_Tree(Iterator, n)` and `move_data_from` / `rebuild_smaller_tree`:
`bulkSpec : BulkSpec`, `smallerSpec : SmallerSpec`
-/
namespace PPLV.COTree.FillB

theorem fillLoop_nil {σ : Type} (pop : σ → Option ((Nat × Int) × σ)) (f : Nat) (t : Tree) (r : TIt)
    (s : σ) : fillLoop pop f [] t r s = some (t, s) := by
  cases f <;> simp [fillLoop]

/-- the whole loop on the empty tree `init (2^k - 1)`: it terminates within the fuel `6n + 1` and
    builds the half/half layout of the delivered list -/
theorem fill_root {σ : Type} (pop : σ → Option ((Nat × Int) × σ)) (k n : Nat) (l : List (Nat × Int))
    (s s' : σ) (hk : 2 ≤ k) (hn1 : 1 ≤ n) (hn : n ≤ 2 ^ k - 1) (hlen : l.length = n)
    (hdel : Delivers pop s l s') :
    ∃ t1, fillLoop pop (6 * n + 1) [(n, 3)] (init (2 ^ k - 1)) (init (2 ^ k - 1)).getRoot s
        = some (t1, s') ∧
      ∀ t', t' = { t1 with size := n } →
        t'.Shape ∧ t'.rs = 2 ^ k - 1 ∧ t'.maxDepth = k ∧ t'.size = n ∧ t'.toList = l ∧
        t'.countRange 1 (t'.rs + 1) = n ∧ t'.Balanced t'.maxDepth (t'.rs / 2 + 1) n := by
  obtain ⟨hsh, hrs, hmd, hsz0, hnone⟩ := init_pow k hk
  obtain ⟨t0, ht0⟩ : ∃ t0, t0 = init (2 ^ k - 1) := ⟨_, rfl⟩
  rw [← ht0] at hsh hrs hmd hsz0 hnone ⊢
  obtain ⟨k1, hk1⟩ : ∃ k1, k = k1 + 1 := ⟨k - 1, by omega⟩
  obtain ⟨o, ho⟩ : ∃ o, o = 2 ^ k1 := ⟨_, rfl⟩
  have hpow : 2 ^ k = 2 * o := by rw [hk1, Nat.pow_succ, ho]; omega
  have hopos : 2 ≤ o := by
    have : 2 ^ 1 ≤ 2 ^ k1 := Nat.pow_le_pow_right (by omega) (by omega)
    omega
  have hroot : t0.getRoot = ⟨o, o⟩ := by
    unfold Tree.getRoot; rw [hrs]; congr 1 <;> omega
  obtain ⟨_, _, hcs, hc0, hcN⟩ := hsh
  obtain ⟨c, t1, _, hc, hrun, hfr, hlist, hbal⟩ :=
    fill_entry pop n k1 0 o o t0 t0.getRoot 3 l s s' (by omega) ho (by omega)
      (by rw [hroot]; simp [mv]) (by omega) (by omega)
      (fun p h1 h2 => hnone p (by omega) (by omega)) hlen hdel
  have hc' := hc (by omega)
  have e : 6 * n + 1 = (6 * n + 1 - c) + c := by omega
  refine ⟨t1, by rw [e, hrun, fillLoop_nil], ?_⟩
  intro t' ht'
  obtain ⟨f1, f2, f3, f4, f5⟩ := hfr
  have hcell : ∀ p, t'.cell p = t1.cell p := by intro p; rw [ht']; rfl
  have hrs' : t'.rs = 2 ^ k - 1 := by rw [ht']; show t1.rs = _; omega
  have hmd' : t'.maxDepth = k := by rw [ht']; show t1.maxDepth = _; omega
  have hcs' : t'.cells.size = t'.rs + 2 := by rw [hrs', ht']; show t1.cells.size = _; omega
  have hl' : t'.listRange 1 (t'.rs + 1) = l := by
    rw [← hlist, hrs']
    have a : o - (o - 1) = 1 := by omega
    have b : 2 ^ k - 1 + 1 = o + o := by omega
    rw [a, b]
    exact listRange_congr _ _ _ _ (fun p _ _ => hcell p)
  refine ⟨⟨by rw [hrs', hmd'], by omega, hcs', ?_, ?_⟩, hrs', hmd', by rw [ht'], hl', ?_, ?_⟩
  · rw [hcell, f5 0 (by omega)]; exact hc0
  · rw [hcell, hrs', f5 _ (by omega), ← hrs]; exact hcN
  · rw [countRange_eq_length, hl', hlen]
  · rw [hmd', hk1, hrs']
    have a : (2 ^ k - 1) / 2 + 1 = o := by omega
    rw [a]
    exact balanced_congr t1 t' k1 o n (fun p _ _ => hcell p) hbal

/-! ## the bulk constructor -/

theorem bulkRs_pow (n : Nat) (hn : n ≠ 0) : ∃ k, 2 ≤ k ∧ bulkRs n = 2 ^ k - 1 := by
  have hs := integerLog2_spec n n (by omega) (Nat.le_refl _)
  unfold bulkRs
  simp only [hn, if_false]
  generalize integerLog2 n n = g at hs ⊢
  cases g with
  | zero =>
    have h1 : n = 1 := by simp at hs; omega
    subst h1
    exact ⟨2, by omega, by simp [isGreaterThanRatio, maxDensityPercent]⟩
  | succ g =>
    split
    · refine ⟨g + 1 + 1 + 1, by omega, ?_⟩
      have : 1 ≤ 2 ^ (g + 1 + 1) := Nat.one_le_two_pow
      rw [Nat.pow_succ 2 (g + 1 + 1)]
      omega
    · exact ⟨g + 1 + 1, by omega, rfl⟩

theorem delivers_popList : ∀ l : List (Nat × Int), Delivers popList l l []
  | [] => rfl
  | _ :: l => ⟨l, rfl, delivers_popList l⟩

/-! ## the source of `move_data_from` -/

theorem skipUpAux_spec (t : Tree) : ∀ (f p : Nat),
    p ≤ t.skipUpAux f p ∧ t.skipUpAux f p ≤ p + f ∧
    (∀ x, p ≤ x → x < t.skipUpAux f p → t.cell x = none) ∧
    (t.skipUpAux f p < p + f → t.cell (t.skipUpAux f p) ≠ none)
  | 0, p => by
    unfold Tree.skipUpAux
    exact ⟨Nat.le_refl _, by omega, fun x h1 h2 => by omega, fun h => by omega⟩
  | f + 1, p => by
    unfold Tree.skipUpAux
    by_cases h : t.isUnused p = true
    · rw [if_pos h]
      obtain ⟨a, b, c, d⟩ := skipUpAux_spec t f (p + 1)
      refine ⟨by omega, by omega, ?_, fun hh => d (by omega)⟩
      intro x h1 h2
      by_cases hx : x = p
      · subst hx
        unfold Tree.isUnused at h
        exact Option.isNone_iff_eq_none.mp h
      · exact c x (by omega) h2
    · rw [if_neg h]
      refine ⟨Nat.le_refl _, by omega, fun x h1 h2 => by omega, fun _ hc => h ?_⟩
      unfold Tree.isUnused; rw [hc]; rfl

theorem skipUp_spec (t : Tree) (p : Nat) (hp : p ≤ t.rs + 1) (hN : t.cell (t.rs + 1) ≠ none) :
    p ≤ t.skipUp p ∧ t.skipUp p ≤ t.rs + 1 ∧
    (∀ x, p ≤ x → x < t.skipUp p → t.cell x = none) ∧ t.cell (t.skipUp p) ≠ none := by
  unfold Tree.skipUp
  obtain ⟨a, b, c, d⟩ := skipUpAux_spec t (t.rs + 1 - p) p
  refine ⟨a, by omega, c, ?_⟩
  by_cases h : t.skipUpAux (t.rs + 1 - p) p < p + (t.rs + 1 - p)
  · exact d h
  · have : t.skipUpAux (t.rs + 1 - p) p = t.rs + 1 := by omega
    rw [this]; exact hN

/-- from a used slot `idx` on, `popTree` delivers the remaining elements of the source in slot order -/
theorem delivers_popTree : ∀ (d : Nat) (src : Tree) (idx : Nat), src.rs + 1 - idx = d →
    idx ≤ src.rs + 1 → src.cells.size = src.rs + 2 → src.cell (src.rs + 1) ≠ none →
    src.cell idx ≠ none →
    ∃ s', Delivers popTree (src, idx) (src.listRange idx (src.rs + 1)) s' := by
  intro d
  induction d using Nat.strongRecOn with
  | _ d ih =>
  intro src idx hd hidx hcs hN hused
  by_cases hend : idx = src.rs + 1
  · rw [listRange_empty _ _ _ (by omega)]
    exact ⟨_, rfl⟩
  · obtain ⟨kv, hkv⟩ : ∃ kv, src.cell idx = some kv := Option.ne_none_iff_exists'.mp hused
    obtain ⟨src', hsrc'⟩ : ∃ src', src' = src.setCell idx none := ⟨_, rfl⟩
    have hrs' : src'.rs = src.rs := by rw [hsrc']; rfl
    have hcs' : src'.cells.size = src'.rs + 2 := by rw [hrs', hsrc']; simp; exact hcs
    have hcell' : ∀ p, p ≠ idx → src'.cell p = src.cell p := by
      intro p hp; rw [hsrc', cell_setCell_ne _ _ _ _ (by omega)]
    have hN' : src'.cell (src'.rs + 1) ≠ none := by
      rw [hrs', hcell' _ (by omega)]; exact hN
    obtain ⟨a, b, c, e⟩ := skipUp_spec src' (idx + 1) (by omega) hN'
    obtain ⟨idx', hidx'⟩ : ∃ idx', idx' = src'.skipUp (idx + 1) := ⟨_, rfl⟩
    rw [← hidx'] at a b c e
    obtain ⟨s', hs'⟩ := ih (src'.rs + 1 - idx') (by omega) src' idx' rfl b hcs' hN' e
    have hlist : src.listRange idx (src.rs + 1) = kv :: src'.listRange idx' (src'.rs + 1) := by
      rw [listRange_split _ idx (idx + 1) _ (by omega) (by omega), listRange_one, hkv, hrs',
        ← listRange_congr src src' (idx + 1) _ (fun p h1 _ => hcell' p (by omega)),
        listRange_split src' (idx + 1) idx' _ a (by omega),
        listRange_none src' (idx + 1) idx' c]
      rfl
    rw [hlist]
    refine ⟨s', (src', idx'), ?_, hs'⟩
    unfold popTree
    simp only [hkv]
    rw [← hsrc', ← hidx']

end PPLV.COTree.FillB

namespace PPLV.COTree
open FillB

theorem bulkSpec : BulkSpec := by
  intro l hl
  have hn : l.length ≠ 0 := by
    intro h; exact hl (List.length_eq_zero_iff.mp h)
  obtain ⟨k, hk, hrs⟩ := bulkRs_pow l.length hn
  have hfit := (bulk_density_ok l.length).2
  obtain ⟨t1, hrun, hpost⟩ := fill_root popList k l.length l l [] hk (by omega) (by omega) rfl
    (delivers_popList l)
  obtain ⟨h1, h2, h3, h4, h5, h6, h7⟩ := hpost _ rfl
  refine ⟨{ t1 with size := l.length }, ?_, h1, by rw [h2, hrs], h4, h5, h6, h7⟩
  unfold bulk
  simp only [hn, if_false]
  rw [hrs, hrun]

theorem smallerSpec : SmallerSpec := by
  intro t hsh h7 hcount h1 hfit
  obtain ⟨hrs, hmd, hcs, hc0, hcN⟩ := hsh
  obtain ⟨k1, hk1⟩ : ∃ k1, t.maxDepth = k1 + 1 := ⟨t.maxDepth - 1, by omega⟩
  have hpow : 2 ^ t.maxDepth = 2 * 2 ^ k1 := by rw [hk1, Nat.pow_succ]; omega
  have hk : 2 ≤ k1 := by
    rcases Nat.lt_or_ge k1 2 with h | h
    · have : 2 ^ k1 ≤ 2 ^ 1 := Nat.pow_le_pow_right (by omega) (by omega)
      omega
    · exact h
  have hhalf : t.rs / 2 = 2 ^ k1 - 1 := by
    have : 1 ≤ 2 ^ k1 := Nat.one_le_two_pow
    omega
  have hN : t.cell (t.rs + 1) ≠ none := by rw [hcN]; simp [sentinel]
  obtain ⟨a, b, c, e⟩ := skipUp_spec t 1 (by omega) hN
  obtain ⟨s', hdel⟩ := delivers_popTree _ t (t.skipUp 1) rfl b hcs hN e
  have hlist : t.listRange (t.skipUp 1) (t.rs + 1) = t.toList := by
    unfold Tree.toList
    rw [listRange_split t 1 (t.skipUp 1) _ a b, listRange_none t 1 _ c]
    rfl
  rw [hlist] at hdel
  have hlen : t.toList.length = t.size := by
    unfold Tree.toList
    rw [← countRange_eq_length, hcount]
  obtain ⟨t1, hrun, hpost⟩ := fill_root popTree k1 t.size t.toList (t, t.skipUp 1) s' hk h1
    (by omega) hlen hdel
  obtain ⟨p1, p2, p3, p4, p5, p6, p7⟩ := hpost _ rfl
  refine ⟨{ t1 with size := t.size }, ?_, p1, by rw [p2, hhalf], by rw [p3]; omega, p4, p5, p6, p7⟩
  unfold rebuildSmallerTree moveDataFrom
  have hs0 : t.size ≠ 0 := by omega
  rw [if_neg hs0, hhalf, hrun]

end PPLV.COTree
