import PPLV.COTree.ProofsRebFillBasic

/-!
# C16 stage 2 — `rebuild_bigger_tree` (CO_Tree.cc:830-877): `biggerSpec : BiggerSpec`
-/
namespace PPLV.COTree.FillB
open Tree

theorem rebuildBiggerLoop_size (old : Tree) : ∀ (f i j : Nat) (nw : Array Cell),
    (rebuildBiggerLoop old f i j nw).size = nw.size
  | 0, _, _, _ => rfl
  | f + 1, i, j, nw => by
    unfold rebuildBiggerLoop
    simp only []
    rw [rebuildBiggerLoop_size old f]
    simp

/-- closed form of the array written by the copy loop -/
theorem rebuildBiggerLoop_get (old : Tree) : ∀ (f i j : Nat) (nw : Array Cell) (q : Nat),
    j + 2 * f ≤ nw.size →
    (rebuildBiggerLoop old f i j nw)[q]?.getD none =
      if j ≤ q ∧ q < j + 2 * f then (if (q - j) % 2 = 0 then old.cell (i + (q - j) / 2) else none)
      else nw[q]?.getD none
  | 0, i, j, nw, q, _ => by
    unfold rebuildBiggerLoop
    have : ¬ (j ≤ q ∧ q < j + 2 * 0) := by omega
    rw [if_neg this]
  | f + 1, i, j, nw, q, hsz => by
    unfold rebuildBiggerLoop
    simp only []
    rw [rebuildBiggerLoop_get old f (i + 1) (j + 1 + 1) _ q (by simp; omega)]
    simp only [Array.getElem?_setIfInBounds, Array.size_setIfInBounds]
    by_cases h1 : q = j
    · subst h1
      have a : ¬ (q + 1 + 1 ≤ q ∧ q < q + 1 + 1 + 2 * f) := by omega
      have b : (q ≤ q ∧ q < q + 2 * (f + 1)) := by omega
      have c : ¬ (q + 1 = q) := by omega
      have d : q < nw.size := by omega
      rw [if_neg a, if_pos b]
      simp [d]
    · by_cases h2 : q = j + 1
      · subst h2
        have a : ¬ (j + 1 + 1 ≤ j + 1 ∧ j + 1 < j + 1 + 1 + 2 * f) := by omega
        have b : (j ≤ j + 1 ∧ j + 1 < j + 2 * (f + 1)) := by omega
        have d : j + 1 < nw.size := by omega
        have e : (j + 1 - j) % 2 ≠ 0 := by omega
        rw [if_neg a, if_pos b, if_neg e]
        simp [d]
      · have c : ¬ (j + 1 = q) := by omega
        have c' : ¬ (j = q) := by omega
        simp only [c, c', if_false]
        by_cases h3 : j + 1 + 1 ≤ q ∧ q < j + 1 + 1 + 2 * f
        · have b : (j ≤ q ∧ q < j + 2 * (f + 1)) := by omega
          rw [if_pos h3, if_pos b]
          have e1 : (q - (j + 1 + 1)) % 2 = (q - j) % 2 := by omega
          have e2 : i + 1 + (q - (j + 1 + 1)) / 2 = i + (q - j) / 2 := by omega
          rw [e1, e2]
        · have b : ¬ (j ≤ q ∧ q < j + 2 * (f + 1)) := by omega
          rw [if_neg h3, if_neg b]

/-- closed form of the cells of the bigger tree -/
theorem rebuildBiggerTree_cell (t : Tree) (hrs : t.rs ≠ 0) (q : Nat) :
    (rebuildBiggerTree t).cell q =
      if q = 0 ∨ q = 2 * t.rs + 2 then sentinel
      else if q % 2 = 0 ∧ q ≤ 2 * t.rs then t.cell (q / 2) else none := by
  unfold rebuildBiggerTree
  rw [if_neg hrs]
  rw [cell_eq]
  simp only [Array.getElem?_setIfInBounds, Array.size_setIfInBounds, rebuildBiggerLoop_size,
    Array.size_replicate]
  by_cases h0 : q = 0
  · subst h0
    simp
  · by_cases h1 : q = 2 * t.rs + 2
    · subst h1
      have e : t.rs * 2 = 2 * t.rs := by omega
      simp [e]
    · have a : ¬ (t.rs * 2 + 1 + 1 = q) := by omega
      have b : ¬ (0 = q) := by omega
      have c : ¬ (q = 0 ∨ q = 2 * t.rs + 2) := by omega
      simp only [a, b, c, if_false]
      rw [rebuildBiggerLoop_get t t.rs 1 2 _ q (by simp; omega)]
      by_cases h2 : 2 ≤ q ∧ q < 2 + 2 * t.rs
      · rw [if_pos h2]
        by_cases h3 : q % 2 = 0
        · have d : (q - 2) % 2 = 0 := by omega
          have e : q % 2 = 0 ∧ q ≤ 2 * t.rs := by omega
          have g : 1 + (q - 2) / 2 = q / 2 := by omega
          rw [if_pos d, if_pos e, g]
        · have d : ¬ (q - 2) % 2 = 0 := by omega
          have e : ¬ (q % 2 = 0 ∧ q ≤ 2 * t.rs) := by omega
          rw [if_neg d, if_neg e]
      · rw [if_neg h2]
        have e : ¬ (q % 2 = 0 ∧ q ≤ 2 * t.rs) := by omega
        rw [if_neg e]
        simp only [Array.getElem?_setIfInBounds, Array.getElem?_replicate]
        split <;> split <;> simp

theorem rebuildBiggerTree_fields (t : Tree) (hrs : t.rs ≠ 0) :
    (rebuildBiggerTree t).rs = 2 * t.rs + 1 ∧ (rebuildBiggerTree t).maxDepth = t.maxDepth + 1 ∧
    (rebuildBiggerTree t).size = t.size ∧ (rebuildBiggerTree t).cells.size = 2 * t.rs + 3 := by
  unfold rebuildBiggerTree
  rw [if_neg hrs]
  refine ⟨by simp only []; omega, rfl, rfl, ?_⟩
  simp only [Array.size_setIfInBounds, rebuildBiggerLoop_size, Array.size_replicate]
  omega

/-- node `(i, o)` of the old tree is node `(2i, 2o)` of the new one, and so is its parent -/
theorem getParent_double (i o : Nat) :
    TIt.getParent ⟨2 * i, 2 * o⟩ =
      ⟨2 * (TIt.getParent ⟨i, o⟩).i, 2 * (TIt.getParent ⟨i, o⟩).offset⟩ := by
  unfold TIt.getParent
  simp only []
  have e1 : 2 * i / (2 * o) = i / o := Nat.mul_div_mul_left _ _ (by omega)
  rw [e1]
  have e2 : (if i / o % 2 = 1 then 2 * i - 2 * o else 2 * i) =
      2 * (if i / o % 2 = 1 then i - o else i) := by
    split <;> omega
  rw [e2]
  generalize (if i / o % 2 = 1 then i - o else i) = i1
  have e3 : 2 * i1 / (2 * o * 2) = i1 / (o * 2) := by
    rw [Nat.mul_assoc]
    exact Nat.mul_div_mul_left _ _ (by omega)
  rw [e3]
  by_cases h : i1 / (o * 2) % 2 = 1
  · simp only [h, if_true]
    congr 1
    omega
  · simp only [h, if_false]
    congr 1 <;> omega

theorem bigger_listRange (t : Tree) (hrs : t.rs ≠ 0) : ∀ b, b ≤ t.rs →
    (rebuildBiggerTree t).listRange 1 (2 * b + 2) = t.listRange 1 (b + 1)
  | 0, _ => by
    rw [listRange_one, rebuildBiggerTree_cell t hrs, listRange_empty t 1 1 (by omega)]
    have a : ¬ (1 = 0 ∨ 1 = 2 * t.rs + 2) := by omega
    have b : ¬ (1 % 2 = 0 ∧ 1 ≤ 2 * t.rs) := by omega
    rw [if_neg a, if_neg b]
  | b + 1, hb => by
    rw [listRange_split _ 1 (2 * b + 2) (2 * (b + 1) + 2) (by omega) (by omega),
      listRange_split _ (2 * b + 2) (2 * b + 2 + 1) (2 * (b + 1) + 2) (by omega) (by omega),
      bigger_listRange t hrs b (by omega),
      listRange_split t 1 (b + 1) (b + 1 + 1) (by omega) (by omega)]
    have e : 2 * (b + 1) + 2 = 2 * b + 2 + 1 + 1 := by omega
    rw [e, listRange_one, listRange_one, listRange_one, rebuildBiggerTree_cell t hrs,
      rebuildBiggerTree_cell t hrs]
    have a1 : ¬ (2 * b + 2 = 0 ∨ 2 * b + 2 = 2 * t.rs + 2) := by omega
    have a2 : (2 * b + 2) % 2 = 0 ∧ 2 * b + 2 ≤ 2 * t.rs := by omega
    have a3 : ¬ (2 * b + 2 + 1 = 0 ∨ 2 * b + 2 + 1 = 2 * t.rs + 2) := by omega
    have a4 : ¬ ((2 * b + 2 + 1) % 2 = 0 ∧ 2 * b + 2 + 1 ≤ 2 * t.rs) := by omega
    have a5 : (2 * b + 2) / 2 = b + 1 := by omega
    rw [if_neg a1, if_pos a2, if_neg a3, if_neg a4, a5]
    simp

end PPLV.COTree.FillB

namespace PPLV.COTree
open Tree FillB

theorem biggerSpec : BiggerSpec := by
  intro t hsh
  obtain ⟨hrs, hmd, hcs, hc0, hcN⟩ := hsh
  have hpow : 2 ^ 2 ≤ 2 ^ t.maxDepth := Nat.pow_le_pow_right (by omega) hmd
  have hrs0 : t.rs ≠ 0 := by omega
  obtain ⟨f1, f2, f3, f4⟩ := rebuildBiggerTree_fields t hrs0
  have hcell := rebuildBiggerTree_cell t hrs0
  have hodd : t.rs % 2 = 1 := by
    have : 2 ^ t.maxDepth = 2 * 2 ^ (t.maxDepth - 1) := by
      rw [← Nat.pow_succ']; congr 1; omega
    omega
  have hlist : (rebuildBiggerTree t).toList = t.toList := by
    unfold toList
    rw [f1]
    have := bigger_listRange t hrs0 t.rs (Nat.le_refl _)
    rw [show 2 * t.rs + 1 + 1 = 2 * t.rs + 2 by omega]
    exact this
  refine ⟨⟨?_, ?_, ?_, ?_, ?_⟩, f1, f2, f3, ?_, ?_, hlist, ?_, ?_⟩
  · rw [f1, f2, Nat.pow_succ]; omega
  · omega
  · omega
  · rw [hcell]; simp
  · rw [hcell, f1]
    have : 2 * t.rs + 1 + 1 = 0 ∨ 2 * t.rs + 1 + 1 = 2 * t.rs + 2 := by omega
    rw [if_pos this]
  · intro p h1 h2
    rw [hcell]
    have a : ¬ (2 * p = 0 ∨ 2 * p = 2 * t.rs + 2) := by omega
    have b : (2 * p) % 2 = 0 ∧ 2 * p ≤ 2 * t.rs := by omega
    rw [if_neg a, if_pos b]
    congr 1
    omega
  · intro p h2
    rw [hcell]
    have a : ¬ (2 * p + 1 = 0 ∨ 2 * p + 1 = 2 * t.rs + 2) := by omega
    have b : ¬ ((2 * p + 1) % 2 = 0 ∧ 2 * p + 1 ≤ 2 * t.rs) := by omega
    rw [if_neg a, if_neg b]
  · rw [countRange_eq_length, countRange_eq_length]
    have h := hlist
    unfold toList at h
    rw [h]
  · intro hup i o hnode hused hroot
    obtain ⟨h, m, ho, hi, hle⟩ := hnode
    rw [f1] at hle hroot
    cases h with
    | zero =>
      exfalso
      rw [Nat.pow_zero] at ho
      subst ho
      unfold isUnused at hused
      rw [hcell] at hused
      have a : ¬ (i = 0 ∨ i = 2 * t.rs + 2) := by omega
      have b : ¬ (i % 2 = 0 ∧ i ≤ 2 * t.rs) := by omega
      rw [if_neg a, if_neg b] at hused
      simp at hused
    | succ h' =>
      have hP : 1 ≤ 2 ^ h' := Nat.one_le_two_pow
      rw [Nat.pow_succ] at ho
      obtain ⟨i0, hi0def⟩ : ∃ i0, i0 = 2 ^ h' * (2 * m + 1) := ⟨_, rfl⟩
      have hi0 : 1 ≤ i0 := by
        rw [hi0def]; exact Nat.mul_pos (by omega) (by omega)
      have hi' : i = 2 * i0 := by
        rw [hi, ho, hi0def, Nat.mul_comm (2 ^ h') 2, Nat.mul_assoc]
      have ho' : o = 2 * 2 ^ h' := by omega
      have hn0 : t.IsNode i0 (2 ^ h') := ⟨h', m, rfl, hi0def, by omega⟩
      generalize 2 ^ h' = P at ho' hn0 hP
      subst ho' hi'
      have hu0 : t.isUnused i0 = false := by
        unfold isUnused at hused ⊢
        rw [hcell] at hused
        have a : ¬ (2 * i0 = 0 ∨ 2 * i0 = 2 * t.rs + 2) := by omega
        have b : (2 * i0) % 2 = 0 ∧ 2 * i0 ≤ 2 * t.rs := by omega
        rw [if_neg a, if_pos b] at hused
        have c : 2 * i0 / 2 = i0 := by omega
        rw [c] at hused
        exact hused
      have hr0 : P ≠ t.rs / 2 + 1 := by omega
      have hp := hup i0 P hn0 hu0 hr0
      rw [getParent_double]
      simp only []
      generalize (TIt.getParent ⟨i0, P⟩).i = p at hp
      unfold isUnused at hp ⊢
      rw [hcell]
      by_cases a : 2 * p = 0 ∨ 2 * p = 2 * t.rs + 2
      · rw [if_pos a]; rfl
      · rw [if_neg a]
        by_cases hb : 2 * p ≤ 2 * t.rs
        · have b : (2 * p) % 2 = 0 ∧ 2 * p ≤ 2 * t.rs := by omega
          have c : 2 * p / 2 = p := by omega
          rw [if_pos b, c]
          exact hp
        · exfalso
          rw [cell_eq, Array.getElem?_eq_none (by omega)] at hp
          simp at hp

end PPLV.COTree
