import PPLV.COTree.Model

/-! # density arithmetic of `insert_precise_aux`, `erase`, and the bulk constructor -/
namespace PPLV.COTree

theorem isGreaterThanRatio_iff (n d r : Nat) : isGreaterThanRatio n d r = true ↔ r * d < 100 * n := by
  simp [isGreaterThanRatio]
theorem isLessThanRatio_iff (n d r : Nat) : isLessThanRatio n d r = true ↔ 100 * n < r * d := by
  simp [isLessThanRatio]

/-- `densityOK` as arithmetic -/
theorem densityOK_iff (size rs : Nat) : densityOK size rs = true ↔
    (rs = 0 ∨ ((¬ 91 * rs < 100 * size ∨ rs = 3) ∧
      (¬ 100 * size < 38 * rs ∨ 91 * (rs / 2) < 100 * size))) := by
  unfold densityOK
  by_cases h : rs = 0
  · simp [h]
  · by_cases h1 : 91 * rs < 100 * size <;> by_cases h2 : 100 * size < 38 * rs <;>
      by_cases h3 : 91 * (rs / 2) < 100 * size <;> by_cases h4 : rs = 3 <;>
      simp [h, h1, h2, h3, h4, isGreaterThanRatio, isLessThanRatio, maxDensityPercent,
        minDensityPercent]

theorem eraseRebuilds_iff (size rs : Nat) : eraseRebuilds size rs = true ↔
    (100 * (size - 1) < 38 * rs ∧ ¬ 91 * (rs / 2) < 100 * (size - 1)) := by
  by_cases h2 : 100 * (size - 1) < 38 * rs <;> by_cases h3 : 91 * (rs / 2) < 100 * (size - 1) <;>
    simp [eraseRebuilds, h2, h3, isGreaterThanRatio, isLessThanRatio, maxDensityPercent,
      minDensityPercent]

theorem insertRebuilds_iff (size rs : Nat) :
    insertRebuilds size rs = true ↔ 91 * rs < 100 * (size + 1) := by
  simp [insertRebuilds, isGreaterThanRatio, maxDensityPercent]

/-- after `rebuild_bigger_tree()` the assertion
    `!is_greater_than_ratio(size_ + 1, reserved_size, max_density_percent)` of `insert_precise_aux` holds -/
theorem bigger_ok (size rs : Nat) (hrs : 1 ≤ rs) (hsz : size ≤ rs) :
    insertRebuilds size (biggerRs rs) = false := by
  have h : ¬ insertRebuilds size (biggerRs rs) = true := by
    rw [insertRebuilds_iff]
    have : rs ≠ 0 := by omega
    simp only [biggerRs, this, if_false]
    omega
  simpa using h

/-- an insertion of a new key keeps the density clauses of `OK()` -/
theorem insert_density_ok (size rs : Nat) (hsz : size ≤ rs)
    (hemp : size = 0 → rs = 0) (hok : densityOK size rs = true) :
    densityOK (afterInsert size rs).1 (afterInsert size rs).2 = true := by
  rw [densityOK_iff] at hok ⊢
  unfold afterInsert
  by_cases h0 : size = 0
  · have := hemp h0
    simp [h0, this, biggerRs]
  · simp only [h0, if_false]
    by_cases hr : insertRebuilds size rs = true
    · simp only [hr, if_true]
      rw [insertRebuilds_iff] at hr
      have : rs ≠ 0 := by omega
      simp only [biggerRs, this, if_false]
      omega
    · have hr' : ¬ 91 * rs < 100 * (size + 1) := fun h => hr ((insertRebuilds_iff _ _).mpr h)
      have : insertRebuilds size rs = false := by simpa using hr
      simp only [this, Bool.false_eq_true, if_false]
      omega

/-- `rebuild_smaller_tree()` is never requested on a tree of 3 slots (its assertion `reserved_size > 3`) -/
theorem erase_shrink_pre (size : Nat) (hsz : 2 ≤ size) : eraseRebuilds size 3 = false := by
  have h : ¬ eraseRebuilds size 3 = true := by
    rw [eraseRebuilds_iff]; omega
  simpa using h

/-- an erasure keeps the density clauses of `OK()` (in particular after `rebuild_smaller_tree()`) -/
theorem erase_density_ok (size rs : Nat) (hsz : 1 ≤ size)
    (hok : densityOK size rs = true) :
    densityOK (afterErase size rs).1 (afterErase size rs).2 = true := by
  rw [densityOK_iff] at hok ⊢
  unfold afterErase
  by_cases h1 : size = 1
  · simp [h1]
  · simp only [h1, if_false]
    by_cases hr : eraseRebuilds size rs = true
    · simp only [hr, if_true]
      rw [eraseRebuilds_iff] at hr
      omega
    · have hr' : ¬ (100 * (size - 1) < 38 * rs ∧ ¬ 91 * (rs / 2) < 100 * (size - 1)) :=
        fun h => hr ((eraseRebuilds_iff _ _).mpr h)
      have : eraseRebuilds size rs = false := by simpa using hr
      simp only [this, Bool.false_eq_true, if_false]
      omega

/-- `integer_log2` is the floor of the binary logarithm -/
theorem integerLog2_spec : ∀ (fuel n : Nat), 1 ≤ n → n ≤ fuel →
    2 ^ integerLog2 fuel n ≤ n ∧ n < 2 ^ (integerLog2 fuel n + 1)
  | 0, n, h1, h2 => by omega
  | fuel + 1, n, h1, h2 => by
    unfold integerLog2
    by_cases hn : n ≤ 1
    · have : n = 1 := by omega
      simp [this]
    · simp only [hn, if_false]
      have ih := integerLog2_spec fuel (n / 2) (by omega) (by omega)
      rw [Nat.pow_succ, Nat.pow_succ]
      omega

/-- the tree built by `CO_Tree(Iterator, n)` satisfies the density clauses of `OK()` and has room -/
theorem bulk_density_ok (n : Nat) : densityOK n (bulkRs n) = true ∧ n ≤ bulkRs n := by
  by_cases h0 : n = 0
  · subst h0; simp [bulkRs, densityOK]
  · have hs := integerLog2_spec n n (by omega) (Nat.le_refl _)
    rw [densityOK_iff]
    unfold bulkRs
    simp only [h0, if_false]
    generalize integerLog2 n n = k at hs ⊢
    have hp : 2 ^ (k + 1) = 2 * 2 ^ k := by rw [Nat.pow_succ]; omega
    rw [hp] at hs ⊢
    generalize 2 ^ k = P at hs ⊢
    by_cases h1 : 91 * (2 * P - 1) < 100 * n <;> by_cases h2 : 2 * P - 1 = 3 <;>
      simp [isGreaterThanRatio, maxDensityPercent, h1, h2] <;> omega

end PPLV.COTree
