import PPLV.COTree.ProofsRebEraTopB
import PPLV.COTree.ProofsRebRedist

/-!
# C16 stage 2 — `CO_Tree::erase(key)` refines the ordered map (`EraseSpec`)
from the component statements `GoDownSpec`, `EraseSinkSpec`, `RebalanceEraseSpec`, `SmallerSpec`
(kept as hypotheses: this file depends on none of their proofs).
-/
namespace PPLV.COTree
open PPLV.COTree.Tree PPLV.COTree.EraTop

namespace EraTop

theorem shape_rs_cases (t : Tree) (hs : t.Shape) : t.rs = 3 ∨ t.rs = 7 ∨ 15 ≤ t.rs := by
  obtain ⟨hrs, hd, -, -, -⟩ := hs
  rw [hrs]
  generalize t.maxDepth = d at *
  by_cases h2 : d = 2
  · subst h2; left; rfl
  · by_cases h3 : d = 3
    · subst h3; right; left; rfl
    · right; right
      obtain ⟨k, rfl⟩ : ∃ k, d = k + 4 := ⟨d - 4, by omega⟩
      have : 2 ^ (k + 4) = 16 * 2 ^ k := by rw [Nat.pow_add]; omega
      have := Nat.two_pow_pos k
      omega

theorem singleton_of_mem (m : SMap) (p : Nat × Int) (hl : m.length = 1) (hp : p ∈ m) : m = [p] := by
  match m, hl, hp with
  | [a], _, hp => simp at hp; rw [hp]

/-- the key is stored: `eraseAt` -/
theorem eraseAt_spec (hg : GoDownSpec) (hsink : EraseSinkSpec) (hre : RebalanceEraseSpec)
    (hs : SmallerSpec) (t : Tree) (key i o : Nat) (v : Int) (inv : t.Inv) (h1 : 1 ≤ t.size)
    (hn : t.IsNode i o) (hci : t.cell i = some (key, v)) :
    ∃ t' r, eraseAt t ⟨i, o⟩ = some (t', r) ∧
      (if t'.size = 0 then t' = init 0 else t'.Inv) ∧
      t'.toList = SMap.erase t.toList key ∧ r = SMap.next t.toList key ∧
      (t'.size, t'.rs) = afterErase t.size t.rs := by
  obtain ⟨hsh, hcnt, hso, hup, hden⟩ := inv
  have hbi := hn.bounds hsh
  have hk : t.keyAt i = key := keyAt_of_cell hci
  have hu : t.isUnused i = false := (isUnused_false_iff t i).2 ⟨_, hci⟩
  have hmem : (key, v) ∈ t.toList :=
    (mem_listRange t 1 (t.rs + 1) _).2 ⟨i, by omega, by omega, hci⟩
  by_cases h1' : t.size = 1
  · refine ⟨init 0, none, ?_, ?_, ?_, ?_, ?_⟩
    · unfold eraseAt; rw [if_pos h1']
    · rfl
    · have hl : t.toList.length = 1 := by
        unfold Tree.toList; rw [Tree.length_listRange, hcnt, h1']
      rw [singleton_of_mem t.toList (key, v) hl hmem]
      simp [SMap.erase]
      rfl
    · have hl : t.toList.length = 1 := by
        unfold Tree.toList; rw [Tree.length_listRange, hcnt, h1']
      rw [singleton_of_mem t.toList (key, v) hl hmem]
      simp [SMap.next, SMap.lowerBound]
    · simp [afterErase, h1']
      exact ⟨rfl, rfl⟩
  · have hae : afterErase t.size t.rs =
        (t.size - 1, if eraseRebuilds t.size t.rs then t.rs / 2 else t.rs) := by
      unfold afterErase; rw [if_neg h1']; split <;> rfl
    have hden' := erase_density_ok t.size t.rs h1 hden
    rw [hae] at hden' ⊢
    simp only at hden'
    -- the tree and the node after the optional `rebuild_smaller_tree`
    have hpre : ∃ T i0 o0,
        (match (if eraseRebuilds t.size t.rs then rebuildSmallerTree t else some t) with
          | none => none
          | some t' => eraseTail t' (if eraseRebuilds t.size t.rs
              then t'.goDownSearchingKey (t.keyAt i) t'.getRoot else ⟨i, o⟩))
          = eraseTail T ⟨i0, o0⟩ ∧
        T.Shape ∧ SMap.Sorted T.toList ∧ T.UpClosed ∧ T.countRange 1 (T.rs + 1) = T.size ∧
        T.size = t.size ∧ T.toList = t.toList ∧
        T.rs = (if eraseRebuilds t.size t.rs then t.rs / 2 else t.rs) ∧
        T.IsNode i0 o0 ∧ T.isUnused i0 = false ∧ T.keyAt i0 = key ∧
        (T.rs = 3 ∨ (7 ≤ T.rs ∧ rebalanceCond T.maxDepth (T.size - 1) T.rs 0 = false)) := by
      by_cases hr : eraseRebuilds t.size t.rs = true
      · have h4 := erase_shrunk_rs t.size t.rs hr (by omega) hsh.rs_odd.2
        have hcases := shape_rs_cases t hsh
        obtain ⟨T, hT, sT, rsT, mdT, szT, tlT, cnT, balT⟩ :=
          hs t hsh (by omega) hcnt h1 (erase_shrunk_fits t.size t.rs hr (by omega) hsh.rs_odd.2)
        have upT : T.UpClosed := balancedUpClosedSpec T t.size sT balT
        have soT : SMap.Sorted T.toList := by rw [tlT]; exact hso
        have cT : T.countRange 1 (T.rs + 1) = T.size := by rw [cnT, szT]
        have hruT := root_used T sT upT (by omega)
        obtain ⟨g1, g2, -, -, g5, -⟩ := hg T key (T.rs / 2 + 1) (T.rs / 2 + 1) sT soT upT
          (IsNode.root sT) hruT (root_brackets T sT key)
        have hgr : T.getRoot = ⟨T.rs / 2 + 1, T.rs / 2 + 1⟩ := rfl
        rw [← hgr] at g1 g2 g5
        have hk0 : T.keyAt (T.goDownSearchingKey key T.getRoot).i = key := by
          apply g5
          rw [← tlT] at hmem
          obtain ⟨p, a, b, c⟩ := (mem_listRange T 1 (T.rs + 1) _).1 hmem
          have := sT.rs_odd
          exact ⟨p, by omega, by omega, v, c⟩
        refine ⟨T, (T.goDownSearchingKey key T.getRoot).i,
          (T.goDownSearchingKey key T.getRoot).offset, ?_, sT, soT, upT, cT, szT, tlT,
          by rw [if_pos hr]; exact rsT, g1, g2, hk0, ?_⟩
        · simp only [hr, if_true, hT, hk]
        · rcases hcases with c3 | c7 | c15
          · omega
          · left; rw [rsT, c7]
          · right
            refine ⟨by rw [rsT]; omega, ?_⟩
            rw [szT, rsT]
            exact root_ok_erase_shrunk T.maxDepth t.size t.rs c15 (by omega) hden hr
      · have hr' : eraseRebuilds t.size t.rs = false := by simpa using hr
        refine ⟨t, i, o, ?_, hsh, hso, hup, hcnt, rfl, rfl, by rw [hr']; rfl, hn, hu, hk, ?_⟩
        · simp only [hr', Bool.false_eq_true, if_false]
        · rcases shape_rs_cases t hsh with c3 | c7 | c15
          · left; exact c3
          · right; exact ⟨by omega, root_ok_erase t.maxDepth t.size t.rs (by omega) (by omega) hden hr'⟩
          · right; exact ⟨by omega, root_ok_erase t.maxDepth t.size t.rs (by omega) (by omega) hden hr'⟩
    obtain ⟨T, i0, o0, heq, sT, soT, upT, cT, szT, tlT, rsT, n0, u0, k0, hroot⟩ := hpre
    obtain ⟨t', r, hrun, s', rs', sz', tl', up', cnt', hr⟩ :=
      tail_spec hg hsink hre T i0 o0 sT soT upT cT (by omega) n0 u0 hroot
    rw [k0, tlT] at tl' hr
    have hsz0 : t'.size ≠ 0 := by omega
    refine ⟨t', r, ?_, ?_, tl', hr, ?_⟩
    · exact (eraseAt_eq _ _ h1').trans (heq.trans hrun)
    · rw [if_neg hsz0]
      refine ⟨s', cnt', by rw [tl']; exact SMap.Sorted.filter _ hso, up', ?_⟩
      rw [sz', rs', szT, rsT]; exact hden'
    · rw [sz', rs', szT, rsT]

end EraTop

/-- **`CO_Tree::erase(key)`** refines the ordered map, given the component statements -/
theorem eraseSpec_of (hg : GoDownSpec) (hsink : EraseSinkSpec) (hre : RebalanceEraseSpec)
    (hs : SmallerSpec) : EraseSpec := by
  intro t key inv h1
  have hinv := inv
  obtain ⟨hsh, hcnt, hso, hup, hden⟩ := inv
  have hsz : t.size ≠ 0 := by omega
  have hru := root_used t hsh hup (by omega)
  obtain ⟨g1, g2, -, -, g5, g6⟩ := hg t key (t.rs / 2 + 1) (t.rs / 2 + 1) hsh hso hup
    (IsNode.root hsh) hru (root_brackets t hsh key)
  have hgr : t.getRoot = ⟨t.rs / 2 + 1, t.rs / 2 + 1⟩ := rfl
  rw [← hgr] at g1 g2 g5 g6
  unfold erase
  rw [if_neg hsz]
  simp only
  generalize t.goDownSearchingKey key t.getRoot = it at g1 g2 g5 g6
  obtain ⟨i, o⟩ := it
  simp only at g1 g2 g5 g6
  have hb := g1.bounds hsh
  by_cases hk : t.keyAt i = key
  · rw [if_pos hk]
    have hci := cell_eq_of_used g2
    rw [hk] at hci
    have hmem : (key, t.valAt i) ∈ t.toList :=
      (mem_listRange t 1 (t.rs + 1) _).2 ⟨i, by omega, by omega, hci⟩
    rw [stored_of_mem t.toList key _ hmem]
    exact eraseAt_spec hg hsink hre hs t key i o _ hinv h1 g1 hci
  · rw [if_neg hk]
    have hnm : ∀ p ∈ t.toList, p.1 ≠ key := by
      intro p hp e
      obtain ⟨x, a, b, c⟩ := (mem_listRange t 1 (t.rs + 1) p).1 hp
      have := hsh.rs_odd
      apply hk
      apply g5
      refine ⟨x, by omega, by omega, p.2, ?_⟩
      rw [c, ← e]
    refine ⟨t, _, rfl, by rw [if_neg hsz]; exact hinv, (erase_of_not_mem key t.toList hnm).symm,
      next_of_brackets t key i hsh (by omega) (by omega) g2 hk (g6 hk).1, ?_⟩
    rw [stored_false_of_not_mem t.toList key hnm]
    rfl

end PPLV.COTree
