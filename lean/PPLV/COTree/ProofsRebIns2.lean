import PPLV.COTree.ProofsRebIns2B

/-!
# C16 stage 2 — `CO_Tree::insert(key, data)` (`InsertSpec`)

Under the hypotheses `RedistSpec`, `BiggerSpec`, `GoDownSpec` (each proved in its own file).
No Mathlib.
-/
namespace PPLV.COTree
open Tree

/-! ## the empty tree -/

/-- the tree `insert_in_empty_tree` builds -/
def singletonTree (key : Nat) (value : Int) : Tree :=
  ⟨3, 2, 1, #[sentinel, none, some (key, value), none, sentinel]⟩

theorem init3_eq : init 3 = ⟨3, 2, 0, #[sentinel, none, none, none, sentinel]⟩ := by decide

theorem insert_empty (key : Nat) (value : Int) :
    insert (init 0) key value = some (singletonTree key value, ⟨2, 2⟩) := by
  have h0 : init 0 = ⟨0, 0, 0, #[]⟩ := by decide
  have hb : rebuildBiggerTree ⟨0, 0, 0, #[]⟩ = init 3 := by simp [rebuildBiggerTree]
  simp [insert, h0, insertInEmptyTree, hb, init3_eq, Tree.getRoot, Tree.setCell, singletonTree]

theorem singletonTree_shape (key : Nat) (value : Int) : (singletonTree key value).Shape :=
  ⟨rfl, Nat.le_refl 2, rfl, rfl, rfl⟩

theorem singletonTree_inv (key : Nat) (value : Int) : (singletonTree key value).Inv := by
  refine ⟨singletonTree_shape key value, rfl, ?_, ?_, ?_⟩
  · show SMap.Sorted [(key, value)]
    simp [SMap.Sorted]
  · intro i o hn hu hroot
    have ho := hn.offset_eq
    have hb := hn.bounds (singletonTree_shape key value)
    have hi : i ≤ 3 := by
      obtain ⟨h, m, _, _, hle⟩ := hn
      exact hle
    have hroot' : o ≠ 2 := by simpa [singletonTree] using hroot
    have hcases : i = 1 ∨ i = 2 ∨ i = 3 := by omega
    rcases hcases with rfl | rfl | rfl
    · simp [Tree.isUnused, Tree.cell, singletonTree] at hu
    · have : lowBit 2 = 2 := by decide
      omega
    · simp [Tree.isUnused, Tree.cell, singletonTree] at hu
  · show densityOK 1 3 = true
    decide

/-! ## a non-empty tree -/

theorem stored_iff (t : Tree) (key : Nat) :
    SMap.stored t.toList key = true ↔ ∃ p v, 1 ≤ p ∧ p ≤ t.rs ∧ t.cell p = some (key, v) := by
  unfold SMap.stored
  rw [SMap.find?_isSome_iff_mem]
  constructor
  · rintro ⟨q, hq, hk⟩
    obtain ⟨p, p1, p2, p3⟩ := (mem_listRange t _ _ q).1 hq
    refine ⟨p, q.2, p1, by omega, ?_⟩
    rw [p3, ← hk]
  · rintro ⟨p, v, p1, p2, p3⟩
    exact ⟨(key, v), (mem_listRange t _ _ _).2 ⟨p, p1, by omega, p3⟩, rfl⟩

/-- **`insert_precise(key, data, itr)`** from any used node `(i, o)` that holds `key` when `key` is
    stored and otherwise is the node next to which `key` belongs, with a free child (or a leaf)
    on the side of `key` -/
theorem insertPrecise_slot (hr : RedistSpec) (hb : BiggerSpec) (hg : GoDownSpec)
    (t : Tree) (key : Nat) (value : Int) (i o : Nat) (hinv : t.Inv) (hsize : 1 ≤ t.size)
    (g1 : t.IsNode i o) (g2 : t.isUnused i = false)
    (g5 : (∃ p, 1 ≤ p ∧ p ≤ t.rs ∧ ∃ v, t.cell p = some (key, v)) → t.keyAt i = key)
    (g6 : t.keyAt i ≠ key → t.Brackets i i key ∧
      ((⟨i, o⟩ : TIt).isLeaf = false →
        t.isUnused (if key < t.keyAt i then (⟨i, o⟩ : TIt).getLeftChild
          else (⟨i, o⟩ : TIt).getRightChild).i = true)) :
    ∃ t' it, insertPrecise t key value ⟨i, o⟩ = some (t', it) ∧ (t'.Inv ∧
      t'.toList = SMap.set t.toList key value ∧ t'.cell it.i = some (key, value) ∧
      (t'.size, t'.rs) =
        (if SMap.stored t.toList key then (t.size, t.rs) else afterInsert t.size t.rs)) ∧
      1 ≤ it.i ∧ it.i ≤ t'.rs := by
  obtain ⟨hs, hcnt, hsorted, hup, hdens⟩ := hinv
  have hne : t.size ≠ 0 := by omega
  have hodd := hs.rs_odd
  have hszle : t.size ≤ t.rs := by
    have := countRange_le t 1 (t.rs + 1); omega
  have hru := root_used hs hup (by omega)
  have hbi := g1.bounds hs
  obtain ⟨kv, hkv⟩ := (isUnused_false_iff t i).mp g2
  have hka := keyAt_of_cell hkv
  by_cases hk : t.keyAt i = key
  · -- the key is stored: its value is replaced
    have e1 : insertPrecise t key value ⟨i, o⟩ = some (t.setCell i (some (key, value)), ⟨i, o⟩) := by
      simp [insertPrecise, hk]
    have hkv' : t.cell i = some (key, kv.2) := by rw [hkv, ← hk, hka]
    obtain ⟨a1, a2, a3, a4⟩ := replace_at_used t i key kv.2 value hs hsorted (by omega) (by omega) hkv'
    have hst : SMap.stored t.toList key = true :=
      (stored_iff t key).2 ⟨i, kv.2, by omega, by omega, hkv'⟩
    refine ⟨_, _, e1, ⟨⟨a1, ?_, ?_, ?_, hdens⟩, a3, a4, by rw [hst]; rfl⟩, by show 1 ≤ i; omega,
      by show i ≤ t.rs; omega⟩
    · show (t.setCell i (some (key, value))).countRange 1 (t.rs + 1) = t.size
      rw [← hcnt]
      unfold Tree.countRange
      congr 1
      apply List.filter_congr
      intro p _
      rw [a2]
    · rw [a3]; exact SMap.sorted_set _ _ _ hsorted
    · intro a oa ha hu hroot
      rw [a2] at hu ⊢
      exact hup a oa ha hu hroot
  · -- a new key
    have hnst : SMap.stored t.toList key = false := by
      cases hx : SMap.stored t.toList key with
      | false => rfl
      | true =>
        obtain ⟨p, v, p1, p2, p3⟩ := (stored_iff t key).1 hx
        exact absurd (g5 ⟨p, p1, p2, v, p3⟩) hk
    obtain ⟨g6a, g6b⟩ := g6 hk
    have e1 : insertPrecise t key value ⟨i, o⟩ = insertPreciseAux t key value ⟨i, o⟩ := by
      simp [insertPrecise, hk]
    rw [e1, hnst]
    have hdens' := insert_density_ok t.size t.rs hszle (fun h => absurd h hne) hdens
    cases hgr : insertRebuilds t.size t.rs with
    | false =>
      rw [insertPreciseAux_not_grown hgr]
      have haft : afterInsert t.size t.rs = (t.size + 1, t.rs) := by
        simp [afterInsert, hne, hgr]
      rw [haft] at hdens' ⊢
      have hpost : InsertTailPost t key value (insertTail t key value ⟨i, o⟩) := by
        cases hl : (⟨i, o⟩ : TIt).isLeaf with
        | false => exact insertTail_nonleaf t key value i o hs hup g1 g2 hk g6a hl (g6b hl)
        | true =>
          have ho1 : o = 1 := by simpa [TIt.isLeaf] using hl
          have h7 : 7 ≤ t.rs := by
            rcases shape_rs_3_or_7 hs with h3 | h7
            · exfalso
              rw [insertRebuilds_false_iff] at hgr
              have hroot1 := (IsNode.root hs).offset_eq
              have hi1 := g1.offset_eq
              have hne' : i ≠ t.rs / 2 + 1 := by
                intro he
                rw [he] at hi1
                omega
              have h2 : 2 ≤ t.countRange 1 (t.rs + 1) := by
                by_cases hlt : i < t.rs / 2 + 1
                · exact count_two (by omega) hlt (by omega) g2 hru
                · exact count_two (by omega) (by omega : t.rs / 2 + 1 < i) (by omega) hru g2
              omega
            · exact h7
          exact insertTail_leaf hr hg t key value i o hs hsorted hup hcnt g1 g2 hk g6a hl h7
            (root_ok_insert t.maxDepth t.size t.rs h7 hdens hgr)
      obtain ⟨t', it', q1, q2, q3, q4, q5, q6, q7, q8, q9, q10⟩ := hpost
      refine ⟨t', it', q1, ⟨⟨q2, by rw [q3, q7, hcnt], ?_, q5, by rw [q7, q8]; exact hdens'⟩, q4, q6,
        by rw [q7, q8]; rfl⟩, q9, q10⟩
      rw [q4]; exact SMap.sorted_set _ _ _ hsorted
    | true =>
      rw [insertPreciseAux_grown hgr]
      have hrs0 : t.rs ≠ 0 := by omega
      have haft : afterInsert t.size t.rs = (t.size + 1, 2 * t.rs + 1) := by
        simp [afterInsert, hne, hgr, biggerRs, hrs0]
      rw [haft] at hdens' ⊢
      obtain ⟨b1, b2, b3, b4, _, _, b7, b8, b9⟩ := hb t hs
      have hup1 := b9 hup
      generalize rebuildBiggerTree t = t1 at b1 b2 b3 b4 b7 b8 hup1 ⊢
      have hsorted1 : SMap.Sorted t1.toList := by rw [b7]; exact hsorted
      have hcnt1 : t1.countRange 1 (t1.rs + 1) = t1.size := by rw [b8, b4]; exact hcnt
      have hru1 := root_used b1 hup1 (by omega)
      obtain ⟨f1, f2, _, _, f5, f6⟩ :=
        hg t1 key _ _ b1 hsorted1 hup1 (IsNode.root b1) hru1 (brackets_root t1 b1 key)
      have eroot1 : (⟨t1.rs / 2 + 1, t1.rs / 2 + 1⟩ : TIt) = t1.getRoot := rfl
      rw [eroot1] at f1 f2 f5 f6
      generalize t1.goDownSearchingKey key t1.getRoot = it1 at f1 f2 f5 f6 ⊢
      obtain ⟨i1, o1⟩ := it1
      simp only at f1 f2 f5 f6
      have hbi1 := f1.bounds b1
      obtain ⟨kv1, hkv1⟩ := (isUnused_false_iff t1 i1).mp f2
      have hk1 : t1.keyAt i1 ≠ key := by
        intro he
        have hst1 : SMap.stored t1.toList key = true :=
          (stored_iff t1 key).2 ⟨i1, kv1.2, by omega, by omega, by
            rw [hkv1, ← he, keyAt_of_cell hkv1]⟩
        rw [b7, hnst] at hst1
        cases hst1
      obtain ⟨f6a, f6b⟩ := f6 hk1
      have hpost : InsertTailPost t1 key value (insertTail t1 key value ⟨i1, o1⟩) := by
        cases hl : (⟨i1, o1⟩ : TIt).isLeaf with
        | false => exact insertTail_nonleaf t1 key value i1 o1 b1 hup1 f1 f2 hk1 f6a hl (f6b hl)
        | true =>
          exact insertTail_leaf hr hg t1 key value i1 o1 b1 hsorted1 hup1 hcnt1 f1 f2 hk1 f6a hl
            (by omega)
            (by rw [b4, b2]
                exact root_ok_insert_grown t1.maxDepth t.size t.rs hodd.2 hszle hgr)
      obtain ⟨t', it', q1, q2, q3, q4, q5, q6, q7, q8, q9, q10⟩ := hpost
      refine ⟨t', it', q1, ⟨⟨q2, by rw [q3, q7, hcnt1], ?_, q5, by rw [q7, q8, b4, b2]; exact hdens'⟩,
        by rw [q4, b7], q6, by rw [q7, q8, b4, b2]; rfl⟩, q9, q10⟩
      rw [q4]; exact SMap.sorted_set _ _ _ hsorted1

theorem insertPrecise_spec (hr : RedistSpec) (hb : BiggerSpec) (hg : GoDownSpec)
    (t : Tree) (key : Nat) (value : Int) (i o : Nat) (hinv : t.Inv) (hsize : 1 ≤ t.size)
    (g1 : t.IsNode i o) (g2 : t.isUnused i = false)
    (g5 : (∃ p, 1 ≤ p ∧ p ≤ t.rs ∧ ∃ v, t.cell p = some (key, v)) → t.keyAt i = key)
    (g6 : t.keyAt i ≠ key → t.Brackets i i key ∧
      ((⟨i, o⟩ : TIt).isLeaf = false →
        t.isUnused (if key < t.keyAt i then (⟨i, o⟩ : TIt).getLeftChild
          else (⟨i, o⟩ : TIt).getRightChild).i = true)) :
    ∃ t' it, insertPrecise t key value ⟨i, o⟩ = some (t', it) ∧ t'.Inv ∧
      t'.toList = SMap.set t.toList key value ∧ t'.cell it.i = some (key, value) ∧
      (t'.size, t'.rs) =
        (if SMap.stored t.toList key then (t.size, t.rs) else afterInsert t.size t.rs) := by
  obtain ⟨t', it, r1, r2, _⟩ := insertPrecise_slot hr hb hg t key value i o hinv hsize g1 g2 g5 g6
  exact ⟨t', it, r1, r2⟩

/-- `insert` on a non-empty tree, with the slot bound of the returned iterator -/
theorem insert_slot (hr : RedistSpec) (hb : BiggerSpec) (hg : GoDownSpec)
    (t : Tree) (key : Nat) (value : Int) (hinv : t.Inv) (hsize : 1 ≤ t.size) :
    ∃ t' it, insert t key value = some (t', it) ∧ (t'.Inv ∧
      t'.toList = SMap.set t.toList key value ∧ t'.cell it.i = some (key, value) ∧
      (t'.size, t'.rs) =
        (if SMap.stored t.toList key then (t.size, t.rs) else afterInsert t.size t.rs)) ∧
      1 ≤ it.i ∧ it.i ≤ t'.rs := by
  have hs := hinv.shape
  have hne : t.size ≠ 0 := by omega
  have hodd := hs.rs_odd
  have e0 : insert t key value = insertPrecise t key value (t.goDownSearchingKey key t.getRoot) := by
    simp [insert, hne]
  have hru := root_used hs hinv.upClosed (by have := hinv.count; omega)
  obtain ⟨g1, g2, g3, g4, g5, g6⟩ :=
    hg t key _ _ hs hinv.sorted hinv.upClosed (IsNode.root hs) hru (brackets_root t hs key)
  have eroot : (⟨t.rs / 2 + 1, t.rs / 2 + 1⟩ : TIt) = t.getRoot := rfl
  rw [eroot] at g1 g2 g3 g4 g5 g6
  rw [e0]
  generalize t.goDownSearchingKey key t.getRoot = it at g1 g2 g3 g4 g5 g6
  obtain ⟨i, o⟩ := it
  simp only at g1 g2 g3 g4 g5 g6
  exact insertPrecise_slot hr hb hg t key value i o hinv hsize g1 g2
    (fun ⟨p, p1, p2, v, p3⟩ => g5 ⟨p, by omega, by omega, v, p3⟩) g6

theorem insertSpec_nonempty (hr : RedistSpec) (hb : BiggerSpec) (hg : GoDownSpec)
    (t : Tree) (key : Nat) (value : Int) (hinv : t.Inv) (hsize : 1 ≤ t.size) :
    ∃ t' it, insert t key value = some (t', it) ∧ t'.Inv ∧
      t'.toList = SMap.set t.toList key value ∧ t'.cell it.i = some (key, value) ∧
      (t'.size, t'.rs) =
        (if SMap.stored t.toList key then (t.size, t.rs) else afterInsert t.size t.rs) := by
  obtain ⟨t', it, r1, r2, _⟩ := insert_slot hr hb hg t key value hinv hsize
  exact ⟨t', it, r1, r2⟩

/-- **`CO_Tree::insert(key, data)`** (`InsertSpec` of `RebSpec.lean`) -/
theorem insertSpec_of (hr : RedistSpec) (hb : BiggerSpec) (hg : GoDownSpec) : InsertSpec := by
  refine ⟨fun key value => ?_, insertSpec_nonempty hr hb hg⟩
  refine ⟨_, _, insert_empty key value, singletonTree_inv key value, rfl, rfl, rfl, rfl⟩

end PPLV.COTree
