import PPLV.COTree.ProofsRebUp

/-!
# C16 stage 2 — `go_down_searching_key` is a correct BST descent on the in-order layout with holes

`goDownSpec : GoDownSpec`.  No Mathlib.
-/
namespace PPLV.COTree

open Tree

/-- the conclusion of `GoDownSpec` relative to the node `(c, oc)` -/
def GoDownPost (t : Tree) (key c oc : Nat) (it : TIt) : Prop :=
  t.IsNode it.i it.offset ∧ t.isUnused it.i = false ∧
  c - (oc - 1) ≤ it.i - (it.offset - 1) ∧ it.i + (it.offset - 1) ≤ c + (oc - 1) ∧
  ((∃ p, c - (oc - 1) ≤ p ∧ p ≤ c + (oc - 1) ∧ ∃ v, t.cell p = some (key, v)) → t.keyAt it.i = key) ∧
  (t.keyAt it.i ≠ key →
      t.Brackets it.i it.i key ∧
      (it.isLeaf = false →
        t.isUnused (if key < t.keyAt it.i then it.getLeftChild else it.getRightChild).i = true))

theorem goDownAux_zero (t : Tree) (key : Nat) (it : TIt) : t.goDownAux key 0 it = it := rfl

theorem goDownAux_succ (t : Tree) (key f : Nat) (it : TIt) :
    t.goDownAux key (f + 1) it =
      if it.isLeaf then it
      else if key = t.keyAt it.i then it
      else if key < t.keyAt it.i then
        (if t.isUnused it.getLeftChild.i then it.getLeftChild.getParent
         else t.goDownAux key f it.getLeftChild)
      else
        (if t.isUnused it.getRightChild.i then it.getRightChild.getParent
         else t.goDownAux key f it.getRightChild) := rfl

/-- stopping on the current node -/
theorem goDown_stop {t : Tree} {key c oc : Nat} (hn : t.IsNode c oc) (hu : t.isUnused c = false)
    (h5 : (∃ p, c - (oc - 1) ≤ p ∧ p ≤ c + (oc - 1) ∧ ∃ v, t.cell p = some (key, v)) → t.keyAt c = key)
    (h6 : t.keyAt c ≠ key → t.Brackets c c key ∧
      (TIt.isLeaf ⟨c, oc⟩ = false →
        t.isUnused (if key < t.keyAt c then TIt.getLeftChild ⟨c, oc⟩ else TIt.getRightChild ⟨c, oc⟩).i
          = true)) : GoDownPost t key c oc ⟨c, oc⟩ :=
  ⟨hn, hu, Nat.le_refl _, Nat.le_refl _, h5, h6⟩

/-- stopping on a leaf -/
theorem goDown_leaf {t : Tree} {key c : Nat} (hn : t.IsNode c 1) (hu : t.isUnused c = false)
    (hbr : t.Brackets (c - (1 - 1)) (c + (1 - 1)) key) : GoDownPost t key c 1 ⟨c, 1⟩ := by
  refine ⟨hn, hu, Nat.le_refl _, Nat.le_refl _, ?_, ?_⟩
  · rintro ⟨p, h1, h2, v, hv⟩
    have : p = c := by omega
    subst this
    exact keyAt_of_cell hv
  · intro _
    refine ⟨?_, fun hl => by simp [TIt.isLeaf] at hl⟩
    simpa using hbr

theorem goDown_aux (t : Tree) (key : Nat) (hs : t.Shape) (hso : t.CellsSorted) (hup : t.UpClosed) :
    ∀ (f c oc h : Nat), t.IsNode c oc → oc = 2 ^ h → h ≤ f → t.isUnused c = false →
      t.Brackets (c - (oc - 1)) (c + (oc - 1)) key →
      GoDownPost t key c oc (t.goDownAux key f ⟨c, oc⟩) := by
  intro f
  induction f with
  | zero =>
    intro c oc h hn ho hf hu hbr
    have : oc = 1 := by
      have : h = 0 := by omega
      rw [ho, this]
    subst this
    rw [goDownAux_zero]
    exact goDown_leaf hn hu hbr
  | succ f ih =>
    intro c oc h hn ho hf hu hbr
    rw [goDownAux_succ]
    dsimp only
    by_cases hleaf : oc = 1
    · subst hleaf
      simp only [TIt.isLeaf, beq_self_eq_true, if_true]
      exact goDown_leaf hn hu hbr
    · have hl' : (TIt.isLeaf ⟨c, oc⟩) = false := by simp [TIt.isLeaf, hleaf]
      simp only [hl', Bool.false_eq_true, if_false]
      have hb := hn.bounds hs
      obtain ⟨kc, hkc⟩ := (isUnused_false_iff t c).mp hu
      have hkey := keyAt_of_cell hkc
      obtain ⟨o', e1, e2, hpos', hlt, hge, hkl, hkr, hpl, hpr, hpow⟩ := hn.kids hs hleaf
      have hh : h = (h - 1) + 1 := by
        rcases Nat.eq_zero_or_pos h with h0 | h0
        · rw [h0] at ho; simp at ho; omega
        · omega
      have ho' : o' = 2 ^ (h - 1) := hpow (h - 1) (by rw [← hh]; exact ho)
      simp only [getLeftChild_eq, getRightChild_eq, e2]
      obtain ⟨hbr1, hbr2⟩ := hbr
      by_cases heq : key = t.keyAt c
      · -- found
        simp only [heq, if_true]
        exact goDown_stop hn hu (fun _ => rfl) (fun hne => absurd rfl hne)
      · simp only [heq, if_false]
        by_cases hlt' : key < t.keyAt c
        · simp only [hlt', if_true]
          cases hul : t.isUnused (c - o') with
          | true =>
            simp only [if_true, hpl]
            have hemp := UpClosed.empty_subtree' hs hup hkl hul
            refine goDown_stop hn hu ?_ ?_
            · rintro ⟨p, h1, h2, v, hv⟩
              rcases Nat.lt_trichotomy p c with hp | hp | hp
              · have := hemp p (by omega) (by omega)
                rw [this] at hv; cases hv
              · subst hp; exact keyAt_of_cell hv
              · have := hso c p kc (key, v) (by omega) hp (by omega) hkc hv
                simp only at this; omega
            · intro _
              refine ⟨⟨?_, ?_⟩, fun _ => ?_⟩
              · intro p kv h1 h2 hv
                by_cases hp : p < c - (oc - 1)
                · exact hbr1 p kv h1 hp hv
                · have := hemp p (by omega) (by omega)
                  rw [this] at hv; cases hv
              · intro p kv h1 h2 hv
                by_cases hp : c + (oc - 1) < p
                · exact hbr2 p kv hp h2 hv
                · have := hso c p kc kv (by omega) h1 (by omega) hkc hv
                  omega
              · simp only [hlt', if_true, getLeftChild_eq, e2]; exact hul
          | false =>
            simp only [Bool.false_eq_true, if_false]
            have hbr' : t.Brackets (c - o' - (o' - 1)) (c - o' + (o' - 1)) key := by
              refine ⟨?_, ?_⟩
              · intro p kv h1 h2 hv
                exact hbr1 p kv h1 (by omega) hv
              · intro p kv h1 h2 hv
                by_cases hp : c + (oc - 1) < p
                · exact hbr2 p kv hp h2 hv
                · rcases Nat.lt_or_ge c p with hcp | hcp
                  · have := hso c p kc kv (by omega) hcp (by omega) hkc hv
                    omega
                  · have : p = c := by omega
                    subst this
                    rw [hkc] at hv; cases hv; omega
            obtain ⟨r1, r2, r3, r4, r5, r6⟩ := ih (c - o') o' (h - 1) hkl ho' (by omega) hul hbr'
            refine ⟨r1, r2, by omega, by omega, ?_, r6⟩
            rintro ⟨p, h1, h2, v, hv⟩
            apply r5
            refine ⟨p, by omega, ?_, v, hv⟩
            rcases Nat.lt_or_ge p c with hp | hp
            · omega
            · exfalso
              rcases Nat.lt_or_ge c p with hcp | hcp
              · have := hso c p kc (key, v) (by omega) hcp (by omega) hkc hv
                simp only at this; omega
              · have : p = c := by omega
                subst this
                rw [hkc] at hv; cases hv; simp at hkey; omega
        · simp only [hlt', if_false]
          have hgt : t.keyAt c < key := by omega
          cases hur : t.isUnused (c + o') with
          | true =>
            simp only [if_true, hpr]
            have hemp := UpClosed.empty_subtree' hs hup hkr hur
            refine goDown_stop hn hu ?_ ?_
            · rintro ⟨p, h1, h2, v, hv⟩
              rcases Nat.lt_trichotomy p c with hp | hp | hp
              · have := hso p c (key, v) kc (by omega) hp (by omega) hv hkc
                simp only at this; omega
              · subst hp; exact keyAt_of_cell hv
              · have := hemp p (by omega) (by omega)
                rw [this] at hv; cases hv
            · intro _
              refine ⟨⟨?_, ?_⟩, fun _ => ?_⟩
              · intro p kv h1 h2 hv
                by_cases hp : p < c - (oc - 1)
                · exact hbr1 p kv h1 hp hv
                · have := hso p c kv kc h1 h2 (by omega) hv hkc
                  omega
              · intro p kv h1 h2 hv
                by_cases hp : c + (oc - 1) < p
                · exact hbr2 p kv hp h2 hv
                · have := hemp p (by omega) (by omega)
                  rw [this] at hv; cases hv
              · simp only [hlt', if_false, getRightChild_eq, e2]; exact hur
          | false =>
            simp only [Bool.false_eq_true, if_false]
            have hbr' : t.Brackets (c + o' - (o' - 1)) (c + o' + (o' - 1)) key := by
              refine ⟨?_, ?_⟩
              · intro p kv h1 h2 hv
                by_cases hp : p < c - (oc - 1)
                · exact hbr1 p kv h1 hp hv
                · rcases Nat.lt_or_ge p c with hcp | hcp
                  · have := hso p c kv kc h1 hcp (by omega) hv hkc
                    omega
                  · have : p = c := by omega
                    subst this
                    rw [hkc] at hv; cases hv; omega
              · intro p kv h1 h2 hv
                exact hbr2 p kv (by omega) h2 hv
            obtain ⟨r1, r2, r3, r4, r5, r6⟩ := ih (c + o') o' (h - 1) hkr ho' (by omega) hur hbr'
            refine ⟨r1, r2, by omega, by omega, ?_, r6⟩
            rintro ⟨p, h1, h2, v, hv⟩
            apply r5
            refine ⟨p, ?_, by omega, v, hv⟩
            rcases Nat.lt_or_ge c p with hp | hp
            · omega
            · exfalso
              rcases Nat.lt_or_ge p c with hcp | hcp
              · have := hso p c (key, v) kc (by omega) hcp (by omega) hv hkc
                simp only at this; omega
              · have : p = c := by omega
                subst this
                rw [hkc] at hv; cases hv; simp at hkey; omega

/-- **`go_down_searching_key`** (`GoDownSpec` of `RebSpec.lean`) -/
theorem goDownSpec : GoDownSpec := by
  intro t key s so hs hsorted hup hn hu hbr
  obtain ⟨h, _, _, _, ho, hh, _⟩ := hn.lin hs
  exact goDown_aux t key hs (sorted_cells hsorted) hup t.maxDepth s so h hn ho (by omega) hu hbr

end PPLV.COTree
