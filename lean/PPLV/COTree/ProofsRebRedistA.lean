import PPLV.COTree.ProofsRebRedistBasic

/-!
# C16 stage 2 — `redistribute_elements_in_subtree`: the state invariant and one placement
(`redistPlace`, the `top_n == 1` branch)
-/
namespace PPLV.COTree.Redist
open PPLV.COTree PPLV.COTree.Tree

/-- what the loop still has to place: the compacted block `[lastUsed, L]`, with the new pair
    merged at its sorted position while it is pending -/
def stream (key : Nat) (value : Int) (L : Nat) (s : RState) : List (Nat × Int) :=
  if s.addElement then SMap.set (s.t.listRange s.lastUsed (L + 1)) key value
  else s.t.listRange s.lastUsed (L + 1)

/-- number of elements still to place -/
def remaining (L : Nat) (s : RState) : Nat :=
  (L + 1 - s.lastUsed) + (if s.addElement then 1 else 0)

/-- invariant of the loop state; `L` = last slot of the subtree being redistributed -/
structure RInv (key : Nat) (L : Nat) (s : RState) : Prop where
  hsz : L < s.t.cells.size
  hu : s.lastUsed ≤ L + 1
  used : ∀ p, s.lastUsed ≤ p → p ≤ L → ∃ kv, s.t.cell p = some kv
  pend : s.addElement = true → L ≤ s.t.rs ∧ SMap.Sorted (s.t.listRange s.lastUsed (L + 1)) ∧
    (∀ q ∈ s.t.listRange s.lastUsed (L + 1), q.1 ≠ key) ∧
    ∀ p, L < p → p ≤ s.t.rs → ∀ kv, s.t.cell p = some kv → key < kv.1

/-- effect of processing a stack entry with `n` elements whose subtree occupies `[lo, hi]` -/
structure Step (key : Nat) (value : Int) (L lo hi n : Nat) (s s' : RState) : Prop where
  inv : RInv key L s'
  rs : s'.t.rs = s.t.rs
  maxDepth : s'.t.maxDepth = s.t.maxDepth
  size : s'.t.size = s.t.size
  csize : s'.t.cells.size = s.t.cells.size
  frame : ∀ p, (p < lo ∨ L < p) → s'.t.cell p = s.t.cell p
  rem : remaining L s' + n = remaining L s
  hole : ∀ p, hi < p → p < s'.lastUsed → s'.t.cell p = none
  strm : stream key value L s = s'.t.listRange lo (hi + 1) ++ stream key value L s'

theorem move_cell (t : Tree) (u i q : Nat) (hu : u < t.cells.size) (hi : i < t.cells.size) :
    (if u ≠ i then (t.setCell i (t.cell u)).setCell u none else t).cell q
      = if q = i then t.cell u else if q = u then none else t.cell q := by
  by_cases h : u = i
  · subst h
    by_cases h2 : q = u
    · subst h2; simp
    · simp [h2]
  · simp only [ne_eq, h, not_false_eq_true, if_true, cell_setCell, setCell_cells_size, hu, hi,
      and_true]
    by_cases h2 : q = i
    · subst h2
      simp [h]
    · by_cases h3 : q = u
      · subst h3; simp [h2]
      · have : ¬ i = q := fun e => h2 e.symm
        have : ¬ u = q := fun e => h3 e.symm
        simp [*]

theorem move_fields (t : Tree) (u i : Nat) :
    let t' := (if u ≠ i then (t.setCell i (t.cell u)).setCell u none else t)
    t'.rs = t.rs ∧ t'.maxDepth = t.maxDepth ∧ t'.size = t.size ∧ t'.cells.size = t.cells.size := by
  by_cases h : u = i <;> simp [h]

theorem redistPlace_key (key : Nat) (value : Int) (s : RState) (i : Nat)
    (ha : s.addElement = true)
    (ht : s.lastUsed > s.t.rs ∨ idxGt (s.t.cell s.lastUsed) key = true) :
    redistPlace key value s i = ⟨s.t.setCell i (some (key, value)), s.lastUsed, false⟩ := by
  unfold redistPlace
  have : (s.addElement && (decide (s.lastUsed > s.t.rs) || idxGt (s.t.cell s.lastUsed) key)) = true := by
    rcases ht with h | h <;> simp [ha, h]
  rw [if_pos this]

theorem redistPlace_move (key : Nat) (value : Int) (s : RState) (i : Nat)
    (ht : s.addElement = false ∨ (s.lastUsed ≤ s.t.rs ∧ idxGt (s.t.cell s.lastUsed) key = false)) :
    redistPlace key value s i =
      ⟨if s.lastUsed ≠ i then (s.t.setCell i (s.t.cell s.lastUsed)).setCell s.lastUsed none else s.t,
        s.lastUsed + 1, s.addElement⟩ := by
  unfold redistPlace
  have : ¬ (s.addElement && (decide (s.lastUsed > s.t.rs) || idxGt (s.t.cell s.lastUsed) key)) = true := by
    rcases ht with h | ⟨h1, h2⟩
    · simp [h]
    · have : ¬ s.lastUsed > s.t.rs := by omega
      simp [h2, this]
  rw [if_neg this]

theorem set_lt_head (k : Nat) (x : Int) (rest : List (Nat × Int)) (key : Nat) (value : Int)
    (h : key < k) : SMap.set ((k, x) :: rest) key value = (key, value) :: (k, x) :: rest := by
  simp [SMap.set, h]

theorem set_gt_head (k : Nat) (x : Int) (rest : List (Nat × Int)) (key : Nat) (value : Int)
    (h : k < key) : SMap.set ((k, x) :: rest) key value = (k, x) :: SMap.set rest key value := by
  have h1 : ¬ key < k := by omega
  have h2 : ¬ key = k := by omega
  simp [SMap.set, h1, h2]

/-- the new pair is written at `i` -/
theorem step_key (key : Nat) (value : Int) (L lo hi i : Nat) (t : Tree) (u : Nat)
    (inv : RInv key L ⟨t, u, true⟩) (hlo : lo ≤ i) (hhi : i ≤ hi) (hfit : hi + 1 ≤ u)
    (hole : ∀ p, lo ≤ p → p < u → t.cell p = none)
    (ht : u > t.rs ∨ idxGt (t.cell u) key = true) :
    let s' : RState := ⟨t.setCell i (some (key, value)), u, false⟩
    Step key value L lo hi 1 ⟨t, u, true⟩ s' ∧ s'.t.isUnused i = false ∧
      ∀ p, lo ≤ p → p ≤ hi → p ≠ i → s'.t.cell p = none := by
  obtain ⟨hsz, hu, used, pend⟩ := inv
  obtain ⟨hLrs, hsorted, hnk, hright⟩ := pend rfl
  simp only at hsz hu used hLrs hsorted hnk hright
  have hisz : i < t.cells.size := by omega
  have hci : (t.setCell i (some (key, value))).cell i = some (key, value) := by
    rw [cell_setCell]; simp [hisz]
  have hco : ∀ p, p ≠ i → (t.setCell i (some (key, value))).cell p = t.cell p := by
    intro p hp
    rw [cell_setCell]
    have : ¬ i = p := fun e => hp e.symm
    simp [this]
  have hblock : (t.setCell i (some (key, value))).listRange u (L + 1) = t.listRange u (L + 1) :=
    listRange_congr _ _ _ _ (fun p a _ => hco p (by omega))
  have hothers : ∀ p, lo ≤ p → p ≤ hi → p ≠ i → (t.setCell i (some (key, value))).cell p = none := by
    intro p a b c
    rw [hco p c]; exact hole p a (by omega)
  refine ⟨⟨⟨by simpa using hsz, hu, ?_, by intro h; cases h⟩, rfl, rfl, rfl, by simp, ?_, ?_, ?_, ?_⟩,
    ?_, hothers⟩
  · intro p a b
    show ∃ kv, (t.setCell i (some (key, value))).cell p = some kv
    have a' : u ≤ p := a
    rw [hco p (by omega)]; exact used p a b
  · intro p hp
    exact hco p (by omega)
  · simp [remaining]
  · intro p a b
    show (t.setCell i (some (key, value))).cell p = none
    have b' : p < u := b
    rw [hco p (by omega)]; exact hole p (by omega) b
  · show stream key value L ⟨t, u, true⟩ = (t.setCell i (some (key, value))).listRange lo (hi + 1) ++
      stream key value L ⟨t.setCell i (some (key, value)), u, false⟩
    rw [listRange_single _ lo (hi + 1) i (key, value) hlo (by omega) hci
      (fun p a b c => hothers p a (by omega) c)]
    simp only [stream, if_true, hblock, Bool.false_eq_true, if_false]
    by_cases huL : u = L + 1
    · subst huL
      rw [listRange_empty t _ _ (Nat.le_refl _)]
      rfl
    · obtain ⟨⟨k, x⟩, hk⟩ := used u (Nat.le_refl _) (by omega)
      rw [listRange_head t u (L + 1) (k, x) (by omega) hk]
      have : key < k := by
        rcases ht with h | h
        · omega
        · rw [hk] at h
          simpa [idxGt] using h
      rw [set_lt_head _ _ _ _ _ this]
      rfl
  · show (t.setCell i (some (key, value))).isUnused i = false
    unfold Tree.isUnused; rw [hci]; rfl

/-- the first element of the block is moved to `i` -/
theorem step_move (key : Nat) (value : Int) (L lo hi i : Nat) (t : Tree) (u : Nat) (add : Bool)
    (inv : RInv key L ⟨t, u, add⟩) (hlo : lo ≤ i) (hhi : i ≤ hi) (hfit : hi ≤ u) (hiu : i ≤ u)
    (hfit2 : add = true → hi + 1 ≤ u)
    (hole : ∀ p, lo ≤ p → p < u → t.cell p = none)
    (huL : u ≤ L) (hlt : add = true → ∀ k x, t.cell u = some (k, x) → k < key) :
    let s' : RState := ⟨if u ≠ i then (t.setCell i (t.cell u)).setCell u none else t, u + 1, add⟩
    Step key value L lo hi 1 ⟨t, u, add⟩ s' ∧ s'.t.isUnused i = false ∧
      ∀ p, lo ≤ p → p ≤ hi → p ≠ i → s'.t.cell p = none := by
  obtain ⟨hsz, hu, used, pend⟩ := inv
  simp only at hsz hu used pend
  have hisz : i < t.cells.size := by omega
  have husz : u < t.cells.size := by omega
  have hmc := fun q => move_cell t u i q husz hisz
  obtain ⟨f1, f2, f3, f4⟩ := move_fields t u i
  generalize (if u ≠ i then (t.setCell i (t.cell u)).setCell u none else t) = t' at hmc f1 f2 f3 f4
  obtain ⟨⟨k, x⟩, hk⟩ := used u (Nat.le_refl _) huL
  have hci : t'.cell i = some (k, x) := by rw [hmc]; simp [hk]
  have hcu : u ≠ i → t'.cell u = none := by
    intro h; rw [hmc]; simp [h]
  have hco : ∀ p, p ≠ i → p ≠ u → t'.cell p = t.cell p := by
    intro p a b; rw [hmc]; simp [a, b]
  have hblock : t'.listRange (u + 1) (L + 1) = t.listRange (u + 1) (L + 1) :=
    listRange_congr _ _ _ _ (fun p a _ => hco p (by omega) (by omega))
  have hhead : t.listRange u (L + 1) = (k, x) :: t.listRange (u + 1) (L + 1) :=
    listRange_head t u (L + 1) (k, x) (by omega) hk
  have hothers : ∀ p, lo ≤ p → p ≤ hi → p ≠ i → t'.cell p = none := by
    intro p a b c
    by_cases hpu : p = u
    · subst hpu; exact hcu (fun e => c e)
    · rw [hco p c hpu]; exact hole p a (by omega)
  refine ⟨⟨⟨by simpa [f4] using hsz, by simpa using huL, ?_, ?_⟩, f1, f2, f3, f4, ?_, ?_, ?_, ?_⟩,
    ?_, hothers⟩
  · intro p a b
    show ∃ kv, t'.cell p = some kv
    simp only at a
    rw [hco p (by omega) (by omega)]; exact used p (by omega) b
  · intro ha
    simp only at ha
    obtain ⟨hLrs, hsorted, hnk, hright⟩ := pend ha
    show L ≤ t'.rs ∧ SMap.Sorted (t'.listRange (u + 1) (L + 1)) ∧
      (∀ q ∈ t'.listRange (u + 1) (L + 1), q.1 ≠ key) ∧
      ∀ p, L < p → p ≤ t'.rs → ∀ kv, t'.cell p = some kv → key < kv.1
    rw [hblock, f1]
    rw [hhead] at hsorted hnk
    refine ⟨hLrs, SMap.Sorted.tail hsorted, fun q hq => hnk q (List.mem_cons_of_mem _ hq), ?_⟩
    intro p a b kv hkv
    rw [hco p (by omega) (by omega)] at hkv
    exact hright p a b kv hkv
  · intro p hp
    exact hco p (by omega) (by omega)
  · cases add <;> simp [remaining] <;> omega
  · intro p a b
    show t'.cell p = none
    simp only at b
    by_cases hpu : p = u
    · subst hpu; exact hcu (by omega)
    · rw [hco p (by omega) hpu]; exact hole p (by omega) (by omega)
  · show stream key value L ⟨t, u, add⟩ = t'.listRange lo (hi + 1) ++
      stream key value L ⟨t', u + 1, add⟩
    rw [listRange_single _ lo (hi + 1) i (k, x) hlo (by omega) hci
      (fun p a b c => hothers p a (by omega) c)]
    cases add with
    | false =>
      simp only [stream, Bool.false_eq_true, if_false, hblock, hhead]
      rfl
    | true =>
      simp only [stream, if_true, hblock, hhead]
      rw [set_gt_head _ _ _ _ _ (hlt rfl k x hk)]
      rfl
  · show t'.isUnused i = false
    unfold Tree.isUnused; rw [hci]; rfl

/-- **one placement** (`top_n == 1`): the head of the stream lands on slot `i` -/
theorem place_step (key : Nat) (value : Int) (L lo hi i : Nat) (s : RState)
    (inv : RInv key L s) (hlo : lo ≤ i) (hhi : i ≤ hi) (hr : 1 ≤ remaining L s)
    (hfit : hi + (remaining L s - 1) ≤ L)
    (hole : ∀ p, lo ≤ p → p < s.lastUsed → s.t.cell p = none) :
    Step key value L lo hi 1 s (redistPlace key value s i) ∧
      (redistPlace key value s i).t.isUnused i = false ∧
      ∀ p, lo ≤ p → p ≤ hi → p ≠ i → (redistPlace key value s i).t.cell p = none := by
  obtain ⟨t, u, add⟩ := s
  have hu := inv.hu
  simp only at hu hole
  cases add with
  | false =>
    simp only [remaining, Bool.false_eq_true, if_false] at hr hfit
    rw [redistPlace_move key value _ i (Or.inl rfl)]
    exact step_move key value L lo hi i t u false inv hlo hhi (by omega) (by omega)
      (by intro h; cases h) hole (by omega) (by intro h; cases h)
  | true =>
    simp only [remaining, if_true] at hr hfit
    obtain ⟨hLrs, hsorted, hnk, hright⟩ := inv.pend rfl
    simp only at hLrs hsorted hnk hright
    by_cases ht : u > t.rs ∨ idxGt (t.cell u) key = true
    · rw [redistPlace_key key value _ i rfl ht]
      exact step_key key value L lo hi i t u inv hlo hhi (by omega) hole ht
    · have h1 : u ≤ t.rs := by omega
      have h2 : idxGt (t.cell u) key = false := by
        cases h : idxGt (t.cell u) key
        · rfl
        · exact absurd (Or.inr h) ht
      rw [redistPlace_move key value _ i (Or.inr ⟨h1, h2⟩)]
      have hcu : ∃ k x, t.cell u = some (k, x) ∧ k ≤ key := by
        cases hc : t.cell u with
        | none => rw [hc] at h2; simp [idxGt] at h2
        | some kv =>
          obtain ⟨k, x⟩ := kv
          rw [hc] at h2
          exact ⟨k, x, rfl, by simpa [idxGt] using h2⟩
      obtain ⟨k, x, hk, hle⟩ := hcu
      have huL : u ≤ L := by
        by_cases h : u ≤ L
        · exact h
        · have := hright u (by omega) h1 (k, x) hk
          simp only at this; omega
      have hne : k ≠ key := by
        have := hnk (k, x) ((mem_listRange t u (L + 1) (k, x)).2 ⟨u, Nat.le_refl _, by omega, hk⟩)
        exact this
      exact step_move key value L lo hi i t u true inv hlo hhi (by omega) (by omega)
        (by intro _; omega) hole huL
        (by intro _ k' x' hk'; rw [hk] at hk'; cases hk'; omega)

end PPLV.COTree.Redist
