import PPLV.COTree.ProofsRebRedistBasic

/-!
# C16 stage 2 — element counts of a `Tree.Balanced` subtree, sibling counts
-/
namespace PPLV.COTree.Redist
open PPLV.COTree PPLV.COTree.Tree

/-- a `Balanced (h+1) i n` subtree holds exactly `n` elements -/
theorem balanced_count (t : Tree) : ∀ (h i n : Nat), t.Balanced (h + 1) i n → 2 ^ h ≤ i →
    t.countRange (i - (2 ^ h - 1)) (i + 2 ^ h) = n := by
  intro h
  induction h with
  | zero =>
    intro i n hb _
    simp only [Nat.pow_zero, Nat.sub_self, Nat.sub_zero]
    rw [countRange_one]
    unfold Tree.Balanced at hb
    rcases hb with ⟨h0, hn⟩ | ⟨h0, hu, hl, hr⟩
    · have := hn i (by simp) (by simp)
      unfold Tree.isUnused; rw [this]; simp [h0]
    · simp only [Tree.Balanced] at hl hr
      rw [hu]; simp; omega
  | succ h ih =>
    intro i n hb hi
    have ea : 2 ^ (h + 1) = 2 * 2 ^ h := by rw [Nat.pow_succ]; omega
    have ea2 : 2 ^ (h + 1) / 2 = 2 ^ h := two_pow_succ_half h
    have hap : 1 ≤ 2 ^ h := Nat.one_le_two_pow
    unfold Tree.Balanced at hb
    rcases hb with ⟨h0, hn⟩ | ⟨h0, hu, hl, hr⟩
    · rw [h0]
      exact countRange_none t _ _ (fun p a b => hn p a (by omega))
    · rw [ea2] at hl hr
      have cl := ih _ _ hl (by omega)
      have cr := ih _ _ hr (by omega)
      rw [ea]
      generalize 2 ^ h = a at *
      have e1 : i - a - (a - 1) = i - (2 * a - 1) := by omega
      have e2 : i - a + a = i := by omega
      have e3 : i + a - (a - 1) = i + 1 := by omega
      have e4 : i + a + a = i + 2 * a := by omega
      rw [e1, e2] at cl
      rw [e3, e4] at cr
      rw [countRange_split t (i - (2 * a - 1)) i (i + 2 * a) (by omega) (by omega),
        countRange_split t i (i + 1) (i + 2 * a) (by omega) (by omega), cl, cr, countRange_one, hu]
      simp; omega

/-- the two child counts of the half/half rule differ by at most one and sum to `n - 1` -/
theorem half_half_arith (n : Nat) :
    ((n + 1) / 2 - 1) + (n - (n + 1) / 2) = n - 1 ∧
    (n + 1) / 2 - 1 ≤ n - (n + 1) / 2 ∧ n - (n + 1) / 2 ≤ ((n + 1) / 2 - 1) + 1 := by
  omega

/-- in a non-empty `Balanced (h+2) i n` subtree the two child subtrees hold `(n+1)/2 - 1` and
    `n - (n+1)/2` elements -/
theorem balanced_children_count (t : Tree) (h i n : Nat) (hb : t.Balanced (h + 2) i n)
    (hn : n ≠ 0) (hi : 2 ^ (h + 1) ≤ i) :
    t.countRange (i - (2 ^ (h + 1) - 1)) i = (n + 1) / 2 - 1 ∧
    t.countRange (i + 1) (i + 2 ^ (h + 1)) = n - (n + 1) / 2 := by
  have ea : 2 ^ (h + 1) = 2 * 2 ^ h := by rw [Nat.pow_succ]; omega
  have ea2 : 2 ^ (h + 1) / 2 = 2 ^ h := two_pow_succ_half h
  have hap : 1 ≤ 2 ^ h := Nat.one_le_two_pow
  unfold Tree.Balanced at hb
  rcases hb with ⟨h0, -⟩ | ⟨-, -, hl, hr⟩
  · exact absurd h0 hn
  · rw [ea2] at hl hr
    have cl := balanced_count t _ _ _ hl (by omega)
    have cr := balanced_count t _ _ _ hr (by omega)
    rw [ea]
    generalize 2 ^ h = a at *
    have e1 : i - a - (a - 1) = i - (2 * a - 1) := by omega
    have e2 : i - a + a = i := by omega
    have e3 : i + a - (a - 1) = i + 1 := by omega
    have e4 : i + a + a = i + 2 * a := by omega
    rw [e1, e2] at cl
    rw [e3, e4] at cr
    exact ⟨cl, cr⟩

end PPLV.COTree.Redist
