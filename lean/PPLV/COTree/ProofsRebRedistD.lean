import PPLV.COTree.ProofsRebRedistBasic
import Mathlib.Tactic.Ring
import Mathlib.Tactic.Linarith

/-!
# C16 stage 2 — consequences of the half/half layout `Tree.Balanced`
up-closedness, element counts, sibling counts; nodes of a well-shaped tree lie inside the array.
-/
namespace PPLV.COTree.Redist
open PPLV.COTree PPLV.COTree.Tree

/-- `get_parent()` of the node `2^k (2m+1)` -/
theorem getParent_i (k m : Nat) :
    (TIt.getParent ⟨2 ^ k * (2 * m + 1), 2 ^ k⟩).i =
      if m % 2 = 1 then 2 ^ k * (2 * m + 1) - 2 ^ k else 2 ^ k * (2 * m + 1) + 2 ^ k := by
  have ha : 0 < 2 ^ k := Nat.two_pow_pos k
  unfold TIt.getParent
  simp only
  generalize 2 ^ k = a at *
  have h1 : a * (2 * m + 1) / a = 2 * m + 1 := Nat.mul_div_cancel_left _ ha
  have h2 : (2 * m + 1) % 2 = 1 := by omega
  rw [h1, h2, if_pos rfl]
  have h3 : a * (2 * m + 1) - a = (a * 2) * m := by
    have : a * (2 * m + 1) = (a * 2) * m + a := by ring
    omega
  have h4 : (a * 2) * m / (a * 2) = m := Nat.mul_div_cancel_left _ (by omega)
  rw [h3, h4]
  have h5 : a * (2 * m + 1) = (a * 2) * m + a := by ring
  split <;> omega

theorem node_children' (h m : Nat) :
    2 ^ h * (2 * (2 * m) + 1) = 2 ^ (h + 1) * (2 * m + 1) - 2 ^ h ∧
    2 ^ h * (2 * (2 * m + 1) + 1) = 2 ^ (h + 1) * (2 * m + 1) + 2 ^ h ∧
    2 * 2 ^ h ≤ 2 ^ (h + 1) * (2 * m + 1) := by
  have e : 2 ^ (h + 1) * (2 * m + 1) = 4 * (2 ^ h * m) + 2 * 2 ^ h := by ring
  have e1 : 2 ^ h * (2 * (2 * m) + 1) = 4 * (2 ^ h * m) + 2 ^ h := by ring
  have e2 : 2 ^ h * (2 * (2 * m + 1) + 1) = 4 * (2 ^ h * m) + 3 * 2 ^ h := by ring
  omega

/-- a node of a well-shaped tree has its whole subtree inside the array -/
theorem isNode_hi_le_rs (t : Tree) (i o : Nat) (hs : t.Shape) (hn : t.IsNode i o) :
    i + (o - 1) ≤ t.rs := by
  obtain ⟨hrs, hd, -, -, -⟩ := hs
  obtain ⟨h, m, rfl, rfl, hi⟩ := hn
  rw [hrs] at hi ⊢
  generalize t.maxDepth = d at *
  have hp : 0 < 2 ^ h := Nat.two_pow_pos h
  have hpd : 0 < 2 ^ d := Nat.two_pow_pos d
  have h1 : 2 ^ h ≤ 2 ^ h * (2 * m + 1) := Nat.le_mul_of_pos_right _ (by omega)
  have hlt : 2 ^ h < 2 ^ d := by omega
  have hhd : h < d := (Nat.pow_lt_pow_iff_right (by omega)).1 hlt
  obtain ⟨e, rfl⟩ : ∃ e, d = h + (e + 1) := ⟨d - h - 1, by omega⟩
  have hpow : 2 ^ (h + (e + 1)) = 2 ^ h * (2 * 2 ^ e) := by
    rw [Nat.pow_add, Nat.pow_succ]; ring
  rw [hpow] at hi ⊢
  have h2 : 2 ^ h * (2 * m + 1) < 2 ^ h * (2 * 2 ^ e) := by omega
  have h3 : 2 * m + 1 < 2 * 2 ^ e := Nat.lt_of_mul_lt_mul_left h2
  have h4 : 2 ^ h * (2 * m + 2) ≤ 2 ^ h * (2 * 2 ^ e) := Nat.mul_le_mul_left _ (by omega)
  have h5 : 2 ^ h * (2 * m + 2) = 2 ^ h * (2 * m + 1) + 2 ^ h := by ring
  omega

/-- a `Balanced` subtree with no element is all free -/
theorem balanced_zero_none (t : Tree) (h i : Nat) (hb : t.Balanced (h + 1) i 0) :
    ∀ p, i - (2 ^ h - 1) ≤ p → p ≤ i + (2 ^ h - 1) → t.cell p = none := by
  unfold Tree.Balanced at hb
  rcases hb with ⟨-, hn⟩ | ⟨h0, -⟩
  · exact hn
  · exact absurd rfl h0

/-- inside a `Balanced` subtree rooted at the node `r = 2^h (2M+1)`, every used node other than
    the root has a used parent -/
theorem balanced_upClosed_aux (t : Tree) : ∀ (h M n : Nat),
    t.Balanced (h + 1) (2 ^ h * (2 * M + 1)) n →
    ∀ k m, k < h → 2 ^ h * (2 * M + 1) - (2 ^ h - 1) ≤ 2 ^ k * (2 * m + 1) →
      2 ^ k * (2 * m + 1) ≤ 2 ^ h * (2 * M + 1) + (2 ^ h - 1) →
      t.isUnused (2 ^ k * (2 * m + 1)) = false →
      t.isUnused (TIt.getParent ⟨2 ^ k * (2 * m + 1), 2 ^ k⟩).i = false := by
  intro h
  induction h with
  | zero => intro M n _ k m hk; omega
  | succ h ih =>
    intro M n hb k m hk hlo hhi hu
    obtain ⟨el, er, hia⟩ := node_children' h M
    have ea : 2 ^ (h + 1) = 2 * 2 ^ h := by rw [Nat.pow_succ]; omega
    have ea2 : 2 ^ (h + 1) / 2 = 2 ^ h := two_pow_succ_half h
    have hap : 1 ≤ 2 ^ h := Nat.one_le_two_pow
    unfold Tree.Balanced at hb
    rcases hb with ⟨-, hn⟩ | ⟨h0, hur, hbl, hbr⟩
    · have := hn _ hlo hhi
      unfold Tree.isUnused at hu
      rw [this] at hu
      simp at hu
    · rw [ea2] at hbl hbr
      by_cases hkh : k = h
      · subst hkh
        -- `i` is a child of the root
        have hpk : 0 < 2 ^ k := Nat.two_pow_pos k
        have er' : 2 ^ (k + 1) * (2 * M + 1) = 2 ^ k * (4 * M + 2) := by ring
        rw [er'] at hlo hhi hur
        have b1 : 2 ^ k * (4 * M) < 2 ^ k * (2 * m + 1) := by
          have : 2 ^ k * (4 * M + 2) = 2 ^ k * (4 * M) + 2 * 2 ^ k := by ring
          omega
        have b2 : 2 ^ k * (2 * m + 1) < 2 ^ k * (4 * M + 4) := by
          have : 2 ^ k * (4 * M + 4) = 2 ^ k * (4 * M + 2) + 2 * 2 ^ k := by ring
          omega
        have c1 := Nat.lt_of_mul_lt_mul_left b1
        have c2 := Nat.lt_of_mul_lt_mul_left b2
        rw [getParent_i]
        have hm : m = 2 * M ∨ m = 2 * M + 1 := by omega
        rcases hm with rfl | rfl
        · have : (2 * M) % 2 ≠ 1 := by omega
          rw [if_neg this]
          have : 2 ^ k * (2 * (2 * M) + 1) + 2 ^ k = 2 ^ k * (4 * M + 2) := by ring
          rw [this]; exact hur
        · have : (2 * M + 1) % 2 = 1 := by omega
          rw [if_pos this]
          have : 2 ^ k * (2 * (2 * M + 1) + 1) - 2 ^ k = 2 ^ k * (4 * M + 2) := by
            have : 2 ^ k * (2 * (2 * M + 1) + 1) = 2 ^ k * (4 * M + 2) + 2 ^ k := by ring
            omega
          rw [this]; exact hur
      · have hk' : k < h := by omega
        -- `i` is not the root
        have hne : 2 ^ k * (2 * m + 1) ≠ 2 ^ (h + 1) * (2 * M + 1) := by
          intro e
          obtain ⟨d, rfl⟩ : ∃ d, h = k + d := ⟨h - k, by omega⟩
          have e2 : 2 ^ (k + d + 1) * (2 * M + 1) = 2 ^ k * (2 * (2 ^ d * (2 * M + 1))) := by
            rw [Nat.pow_succ, Nat.pow_add]; ring
          rw [e2] at e
          have := Nat.eq_of_mul_eq_mul_left (Nat.two_pow_pos k) e
          omega
        by_cases hlt : 2 ^ k * (2 * m + 1) < 2 ^ (h + 1) * (2 * M + 1)
        · rw [← el] at hbl
          apply ih (2 * M) _ hbl k m hk' _ _ hu
          · rw [el]; omega
          · rw [el]; omega
        · rw [← er] at hbr
          apply ih (2 * M + 1) _ hbr k m hk' _ _ hu
          · rw [er]; omega
          · rw [er]; omega

theorem balancedUpClosed (t : Tree) (n : Nat) (hs : t.Shape)
    (hb : t.Balanced t.maxDepth (t.rs / 2 + 1) n) : t.UpClosed := by
  obtain ⟨hrs, hd, -, -, -⟩ := hs
  intro i o hn hu ho
  obtain ⟨k, m, rfl, rfl, hi⟩ := hn
  obtain ⟨d, hd'⟩ : ∃ d, t.maxDepth = d + 1 := ⟨t.maxDepth - 1, by omega⟩
  rw [hd'] at hb hrs
  have ea : 2 ^ (d + 1) = 2 * 2 ^ d := by rw [Nat.pow_succ]; omega
  have hpd : 1 ≤ 2 ^ d := Nat.one_le_two_pow
  have hroot : t.rs / 2 + 1 = 2 ^ d * (2 * 0 + 1) := by rw [hrs, ea]; omega
  rw [hroot] at hb ho
  have hpk : 0 < 2 ^ k := Nat.two_pow_pos k
  have h1 : 2 ^ k ≤ 2 ^ k * (2 * m + 1) := Nat.le_mul_of_pos_right _ (by omega)
  have hlt : 2 ^ k < 2 ^ (d + 1) := by omega
  have hkd : k < d + 1 := (Nat.pow_lt_pow_iff_right (by omega)).1 hlt
  have hkd' : k ≠ d := by
    intro e; subst e; simp at ho
  exact balanced_upClosed_aux t d 0 n hb k m (by omega) (by simp; omega) (by simp; omega) hu

end PPLV.COTree.Redist
