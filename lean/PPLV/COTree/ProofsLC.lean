import PPLV.COTree.ProofsOps

/-! # `linear_combine` on sub-ranges, permutations -/
namespace PPLV.COTree
open SMap

namespace SMap

theorem get_append_disjoint : ∀ (l1 l2 : SMap) (k : Nat), (∀ p ∈ l1, ∀ q ∈ l2, p.1 ≠ q.1) →
    get (l1 ++ l2) k = get l1 k + get l2 k
  | [], l2, k, _ => by simp
  | (k', v) :: t, l2, k, h => by
    have ih := get_append_disjoint t l2 k
      (fun p hp q hq => h p (List.mem_cons_of_mem _ hp) q hq)
    simp only [List.cons_append, get_cons]
    by_cases hk : k' = k
    · subst hk
      have : get l2 k' = 0 := get_eq_zero_of_not_mem l2 k'
        (fun q hq e => h (k', v) (List.mem_cons_self ..) q hq e.symm)
      simp [this]
    · simp [hk, ih]

/-- keys produced by the merge come from one of the two rows -/
theorem mem_zipWalk_lc (c1 c2 : Int) : ∀ (xs ys : SMap) (p : Nat × Int),
    p ∈ zipWalk (lcStep c1 c2) [] xs ys → (∃ q ∈ xs, q.1 = p.1) ∨ (∃ q ∈ ys, q.1 = p.1) := by
  intro xs ys
  induction xs, ys using zipWalk.induct with
  | case1 => intro p hp; simp [zipWalk_nil_nil] at hp
  | case2 i a xs ih =>
    intro p hp
    rw [zipWalk_cons_nil] at hp
    unfold lcStep at hp
    dsimp only at hp
    split at hp
    · rcases ih p hp with ⟨q, hq, e⟩ | ⟨q, hq, e⟩
      · exact Or.inl ⟨q, List.mem_cons_of_mem _ hq, e⟩
      · simp at hq
    · rcases List.mem_cons.mp hp with rfl | hp
      · exact Or.inl ⟨(i, a), List.mem_cons_self .., rfl⟩
      · rcases ih p hp with ⟨q, hq, e⟩ | ⟨q, hq, e⟩
        · exact Or.inl ⟨q, List.mem_cons_of_mem _ hq, e⟩
        · simp at hq
  | case3 j b ys ih =>
    intro p hp
    rw [zipWalk_nil_cons] at hp
    unfold lcStep at hp
    dsimp only at hp
    split at hp
    · rcases ih p hp with ⟨q, hq, e⟩ | ⟨q, hq, e⟩
      · simp at hq
      · exact Or.inr ⟨q, List.mem_cons_of_mem _ hq, e⟩
    · rcases List.mem_cons.mp hp with rfl | hp
      · exact Or.inr ⟨(j, b), List.mem_cons_self .., rfl⟩
      · rcases ih p hp with ⟨q, hq, e⟩ | ⟨q, hq, e⟩
        · simp at hq
        · exact Or.inr ⟨q, List.mem_cons_of_mem _ hq, e⟩
  | case4 a xs j b ys ih =>
    intro p hp
    rw [zipWalk_cons_cons, if_pos rfl] at hp
    unfold lcStep at hp
    dsimp only at hp
    have hrest : ∀ p, p ∈ zipWalk (lcStep c1 c2) [] xs ys →
        (∃ q ∈ (j, a) :: xs, q.1 = p.1) ∨ (∃ q ∈ (j, b) :: ys, q.1 = p.1) := by
      intro p hp
      rcases ih p hp with ⟨q, hq, e⟩ | ⟨q, hq, e⟩
      · exact Or.inl ⟨q, List.mem_cons_of_mem _ hq, e⟩
      · exact Or.inr ⟨q, List.mem_cons_of_mem _ hq, e⟩
    split at hp
    · exact hrest p hp
    · rcases List.mem_cons.mp hp with rfl | hp
      · exact Or.inl ⟨(j, a), List.mem_cons_self .., rfl⟩
      · exact hrest p hp
  | case5 i a xs j b ys hne hlt ih =>
    intro p hp
    rw [zipWalk_cons_cons, if_neg hne, if_pos hlt] at hp
    unfold lcStep at hp
    dsimp only at hp
    have hrest : ∀ p, p ∈ zipWalk (lcStep c1 c2) [] xs ((j, b) :: ys) →
        (∃ q ∈ (i, a) :: xs, q.1 = p.1) ∨ (∃ q ∈ (j, b) :: ys, q.1 = p.1) := by
      intro p hp
      rcases ih p hp with ⟨q, hq, e⟩ | ⟨q, hq, e⟩
      · exact Or.inl ⟨q, List.mem_cons_of_mem _ hq, e⟩
      · exact Or.inr ⟨q, hq, e⟩
    split at hp
    · exact hrest p hp
    · rcases List.mem_cons.mp hp with rfl | hp
      · exact Or.inl ⟨(i, a), List.mem_cons_self .., rfl⟩
      · exact hrest p hp
  | case6 i a xs j b ys hne hlt ih =>
    intro p hp
    rw [zipWalk_cons_cons, if_neg hne, if_neg hlt] at hp
    unfold lcStep at hp
    dsimp only at hp
    have hrest : ∀ p, p ∈ zipWalk (lcStep c1 c2) [] ((i, a) :: xs) ys →
        (∃ q ∈ (i, a) :: xs, q.1 = p.1) ∨ (∃ q ∈ (j, b) :: ys, q.1 = p.1) := by
      intro p hp
      rcases ih p hp with ⟨q, hq, e⟩ | ⟨q, hq, e⟩
      · exact Or.inl ⟨q, hq, e⟩
      · exact Or.inr ⟨q, List.mem_cons_of_mem _ hq, e⟩
    split at hp
    · exact hrest p hp
    · rcases List.mem_cons.mp hp with rfl | hp
      · exact Or.inr ⟨(j, b), List.mem_cons_self .., rfl⟩
      · exact hrest p hp

theorem sorted_lcStep {c1 c2 : Int} {k : Nat} {a b : Int} {rest : SMap} (hr : Sorted rest)
    (hk : ∀ p ∈ rest, k < p.1) : Sorted (lcStep c1 c2 k a b rest) := by
  unfold lcStep
  dsimp only
  split
  · exact hr
  · exact sorted_cons.mpr ⟨hk, hr⟩

theorem sorted_zipWalk_lc (c1 c2 : Int) : ∀ (xs ys : SMap), Sorted xs → Sorted ys →
    Sorted (zipWalk (lcStep c1 c2) [] xs ys) := by
  intro xs ys
  induction xs, ys using zipWalk.induct with
  | case1 => intro _ _; rw [zipWalk_nil_nil]; exact sorted_nil
  | case2 i a xs ih =>
    intro hx hy
    rw [zipWalk_cons_nil]
    apply sorted_lcStep (ih hx.tail hy)
    intro p hp
    rcases mem_zipWalk_lc c1 c2 _ _ p hp with ⟨q, hq, e⟩ | ⟨q, hq, e⟩
    · rw [← e]; exact hx.head_lt q hq
    · simp at hq
  | case3 j b ys ih =>
    intro hx hy
    rw [zipWalk_nil_cons]
    apply sorted_lcStep (ih hx hy.tail)
    intro p hp
    rcases mem_zipWalk_lc c1 c2 _ _ p hp with ⟨q, hq, e⟩ | ⟨q, hq, e⟩
    · simp at hq
    · rw [← e]; exact hy.head_lt q hq
  | case4 a xs j b ys ih =>
    intro hx hy
    rw [zipWalk_cons_cons, if_pos rfl]
    apply sorted_lcStep (ih hx.tail hy.tail)
    intro p hp
    rcases mem_zipWalk_lc c1 c2 _ _ p hp with ⟨q, hq, e⟩ | ⟨q, hq, e⟩
    · rw [← e]; exact hx.head_lt q hq
    · rw [← e]; exact hy.head_lt q hq
  | case5 i a xs j b ys hne hlt ih =>
    intro hx hy
    rw [zipWalk_cons_cons, if_neg hne, if_pos hlt]
    apply sorted_lcStep (ih hx.tail hy)
    intro p hp
    rcases mem_zipWalk_lc c1 c2 _ _ p hp with ⟨q, hq, e⟩ | ⟨q, hq, e⟩
    · rw [← e]; exact hx.head_lt q hq
    · rw [← e]
      rcases List.mem_cons.mp hq with rfl | hq
      · exact hlt
      · exact Nat.lt_trans hlt (hy.head_lt q hq)
  | case6 i a xs j b ys hne hlt ih =>
    intro hx hy
    rw [zipWalk_cons_cons, if_neg hne, if_neg hlt]
    have hji : j < i := by omega
    apply sorted_lcStep (ih hx hy.tail)
    intro p hp
    rcases mem_zipWalk_lc c1 c2 _ _ p hp with ⟨q, hq, e⟩ | ⟨q, hq, e⟩
    · rw [← e]
      rcases List.mem_cons.mp hq with rfl | hq
      · exact hji
      · exact Nat.lt_trans hji (hx.head_lt q hq)
    · rw [← e]; exact hy.head_lt q hq

theorem get_lcStep (c1 c2 : Int) (k : Nat) (a b : Int) (rest : SMap) (j : Nat)
    (hr : get rest k = 0) :
    get (lcStep c1 c2 k a b rest) j = if k = j then c1 * a + c2 * b else get rest j := by
  unfold lcStep
  dsimp only
  split
  · rename_i h0
    by_cases hk : k = j
    · subst hk; simp [hr, h0]
    · simp [hk]
  · simp [get_cons]

/-- the merge computes `c1 * x[k] + c2 * y[k]` at every index -/
theorem get_zipWalk_lc (c1 c2 : Int) : ∀ (xs ys : SMap), Sorted xs → Sorted ys → ∀ k,
    get (zipWalk (lcStep c1 c2) [] xs ys) k = c1 * get xs k + c2 * get ys k := by
  intro xs ys
  induction xs, ys using zipWalk.induct with
  | case1 => intro _ _ k; simp [zipWalk_nil_nil]
  | case2 i a xs ih =>
    intro hx hy k
    rw [zipWalk_cons_nil, get_lcStep, ih hx.tail hy k]
    · by_cases hk : i = k <;> simp [hk]
    · rw [ih hx.tail hy i, hx.get_tail_zero (Nat.le_refl _)]; simp
  | case3 j b ys ih =>
    intro hx hy k
    rw [zipWalk_nil_cons, get_lcStep, ih hx hy.tail k]
    · by_cases hk : j = k <;> simp [hk]
    · rw [ih hx hy.tail j, hy.get_tail_zero (Nat.le_refl _)]; simp
  | case4 a xs j b ys ih =>
    intro hx hy k
    rw [zipWalk_cons_cons, if_pos rfl, get_lcStep, ih hx.tail hy.tail k]
    · by_cases hk : j = k <;> simp [hk]
    · rw [ih hx.tail hy.tail j, hx.get_tail_zero (Nat.le_refl _), hy.get_tail_zero (Nat.le_refl _)]
      simp
  | case5 i a xs j b ys hne hlt ih =>
    intro hx hy k
    rw [zipWalk_cons_cons, if_neg hne, if_pos hlt, get_lcStep, ih hx.tail hy k]
    · by_cases hk : i = k
      · subst hk
        have : ¬ j = i := fun e => hne e.symm
        have h0 : get ys i = 0 := hy.get_tail_zero (Nat.le_of_lt hlt)
        simp [this, h0]
      · simp [hk]
    · rw [ih hx.tail hy i, hx.get_tail_zero (Nat.le_refl _)]
      have : ¬ j = i := fun e => hne e.symm
      have h0 : get ys i = 0 := hy.get_tail_zero (Nat.le_of_lt hlt)
      simp [this, h0]
  | case6 i a xs j b ys hne hlt ih =>
    intro hx hy k
    have hji : j < i := by omega
    rw [zipWalk_cons_cons, if_neg hne, if_neg hlt, get_lcStep, ih hx hy.tail k]
    · by_cases hk : j = k
      · subst hk
        have h0 : get xs j = 0 := hx.get_tail_zero (Nat.le_of_lt hji)
        simp [hne, h0]
      · simp [hk]
    · rw [ih hx hy.tail j, hy.get_tail_zero (Nat.le_refl _)]
      have h0 : get xs j = 0 := hx.get_tail_zero (Nat.le_of_lt hji)
      simp [hne, h0]

theorem get_linearCombine {x y : SMap} (hx : Sorted x) (hy : Sorted y) (c1 c2 : Int)
    {s e : Nat} (hse : s ≤ e) (k : Nat) :
    get (linearCombine x y c1 c2 s e) k =
      if s ≤ k ∧ k < e then c1 * get x k + c2 * get y k else get x k := by
  unfold linearCombine
  have hmid : ∀ p ∈ zipWalk (lcStep c1 c2) [] (x.restrict s e) (y.restrict s e), s ≤ p.1 ∧ p.1 < e := by
    intro p hp
    rcases mem_zipWalk_lc c1 c2 _ _ p hp with ⟨q, hq, h⟩ | ⟨q, hq, h⟩
    · have := restrict_range x s e q hq; omega
    · have := restrict_range y s e q hq; omega
  rw [get_append_disjoint, get_append_disjoint, get_zipWalk_lc c1 c2 _ _ (restrict_sorted hx s e)
    (restrict_sorted hy s e), get_restrict, get_restrict,
    get_filter_key (fun k => decide (k < s)), get_filter_key (fun k => decide (e ≤ k))]
  · by_cases h1 : k < s
    · have : ¬ (s ≤ k ∧ k < e) := by omega
      have h2 : ¬ e ≤ k := by omega
      simp [h1, this, h2]
    · by_cases h2 : e ≤ k
      · have : ¬ (s ≤ k ∧ k < e) := by omega
        simp [h1, this, h2]
      · have : s ≤ k ∧ k < e := by omega
        simp [h1, this, h2]
  · intro p hp q hq
    have h1 := (List.mem_filter.mp hp).2
    have h2 := hmid q hq
    simp at h1; omega
  · intro p hp q hq
    have h2 := (List.mem_filter.mp hq).2
    simp at h2
    rcases List.mem_append.mp hp with hp | hp
    · have h1 := (List.mem_filter.mp hp).2
      simp at h1; omega
    · have := hmid p hp; omega

theorem sorted_linearCombine {x y : SMap} (hx : Sorted x) (hy : Sorted y) (c1 c2 : Int)
    {s e : Nat} (hse : s ≤ e) : Sorted (linearCombine x y c1 c2 s e) := by
  unfold linearCombine
  have hmid : ∀ p ∈ zipWalk (lcStep c1 c2) [] (x.restrict s e) (y.restrict s e), s ≤ p.1 ∧ p.1 < e := by
    intro p hp
    rcases mem_zipWalk_lc c1 c2 _ _ p hp with ⟨q, hq, h⟩ | ⟨q, hq, h⟩
    · have := restrict_range x s e q hq; omega
    · have := restrict_range y s e q hq; omega
  unfold Sorted
  rw [List.pairwise_append, List.pairwise_append]
  refine ⟨⟨hx.filter _, sorted_zipWalk_lc c1 c2 _ _ (restrict_sorted hx s e) (restrict_sorted hy s e), ?_⟩,
    hx.filter _, ?_⟩
  · intro p hp q hq
    have h1 := (List.mem_filter.mp hp).2
    have h2 := hmid q hq
    simp at h1; omega
  · intro p hp q hq
    have h2 := (List.mem_filter.mp hq).2
    simp at h2
    rcases List.mem_append.mp hp with hp | hp
    · have h1 := (List.mem_filter.mp hp).2
      simp at h1; omega
    · have := hmid p hp; omega

theorem below_linearCombine {x y : SMap} {n : Nat} (hb : x.Below n) (c1 c2 : Int)
    {s e : Nat} (he : e ≤ n) : (linearCombine x y c1 c2 s e).Below n := by
  unfold linearCombine
  intro p hp
  rcases List.mem_append.mp hp with hp | hp
  · rcases List.mem_append.mp hp with hp | hp
    · exact hb p (List.mem_filter.mp hp).1
    · rcases mem_zipWalk_lc c1 c2 _ _ p hp with ⟨q, hq, h⟩ | ⟨q, hq, h⟩
      · have := restrict_range x s e q hq; omega
      · have := restrict_range y s e q hq; omega
  · exact hb p (List.mem_filter.mp hp).1

end SMap

theorem dense_linearCombine {nx ny : Nat} {x y : SMap} (hx : Sorted x) (hy : Sorted y)
    (hby : y.Below ny) (c1 c2 : Int) {s e : Nat} (hse : s ≤ e) :
    toDenseN nx (x.linearCombine y c1 c2 s e)
      = Dense.linearCombine (toDenseN nx x) (toDenseN ny y) c1 c2 s e := by
  symm; apply eq_toDenseN; intro j
  simp only [Dense.linearCombine, List.getElem?_mapIdx, getElem?_toDenseN,
    get_linearCombine hx hy c1 c2 hse, getD_toDenseN_of_below hby]
  grind

/-! ### permutations: a chain of swaps -/

theorem sorted_permute {m : SMap} (h : Sorted m) : ∀ c : List Nat, Sorted (m.permute c)
  | [] => h
  | [_] => h
  | _ :: c1 :: rest => sorted_swap _ _ _ (sorted_permute h (c1 :: rest))

theorem below_permute {m : SMap} {n : Nat} (h : m.Below n) :
    ∀ c : List Nat, (∀ i ∈ c, i < n) → (m.permute c).Below n
  | [], _ => h
  | [_], _ => h
  | c0 :: c1 :: rest, hc =>
    below_swap (below_permute h (c1 :: rest) (fun i hi => hc i (List.mem_cons_of_mem _ hi)))
      (hc c1 (by simp)) (hc c0 (by simp))

theorem dense_permute {m : SMap} {n : Nat} (h : m.Below n) :
    ∀ c : List Nat, (∀ i ∈ c, i < n) → toDenseN n (m.permute c) = Dense.permute (toDenseN n m) c
  | [], _ => rfl
  | [_], _ => rfl
  | c0 :: c1 :: rest, hc => by
    have hc' : ∀ i ∈ c1 :: rest, i < n := fun i hi => hc i (List.mem_cons_of_mem _ hi)
    show toDenseN n ((m.permute (c1 :: rest)).swap c1 c0) = Dense.swap (Dense.permute (toDenseN n m) (c1 :: rest)) c1 c0
    rw [dense_swap (below_permute h _ hc') c1 c0 (hc c1 (by simp)) (hc c0 (by simp)),
      dense_permute h (c1 :: rest) hc']

end PPLV.COTree
