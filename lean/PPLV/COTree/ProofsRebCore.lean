import PPLV.COTree.ProofsRebInsNav
import PPLV.COTree.ProofsRebWalk

/-!
# C16 stage 2 — the second half of `rebalance`: compaction then redistribution of a subtree

`rebalance_core`: on the subtree `(j, 2^h)` found by the `while`, `compact_elements_in_the_rightmost_end`
followed by `redistribute_elements_in_subtree` (hypothesis `RedistSpec`) rebuilds the subtree in the
half/half layout, with the new pair merged when `add`.  `rebalance_eq` puts the pieces of
`rebalance` together.  No Mathlib.
-/
namespace PPLV.COTree
open Tree

theorem pow2_inj {a b : Nat} (h : 2 ^ a = 2 ^ b) : a = b := by
  have h1 := (Nat.pow_le_pow_iff_right (by decide : 1 < 2)).mp (Nat.le_of_eq h)
  have h2 := (Nat.pow_le_pow_iff_right (by decide : 1 < 2)).mp (Nat.le_of_eq h.symm)
  omega

theorem rebalance_core (hr : RedistSpec) (t : Tree) (j h n key : Nat) (value : Int) (add : Bool)
    (hs : t.Shape) (hj : t.IsNode j (2 ^ h))
    (hn : n = t.countRange (j - (2 ^ h - 1)) (j + 2 ^ h) + (if add then 1 else 0))
    (hn1 : 1 ≤ n) (hn2 : n ≤ 2 * 2 ^ h - 1)
    (hadd : add = true →
      SMap.Sorted (t.listRange (j - (2 ^ h - 1)) (j + 2 ^ h)) ∧
      (∀ q ∈ t.listRange (j - (2 ^ h - 1)) (j + 2 ^ h), q.1 ≠ key) ∧
      (∀ p, 1 ≤ p → p < j - (2 ^ h - 1) → ∀ kv, t.cell p = some kv → kv.1 < key) ∧
      (∀ p, j + (2 ^ h - 1) < p → p ≤ t.rs → ∀ kv, t.cell p = some kv → key < kv.1)) :
    ∃ s, redistributeElementsInSubtree
          (compactElementsInTheRightmostEnd t (j + 2 ^ h - 1) n key value add).1 j n
          ((compactElementsInTheRightmostEnd t (j + 2 ^ h - 1) n key value add).2 + 1) key value
          ((compactElementsInTheRightmostEnd t (j + 2 ^ h - 1) n key value add).2
            != j + 2 ^ h - 1 - n) = some s ∧
      t.FrameOn s.t (j - (2 ^ h - 1)) (j + (2 ^ h - 1)) ∧
      s.t.listRange (j - (2 ^ h - 1)) (j + 2 ^ h) =
        (if add then SMap.set (t.listRange (j - (2 ^ h - 1)) (j + 2 ^ h)) key value
         else t.listRange (j - (2 ^ h - 1)) (j + 2 ^ h)) ∧
      s.t.Balanced (h + 1) j n := by
  have hb := hj.bounds hs
  have hsz : t.cells.size = t.rs + 2 := hs.2.2.1
  have eL : j + 2 ^ h - 1 = j + (2 ^ h - 1) := by omega
  have eL1 : j + 2 ^ h = j + (2 ^ h - 1) + 1 := by omega
  rw [eL]
  rw [eL1] at hn hadd ⊢
  have hadd' : add = true →
      SMap.Sorted (t.listRange (j - (2 ^ h - 1)) (j + (2 ^ h - 1) + 1)) ∧
      (∀ q ∈ t.listRange (j - (2 ^ h - 1)) (j + (2 ^ h - 1) + 1), q.1 ≠ key) ∧
      ∀ p, 1 ≤ p → p < j - (2 ^ h - 1) → ∀ kv, t.cell p = some kv → kv.1 < key :=
    fun ha => ⟨(hadd ha).1, (hadd ha).2.1, (hadd ha).2.2.1⟩
  obtain ⟨c1, c2, c3, _⟩ := compactSpec t (j - (2 ^ h - 1)) (j + (2 ^ h - 1)) n key value add
    hb.2.2.1 (by omega) hb.2.2.2.1 hsz hn hn1 (by omega) hadd'
  obtain ⟨d1, d2, d3, d4⟩ := compactSpec_pend t (j - (2 ^ h - 1)) (j + (2 ^ h - 1)) n key value add
    hb.2.2.1 (by omega) hb.2.2.2.1 hsz hn hn1 (by omega) hadd'
  generalize compactElementsInTheRightmostEnd t (j + (2 ^ h - 1)) n key value add = c
    at c1 c2 c3 d1 d2 d3 d4 ⊢
  obtain ⟨f1, f2, f3, f4, f5⟩ := c1
  have hjc : c.1.IsNode j (2 ^ h) := hj.of_rs f1
  cases hp : (c.2 != j + (2 ^ h - 1) - n) with
  | false =>
    obtain ⟨e1, e2⟩ := d3 hp
    obtain ⟨s, r1, _, r3, r4, r5⟩ := hr c.1 j (2 ^ h) n (c.2 + 1) key value false hjc
      (by rw [f1]; exact hb.2.2.2.1) (by rw [f4, f1]; exact hsz) hn1 hn2
      (by simp; omega)
      (fun p h1 h2 => c2 p h1 (by omega))
      (fun p h1 h2 => c3 p (by omega) h2)
      (fun hc => by cases hc)
    refine ⟨s, r1, cmp_frameOn_trans ⟨f1, f2, f3, f4, f5⟩ r3 (Nat.le_refl _) (Nat.le_refl _), ?_,
      r5 h rfl⟩
    rw [← eL1] at e2 ⊢
    rw [r4]
    simpa using e2
  | true =>
    obtain ⟨ea, e1, e2⟩ := d4 hp
    subst ea
    obtain ⟨a1, a2, a3, a4⟩ := hadd rfl
    rw [← eL1] at e2 a1 a2 ⊢
    obtain ⟨s, r1, _, r3, r4, r5⟩ := hr c.1 j (2 ^ h) n (c.2 + 1) key value true hjc
      (by rw [f1]; exact hb.2.2.2.1) (by rw [f4, f1]; exact hsz) hn1 hn2
      (by simp; omega)
      (fun p h1 h2 => c2 p h1 (by omega))
      (fun p h1 h2 => c3 p (by omega) h2)
      (fun _ => ⟨by rw [e2]; exact a1, by rw [e2]; exact a2, by
        intro p h1 h2 kv hkv
        rw [f1] at h2
        rw [f5 p (Or.inr h1)] at hkv
        exact a4 p h1 h2 kv hkv⟩)
    refine ⟨s, r1, cmp_frameOn_trans ⟨f1, f2, f3, f4, f5⟩ r3 (Nat.le_refl _) (Nat.le_refl _), ?_,
      r5 h rfl⟩
    rw [r4, e2]

/-- `rebalance` on a tree with more than 3 slots, once its three pieces are known -/
theorem rebalance_eq {t : Tree} {itr : TIt} {key : Nat} {value : Int} {j oj n : Nat} {s : RState}
    (h3 : t.rs ≠ 3)
    (hloop : rebalanceLoop t (t.depth itr - 1) itr (if t.isUnused itr.i then 0 else 2)
      (2 ^ (t.maxDepth - (t.depth itr - 1)) - 1) = some (⟨j, oj⟩, n))
    (hred : redistributeElementsInSubtree
          (compactElementsInTheRightmostEnd t (j + oj - 1) n key value (!t.isUnused itr.i)).1 j n
          ((compactElementsInTheRightmostEnd t (j + oj - 1) n key value (!t.isUnused itr.i)).2 + 1)
          key value
          ((compactElementsInTheRightmostEnd t (j + oj - 1) n key value (!t.isUnused itr.i)).2
            != j + oj - 1 - n) = some s) :
    rebalance t itr key value = some (s.t, ⟨j, oj⟩) := by
  unfold rebalance
  simp only [h3, if_false, hloop, hred]

end PPLV.COTree
