import PPLV.COTree.RebalanceHint
import PPLV.COTree.ProofsRebIns2
import PPLV.COTree.ProofsRebSink1
import PPLV.COTree.ProofsRebBridge
import PPLV.COTree.ProofsBisect

/-!
# C16 stage 2b — the hinted insertions: `bisect_near` on the real array and the choice of the node

`near_spec`: for a valid hint, `bisect_near` ends on a used slot holding `key` when `key` is stored,
otherwise on an in-order neighbour of `key` (`Brackets c1 c1 key`).
`hintNode_spec`: the node handed to `insert_precise` is a used neighbour of `key` that is a leaf or
whose child on the side of `key` is unused.  No Mathlib.
-/
namespace PPLV.COTree
open Tree

/-- the node `it` is a used in-order neighbour of the (not stored) `key`, a leaf or with a free
    child on the side of `key`: what `insertPrecise_spec` asks for -/
def NodeOK (t : Tree) (key : Nat) (it : TIt) : Prop :=
  t.IsNode it.i it.offset ∧ t.isUnused it.i = false ∧ t.keyAt it.i ≠ key ∧ t.Brackets it.i it.i key ∧
  (it.isLeaf = false →
    t.isUnused (if key < t.keyAt it.i then it.getLeftChild else it.getRightChild).i = true)

theorem nodeOK_left {t : Tree} {key c o : Nat} (hn : t.IsNode c o) (hu : t.isUnused c = false)
    (hk : key < t.keyAt c) (hbr : t.Brackets c c key)
    (hch : o ≠ 1 → t.isUnused (c - o / 2) = true) : NodeOK t key ⟨c, o⟩ := by
  refine ⟨hn, hu, by show t.keyAt c ≠ key; omega, hbr, fun hl => ?_⟩
  have ho1 : o ≠ 1 := by simpa [TIt.isLeaf] using hl
  show t.isUnused (if key < t.keyAt c then (⟨c, o⟩ : TIt).getLeftChild
    else (⟨c, o⟩ : TIt).getRightChild).i = true
  rw [if_pos hk]
  exact hch ho1

theorem nodeOK_right {t : Tree} {key c o : Nat} (hn : t.IsNode c o) (hu : t.isUnused c = false)
    (hk : t.keyAt c < key) (hbr : t.Brackets c c key)
    (hch : o ≠ 1 → t.isUnused (c + o / 2) = true) : NodeOK t key ⟨c, o⟩ := by
  refine ⟨hn, hu, by show t.keyAt c ≠ key; omega, hbr, fun hl => ?_⟩
  have ho1 : o ≠ 1 := by simpa [TIt.isLeaf] using hl
  show t.isUnused (if key < t.keyAt c then (⟨c, o⟩ : TIt).getLeftChild
    else (⟨c, o⟩ : TIt).getRightChild).i = true
  rw [if_neg (by omega)]
  exact hch ho1

/-- `while (indexes[p] == unused_index) ++p;` from `p ≤ rs + 1` -/
theorem skipUp_facts (t : Tree) (p : Nat) (hp : p ≤ t.rs + 1) :
    p ≤ t.skipUp p ∧ t.skipUp p ≤ t.rs + 1 ∧
    (∀ q, p ≤ q → q < t.skipUp p → t.isUnused q = true) ∧
    (t.skipUp p ≤ t.rs → t.isUnused (t.skipUp p) = false) := by
  unfold Tree.skipUp
  obtain ⟨r1, r2, r3, r4⟩ := Tree.skipUpAux_spec t (t.rs + 1 - p) p
  exact ⟨r1, by omega, r3, fun h => r4 (by omega)⟩

/-- a used slot holds a key that is stored -/
theorem stored_of_used {t : Tree} {p : Nat} (h1 : 1 ≤ p) (h2 : p ≤ t.rs) (hu : t.isUnused p = false) :
    SMap.stored t.toList (t.keyAt p) = true :=
  (stored_iff t _).2 ⟨p, t.valAt p, h1, h2, cell_eq_of_used hu⟩

/-- **`bisect_near`** on the real `indexes[]` from a valid hint -/
theorem near_spec (t : Tree) (hsorted : SMap.Sorted t.toList) (h key : Nat)
    (hh1 : 1 ≤ h) (hh2 : h ≤ t.rs) (hhu : t.isUnused h = false) :
    1 ≤ t.toHoleArray.bisectNear h key ∧ t.toHoleArray.bisectNear h key ≤ t.rs ∧
    t.isUnused (t.toHoleArray.bisectNear h key) = false ∧
    (SMap.stored t.toList key = true → t.keyAt (t.toHoleArray.bisectNear h key) = key) ∧
    (SMap.stored t.toList key = false →
      t.keyAt (t.toHoleArray.bisectNear h key) ≠ key ∧
      t.Brackets (t.toHoleArray.bisectNear h key) (t.toHoleArray.bisectNear h key) key) := by
  obtain ⟨n1, n2, n3⟩ := HoleArray.bisectNear_spec t.toHoleArray (sortedUsed_of_sorted t hsorted)
    ((toHoleArray_used t h).mpr ⟨hh1, hh2, hhu⟩) key
  generalize t.toHoleArray.bisectNear h key = c at n1 n2 n3 ⊢
  obtain ⟨c1, c2, c3⟩ := (toHoleArray_used t c).mp n1
  have hkc := toHoleArray_key t c n1
  have hcs := sorted_cells hsorted
  have hcc := cell_eq_of_used c3
  refine ⟨c1, c2, c3, fun hst => ?_, fun hst => ?_⟩
  · rw [← hkc]; exact n2 ((has_iff_stored t key).mpr hst)
  · have hnh : ¬ t.toHoleArray.has key := by
      intro hc; rw [(has_iff_stored t key).mp hc] at hst; cases hst
    have hadj := n3 hnh
    -- a used slot never holds `key`
    have hne : ∀ p kv, 1 ≤ p → p ≤ t.rs → t.cell p = some kv → kv.1 ≠ key := by
      intro p kv p1 p2 hc he
      have : SMap.stored t.toList key = true :=
        (stored_iff t key).2 ⟨p, kv.2, p1, p2, by rw [hc, ← he]⟩
      rw [this] at hst; cases hst
    have hkq : ∀ p kv, 1 ≤ p → p ≤ t.rs → t.cell p = some kv →
        t.toHoleArray.used p ∧ t.toHoleArray.key p = kv.1 := by
      intro p kv p1 p2 hc
      have hu : t.isUnused p = false := (isUnused_false_iff t p).mpr ⟨kv, hc⟩
      have hup := (toHoleArray_used t p).mpr ⟨p1, p2, hu⟩
      exact ⟨hup, by rw [toHoleArray_key t p hup, keyAt_of_cell hc]⟩
    unfold HoleArray.adjacent at hadj
    rw [hkc] at hadj
    rcases hadj with ⟨a1, a2⟩ | ⟨a1, a2⟩
    · refine ⟨by omega, ?_, ?_⟩
      · intro p kv p1 p2 hc
        have := hcs p c kv _ p1 p2 c2 hc hcc
        simp only at this; omega
      · intro p kv p1 p2 hc
        have hlt := hcs c p _ kv c1 p1 p2 hcc hc
        simp only at hlt
        have hne' := hne p kv (by omega) p2 hc
        obtain ⟨q1, q2⟩ := hkq p kv (by omega) p2 hc
        rcases Nat.lt_or_ge key kv.1 with hl | hg
        · exact hl
        · have := a2 p q1 (by rw [q2]; omega)
          rw [q2] at this; omega
    · refine ⟨by omega, ?_, ?_⟩
      · intro p kv p1 p2 hc
        have hlt := hcs p c kv _ p1 p2 c2 hc hcc
        simp only at hlt
        have hne' := hne p kv p1 (by omega) hc
        obtain ⟨q1, q2⟩ := hkq p kv p1 (by omega) hc
        rcases Nat.lt_or_ge kv.1 key with hl | hg
        · exact hl
        · have := a2 p q1 (by rw [q2]; omega)
          rw [q2] at this; omega
      · intro p kv p1 p2 hc
        have := hcs c p _ kv c1 p1 p2 hcc hc
        simp only at this; omega

/-- **the choice of the node** handed to `insert_precise` -/
theorem hintNode_spec (t : Tree) (hs : t.Shape) (c1 key : Nat) (h1 : 1 ≤ c1) (h2 : c1 ≤ t.rs)
    (hu1 : t.isUnused c1 = false) (hk1 : t.keyAt c1 ≠ key) (hbr : t.Brackets c1 c1 key) :
    NodeOK t key (hintNode t c1 key) := by
  obtain ⟨o1, e1, n1⟩ := ofIndex_node t h1 h2
  have hb1 := n1.bounds hs
  have hcc1 := cell_eq_of_used hu1
  unfold hintNode
  simp only
  by_cases hlt : key < t.keyAt c1
  · -- `candidate2` is the previous used slot
    simp only [hlt, if_true]
    have s1 := skipDown_le t (c1 - 1)
    have s2 := skipDown_between t (c1 - 1)
    have s3 := cmp_skipDown_used t (c1 - 1)
    generalize t.skipDown (c1 - 1) = c2 at s1 s2 s3 ⊢
    by_cases hc2 : c2 = 0 ∨ c2 > t.rs
    · rw [if_pos hc2, e1]
      refine nodeOK_left n1 hu1 hlt hbr (fun ho1 => ?_)
      obtain ⟨o', k1, k2, k3, _, k5, _⟩ := n1.kids hs ho1
      exact s2 (c1 - o1 / 2) (by omega) (by omega)
    · rw [if_neg hc2]
      have hc21 : 1 ≤ c2 := by omega
      have hc22 : c2 ≤ t.rs := by omega
      have hu2 : t.isUnused c2 = false := by
        rcases s3 with h | h
        · omega
        · exact h
      obtain ⟨o2, e2, n2⟩ := ofIndex_node t hc21 hc22
      have hb2 := n2.bounds hs
      have hcc2 := cell_eq_of_used hu2
      have hk2 : t.keyAt c2 < key := hbr.1 c2 _ hc21 (by omega) hcc2
      have hbr2 : t.Brackets c2 c2 key := by
        constructor
        · intro p kv p1 p2 hc
          exact hbr.1 p kv p1 (by omega) hc
        · intro p kv p1 p2 hc
          by_cases hp : p < c1
          · have := s2 p p1 (by omega)
            rw [(isUnused_false_iff t p).mpr ⟨kv, hc⟩] at this; cases this
          · by_cases hp2 : p = c1
            · subst hp2; rw [hcc1] at hc; cases hc; exact hlt
            · exact hbr.2 p kv (by omega) p2 hc
      rw [e1, e2]
      simp only
      by_cases ho : o1 < o2
      · rw [if_pos ho]
        refine nodeOK_left n1 hu1 hlt hbr (fun ho1 => ?_)
        obtain ⟨o', k1, k2, k3, _, k5, _⟩ := n1.kids hs ho1
        cases hx : t.isUnused (c1 - o1 / 2) with
        | true => rfl
        | false =>
          exfalso
          have hle : c1 - o1 / 2 ≤ c2 := by
            rcases Nat.lt_or_ge c2 (c1 - o1 / 2) with hl | hg
            · have := s2 (c1 - o1 / 2) hl (by omega)
              rw [hx] at this; cases this
            · exact hg
          have := (n1.nest n2 (by omega) (by omega)).2.2.2 (by omega)
          omega
      · rw [if_neg ho]
        refine nodeOK_right n2 hu2 hk2 hbr2 (fun ho2 => ?_)
        obtain ⟨o', k1, k2, k3, _, k5, _⟩ := n2.kids hs ho2
        cases hx : t.isUnused (c2 + o2 / 2) with
        | true => rfl
        | false =>
          exfalso
          have hge : c1 ≤ c2 + o2 / 2 := by
            rcases Nat.lt_or_ge (c2 + o2 / 2) c1 with hl | hg
            · have := s2 (c2 + o2 / 2) (by omega) (by omega)
              rw [hx] at this; cases this
            · exact hg
          have := (n2.nest n1 (by omega) (by omega)).2.2.2 (by omega)
          omega
  · -- `candidate2` is the next used slot
    have hgt : t.keyAt c1 < key := by omega
    simp only [hlt, if_false]
    obtain ⟨s1, s2, s3, s4⟩ := skipUp_facts t (c1 + 1) (by omega)
    generalize t.skipUp (c1 + 1) = c2 at s1 s2 s3 s4 ⊢
    by_cases hc2 : c2 = 0 ∨ c2 > t.rs
    · rw [if_pos hc2, e1]
      refine nodeOK_right n1 hu1 hgt hbr (fun ho1 => ?_)
      obtain ⟨o', k1, k2, k3, _, k5, _⟩ := n1.kids hs ho1
      exact s3 (c1 + o1 / 2) (by omega) (by omega)
    · rw [if_neg hc2]
      have hc21 : 1 ≤ c2 := by omega
      have hc22 : c2 ≤ t.rs := by omega
      have hu2 : t.isUnused c2 = false := s4 hc22
      obtain ⟨o2, e2, n2⟩ := ofIndex_node t hc21 hc22
      have hb2 := n2.bounds hs
      have hcc2 := cell_eq_of_used hu2
      have hk2 : key < t.keyAt c2 := hbr.2 c2 _ (by omega) hc22 hcc2
      have hbr2 : t.Brackets c2 c2 key := by
        constructor
        · intro p kv p1 p2 hc
          by_cases hp : c1 < p
          · have := s3 p (by omega) p2
            rw [(isUnused_false_iff t p).mpr ⟨kv, hc⟩] at this; cases this
          · by_cases hp2 : p = c1
            · subst hp2; rw [hcc1] at hc; cases hc; exact hgt
            · exact hbr.1 p kv p1 (by omega) hc
        · intro p kv p1 p2 hc
          exact hbr.2 p kv (by omega) p2 hc
      rw [e1, e2]
      simp only
      by_cases ho : o1 < o2
      · rw [if_pos ho]
        refine nodeOK_right n1 hu1 hgt hbr (fun ho1 => ?_)
        obtain ⟨o', k1, k2, k3, _, k5, _⟩ := n1.kids hs ho1
        cases hx : t.isUnused (c1 + o1 / 2) with
        | true => rfl
        | false =>
          exfalso
          have hge : c2 ≤ c1 + o1 / 2 := by
            rcases Nat.lt_or_ge (c1 + o1 / 2) c2 with hl | hg
            · have := s3 (c1 + o1 / 2) (by omega) hl
              rw [hx] at this; cases this
            · exact hg
          have := (n1.nest n2 (by omega) (by omega)).2.2.2 (by omega)
          omega
      · rw [if_neg ho]
        refine nodeOK_left n2 hu2 hk2 hbr2 (fun ho2 => ?_)
        obtain ⟨o', k1, k2, k3, _, k5, _⟩ := n2.kids hs ho2
        cases hx : t.isUnused (c2 - o2 / 2) with
        | true => rfl
        | false =>
          exfalso
          have hle : c2 - o2 / 2 ≤ c1 := by
            rcases Nat.lt_or_ge c1 (c2 - o2 / 2) with hl | hg
            · have := s3 (c2 - o2 / 2) (by omega) (by omega)
              rw [hx] at this; cases this
            · exact hg
          have := (n2.nest n1 (by omega) (by omega)).2.2.2 (by omega)
          omega

end PPLV.COTree
