import PPLV.COTree.ProofsRebHintA
import PPLV.COTree.ProofsRebFinal

/-!
# C16 stage 2b — the hinted insertions `CO_Tree::insert(iterator, key[, data])`

`insertHintedSpec : InsertHintedSpec`, `insertHinted0Spec : InsertHinted0Spec`.  No Mathlib.
-/
namespace PPLV.COTree
open _root_.PPLV.COTree.Tree

/-! ## the two outcomes after `bisect_near` -/

/-- `insert_precise` on a node that holds `key` -/
theorem insertPrecise_stored (t : Tree) (key : Nat) (value : Int) (c : Nat)
    (hinv : t.Inv) (hsize : 1 ≤ t.size) (h1 : 1 ≤ c) (h2 : c ≤ t.rs)
    (hu : t.isUnused c = false) (hk : t.keyAt c = key) :
    (t.setCell c (some (key, value))).Inv ∧
    (t.setCell c (some (key, value))).toList = SMap.set t.toList key value ∧
    (t.setCell c (some (key, value))).cell c = some (key, value) ∧
    ((t.setCell c (some (key, value))).size, (t.setCell c (some (key, value))).rs) =
      (if SMap.stored t.toList key then (t.size, t.rs) else afterInsert t.size t.rs) := by
  obtain ⟨o, e, n⟩ := ofIndex_node t h1 h2
  obtain ⟨t', it, r1, r2, r3, r4, r5⟩ :=
    insertPrecise_spec redistSpec biggerSpec goDownSpec t key value c o hinv hsize n hu
      (fun _ => hk) (fun hne => absurd hk hne)
  have e1 : insertPrecise t key value ⟨c, o⟩ = some (t.setCell c (some (key, value)), ⟨c, o⟩) := by
    simp [insertPrecise, hk]
  rw [e1] at r1
  injection r1 with r1
  injection r1 with ra rb
  subst ra rb
  exact ⟨r2, r3, r4, r5⟩

/-- `insert_precise` on the node chosen by `hintNode` when `key` is not stored -/
theorem insertPrecise_new (t : Tree) (key : Nat) (value : Int) (it : TIt)
    (hinv : t.Inv) (hsize : 1 ≤ t.size) (hnst : SMap.stored t.toList key = false)
    (hok : NodeOK t key it) :
    ∃ t' it', insertPrecise t key value it = some (t', it') ∧ t'.Inv ∧
      t'.toList = SMap.set t.toList key value ∧ t'.cell it'.i = some (key, value) ∧
      (t'.size, t'.rs) =
        (if SMap.stored t.toList key then (t.size, t.rs) else afterInsert t.size t.rs) := by
  obtain ⟨i, o⟩ := it
  obtain ⟨k1, k2, k3, k4, k5⟩ := hok
  refine insertPrecise_spec redistSpec biggerSpec goDownSpec t key value i o hinv hsize k1 k2
    (fun ⟨p, p1, p2, v, p3⟩ => ?_) (fun _ => ⟨k4, k5⟩)
  have : SMap.stored t.toList key = true := (stored_iff t key).2 ⟨p, v, p1, p2, p3⟩
  rw [this] at hnst; cases hnst

theorem insertHinted_empty (hint : Hint) (key : Nat) (value : Int) :
    insertHinted (init 0) hint key value = some (singletonTree key value, ⟨2, 2⟩) := by
  have h0 : init 0 = ⟨0, 0, 0, #[]⟩ := by decide
  have hb : rebuildBiggerTree ⟨0, 0, 0, #[]⟩ = init 3 := by simp [rebuildBiggerTree]
  simp [insertHinted, h0, insertInEmptyTree, hb, init3_eq, Tree.getRoot, Tree.setCell, singletonTree]

/-- **`CO_Tree::insert(iterator, key, data)`** (`InsertHintedSpec` of `RebalanceHint.lean`) -/
theorem insertHintedSpec : InsertHintedSpec := by
  refine ⟨fun hint key value =>
    ⟨_, _, insertHinted_empty hint key value, singletonTree_inv key value, rfl, rfl⟩, ?_⟩
  intro t hint key value hinv hsize hvalid
  have hne : t.size ≠ 0 := by omega
  cases hint with
  | none =>
    have e : insertHinted t none key value = insert t key value := by
      simp [insertHinted, hne]
    rw [e]
    exact insertSpec_nonempty redistSpec biggerSpec goDownSpec t key value hinv hsize
  | some h =>
    obtain ⟨hh1, hh2, hhu⟩ := hvalid h rfl
    obtain ⟨c1, c2, c3, c4, c5⟩ := near_spec t hinv.sorted h key hh1 hh2 hhu
    by_cases hk : key = t.keyAt (t.toHoleArray.bisectNear h key)
    · have e : insertHinted t (some h) key value =
          some (t.setCell (t.toHoleArray.bisectNear h key) (some (key, value)),
            TIt.ofIndex (t.toHoleArray.bisectNear h key)) := by
        simp only [insertHinted, hne, if_false]
        rw [if_pos hk]
      obtain ⟨a1, a2, a3, a4⟩ := insertPrecise_stored t key value _ hinv hsize c1 c2 c3 hk.symm
      exact ⟨_, _, e, a1, a2, a3, a4⟩
    · have e : insertHinted t (some h) key value =
          insertPrecise t key value (hintNode t (t.toHoleArray.bisectNear h key) key) := by
        simp only [insertHinted, hne, if_false]
        rw [if_neg hk]
      have hnst : SMap.stored t.toList key = false := by
        cases hx : SMap.stored t.toList key with
        | false => rfl
        | true => exact absurd (c4 hx).symm hk
      obtain ⟨d1, d2⟩ := c5 hnst
      rw [e]
      exact insertPrecise_new t key value _ hinv hsize hnst
        (hintNode_spec t hinv.shape _ key c1 c2 c3 d1 d2)

/-! ## `insert(itr, key)`: `SMap.touch` -/

theorem touch_of_stored {m : SMap} {k : Nat} (h : SMap.stored m k = true) : SMap.touch m k = m := by
  unfold SMap.stored at h
  unfold SMap.touch
  cases hf : SMap.find? m k with
  | none => rw [hf] at h; cases h
  | some v => rfl

theorem touch_of_not_stored {m : SMap} {k : Nat} (h : SMap.stored m k = false) :
    SMap.touch m k = SMap.set m k 0 ∧ SMap.get m k = 0 := by
  unfold SMap.stored at h
  unfold SMap.touch
  cases hf : SMap.find? m k with
  | none => exact ⟨rfl, SMap.find?_none_get m k hf⟩
  | some v => rw [hf] at h; cases h

/-- the key is on slot `c`: nothing to do -/
theorem touch_stored (t : Tree) (key c : Nat) (hinv : t.Inv) (h1 : 1 ≤ c) (h2 : c ≤ t.rs)
    (hu : t.isUnused c = false) (hk : t.keyAt c = key) :
    t.toList = SMap.touch t.toList key ∧ t.cell c = some (key, SMap.get t.toList key) ∧
    (t.size, t.rs) = (if SMap.stored t.toList key then (t.size, t.rs) else afterInsert t.size t.rs) := by
  have hcc := cell_eq_of_used hu
  rw [hk] at hcc
  have hst : SMap.stored t.toList key = true := (stored_iff t key).2 ⟨c, _, h1, h2, hcc⟩
  have hmem : (key, t.valAt c) ∈ t.toList := (mem_listRange t _ _ _).2 ⟨c, h1, by omega, hcc⟩
  refine ⟨(touch_of_stored hst).symm, ?_, by rw [hst]; rfl⟩
  rw [hcc, hinv.sorted.get_of_mem hmem]

/-- a new key gets the value `0` -/
theorem touch_new (t : Tree) (key : Nat) (it : TIt) (hinv : t.Inv) (hsize : 1 ≤ t.size)
    (hnst : SMap.stored t.toList key = false) (hok : NodeOK t key it) :
    ∃ t' it', insertPrecise t key 0 it = some (t', it') ∧ t'.Inv ∧
      t'.toList = SMap.touch t.toList key ∧ t'.cell it'.i = some (key, SMap.get t.toList key) ∧
      (t'.size, t'.rs) =
        (if SMap.stored t.toList key then (t.size, t.rs) else afterInsert t.size t.rs) := by
  obtain ⟨t', it', r1, r2, r3, r4, r5⟩ := insertPrecise_new t key 0 it hinv hsize hnst hok
  obtain ⟨e1, e2⟩ := touch_of_not_stored hnst
  exact ⟨t', it', r1, r2, by rw [r3, e1], by rw [r4, e2], r5⟩

/-- **`CO_Tree::insert(iterator, key)`** (`InsertHinted0Spec` of `RebalanceHint.lean`) -/
theorem insertHinted0Spec : InsertHinted0Spec := by
  intro t hint key hinv hsize hvalid
  have hne : t.size ≠ 0 := by omega
  have hs := hinv.shape
  cases hint with
  | none =>
    have hru := root_used hs hinv.upClosed (by have := hinv.count; omega)
    obtain ⟨g1, g2, g3, g4, g5, g6⟩ :=
      goDownSpec t key _ _ hs hinv.sorted hinv.upClosed (IsNode.root hs) hru (brackets_root t hs key)
    have eroot : (⟨t.rs / 2 + 1, t.rs / 2 + 1⟩ : TIt) = t.getRoot := rfl
    rw [eroot] at g1 g2 g3 g4 g5 g6
    have hodd := hs.rs_odd
    have hbi := g1.bounds hs
    by_cases hk : t.keyAt (t.goDownSearchingKey key t.getRoot).i = key
    · have e : insertHinted0 t none key = some (t, t.goDownSearchingKey key t.getRoot) := by
        simp only [insertHinted0, hne, if_false]
        rw [if_pos hk]
      obtain ⟨a1, a2, a3⟩ := touch_stored t key _ hinv (by omega) (by omega) g2 hk
      exact ⟨_, _, e, hinv, a1, a2, a3⟩
    · have e : insertHinted0 t none key =
          insertPrecise t key 0 (t.goDownSearchingKey key t.getRoot) := by
        simp only [insertHinted0, hne, if_false]
        rw [if_neg hk]
      have hnst : SMap.stored t.toList key = false := by
        cases hx : SMap.stored t.toList key with
        | false => rfl
        | true =>
          obtain ⟨p, v, p1, p2, p3⟩ := (stored_iff t key).1 hx
          exact absurd (g5 ⟨p, by omega, by omega, v, p3⟩) hk
      obtain ⟨g6a, g6b⟩ := g6 hk
      rw [e]
      exact touch_new t key _ hinv hsize hnst ⟨g1, g2, hk, g6a, g6b⟩
  | some h =>
    obtain ⟨hh1, hh2, hhu⟩ := hvalid h rfl
    obtain ⟨c1, c2, c3, c4, c5⟩ := near_spec t hinv.sorted h key hh1 hh2 hhu
    by_cases hk : key = t.keyAt (t.toHoleArray.bisectNear h key)
    · have e : insertHinted0 t (some h) key =
          some (t, TIt.ofIndex (t.toHoleArray.bisectNear h key)) := by
        simp only [insertHinted0, hne, if_false]
        rw [if_pos hk]
      obtain ⟨a1, a2, a3⟩ := touch_stored t key _ hinv c1 c2 c3 hk.symm
      exact ⟨_, _, e, hinv, a1, a2, a3⟩
    · have e : insertHinted0 t (some h) key =
          insertPrecise t key 0 (hintNode t (t.toHoleArray.bisectNear h key) key) := by
        simp only [insertHinted0, hne, if_false]
        rw [if_neg hk]
      have hnst : SMap.stored t.toList key = false := by
        cases hx : SMap.stored t.toList key with
        | false => rfl
        | true => exact absurd (c4 hx).symm hk
      obtain ⟨d1, d2⟩ := c5 hnst
      rw [e]
      exact touch_new t key _ hinv hsize hnst
        (hintNode_spec t hs _ key c1 c2 c3 d1 d2)

end PPLV.COTree
