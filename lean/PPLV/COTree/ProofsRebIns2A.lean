import PPLV.COTree.ProofsRebIns
import PPLV.COTree.ProofsRebRoot

/-!
# C16 stage 2 — `insert`: the pieces (one-slot updates, the tail of `insert_precise_aux`)

No Mathlib.
-/
namespace PPLV.COTree
open Tree

/-- the part of `insert_precise_aux` after the optional `rebuild_bigger_tree` -/
def insertTail (t : Tree) (key : Nat) (value : Int) (itr : TIt) : Option (Tree × TIt) :=
  if !itr.isLeaf then
    let itr := if key < t.keyAt itr.i then itr.getLeftChild else itr.getRightChild
    some ({ t.setCell itr.i (some (key, value)) with size := t.size + 1 }, itr)
  else
    let t := { t with size := t.size + 1 }
    match rebalance t itr key value with
    | none => none
    | some (t, itr) => some (t, t.goDownSearchingKey key itr)

theorem insertPreciseAux_not_grown {t : Tree} {key : Nat} {value : Int} {itr : TIt}
    (hg : insertRebuilds t.size t.rs = false) :
    insertPreciseAux t key value itr = insertTail t key value itr := by
  unfold insertRebuilds at hg
  unfold insertPreciseAux insertTail
  simp only [hg, Bool.false_eq_true, if_false]
  rfl

theorem insertPreciseAux_grown {t : Tree} {key : Nat} {value : Int} {itr : TIt}
    (hg : insertRebuilds t.size t.rs = true) :
    insertPreciseAux t key value itr =
      insertTail (rebuildBiggerTree t) key value
        ((rebuildBiggerTree t).goDownSearchingKey key (rebuildBiggerTree t).getRoot) := by
  unfold insertRebuilds at hg
  unfold insertPreciseAux insertTail
  simp only [hg, if_true]
  rfl

/-- a non-empty up-closed tree has a used root -/
theorem root_used {t : Tree} (hs : t.Shape) (hup : t.UpClosed) (hc : 1 ≤ t.countRange 1 (t.rs + 1)) :
    t.isUnused (t.rs / 2 + 1) = false := by
  cases hx : t.isUnused (t.rs / 2 + 1) with
  | false => rfl
  | true =>
    have hodd := hs.rs_odd
    have hnone := UpClosed.empty_subtree' hs hup (IsNode.root hs) hx
    have : t.countRange 1 (t.rs + 1) = 0 := by
      rw [cmp_countRange_eq_length,
        cmp_listRange_none (fun p h1 h2 => hnone p (by omega) (by omega))]
      rfl
    omega

theorem brackets_root (t : Tree) (hs : t.Shape) (key : Nat) :
    t.Brackets (t.rs / 2 + 1 - (t.rs / 2 + 1 - 1)) (t.rs / 2 + 1 + (t.rs / 2 + 1 - 1)) key := by
  have hodd := hs.rs_odd
  constructor
  · intro p kv h1 h2; omega
  · intro p kv h1 h2; omega

theorem shape_rs_3_or_7 {t : Tree} (hs : t.Shape) : t.rs = 3 ∨ 7 ≤ t.rs := by
  obtain ⟨hrs, hD, _, _, _⟩ := hs
  by_cases h2 : t.maxDepth = 2
  · left; rw [hrs, h2]
  · right
    have e : 2 ^ t.maxDepth = 8 * 2 ^ (t.maxDepth - 3) := by
      rw [show (8 : Nat) = 2 ^ 3 from rfl, ← Nat.pow_add]; congr 1; omega
    have := two_pow_pos' (t.maxDepth - 3)
    omega

/-- two distinct used slots count for two -/
theorem count_two {t : Tree} {lo hi a b : Nat} (ha1 : lo ≤ a) (hab : a < b) (hb2 : b < hi)
    (hua : t.isUnused a = false) (hub : t.isUnused b = false) : 2 ≤ t.countRange lo hi := by
  rw [countRange_split3 t lo a hi ha1 (by omega), hua,
    countRange_split3 t (a + 1) b hi (by omega) hb2, hub]
  simp only [Bool.false_eq_true, if_false]
  omega

/-! ## writing one slot -/

theorem frame_setCell (t : Tree) (c : Nat) (x : Cell) : t.FrameOn (t.setCell c x) c c := by
  refine ⟨rfl, rfl, rfl, by simp, ?_⟩
  intro p hp
  rw [cell_setCell]
  have : ¬ (c = p ∧ c < t.cells.size) := fun h => by omega
  simp [this]

/-- the new pair goes to the unused slot `c` at its sorted position, the parent of `c` is used -/
theorem insert_at_unused (t : Tree) (c key : Nat) (value : Int) (k : Nat)
    (hs : t.Shape) (hup : t.UpClosed) (hc1 : 1 ≤ c) (hc2 : c ≤ t.rs) (hcu : t.isUnused c = true)
    (hlt : ∀ p kv, 1 ≤ p → p < c → t.cell p = some kv → kv.1 < key)
    (hgt : ∀ p kv, c < p → p ≤ t.rs → t.cell p = some kv → key < kv.1)
    (hpar : ∀ oc, t.IsNode c oc → oc ≠ t.rs / 2 + 1 →
      t.isUnused (TIt.getParent ⟨c, oc⟩).i = false) :
    ({ t.setCell c (some (key, value)) with size := k } : Tree).Shape ∧
    ({ t.setCell c (some (key, value)) with size := k } : Tree).countRange 1 (t.rs + 1) =
      t.countRange 1 (t.rs + 1) + 1 ∧
    ({ t.setCell c (some (key, value)) with size := k } : Tree).toList =
      SMap.set t.toList key value ∧
    ({ t.setCell c (some (key, value)) with size := k } : Tree).UpClosed ∧
    ({ t.setCell c (some (key, value)) with size := k } : Tree).cell c = some (key, value) := by
  have hsz : t.cells.size = t.rs + 2 := hs.2.2.1
  have hf := frame_setCell t c (some (key, value))
  have hcell : ∀ q, (t.setCell c (some (key, value))).cell q =
      if c = q then some (key, value) else t.cell q := by
    intro q
    rw [cell_setCell]
    have : c < t.cells.size := by omega
    simp [this]
  have hs0 : (t.setCell c (some (key, value))).Shape := shape_of_frame hs hf hc1 hc2
  obtain ⟨l1, l2⟩ := toList_of_frame hf hc1 (by omega) hc2
  have hcc : (t.setCell c (some (key, value))).cell c = some (key, value) := by
    rw [hcell]; simp
  have hnone : t.cell c = none := (isUnused_true_iff t c).mp hcu
  rw [cmp_listRange_single_some hcc] at l1
  rw [cmp_listRange_none (t := t) (lo := c) (hi := c + 1)
    (fun p h1 h2 => by have : p = c := by omega
                       rw [this]; exact hnone)] at l2
  have hA : ∀ q ∈ t.listRange 1 c, q.1 < key := by
    intro q hq
    obtain ⟨p, p1, p2, p3⟩ := (mem_listRange t _ _ q).1 hq
    exact hlt p q p1 p2 p3
  have hC : ∀ q ∈ t.listRange (c + 1) (t.rs + 1), key < q.1 := by
    intro q hq
    obtain ⟨p, p1, p2, p3⟩ := (mem_listRange t _ _ q).1 hq
    exact hgt p q (by omega) (by omega) p3
  have hlist : (t.setCell c (some (key, value))).toList = SMap.set t.toList key value := by
    rw [l1, l2, List.append_nil, SMap.cmp_set_append_mid key value _ _ hA hC]
    simp
  refine ⟨hs0, ?_, hlist, ?_, hcc⟩
  · show (t.setCell c (some (key, value))).countRange 1 ((t.setCell c (some (key, value))).rs + 1) = _
    rw [← length_listRange, ← length_listRange]
    show (t.setCell c (some (key, value))).toList.length = t.toList.length + 1
    rw [l1, l2]
    simp
    omega
  · intro a oa ha hused hroot
    have ha0 : t.IsNode a oa := ha
    have hroot0 : oa ≠ t.rs / 2 + 1 := hroot
    have hused0 : (t.setCell c (some (key, value))).isUnused a = false := hused
    show (t.setCell c (some (key, value))).isUnused (TIt.getParent ⟨a, oa⟩).i = false
    have hmono : ∀ q, t.isUnused q = false → (t.setCell c (some (key, value))).isUnused q = false := by
      intro q hq
      unfold Tree.isUnused at hq ⊢
      rw [hcell]
      by_cases hcq : c = q
      · simp [hcq]
      · simpa [hcq] using hq
    apply hmono
    by_cases hac : a = c
    · subst hac
      exact hpar oa ha0 hroot0
    · have : t.isUnused a = false := by
        unfold Tree.isUnused at hused0 ⊢
        rw [hcell] at hused0
        have : ¬ c = a := fun e => hac e.symm
        simpa [this] using hused0
      exact hup a oa ha0 this hroot0

/-- the value of a stored key is replaced in place -/
theorem replace_at_used (t : Tree) (c key : Nat) (v value : Int)
    (hs : t.Shape) (hsorted : SMap.Sorted t.toList) (hc1 : 1 ≤ c) (hc2 : c ≤ t.rs)
    (hcc : t.cell c = some (key, v)) :
    (t.setCell c (some (key, value))).Shape ∧
    (∀ q, (t.setCell c (some (key, value))).isUnused q = t.isUnused q) ∧
    (t.setCell c (some (key, value))).toList = SMap.set t.toList key value ∧
    (t.setCell c (some (key, value))).cell c = some (key, value) := by
  have hsz : t.cells.size = t.rs + 2 := hs.2.2.1
  have hf := frame_setCell t c (some (key, value))
  have hcell : ∀ q, (t.setCell c (some (key, value))).cell q =
      if c = q then some (key, value) else t.cell q := by
    intro q
    rw [cell_setCell]
    have : c < t.cells.size := by omega
    simp [this]
  have hs0 : (t.setCell c (some (key, value))).Shape := shape_of_frame hs hf hc1 hc2
  obtain ⟨l1, l2⟩ := toList_of_frame hf hc1 (by omega) hc2
  have hcc' : (t.setCell c (some (key, value))).cell c = some (key, value) := by
    rw [hcell]; simp
  rw [cmp_listRange_single_some hcc'] at l1
  rw [cmp_listRange_single_some hcc] at l2
  have hcs := sorted_cells hsorted
  have hA : ∀ q ∈ t.listRange 1 c, q.1 < key := by
    intro q hq
    obtain ⟨p, p1, p2, p3⟩ := (mem_listRange t _ _ q).1 hq
    exact hcs p c q (key, v) p1 p2 hc2 p3 hcc
  refine ⟨hs0, ?_, ?_, hcc'⟩
  · intro q
    unfold Tree.isUnused
    rw [hcell]
    by_cases hcq : c = q
    · subst hcq; simp [hcc]
    · simp [hcq]
  · rw [l1, l2, List.append_assoc, List.append_assoc, SMap.set_append_left key value _ _ hA]
    simp [SMap.set]

end PPLV.COTree
