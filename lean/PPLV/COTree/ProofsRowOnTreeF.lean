import PPLV.COTree.ProofsRowOnTreeE

/-!
# C16 stage 3 — `Sparse_Row::swap_coefficients(i, j)`

`swapCoefficients_ok_partial` has ONE extra hypothesis: `1 ≤ i ∧ 1 ≤ j`, or `InsertSlot0Spec`
(below): the iterator returned by `CO_Tree::insert(key)` points to a slot of
`1 … reserved_size`.  `InsertHinted0Spec` only says that the slot holds `(key, value)`, which for
`key = 0`, `value = 0` is also what the two sentinel slots hold; `swap_coefficients` writes through
that iterator (`swap(*itr_j, tmp)`).  For a key `≥ 1` the slot is a tree slot (`slot_valid`).
`ProofsRowOnTreeG.lean` proves `InsertSlot0Spec` and with it `swapCoefficients_ok` (no extra hypothesis).
-/
namespace PPLV.COTree
open PPLV.COTree.Tree

/-- the iterator returned by `CO_Tree::insert(key)` (no hint) on a valid tree is on a slot
    `1 … reserved_size`: the instance of `InsertSlotSpec` (`RebalanceHint.lean`) that
    `swap_coefficients` needs; proved in `ProofsRowOnTreeG.lean` (`RowT.insertSlot0Spec`) -/
def InsertSlot0Spec : Prop :=
  ∀ (t : Tree) (key : Nat) (t' : Tree) (it : TIt), (t = init 0 ∨ (t.Inv ∧ 1 ≤ t.size)) →
    insertHinted0 t none key = some (t', it) → 1 ≤ it.i ∧ it.i ≤ t'.rs

theorem insertSlot0Spec_of (h : InsertSlotSpec) : InsertSlot0Spec :=
  fun t key t' it hv hrun => h t none key 0 t' it hv (by intro p e; cases e) (Or.inl hrun)

namespace RowT

/-! ## list lemmas -/

theorem map_eq_set (k : Nat) (x : Int) : ∀ (m : SMap), SMap.Sorted m → (∃ v, (k, v) ∈ m) →
    m.map (fun kv => if kv.1 = k then (kv.1, x) else kv) = SMap.set m k x
  | [], _, ⟨v, h⟩ => by simp at h
  | (a, y) :: t, hs, ⟨v, h⟩ => by
    unfold SMap.set
    rcases List.mem_cons.1 h with e | e
    · cases e
      have h1 : ¬ k < k := Nat.lt_irrefl k
      simp only [List.map_cons, if_true, h1, if_false]
      congr 1
      calc List.map _ t = List.map id t := by
            apply List.map_congr_left
            intro p hp
            have := SMap.Sorted.head_lt hs p hp
            simp only at this
            have h2 : ¬ p.1 = k := by omega
            simp only [h2, if_false, id]
        _ = t := List.map_id _
    · have hlt := SMap.Sorted.head_lt hs (k, v) e
      simp only at hlt
      have h1 : ¬ k < a := by omega
      have h2 : ¬ k = a := by omega
      have h3 : ¬ a = k := by omega
      simp only [List.map_cons, h1, h2, h3, if_false]
      congr 1
      exact map_eq_set k x t (SMap.Sorted.tail hs) ⟨v, e⟩

theorem set_set (j : Nat) (u a : Int) : ∀ m : SMap,
    SMap.set (SMap.set m j u) j a = SMap.set m j a
  | [] => by simp [SMap.set]
  | (k, x) :: t => by
    by_cases h1 : j < k
    · simp [SMap.set, h1]
    · by_cases h2 : j = k
      · subst h2; simp [SMap.set]
      · simp [SMap.set, h1, h2, set_set j u a t]

theorem set_touch (m : SMap) (j : Nat) (a : Int) :
    SMap.set (SMap.touch m j) j a = SMap.set m j a := by
  unfold SMap.touch
  cases SMap.find? m j with
  | some v => rfl
  | none => exact set_set j 0 a m

/-! ## writing a value through an iterator -/

theorem putValue_ok (t : Tree) (q : Nat) (x : Int) (hinv : t.Inv) (q1 : 1 ≤ q) (q2 : q ≤ t.rs)
    (q3 : t.isUnused q = false) :
    (TRow.putValue t q x).Inv ∧ (TRow.putValue t q x).size = t.size ∧
    (TRow.putValue t q x).rs = t.rs ∧
    (TRow.putValue t q x).toList = SMap.set t.toList (t.keyAt q) x ∧
    (∀ p, (TRow.putValue t q x).isUnused p = t.isUnused p) ∧
    (∀ p, (TRow.putValue t q x).keyAt p = t.keyAt p) ∧
    (∀ p, p ≠ q → (TRow.putValue t q x).valAt p = t.valAt p) := by
  have hsh := hinv.shape
  have hsc := sorted_cells hinv.sorted
  have hcq := cell_eq_of_used q3
  have hqsz : q < t.cells.size := by rw [hsh.2.2.1]; omega
  have hcell : ∀ p, (TRow.putValue t q x).cell p = if p = q then some (t.keyAt q, x) else t.cell p := by
    intro p
    unfold TRow.putValue
    rw [Tree.cell_setCell]
    by_cases hp : p = q
    · rw [if_pos hp, if_pos ⟨hp.symm, hqsz⟩]
    · rw [if_neg hp, if_neg (fun h => hp h.1.symm)]
  have hmemq : (t.keyAt q, t.valAt q) ∈ t.toList :=
    (mem_listRange t 1 (t.rs + 1) _).2 ⟨q, q1, by omega, hcq⟩
  obtain ⟨hI, htl⟩ := inv_relabel t (TRow.putValue t q x)
    (fun kv => if kv.1 = t.keyAt q then (kv.1, x) else kv) hinv rfl rfl rfl
    (by unfold TRow.putValue; simp)
    (by
      intro p p1 p2
      rw [hcell p]
      by_cases hp : p = q
      · rw [if_pos hp, hp, hcq]; simp
      · rw [if_neg hp]
        cases hc : t.cell p with
        | none => rfl
        | some kv =>
          have hne : ¬ kv.1 = t.keyAt q := by
            rcases Nat.lt_or_gt_of_ne hp with h | h
            · have := hsc p q kv _ p1 h q2 hc hcq; simp only at this; omega
            · have := hsc q p _ kv q1 h p2 hcq hc; simp only at this; omega
          simp only [Option.map_some, hne, if_false])
    (by
      intro p hp
      rw [hcell p, if_neg (by omega)])
    (by
      rw [map_eq_set _ x _ hinv.sorted ⟨_, hmemq⟩]
      exact SMap.sorted_set _ _ _ hinv.sorted)
  refine ⟨hI, rfl, rfl, ?_, ?_, ?_, ?_⟩
  · rw [htl, map_eq_set _ x _ hinv.sorted ⟨_, hmemq⟩]
  · intro p
    unfold Tree.isUnused
    rw [hcell p]
    by_cases hp : p = q
    · rw [if_pos hp, hp, hcq]; rfl
    · rw [if_neg hp]
  · intro p
    unfold Tree.keyAt
    rw [hcell p]
    by_cases hp : p = q
    · rw [if_pos hp, hp, hcq]
    · rw [if_neg hp]
  · intro p hp
    unfold Tree.valAt
    rw [hcell p, if_neg hp]

/-- `CO_Tree::bisect(key)` on a non-empty valid tree -/
theorem bisect_slot (t : Tree) (hinv : t.Inv) (h1 : 1 ≤ t.size) (i : Nat) :
    1 ≤ t.toHoleArray.bisect i ∧ t.toHoleArray.bisect i ≤ t.rs ∧
    t.isUnused (t.toHoleArray.bisect i) = false ∧
    (SMap.stored t.toList i = true → t.keyAt (t.toHoleArray.bisect i) = i) ∧
    (SMap.stored t.toList i = false → t.keyAt (t.toHoleArray.bisect i) ≠ i) := by
  obtain ⟨p, hp, p1, p2, p3, hst, hnst⟩ := bisectNearIt_spec t hinv h1 none (validHint_none t) i
  have e : p = t.toHoleArray.bisect i := by
    unfold Tree.bisectNearIt Tree.bisectIt at hp
    rw [if_neg (by omega)] at hp
    exact (Option.some.inj hp).symm
  subst e
  refine ⟨p1, p2, p3, hst, fun h => ?_⟩
  rcases hnst h with ⟨a, _⟩ | ⟨a, _⟩ <;> omega


/-! ## `swap_coefficients` -/

theorem find?_of_used (t : Tree) (hinv : t.Inv) (p : Nat) (p1 : 1 ≤ p) (p2 : p ≤ t.rs)
    (p3 : t.isUnused p = false) : SMap.find? t.toList (t.keyAt p) = some (t.valAt p) :=
  find?_of_mem_sorted _ _ _ hinv.sorted
    ((mem_listRange t 1 (t.rs + 1) _).2 ⟨p, p1, by omega, cell_eq_of_used p3⟩)

/-- the branch "one of the two is stored": erase it, insert the other index, write the value -/
theorem moveCoefficient_ok (hh0 : InsertHinted0Spec) (r : TRow)
    (p j : Nat) (hslot : 1 ≤ j ∨ InsertSlot0Spec) (hv : r.Valid) (p1 : 1 ≤ p) (p2 : p ≤ r.tree.rs)
    (p3 : r.tree.isUnused p = false) (hj : j < r.size) :
    ∃ r', r.moveCoefficient p j = some r' ∧ r'.Valid ∧ r'.size = r.size ∧
      r'.tree.toList = SMap.set (SMap.erase r.tree.toList (r.tree.keyAt p)) j (r.tree.valAt p) := by
  obtain ⟨r1, s, hrun, hv1, htl1, -, -⟩ := resetAt_ok r p hv p1 p2 p3
  have hb := hv.2
  unfold TRow.resetAt at hrun
  cases hE : eraseAtIt r.tree (TIt.ofIndex p) with
  | none => rw [hE] at hrun; cases hrun
  | some q =>
    obtain ⟨t1, s1⟩ := q
    rw [hE] at hrun
    simp only [Option.map_some, Option.some.injEq, Prod.mk.injEq] at hrun
    obtain ⟨e1, -⟩ := hrun
    subst e1
    have htl1' : t1.toList = SMap.erase r.tree.toList (r.tree.keyAt p) := congrArg SRow.m htl1
    obtain ⟨r2, it, hrun2, hv2, htl2, hc2⟩ := insert0_ok hh0 ⟨r.size, t1⟩ j hv1 hj
    unfold TRow.insert0 at hrun2
    simp only at hrun2
    cases hI : insertHinted0 t1 none j with
    | none => rw [hI] at hrun2; cases hrun2
    | some q2 =>
      obtain ⟨t2, it2⟩ := q2
      rw [hI] at hrun2
      simp only [Option.map_some, Option.some.injEq, Prod.mk.injEq] at hrun2
      obtain ⟨e2, e3⟩ := hrun2
      subst e2 e3
      simp only at hc2 hv2
      have htl2' : t2.toList = SMap.touch t1.toList j := congrArg SRow.m htl2
      have hu2 : t2.isUnused it2.i = false := (isUnused_false_iff t2 it2.i).2 ⟨_, hc2⟩
      have hk2 : t2.keyAt it2.i = j := keyAt_of_cell hc2
      have hinv2 : t2.Inv ∧ 1 ≤ t2.size := by
        rcases hv2.1 with he | h
        · have he' : t2 = init 0 := he
          rw [he'] at hc2; cases hc2
        · exact h
      have hbounds : 1 ≤ it2.i ∧ it2.i ≤ t2.rs := by
        rcases hslot with h | h
        · have := slot_valid t2 (Or.inr hinv2.1) it2.i (by rw [hk2]; exact h)
          exact ⟨this.1, this.2.1⟩
        · exact h t1 j t2 it2 hv1.1 hI
      obtain ⟨s1', s2'⟩ := hbounds
      obtain ⟨hI3, hsz3, -, htl3, -, -, -⟩ := putValue_ok t2 it2.i (r.tree.valAt p) hinv2.1 s1' s2' hu2
      have hfin : (TRow.putValue t2 it2.i (r.tree.valAt p)).toList =
          SMap.set (SMap.erase r.tree.toList (r.tree.keyAt p)) j (r.tree.valAt p) := by
        rw [htl3, hk2, htl2', set_touch, htl1']
      refine ⟨⟨r.size, TRow.putValue t2 it2.i (r.tree.valAt p)⟩, ?_, ⟨?_, ?_⟩, rfl, hfin⟩
      · unfold TRow.moveCoefficient
        simp only [hE, hI]
      · exact Or.inr ⟨hI3, by rw [hsz3]; exact hinv2.2⟩
      · show SMap.Below (TRow.putValue t2 it2.i (r.tree.valAt p)).toList r.size
        rw [hfin]
        exact SMap.below_set _ (SMap.Below.filter _ hb) hj

/-- `Sparse_Row::swap_coefficients(i, j)` — with the extra hypothesis `1 ≤ i ∧ 1 ≤ j` or `InsertSlot0Spec` -/
theorem swapCoefficients_ok_partial (hh0 : InsertHinted0Spec) (r : TRow)
    (i j : Nat) (hslot : (1 ≤ i ∧ 1 ≤ j) ∨ InsertSlot0Spec) (hv : r.Valid) (hi : i < r.size) (hj : j < r.size) :
    ∃ r', r.swapCoefficients i j = some r' ∧ r'.Valid ∧
      r'.toSRow = RowOp.sparse r.toSRow (.swap i j) := by
  obtain ⟨hcase, hb⟩ := hv
  rcases hcase with he | ⟨hinv, h1⟩
  · refine ⟨r, ?_, ⟨Or.inl he, hb⟩, ?_⟩
    · unfold TRow.swapCoefficients
      rw [if_pos (by rw [he]; rfl)]
    · unfold TRow.toSRow RowOp.sparse
      simp only [he, init0_toList]
      rfl
  · have hv : r.Valid := ⟨Or.inr ⟨hinv, h1⟩, hb⟩
    obtain ⟨a1, a2, a3, a4, a5⟩ := bisect_slot r.tree hinv h1 i
    obtain ⟨b1, b2, b3, b4, b5⟩ := bisect_slot r.tree hinv h1 j
    unfold TRow.swapCoefficients
    rw [if_neg (by omega)]
    simp only
    generalize r.tree.toHoleArray.bisect i = pi at *
    generalize r.tree.toHoleArray.bisect j = pj at *
    have hfi := find?_of_used r.tree hinv pi a1 a2 a3
    have hfj := find?_of_used r.tree hinv pj b1 b2 b3
    cases si : SMap.stored r.tree.toList i <;> cases sj : SMap.stored r.tree.toList j
    · -- neither is stored
      rw [if_neg (a5 si), if_neg (b5 sj)]
      refine ⟨r, rfl, hv, ?_⟩
      unfold TRow.toSRow RowOp.sparse SMap.swap
      simp only [find?_none_of_not_stored _ _ si, find?_none_of_not_stored _ _ sj]
    · -- `j` is stored, `i` is not
      rw [if_neg (a5 si), if_pos (b4 sj)]
      obtain ⟨r', hrun, hv', hsz, htl⟩ := moveCoefficient_ok hh0 r pj i (hslot.imp (fun h => h.1) id) hv b1 b2 b3 hi
      refine ⟨r', hrun, hv', ?_⟩
      rw [b4 sj] at htl hfj
      unfold TRow.toSRow RowOp.sparse SMap.swap
      simp only [find?_none_of_not_stored _ _ si, hfj, hsz, htl]
    · -- `i` is stored, `j` is not
      rw [if_pos (a4 si), if_neg (b5 sj)]
      obtain ⟨r', hrun, hv', hsz, htl⟩ := moveCoefficient_ok hh0 r pi j (hslot.imp (fun h => h.2) id) hv a1 a2 a3 hj
      refine ⟨r', hrun, hv', ?_⟩
      rw [a4 si] at htl hfi
      unfold TRow.toSRow RowOp.sparse SMap.swap
      simp only [find?_none_of_not_stored _ _ sj, hfi, hsz, htl]
    · -- both are stored
      rw [if_pos (a4 si), if_pos (b4 sj)]
      rw [a4 si] at hfi
      rw [b4 sj] at hfj
      obtain ⟨hI1, hsz1, hrs1, htl1, hun1, hk1, -⟩ :=
        putValue_ok r.tree pi (r.tree.valAt pj) hinv a1 a2 a3
      obtain ⟨hI2, hsz2, -, htl2, -, -, -⟩ :=
        putValue_ok (TRow.putValue r.tree pi (r.tree.valAt pj)) pj (r.tree.valAt pi) hI1 b1
          (by rw [hrs1]; exact b2) (by rw [hun1]; exact b3)
      rw [hk1, b4 sj, htl1, a4 si] at htl2
      refine ⟨_, rfl, ⟨Or.inr ⟨hI2, by rw [hsz2, hsz1]; exact h1⟩, ?_⟩, ?_⟩
      · show SMap.Below (TRow.putValue (TRow.putValue r.tree pi (r.tree.valAt pj)) pj
          (r.tree.valAt pi)).toList r.size
        rw [htl2]
        exact SMap.below_set _ (SMap.below_set _ hb hi) hj
      · unfold TRow.toSRow RowOp.sparse SMap.swap
        simp only [hfi, hfj, htl2]

end RowT
end PPLV.COTree
