import PPLV.COTree.ProofsRebHint

/-!
# C16 stage 2b — the iterator returned by the insertions is on a slot `1 … reserved_size`

`insertSlotSpec : InsertSlotSpec`.  No Mathlib.
-/
namespace PPLV.COTree
open _root_.PPLV.COTree.Tree

theorem some_pair_inj {α β : Type} {r : Option (α × β)} {a a' : α} {b b' : β}
    (h1 : r = some (a, b)) (h2 : r = some (a', b')) : a = a' ∧ b = b' := by
  rw [h1] at h2
  injection h2 with h2
  injection h2 with h3 h4
  exact ⟨h3, h4⟩

/-- `insert_precise` on the node chosen when `key` is not stored: the iterator is on a slot -/
theorem insertPrecise_new_slot (t : Tree) (key : Nat) (value : Int) (it : TIt)
    (hinv : t.Inv) (hsize : 1 ≤ t.size) (hnst : SMap.stored t.toList key = false)
    (hok : NodeOK t key it) :
    ∃ t' it', insertPrecise t key value it = some (t', it') ∧ 1 ≤ it'.i ∧ it'.i ≤ t'.rs := by
  obtain ⟨i, o⟩ := it
  obtain ⟨k1, k2, k3, k4, k5⟩ := hok
  obtain ⟨t', it', r1, _, r2⟩ :=
    insertPrecise_slot redistSpec biggerSpec goDownSpec t key value i o hinv hsize k1 k2
      (fun ⟨p, p1, p2, v, p3⟩ => by
        have : SMap.stored t.toList key = true := (stored_iff t key).2 ⟨p, v, p1, p2, p3⟩
        rw [this] at hnst; cases hnst)
      (fun _ => ⟨k4, k5⟩)
  exact ⟨t', it', r1, r2⟩

theorem insertHinted0_empty (hint : Hint) (key : Nat) :
    insertHinted0 (init 0) hint key = some (singletonTree key 0, ⟨2, 2⟩) := by
  have h0 : init 0 = ⟨0, 0, 0, #[]⟩ := by decide
  have hb : rebuildBiggerTree ⟨0, 0, 0, #[]⟩ = init 3 := by simp [rebuildBiggerTree]
  simp [insertHinted0, h0, insertInEmptyTree, hb, init3_eq, Tree.getRoot, Tree.setCell, singletonTree]

/-- the hinted insertions after `bisect_near`, both variants at once: `stored` is what the
    variant returns when `candidate1` holds `key` -/
theorem hinted_slot (t : Tree) (h key : Nat) (value : Int) (hinv : t.Inv) (hsize : 1 ≤ t.size)
    (hh1 : 1 ≤ h) (hh2 : h ≤ t.rs) (hhu : t.isUnused h = false) (ts : Tree) (hts : ts.rs = t.rs)
    (t' : Tree) (it : TIt)
    (hres : (if key = t.keyAt (t.toHoleArray.bisectNear h key)
              then some (ts, TIt.ofIndex (t.toHoleArray.bisectNear h key))
              else insertPrecise t key value (hintNode t (t.toHoleArray.bisectNear h key) key))
            = some (t', it)) :
    1 ≤ it.i ∧ it.i ≤ t'.rs := by
  obtain ⟨c1, c2, c3, c4, c5⟩ := near_spec t hinv.sorted h key hh1 hh2 hhu
  by_cases hk : key = t.keyAt (t.toHoleArray.bisectNear h key)
  · rw [if_pos hk] at hres
    injection hres with hres
    injection hres with ha hb
    subst ha hb
    rw [hts]
    exact ⟨c1, c2⟩
  · rw [if_neg hk] at hres
    have hnst : SMap.stored t.toList key = false := by
      cases hx : SMap.stored t.toList key with
      | false => rfl
      | true => exact absurd (c4 hx).symm hk
    obtain ⟨d1, d2⟩ := c5 hnst
    obtain ⟨t'', it'', r1, r2⟩ := insertPrecise_new_slot t key value _ hinv hsize hnst
      (hintNode_spec t hinv.shape _ key c1 c2 c3 d1 d2)
    obtain ⟨ea, eb⟩ := some_pair_inj r1 hres
    subst ea eb
    exact r2

/-- **the returned iterator is on a slot** (`InsertSlotSpec` of `RebalanceHint.lean`) -/
theorem insertSlotSpec : InsertSlotSpec := by
  intro t hint key value t' it hT hvalid hres
  rcases hT with rfl | ⟨hinv, hsize⟩
  · -- the empty tree: the root `⟨2, 2⟩` of a tree with 3 slots
    rcases hres with h | h | h
    · obtain ⟨ea, eb⟩ := some_pair_inj (insertHinted0_empty hint key) h
      subst ea eb; exact ⟨by decide, by show 2 ≤ 3; decide⟩
    · obtain ⟨ea, eb⟩ := some_pair_inj (insertHinted_empty hint key value) h
      subst ea eb; exact ⟨by decide, by show 2 ≤ 3; decide⟩
    · obtain ⟨ea, eb⟩ := some_pair_inj (insert_empty key value) h
      subst ea eb; exact ⟨by decide, by show 2 ≤ 3; decide⟩
  · have hne : t.size ≠ 0 := by omega
    have hs := hinv.shape
    have hinsert : ∀ t' it, insert t key value = some (t', it) → 1 ≤ it.i ∧ it.i ≤ t'.rs := by
      intro t' it h
      obtain ⟨t'', it'', r1, _, r2⟩ := insert_slot redistSpec biggerSpec goDownSpec t key value hinv hsize
      obtain ⟨ea, eb⟩ := some_pair_inj r1 h
      subst ea eb
      exact r2
    rcases hres with h | h | h
    · -- `insert(itr, key)`
      cases hint with
      | none =>
        have hru := root_used hs hinv.upClosed (by have := hinv.count; omega)
        obtain ⟨g1, g2, g3, g4, g5, g6⟩ :=
          goDownSpec t key _ _ hs hinv.sorted hinv.upClosed (IsNode.root hs) hru (brackets_root t hs key)
        have eroot : (⟨t.rs / 2 + 1, t.rs / 2 + 1⟩ : TIt) = t.getRoot := rfl
        rw [eroot] at g1 g2 g3 g4 g5 g6
        have hodd := hs.rs_odd
        have hbi := g1.bounds hs
        simp only [insertHinted0, hne, if_false] at h
        by_cases hk : t.keyAt (t.goDownSearchingKey key t.getRoot).i = key
        · rw [if_pos hk] at h
          injection h with h
          injection h with ha hb
          subst ha hb
          exact ⟨by omega, by omega⟩
        · rw [if_neg hk] at h
          have hnst : SMap.stored t.toList key = false := by
            cases hx : SMap.stored t.toList key with
            | false => rfl
            | true =>
              obtain ⟨p, v, p1, p2, p3⟩ := (stored_iff t key).1 hx
              exact absurd (g5 ⟨p, by omega, by omega, v, p3⟩) hk
          obtain ⟨g6a, g6b⟩ := g6 hk
          obtain ⟨t'', it'', r1, r2⟩ := insertPrecise_new_slot t key 0 _ hinv hsize hnst
            ⟨g1, g2, hk, g6a, g6b⟩
          obtain ⟨ea, eb⟩ := some_pair_inj r1 h
          subst ea eb
          exact r2
      | some hh =>
        obtain ⟨hh1, hh2, hhu⟩ := hvalid hh rfl
        simp only [insertHinted0, hne, if_false] at h
        exact hinted_slot t hh key 0 hinv hsize hh1 hh2 hhu t rfl t' it h
    · -- `insert(itr, key, data)`
      cases hint with
      | none =>
        have e : insertHinted t none key value = insert t key value := by
          simp [insertHinted, hne]
        rw [e] at h
        exact hinsert t' it h
      | some hh =>
        obtain ⟨hh1, hh2, hhu⟩ := hvalid hh rfl
        simp only [insertHinted, hne, if_false] at h
        exact hinted_slot t hh key value hinv hsize hh1 hh2 hhu
          (t.setCell (t.toHoleArray.bisectNear hh key) (some (key, value))) rfl t' it h
    · exact hinsert t' it h

end PPLV.COTree
