import PPLV.COTree.ProofsRebUp
import PPLV.COTree.ProofsRebRedistBasic
import Mathlib.Tactic.Ring

/-!
# C16 stage 2 — `erase`: list lemmas, `skipUp` / `nextKey`, nesting of subtrees
(private library of `ProofsRebEraTop*.lean`, namespace `PPLV.COTree.EraTop`)
-/
namespace PPLV.COTree.EraTop
open PPLV.COTree PPLV.COTree.Tree

/-! ## ordered-map lemmas -/

theorem lowerBound_append_lt (k : Nat) : ∀ (A B : SMap), (∀ p ∈ A, p.1 < k) →
    SMap.lowerBound (A ++ B) k = SMap.lowerBound B k
  | [], B, _ => rfl
  | (a, x) :: A, B, h => by
    have h1 : ¬ k ≤ a := by have := h (a, x) (by simp); simp only at this; omega
    simp only [List.cons_append, SMap.lowerBound, h1, if_false]
    exact lowerBound_append_lt k A B (fun p hp => h p (by simp [hp]))

theorem lowerBound_cons_ge (k a : Nat) (x : Int) (B : SMap) (h : k ≤ a) :
    SMap.lowerBound ((a, x) :: B) k = some a := by
  simp [SMap.lowerBound, h]

theorem lowerBound_erase (key : Nat) : ∀ m : SMap,
    SMap.lowerBound (SMap.erase m key) (key + 1) = SMap.lowerBound m (key + 1)
  | [] => rfl
  | (a, x) :: m => by
    have ih := lowerBound_erase key m
    unfold SMap.erase at ih ⊢
    by_cases ha : a = key
    · subst ha
      have : ¬ a + 1 ≤ a := by omega
      simp only [List.filter_cons, bne_self_eq_false, Bool.false_eq_true, if_false,
        SMap.lowerBound, this]
      exact ih
    · have h1 : (a != key) = true := by simp [ha]
      simp only [List.filter_cons, h1, if_true, SMap.lowerBound]
      by_cases h2 : key + 1 ≤ a
      · simp [h2]
      · simp only [h2, if_false]; exact ih

theorem erase_of_not_mem (key : Nat) (m : SMap) (h : ∀ p ∈ m, p.1 ≠ key) :
    SMap.erase m key = m := by
  unfold SMap.erase
  rw [List.filter_eq_self]
  intro p hp
  simp [h p hp]

theorem mem_erase (key : Nat) (m : SMap) (p : Nat × Int) (h : p ∈ SMap.erase m key) :
    p ∈ m ∧ p.1 ≠ key := by
  unfold SMap.erase at h
  rw [List.mem_filter] at h
  exact ⟨h.1, by simpa using h.2⟩

theorem stored_of_mem (m : SMap) (key : Nat) (v : Int) (h : (key, v) ∈ m) :
    SMap.stored m key = true := by
  unfold SMap.stored
  exact (SMap.find?_isSome_iff_mem m key).2 ⟨(key, v), h, rfl⟩

theorem stored_false_of_not_mem (m : SMap) (key : Nat) (h : ∀ p ∈ m, p.1 ≠ key) :
    SMap.stored m key = false := by
  cases hs : SMap.stored m key with
  | false => rfl
  | true =>
    unfold SMap.stored at hs
    obtain ⟨p, hp, e⟩ := (SMap.find?_isSome_iff_mem m key).1 hs
    exact absurd e (h p hp)

/-! ## `skipUp`, `nextKey` -/

theorem skipUpAux_spec (t : Tree) : ∀ (f p : Nat), t.isUnused (p + f) = false →
    p ≤ t.skipUpAux f p ∧ t.skipUpAux f p ≤ p + f ∧ t.isUnused (t.skipUpAux f p) = false ∧
    ∀ x, p ≤ x → x < t.skipUpAux f p → t.isUnused x = true
  | 0, p, h => by
    simp only [Tree.skipUpAux, Nat.add_zero] at h ⊢
    exact ⟨Nat.le_refl _, Nat.le_refl _, h, fun x a b => by omega⟩
  | f + 1, p, h => by
    unfold Tree.skipUpAux
    by_cases hu : t.isUnused p = true
    · rw [if_pos hu]
      have e : p + 1 + f = p + (f + 1) := by omega
      obtain ⟨a, b, c, d⟩ := skipUpAux_spec t f (p + 1) (by rw [e]; exact h)
      refine ⟨by omega, by omega, c, ?_⟩
      intro x hx hx2
      by_cases hxp : x = p
      · rw [hxp]; exact hu
      · exact d x (by omega) hx2
    · rw [if_neg hu]
      refine ⟨Nat.le_refl _, by omega, by simpa using hu, fun x a b => by omega⟩

theorem skipUp_spec (t : Tree) (p : Nat) (hp : p ≤ t.rs + 1) (hs : t.isUnused (t.rs + 1) = false) :
    p ≤ t.skipUp p ∧ t.skipUp p ≤ t.rs + 1 ∧ t.isUnused (t.skipUp p) = false ∧
    ∀ x, p ≤ x → x < t.skipUp p → t.isUnused x = true := by
  unfold Tree.skipUp
  have e : p + (t.rs + 1 - p) = t.rs + 1 := by omega
  have := skipUpAux_spec t (t.rs + 1 - p) p (by rw [e]; exact hs)
  rw [e] at this
  exact this

theorem sentinel_used (t : Tree) (hs : t.Shape) : t.isUnused (t.rs + 1) = false := by
  unfold Tree.isUnused
  rw [hs.2.2.2.2]; rfl

/-- the key the `erase` functions return from a node `q` next to which `key` belongs -/
theorem next_of_brackets (t : Tree) (key q : Nat) (hs : t.Shape) (h1 : 1 ≤ q) (h2 : q ≤ t.rs)
    (hu : t.isUnused q = false) (hne : t.keyAt q ≠ key) (hb : t.Brackets q q key) :
    (if t.keyAt q < key then nextKey t q else some (t.keyAt q)) = SMap.next t.toList key := by
  obtain ⟨⟨kq, vq⟩, hq⟩ := (isUnused_false_iff t q).1 hu
  rw [keyAt_of_cell hq] at hne ⊢
  simp only at hne ⊢
  unfold SMap.next Tree.toList
  by_cases hlt : kq < key
  · rw [if_pos hlt]
    obtain ⟨a, b, c, d⟩ := skipUp_spec t (q + 1) (by omega) (sentinel_used t hs)
    unfold nextKey
    simp only
    generalize t.skipUp (q + 1) = q' at a b c d ⊢
    rw [Tree.listRange_split t 1 q' (t.rs + 1) (by omega) b,
      lowerBound_append_lt (key + 1) _ _ ?_]
    · by_cases hq' : q' > t.rs
      · rw [if_pos hq']
        have : q' = t.rs + 1 := by omega
        rw [this, Redist.listRange_empty t _ _ (Nat.le_refl _)]
        rfl
      · rw [if_neg hq']
        obtain ⟨⟨k', v'⟩, hk'⟩ := (isUnused_false_iff t q').1 c
        rw [Redist.listRange_head t q' (t.rs + 1) (k', v') (by omega) hk', keyAt_of_cell hk']
        have := hb.2 q' (k', v') (by omega) (by omega) hk'
        simp only at this ⊢
        rw [lowerBound_cons_ge _ _ _ _ (by omega)]
    · intro p hp
      obtain ⟨x, x1, x2, hx⟩ := (mem_listRange t 1 q' p).1 hp
      by_cases hxq : x < q
      · have := hb.1 x p x1 hxq hx; omega
      · by_cases hxq' : x = q
        · rw [hxq', hq] at hx
          cases hx; simp only; omega
        · have := d x (by omega) x2
          rw [(isUnused_true_iff t x).1 this] at hx; cases hx
  · rw [if_neg hlt]
    rw [Tree.listRange_split t 1 q (t.rs + 1) (by omega) (by omega),
      lowerBound_append_lt (key + 1) _ _ ?_,
      Redist.listRange_head t q (t.rs + 1) (kq, vq) (by omega) hq,
      lowerBound_cons_ge _ _ _ _ (by omega)]
    intro p hp
    obtain ⟨x, x1, x2, hx⟩ := (mem_listRange t 1 q p).1 hp
    have := hb.1 x p x1 x2 hx; omega

/-! ## a non-empty up-closed tree has a used root -/

theorem exists_used_of_count (t : Tree) (lo hi : Nat) (h : 1 ≤ t.countRange lo hi) :
    ∃ p kv, lo ≤ p ∧ p < hi ∧ t.cell p = some kv := by
  rw [← Tree.length_listRange] at h
  cases hl : t.listRange lo hi with
  | nil => rw [hl] at h; simp at h
  | cons kv l =>
    obtain ⟨p, a, b, c⟩ := (mem_listRange t lo hi kv).1 (by rw [hl]; simp)
    exact ⟨p, kv, a, b, c⟩

theorem root_used (t : Tree) (hs : t.Shape) (hup : t.UpClosed)
    (h : 1 ≤ t.countRange 1 (t.rs + 1)) : t.isUnused (t.rs / 2 + 1) = false := by
  obtain ⟨p, kv, a, b, c⟩ := exists_used_of_count t 1 (t.rs + 1) h
  have := hs.rs_odd
  exact UpClosed.used_of_mem hs hup (IsNode.root hs) (by omega) (by omega)
    ((isUnused_false_iff t p).2 ⟨kv, c⟩)

theorem root_brackets (t : Tree) (hs : t.Shape) (key : Nat) :
    t.Brackets (t.rs / 2 + 1 - (t.rs / 2 + 1 - 1)) (t.rs / 2 + 1 + (t.rs / 2 + 1 - 1)) key := by
  have := hs.rs_odd
  constructor
  · intro p kv a b; omega
  · intro p kv a b; omega

/-! ## subtrees are nested or disjoint -/

/-- two subtrees sharing a slot: the one of smaller height lies inside the other -/
theorem laminar (ha hb m n e : Nat) (hle : ha ≤ hb)
    (e1 : 2 ^ ha * (2 * m + 1) - (2 ^ ha - 1) ≤ e) (e2 : e ≤ 2 ^ ha * (2 * m + 1) + (2 ^ ha - 1))
    (e3 : 2 ^ hb * (2 * n + 1) - (2 ^ hb - 1) ≤ e) (e4 : e ≤ 2 ^ hb * (2 * n + 1) + (2 ^ hb - 1)) :
    2 ^ hb * (2 * n + 1) - (2 ^ hb - 1) ≤ 2 ^ ha * (2 * m + 1) - (2 ^ ha - 1) ∧
    2 ^ ha * (2 * m + 1) + (2 ^ ha - 1) ≤ 2 ^ hb * (2 * n + 1) + (2 ^ hb - 1) := by
  obtain ⟨d, rfl⟩ : ∃ d, hb = ha + d := ⟨hb - ha, by omega⟩
  have hP : 0 < 2 ^ ha := Nat.two_pow_pos ha
  have hc : 0 < 2 ^ d := Nat.two_pow_pos d
  rw [Nat.pow_add] at e3 e4 ⊢
  generalize 2 ^ ha = P at *
  generalize 2 ^ d = c at *
  have ea : P * (2 * m + 1) = 2 * (P * m) + P := by ring
  have eb : P * c * (2 * n + 1) = 2 * (P * (c * n)) + P * c := by ring
  have hz : P ≤ P * c := Nat.le_mul_of_pos_right _ hc
  rw [ea] at e1 e2 ⊢
  rw [eb] at e3 e4 ⊢
  have k1 : P * (c * n) < P * (m + 1) := by
    have : P * (m + 1) = P * m + P := by ring
    omega
  have k2 : P * m < P * (c * n + c) := by
    have : P * (c * n + c) = P * (c * n) + P * c := by ring
    omega
  have k3 := Nat.lt_of_mul_lt_mul_left k1
  have k4 := Nat.lt_of_mul_lt_mul_left k2
  have k5 : P * (c * n) ≤ P * m := Nat.mul_le_mul_left _ (by omega)
  have k6 : P * (m + 1) ≤ P * (c * n + c) := Nat.mul_le_mul_left _ (by omega)
  have k7 : P * (m + 1) = P * m + P := by ring
  have k8 : P * (c * n + c) = P * (c * n) + P * c := by ring
  omega

/-- the root of a subtree does not lie in a subtree of smaller height -/
theorem not_in_smaller (ha hb m n : Nat) (hlt : ha < hb)
    (e1 : 2 ^ ha * (2 * m + 1) - (2 ^ ha - 1) ≤ 2 ^ hb * (2 * n + 1))
    (e2 : 2 ^ hb * (2 * n + 1) ≤ 2 ^ ha * (2 * m + 1) + (2 ^ ha - 1)) : False := by
  obtain ⟨d, rfl⟩ : ∃ d, hb = ha + (d + 1) := ⟨hb - ha - 1, by omega⟩
  have hP : 0 < 2 ^ ha := Nat.two_pow_pos ha
  rw [Nat.pow_add, Nat.pow_succ] at e1 e2
  generalize 2 ^ ha = P at *
  generalize 2 ^ d = c at *
  have ea : P * (2 * m + 1) = 2 * (P * m) + P := by ring
  have eb : P * (c * 2) * (2 * n + 1) = 2 * (P * (c * (2 * n + 1))) := by ring
  rw [ea, eb] at e1 e2
  have k1 : P * m < P * (c * (2 * n + 1)) := by omega
  have k2 : P * (c * (2 * n + 1)) < P * (m + 1) := by
    have : P * (m + 1) = P * m + P := by ring
    omega
  have k3 := Nat.lt_of_mul_lt_mul_left k1
  have k4 := Nat.lt_of_mul_lt_mul_left k2
  omega

theorem IsNode.laminar {t : Tree} {a oa b ob e : Nat} (hna : t.IsNode a oa) (hnb : t.IsNode b ob)
    (hle : oa ≤ ob) (e1 : a - (oa - 1) ≤ e) (e2 : e ≤ a + (oa - 1))
    (e3 : b - (ob - 1) ≤ e) (e4 : e ≤ b + (ob - 1)) :
    b - (ob - 1) ≤ a - (oa - 1) ∧ a + (oa - 1) ≤ b + (ob - 1) := by
  obtain ⟨ha, m, rfl, rfl, -⟩ := hna
  obtain ⟨hb, n, rfl, rfl, -⟩ := hnb
  exact EraTop.laminar ha hb m n e ((Nat.pow_le_pow_iff_right (by omega)).1 hle) e1 e2 e3 e4

theorem IsNode.not_in_smaller {t : Tree} {a oa b ob : Nat} (hna : t.IsNode a oa)
    (hnb : t.IsNode b ob) (hlt : oa < ob) (e1 : a - (oa - 1) ≤ b) (e2 : b ≤ a + (oa - 1)) :
    False := by
  obtain ⟨ha, m, rfl, rfl, -⟩ := hna
  obtain ⟨hb, n, rfl, rfl, -⟩ := hnb
  exact EraTop.not_in_smaller ha hb m n ((Nat.pow_lt_pow_iff_right (by omega)).1 hlt) e1 e2

end PPLV.COTree.EraTop
