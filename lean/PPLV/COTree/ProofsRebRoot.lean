import PPLV.COTree.RebSpec
import PPLV.COTree.ProofsDensity

/-!
# C16 stage 2 — the root is within its thresholds whenever `rebalance` is called

Pure arithmetic over `densityOK`, `insertRebuilds`, `eraseRebuilds`: the hypothesis
`rebalanceCond maxDepth (count + extra) rs 0 = false` of `WalkSpecA` holds in `insert_precise_aux`
(with or without `rebuild_bigger_tree`) and in `erase` (with or without `rebuild_smaller_tree`).
No Mathlib.
-/
namespace PPLV.COTree

/-- at the root (`itr_depth_minus_1 = 0`) the thresholds are `max_density_percent = 91` and
    `min_density_percent = 38`, whatever `max_depth` is -/
theorem rebalanceCond_zero (md n res : Nat) :
    rebalanceCond md n res 0 = false ↔ (¬ 91 * res < 100 * n ∧ ¬ 100 * n < 38 * res) := by
  simp [rebalanceCond, isGreaterThanRatio, isLessThanRatio, maxDensityPercent, minDensityPercent]

theorem insertRebuilds_false_iff (size rs : Nat) :
    insertRebuilds size rs = false ↔ ¬ 91 * rs < 100 * (size + 1) := by
  rw [← insertRebuilds_iff]; simp

theorem eraseRebuilds_false_iff (size rs : Nat) : eraseRebuilds size rs = false ↔
    ¬ (100 * (size - 1) < 38 * rs ∧ ¬ 91 * (rs / 2) < 100 * (size - 1)) := by
  rw [← eraseRebuilds_iff]; simp

/-- `insert_precise_aux` without `rebuild_bigger_tree`: `size_` was incremented before `rebalance` -/
theorem root_ok_insert (md size rs : Nat) (hrs : 7 ≤ rs) (hok : densityOK size rs = true)
    (hnr : insertRebuilds size rs = false) : rebalanceCond md (size + 1) rs 0 = false := by
  rw [densityOK_iff] at hok
  rw [insertRebuilds_false_iff] at hnr
  rw [rebalanceCond_zero]
  omega

/-- `insert_precise_aux` after `rebuild_bigger_tree` (`reserved_size` became `2*rs + 1`) -/
theorem root_ok_insert_grown (md size rs : Nat) (hrs : 3 ≤ rs) (hsz : size ≤ rs)
    (hr : insertRebuilds size rs = true) : rebalanceCond md (size + 1) (2 * rs + 1) 0 = false := by
  rw [insertRebuilds_iff] at hr
  rw [rebalanceCond_zero]
  omega

/-- `erase` without `rebuild_smaller_tree`: `size_` was decremented before `rebalance` -/
theorem root_ok_erase (md size rs : Nat) (hrs : 7 ≤ rs) (hsz : 2 ≤ size)
    (hok : densityOK size rs = true) (hnr : eraseRebuilds size rs = false) :
    rebalanceCond md (size - 1) rs 0 = false := by
  rw [densityOK_iff] at hok
  rw [eraseRebuilds_false_iff] at hnr
  rw [rebalanceCond_zero]
  omega

/-- `erase` after `rebuild_smaller_tree` (`reserved_size` became `rs / 2 ≥ 7`; when `rs / 2 = 3`
    `rebalance` returns at once) -/
theorem root_ok_erase_shrunk (md size rs : Nat) (hrs : 15 ≤ rs) (hsz : 2 ≤ size)
    (hok : densityOK size rs = true) (hr : eraseRebuilds size rs = true) :
    rebalanceCond md (size - 1) (rs / 2) 0 = false := by
  rw [densityOK_iff] at hok
  rw [eraseRebuilds_iff] at hr
  rw [rebalanceCond_zero]
  omega

/-- the elements fit in the smaller tree (hypothesis `size ≤ rs / 2` of `SmallerSpec`) -/
theorem erase_shrunk_fits (size rs : Nat) (hr : eraseRebuilds size rs = true) (hsz : 2 ≤ size)
    (_hrs : 3 ≤ rs) : size ≤ rs / 2 := by
  rw [eraseRebuilds_iff] at hr
  omega

/-- `rebuild_smaller_tree` is requested only on trees of at least 7 slots (`rs = 2^k - 1`) -/
theorem erase_shrunk_rs (size rs : Nat) (hr : eraseRebuilds size rs = true) (hsz : 2 ≤ size)
    (hrs : 3 ≤ rs) : 4 ≤ rs := by
  rw [eraseRebuilds_iff] at hr
  omega

end PPLV.COTree
