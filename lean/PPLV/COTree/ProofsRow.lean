import PPLV.COTree.ProofsMap

/-! # dense ≡ sparse for the row algorithms (core Lean only) -/
namespace PPLV.COTree
open SMap

/-! ### `toDenseN` -/

@[simp] theorem length_toDenseN (n : Nat) (m : SMap) : (toDenseN n m).length = n := by
  simp [toDenseN]

theorem getElem?_toDenseN (n : Nat) (m : SMap) (j : Nat) :
    (toDenseN n m)[j]? = if j < n then some (m.get j) else none := by
  unfold toDenseN
  rw [List.getElem?_map]
  by_cases h : j < n
  · rw [List.getElem?_range h]; simp [h]
  · rw [List.getElem?_eq_none (by simpa using h)]; simp [h]

theorem getD_toDenseN (n : Nat) (m : SMap) (j : Nat) :
    (toDenseN n m).getD j 0 = if j < n then m.get j else 0 := by
  rw [List.getD_eq_getElem?_getD, getElem?_toDenseN]
  grind

theorem getD_toDenseN_of_below {n : Nat} {m : SMap} (h : m.Below n) (j : Nat) :
    (toDenseN n m).getD j 0 = m.get j := by
  rw [getD_toDenseN]
  split
  · rfl
  · exact (get_eq_zero_of_below h (by omega)).symm

/-- a list is `toDenseN n m` iff it has length `n` and reads like `m` -/
theorem eq_toDenseN {d : List Int} {n : Nat} {m : SMap}
    (h : ∀ j, d[j]? = if j < n then some (m.get j) else none) : d = toDenseN n m := by
  apply List.ext_getElem?
  intro j
  rw [h, getElem?_toDenseN]

theorem toDenseN_congr {n : Nat} {m m' : SMap} (h : ∀ j, j < n → m.get j = m'.get j) :
    toDenseN n m = toDenseN n m' := by
  apply eq_toDenseN
  intro j
  rw [getElem?_toDenseN]
  grind

/-! ### point-wise operations -/

theorem dense_set (n : Nat) (m : SMap) (i : Nat) (v : Int) :
    toDenseN n (m.set i v) = Dense.set (toDenseN n m) i v := by
  symm; apply eq_toDenseN; intro j
  simp only [Dense.set, List.getElem?_set, length_toDenseN, getElem?_toDenseN, get_set]
  grind

theorem dense_touch (n : Nat) (m : SMap) (i : Nat) : toDenseN n (m.touch i) = toDenseN n m :=
  toDenseN_congr (fun j _ => get_touch m i j)

theorem dense_erase (n : Nat) (m : SMap) (i : Nat) :
    toDenseN n (m.erase i) = Dense.reset (toDenseN n m) i := by
  symm; apply eq_toDenseN; intro j
  simp only [Dense.reset, List.getElem?_set, length_toDenseN, getElem?_toDenseN, get_erase]
  grind

theorem dense_resetRange (n : Nat) (m : SMap) (lo hi : Nat) :
    toDenseN n (m.resetRange lo hi) = Dense.resetRange (toDenseN n m) lo hi := by
  symm; apply eq_toDenseN; intro j
  simp only [Dense.resetRange, List.getElem?_mapIdx, getElem?_toDenseN, get_resetRange]
  grind

theorem dense_resetFrom (n : Nat) (m : SMap) (i : Nat) :
    toDenseN n (m.resetFrom i) = Dense.resetFrom (toDenseN n m) i := by
  symm; apply eq_toDenseN; intro j
  simp only [Dense.resetFrom, Dense.resetRange, List.getElem?_mapIdx, getElem?_toDenseN,
    get_resetFrom, length_toDenseN]
  grind

theorem dense_swap {n : Nat} {m : SMap} (hb : m.Below n) (i j : Nat) (hi : i < n) (hj : j < n) :
    toDenseN n (m.swap i j) = Dense.swap (toDenseN n m) i j := by
  symm; apply eq_toDenseN; intro k
  simp only [Dense.swap, List.getElem?_set, List.length_set, length_toDenseN, getElem?_toDenseN,
    get_swap, getD_toDenseN_of_below hb]
  grind

theorem dense_addAt {n : Nat} {m : SMap} (hb : m.Below n) (i : Nat) (c : Int) :
    toDenseN n (m.addAt i c) = Dense.addAt (toDenseN n m) i c := by
  symm; apply eq_toDenseN; intro k
  simp only [Dense.addAt, List.getElem?_set, length_toDenseN, getElem?_toDenseN,
    get_addAt, getD_toDenseN_of_below hb]
  grind

theorem dense_mapValsIn (f : Int → Int) (hf : f 0 = 0) (n : Nat) (m : SMap) (lo hi : Nat) :
    toDenseN n (m.mapValsIn f lo hi) = Dense.mapIn f lo hi (toDenseN n m) := by
  symm; apply eq_toDenseN; intro j
  simp only [Dense.mapIn, List.getElem?_mapIdx, getElem?_toDenseN, get_mapValsIn f hf]
  grind

theorem dense_mapVals (f : Int → Int) (hf : f 0 = 0) (n : Nat) (m : SMap) :
    toDenseN n (m.mapVals f) = (toDenseN n m).map f := by
  symm; apply eq_toDenseN; intro j
  simp only [List.getElem?_map, getElem?_toDenseN, get_mapVals f hf]
  grind

theorem dense_shiftUp {n : Nat} {m : SMap} (_hb : m.Below n) (i k : Nat) (hi : i ≤ n) :
    toDenseN (n + k) (m.shiftUp i k) = Dense.shiftUp (toDenseN n m) i k := by
  symm; apply eq_toDenseN; intro j
  simp only [Dense.shiftUp, List.getElem?_append, List.length_append, List.length_take,
    List.length_replicate, length_toDenseN, List.getElem?_take, List.getElem?_drop,
    List.getElem?_replicate, getElem?_toDenseN, get_shiftUp]
  have e : min i n = i := Nat.min_eq_left hi
  rw [e]
  by_cases h1 : j < i
  · grind
  · by_cases h2 : j < i + k
    · grind
    · have e2 : i + (j - (i + k)) = j - k := by omega
      rw [e2]
      grind

theorem dense_deleteShift {n : Nat} {m : SMap} (i : Nat) (hi : i < n) :
    toDenseN (n - 1) (m.deleteShift i) = Dense.deleteShift (toDenseN n m) i := by
  symm; apply eq_toDenseN; intro j
  simp only [Dense.deleteShift, List.getElem?_eraseIdx, getElem?_toDenseN, get_deleteShift]
  grind

theorem dense_resize {n : Nat} {m : SMap} (hb : m.Below n) (k : Nat) :
    toDenseN k (if k < n then m.resetFrom k else m) = Dense.resize (toDenseN n m) k := by
  symm; apply eq_toDenseN; intro j
  simp only [Dense.resize, List.getElem?_append, List.length_take, length_toDenseN,
    List.getElem?_take, List.getElem?_replicate, getElem?_toDenseN]
  by_cases hk : k < n
  · simp only [hk, if_true, get_resetFrom]
    grind
  · simp only [hk, if_false]
    by_cases hj : j < n
    · grind
    · have := get_eq_zero_of_below hb (i := j) (by omega)
      grind

end PPLV.COTree
