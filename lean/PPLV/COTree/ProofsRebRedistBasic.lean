import PPLV.COTree.RebSpec
import PPLV.COTree.ProofsMap

/-!
# C16 stage 2 — basic lemmas for `ProofsRebRedist*.lean`
(`cell` / `setCell` / `listRange` / `countRange` / `lowBit` / `Balanced`), private copies in the
namespace `PPLV.COTree.Redist` so that they do not clash with the other workers' basics.
-/
namespace PPLV.COTree.Redist
open PPLV.COTree PPLV.COTree.Tree

theorem cell_eq (t : Tree) (p : Nat) : t.cell p = (t.cells[p]?).getD none := by
  unfold Tree.cell
  simp [Array.getD_eq_getD_getElem?]

theorem cell_setCell (t : Tree) (p q : Nat) (c : Cell) :
    (t.setCell p c).cell q = if p = q ∧ p < t.cells.size then c else t.cell q := by
  rw [cell_eq, cell_eq]
  unfold Tree.setCell
  simp only [Array.getElem?_setIfInBounds]
  by_cases h : p = q
  · subst h
    by_cases h2 : p < t.cells.size
    · simp [h2]
    · simp [h2]
  · simp [h]

@[simp] theorem setCell_rs (t : Tree) (p : Nat) (c : Cell) : (t.setCell p c).rs = t.rs := rfl
@[simp] theorem setCell_size (t : Tree) (p : Nat) (c : Cell) : (t.setCell p c).size = t.size := rfl
@[simp] theorem setCell_maxDepth (t : Tree) (p : Nat) (c : Cell) :
    (t.setCell p c).maxDepth = t.maxDepth := rfl
@[simp] theorem setCell_cells_size (t : Tree) (p : Nat) (c : Cell) :
    (t.setCell p c).cells.size = t.cells.size := by
  unfold Tree.setCell; simp

theorem isUnused_false_iff (t : Tree) (p : Nat) : t.isUnused p = false ↔ t.cell p ≠ none := by
  unfold Tree.isUnused
  cases t.cell p <;> simp

theorem isUnused_false_some (t : Tree) (p : Nat) (h : t.isUnused p = false) :
    ∃ kv, t.cell p = some kv := by
  unfold Tree.isUnused at h
  cases hc : t.cell p with
  | none => simp [hc] at h
  | some kv => exact ⟨kv, rfl⟩

/-! ## `listRange` -/

theorem listRange_empty (t : Tree) (lo hi : Nat) (h : hi ≤ lo) : t.listRange lo hi = [] := by
  unfold Tree.listRange
  have : hi - lo = 0 := by omega
  simp [this]

theorem listRange_split (t : Tree) (lo mid hi : Nat) (h1 : lo ≤ mid) (h2 : mid ≤ hi) :
    t.listRange lo hi = t.listRange lo mid ++ t.listRange mid hi := by
  unfold Tree.listRange
  have : hi - lo = (mid - lo) + (hi - mid) := by omega
  rw [this, ← List.range'_append_1, List.filterMap_append]
  have : lo + (mid - lo) = mid := by omega
  rw [this]

theorem listRange_one (t : Tree) (p : Nat) :
    t.listRange p (p + 1) = match t.cell p with | none => [] | some kv => [kv] := by
  unfold Tree.listRange
  have : p + 1 - p = 1 := by omega
  rw [this]
  cases h : t.cell p <;> simp [List.range', h]

theorem listRange_congr (t t' : Tree) (lo hi : Nat)
    (h : ∀ p, lo ≤ p → p < hi → t'.cell p = t.cell p) : t'.listRange lo hi = t.listRange lo hi := by
  unfold Tree.listRange
  have key : ∀ l : List Nat, (∀ p ∈ l, t'.cell p = t.cell p) →
      l.filterMap t'.cell = l.filterMap t.cell := by
    intro l
    induction l with
    | nil => intro _; rfl
    | cons a l ih =>
      intro hl
      rw [List.filterMap_cons, List.filterMap_cons, hl a (by simp),
        ih (fun p hp => hl p (by simp [hp]))]
  apply key
  intro p hp
  rw [List.mem_range'_1] at hp
  exact h p hp.1 (by omega)

theorem listRange_none (t : Tree) (lo hi : Nat)
    (h : ∀ p, lo ≤ p → p < hi → t.cell p = none) : t.listRange lo hi = [] := by
  unfold Tree.listRange
  rw [List.filterMap_eq_nil_iff]
  intro p hp
  rw [List.mem_range'_1] at hp
  exact h p hp.1 (by omega)

/-- a range whose only used slot is `i` -/
theorem listRange_single (t : Tree) (lo hi i : Nat) (kv : Nat × Int) (h1 : lo ≤ i) (h2 : i < hi)
    (hi' : t.cell i = some kv) (hn : ∀ p, lo ≤ p → p < hi → p ≠ i → t.cell p = none) :
    t.listRange lo hi = [kv] := by
  rw [listRange_split t lo i hi h1 (by omega), listRange_split t i (i + 1) hi (by omega) (by omega),
    listRange_none t lo i (fun p a b => hn p a (by omega) (by omega)),
    listRange_none t (i + 1) hi (fun p a b => hn p (by omega) b (by omega)),
    listRange_one, hi']
  rfl

/-- the first used slot of a range is the head of its list -/
theorem listRange_head (t : Tree) (u hi : Nat) (kv : Nat × Int) (h : u < hi)
    (hu : t.cell u = some kv) : t.listRange u hi = kv :: t.listRange (u + 1) hi := by
  rw [listRange_split t u (u + 1) hi (by omega) (by omega), listRange_one, hu]
  rfl

theorem mem_listRange (t : Tree) (lo hi : Nat) (kv : Nat × Int) :
    kv ∈ t.listRange lo hi ↔ ∃ p, lo ≤ p ∧ p < hi ∧ t.cell p = some kv := by
  unfold Tree.listRange
  rw [List.mem_filterMap]
  constructor
  · rintro ⟨p, hp, h⟩
    rw [List.mem_range'_1] at hp
    exact ⟨p, hp.1, by omega, h⟩
  · rintro ⟨p, h1, h2, h⟩
    exact ⟨p, by rw [List.mem_range'_1]; omega, h⟩

/-! ## `countRange` -/

theorem countRange_eq_length (t : Tree) (lo hi : Nat) :
    t.countRange lo hi = (t.listRange lo hi).length := by
  unfold Tree.countRange Tree.listRange Tree.isUnused
  generalize List.range' lo (hi - lo) = l
  induction l with
  | nil => rfl
  | cons a l ih =>
    cases h : t.cell a
    · simp only [List.filter_cons, List.filterMap_cons, h, Option.isNone_none, Bool.not_true]
      simpa using ih
    · simp only [List.filter_cons, List.filterMap_cons, h, Option.isNone_some, Bool.not_false,
        if_true, List.length_cons]
      simpa using ih

theorem countRange_split (t : Tree) (lo mid hi : Nat) (h1 : lo ≤ mid) (h2 : mid ≤ hi) :
    t.countRange lo hi = t.countRange lo mid + t.countRange mid hi := by
  simp only [countRange_eq_length]
  rw [listRange_split t lo mid hi h1 h2, List.length_append]

theorem countRange_none (t : Tree) (lo hi : Nat)
    (h : ∀ p, lo ≤ p → p < hi → t.cell p = none) : t.countRange lo hi = 0 := by
  rw [countRange_eq_length, listRange_none t lo hi h]; rfl

theorem countRange_one (t : Tree) (p : Nat) :
    t.countRange p (p + 1) = if t.isUnused p then 0 else 1 := by
  rw [countRange_eq_length, listRange_one]
  unfold Tree.isUnused
  cases t.cell p <;> simp

/-! ## powers of two, `lowBit` -/

theorem two_pow_succ_half (h : Nat) : 2 ^ (h + 1) / 2 = 2 ^ h := by
  rw [Nat.pow_succ]; omega

theorem lowBitAux_pow (h : Nat) : ∀ (m f : Nat), h + 1 ≤ f →
    lowBitAux f (2 ^ h * (2 * m + 1)) = 2 ^ h := by
  induction h with
  | zero =>
    intro m f hf
    obtain ⟨f', rfl⟩ : ∃ f', f = f' + 1 := ⟨f - 1, by omega⟩
    simp [lowBitAux]
  | succ h ih =>
    intro m f hf
    obtain ⟨f', rfl⟩ : ∃ f', f = f' + 1 := ⟨f - 1, by omega⟩
    have e : 2 ^ (h + 1) * (2 * m + 1) = 2 * (2 ^ h * (2 * m + 1)) := by
      rw [Nat.pow_succ]; simp [Nat.mul_comm, Nat.mul_left_comm]
    have h1 : (2 ^ (h + 1) * (2 * m + 1)) % 2 ≠ 1 := by rw [e]; omega
    have h2 : (2 ^ (h + 1) * (2 * m + 1)) / 2 = 2 ^ h * (2 * m + 1) := by rw [e]; omega
    simp only [lowBitAux, h1, if_false, h2]
    rw [ih m f' (by omega), Nat.pow_succ]; omega

theorem lowBit_pow (h m : Nat) : lowBit (2 ^ h * (2 * m + 1)) = 2 ^ h := by
  unfold lowBit
  apply lowBitAux_pow
  have h1 : h < 2 ^ h := Nat.lt_two_pow_self
  have h2 : 2 ^ h * 1 ≤ 2 ^ h * (2 * m + 1) := Nat.mul_le_mul_left _ (by omega)
  omega

/-! ## `Balanced` -/

/-- `Balanced` only reads the slots of the subtree -/
theorem balanced_congr (t t' : Tree) : ∀ (h i n : Nat),
    (∀ p, i - (2 ^ (h - 1) - 1) ≤ p → p ≤ i + (2 ^ (h - 1) - 1) → t'.cell p = t.cell p) →
    t.Balanced h i n → t'.Balanced h i n := by
  intro h
  induction h with
  | zero => intro i n _ hb; exact hb
  | succ h ih =>
    intro i n hc hb
    simp only [Nat.add_sub_cancel] at hc
    unfold Tree.Balanced at hb ⊢
    rcases hb with ⟨h0, hn⟩ | ⟨h0, hu, hl, hr⟩
    · left
      exact ⟨h0, fun p a b => by rw [hc p a b]; exact hn p a b⟩
    · right
      refine ⟨h0, ?_, ?_, ?_⟩
      · unfold Tree.isUnused at hu ⊢
        rw [hc i (by omega) (by omega)]; exact hu
      · cases h with
        | zero => exact hl
        | succ k =>
          apply ih _ _ _ hl
          intro p a b
          simp only [Nat.add_sub_cancel] at a b
          have e : 2 ^ (k + 1) = 2 * 2 ^ k := by rw [Nat.pow_succ]; omega
          have e2 : 2 ^ (k + 1) / 2 = 2 ^ k := two_pow_succ_half k
          rw [e2] at a b
          exact hc p (by omega) (by omega)
      · cases h with
        | zero => exact hr
        | succ k =>
          apply ih _ _ _ hr
          intro p a b
          simp only [Nat.add_sub_cancel] at a b
          have e : 2 ^ (k + 1) = 2 * 2 ^ k := by rw [Nat.pow_succ]; omega
          have e2 : 2 ^ (k + 1) / 2 = 2 ^ k := two_pow_succ_half k
          have hp : 1 ≤ 2 ^ k := Nat.one_le_two_pow
          rw [e2] at a b
          exact hc p (by omega) (by omega)

/-- an all-free range is a `Balanced` subtree with no element -/
theorem balanced_zero (t : Tree) (h i : Nat)
    (hn : ∀ p, i - (2 ^ (h - 1) - 1) ≤ p → p ≤ i + (2 ^ (h - 1) - 1) → t.cell p = none) :
    t.Balanced h i 0 := by
  cases h with
  | zero => rfl
  | succ h =>
    unfold Tree.Balanced
    left
    simp only [Nat.add_sub_cancel] at hn
    exact ⟨rfl, hn⟩

/-- a subtree whose only used slot is its root -/
theorem balanced_one (t : Tree) (h i : Nat) (hi : 2 ^ h ≤ i) (hu : t.isUnused i = false)
    (hn : ∀ p, i - (2 ^ h - 1) ≤ p → p ≤ i + (2 ^ h - 1) → p ≠ i → t.cell p = none) :
    t.Balanced (h + 1) i 1 := by
  unfold Tree.Balanced
  right
  cases h with
  | zero => exact ⟨by omega, hu, by simp [Tree.Balanced], by simp [Tree.Balanced]⟩
  | succ k =>
    have e : 2 ^ (k + 1) = 2 * 2 ^ k := by rw [Nat.pow_succ]; omega
    have e2 : 2 ^ (k + 1) / 2 = 2 ^ k := two_pow_succ_half k
    have hp : 1 ≤ 2 ^ k := Nat.one_le_two_pow
    refine ⟨by omega, hu, ?_, ?_⟩
    · apply balanced_zero
      intro p a b
      simp only [Nat.add_sub_cancel] at a b
      rw [e2] at a b
      exact hn p (by omega) (by omega) (by omega)
    · apply balanced_zero
      intro p a b
      simp only [Nat.add_sub_cancel] at a b
      rw [e2] at a b
      exact hn p (by omega) (by omega) (by omega)

end PPLV.COTree.Redist
