import PPLV.COTree.ProofsRebFillA

/-!
# C16 stage 2 — one entry of the stack loop fills one subtree (`fill_entry`)
-/
namespace PPLV.COTree.FillB

/-- Processing the entry `(n, op)` (`op ≠ 0`) whose first move leads to the node `(i, o)`,
    `o = 2^h`, with all slots of that subtree free and a source that delivers the `n` elements `l`:
    after `c ≤ 6n - 5` steps (`c = 1` when `n = 0`) the entry — and for `n ≥ 2` everything it pushed,
    its own rewritten copy `(n, 0)` included — is gone from the stack, the iterator is at `(i, o)`,
    the subtree lists `l` in the half/half layout and nothing else was written. -/
theorem fill_entry {σ : Type} (pop : σ → Option ((Nat × Int) × σ)) :
    ∀ (n : Nat) (h m i o : Nat) (t : Tree) (root : TIt) (op : Nat) (l : List (Nat × Int)) (s s' : σ),
      op ≠ 0 → o = 2 ^ h → i = o * (2 * m + 1) → mv op root = ⟨i, o⟩ →
      n ≤ 2 * o - 1 → i + (o - 1) < t.cells.size →
      (∀ p, i - (o - 1) ≤ p → p ≤ i + (o - 1) → t.cell p = none) →
      l.length = n → Delivers pop s l s' →
      ∃ c t', (n = 0 → c = 1) ∧ (n ≠ 0 → c + 5 ≤ 6 * n) ∧
        (∀ fuel stk, fillLoop pop (fuel + c) ((n, op) :: stk) t root s =
          fillLoop pop fuel stk t' ⟨i, o⟩ s') ∧
        t.FrameOn t' (i - (o - 1)) (i + (o - 1)) ∧ t'.listRange (i - (o - 1)) (i + o) = l ∧
        t'.Balanced (h + 1) i n := by
  intro n
  induction n using Nat.strongRecOn with
  | _ n ih =>
  intro h m i o t root op l s s' hop ho hi hmv hn hsz hnone hlen hdel
  have hopos : 1 ≤ o := by rw [ho]; exact Nat.one_le_two_pow
  have hio : o ≤ i := by rw [hi]; exact Nat.le_mul_of_pos_right _ (by omega)
  by_cases h0 : n = 0
  · subst h0
    have hl : l = [] := List.length_eq_zero_iff.mp hlen
    subst hl
    have hs : s = s' := hdel
    subst hs
    refine ⟨1, t, fun _ => rfl, fun h => absurd rfl h, ?_, ⟨rfl, rfl, rfl, rfl, fun _ _ => rfl⟩, ?_, ?_⟩
    · intro fuel stk
      rw [fill_step_zero pop fuel op hop, hmv]
    · exact listRange_none t _ _ (fun p h1 h2 => hnone p h1 (by omega))
    · rw [balanced_unfold]
      exact Or.inl ⟨rfl, by rw [← ho]; exact hnone⟩
  by_cases h1 : n = 1
  · subst h1
    obtain ⟨kv, hl⟩ : ∃ kv, l = [kv] := List.length_eq_one_iff.mp hlen
    subst hl
    obtain ⟨s1, hpop, hs⟩ := hdel
    have hs' : s1 = s' := hs
    subst hs'
    have hcell : ∀ p, (t.setCell i (some kv)).cell p = if p = i then some kv else t.cell p := by
      intro p
      rw [cell_setCell]
      by_cases hp : p = i
      · subst hp
        have : p < t.cells.size := by omega
        simp [this]
      · have : ¬ (i = p ∧ i < t.cells.size) := by omega
        rw [if_neg this, if_neg hp]
    refine ⟨1, t.setCell i (some kv), fun h => absurd h (by omega), fun _ => by omega, ?_,
      ⟨rfl, rfl, rfl, by simp, ?_⟩, ?_, ?_⟩
    · intro fuel stk
      rw [fill_step_one pop fuel op hop stk t root s s1 kv hpop, hmv]
    · intro p hp
      rw [hcell, if_neg (by omega)]
    · rw [listRange_split _ _ i _ (by omega) (by omega),
        listRange_split _ i (i + 1) _ (by omega) (by omega), listRange_one, hcell i, if_pos rfl,
        listRange_none _ _ i (fun p h1 h2 => by rw [hcell, if_neg (by omega)]; exact hnone p h1 (by omega)),
        listRange_none _ (i + 1) _ (fun p h1 h2 => by
          rw [hcell, if_neg (by omega)]; exact hnone p (by omega) (by omega))]
      rfl
    · rw [balanced_unfold]
      have hh : 2 ^ (h - 1) ≤ 2 ^ h := Nat.pow_le_pow_right (by omega) (by omega)
      have hh1 : 1 ≤ 2 ^ (h - 1) := Nat.one_le_two_pow
      have hh2 : h ≠ 0 → 2 ^ h / 2 = 2 ^ (h - 1) := by
        intro hne
        have : 2 ^ h = 2 ^ (h - 1) * 2 := by rw [← Nat.pow_succ]; congr 1; omega
        omega
      refine Or.inr ⟨by omega, ?_, ?_, ?_⟩
      · unfold Tree.isUnused; rw [hcell, if_pos rfl]; rfl
      · by_cases hz : h = 0
        · subst hz; rw [Tree.Balanced]
        · apply balanced_zero
          rw [hh2 hz]
          intro p h1 h2
          rw [hcell, if_neg (by omega)]
          exact hnone p (by omega) (by omega)
      · by_cases hz : h = 0
        · subst hz; rw [Tree.Balanced]
        · apply balanced_zero
          rw [hh2 hz]
          intro p h1 h2
          rw [hcell, if_neg (by omega)]
          exact hnone p (by omega) (by omega)
  · sorry

end PPLV.COTree.FillB
