import PPLV.COTree.ProofsRebFillA

/-!
# C16 stage 2 — one entry of the stack loop fills one subtree (`fill_entry`)
-/
namespace PPLV.COTree.FillB

/-- Processing the entry `(n, op)` (`op ≠ 0`) whose first move leads to the node `(i, o)`,
    `o = 2^h`, with all slots of that subtree free and a source that delivers the `n` elements `l`:
    after `c ≤ 6n - 5` steps (`c = 1` when `n = 0`) the entry — and for `n ≥ 2` everything it pushed,
    its own rewritten copy `(n, 0)` included — is gone from the stack, the iterator is at `(i, o)`,
    the subtree lists `l` in the half/half layout and nothing else was written. -/
theorem fill_entry {σ : Type} (pop : σ → Option ((Nat × Int) × σ)) :
    ∀ (n : Nat) (h m i o : Nat) (t : Tree) (root : TIt) (op : Nat) (l : List (Nat × Int)) (s s' : σ),
      op ≠ 0 → o = 2 ^ h → i = o * (2 * m + 1) → mv op root = ⟨i, o⟩ →
      n ≤ 2 * o - 1 → i + (o - 1) < t.cells.size →
      (∀ p, i - (o - 1) ≤ p → p ≤ i + (o - 1) → t.cell p = none) →
      l.length = n → Delivers pop s l s' →
      ∃ c t', (n = 0 → c = 1) ∧ (n ≠ 0 → c + 5 ≤ 6 * n) ∧
        (∀ fuel stk, fillLoop pop (fuel + c) ((n, op) :: stk) t root s =
          fillLoop pop fuel stk t' ⟨i, o⟩ s') ∧
        t.FrameOn t' (i - (o - 1)) (i + (o - 1)) ∧ t'.listRange (i - (o - 1)) (i + o) = l ∧
        t'.Balanced (h + 1) i n := by
  intro n
  induction n using Nat.strongRecOn with
  | _ n ih =>
  intro h m i o t root op l s s' hop ho hi hmv hn hsz hnone hlen hdel
  have hopos : 1 ≤ o := by rw [ho]; exact Nat.one_le_two_pow
  have hio : o ≤ i := by rw [hi]; exact Nat.le_mul_of_pos_right _ (by omega)
  by_cases h0 : n = 0
  · subst h0
    have hl : l = [] := List.length_eq_zero_iff.mp hlen
    subst hl
    have hs : s = s' := hdel
    subst hs
    refine ⟨1, t, fun _ => rfl, fun h => absurd rfl h, ?_, ⟨rfl, rfl, rfl, rfl, fun _ _ => rfl⟩, ?_, ?_⟩
    · intro fuel stk
      rw [fill_step_zero pop fuel op hop, hmv]
    · exact listRange_none t _ _ (fun p h1 h2 => hnone p h1 (by omega))
    · rw [balanced_unfold]
      exact Or.inl ⟨rfl, by rw [← ho]; exact hnone⟩
  by_cases h1 : n = 1
  · subst h1
    obtain ⟨kv, hl⟩ : ∃ kv, l = [kv] := List.length_eq_one_iff.mp hlen
    subst hl
    obtain ⟨s1, hpop, hs⟩ := hdel
    have hs' : s1 = s' := hs
    subst hs'
    have hcell : ∀ p, (t.setCell i (some kv)).cell p = if p = i then some kv else t.cell p := by
      intro p
      rw [cell_setCell]
      by_cases hp : p = i
      · subst hp
        have : p < t.cells.size := by omega
        simp [this]
      · have : ¬ (i = p ∧ i < t.cells.size) := by omega
        rw [if_neg this, if_neg hp]
    refine ⟨1, t.setCell i (some kv), fun h => absurd h (by omega), fun _ => by omega, ?_,
      ⟨rfl, rfl, rfl, by simp, ?_⟩, ?_, ?_⟩
    · intro fuel stk
      rw [fill_step_one pop fuel op hop stk t root s s1 kv hpop, hmv]
    · intro p hp
      rw [hcell, if_neg (by omega)]
    · rw [listRange_split _ _ i _ (by omega) (by omega),
        listRange_split _ i (i + 1) _ (by omega) (by omega), listRange_one, hcell i, if_pos rfl,
        listRange_none _ _ i (fun p h1 h2 => by rw [hcell, if_neg (by omega)]; exact hnone p h1 (by omega)),
        listRange_none _ (i + 1) _ (fun p h1 h2 => by
          rw [hcell, if_neg (by omega)]; exact hnone p (by omega) (by omega))]
      rfl
    · rw [balanced_unfold]
      have hh : 2 ^ (h - 1) ≤ 2 ^ h := Nat.pow_le_pow_right (by omega) (by omega)
      have hh1 : 1 ≤ 2 ^ (h - 1) := Nat.one_le_two_pow
      have hh2 : h ≠ 0 → 2 ^ h / 2 = 2 ^ (h - 1) := by
        intro hne
        have : 2 ^ h = 2 ^ (h - 1) * 2 := by rw [← Nat.pow_succ]; congr 1; omega
        omega
      refine Or.inr ⟨by omega, ?_, ?_, ?_⟩
      · unfold Tree.isUnused; rw [hcell, if_pos rfl]; rfl
      · by_cases hz : h = 0
        · subst hz; rw [Tree.Balanced]
        · apply balanced_zero
          rw [hh2 hz]
          intro p h1 h2
          rw [hcell, if_neg (by omega)]
          exact hnone p (by omega) (by omega)
      · by_cases hz : h = 0
        · subst hz; rw [Tree.Balanced]
        · apply balanced_zero
          rw [hh2 hz]
          intro p h1 h2
          rw [hcell, if_neg (by omega)]
          exact hnone p (by omega) (by omega)
  · have hn2 : 2 ≤ n := by omega
    cases h with
    | zero => exfalso; rw [Nat.pow_zero] at ho; omega
    | succ h1 =>
    obtain ⟨q, hq⟩ : ∃ q, q = 2 ^ h1 := ⟨_, rfl⟩
    have hqpos : 1 ≤ q := by rw [hq]; exact Nat.one_le_two_pow
    have hoq : o = 2 * q := by rw [ho, hq, Nat.pow_succ]; omega
    subst hoq
    have hiL : i - q = q * (2 * (2 * m) + 1) := by
      have : i = q * (2 * (2 * m) + 1) + q := by rw [hi]; ring
      omega
    have hiR : i + q = q * (2 * (2 * m + 1) + 1) := by rw [hi]; ring
    -- split the list
    obtain ⟨nl, hnl⟩ : ∃ nl, nl = (n + 1) / 2 - 1 := ⟨_, rfl⟩
    obtain ⟨nr, hnr⟩ : ∃ nr, nr = n - (n + 1) / 2 := ⟨_, rfl⟩
    have hlt : l = l.take nl ++ l.drop nl := (List.take_append_drop nl l).symm
    have hlen1 : (l.take nl).length = nl := by rw [List.length_take]; omega
    have hlen2 : (l.drop nl).length = 1 + nr := by rw [List.length_drop]; omega
    obtain ⟨ll, hll⟩ : ∃ ll, ll = l.take nl := ⟨_, rfl⟩
    rw [← hll] at hlt hlen1
    cases hrest : l.drop nl with
    | nil => rw [hrest] at hlen2; simp at hlen2; omega
    | cons kv lr =>
    rw [hrest] at hlt hlen2
    have hlen3 : lr.length = nr := by simp at hlen2; omega
    rw [hlt] at hdel
    obtain ⟨s1, hd1, hd2⟩ := delivers_append pop ll (kv :: lr) s s' hdel
    obtain ⟨s2, hpop, hd3⟩ := hd2
    have hmvL : mv 1 ⟨i, 2 * q⟩ = ⟨i - q, q⟩ := by
      have : 2 * q / 2 = q := by omega
      simp [mv, TIt.getLeftChild, this]
    have hmvR : mv 2 ⟨i, 2 * q⟩ = ⟨i + q, q⟩ := by
      have : 2 * q / 2 = q := by omega
      simp [mv, TIt.getRightChild, this]
    have hmv3 : mv 3 ⟨i, 2 * q⟩ = ⟨i, 2 * q⟩ := by simp [mv]
    -- left subtree
    obtain ⟨cl, t1, hcl0, hcl, hrunl, hfrl, hlistl, hball⟩ :=
      ih nl (by omega) h1 (2 * m) (i - q) q t ⟨i, 2 * q⟩ 1 ll s s1 (by omega) hq hiL
        hmvL (by omega) (by omega)
        (fun p h1 h2 => hnone p (by omega) (by omega)) hlen1 hd1
    obtain ⟨f1a, f1b, f1c, f1d, f1e⟩ := hfrl
    -- the root of the subtree
    obtain ⟨t2, ht2⟩ : ∃ t2, t2 = t1.setCell i (some kv) := ⟨_, rfl⟩
    have hcell2 : ∀ p, t2.cell p = if p = i then some kv else t1.cell p := by
      intro p
      rw [ht2, cell_setCell]
      by_cases hp : p = i
      · subst hp
        have : p < t1.cells.size := by omega
        simp [this]
      · have : ¬ (i = p ∧ i < t1.cells.size) := by omega
        rw [if_neg this, if_neg hp]
    have hsz2 : t2.cells.size = t1.cells.size := by rw [ht2]; simp
    -- right subtree
    obtain ⟨cr, t3, hcr0, hcr, hrunr, hfrr, hlistr, hbalr⟩ :=
      ih nr (by omega) h1 (2 * m + 1) (i + q) q t2 ⟨i, 2 * q⟩ 2 lr s2 s' (by omega) hq hiR
        hmvR (by omega) (by omega)
        (fun p h1 h2 => by
          rw [hcell2, if_neg (by omega), f1e p (by omega)]; exact hnone p (by omega) (by omega))
        hlen3 hd3
    obtain ⟨f3a, f3b, f3c, f3d, f3e⟩ := hfrr
    have hc31 : ∀ p, p ≤ i → t3.cell p = t2.cell p := fun p hp => f3e p (by omega)
    refine ⟨1 + cl + 1 + 1 + cr + 1, t3, fun h => absurd h (by omega), ?_, ?_, ?_, ?_, ?_⟩
    · intro _
      have := hcr (by omega)
      by_cases hz : nl = 0
      · have := hcl0 hz; omega
      · have := hcl hz; omega
    · intro fuel stk
      have e : fuel + (1 + cl + 1 + 1 + cr + 1) = (fuel + 1 + cr + 1 + 1 + cl) + 1 := by omega
      rw [e, fill_step_expand pop _ n op hop hn2, hmv, ← hnl, ← hnr, hrunl, fill_step_parent,
        parent_left q m i hqpos hi,
        fill_step_one pop _ 3 (by omega) _ _ _ s1 s2 kv hpop, hmv3]
      simp only []
      rw [← ht2, hrunr, fill_step_parent, parent_right q m i hqpos hi]
    · have g1 : t2.rs = t1.rs := by rw [ht2]; rfl
      have g2 : t2.maxDepth = t1.maxDepth := by rw [ht2]; rfl
      have g3 : t2.size = t1.size := by rw [ht2]; rfl
      refine ⟨by omega, by omega, by omega, by omega, ?_⟩
      intro p hp
      rw [f3e p (by omega), hcell2, if_neg (by omega), f1e p (by omega)]
    · rw [hlt]
      rw [listRange_split _ _ i _ (by omega) (by omega),
        listRange_split _ i (i + 1) _ (by omega) (by omega), listRange_one, hc31 i (by omega),
        hcell2 i, if_pos rfl]
      have e1 : t3.listRange (i - (2 * q - 1)) i = ll := by
        rw [← hlistl]
        have a : i - q - (q - 1) = i - (2 * q - 1) := by omega
        have b : i - q + q = i := by omega
        rw [a, b]
        apply listRange_congr
        intro p h1 h2
        rw [hc31 p (by omega), hcell2, if_neg (by omega)]
      have e2 : t3.listRange (i + 1) (i + 2 * q) = lr := by
        rw [← hlistr]
        have a : i + q - (q - 1) = i + 1 := by omega
        have b : i + q + q = i + 2 * q := by omega
        rw [a, b]
      rw [e1, e2]
      rfl
    · rw [balanced_unfold]
      have e : 2 ^ (h1 + 1) / 2 = q := by rw [hq, Nat.pow_succ]; omega
      rw [e, ← hnl, ← hnr]
      refine Or.inr ⟨by omega, ?_, ?_, hbalr⟩
      · unfold Tree.isUnused
        rw [hc31 i (by omega), hcell2 i, if_pos rfl]; rfl
      · apply balanced_congr t1 t3 h1 (i - q) nl _ hball
        intro p h1 h2
        rw [← hq] at h1 h2
        rw [hc31 p (by omega), hcell2, if_neg (by omega)]

end PPLV.COTree.FillB
