import PPLV.COTree.ProofsRowOnTreeF

/-!
# C16 stage 3 — `InsertSlot0Spec`: the iterator returned by `CO_Tree::insert(key)` is on a tree slot

The case analysis of `insertPrecise_spec` (`ProofsRebIns2.lean`) once more, keeping only where the
returned iterator points: a node found by `go_down_searching_key`, a child of such a node, or the
result of the search restarted after `rebalance` — always a node, hence a slot of `1 … rs`.
-/
namespace PPLV.COTree
open PPLV.COTree.Tree

namespace RowT

/-- the returned iterator is on a slot `1 … reserved_size` of the returned tree -/
def SlotOK (r : Option (Tree × TIt)) : Prop :=
  ∀ t' it, r = some (t', it) → 1 ≤ it.i ∧ it.i ≤ t'.rs

theorem insertTail_nonleaf_slot (t : Tree) (key : Nat) (value : Int) (i o : Nat) (hs : t.Shape)
    (hn : t.IsNode i o) (hl : (⟨i, o⟩ : TIt).isLeaf = false) :
    SlotOK (insertTail t key value ⟨i, o⟩) := by
  have ho1 : o ≠ 1 := by simpa [TIt.isLeaf] using hl
  obtain ⟨o', k1, k2, k3, k4, k5, k6, k7, -, -, -⟩ := hn.kids hs ho1
  have hb6 := k6.bounds hs
  have hb7 := k7.bounds hs
  intro t' it h
  by_cases hlt : key < t.keyAt i
  · have e : insertTail t key value ⟨i, o⟩ =
        some ({ t.setCell (i - o') (some (key, value)) with size := t.size + 1 }, ⟨i - o', o'⟩) := by
      simp [insertTail, hl, hlt, TIt.getLeftChild, k2]
    rw [e] at h
    simp only [Option.some.injEq, Prod.mk.injEq] at h
    obtain ⟨h1, h2⟩ := h
    subst h1 h2
    exact ⟨by show 1 ≤ i - o'; omega, by show i - o' ≤ t.rs; omega⟩
  · have e : insertTail t key value ⟨i, o⟩ =
        some ({ t.setCell (i + o') (some (key, value)) with size := t.size + 1 }, ⟨i + o', o'⟩) := by
      simp [insertTail, hl, hlt, TIt.getRightChild, k2]
    rw [e] at h
    simp only [Option.some.injEq, Prod.mk.injEq] at h
    obtain ⟨h1, h2⟩ := h
    subst h1 h2
    exact ⟨by show 1 ≤ i + o'; omega, by show i + o' ≤ t.rs; omega⟩

theorem insertTail_leaf_slot (t : Tree) (key : Nat) (value : Int)
    (i o : Nat) (hs : t.Shape) (hsorted : SMap.Sorted t.toList) (hup : t.UpClosed)
    (hcnt : t.countRange 1 (t.rs + 1) = t.size)
    (hn : t.IsNode i o) (hu : t.isUnused i = false)
    (hk : t.keyAt i ≠ key) (hbr : t.Brackets i i key) (hl : (⟨i, o⟩ : TIt).isLeaf = true)
    (h7 : 7 ≤ t.rs) (hroot : rebalanceCond t.maxDepth (t.size + 1) t.rs 0 = false) :
    SlotOK (insertTail t key value ⟨i, o⟩) := by
  have ho1 : o = 1 := by simpa [TIt.isLeaf] using hl
  subst ho1
  obtain ⟨t3, j, oj, r1, r2, r3, r4, r5, r6, r7, r8, r9, r10, r11, r12, r13, r14, ⟨p, p1, p2, p3⟩, _, _⟩ :=
    rebalanceInsertSpec { t with size := t.size + 1 } i key value hs h7 hsorted hup hn hu hk hbr
      (by show t.countRange 1 (t.rs + 1) + 1 = t.size + 1; omega) hroot
  have e : insertTail t key value ⟨i, 1⟩ = some (t3, t3.goDownSearchingKey key ⟨j, oj⟩) := by
    simp [insertTail, hl, r1]
  have hcs := sorted_cells r7
  have hbj := r10.bounds r2
  have hbr3 : t3.Brackets (j - (oj - 1)) (j + (oj - 1)) key := by
    constructor
    · intro q kv h1 h2 hc
      exact hcs q p kv (key, value) h1 (by omega) (by omega) hc p3
    · intro q kv h1 h2 hc
      exact hcs p q (key, value) kv (by omega) (by omega) h2 p3 hc
  obtain ⟨g1, -, -, -, -, -⟩ := goDownSpec t3 key j oj r2 r7 r8 r10 r14 hbr3
  have hbi' := g1.bounds r2
  intro t' it h
  rw [e] at h
  simp only [Option.some.injEq, Prod.mk.injEq] at h
  obtain ⟨h1, h2⟩ := h
  subst h1 h2
  omega

theorem insertPrecise_slot (t : Tree) (key : Nat) (value : Int) (i o : Nat) (hinv : t.Inv)
    (hsize : 1 ≤ t.size) (g1 : t.IsNode i o) (g2 : t.isUnused i = false)
    (g5 : (∃ p, 1 ≤ p ∧ p ≤ t.rs ∧ ∃ v, t.cell p = some (key, v)) → t.keyAt i = key)
    (g6 : t.keyAt i ≠ key → t.Brackets i i key ∧
      ((⟨i, o⟩ : TIt).isLeaf = false →
        t.isUnused (if key < t.keyAt i then (⟨i, o⟩ : TIt).getLeftChild
          else (⟨i, o⟩ : TIt).getRightChild).i = true)) :
    SlotOK (insertPrecise t key value ⟨i, o⟩) := by
  obtain ⟨hs, hcnt, hsorted, hup, hdens⟩ := hinv
  have hne : t.size ≠ 0 := by omega
  have hodd := hs.rs_odd
  have hszle : t.size ≤ t.rs := by
    have := countRange_le t 1 (t.rs + 1); omega
  have hru := root_used hs hup (by omega)
  have hbi := g1.bounds hs
  by_cases hk : t.keyAt i = key
  · have e1 : insertPrecise t key value ⟨i, o⟩ = some (t.setCell i (some (key, value)), ⟨i, o⟩) := by
      simp [insertPrecise, hk]
    intro t' it h
    rw [e1] at h
    simp only [Option.some.injEq, Prod.mk.injEq] at h
    obtain ⟨h1, h2⟩ := h
    subst h1 h2
    exact ⟨by show 1 ≤ i; omega, by show i ≤ t.rs; omega⟩
  · have hnst : SMap.stored t.toList key = false := by
      cases hx : SMap.stored t.toList key with
      | false => rfl
      | true =>
        obtain ⟨p, v, p1, p2, p3⟩ := (stored_iff t key).1 hx
        exact absurd (g5 ⟨p, p1, p2, v, p3⟩) hk
    obtain ⟨g6a, g6b⟩ := g6 hk
    have e1 : insertPrecise t key value ⟨i, o⟩ = insertPreciseAux t key value ⟨i, o⟩ := by
      simp [insertPrecise, hk]
    rw [e1]
    cases hgr : insertRebuilds t.size t.rs with
    | false =>
      rw [insertPreciseAux_not_grown hgr]
      cases hl : (⟨i, o⟩ : TIt).isLeaf with
      | false => exact insertTail_nonleaf_slot t key value i o hs g1 hl
      | true =>
        have ho1 : o = 1 := by simpa [TIt.isLeaf] using hl
        have h7 : 7 ≤ t.rs := by
          rcases shape_rs_3_or_7 hs with h3 | h7
          · exfalso
            rw [insertRebuilds_false_iff] at hgr
            have hroot1 := (IsNode.root hs).offset_eq
            have hi1 := g1.offset_eq
            have hne' : i ≠ t.rs / 2 + 1 := by
              intro he
              rw [he] at hi1
              omega
            have h2 : 2 ≤ t.countRange 1 (t.rs + 1) := by
              by_cases hlt : i < t.rs / 2 + 1
              · exact count_two (by omega) hlt (by omega) g2 hru
              · exact count_two (by omega) (by omega : t.rs / 2 + 1 < i) (by omega) hru g2
            omega
          · exact h7
        exact insertTail_leaf_slot t key value i o hs hsorted hup hcnt g1 g2 hk g6a hl h7
          (root_ok_insert t.maxDepth t.size t.rs h7 hdens hgr)
    | true =>
      rw [insertPreciseAux_grown hgr]
      obtain ⟨b1, b2, b3, b4, _, _, b7, b8, b9⟩ := biggerSpec t hs
      have hup1 := b9 hup
      generalize rebuildBiggerTree t = t1 at b1 b2 b3 b4 b7 b8 hup1 ⊢
      have hsorted1 : SMap.Sorted t1.toList := by rw [b7]; exact hsorted
      have hcnt1 : t1.countRange 1 (t1.rs + 1) = t1.size := by rw [b8, b4]; exact hcnt
      have hru1 := root_used b1 hup1 (by omega)
      obtain ⟨f1, f2, _, _, f5, f6⟩ :=
        goDownSpec t1 key _ _ b1 hsorted1 hup1 (IsNode.root b1) hru1 (brackets_root t1 b1 key)
      have eroot1 : (⟨t1.rs / 2 + 1, t1.rs / 2 + 1⟩ : TIt) = t1.getRoot := rfl
      rw [eroot1] at f1 f2 f5 f6
      generalize t1.goDownSearchingKey key t1.getRoot = it1 at f1 f2 f5 f6 ⊢
      obtain ⟨i1, o1⟩ := it1
      simp only at f1 f2 f5 f6
      have hbi1 := f1.bounds b1
      obtain ⟨kv1, hkv1⟩ := (isUnused_false_iff t1 i1).mp f2
      have hk1 : t1.keyAt i1 ≠ key := by
        intro he
        have hst1 : SMap.stored t1.toList key = true :=
          (stored_iff t1 key).2 ⟨i1, kv1.2, by omega, by omega, by
            rw [hkv1, ← he, keyAt_of_cell hkv1]⟩
        rw [b7, hnst] at hst1
        cases hst1
      obtain ⟨f6a, f6b⟩ := f6 hk1
      cases hl : (⟨i1, o1⟩ : TIt).isLeaf with
      | false => exact insertTail_nonleaf_slot t1 key value i1 o1 b1 f1 hl
      | true =>
        exact insertTail_leaf_slot t1 key value i1 o1 b1 hsorted1 hup1 hcnt1 f1 f2 hk1 f6a hl
          (by omega)
          (by rw [b4, b2]
              exact root_ok_insert_grown t1.maxDepth t.size t.rs hodd.2 hszle hgr)

/-- **`InsertSlot0Spec`** -/
theorem insertSlot0Spec : InsertSlot0Spec := by
  intro t key t' it hv h
  rcases hv with he | ⟨hinv, hsize⟩
  · subst he
    rw [insert_init0, insert_empty] at h
    simp only [Option.some.injEq, Prod.mk.injEq] at h
    obtain ⟨h1, h2⟩ := h
    subst h1 h2
    exact ⟨by show 1 ≤ 2; omega, by show 2 ≤ 3; omega⟩
  · have hs := hinv.shape
    have hne : t.size ≠ 0 := by omega
    have hodd := hs.rs_odd
    have hru := root_used hs hinv.upClosed (by have := hinv.count; omega)
    obtain ⟨g1, g2, g3, g4, g5, g6⟩ :=
      goDownSpec t key _ _ hs hinv.sorted hinv.upClosed (IsNode.root hs) hru (brackets_root t hs key)
    have eroot : (⟨t.rs / 2 + 1, t.rs / 2 + 1⟩ : TIt) = t.getRoot := rfl
    rw [eroot] at g1 g2 g3 g4 g5 g6
    unfold insertHinted0 at h
    rw [if_neg hne] at h
    simp only at h
    generalize t.goDownSearchingKey key t.getRoot = it0 at g1 g2 g3 g4 g5 g6 h
    obtain ⟨i, o⟩ := it0
    simp only at g1 g2 g3 g4 g5 g6 h
    have hbi := g1.bounds hs
    by_cases hk : t.keyAt i = key
    · rw [if_pos hk] at h
      simp only [Option.some.injEq, Prod.mk.injEq] at h
      obtain ⟨h1, h2⟩ := h
      subst h1 h2
      exact ⟨by show 1 ≤ i; omega, by show i ≤ t.rs; omega⟩
    · rw [if_neg hk] at h
      exact insertPrecise_slot t key 0 i o hinv hsize g1 g2
        (fun ⟨p, p1, p2, v, p3⟩ => g5 ⟨p, by omega, by omega, v, p3⟩) g6 t' it h

/-- `Sparse_Row::swap_coefficients(i, j)`, all indices -/
theorem swapCoefficients_ok (hh0 : InsertHinted0Spec) (r : TRow) (i j : Nat) (hv : r.Valid)
    (hi : i < r.size) (hj : j < r.size) :
    ∃ r', r.swapCoefficients i j = some r' ∧ r'.Valid ∧
      r'.toSRow = RowOp.sparse r.toSRow (.swap i j) :=
  swapCoefficients_ok_partial hh0 r i j (Or.inr insertSlot0Spec) hv hi hj

end RowT
end PPLV.COTree
