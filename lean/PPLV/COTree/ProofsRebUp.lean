import PPLV.COTree.ProofsRebNav

/-!
# C16 stage 2 — consequences of sortedness and of `UpClosed` on the in-order layout

No Mathlib.
-/
namespace PPLV.COTree
namespace Tree

/-! ## cells -/

theorem isUnused_true_iff (t : Tree) (p : Nat) : t.isUnused p = true ↔ t.cell p = none := by
  simp [isUnused]

theorem isUnused_false_iff (t : Tree) (p : Nat) : t.isUnused p = false ↔ ∃ kv, t.cell p = some kv := by
  cases h : t.cell p <;> simp [isUnused, h]

theorem keyAt_of_cell {t : Tree} {p : Nat} {kv : Nat × Int} (h : t.cell p = some kv) :
    t.keyAt p = kv.1 := by
  simp [keyAt, h]

theorem valAt_of_cell {t : Tree} {p : Nat} {kv : Nat × Int} (h : t.cell p = some kv) :
    t.valAt p = kv.2 := by
  simp [valAt, h]

theorem cell_eq_of_used {t : Tree} {p : Nat} (h : t.isUnused p = false) :
    t.cell p = some (t.keyAt p, t.valAt p) := by
  obtain ⟨kv, hkv⟩ := (isUnused_false_iff t p).mp h
  rw [keyAt_of_cell hkv, valAt_of_cell hkv, hkv]

theorem mem_listRange (t : Tree) (lo hi : Nat) (kv : Nat × Int) :
    kv ∈ t.listRange lo hi ↔ ∃ p, lo ≤ p ∧ p < hi ∧ t.cell p = some kv := by
  simp only [listRange, List.mem_filterMap, List.mem_range'_1]
  constructor
  · rintro ⟨p, ⟨h1, h2⟩, h3⟩; exact ⟨p, h1, by omega, h3⟩
  · rintro ⟨p, h1, h2, h3⟩; exact ⟨p, ⟨h1, by omega⟩, h3⟩

/-- keys increase with the slot -/
def CellsSorted (t : Tree) : Prop :=
  ∀ p q kv kw, 1 ≤ p → p < q → q ≤ t.rs → t.cell p = some kv → t.cell q = some kw → kv.1 < kw.1

/-- the bridge from the in-order listing to the slots -/
theorem sorted_cells {t : Tree} (h : SMap.Sorted t.toList) : t.CellsSorted := by
  intro p q kv kw h1 h2 h3 hp hq
  have e : t.toList = t.listRange 1 q ++ t.listRange q (t.rs + 1) :=
    listRange_split t 1 q (t.rs + 1) (by omega) (by omega)
  unfold SMap.Sorted at h
  rw [e, List.pairwise_append] at h
  exact h.2.2 kv ((mem_listRange t 1 q kv).mpr ⟨p, h1, h2, hp⟩) kw
    ((mem_listRange t q (t.rs + 1) kw).mpr ⟨q, Nat.le_refl _, by omega, hq⟩)

/-! ## children of a non-leaf node -/

/-- a non-leaf node `(c, oc)`: `oc = 2 * o'`, the children `(c ∓ o', o')` are nodes whose parent
    is `(c, oc)` -/
theorem IsNode.kids {t : Tree} {c oc : Nat} (hs : t.Shape) (hn : t.IsNode c oc) (hl : oc ≠ 1) :
    ∃ o', oc = 2 * o' ∧ oc / 2 = o' ∧ 0 < o' ∧ o' < t.rs / 2 + 1 ∧ 2 * o' ≤ c ∧
      t.IsNode (c - o') o' ∧ t.IsNode (c + o') o' ∧
      TIt.getParent ⟨c - o', o'⟩ = ⟨c, oc⟩ ∧ TIt.getParent ⟨c + o', o'⟩ = ⟨c, oc⟩ ∧
      (∀ h, oc = 2 ^ (h + 1) → o' = 2 ^ h) := by
  have hb := hn.bounds hs
  obtain ⟨hk1, hk2, hk3⟩ := hn.children hs hl
  have hbl := hk1.bounds hs
  obtain ⟨h, m, ho, hi, _⟩ := hn
  refine ⟨oc / 2, by omega, rfl, hbl.1, by omega, by omega, hk1, hk2, ?_, ?_, ?_⟩
  · have := getParent_getLeftChild hbl.1 m
    rw [hk3, ← hi, getLeftChild_eq] at this
    exact this
  · have := getParent_getRightChild hbl.1 m
    rw [hk3, ← hi, getRightChild_eq] at this
    exact this
  · intro h' hh
    rw [hh, Nat.pow_succ']; omega

/-! ## `UpClosed` -/

/-- an unused node roots an empty subtree -/
theorem UpClosed.empty_subtree {t : Tree} (hs : t.Shape) (hup : t.UpClosed) :
    ∀ (h c oc : Nat), oc = 2 ^ h → t.IsNode c oc → t.isUnused c = true →
      ∀ p, c - (oc - 1) ≤ p → p ≤ c + (oc - 1) → t.cell p = none := by
  intro h
  induction h with
  | zero =>
    intro c oc ho _ hu p h1 h2
    simp only [Nat.pow_zero] at ho
    have : p = c := by omega
    rw [this]; exact (isUnused_true_iff t c).mp hu
  | succ h ih =>
    intro c oc ho hn hu p h1 h2
    have hpos := two_pow_pos' h
    have hl : oc ≠ 1 := by rw [ho, Nat.pow_succ']; omega
    obtain ⟨o', e1, _, hpos', hlt, hge, hkl, hkr, hpl, hpr, hpow⟩ := hn.kids hs hl
    have ho' := hpow h ho
    have hul : t.isUnused (c - o') = true := by
      cases hx : t.isUnused (c - o') with
      | true => rfl
      | false =>
        have := hup (c - o') o' hkl hx (by omega)
        rw [hpl] at this
        simp only at this
        rw [hu] at this; cases this
    have hur : t.isUnused (c + o') = true := by
      cases hx : t.isUnused (c + o') with
      | true => rfl
      | false =>
        have := hup (c + o') o' hkr hx (by omega)
        rw [hpr] at this
        simp only at this
        rw [hu] at this; cases this
    rcases Nat.lt_trichotomy p c with hlt' | heq | hgt
    · exact ih (c - o') o' ho' hkl hul p (by omega) (by omega)
    · rw [heq]; exact (isUnused_true_iff t c).mp hu
    · exact ih (c + o') o' ho' hkr hur p (by omega) (by omega)

theorem UpClosed.empty_subtree' {t : Tree} {c oc : Nat} (hs : t.Shape) (hup : t.UpClosed)
    (hn : t.IsNode c oc) (hu : t.isUnused c = true) :
    ∀ p, c - (oc - 1) ≤ p → p ≤ c + (oc - 1) → t.cell p = none := by
  obtain ⟨h, _, _, _, ho, _⟩ := hn.lin hs
  exact UpClosed.empty_subtree hs hup h c oc ho hn hu

/-- every node whose subtree contains a used slot is used -/
theorem UpClosed.used_of_mem {t : Tree} {j oj p : Nat} (hs : t.Shape) (hup : t.UpClosed)
    (hj : t.IsNode j oj) (h1 : j - (oj - 1) ≤ p) (h2 : p ≤ j + (oj - 1))
    (hp : t.isUnused p = false) : t.isUnused j = false := by
  cases hx : t.isUnused j with
  | false => rfl
  | true =>
    have := UpClosed.empty_subtree' hs hup hj hx p h1 h2
    rw [(isUnused_true_iff t p).mpr this] at hp; cases hp

/-- the ancestors of a used node are used -/
theorem UpClosed.ancestors_used {t : Tree} {i o j oj : Nat} (hs : t.Shape) (hup : t.UpClosed)
    (hn : t.IsNode i o) (hu : t.isUnused i = false) (hj : t.IsNode j oj)
    (h1 : j - (oj - 1) ≤ i - (o - 1)) (h2 : i + (o - 1) ≤ j + (oj - 1)) (_h3 : o < oj) :
    t.isUnused j = false := by
  have hb := hn.bounds hs
  exact UpClosed.used_of_mem hs hup hj (by omega) (by omega) hu

end Tree
end PPLV.COTree
