import PPLV.COTree.Model

/-!
# C16 stage 2 — the rebalancing machinery of `CO_Tree`, code-shaped

No Mathlib import: this file is linked into the native driver `pplv_c16reb`.

The real layout (`src/CO_Tree_defs.hh`): `indexes[0 .. reserved_size+1]`, `data[0 .. reserved_size]`,
`reserved_size = 2^max_depth - 1`; slot `i` (`1 ≤ i ≤ reserved_size`) is a node of the complete
binary tree in *in-order* numbering: the lowest set bit of `i` (`offset = i & -i`) is `2^(height-1)`,
the leaves are the odd `i`, the root is `reserved_size/2 + 1`.  `indexes[i] == unused_index` marks a
free slot; `indexes[0] = indexes[reserved_size+1] = 0` are the iterator sentinels.

Here one `Cell` holds `indexes[i]` and `data[i]` together (`none` = `unused_index`).
Every `while` of the C++ text is a structural recursion on the loop's own counter or on explicit
fuel with an explicit `none` on exhaustion; `PPLV/COTree/ProofsReb*.lean` prove the bound.
-/
namespace PPLV.COTree

/-- `indexes[p]` and `data[p]`; `none` = `unused_index` -/
abbrev Cell := Option (Nat × Int)

/-- the value `0` that `init` writes to `indexes[0]` and `indexes[reserved_size + 1]` -/
def sentinel : Cell := some (0, 0)

/-- `indexes[p] > key` where `unused_index` is the largest `dimension_type`
    (`redistribute_elements_in_subtree`, CO_Tree.cc:1106; `key != unused_index` is asserted) -/
def idxGt (c : Cell) (key : Nat) : Bool :=
  match c with
  | none => true
  | some (k, _) => decide (k > key)

/-- the private members of `CO_Tree` -/
structure Tree where
  rs : Nat              -- `reserved_size`
  maxDepth : Nat        -- `max_depth`
  size : Nat            -- `size_`
  cells : Array Cell    -- `indexes[0 .. rs+1]` (+ `data[]`); `#[]` when `indexes == nullptr`
deriving Repr, Inhabited, DecidableEq

namespace Tree

def cell (t : Tree) (p : Nat) : Cell := t.cells.getD p none
def isUnused (t : Tree) (p : Nat) : Bool := (t.cell p).isNone
/-- `indexes[p]` of a used slot -/
def keyAt (t : Tree) (p : Nat) : Nat := match t.cell p with | some (k, _) => k | none => 0
def valAt (t : Tree) (p : Nat) : Int := match t.cell p with | some (_, v) => v | none => 0
def setCell (t : Tree) (p : Nat) (c : Cell) : Tree := { t with cells := t.cells.setIfInBounds p c }

/-- the stored pairs of the slots `lo, lo+1, …, hi-1` in slot order -/
def listRange (t : Tree) (lo hi : Nat) : List (Nat × Int) :=
  (List.range' lo (hi - lo)).filterMap t.cell

/-- the in-order contents: what `begin() … end()` enumerates -/
def toList (t : Tree) : List (Nat × Int) := t.listRange 1 (t.rs + 1)

/-- number of used slots among `lo … hi-1` -/
def countRange (t : Tree) (lo hi : Nat) : Nat :=
  ((List.range' lo (hi - lo)).filter (fun p => !t.isUnused p)).length

/-- the `indexes[]` array as the `HoleArray` of stage 1 (`bisect*` theorems) -/
def toHoleArray (t : Tree) : HoleArray :=
  ⟨(Array.range t.rs).map (fun i => (t.cell (i + 1)).map Prod.fst)⟩

/-- `while (*p == unused_index) --p;` — the sentinel `indexes[0]` stops it -/
def skipDown (t : Tree) : Nat → Nat
  | 0 => 0
  | p + 1 => if t.isUnused (p + 1) then skipDown t p else p + 1

/-- `while (indexes[p] == unused_index) ++p;` — the sentinel `indexes[rs+1]` stops it -/
def skipUpAux (t : Tree) : Nat → Nat → Nat
  | 0, p => p
  | f + 1, p => if t.isUnused p then skipUpAux t f (p + 1) else p
def skipUp (t : Tree) (p : Nat) : Nat := skipUpAux t (t.rs + 1 - p) p

end Tree

/-! ## `tree_iterator` (CO_Tree_inlines.hh:714-870) -/

/-- `least_significant_one_mask(i)` = `i & -i` (globals_inlines.hh:187) -/
def lowBitAux : Nat → Nat → Nat
  | 0, _ => 0
  | f + 1, i => if i % 2 = 1 then 1 else 2 * lowBitAux f (i / 2)
def lowBit (i : Nat) : Nat := lowBitAux i i

/-- `tree_iterator`: `i` = `dfs_index()`, `offset` = `i & -i` -/
structure TIt where
  i : Nat
  offset : Nat
deriving Repr, DecidableEq, Inhabited

namespace TIt

/-- `tree_iterator(tree, i)` -/
def ofIndex (i : Nat) : TIt := ⟨i, lowBit i⟩
/-- `get_left_child()`: `offset /= 2; i -= offset;` -/
def getLeftChild (it : TIt) : TIt := let o := it.offset / 2; ⟨it.i - o, o⟩
/-- `get_right_child()`: `offset /= 2; i += offset;` -/
def getRightChild (it : TIt) : TIt := let o := it.offset / 2; ⟨it.i + o, o⟩
/-- `get_parent()`: `i &= ~offset; offset *= 2; i |= offset;` — `offset` is a power of two, so the
    two bit operations are written arithmetically (bit `b = 2^k` of `i` is `(i / b) % 2`) -/
def getParent (it : TIt) : TIt :=
  let i := if (it.i / it.offset) % 2 = 1 then it.i - it.offset else it.i
  let o := it.offset * 2
  ⟨if (i / o) % 2 = 1 then i else i + o, o⟩
def isLeaf (it : TIt) : Bool := it.offset == 1

end TIt

namespace Tree

/-- `tree_iterator::get_root()`: `i = reserved_size / 2 + 1; offset = i;` -/
def getRoot (t : Tree) : TIt := ⟨t.rs / 2 + 1, t.rs / 2 + 1⟩
/-- `tree_iterator::is_root()` -/
def isRoot (t : Tree) (it : TIt) : Bool := it.offset == t.rs / 2 + 1
/-- `tree_iterator::is_right_child()`: `(i & (2*offset)) != 0` unless root -/
def isRightChild (t : Tree) (it : TIt) : Bool :=
  if t.isRoot it then false else (it.i / (2 * it.offset)) % 2 == 1
/-- `tree_iterator::depth()`: `integer_log2((reserved_size + 1) / offset)`; the root has depth 1 -/
def depth (t : Tree) (it : TIt) : Nat :=
  let q := (t.rs + 1) / it.offset
  integerLog2 q q

/-- `tree_iterator::go_down_searching_key(key)` (CO_Tree.cc:1442); one unit of fuel per level -/
def goDownAux (t : Tree) (key : Nat) : Nat → TIt → TIt
  | 0, it => it
  | f + 1, it =>
    if it.isLeaf then it
    else if key = t.keyAt it.i then it
    else if key < t.keyAt it.i then
      let c := it.getLeftChild
      if t.isUnused c.i then c.getParent else goDownAux t key f c
    else
      let c := it.getRightChild
      if t.isUnused c.i then c.getParent else goDownAux t key f c
def goDownSearchingKey (t : Tree) (key : Nat) (it : TIt) : TIt := goDownAux t key t.maxDepth it

/-- `follow_left_children_with_value()` (CO_Tree_inlines.hh:809): the leftmost used slot of the subtree -/
def followLeftChildrenWithValue (t : Tree) (it : TIt) : TIt :=
  TIt.ofIndex (t.skipUp (it.i - (it.offset - 1)))
/-- `follow_right_children_with_value()` (CO_Tree_inlines.hh:825): the rightmost used slot of the subtree -/
def followRightChildrenWithValue (t : Tree) (it : TIt) : TIt :=
  TIt.ofIndex (t.skipDown (it.i + (it.offset - 1)))

/-- `count_used_in_subtree(itr)` (CO_Tree.cc:1318): the `2*k - 1` slots from `root_index - (k-1)` -/
def countUsedInSubtree (t : Tree) (it : TIt) : Nat :=
  let k := it.offset
  t.countRange (it.i - (k - 1)) (it.i - (k - 1) + (2 * k - 1))

end Tree

/-! ## `init`, `rebuild_bigger_tree` -/

/-- `CO_Tree::init(n)` (CO_Tree.cc:616) -/
def init (n : Nat) : Tree :=
  if n = 0 then ⟨0, 0, 0, #[]⟩
  else
    let maxD := integerLog2 n n + 1
    let rs := 2 ^ maxD - 1
    -- `for (i = 1; i <= reserved_size; ++i) indexes[i] = unused_index;` then the two markers
    ⟨rs, maxD, 0, ((Array.replicate (rs + 2) none).setIfInBounds 0 sentinel).setIfInBounds (rs + 1) sentinel⟩

/-- `for (i = 1, j = 2; i <= reserved_size; ++i, ++j) { new[j] = old[i]; ++j; new[j] = unused; }`
    (CO_Tree.cc:853) — first argument: the iterations that are left -/
def rebuildBiggerLoop (old : Tree) : Nat → Nat → Nat → Array Cell → Array Cell
  | 0, _, _, nw => nw
  | f + 1, i, j, nw =>
    let nw := nw.setIfInBounds j (old.cell i)
    let j := j + 1
    let nw := nw.setIfInBounds j none
    rebuildBiggerLoop old f (i + 1) (j + 1) nw

/-- `CO_Tree::rebuild_bigger_tree()` (CO_Tree.cc:830) -/
def rebuildBiggerTree (t : Tree) : Tree :=
  if t.rs = 0 then init 3
  else
    let nrs := t.rs * 2 + 1
    -- `new dimension_type[new_reserved_size + 2]` (every slot is written below), `new_indexes[1] = unused_index`
    let nw : Array Cell := (Array.replicate (nrs + 2) none).setIfInBounds 1 none
    let nw := rebuildBiggerLoop t t.rs 1 2 nw
    let nw := (nw.setIfInBounds 0 sentinel).setIfInBounds (nrs + 1) sentinel
    ⟨nrs, t.maxDepth + 1, t.size, nw⟩

/-! ## `compact_elements_in_the_rightmost_end` (CO_Tree.cc:973) -/

/-- `*first_unused = *last; *last = unused_index; move_data_element(...)` when the two differ -/
def compactMove (t : Tree) (last fu : Nat) : Tree :=
  if last ≠ fu then (t.setCell fu (t.cell last)).setCell last none else t

/-- the loop under `if (add_element)` (CO_Tree.cc:1001): arguments `subtree_size`,
    `last_index_in_subtree`, `first_unused_index`; returns them with the tree -/
def compactLoop1 (key : Nat) (value : Int) (t : Tree) : Nat → Nat → Nat → Tree × Nat × Nat × Nat
  | 0, last, fu => (t, 0, last, fu)
  | n + 1, last, fu =>                                   -- `--subtree_size;`
    if last = 0 ∨ key > t.keyAt last then
      if last = 0 ∨ last ≠ fu then
        (t.setCell fu (some (key, value)), n, last, fu - 1)   -- the new element, then `break`
      else (t, n, last, fu)                                    -- `break` without placing it
    else
      let t := compactMove t last fu
      let last := t.skipDown (last - 1)
      compactLoop1 key value t n last (fu - 1)

/-- the final `while (subtree_size != 0)` (CO_Tree.cc:1037) -/
def compactLoop2 (t : Tree) : Nat → Nat → Nat → Tree × Nat
  | 0, _, fu => (t, fu)
  | n + 1, last, fu =>
    let t := compactMove t last fu
    let last := t.skipDown (last - 1)
    compactLoop2 t n last (fu - 1)

/-- returns the tree and `first_unused_index - indexes` -/
def compactElementsInTheRightmostEnd (t : Tree) (lastInSubtree subtreeSize key : Nat) (value : Int)
    (addElement : Bool) : Tree × Nat :=
  let fu := lastInSubtree
  let last := t.skipDown lastInSubtree
  if addElement then
    let r := compactLoop1 key value t subtreeSize last fu
    compactLoop2 r.1 r.2.1 r.2.2.1 r.2.2.2
  else compactLoop2 t subtreeSize last fu

/-! ## `redistribute_elements_in_subtree` (CO_Tree.cc:1062) -/

/-- the variables the loop changes: the tree, `last_used`, `add_element` -/
structure RState where
  t : Tree
  lastUsed : Nat
  addElement : Bool
deriving Repr, DecidableEq

/-- the `top_n == 1` branch (CO_Tree.cc:1104) -/
def redistPlace (key : Nat) (value : Int) (s : RState) (topI : Nat) : RState :=
  if s.addElement && (decide (s.lastUsed > s.t.rs) || idxGt (s.t.cell s.lastUsed) key) then
    { s with addElement := false, t := s.t.setCell topI (some (key, value)) }
  else
    let t := if s.lastUsed ≠ topI then (s.t.setCell topI (s.t.cell s.lastUsed)).setCell s.lastUsed none
             else s.t
    { s with t := t, lastUsed := s.lastUsed + 1 }

/-- `while (stack_first_empty != stack)`; the head of the list is the top of the stack;
    `none` = fuel exhausted -/
def redistLoop (key : Nat) (value : Int) : Nat → List (Nat × Nat) → RState → Option RState
  | _, [], s => some s
  | 0, _ :: _, _ => none
  | f + 1, (topN, topI) :: stk, s =>
    if topN = 1 then redistLoop key value f stk (redistPlace key value s topI)
    else
      let offset := lowBit topI / 2                      -- `(top_i & -top_i) / 2`
      let half := (topN + 1) / 2
      let stk := (topN - half, topI + offset) :: stk     -- right subtree
      let stk := (1, topI) :: stk                        -- root of the current subtree
      let stk := if half - 1 ≠ 0 then (half - 1, topI - offset) :: stk else stk   -- left subtree
      redistLoop key value f stk s

/-- fuel `2 * subtree_size` (proved sufficient: `redistLoop_fuel`) -/
def redistributeElementsInSubtree (t : Tree) (rootIndex subtreeSize lastUsed key : Nat) (value : Int)
    (addElement : Bool) : Option RState :=
  redistLoop key value (2 * subtreeSize) [(subtreeSize, rootIndex)] ⟨t, lastUsed, addElement⟩

/-! ## `rebalance` (CO_Tree.cc:879) -/

/-- the condition of the `while` (CO_Tree.cc:906): the density of the subtree is outside the
    thresholds of its depth; `d` = `itr_depth_minus_1` -/
def rebalanceCond (maxDepth subtreeSize subtreeReserved d : Nat) : Bool :=
  isGreaterThanRatio subtreeSize subtreeReserved
      (maxDensityPercent + (d * (100 - maxDensityPercent)) / (maxDepth - 1))
  || isLessThanRatio subtreeSize subtreeReserved
      (minDensityPercent - (d * (minDensityPercent - minLeafDensityPercent)) / (maxDepth - 1))

/-- the `while` of `rebalance`, recursion on `itr_depth_minus_1`.  `none`: the condition holds
    at the root, where the C++ text asserts `itr_depth_minus_1 != 0` and would call `get_parent()`
    on the root. -/
def rebalanceLoop (t : Tree) : Nat → TIt → Nat → Nat → Option (TIt × Nat)
  | 0, itr, subtreeSize, subtreeReserved =>
    if rebalanceCond t.maxDepth subtreeSize subtreeReserved 0 then none else some (itr, subtreeSize)
  | d' + 1, itr, subtreeSize, subtreeReserved =>
    if rebalanceCond t.maxDepth subtreeSize subtreeReserved (d' + 1) then
      let isRightBrother := t.isRightChild itr
      let p := itr.getParent
      let bro := if isRightBrother then p.getLeftChild else p.getRightChild
      let subtreeSize := subtreeSize + t.countUsedInSubtree bro
      let itr := bro.getParent
      rebalanceLoop t d' itr (subtreeSize + 1) (2 * subtreeReserved + 1)
    else some (itr, subtreeSize)

/-- `CO_Tree::rebalance(itr, key, value)`; `none` = one of the loops does not terminate normally -/
def rebalance (t : Tree) (itr : TIt) (key : Nat) (value : Int) : Option (Tree × TIt) :=
  if t.rs = 3 then some (t, t.getRoot)
  else
    let d := t.depth itr - 1
    let height := t.maxDepth - d
    let subtreeReserved := 2 ^ height - 1
    let deleting := t.isUnused itr.i
    let subtreeSize := if deleting then 0 else 2
    match rebalanceLoop t d itr subtreeSize subtreeReserved with
    | none => none
    | some (itr, subtreeSize) =>
      let lastInSubtree := itr.i + itr.offset - 1
      let c := compactElementsInTheRightmostEnd t lastInSubtree subtreeSize key value (!deleting)
      let firstUnused := c.2
      match redistributeElementsInSubtree c.1 itr.i subtreeSize (firstUnused + 1) key value
              (firstUnused != lastInSubtree - subtreeSize) with
      | none => none
      | some s => some (s.t, itr)

/-! ## `move_data_from` (CO_Tree.cc:1157) and `CO_Tree(Iterator, n)` (CO_Tree_templates.hh:30)

The two functions run the same stack loop (operations 0 = go to the parent, 1 / 2 = go to the
left / right child then fill, 3 = fill here); they differ in where the next element comes from. -/

/-- `pop`: the next source element and the advanced source; the top of the stack is the head.
    An entry whose operation was overwritten with 0 keeps a stale `first` that is never read. -/
def fillLoop {σ : Type} (pop : σ → Option ((Nat × Int) × σ)) :
    Nat → List (Nat × Nat) → Tree → TIt → σ → Option (Tree × σ)
  | _, [], t, _, s => some (t, s)
  | 0, _ :: _, _, _, _ => none
  | f + 1, (topN, op) :: stk, t, root, s =>
    if op = 0 then fillLoop pop f stk t root.getParent s
    else
      let root := if op = 1 then root.getLeftChild else if op = 2 then root.getRightChild else root
      if topN = 0 then fillLoop pop f stk t root s
      else if topN = 1 then
        match pop s with
        | none => none
        | some (kv, s) => fillLoop pop f stk (t.setCell root.i (some kv)) root s
      else
        let half := (topN + 1) / 2
        fillLoop pop f ((half - 1, 1) :: (0, 0) :: (1, 3) :: (topN - half, 2) :: (topN, 0) :: stk) t root s

/-- source of `move_data_from`: the other tree and `source_index` -/
def popTree (s : Tree × Nat) : Option ((Nat × Int) × (Tree × Nat)) :=
  match s.1.cell s.2 with
  | none => none
  | some kv =>
    let src := s.1.setCell s.2 none
    some (kv, (src, src.skipUp (s.2 + 1)))

/-- `CO_Tree::move_data_from(tree)`; returns `*this` (`tree` is left with `size_ == 0`) -/
def moveDataFrom (dst src : Tree) : Option Tree :=
  if src.size = 0 then some dst
  else
    match fillLoop popTree (6 * src.size + 1) [(src.size, 3)] dst dst.getRoot (src, src.skipUp 1) with
    | none => none
    | some (t, _) => some { t with size := src.size }

/-- `CO_Tree::rebuild_smaller_tree()` (CO_Tree_inlines.hh:331) -/
def rebuildSmallerTree (t : Tree) : Option Tree := moveDataFrom (init (t.rs / 2)) t

def popList (l : List (Nat × Int)) : Option ((Nat × Int) × List (Nat × Int)) :=
  match l with
  | [] => none
  | kv :: r => some (kv, r)

/-- `CO_Tree::CO_Tree(Iterator i, dimension_type n)` on the sequence the iterator enumerates -/
def bulk (l : List (Nat × Int)) : Option Tree :=
  let n := l.length
  if n = 0 then some (init 0)
  else
    let t := init (bulkRs n)
    match fillLoop popList (6 * n + 1) [(n, 3)] t t.getRoot l with
    | none => none
    | some (t, _) => some { t with size := n }

/-! ## `insert`, `insert_precise`, `insert_precise_aux`, `insert_in_empty_tree` -/

/-- `CO_Tree::insert_in_empty_tree(key, data)` (CO_Tree_inlines.hh:293) -/
def insertInEmptyTree (t : Tree) (key : Nat) (value : Int) : Tree :=
  let t := rebuildBiggerTree t
  let itr := t.getRoot
  { t.setCell itr.i (some (key, value)) with size := t.size + 1 }

/-- `CO_Tree::insert_precise_aux(key, data, itr)` (CO_Tree.cc:456) -/
def insertPreciseAux (t : Tree) (key : Nat) (value : Int) (itr : TIt) : Option (Tree × TIt) :=
  let grown := isGreaterThanRatio (t.size + 1) t.rs maxDensityPercent
  let t := if grown then rebuildBiggerTree t else t
  let itr := if grown then t.goDownSearchingKey key t.getRoot else itr
  if !itr.isLeaf then
    let itr := if key < t.keyAt itr.i then itr.getLeftChild else itr.getRightChild
    some ({ t.setCell itr.i (some (key, value)) with size := t.size + 1 }, itr)
  else
    let t := { t with size := t.size + 1 }
    match rebalance t itr key value with
    | none => none
    | some (t, itr) => some (t, t.goDownSearchingKey key itr)

/-- `CO_Tree::insert_precise(key, data, itr)` (CO_Tree.cc:401); the `invalidating` path inserts a
    zero and swaps the saved copy in: same final contents -/
def insertPrecise (t : Tree) (key : Nat) (value : Int) (itr : TIt) : Option (Tree × TIt) :=
  if t.keyAt itr.i = key then some (t.setCell itr.i (some (key, value)), itr)
  else insertPreciseAux t key value itr

/-- `CO_Tree::insert(key, data)` (CO_Tree_inlines.hh:127) -/
def insert (t : Tree) (key : Nat) (value : Int) : Option (Tree × TIt) :=
  if t.size = 0 then
    let t := insertInEmptyTree t key value
    some (t, t.getRoot)
  else
    insertPrecise t key value (t.goDownSearchingKey key t.getRoot)

/-! ## `erase` -/

/-- the `while (true)` of `erase(tree_iterator)` (CO_Tree.cc:551): the hole sinks to a slot with
    no used child; one unit of fuel per level -/
def eraseSink (t : Tree) : Nat → TIt → Option (Tree × TIt)
  | 0, _ => none
  | f + 1, itr =>
    let cur := itr.i                                     -- `current_key`, `current_data`
    if itr.isLeaf then some (t, itr)
    else
      let l := itr.getLeftChild
      if !t.isUnused l.i then
        let nx := t.followRightChildrenWithValue l
        -- `swap(current_key, itr.index()); move_data_element(current_data, *itr);`
        let t' := (t.setCell cur (t.cell nx.i)).setCell nx.i (some (t.keyAt cur, t.valAt nx.i))
        eraseSink t' f nx
      else
        let r := l.getParent.getRightChild
        if !t.isUnused r.i then
          let nx := t.followLeftChildrenWithValue r
          let t' := (t.setCell cur (t.cell nx.i)).setCell nx.i (some (t.keyAt cur, t.valAt nx.i))
          eraseSink t' f nx
        else some (t, r.getParent)

/-- `++result` on an `iterator` positioned at slot `p`: the key of the next used slot, `none` = `end()` -/
def nextKey (t : Tree) (p : Nat) : Option Nat :=
  let q := t.skipUp (p + 1)
  if q > t.rs then none else some (t.keyAt q)

/-- `CO_Tree::erase(tree_iterator)` (CO_Tree.cc:511); returns the tree and the key the returned
    iterator points to (`none` = `end()`); outer `none` = a loop ran out of fuel -/
def eraseAt (t : Tree) (itr : TIt) : Option (Tree × Option Nat) :=
  if t.size = 1 then some (init 0, none)                 -- `clear(); return end();`
  else
    let shrink := isLessThanRatio (t.size - 1) t.rs minDensityPercent
                  && !isGreaterThanRatio (t.size - 1) (t.rs / 2) maxDensityPercent
    let key := t.keyAt itr.i
    match (if shrink then rebuildSmallerTree t else some t) with
    | none => none
    | some t =>
      let itr := if shrink then t.goDownSearchingKey key t.getRoot else itr
      let deletedKey := t.keyAt itr.i
      let deletedNode := itr
      match eraseSink t t.maxDepth itr with
      | none => none
      | some (t, itr) =>
        let t := { t.setCell itr.i none with size := t.size - 1 }
        match rebalance t itr 0 0 with
        | none => none
        | some (t, itr) =>
          let itr := if itr.offset < deletedNode.offset then deletedNode else itr
          let itr := t.goDownSearchingKey deletedKey itr
          let res := if t.keyAt itr.i < deletedKey then nextKey t itr.i else some (t.keyAt itr.i)
          some (t, res)

/-- `CO_Tree::erase(key)` (CO_Tree_inlines.hh:142) -/
def erase (t : Tree) (key : Nat) : Option (Tree × Option Nat) :=
  if t.size = 0 then some (t, none)
  else
    let itr := t.goDownSearchingKey key t.getRoot
    if t.keyAt itr.i = key then eraseAt t itr
    else some (t, if t.keyAt itr.i < key then nextKey t itr.i else some (t.keyAt itr.i))

/-! ## the invariant (`structure_OK()` + `OK()`, CO_Tree.cc:675-796) -/

namespace Tree

/-- executable `OK()`: shape of the arrays, `size_` = number of used slots, keys strictly
    increasing in slot order, density clauses -/
def okB (t : Tree) : Bool :=
  if t.rs = 0 then t.cells.size == 0 && t.maxDepth == 0 && t.size == 0
  else
    decide (3 ≤ t.rs) && t.rs == 2 ^ t.maxDepth - 1 && t.maxDepth != 0
    && t.cells.size == t.rs + 2 && t.cell 0 == sentinel && t.cell (t.rs + 1) == sentinel
    && t.countRange 1 (t.rs + 1) == t.size
    && SMap.sortedB t.toList
    && densityOK t.size t.rs

/-- the structural part as a proposition -/
structure WF (t : Tree) : Prop where
  shape : t.rs = 2 ^ t.maxDepth - 1
  cellsSize : t.rs ≠ 0 → t.cells.size = t.rs + 2
  sent0 : t.rs ≠ 0 → t.cell 0 = sentinel
  sentN : t.rs ≠ 0 → t.cell (t.rs + 1) = sentinel
  count : t.countRange 1 (t.rs + 1) = t.size
  sorted : SMap.Sorted t.toList

end Tree

end PPLV.COTree
