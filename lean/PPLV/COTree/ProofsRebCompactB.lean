import PPLV.COTree.ProofsRebCompactA

/-!
# C16 stage 2 — `compact_elements_in_the_rightmost_end`: the loop under `if (add_element)`

`compactLoop1` keeps the listing `[F, last] ++ (fu, L]` equal to a fixed sorted list `M`
(keys `≠ key`), every key of the block `(fu, L]` is `> key`.  It stops either after writing the
new pair in front of the block — then the listing is `SMap.set M key value` — or, when the next
element sits directly in front of the block and has a smaller key, without writing it.
In both cases the state it returns satisfies the precondition of `cmp_loop2`.
-/
namespace PPLV.COTree
open Tree

/-- what `compactLoop1 key value t n last fu` returns (`M` = listing of `[F, last] ++ (fu, L]`) -/
def Loop1Post (F L key : Nat) (value : Int) (M : SMap) (t : Tree) (n fu : Nat)
    (r : Tree × Nat × Nat × Nat) : Prop :=
  t.FrameOn r.1 F fu ∧ r.2.2.2 ≤ fu ∧ r.2.2.1 ≤ r.2.2.2 ∧
  (∀ p, r.2.2.1 < p → p ≤ r.2.2.2 → r.1.cell p = none) ∧
  (r.2.2.1 = 0 ∨ r.1.isUnused r.2.2.1 = false) ∧
  r.1.countRange F (r.2.2.1 + 1) = r.2.1 ∧
  (∀ p, r.2.2.2 < p → p ≤ L → r.1.isUnused p = false) ∧
  ((r.2.2.2 + n = fu + r.2.1 ∧
      r.1.listRange F (r.2.2.1 + 1) ++ r.1.listRange (r.2.2.2 + 1) (L + 1) = SMap.set M key value) ∨
   (r.2.2.2 + n = fu + r.2.1 + 1 ∧
      r.1.listRange F (r.2.2.1 + 1) ++ r.1.listRange (r.2.2.2 + 1) (L + 1) = M))

theorem cmp_sorted_append_left {A B : SMap} (h : SMap.Sorted (A ++ B)) : SMap.Sorted A :=
  (List.pairwise_append.1 h).1

/-- every key of `[F, last]` is below `key` when the rightmost one is -/
theorem cmp_keys_lt {F : Nat} {t : Tree} {last key : Nat}
    (hs : SMap.Sorted (t.listRange F (last + 1)))
    (hlast : last = 0 ∨ t.isUnused last = false)
    (c1 : last = 0 ∨ key > t.keyAt last) (hF : 1 ≤ F) :
    ∀ q ∈ t.listRange F (last + 1), q.1 < key := by
  intro q hq
  by_cases hFl : F ≤ last
  · have h0 : last ≠ 0 := by omega
    have hk : key > t.keyAt last := by
      rcases c1 with h | h
      · exact absurd h h0
      · exact h
    have hu : t.isUnused last = false := by
      rcases hlast with h | h
      · exact absurd h h0
      · exact h
    obtain ⟨kv, hkv⟩ := (cmp_isUnused_false_iff t last).1 hu
    rw [cmp_keyAt_of_cell hkv] at hk
    rw [cmp_listRange_snoc hFl hkv] at hs hq
    rcases List.mem_append.1 hq with h | h
    · have := (List.pairwise_append.1 hs).2.2 q h kv (List.mem_singleton.2 rfl)
      omega
    · rw [List.mem_singleton.1 h]; exact hk
  · rw [cmp_listRange_empty t (by omega : last + 1 ≤ F)] at hq
    cases hq

theorem cmp_loop1 (F L key : Nat) (value : Int) (M : SMap) (hF : 1 ≤ F)
    (hsorted : SMap.Sorted M) (hne : ∀ q ∈ M, q.1 ≠ key) :
    ∀ (n : Nat) (t : Tree) (last fu : Nat),
    last ≤ fu → fu ≤ L → L ≤ t.rs → t.cells.size = t.rs + 2 →
    (∀ p, last < p → p ≤ fu → t.cell p = none) →
    (last = 0 ∨ t.isUnused last = false) →
    t.countRange F (last + 1) + 1 = n →
    F + n ≤ fu + 1 →
    (∀ p, fu < p → p ≤ L → ∃ kv, t.cell p = some kv ∧ key < kv.1) →
    t.listRange F (last + 1) ++ t.listRange (fu + 1) (L + 1) = M →
    (∀ p, 1 ≤ p → p < F → ∀ kv, t.cell p = some kv → kv.1 < key) →
    Loop1Post F L key value M t n fu (compactLoop1 key value t n last fu)
  | 0, t, last, fu, _, _, _, _, _, _, hcnt, _, _, _, _ => by omega
  | n + 1, t, last, fu, hlf, hfuL, hL, hsz, hnone, hlast, hcnt, hroom, hblock, hM, hleft => by
    have hblockB : ∀ q ∈ t.listRange (fu + 1) (L + 1), key < q.1 := by
      intro q hq
      obtain ⟨p, h1, h2, h3⟩ := cmp_mem_listRange.1 hq
      obtain ⟨kv, h4, h5⟩ := hblock p (by omega) (by omega)
      rw [h3] at h4
      cases h4
      exact h5
    by_cases c1 : last = 0 ∨ key > t.keyAt last
    · by_cases c2 : last = 0 ∨ last ≠ fu
      · -- the new pair is written at `fu`
        have e : compactLoop1 key value t (n + 1) last fu =
            (t.setCell fu (some (key, value)), n, last, fu - 1) := by
          simp only [compactLoop1]; rw [if_pos c1, if_pos c2]
        rw [e]
        obtain ⟨fu', rfl⟩ : ∃ f', fu = f' + 1 := ⟨fu - 1, by omega⟩
        have hlf' : last ≤ fu' := by
          rcases c2 with h | h
          · omega
          · omega
        have hcell : ∀ p, (t.setCell (fu' + 1) (some (key, value))).cell p =
            if fu' + 1 = p then some (key, value) else t.cell p := by
          intro p
          rw [cmp_cell_setCell]
          have : fu' + 1 < t.cells.size := by omega
          simp [this]
        have hA : (t.setCell (fu' + 1) (some (key, value))).listRange F (last + 1) =
            t.listRange F (last + 1) := by
          apply cmp_listRange_congr
          intro p h1 h2
          rw [hcell]
          have : ¬ fu' + 1 = p := by omega
          simp [this]
        have hB : (t.setCell (fu' + 1) (some (key, value))).listRange (fu' + 1) (L + 1) =
            (key, value) :: t.listRange (fu' + 1 + 1) (L + 1) := by
          rw [cmp_listRange_cons (kv := (key, value)) (by omega) (by rw [hcell]; simp)]
          congr 1
          apply cmp_listRange_congr
          intro p h1 h2
          rw [hcell]
          have : ¬ fu' + 1 = p := by omega
          simp [this]
        simp only [Nat.add_sub_cancel]
        unfold Loop1Post
        dsimp only
        refine ⟨⟨rfl, rfl, rfl, by simp, ?_⟩, Nat.le_succ _, hlf', ?_, ?_, ?_, ?_, Or.inl ⟨by omega, ?_⟩⟩
        · intro p hp
          rw [hcell]
          have : ¬ fu' + 1 = p := by omega
          simp [this]
        · intro p h1 h2
          show (t.setCell (fu' + 1) (some (key, value))).cell p = none
          rw [hcell]
          have : ¬ fu' + 1 = p := by omega
          simp only [this, if_false]
          exact hnone p h1 (by omega)
        · show last = 0 ∨ (t.setCell (fu' + 1) (some (key, value))).isUnused last = false
          rcases hlast with h | h
          · exact Or.inl h
          · right
            unfold Tree.isUnused at h ⊢
            rw [hcell]
            have : ¬ fu' + 1 = last := by omega
            simpa [this] using h
        · show (t.setCell (fu' + 1) (some (key, value))).countRange F (last + 1) = n
          rw [cmp_countRange_eq_length, hA, ← cmp_countRange_eq_length]
          omega
        · intro p h1 h2
          have h1' : fu' < p := h1
          show (t.setCell (fu' + 1) (some (key, value))).isUnused p = false
          rw [cmp_isUnused_false_iff, hcell]
          by_cases hp : fu' + 1 = p
          · exact ⟨(key, value), by simp [hp]⟩
          · obtain ⟨kv, h3, _⟩ := hblock p (by omega) h2
            exact ⟨kv, by simp [hp, h3]⟩
        · show (t.setCell (fu' + 1) (some (key, value))).listRange F (last + 1) ++
            (t.setCell (fu' + 1) (some (key, value))).listRange (fu' + 1) (L + 1) = _
          rw [hA, hB, ← hM]
          refine (SMap.cmp_set_append_mid key value _ _ ?_ hblockB).symm
          have hsA : SMap.Sorted (t.listRange F (last + 1)) := by
            rw [← hM] at hsorted; exact cmp_sorted_append_left hsorted
          exact cmp_keys_lt hsA hlast c1 hF
      · -- `last = fu` and its key is smaller: nothing is written
        have e : compactLoop1 key value t (n + 1) last fu = (t, n, last, fu) := by
          simp only [compactLoop1]; rw [if_pos c1, if_neg c2]
        rw [e]
        refine ⟨cmp_frameOn_refl _ _ _, Nat.le_refl _, hlf, hnone, hlast, by
          show t.countRange F (last + 1) = n
          omega, ?_, Or.inr ⟨rfl, hM⟩⟩
        intro p h1 h2
        obtain ⟨kv, h3, _⟩ := hblock p h1 h2
        exact (cmp_isUnused_false_iff _ _).2 ⟨kv, h3⟩
    · -- one more element (its key is `> key`) joins the block
      have e : compactLoop1 key value t (n + 1) last fu =
          compactLoop1 key value (compactMove t last fu) n
            ((compactMove t last fu).skipDown (last - 1)) (fu - 1) := by
        simp only [compactLoop1]; rw [if_neg c1]
      rw [e]
      have h0 : last ≠ 0 := fun h => c1 (Or.inl h)
      have hk : ¬ key > t.keyAt last := fun h => c1 (Or.inr h)
      have hused : t.isUnused last = false := by
        rcases hlast with h | h
        · exact absurd h h0
        · exact h
      obtain ⟨kv, hkv⟩ := (cmp_isUnused_false_iff t last).1 hused
      rw [cmp_keyAt_of_cell hkv] at hk
      have hFl : F ≤ last := by
        refine Nat.le_of_not_lt fun hc => ?_
        have := hleft last (by omega) hc kv hkv
        omega
      obtain ⟨last', rfl⟩ : ∃ l', last = l' + 1 := ⟨last - 1, by omega⟩
      obtain ⟨fu', rfl⟩ : ∃ f', fu = f' + 1 := ⟨fu - 1, by omega⟩
      simp only [Nat.add_sub_cancel]
      obtain ⟨s1, s2, s3, s4, s5, s6, s7, s8⟩ :=
        cmp_step (F := F) hFl hlf (by omega) hsz hnone hkv
      have hsnoc := cmp_listRange_snoc (F := F) hFl hkv
      have hkvM : kv ∈ M := by
        rw [← hM, hsnoc]; simp
      have hkvkey : key < kv.1 := by
        have := hne kv hkvM
        omega
      have hB1 : (compactMove t (last' + 1) (fu' + 1)).listRange (fu' + 1) (L + 1) =
          kv :: t.listRange (fu' + 1 + 1) (L + 1) := by
        rw [cmp_listRange_cons (by omega) s7]
        congr 1
        apply cmp_listRange_congr
        intro p h1 h2
        exact s8 p (by omega)
      have ih := cmp_loop1 F L key value M hF hsorted hne n _ _ fu' s2 (by omega)
        (by rw [cmp_compactMove_rs]; exact hL)
        (by rw [cmp_compactMove_cells_size, cmp_compactMove_rs]; exact hsz) s4 s5
        (by
          rw [cmp_countRange_eq_length, s6]
          rw [cmp_countRange_eq_length, hsnoc, List.length_append] at hcnt
          simpa using hcnt)
        (by omega)
        (by
          intro p h1 h2
          by_cases hp : p = fu' + 1
          · rw [hp]; exact ⟨kv, s7, hkvkey⟩
          · rw [s8 p (by omega)]; exact hblock p (by omega) h2)
        (by rw [s6, hB1, ← hM, hsnoc]; simp)
        (by
          intro p h1 h2 kv' h3
          rw [s1.2.2.2.2 p (Or.inl h2)] at h3
          exact hleft p h1 h2 kv' h3)
      generalize compactLoop1 key value (compactMove t (last' + 1) (fu' + 1)) n
        ((compactMove t (last' + 1) (fu' + 1)).skipDown last') fu' = r at ih
      obtain ⟨i1, i2, i3, i4, i5, i6, i7, i8⟩ := ih
      refine ⟨cmp_frameOn_trans s1 i1 (Nat.le_refl _) (Nat.le_succ _), by omega, i3, i4, i5, i6, i7, ?_⟩
      rcases i8 with ⟨a, b⟩ | ⟨a, b⟩
      · exact Or.inl ⟨by omega, b⟩
      · exact Or.inr ⟨by omega, b⟩

end PPLV.COTree
