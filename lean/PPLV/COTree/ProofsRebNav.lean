import PPLV.COTree.RebSpec
import PPLV.COTree.ProofsDensity

/-!
# C16 stage 2 — navigation lemmas for the `tree_iterator` model

No Mathlib.  A node is a pair `(i, o)` with `o = 2^h`, `i = o * (2*m + 1)`; its subtree occupies
the slots `i - (o-1) … i + (o-1)`.
-/
namespace PPLV.COTree

/-! ## `lowBit` -/

theorem two_pow_pos' (h : Nat) : 0 < 2 ^ h := Nat.pow_pos (by decide)

theorem lowBitAux_pow_mul : ∀ (h m f : Nat), 2 ^ h * (2 * m + 1) ≤ f →
    lowBitAux f (2 ^ h * (2 * m + 1)) = 2 ^ h
  | 0, m, f, hf => by
    simp only [Nat.pow_zero, Nat.one_mul] at hf ⊢
    cases f with
    | zero => omega
    | succ f =>
      have : (2 * m + 1) % 2 = 1 := by omega
      simp [lowBitAux, this]
  | h + 1, m, f, hf => by
    have e : 2 ^ (h + 1) * (2 * m + 1) = 2 * (2 ^ h * (2 * m + 1)) := by
      rw [Nat.pow_succ, Nat.mul_comm (2 ^ h) 2, Nat.mul_assoc]
    rw [e] at hf ⊢
    have ih := lowBitAux_pow_mul h m
    have hpos : 0 < 2 ^ h * (2 * m + 1) := Nat.mul_pos (two_pow_pos' h) (by omega)
    generalize 2 ^ h * (2 * m + 1) = X at hf ih hpos ⊢
    cases f with
    | zero => omega
    | succ f =>
      have h1 : ¬ (2 * X) % 2 = 1 := by omega
      have h2 : 2 * X / 2 = X := by omega
      simp only [lowBitAux, h1, if_false, h2]
      rw [ih f (by omega), Nat.pow_succ]; omega

theorem lowBit_pow_mul (h m : Nat) : lowBit (2 ^ h * (2 * m + 1)) = 2 ^ h :=
  lowBitAux_pow_mul h m _ (Nat.le_refl _)

theorem ofIndex_pow_mul (h m : Nat) :
    TIt.ofIndex (2 ^ h * (2 * m + 1)) = ⟨2 ^ h * (2 * m + 1), 2 ^ h⟩ := by
  simp [TIt.ofIndex, lowBit_pow_mul]

/-! ## division facts for `i = o * (2*m + 1)` -/

theorem node_div_offset {o : Nat} (ho : 0 < o) (m : Nat) : o * (2 * m + 1) / o = 2 * m + 1 :=
  Nat.mul_div_cancel_left _ ho

theorem node_div_two_offset {o : Nat} (ho : 0 < o) (m : Nat) : o * (2 * m + 1) / (2 * o) = m := by
  have e : o * (2 * m + 1) = o + (2 * o) * m := by
    rw [Nat.mul_add, Nat.mul_one, Nat.mul_left_comm, Nat.mul_assoc]; omega
  rw [e, Nat.add_mul_div_left _ _ (by omega), Nat.div_eq_of_lt (by omega)]; omega

/-- the linear view: `i = 2 * (o*m) + o` -/
theorem node_lin (o m : Nat) : o * (2 * m + 1) = 2 * (o * m) + o := by
  rw [Nat.mul_add, Nat.mul_one, Nat.mul_left_comm]

/-! ## `getParent`, `getLeftChild`, `getRightChild` -/

theorem getParent_even {i o m : Nat} (ho : 0 < o) (hi : i = o * (2 * m + 1)) (hm : m % 2 = 0) :
    TIt.getParent ⟨i, o⟩ = ⟨i + o, 2 * o⟩ := by
  subst hi
  have h1 : o * (2 * m + 1) / o % 2 = 1 := by rw [node_div_offset ho]; omega
  have e : o * (2 * m + 1) - o = (o * 2) * m := by
    rw [node_lin, Nat.mul_assoc, Nat.mul_left_comm]; omega
  have h2 : ¬ (o * (2 * m + 1) - o) / (o * 2) % 2 = 1 := by
    rw [e, Nat.mul_div_cancel_left _ (by omega)]; omega
  simp only [TIt.getParent, h1, if_true, h2, if_false]
  rw [node_lin] at *
  congr 1 <;> omega

theorem getParent_odd {i o m : Nat} (ho : 0 < o) (hi : i = o * (2 * m + 1)) (hm : m % 2 = 1) :
    TIt.getParent ⟨i, o⟩ = ⟨i - o, 2 * o⟩ := by
  subst hi
  have h1 : o * (2 * m + 1) / o % 2 = 1 := by rw [node_div_offset ho]; omega
  have e : o * (2 * m + 1) - o = (o * 2) * m := by
    rw [node_lin, Nat.mul_assoc, Nat.mul_left_comm]; omega
  have h2 : (o * (2 * m + 1) - o) / (o * 2) % 2 = 1 := by
    rw [e, Nat.mul_div_cancel_left _ (by omega)]; omega
  simp only [TIt.getParent, h1, if_true, h2]
  congr 1; omega

/-- the parent of `(o*(2m+1), o)` is `(2o*(2*(m/2)+1), 2o)` -/
theorem getParent_form {o : Nat} (ho : 0 < o) (m : Nat) :
    TIt.getParent ⟨o * (2 * m + 1), o⟩ = ⟨2 * o * (2 * (m / 2) + 1), 2 * o⟩ := by
  have key : 2 * o * (2 * (m / 2) + 1) = 2 * (o * (2 * (m / 2))) + 2 * o := by
    rw [Nat.mul_add, Nat.mul_one, Nat.mul_assoc]
  rcases Nat.mod_two_eq_zero_or_one m with hm | hm
  · rw [getParent_even ho rfl hm, key]
    have : 2 * (m / 2) = m := by omega
    rw [this, node_lin]; congr 1; omega
  · rw [getParent_odd ho rfl hm, key]
    have : m = 2 * (m / 2) + 1 := by omega
    have e2 : o * (2 * m + 1) = 2 * (o * (2 * (m / 2))) + 3 * o := by
      conv => lhs; rw [this]
      rw [node_lin, Nat.mul_add, Nat.mul_one]; omega
    rw [e2]; congr 1; omega

theorem getLeftChild_eq (i o : Nat) : TIt.getLeftChild ⟨i, o⟩ = ⟨i - o / 2, o / 2⟩ := rfl
theorem getRightChild_eq (i o : Nat) : TIt.getRightChild ⟨i, o⟩ = ⟨i + o / 2, o / 2⟩ := rfl

/-- left child of `(2o*(2m+1), 2o)` is `(o*(2*(2m)+1), o)` -/
theorem getLeftChild_form (o m : Nat) :
    TIt.getLeftChild ⟨2 * o * (2 * m + 1), 2 * o⟩ = ⟨o * (2 * (2 * m) + 1), o⟩ := by
  have h : 2 * o / 2 = o := by omega
  rw [getLeftChild_eq, h]
  congr 1
  rw [node_lin, node_lin, Nat.mul_assoc 2 o m, Nat.mul_left_comm o 2 m]; omega

/-- right child of `(2o*(2m+1), 2o)` is `(o*(2*(2m+1)+1), o)` -/
theorem getRightChild_form (o m : Nat) :
    TIt.getRightChild ⟨2 * o * (2 * m + 1), 2 * o⟩ = ⟨o * (2 * (2 * m + 1) + 1), o⟩ := by
  have h : 2 * o / 2 = o := by omega
  rw [getRightChild_eq, h]
  congr 1
  rw [node_lin, node_lin, Nat.mul_assoc 2 o m, Nat.mul_add o (2 * m) 1, Nat.mul_left_comm o 2 m]
  omega

theorem getParent_getLeftChild {o : Nat} (ho : 0 < o) (m : Nat) :
    TIt.getParent (TIt.getLeftChild ⟨2 * o * (2 * m + 1), 2 * o⟩) = ⟨2 * o * (2 * m + 1), 2 * o⟩ := by
  rw [getLeftChild_form, getParent_form ho]
  have : 2 * m / 2 = m := by omega
  rw [this]

theorem getParent_getRightChild {o : Nat} (ho : 0 < o) (m : Nat) :
    TIt.getParent (TIt.getRightChild ⟨2 * o * (2 * m + 1), 2 * o⟩) = ⟨2 * o * (2 * m + 1), 2 * o⟩ := by
  rw [getRightChild_form, getParent_form ho]
  have : (2 * m + 1) / 2 = m := by omega
  rw [this]

/-! ## nodes of a tree with `rs = 2^maxDepth - 1` slots -/

namespace Tree

/-- pure arithmetic: `2^h * (2m+1)` is a slot of a tree with `2^D - 1` slots -/
theorem node_arith {D h m : Nat} (hi : 2 ^ h * (2 * m + 1) ≤ 2 ^ D - 1) :
    h < D ∧ m < 2 ^ (D - h - 1) ∧ 2 ^ D = 2 * (2 ^ h * 2 ^ (D - h - 1)) := by
  have hp := two_pow_pos' h
  have hD := two_pow_pos' D
  have h1 : 2 ^ h ≤ 2 ^ h * (2 * m + 1) := Nat.le_mul_of_pos_right _ (by omega)
  have hlt : 2 ^ h < 2 ^ D := by omega
  have hhD : h < D := (Nat.pow_lt_pow_iff_right (by decide)).mp hlt
  have e : 2 ^ D = 2 ^ h * (2 * 2 ^ (D - h - 1)) := by
    rw [← Nat.pow_succ', ← Nat.pow_add]; congr 1; omega
  have h2 : 2 ^ h * (2 * m + 1) < 2 ^ h * (2 * 2 ^ (D - h - 1)) := by omega
  have h3 := Nat.lt_of_mul_lt_mul_left h2
  refine ⟨hhD, by omega, ?_⟩
  rw [e, Nat.mul_left_comm]

/-- the linear view of a node: with `a = o*m`, `b = o * 2^(maxDepth-h-1)`:
    `i = 2a + o`, `rs + 1 = 2b`, `a + o ≤ b` -/
theorem IsNode.lin {t : Tree} {i o : Nat} (hs : t.Shape) (hn : t.IsNode i o) :
    ∃ h m a b, o = 2 ^ h ∧ h < t.maxDepth ∧ i = o * (2 * m + 1) ∧ a = o * m ∧ i = 2 * a + o ∧
      b = o * 2 ^ (t.maxDepth - h - 1) ∧ t.rs + 1 = 2 * b ∧ a + o ≤ b ∧ 0 < o ∧
      m < 2 ^ (t.maxDepth - h - 1) := by
  obtain ⟨h, m, ho, hi, hle⟩ := hn
  obtain ⟨hrs, _, _, _, _⟩ := hs
  rw [hrs, hi, ho] at hle
  obtain ⟨h1, h2, h3⟩ := node_arith hle
  have hD := two_pow_pos' t.maxDepth
  refine ⟨h, m, o * m, o * 2 ^ (t.maxDepth - h - 1), ho, h1, hi, rfl, ?_, rfl, ?_, ?_, ?_, h2⟩
  · rw [hi, node_lin]
  · rw [hrs, ho]; omega
  · have := Nat.mul_le_mul_left o (show m + 1 ≤ 2 ^ (t.maxDepth - h - 1) from h2)
    rw [Nat.mul_add, Nat.mul_one] at this; exact this
  · rw [ho]; exact two_pow_pos' h

/-- the slots of a subtree lie in `1 … rs` -/
theorem IsNode.bounds {t : Tree} {i o : Nat} (hs : t.Shape) (hn : t.IsNode i o) :
    0 < o ∧ o ≤ i ∧ 1 ≤ i - (o - 1) ∧ i + (o - 1) ≤ t.rs ∧ o ≤ t.rs / 2 + 1 := by
  obtain ⟨h, m, a, b, _, _, _, _, hi, _, hrs, hab, ho, _⟩ := hn.lin hs
  omega

theorem isRoot_iff (t : Tree) (i o : Nat) : t.isRoot ⟨i, o⟩ = true ↔ o = t.rs / 2 + 1 := by
  simp [isRoot]

theorem isRoot_false_iff (t : Tree) (i o : Nat) : t.isRoot ⟨i, o⟩ = false ↔ o ≠ t.rs / 2 + 1 := by
  simp [isRoot]

theorem IsNode.ne_root_iff {t : Tree} {i o : Nat} (hs : t.Shape) (hn : t.IsNode i o) :
    o ≠ t.rs / 2 + 1 ↔ o < t.rs / 2 + 1 := by
  have := hn.bounds hs; omega

/-- `rs / 2 + 1 = 2^(maxDepth - 1)` -/
theorem Shape.root_pow {t : Tree} (hs : t.Shape) : t.rs / 2 + 1 = 2 ^ (t.maxDepth - 1) := by
  obtain ⟨hrs, hD, _, _, _⟩ := hs
  have e : 2 ^ t.maxDepth = 2 * 2 ^ (t.maxDepth - 1) := by
    rw [← Nat.pow_succ']; congr 1; omega
  have := two_pow_pos' (t.maxDepth - 1)
  omega

theorem Shape.rs_odd {t : Tree} (hs : t.Shape) : t.rs = 2 * (t.rs / 2) + 1 ∧ 3 ≤ t.rs := by
  obtain ⟨hrs, hD, _, _, _⟩ := hs
  have e : 2 ^ t.maxDepth = 4 * 2 ^ (t.maxDepth - 2) := by
    rw [show (4 : Nat) = 2 ^ 2 from rfl, ← Nat.pow_add]; congr 1; omega
  have := two_pow_pos' (t.maxDepth - 2)
  omega

/-- the root `(rs/2+1, rs/2+1)` is a node -/
theorem IsNode.root {t : Tree} (hs : t.Shape) : t.IsNode (t.rs / 2 + 1) (t.rs / 2 + 1) := by
  refine ⟨t.maxDepth - 1, 0, hs.root_pow, by simp, ?_⟩
  have := hs.rs_odd; omega

theorem getRoot_isNode {t : Tree} (hs : t.Shape) : t.IsNode t.getRoot.i t.getRoot.offset :=
  IsNode.root hs

/-- a node whose subtree is everything is the root -/
theorem IsNode.eq_root {t : Tree} {i o : Nat} (hs : t.Shape) (hn : t.IsNode i o)
    (ho : o = t.rs / 2 + 1) : i = t.rs / 2 + 1 := by
  have := hn.bounds hs; have := hs.rs_odd; omega

/-- the parent of a non-root node is a node -/
theorem IsNode.parent {t : Tree} {i o : Nat} (hs : t.Shape) (hn : t.IsNode i o)
    (hr : o ≠ t.rs / 2 + 1) :
    t.IsNode (TIt.getParent ⟨i, o⟩).i (2 * o) ∧ (TIt.getParent ⟨i, o⟩).offset = 2 * o := by
  have hb := hn.bounds hs
  obtain ⟨h, m, a, b, ho, hh, hi, ha, hi2, hbdef, hrs, hab, hopos, hm⟩ := hn.lin hs
  have hlt : o < b := by omega
  -- `2^(D-h-1)` is even
  have hk : 1 ≤ t.maxDepth - h - 1 := by
    rcases Nat.eq_zero_or_pos (t.maxDepth - h - 1) with h0 | h0
    · rw [h0] at hbdef; omega
    · exact h0
  have e : 2 ^ (t.maxDepth - h - 1) = 2 * 2 ^ (t.maxDepth - h - 1 - 1) := by
    rw [← Nat.pow_succ']; congr 1; omega
  subst hi
  rw [getParent_form hopos]
  refine ⟨⟨h + 1, m / 2, by rw [ho, Nat.pow_succ']; , rfl, ?_⟩, rfl⟩
  have hm2 : m / 2 + 1 ≤ 2 ^ (t.maxDepth - h - 1 - 1) := by omega
  have h5 := Nat.mul_le_mul_left (2 * o) hm2
  have h6 : 2 * o * 2 ^ (t.maxDepth - h - 1 - 1) = b := by
    rw [hbdef, e, Nat.mul_left_comm, Nat.mul_assoc]
  rw [h6] at h5
  rw [Nat.mul_add, Nat.mul_one] at h5 ⊢
  show 2 * o * (2 * (m / 2)) + 2 * o ≤ t.rs
  rw [Nat.mul_left_comm (2 * o) 2]
  omega

/-- the children of a non-leaf node are nodes -/
theorem IsNode.children {t : Tree} {i o : Nat} (hs : t.Shape) (hn : t.IsNode i o) (hl : o ≠ 1) :
    t.IsNode (i - o / 2) (o / 2) ∧ t.IsNode (i + o / 2) (o / 2) ∧ 2 * (o / 2) = o := by
  have hb := hn.bounds hs
  obtain ⟨h, m, ho, hi, hle⟩ := hn
  cases h with
  | zero => simp at ho; omega
  | succ h =>
    have e : o = 2 * 2 ^ h := by rw [ho, Nat.pow_succ']
    have e2 : o / 2 = 2 ^ h := by omega
    have hl' := getLeftChild_form (2 ^ h) m
    have hr' := getRightChild_form (2 ^ h) m
    rw [← e, ← hi, getLeftChild_eq] at hl'
    rw [← e, ← hi, getRightChild_eq] at hr'
    injection hl' with hl1 hl2
    injection hr' with hr1 hr2
    refine ⟨⟨h, 2 * m, e2, by rw [hl1, e2], by omega⟩, ⟨h, 2 * m + 1, e2, by rw [hr1, e2], by omega⟩,
      by omega⟩

/-- `is_right_child()` of a non-root node `(o*(2m+1), o)`: `m` is odd -/
theorem isRightChild_iff {t : Tree} {i o m : Nat} (ho : 0 < o) (hi : i = o * (2 * m + 1))
    (hr : o ≠ t.rs / 2 + 1) : t.isRightChild ⟨i, o⟩ = true ↔ m % 2 = 1 := by
  have : t.isRoot ⟨i, o⟩ = false := (isRoot_false_iff t i o).mpr hr
  subst hi
  simp [isRightChild, this, node_div_two_offset ho]

theorem isRightChild_root {t : Tree} {i o : Nat} (hr : o = t.rs / 2 + 1) :
    t.isRightChild ⟨i, o⟩ = false := by
  have : t.isRoot ⟨i, o⟩ = true := (isRoot_iff t i o).mpr hr
  simp [isRightChild, this]

/-- one step of the walk from a LEFT child `(i, o)`: parent `(i+o, 2o)`, brother `(i+2o, o)` -/
theorem step_left {i o m : Nat} (ho : 0 < o) (hi : i = o * (2 * m + 1)) (hm : m % 2 = 0) :
    TIt.getParent ⟨i, o⟩ = ⟨i + o, 2 * o⟩ ∧
    (TIt.getParent ⟨i, o⟩).getRightChild = ⟨i + 2 * o, o⟩ ∧
    (TIt.getParent ⟨i, o⟩).getRightChild.getParent = ⟨i + o, 2 * o⟩ := by
  have h1 := getParent_even ho hi hm
  have h2 : (TIt.getParent ⟨i, o⟩).getRightChild = ⟨i + 2 * o, o⟩ := by
    rw [h1, getRightChild_eq]; congr 1 <;> omega
  refine ⟨h1, h2, ?_⟩
  rw [h2]
  have hi' : i + 2 * o = o * (2 * (m + 1) + 1) := by
    rw [hi, node_lin, node_lin, Nat.mul_add o m 1]; omega
  rw [getParent_odd ho hi' (by omega)]; congr 1; omega

/-- one step of the walk from a RIGHT child `(i, o)`: parent `(i-o, 2o)`, brother `(i-2o, o)` -/
theorem step_right {i o m : Nat} (ho : 0 < o) (hi : i = o * (2 * m + 1)) (hm : m % 2 = 1) :
    TIt.getParent ⟨i, o⟩ = ⟨i - o, 2 * o⟩ ∧
    (TIt.getParent ⟨i, o⟩).getLeftChild = ⟨i - 2 * o, o⟩ ∧
    (TIt.getParent ⟨i, o⟩).getLeftChild.getParent = ⟨i - o, 2 * o⟩ ∧ 3 * o ≤ i := by
  have h1 := getParent_odd ho hi hm
  have h2 : (TIt.getParent ⟨i, o⟩).getLeftChild = ⟨i - 2 * o, o⟩ := by
    rw [h1, getLeftChild_eq]; congr 1 <;> omega
  have hm' : m = (m - 1) + 1 := by omega
  have hge : 3 * o ≤ i := by
    rw [hi, node_lin, hm', Nat.mul_add o (m - 1) 1]; omega
  refine ⟨h1, h2, ?_, hge⟩
  rw [h2]
  have hi' : i - 2 * o = o * (2 * (m - 1) + 1) := by
    rw [hi, node_lin, node_lin]
    conv => lhs; rw [hm', Nat.mul_add o (m - 1) 1]
    omega
  rw [getParent_even ho hi' (by omega)]; congr 1; omega

/-- `depth()` of a node of height `h + 1` -/
theorem depth_node {t : Tree} {i o h : Nat} (hs : t.Shape) (ho : o = 2 ^ h) (hn : t.IsNode i o) :
    t.depth ⟨i, o⟩ = t.maxDepth - h ∧ h < t.maxDepth := by
  obtain ⟨h', m, a, b, ho', hh, _, _, _, hb, hrs, _, hopos, _⟩ := hn.lin hs
  have hh' : h' = h := by
    have e1 : 2 ^ h' = 2 ^ h := by rw [← ho, ← ho']
    have h1 := (Nat.pow_le_pow_iff_right (by decide : 1 < 2)).mp (Nat.le_of_eq e1)
    have h2 := (Nat.pow_le_pow_iff_right (by decide : 1 < 2)).mp (Nat.le_of_eq e1.symm)
    omega
  subst hh'
  refine ⟨?_, hh⟩
  have e : t.rs + 1 = o * 2 ^ (t.maxDepth - h') := by
    rw [hrs, hb, Nat.mul_left_comm, ← Nat.pow_succ']; congr 2; omega
  have hq : (t.rs + 1) / o = 2 ^ (t.maxDepth - h') := by
    rw [e, Nat.mul_div_cancel_left _ hopos]
  simp only [depth, hq]
  have sp := integerLog2_spec (2 ^ (t.maxDepth - h')) (2 ^ (t.maxDepth - h'))
    (two_pow_pos' _) (Nat.le_refl _)
  generalize integerLog2 (2 ^ (t.maxDepth - h')) (2 ^ (t.maxDepth - h')) = k at sp
  have h1 := (Nat.pow_le_pow_iff_right (by decide : 1 < 2)).mp sp.1
  have h2 := (Nat.pow_lt_pow_iff_right (by decide : 1 < 2)).mp sp.2
  omega

theorem depth_root {t : Tree} (hs : t.Shape) : t.depth t.getRoot = 1 := by
  have := (depth_node hs hs.root_pow (IsNode.root hs)).1
  have h2 := hs.2.1
  simp only [getRoot]; omega

/-! ## cells, `countRange`, `listRange` -/

theorem cell_setCell (t : Tree) (p q : Nat) (c : Cell) :
    (t.setCell p c).cell q = if p = q ∧ p < t.cells.size then c else t.cell q := by
  simp only [cell, setCell, Array.getD_eq_getD_getElem?, Array.getElem?_setIfInBounds]
  by_cases h : p = q
  · subst h
    by_cases h2 : p < t.cells.size <;> simp [h2]
  · simp [h]

@[simp] theorem setCell_rs (t : Tree) (p : Nat) (c : Cell) : (t.setCell p c).rs = t.rs := rfl
@[simp] theorem setCell_maxDepth (t : Tree) (p : Nat) (c : Cell) :
    (t.setCell p c).maxDepth = t.maxDepth := rfl
@[simp] theorem setCell_size (t : Tree) (p : Nat) (c : Cell) : (t.setCell p c).size = t.size := rfl
@[simp] theorem setCell_cells_size (t : Tree) (p : Nat) (c : Cell) :
    (t.setCell p c).cells.size = t.cells.size := by simp [setCell]

theorem range'_split (lo mid hi : Nat) (h1 : lo ≤ mid) (h2 : mid ≤ hi) :
    List.range' lo (hi - lo) = List.range' lo (mid - lo) ++ List.range' mid (hi - mid) := by
  have e : hi - lo = (mid - lo) + (hi - mid) := by omega
  rw [e, ← List.range'_append_1]; congr 2; omega

theorem countRange_split (t : Tree) (lo mid hi : Nat) (h1 : lo ≤ mid) (h2 : mid ≤ hi) :
    t.countRange lo hi = t.countRange lo mid + t.countRange mid hi := by
  simp only [countRange, range'_split lo mid hi h1 h2, List.filter_append, List.length_append]

theorem countRange_one (t : Tree) (p : Nat) :
    t.countRange p (p + 1) = if t.isUnused p then 0 else 1 := by
  have : p + 1 - p = 1 := by omega
  simp only [countRange, this]
  cases h : t.isUnused p <;> simp [List.range', h]

theorem countRange_empty (t : Tree) (lo hi : Nat) (h : hi ≤ lo) : t.countRange lo hi = 0 := by
  have : hi - lo = 0 := by omega
  simp [countRange, this]

theorem countRange_le (t : Tree) (lo hi : Nat) : t.countRange lo hi ≤ hi - lo := by
  simp only [countRange]
  exact Nat.le_trans (List.length_filter_le _ _) (by simp)

/-- split a range at a slot `p` -/
theorem countRange_split3 (t : Tree) (lo p hi : Nat) (h1 : lo ≤ p) (h2 : p < hi) :
    t.countRange lo hi =
      t.countRange lo p + (if t.isUnused p then 0 else 1) + t.countRange (p + 1) hi := by
  rw [countRange_split t lo p hi h1 (by omega), countRange_split t p (p + 1) hi (by omega) (by omega),
    countRange_one]; omega

theorem countRange_congr (t t' : Tree) (lo hi : Nat)
    (h : ∀ p, lo ≤ p → p < hi → t'.cell p = t.cell p) : t'.countRange lo hi = t.countRange lo hi := by
  simp only [countRange]
  congr 1
  apply List.filter_congr
  intro p hp
  rw [List.mem_range'_1] at hp
  simp only [isUnused, h p hp.1 (by omega)]

theorem listRange_split (t : Tree) (lo mid hi : Nat) (h1 : lo ≤ mid) (h2 : mid ≤ hi) :
    t.listRange lo hi = t.listRange lo mid ++ t.listRange mid hi := by
  simp only [listRange, range'_split lo mid hi h1 h2, List.filterMap_append]

theorem listRange_congr (t t' : Tree) (lo hi : Nat)
    (h : ∀ p, lo ≤ p → p < hi → t'.cell p = t.cell p) : t'.listRange lo hi = t.listRange lo hi := by
  simp only [listRange]
  have key : ∀ l : List Nat, (∀ p ∈ l, t'.cell p = t.cell p) →
      l.filterMap t'.cell = l.filterMap t.cell := by
    intro l
    induction l with
    | nil => intro _; rfl
    | cons p l ih =>
      intro hl
      simp only [List.filterMap_cons, hl p (List.mem_cons_self ..)]
      rw [ih (fun q hq => hl q (List.mem_cons_of_mem _ hq))]
  apply key
  intro p hp
  rw [List.mem_range'_1] at hp
  exact h p hp.1 (by omega)

theorem length_listRange (t : Tree) (lo hi : Nat) : (t.listRange lo hi).length = t.countRange lo hi := by
  simp only [listRange, countRange]
  generalize List.range' lo (hi - lo) = l
  induction l with
  | nil => rfl
  | cons p l ih =>
    simp only [List.filterMap_cons, List.filter_cons, isUnused]
    cases h : t.cell p <;> simp [ih, isUnused]

/-- `count_used_in_subtree` counts the slots `i - (o-1) … i + (o-1)` -/
theorem countUsedInSubtree_eq (t : Tree) (i o : Nat) (ho : 0 < o) (hi : o ≤ i) :
    t.countUsedInSubtree ⟨i, o⟩ = t.countRange (i - (o - 1)) (i + o) := by
  simp only [countUsedInSubtree]; congr 1; omega

/-- the range of the parent `(i+o, 2o)` of a LEFT child `(i, o)`: the child's range, the parent
    slot `i+o`, the range of the brother `(i+2o, o)` -/
theorem countRange_parent_left (t : Tree) (i o : Nat) (ho : 0 < o) (hi : o ≤ i) :
    t.countRange (i + o - (2 * o - 1)) (i + o + 2 * o) =
      t.countRange (i - (o - 1)) (i + o) + (if t.isUnused (i + o) then 0 else 1)
        + t.countRange (i + 2 * o - (o - 1)) (i + 2 * o + o) := by
  rw [countRange_split3 t (i + o - (2 * o - 1)) (i + o) (i + o + 2 * o) (by omega) (by omega)]
  have e1 : i + o - (2 * o - 1) = i - (o - 1) := by omega
  have e2 : i + o + 1 = i + 2 * o - (o - 1) := by omega
  have e3 : i + o + 2 * o = i + 2 * o + o := by omega
  rw [e1, e2, e3]

/-- the range of the parent `(i-o, 2o)` of a RIGHT child `(i, o)` (`3o ≤ i`): the range of the
    brother `(i-2o, o)`, the parent slot `i-o`, the child's range -/
theorem countRange_parent_right (t : Tree) (i o : Nat) (ho : 0 < o) (hi : 3 * o ≤ i) :
    t.countRange (i - o - (2 * o - 1)) (i - o + 2 * o) =
      t.countRange (i - 2 * o - (o - 1)) (i - 2 * o + o) + (if t.isUnused (i - o) then 0 else 1)
        + t.countRange (i - (o - 1)) (i + o) := by
  rw [countRange_split3 t (i - o - (2 * o - 1)) (i - o) (i - o + 2 * o) (by omega) (by omega)]
  have e1 : i - o - (2 * o - 1) = i - 2 * o - (o - 1) := by omega
  have e2 : i - o + 1 = i - (o - 1) := by omega
  have e3 : i - o + 2 * o = i + o := by omega
  have e4 : i - 2 * o + o = i - o := by omega
  rw [e1, e2, e3, e4]

/-- the parent of a node is `(i+o, 2o)` (left child) or `(i-o, 2o)` (right child, `3o ≤ i`) -/
theorem IsNode.parent_cases {t : Tree} {i o : Nat} (hs : t.Shape) (hn : t.IsNode i o) :
    (TIt.getParent ⟨i, o⟩ = ⟨i + o, 2 * o⟩ ∧ (o ≠ t.rs / 2 + 1 → t.isRightChild ⟨i, o⟩ = false)) ∨
    (TIt.getParent ⟨i, o⟩ = ⟨i - o, 2 * o⟩ ∧ 3 * o ≤ i ∧
      (o ≠ t.rs / 2 + 1 → t.isRightChild ⟨i, o⟩ = true)) := by
  obtain ⟨h, m, a, b, _, _, him, _, _, _, _, _, hopos, _⟩ := hn.lin hs
  rcases Nat.mod_two_eq_zero_or_one m with hm | hm
  · left
    refine ⟨(step_left hopos him hm).1, fun hne => ?_⟩
    cases hx : t.isRightChild ⟨i, o⟩ with
    | false => rfl
    | true => have := (isRightChild_iff hopos him hne).mp hx; omega
  · right
    have := step_right hopos him hm
    exact ⟨this.1, this.2.2.2, fun hne => (isRightChild_iff hopos him hne).mpr hm⟩

end Tree

end PPLV.COTree
