import PPLV.COTree.ProofsRowOnTreeC

/-!
# C16 stage 3 — the key-shifting operations `add_zeroes_and_shift`, `delete_element_and_shift`
-/
namespace PPLV.COTree
open PPLV.COTree.Tree

namespace RowT

/-! ## relabelling the keys of a tree slot by slot -/

theorem listRange_map (t t' : Tree) (g : Nat × Int → Nat × Int) (lo hi : Nat)
    (h : ∀ q, lo ≤ q → q < hi → t'.cell q = (t.cell q).map g) :
    t'.listRange lo hi = (t.listRange lo hi).map g := by
  unfold Tree.listRange
  rw [List.map_filterMap]
  apply Bridge.filterMap_congr'
  intro q hq
  rw [List.mem_range'_1] at hq
  exact h q hq.1 (by omega)

/-- a tree whose slots `1 … rs` carry the pairs of `t` mapped by `g` (same used slots) -/
theorem inv_relabel (t t' : Tree) (g : Nat × Int → Nat × Int) (hinv : t.Inv)
    (hrs : t'.rs = t.rs) (hmd : t'.maxDepth = t.maxDepth) (hsz : t'.size = t.size)
    (hcs : t'.cells.size = t.cells.size)
    (hcell : ∀ q, 1 ≤ q → q ≤ t.rs → t'.cell q = (t.cell q).map g)
    (hout : ∀ q, (q = 0 ∨ t.rs < q) → t'.cell q = t.cell q)
    (hso : SMap.Sorted (t.toList.map g)) : t'.Inv ∧ t'.toList = t.toList.map g := by
  have htl : t'.toList = t.toList.map g := by
    unfold Tree.toList
    rw [hrs]
    exact listRange_map t t' g 1 (t.rs + 1) (fun q a b => hcell q a (by omega))
  have hun : ∀ p, t'.isUnused p = t.isUnused p := by
    intro p
    unfold Tree.isUnused
    by_cases hp : 1 ≤ p ∧ p ≤ t.rs
    · rw [hcell p hp.1 hp.2]; cases t.cell p <;> rfl
    · rw [hout p (by omega)]
  obtain ⟨hsh, hcnt, hsorted, hup, hden⟩ := hinv
  refine ⟨⟨?_, ?_, by rw [htl]; exact hso, UpClosed.congr hrs hun hup, by rw [hsz, hrs]; exact hden⟩, htl⟩
  · obtain ⟨a, b, c, d, e⟩ := hsh
    refine ⟨by rw [hrs, hmd]; exact a, by rw [hmd]; exact b, by rw [hcs, hrs]; exact c, ?_, ?_⟩
    · rw [hout 0 (Or.inl rfl)]; exact d
    · rw [hrs, hout (t.rs + 1) (Or.inr (by omega))]; exact e
  · rw [hrs, hsz, ← hcnt]
    exact countRange_congr_unused t t' 1 (t.rs + 1) (fun p _ _ => hun p)

/-! ## `increase_keys_from` -/

def bump (n : Nat) (c : Cell) : Cell := c.map (fun kv => (kv.1 + n, kv.2))

theorem skipDown_congr (t t' : Tree) (h : ∀ p, t'.isUnused p = t.isUnused p) :
    ∀ p, t'.skipDown p = t.skipDown p
  | 0 => rfl
  | p + 1 => by
    unfold Tree.skipDown
    rw [h (p + 1), skipDown_congr t t' h p]

theorem skipDown_used (t : Tree) : ∀ p, t.skipDown p ≠ 0 → t.isUnused (t.skipDown p) = false
  | 0, h => by simp [Tree.skipDown] at h
  | p + 1, h => by
    unfold Tree.skipDown at h ⊢
    by_cases hu : t.isUnused (p + 1) = true
    · rw [if_pos hu] at h ⊢
      exact skipDown_used t p h
    · rw [if_neg hu]
      simpa using hu

/-- the loop of `increase_keys_from`: the used slots above `p` are already bumped -/
theorem incKeysLoop_ok (t0 : Tree) (key n : Nat) (hsh : t0.Shape) (hso : SMap.Sorted t0.toList) :
    ∀ (f p : Nat) (t : Tree), p + 1 ≤ f → p ≤ t0.rs → (p ≠ 0 → t0.isUnused p = false) →
    t.rs = t0.rs → t.maxDepth = t0.maxDepth → t.size = t0.size → t.cells.size = t0.cells.size →
    (∀ q, t.cell q = if p < q ∧ q ≤ t0.rs then bump n (t0.cell q) else t0.cell q) →
    (∀ q kv, p < q → q ≤ t0.rs → t0.cell q = some kv → key ≤ kv.1) →
    ∃ t', incKeysLoop key n f p t = some t' ∧
      t'.rs = t0.rs ∧ t'.maxDepth = t0.maxDepth ∧ t'.size = t0.size ∧
      t'.cells.size = t0.cells.size ∧
      (∀ q, 1 ≤ q → q ≤ t0.rs →
        t'.cell q = (t0.cell q).map (fun kv => (if key ≤ kv.1 then kv.1 + n else kv.1, kv.2))) ∧
      (∀ q, (q = 0 ∨ t0.rs < q) → t'.cell q = t0.cell q) := by
  have hsc := sorted_cells hso
  intro f
  induction f with
  | zero => intro p t h; omega
  | succ f ih =>
    intro p t hf hp hpu e1 e2 e3 e4 hcell hkeys
    unfold incKeysLoop
    have hkp : t.keyAt p = t0.keyAt p := by
      unfold Tree.keyAt; rw [hcell p, if_neg (by omega)]
    have hvp : t.valAt p = t0.valAt p := by
      unfold Tree.valAt; rw [hcell p, if_neg (by omega)]
    by_cases hc : p ≠ 0 ∧ t.keyAt p ≥ key
    · rw [if_pos hc]
      simp only
      obtain ⟨hp0, hkey⟩ := hc
      have hup := hpu hp0
      have hcp := cell_eq_of_used hup
      have hpsz : p < t.cells.size := by rw [e4, hsh.2.2.1]; omega
      -- the tree after `*p += n`
      have hcell' : ∀ q, (t.setCell p (some (t.keyAt p + n, t.valAt p))).cell q =
          if p - 1 < q ∧ q ≤ t0.rs then bump n (t0.cell q) else t0.cell q := by
        intro q
        rw [Tree.cell_setCell]
        by_cases hq : p = q
        · subst hq
          rw [if_pos ⟨rfl, hpsz⟩, if_pos ⟨by omega, hp⟩, hcp, hkp, hvp]; rfl
        · rw [if_neg (fun h => hq h.1), hcell q]
          by_cases h1 : p < q ∧ q ≤ t0.rs
          · rw [if_pos h1, if_pos ⟨by omega, h1.2⟩]
          · rw [if_neg h1, if_neg (by omega)]
      have hun : ∀ q, (t.setCell p (some (t.keyAt p + n, t.valAt p))).isUnused q = t0.isUnused q := by
        intro q
        unfold Tree.isUnused
        rw [hcell' q]
        split
        · unfold bump; cases t0.cell q <;> rfl
        · rfl
      rw [skipDown_congr t0 _ hun (p - 1)]
      have hle := Tree.skipDown_le t0 (p - 1)
      have hbetween := Tree.skipDown_between t0 (p - 1)
      have hused := skipDown_used t0 (p - 1)
      generalize t0.skipDown (p - 1) = p' at hle hbetween hused ⊢
      apply ih p' (t.setCell p (some (t.keyAt p + n, t.valAt p))) (by omega) (by omega) hused e1 e2 e3 (by rw [Tree.setCell_cells_size]; exact e4)
      · intro q
        rw [hcell' q]
        by_cases h1 : p - 1 < q ∧ q ≤ t0.rs
        · rw [if_pos h1, if_pos ⟨by omega, h1.2⟩]
        · rw [if_neg h1]
          by_cases h2 : p' < q ∧ q ≤ t0.rs
          · rw [if_pos h2]
            have := hbetween q h2.1 (by omega)
            rw [(isUnused_true_iff t0 q).1 this]; rfl
          · rw [if_neg h2]
      · intro q kv a b c
        by_cases hqp : p < q
        · exact hkeys q kv hqp b c
        · by_cases hqp' : q = p
          · rw [hqp', hcp] at c; cases c
            rw [hkp] at hkey; exact hkey
          · have := hbetween q a (by omega)
            rw [(isUnused_true_iff t0 q).1 this] at c; cases c
    · rw [if_neg hc]
      refine ⟨t, rfl, e1, e2, e3, e4, ?_, ?_⟩
      · intro q q1 q2
        rw [hcell q]
        by_cases h1 : p < q ∧ q ≤ t0.rs
        · rw [if_pos h1]
          unfold bump
          cases hq : t0.cell q with
          | none => rfl
          | some kv =>
            have := hkeys q kv h1.1 h1.2 hq
            simp only [Option.map_some, this, if_true]
        · rw [if_neg h1]
          cases hq : t0.cell q with
          | none => rfl
          | some kv =>
            have hlt : ¬ key ≤ kv.1 := by
              have hp0 : p ≠ 0 := by omega
              have hup := hpu hp0
              have hcp := cell_eq_of_used hup
              have hk : ¬ t0.keyAt p ≥ key := by
                intro h; exact hc ⟨hp0, by rw [hkp]; exact h⟩
              by_cases hqp : q = p
              · rw [hqp, hcp] at hq; cases hq; simp only; omega
              · have := hsc q p kv _ q1 (by omega) hp hq hcp
                simp only at this; omega
            simp only [Option.map_some, hlt, if_false]
      · intro q hq
        rw [hcell q, if_neg (by omega)]

/-- `CO_Tree::increase_keys_from(key, n)` on a non-empty valid tree -/
theorem increaseKeysFrom_ok (t : Tree) (key n : Nat) (hinv : t.Inv) (h1 : 1 ≤ t.size) :
    ∃ t', increaseKeysFrom t key n = some t' ∧ t'.Inv ∧ t'.size = t.size ∧
      t'.toList = SMap.shiftUp t.toList key n := by
  unfold increaseKeysFrom
  rw [if_neg (by omega)]
  have hle := Tree.skipDown_le t t.rs
  obtain ⟨t', hrun, a, b, c, d, e, f⟩ := incKeysLoop_ok t key n hinv.shape hinv.sorted (t.rs + 1)
    (t.skipDown t.rs) t (by omega) hle (skipDown_used t t.rs) rfl rfl rfl rfl
    (by
      intro q
      by_cases h : t.skipDown t.rs < q ∧ q ≤ t.rs
      · rw [if_pos h]
        have := Tree.skipDown_between t t.rs q h.1 h.2
        rw [(isUnused_true_iff t q).1 this]; rfl
      · rw [if_neg h])
    (by
      intro q kv a b c
      have := Tree.skipDown_between t t.rs q a b
      rw [(isUnused_true_iff t q).1 this] at c; cases c)
  obtain ⟨hI, htl⟩ := inv_relabel t t' _ hinv a b c d e f
    (SMap.sorted_shiftUp _ key n hinv.sorted)
  exact ⟨t', hrun, hI, c, htl⟩

/-- `Sparse_Row::add_zeroes_and_shift(n, i)` -/
theorem addZeroesAndShift_ok (r : TRow) (n i : Nat) (hv : r.Valid) :
    ∃ r', r.addZeroesAndShift n i = some r' ∧ r'.Valid ∧
      r'.toSRow = RowOp.sparse r.toSRow (.shiftUp n i) := by
  obtain ⟨hcase, hb⟩ := hv
  rcases hcase with he | ⟨hinv, h1⟩
  · refine ⟨⟨r.size + n, r.tree⟩, ?_, ⟨Or.inl he, ?_⟩, ?_⟩
    · unfold TRow.addZeroesAndShift increaseKeysFrom
      rw [he]; rfl
    · show SMap.Below r.tree.toList (r.size + n)
      rw [he]; intro p hp; cases hp
    · unfold TRow.toSRow RowOp.sparse
      simp only [he]; rfl
  · obtain ⟨t', hrun, hI, hsz, htl⟩ := increaseKeysFrom_ok r.tree i n hinv h1
    refine ⟨⟨r.size + n, t'⟩, ?_, ⟨Or.inr ⟨hI, by rw [hsz]; exact h1⟩, ?_⟩, ?_⟩
    · unfold TRow.addZeroesAndShift; rw [hrun]; rfl
    · show SMap.Below t'.toList (r.size + n)
      rw [htl]; exact SMap.below_shiftUp i n hb
    · unfold TRow.toSRow RowOp.sparse
      simp only [htl]

end RowT
end PPLV.COTree
