import PPLV.COTree.RebalanceHint

/-!
# C16 stage 3 — `Sparse_Row` on top of the tree, code-shaped

No Mathlib.  `Sparse_Row` (src/Sparse_Row_defs.hh) is a `CO_Tree tree` plus `dimension_type size_`;
its element operations (src/Sparse_Row_inlines.hh:95-360, src/Sparse_Row.cc:128-210) are thin
wrappers over the tree operations modelled in `Rebalance.lean` / `RebalanceHint.lean`, over
`CO_Tree::bisect` / `bisect_near` (stage 1: `HoleArray.bisect` / `bisectNear` on
`Tree.toHoleArray`) and over the two key-shifting loops of src/CO_Tree.cc:178-215.

An `iterator` is the slot it points to (`dfs_index`), `none` = `end()`.
`ProofsRowOnTree*.lean` relate every function to the abstract row operations `RowOp.sparse`.
-/
namespace PPLV.COTree

/-- `Sparse_Row`: `size_` and `tree` -/
structure TRow where
  size : Nat
  tree : Tree
deriving Repr, Inhabited

namespace TRow

/-- the abstract sparse row denoted by a `Sparse_Row` -/
def toSRow (r : TRow) : SRow := ⟨r.size, r.tree.toList⟩

/-- `Sparse_Row::OK()` with the full tree invariant: the tree is empty (`init 0`) or satisfies
    `Inv` and is non-empty; every key is below `size_` -/
def Valid (r : TRow) : Prop :=
  (r.tree = init 0 ∨ (r.tree.Inv ∧ 1 ≤ r.tree.size)) ∧ SMap.Below r.tree.toList r.size

end TRow

/-! ## iterators, `bisect`, `bisect_near` on the tree -/

namespace Tree

/-- `++itr` on an `iterator` at slot `p` (CO_Tree_inlines.hh:480): the next used slot, `none` = `end()` -/
def nextIt (t : Tree) (p : Nat) : Option Nat :=
  let q := t.skipUp (p + 1)
  if q > t.rs then none else some q

/-- `CO_Tree::bisect(key)` (CO_Tree_inlines.hh:226): `end()` on an empty tree -/
def bisectIt (t : Tree) (key : Nat) : Option Nat :=
  if t.size = 0 then none else some (t.toHoleArray.bisect key)

/-- `CO_Tree::bisect_near(hint, key)` (CO_Tree_inlines.hh:266): `hint == end()` falls back to `bisect` -/
def bisectNearIt (t : Tree) (hint : Hint) (key : Nat) : Option Nat :=
  match hint with
  | none => t.bisectIt key
  | some h => some (t.toHoleArray.bisectNear h key)

end Tree

/-! ## `erase` returning the iterator itself

`eraseAt` / `erase` of `Rebalance.lean` return the KEY the resulting iterator points to; the loops
of `reset_after` and `erase_element_and_shift_left` need its slot.  Same text, the last line
keeps the slot (`eraseAtIt_key`, `eraseIt_key` in `ProofsRowOnTreeA.lean`: the key of that slot is
what `eraseAt` / `erase` return). -/

/-- `CO_Tree::erase(tree_iterator)` (CO_Tree.cc:511) -/
def eraseAtIt (t : Tree) (itr : TIt) : Option (Tree × Option Nat) :=
  if t.size = 1 then some (init 0, none)
  else
    let shrink := isLessThanRatio (t.size - 1) t.rs minDensityPercent
                  && !isGreaterThanRatio (t.size - 1) (t.rs / 2) maxDensityPercent
    let key := t.keyAt itr.i
    match (if shrink then rebuildSmallerTree t else some t) with
    | none => none
    | some t =>
      let itr := if shrink then t.goDownSearchingKey key t.getRoot else itr
      let deletedKey := t.keyAt itr.i
      let deletedNode := itr
      match eraseSink t t.maxDepth itr with
      | none => none
      | some (t, itr) =>
        let t := { t.setCell itr.i none with size := t.size - 1 }
        match rebalance t itr 0 0 with
        | none => none
        | some (t, itr) =>
          let itr := if itr.offset < deletedNode.offset then deletedNode else itr
          let itr := t.goDownSearchingKey deletedKey itr
          let res := if t.keyAt itr.i < deletedKey then t.nextIt itr.i else some itr.i
          some (t, res)

/-- `CO_Tree::erase(key)` (CO_Tree_inlines.hh:142) -/
def eraseIt (t : Tree) (key : Nat) : Option (Tree × Option Nat) :=
  if t.size = 0 then some (t, none)
  else
    let itr := t.goDownSearchingKey key t.getRoot
    if t.keyAt itr.i = key then eraseAtIt t itr
    else some (t, if t.keyAt itr.i < key then t.nextIt itr.i else some itr.i)

/-! ## the key-shifting loops of `CO_Tree` -/

/-- `for ( ; p != p_end; ++p) if (*p != unused_index) --(*p);` (CO_Tree.cc:186) — first argument:
    the slots that are left -/
def decKeysLoop : Nat → Nat → Tree → Tree
  | 0, _, t => t
  | f + 1, p, t =>
    let t := match t.cell p with
      | some (k, v) => t.setCell p (some (k - 1, v))
      | none => t
    decKeysLoop f (p + 1) t

/-- `CO_Tree::erase_element_and_shift_left(key)` (CO_Tree.cc:178) -/
def eraseElementAndShiftLeft (t : Tree) (key : Nat) : Option Tree :=
  match eraseIt t key with
  | none => none
  | some (t, none) => some t                               -- `if (itr == end()) return;`
  | some (t, some i) => some (decKeysLoop (t.rs + 1 - i) i t)

/-- `while (p != indexes && *p >= key) { *p += n; --p; while (*p == unused_index) --p; }`
    (CO_Tree.cc:203); `none` = fuel exhausted -/
def incKeysLoop (key n : Nat) : Nat → Nat → Tree → Option Tree
  | 0, _, _ => none
  | f + 1, p, t =>
    if p ≠ 0 ∧ t.keyAt p ≥ key then
      let t := t.setCell p (some (t.keyAt p + n, t.valAt p))
      incKeysLoop key n f (t.skipDown (p - 1)) t
    else some t

/-- `CO_Tree::increase_keys_from(key, n)` (CO_Tree.cc:195); fuel `reserved_size + 1` -/
def increaseKeysFrom (t : Tree) (key n : Nat) : Option Tree :=
  if t.size = 0 then some t
  else incKeysLoop key n (t.rs + 1) (t.skipDown t.rs) t

/-! ## `Sparse_Row` -/

namespace TRow

/-- `Sparse_Row::insert(i, x)` (Sparse_Row_inlines.hh:297) -/
def insert (r : TRow) (i : Nat) (x : Int) : Option (TRow × TIt) :=
  (PPLV.COTree.insert r.tree i x).map fun p => (⟨r.size, p.1⟩, p.2)

/-- `Sparse_Row::insert(itr, i, x)` (Sparse_Row_inlines.hh:303) -/
def insertHint (r : TRow) (hint : Hint) (i : Nat) (x : Int) : Option (TRow × TIt) :=
  (insertHinted r.tree hint i x).map fun p => (⟨r.size, p.1⟩, p.2)

/-- `Sparse_Row::insert(i)` (Sparse_Row_inlines.hh:310) -/
def insert0 (r : TRow) (i : Nat) : Option (TRow × TIt) :=
  (insertHinted0 r.tree none i).map fun p => (⟨r.size, p.1⟩, p.2)

/-- `Sparse_Row::insert(itr, i)` (Sparse_Row_inlines.hh:316) -/
def insert0Hint (r : TRow) (hint : Hint) (i : Nat) : Option (TRow × TIt) :=
  (insertHinted0 r.tree hint i).map fun p => (⟨r.size, p.1⟩, p.2)

/-- `Sparse_Row::reset(i)` (Sparse_Row_inlines.hh:345): `tree.erase(i)` -/
def reset (r : TRow) (i : Nat) : Option TRow :=
  (erase r.tree i).map fun p => ⟨r.size, p.1⟩

/-- `Sparse_Row::reset(iterator)` (Sparse_Row_inlines.hh:338): `tree.erase(itr)`
    = `erase(tree_iterator(itr, *this))` (CO_Tree_inlines.hh:172); returns the next iterator -/
def resetAt (r : TRow) (p : Nat) : Option (TRow × Option Nat) :=
  (eraseAtIt r.tree (TIt.ofIndex p)).map fun q => (⟨r.size, q.1⟩, q.2)

/-- `Sparse_Row::find(i)` / `find(hint, i)` (Sparse_Row_inlines.hh:186-236) -/
def find (r : TRow) (hint : Hint) (i : Nat) : Option Nat :=
  match r.tree.bisectNearIt hint i with
  | none => none
  | some p => if r.tree.keyAt p = i then some p else none

/-- `Sparse_Row::lower_bound(i)` / `lower_bound(hint, i)` (Sparse_Row_inlines.hh:238-296) -/
def lowerBound (r : TRow) (hint : Hint) (i : Nat) : Option Nat :=
  match r.tree.bisectNearIt hint i with
  | none => none
  | some p => if r.tree.keyAt p < i then r.tree.nextIt p else some p

/-- `while (itr != itr_end) itr = reset(itr);` (Sparse_Row.cc:203); `none` = fuel exhausted -/
def resetLoop : Nat → TRow → Option Nat → Option TRow
  | _, r, none => some r
  | 0, _, some _ => none
  | f + 1, r, some p =>
    match r.resetAt p with
    | none => none
    | some (r', nx) => resetLoop f r' nx

/-- `Sparse_Row::reset_after(i)` (Sparse_Row.cc:193); fuel: the number of stored elements -/
def resetAfter (r : TRow) (i : Nat) : Option TRow :=
  resetLoop r.tree.size r (r.lowerBound none i)

/-- `Sparse_Row::delete_element_and_shift(i)` (Sparse_Row_inlines.hh:97) -/
def deleteElementAndShift (r : TRow) (i : Nat) : Option TRow :=
  (eraseElementAndShiftLeft r.tree i).map fun t => ⟨r.size - 1, t⟩

/-- `Sparse_Row::add_zeroes_and_shift(n, i)` (Sparse_Row_inlines.hh:105) -/
def addZeroesAndShift (r : TRow) (n i : Nat) : Option TRow :=
  (increaseKeysFrom r.tree i n).map fun t => ⟨r.size + n, t⟩

/-- `swap(*itr, tmp)` where `tmp` holds `x`: the value of the slot becomes `x` (key unchanged) -/
def putValue (t : Tree) (p : Nat) (x : Int) : Tree := t.setCell p (some (t.keyAt p, x))

/-- the branch "`i` is in the tree, `j` is not" of `swap_coefficients` (Sparse_Row.cc:147):
    `swap(*itr_i, tmp); tree.erase(itr_i); itr_j = tree.insert(j); swap(*itr_j, tmp);` -/
def moveCoefficient (r : TRow) (pi j : Nat) : Option TRow :=
  let tmp := r.tree.valAt pi
  match eraseAtIt r.tree (TIt.ofIndex pi) with
  | none => none
  | some (t, _) =>
    match insertHinted0 t none j with
    | none => none
    | some (t, itj) => some ⟨r.size, putValue t itj.i tmp⟩

/-- `Sparse_Row::swap_coefficients(i, j)` (Sparse_Row.cc:129) -/
def swapCoefficients (r : TRow) (i j : Nat) : Option TRow :=
  if r.tree.size = 0 then some r
  else
    let pi := r.tree.toHoleArray.bisect i
    let pj := r.tree.toHoleArray.bisect j
    if r.tree.keyAt pi = i then
      if r.tree.keyAt pj = j then
        -- `swap(*itr_i, *itr_j);`
        let vi := r.tree.valAt pi
        let vj := r.tree.valAt pj
        some ⟨r.size, putValue (putValue r.tree pi vj) pj vi⟩
      else r.moveCoefficient pi j
    else
      if r.tree.keyAt pj = j then r.moveCoefficient pj i
      else some r

end TRow

/-! ## the statement: every operation refines the abstract sparse row

For each function `f` above: under `r.Valid` (and the side condition `RowOp.pre` the C++ asserts,
where it is needed) `f` terminates (`some`), the result is `Valid`, and it denotes
`RowOp.sparse r.toSRow op`.  Hints: ANY valid hint (`Tree.ValidHint`: `end()` or an iterator on a
used slot).  Proof: `sparseRowOnTreeSpec_of` in `ProofsRowOnTree.lean`. -/

def SparseRowOnTreeSpec : Prop :=
  -- `insert(i, x)`
  (∀ (r : TRow) (i : Nat) (x : Int), r.Valid → i < r.size →
    ∃ r' it, r.insert i x = some (r', it) ∧ r'.Valid ∧
      r'.toSRow = RowOp.sparse r.toSRow (.set i x) ∧ r'.tree.cell it.i = some (i, x)) ∧
  -- `insert(itr, i, x)`
  (∀ (r : TRow) (hint : Hint) (i : Nat) (x : Int), r.Valid → r.tree.ValidHint hint → i < r.size →
    ∃ r' it, r.insertHint hint i x = some (r', it) ∧ r'.Valid ∧
      r'.toSRow = RowOp.sparse r.toSRow (.set i x) ∧ r'.tree.cell it.i = some (i, x)) ∧
  -- `insert(i)`
  (∀ (r : TRow) (i : Nat), r.Valid → i < r.size →
    ∃ r' it, r.insert0 i = some (r', it) ∧ r'.Valid ∧
      r'.toSRow = RowOp.sparse r.toSRow (.touch i) ∧
      r'.tree.cell it.i = some (i, SMap.get r.tree.toList i)) ∧
  -- `insert(itr, i)`
  (∀ (r : TRow) (hint : Hint) (i : Nat), r.Valid → r.tree.ValidHint hint → i < r.size →
    ∃ r' it, r.insert0Hint hint i = some (r', it) ∧ r'.Valid ∧
      r'.toSRow = RowOp.sparse r.toSRow (.touch i) ∧
      r'.tree.cell it.i = some (i, SMap.get r.tree.toList i)) ∧
  -- `reset(i)`
  (∀ (r : TRow) (i : Nat), r.Valid →
    ∃ r', r.reset i = some r' ∧ r'.Valid ∧ r'.toSRow = RowOp.sparse r.toSRow (.reset i)) ∧
  -- `reset(iterator)`: the element under the iterator is erased, the result is on the next one
  (∀ (r : TRow) (p : Nat), r.Valid → 1 ≤ p → p ≤ r.tree.rs → r.tree.isUnused p = false →
    ∃ r' s, r.resetAt p = some (r', s) ∧ r'.Valid ∧
      r'.toSRow = RowOp.sparse r.toSRow (.reset (r.tree.keyAt p)) ∧
      s.map r'.tree.keyAt = SMap.next r.tree.toList (r.tree.keyAt p) ∧
      ∀ q, s = some q → 1 ≤ q ∧ q ≤ r'.tree.rs ∧ r'.tree.isUnused q = false) ∧
  -- `find(i)`, `find(hint, i)`
  (∀ (r : TRow) (hint : Hint) (i : Nat), r.Valid → r.tree.ValidHint hint →
    match r.find hint i with
    | some p => 1 ≤ p ∧ p ≤ r.tree.rs ∧
        ∃ v, r.tree.cell p = some (i, v) ∧ SMap.find? r.tree.toList i = some v
    | none => SMap.find? r.tree.toList i = none) ∧
  -- `lower_bound(i)`, `lower_bound(hint, i)`
  (∀ (r : TRow) (hint : Hint) (i : Nat), r.Valid → r.tree.ValidHint hint →
    (r.lowerBound hint i).map r.tree.keyAt = SMap.lowerBound r.tree.toList i ∧
    ∀ p, r.lowerBound hint i = some p → 1 ≤ p ∧ p ≤ r.tree.rs ∧ r.tree.isUnused p = false) ∧
  -- `reset_after(i)`
  (∀ (r : TRow) (i : Nat), r.Valid →
    ∃ r', r.resetAfter i = some r' ∧ r'.Valid ∧
      r'.toSRow = RowOp.sparse r.toSRow (.resetFrom i)) ∧
  -- `add_zeroes_and_shift(n, i)`
  (∀ (r : TRow) (n i : Nat), r.Valid →
    ∃ r', r.addZeroesAndShift n i = some r' ∧ r'.Valid ∧
      r'.toSRow = RowOp.sparse r.toSRow (.shiftUp n i)) ∧
  -- `delete_element_and_shift(i)`
  (∀ (r : TRow) (i : Nat), r.Valid → i < r.size →
    ∃ r', r.deleteElementAndShift i = some r' ∧ r'.Valid ∧
      r'.toSRow = RowOp.sparse r.toSRow (.deleteShift i)) ∧
  -- `swap_coefficients(i, j)`
  (∀ (r : TRow) (i j : Nat), r.Valid → i < r.size → j < r.size →
    ∃ r', r.swapCoefficients i j = some r' ∧ r'.Valid ∧
      r'.toSRow = RowOp.sparse r.toSRow (.swap i j))

end PPLV.COTree
