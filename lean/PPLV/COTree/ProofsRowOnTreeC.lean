import PPLV.COTree.ProofsRowOnTreeB

/-!
# C16 stage 3 — `Sparse_Row::reset(iterator)`, `Sparse_Row::reset_after(i)`
-/
namespace PPLV.COTree
open PPLV.COTree.Tree

namespace RowT

theorem nextKey_eq (t : Tree) (p : Nat) : nextKey t p = (t.nextIt p).map t.keyAt := by
  unfold nextKey Tree.nextIt
  simp only
  split <;> rfl

/-- `eraseAtIt` is `eraseAt` with the slot of the returned iterator kept -/
theorem eraseAtIt_key (t : Tree) (it : TIt) :
    eraseAt t it = (eraseAtIt t it).map (fun q => (q.1, q.2.map q.1.keyAt)) := by
  unfold eraseAt eraseAtIt
  split
  · rfl
  · simp only
    split
    next h => simp only [h, Option.map]
    next T h =>
      simp only [h]
      split
      next h2 => simp only [h2, Option.map]
      next t1 itr h2 =>
        simp only [h2]
        split
        next h3 => simp only [h3, Option.map]
        next t3 itr3 h3 =>
          simp only [h3, Option.map_some, nextKey_eq]
          rw [apply_ite (Option.map t3.keyAt)]
          rfl

theorem eraseIt_key (t : Tree) (key : Nat) :
    erase t key = (eraseIt t key).map (fun q => (q.1, q.2.map q.1.keyAt)) := by
  unfold erase eraseIt
  split
  · rfl
  · simp only
    split
    · exact eraseAtIt_key t _
    · simp only [Option.map_some, nextKey_eq]
      rw [apply_ite (Option.map t.keyAt)]
      rfl

/-! ## list lemmas -/

theorem lowerBound_ge : ∀ (m : SMap) (i k : Nat), SMap.lowerBound m i = some k → i ≤ k
  | [], _, _, h => by simp [SMap.lowerBound] at h
  | (a, x) :: t, i, k, h => by
    unfold SMap.lowerBound at h
    split at h
    · cases h; assumption
    · exact lowerBound_ge t i k h

theorem lowerBound_mem : ∀ (m : SMap) (i k : Nat), SMap.lowerBound m i = some k →
    ∃ v, (k, v) ∈ m
  | [], _, _, h => by simp [SMap.lowerBound] at h
  | (a, x) :: t, i, k, h => by
    unfold SMap.lowerBound at h
    split at h
    · cases h; exact ⟨x, by simp⟩
    · obtain ⟨v, hv⟩ := lowerBound_mem t i k h
      exact ⟨v, by simp [hv]⟩

theorem lowerBound_none : ∀ (m : SMap) (i : Nat), SMap.lowerBound m i = none → ∀ p ∈ m, p.1 < i
  | [], _, _ => by simp
  | (a, x) :: t, i, h => by
    unfold SMap.lowerBound at h
    split at h
    · cases h
    · intro p hp
      rcases List.mem_cons.1 hp with e | e
      · rw [e]; simp only; omega
      · exact lowerBound_none t i h p e

/-- in a sorted map no key lies between `i` and `lower_bound(i)` -/
theorem lowerBound_gap : ∀ (m : SMap) (i k : Nat), SMap.Sorted m → SMap.lowerBound m i = some k →
    ∀ p ∈ m, p.1 < i ∨ k ≤ p.1
  | [], _, _, _, h => by simp [SMap.lowerBound] at h
  | (a, x) :: t, i, k, hs, h => by
    unfold SMap.lowerBound at h
    intro p hp
    split at h
    · cases h
      rcases List.mem_cons.1 hp with e | e
      · rw [e]; right; exact Nat.le_refl _
      · have := SMap.Sorted.head_lt hs p e
        simp only at this; right; omega
    · rcases List.mem_cons.1 hp with e | e
      · rw [e]; left; simp only; omega
      · exact lowerBound_gap t i k (SMap.Sorted.tail hs) h p e

theorem lowerBound_congr : ∀ (m : SMap) (i j : Nat), i ≤ j → (∀ p ∈ m, p.1 < i ∨ j ≤ p.1) →
    SMap.lowerBound m i = SMap.lowerBound m j
  | [], _, _, _, _ => rfl
  | (a, x) :: t, i, j, hij, h => by
    have ha := h (a, x) (by simp)
    simp only at ha
    unfold SMap.lowerBound
    by_cases h1 : i ≤ a
    · have h2 : j ≤ a := by omega
      rw [if_pos h1, if_pos h2]
    · have h2 : ¬ j ≤ a := by omega
      rw [if_neg h1, if_neg h2]
      exact lowerBound_congr t i j hij (fun p hp => h p (by simp [hp]))

theorem resetFrom_erase (m : SMap) (i k : Nat) (h : i ≤ k) :
    SMap.resetFrom (SMap.erase m k) i = SMap.resetFrom m i := by
  unfold SMap.resetFrom SMap.erase
  rw [List.filter_filter]
  apply List.filter_congr
  intro p _
  by_cases hp : p.1 < i
  · have : p.1 ≠ k := by omega
    simp [hp, this]
  · simp [hp]

theorem resetFrom_self (m : SMap) (i : Nat) (h : ∀ p ∈ m, p.1 < i) : SMap.resetFrom m i = m := by
  unfold SMap.resetFrom
  rw [List.filter_eq_self]
  intro p hp; simp [h p hp]

theorem length_erase_lt (m : SMap) (k : Nat) (v : Int) (h : (k, v) ∈ m) :
    (SMap.erase m k).length < m.length := by
  unfold SMap.erase
  rw [List.length_filter_lt_length_iff_exists]
  exact ⟨(k, v), h, by simp⟩

/-! ## `reset(iterator)` -/

/-- `Sparse_Row::reset(iterator)` on an iterator at the used slot `p`: the element is erased, the
    returned iterator is on the next element -/
theorem resetAt_ok (r : TRow) (p : Nat) (hv : r.Valid) (p1 : 1 ≤ p) (p2 : p ≤ r.tree.rs)
    (p3 : r.tree.isUnused p = false) :
    ∃ r' s, r.resetAt p = some (r', s) ∧ r'.Valid ∧
      r'.toSRow = RowOp.sparse r.toSRow (.reset (r.tree.keyAt p)) ∧
      s.map r'.tree.keyAt = SMap.next r.tree.toList (r.tree.keyAt p) ∧
      ∀ q, s = some q → 1 ≤ q ∧ q ≤ r'.tree.rs ∧ r'.tree.isUnused q = false := by
  obtain ⟨hcase, hb⟩ := hv
  rcases hcase with he | ⟨hinv, h1⟩
  · rw [he, init0_rs] at p2; omega
  · obtain ⟨hsh, hcnt, hso, hup, hden⟩ := hinv
    have hinv : r.tree.Inv := ⟨hsh, hcnt, hso, hup, hden⟩
    generalize hk : r.tree.keyAt p = k at *
    have hcp := cell_eq_of_used p3
    rw [hk] at hcp
    -- the search from the root finds slot `p`
    have hru := EraTop.root_used r.tree hsh hup (by omega)
    obtain ⟨g1, g2, -, -, g5, -⟩ := goDownSpec r.tree k (r.tree.rs / 2 + 1) (r.tree.rs / 2 + 1)
      hsh hso hup (IsNode.root hsh) hru (EraTop.root_brackets r.tree hsh k)
    have hgr : r.tree.getRoot = ⟨r.tree.rs / 2 + 1, r.tree.rs / 2 + 1⟩ := rfl
    rw [← hgr] at g1 g2 g5
    have hrsodd := hsh.rs_odd
    have hkit := g5 ⟨p, by omega, by omega, _, hcp⟩
    have hbit := g1.bounds hsh
    have hsc := sorted_cells hso
    have hci := cell_eq_of_used g2
    have hip : (r.tree.goDownSearchingKey k r.tree.getRoot).i = p := by
      rcases Nat.lt_trichotomy (r.tree.goDownSearchingKey k r.tree.getRoot).i p with h | h | h
      · have := hsc _ p _ _ (by omega) h p2 hci hcp; simp only at this; omega
      · exact h
      · have := hsc p _ _ _ p1 h (by omega) hcp hci; simp only at this; omega
    have hit : r.tree.goDownSearchingKey k r.tree.getRoot = TIt.ofIndex p := by
      obtain ⟨h, m, ho, hi, -⟩ := g1
      have hlb : lowBit p = (r.tree.goDownSearchingKey k r.tree.getRoot).offset := by
        rw [← hip, hi, ho, lowBit_pow_mul]
      cases hgd : r.tree.goDownSearchingKey k r.tree.getRoot with
      | mk a b =>
        rw [hgd] at hip hlb
        simp only at hip hlb
        unfold TIt.ofIndex; rw [hip, hlb]
    have herase : erase r.tree k = eraseAt r.tree (TIt.ofIndex p) := by
      unfold erase
      rw [if_neg (by omega)]
      simp only
      rw [if_pos hkit, hit]
    obtain ⟨t', rk, h, hI, htl, hrk, -⟩ := eraseSpec r.tree k hinv h1
    rw [herase, eraseAtIt_key] at h
    cases hE : eraseAtIt r.tree (TIt.ofIndex p) with
    | none => rw [hE] at h; cases h
    | some q =>
      obtain ⟨t'', s⟩ := q
      rw [hE] at h
      simp only [Option.map_some, Option.some.injEq, Prod.mk.injEq] at h
      obtain ⟨e1, e2⟩ := h
      subst e1
      have hvalid : (t''.size = 0 → t'' = init 0) ∧ (t''.size ≠ 0 → t''.Inv) := by
        constructor
        · intro h0; rw [if_pos h0] at hI; exact hI
        · intro h0; rw [if_neg h0] at hI; exact hI
      refine ⟨⟨r.size, t''⟩, s, ?_, ⟨?_, ?_⟩, ?_, ?_, ?_⟩
      · unfold TRow.resetAt; rw [hE]; rfl
      · by_cases h0 : t''.size = 0
        · exact Or.inl (hvalid.1 h0)
        · exact Or.inr ⟨hvalid.2 h0, Nat.pos_of_ne_zero h0⟩
      · show SMap.Below t''.toList r.size
        rw [htl]; exact SMap.Below.filter _ hb
      · unfold TRow.toSRow RowOp.sparse
        simp only [htl]
      · rw [← hrk]; exact e2
      · intro q hq
        subst hq
        simp only [Option.map_some] at e2
        rw [hrk] at e2
        have hge := lowerBound_ge _ _ _ e2.symm
        show 1 ≤ q ∧ q ≤ t''.rs ∧ t''.isUnused q = false
        have hcq : ∃ kv, t''.cell q = some kv := by
          cases hc : t''.cell q with
          | some kv => exact ⟨kv, rfl⟩
          | none =>
            have : t''.keyAt q = 0 := by unfold Tree.keyAt; rw [hc]
            omega
        obtain ⟨kv, hkv⟩ := hcq
        have h0 : t''.size ≠ 0 := by
          intro h0
          rw [hvalid.1 h0] at hkv
          cases hkv
        have hsh' := (hvalid.2 h0).shape
        have hlt := Redist.lt_size_of_cell_some t'' q kv hkv
        rw [hsh'.2.2.1] at hlt
        have hq0 : q ≠ 0 := by
          intro e; rw [e] at hkv
          have : t''.keyAt 0 = 0 := by unfold Tree.keyAt; rw [hsh'.2.2.2.1]; rfl
          rw [e] at hge; omega
        have hqN : q ≠ t''.rs + 1 := by
          intro e
          have : t''.keyAt (t''.rs + 1) = 0 := by unfold Tree.keyAt; rw [hsh'.2.2.2.2]; rfl
          rw [e] at hge; omega
        exact ⟨by omega, by omega, (isUnused_false_iff t'' q).2 ⟨kv, hkv⟩⟩


/-! ## `reset_after` -/

theorem valid_length (r : TRow) (hv : r.Valid) : r.tree.toList.length = r.tree.size := by
  rcases hv.1 with he | ⟨hinv, _⟩
  · rw [he]; rfl
  · unfold Tree.toList; rw [Tree.length_listRange, hinv.count]

theorem valid_sorted (r : TRow) (hv : r.Valid) : SMap.Sorted r.tree.toList := by
  rcases hv.1 with he | ⟨hinv, _⟩
  · rw [he]; exact SMap.sorted_nil
  · exact hinv.sorted

/-- the loop `while (itr != itr_end) itr = reset(itr);` started on `lower_bound(i)` -/
theorem resetLoop_ok (i : Nat) : ∀ (f : Nat) (r : TRow) (s : Option Nat), r.Valid →
    s.map r.tree.keyAt = SMap.lowerBound r.tree.toList i →
    (∀ q, s = some q → 1 ≤ q ∧ q ≤ r.tree.rs ∧ r.tree.isUnused q = false) →
    r.tree.toList.length ≤ f →
    ∃ r', TRow.resetLoop f r s = some r' ∧ r'.Valid ∧ r'.size = r.size ∧
      r'.tree.toList = SMap.resetFrom r.tree.toList i := by
  intro f
  induction f with
  | zero =>
    intro r s hv hs hq hlen
    have hnil : r.tree.toList = [] := List.length_eq_zero_iff.1 (by omega)
    cases s with
    | none => exact ⟨r, rfl, hv, rfl, by rw [hnil]; rfl⟩
    | some q =>
      rw [hnil] at hs; simp [SMap.lowerBound] at hs
  | succ f ih =>
    intro r s hv hs hq hlen
    cases s with
    | none =>
      refine ⟨r, rfl, hv, rfl, ?_⟩
      rw [resetFrom_self _ _ (lowerBound_none _ _ hs.symm)]
    | some q =>
      obtain ⟨q1, q2, q3⟩ := hq q rfl
      simp only [Option.map_some] at hs
      have hge := lowerBound_ge _ _ _ hs.symm
      obtain ⟨v, hmem⟩ := lowerBound_mem _ _ _ hs.symm
      have hgap := lowerBound_gap _ _ _ (valid_sorted r hv) hs.symm
      obtain ⟨r', s', hrun, hv', htl', hs', hq'⟩ := resetAt_ok r q hv q1 q2 q3
      have htl'' : r'.tree.toList = SMap.erase r.tree.toList (r.tree.keyAt q) := by
        have := congrArg SRow.m htl'
        exact this
      have hsz' : r'.size = r.size := by
        have := congrArg SRow.size htl'
        exact this
      have hs2 : s'.map r'.tree.keyAt = SMap.lowerBound r'.tree.toList i := by
        rw [hs', htl'']
        unfold SMap.next
        rw [← EraTop.lowerBound_erase]
        apply (lowerBound_congr _ _ _ (by omega) ?_).symm
        intro p hp
        obtain ⟨hp1, hp2⟩ := EraTop.mem_erase _ _ _ hp
        rcases hgap p hp1 with h | h
        · left; exact h
        · right; omega
      have hlen2 : r'.tree.toList.length ≤ f := by
        rw [htl'']
        have := length_erase_lt _ _ _ hmem
        omega
      obtain ⟨r'', hrun2, hv'', hsz'', htl2⟩ := ih r' s' hv' hs2 hq' hlen2
      refine ⟨r'', ?_, hv'', by rw [hsz'', hsz'], ?_⟩
      · show (match r.resetAt q with
          | none => none
          | some (r', nx) => TRow.resetLoop f r' nx) = some r''
        rw [hrun]; exact hrun2
      · rw [htl2, htl'', resetFrom_erase _ _ _ hge]

/-- `Sparse_Row::reset_after(i)` -/
theorem resetAfter_ok (r : TRow) (i : Nat) (hv : r.Valid) :
    ∃ r', r.resetAfter i = some r' ∧ r'.Valid ∧
      r'.toSRow = RowOp.sparse r.toSRow (.resetFrom i) := by
  obtain ⟨h1, h2⟩ := lowerBound_ok r none i hv (validHint_none _)
  obtain ⟨r', hrun, hv', hsz, htl⟩ := resetLoop_ok i r.tree.size r (r.lowerBound none i) hv h1 h2
    (by rw [valid_length r hv])
  refine ⟨r', hrun, hv', ?_⟩
  unfold TRow.toSRow RowOp.sparse
  simp only [hsz, htl]

end RowT
end PPLV.COTree
