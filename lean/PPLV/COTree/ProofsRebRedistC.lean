import PPLV.COTree.ProofsRebRedistB

/-!
# C16 stage 2 — `redistribute_elements_in_subtree`: the top-level call (`RedistSpec`)
-/
namespace PPLV.COTree.Redist
open PPLV.COTree PPLV.COTree.Tree

theorem lt_size_of_cell_some (t : Tree) (p : Nat) (kv : Nat × Int) (h : t.cell p = some kv) :
    p < t.cells.size := by
  rw [cell_eq] at h
  by_cases hp : p < t.cells.size
  · exact hp
  · rw [Array.getElem?_eq_none (by omega)] at h
    simp at h

theorem redistLoop_nil (key : Nat) (value : Int) (f : Nat) (s : RState) :
    redistLoop key value f [] s = some s := by
  cases f <;> rfl

/-- core statement: `RedistSpec` where the subtree is only required to lie inside the array
    when the new pair is pending -/
theorem redistSpec_core (t : Tree) (i o n u key : Nat) (value : Int) (pend : Bool)
    (hnode : t.IsNode i o) (hL : pend = true → i + (o - 1) ≤ t.rs)
    (hcs : t.cells.size = t.rs + 2) (h1 : 1 ≤ n) (h2 : n ≤ 2 * o - 1)
    (hun : u + n = i + (o - 1) + 1 + (if pend then 1 else 0))
    (hnone : ∀ p, i - (o - 1) ≤ p → p < u → t.cell p = none)
    (hused : ∀ p, u ≤ p → p ≤ i + (o - 1) → t.isUnused p = false)
    (hpend : pend = true → SMap.Sorted (t.listRange u (i + o)) ∧
        (∀ q ∈ t.listRange u (i + o), q.1 ≠ key) ∧
        ∀ p, i + (o - 1) < p → p ≤ t.rs → ∀ kv, t.cell p = some kv → key < kv.1) :
    ∃ s, redistributeElementsInSubtree t i n u key value pend = some s ∧ s.addElement = false ∧
      t.FrameOn s.t (i - (o - 1)) (i + (o - 1)) ∧
      s.t.listRange (i - (o - 1)) (i + o) =
        (if pend then SMap.set (t.listRange u (i + o)) key value else t.listRange u (i + o)) ∧
      ∀ h, o = 2 ^ h → s.t.Balanced (h + 1) i n := by
  obtain ⟨h, m, rfl, rfl, hirs⟩ := hnode
  have hop : 1 ≤ 2 ^ h := Nat.one_le_two_pow
  have eL : 2 ^ h * (2 * m + 1) + 2 ^ h = 2 ^ h * (2 * m + 1) + (2 ^ h - 1) + 1 := by omega
  rw [eL] at hpend ⊢
  generalize hLdef : 2 ^ h * (2 * m + 1) + (2 ^ h - 1) = L at *
  have huL : u ≤ L + 1 := by cases pend <;> simp at hun <;> omega
  have hrem : remaining L ⟨t, u, pend⟩ = n := by
    cases pend <;> simp [remaining] at hun ⊢ <;> omega
  have inv : RInv key L ⟨t, u, pend⟩ := by
    refine ⟨?_, huL, fun p a b => isUnused_false_some t p (hused p a b), ?_⟩
    · show L < t.cells.size
      cases pend with
      | true => have := hL rfl; omega
      | false =>
        simp at hun
        obtain ⟨kv, hkv⟩ := isUnused_false_some t L (hused L (by omega) (Nat.le_refl _))
        exact lt_size_of_cell_some t L kv hkv
    · intro hp
      have hp' : pend = true := hp
      obtain ⟨a, b, c⟩ := hpend hp'
      exact ⟨hL hp', a, b, c⟩
  obtain ⟨s', c, hc, run, st, bal⟩ := loop_entry key value L h m n [] ⟨t, u, pend⟩ inv h1 h2
    (by omega) (by rw [hLdef]; omega) (by rw [← hLdef] at *; exact hnone)
  rw [hLdef] at st
  have hr := st.rem
  rw [hrem] at hr
  have hu' := st.inv.hu
  have hadd : s'.addElement = false := by
    unfold remaining at hr
    cases h : s'.addElement
    · rfl
    · rw [h] at hr; simp at hr
  have hlu : s'.lastUsed = L + 1 := by
    unfold remaining at hr; rw [hadd] at hr; simp at hr; omega
  refine ⟨s', ?_, hadd, ⟨st.rs, st.maxDepth, st.size, st.csize, ?_⟩, ?_, ?_⟩
  · unfold redistributeElementsInSubtree
    have e : 2 * n = (2 * n - c) + c := by omega
    rw [e, run, redistLoop_nil]
  · intro p hp
    exact st.frame p hp
  · have hs := st.strm
    have e1 : stream key value L s' = [] := by
      unfold stream
      rw [hadd, hlu]
      simp only [Bool.false_eq_true, if_false]
      exact listRange_empty _ _ _ (Nat.le_refl _)
    rw [e1, List.append_nil] at hs
    rw [← hs]
    rfl
  · intro h' hh'
    have : h = h' := (Nat.pow_right_inj (by omega)).1 hh'
    subst this
    exact bal

end PPLV.COTree.Redist
