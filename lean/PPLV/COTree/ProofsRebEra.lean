import PPLV.COTree.ProofsRebCore

/-!
# C16 stage 2 — `rebalance(itr, 0, 0)` for a deletion (`RebalanceEraseSpec`)

Under the hypothesis `RedistSpec` (proved in `ProofsRebRedist*.lean`).  No Mathlib.
-/
namespace PPLV.COTree
open Tree

/-- an empty subtree is always below the minimum density of its depth -/
theorem rebalanceCond_empty (md res d : Nat) (hd : d ≤ md - 1) (hres : 1 ≤ res) :
    rebalanceCond md 0 res d = true := by
  have h37 : d * (minDensityPercent - minLeafDensityPercent) / (md - 1) ≤ 37 := by
    apply Nat.div_le_of_le_mul
    have := Nat.mul_le_mul_right 37 hd
    simp only [minDensityPercent, minLeafDensityPercent]; omega
  have : isLessThanRatio 0 res
      (minDensityPercent - d * (minDensityPercent - minLeafDensityPercent) / (md - 1)) = true := by
    rw [isLessThanRatio_iff]
    generalize d * (minDensityPercent - minLeafDensityPercent) / (md - 1) = y at h37
    simp only [minDensityPercent]
    have : 1 * res ≤ (38 - y) * res := Nat.mul_le_mul_right res (by omega)
    omega
  simp [rebalanceCond, this]

theorem rebalanceEraseSpec_of (hr : RedistSpec) : RebalanceEraseSpec := by
  intro t i o hs h7 hsorted hup hni hempty hanc hcnt hsize hroot
  have hsz : t.cells.size = t.rs + 2 := hs.2.2.1
  have hbi := hni.bounds hs
  have hui : t.isUnused i = true :=
    (isUnused_true_iff t i).mpr (hempty i (by omega) (by omega))
  have hc0 : t.countRange (i - (o - 1)) (i + o) = 0 := by
    rw [cmp_countRange_eq_length, cmp_listRange_none (fun p h1 h2 => hempty p h1 (by omega))]
    rfl
  -- the walk
  have hroot' : rebalanceCond t.maxDepth (t.countRange 1 (t.rs + 1) + 0) t.rs 0 = false := by
    rw [hcnt]; exact hroot
  obtain ⟨j, oj, n, w1, w2, w3, w4, w5, w6, w7, w8, w9, w10⟩ :=
    walkSpecA t i o 0 hs hni (Nat.zero_le 1) hanc hroot'
  rw [hc0] at w1 w9
  obtain ⟨hi, mi, hoi, _, _⟩ := hni
  have hdep := depth_node hs hoi ⟨hi, mi, hoi, ‹_›, ‹_›⟩
  have hempt : rebalanceCond t.maxDepth (0 + 0) (2 * o - 1) (t.depth ⟨i, o⟩ - 1) = true :=
    rebalanceCond_empty t.maxDepth _ _ (by omega) (by omega)
  have hoj : o < oj := w9 hempt
  obtain ⟨h, m, ho, hjm, hjle⟩ := w2
  subst ho
  have hj : t.IsNode j (2 ^ h) := ⟨h, m, rfl, hjm, hjle⟩
  have hbj := hj.bounds hs
  have hfr := cmp_frameOn_refl t (j - (2 ^ h - 1)) (j + (2 ^ h - 1))
  have eL1 : j + (2 ^ h - 1) + 1 = j + 2 ^ h := by omega
  have hsplit := (toList_of_frame hfr hbj.2.2.1 (by omega) hbj.2.2.2.1).2
  rw [eL1] at hsplit
  obtain ⟨s, k1, k2, k3, k4⟩ := rebalance_core hr t j h n 0 0 false hs hj
    (by simpa using w5) w6 w7 (fun hc => by cases hc)
  have hreb : rebalance t ⟨i, o⟩ 0 0 = some (s.t, ⟨j, 2 ^ h⟩) := by
    apply rebalance_eq (n := n) (by omega)
    · show rebalanceLoop t (t.depth ⟨i, o⟩ - 1) ⟨i, o⟩ (if t.isUnused i then 0 else 2)
        (2 ^ (t.maxDepth - (t.depth ⟨i, o⟩ - 1)) - 1) = _
      rw [w10, hui]
      exact w1
    · show redistributeElementsInSubtree
          (compactElementsInTheRightmostEnd t (j + 2 ^ h - 1) n 0 0 (!t.isUnused i)).1 j n
          ((compactElementsInTheRightmostEnd t (j + 2 ^ h - 1) n 0 0 (!t.isUnused i)).2 + 1)
          0 0
          ((compactElementsInTheRightmostEnd t (j + 2 ^ h - 1) n 0 0 (!t.isUnused i)).2
            != j + 2 ^ h - 1 - n) = some s
      rw [hui]
      exact k1
  have hs' : s.t.Shape := shape_of_frame hs k2 hbj.2.2.1 hbj.2.2.2.1
  obtain ⟨f1, f2, f3, f4, f5⟩ := k2
  have hsplit' := (toList_of_frame ⟨f1, f2, f3, f4, f5⟩ hbj.2.2.1 (by omega) hbj.2.2.2.1).1
  rw [eL1] at hsplit'
  have hlist : s.t.toList = t.toList := by
    rw [hsplit', hsplit, k3]
    rfl
  have hn0 : n ≠ 0 := by omega
  refine ⟨s.t, j, 2 ^ h, hreb, hs', f1, f2, f3, hlist, ?_, ?_, hj.of_rs f1, hoj, w3, w4,
    balanced_root_used k4 hn0, f5, ?_⟩
  · refine upClosed_after hs hup hj ⟨f1, f2, f3, f4, f5⟩ k4 (fun hne => ?_)
    have hpar := hj.parent hs hne
    have hbp := hpar.1.bounds hs
    refine hanc _ _ hpar.1 ?_ ?_ (by omega)
    · rcases hj.parent_cases hs with ⟨e, _⟩ | ⟨e, g, _⟩
      · rw [e]; show j + 2 ^ h - (2 * 2 ^ h - 1) ≤ i - (o - 1); omega
      · rw [e]; show j - 2 ^ h - (2 * 2 ^ h - 1) ≤ i - (o - 1); omega
    · rcases hj.parent_cases hs with ⟨e, _⟩ | ⟨e, g, _⟩
      · rw [e]; show i + (o - 1) ≤ j + 2 ^ h + (2 * 2 ^ h - 1); omega
      · rw [e]; show i + (o - 1) ≤ j - 2 ^ h + (2 * 2 ^ h - 1); omega
  · rw [← length_listRange]
    show s.t.toList.length = t.size
    rw [hlist]
    show (t.listRange 1 (t.rs + 1)).length = t.size
    rw [length_listRange]; exact hcnt
  · intro h' hh'
    have := pow2_inj hh'
    subst this
    have : n = t.countRange (j - (2 ^ h - 1)) (j + 2 ^ h) := by simpa using w5
    rw [← this]; exact k4

end PPLV.COTree
