import PPLV.COTree.RebSpec

/-!
# C16 stage 2b — the hinted insertions `CO_Tree::insert(iterator, key[, data])` (CO_Tree.cc:45-176)

No Mathlib (linked into `pplv_c16reb`).  The code that exists: an empty tree and `itr == end()`
fall back to the unhinted insert; otherwise `bisect_near(itr, key)` (stage 1 model
`HoleArray.bisectNear` on the real `indexes[]`) yields `candidate1` — the slot of `key` or of one
of its in-order neighbours —, `candidate2` is the next used slot on the other side of `key`
(`0` / `reserved_size+1` = none), and `insert_precise` is called on the DEEPER of the two nodes
(smaller `offset`).  Any iterator on a used slot is a valid hint, however far from `key`.
-/
namespace PPLV.COTree

/-- the hint: `none` = `end()`, `some p` = an iterator on slot `p` -/
abbrev Hint := Option Nat

/-- the common part after `bisect_near`: choice of the node handed to `insert_precise` -/
def hintNode (t : Tree) (c1 key : Nat) : TIt :=
  -- `--candidate2_index; while (indexes[candidate2_index] == unused_index) --candidate2_index;` / `++ …`
  let c2 := if key < t.keyAt c1 then t.skipDown (c1 - 1) else t.skipUp (c1 + 1)
  let n1 := TIt.ofIndex c1
  if c2 = 0 ∨ c2 > t.rs then n1
  else
    let n2 := TIt.ofIndex c2
    if n1.offset < n2.offset then n1 else n2

/-- `CO_Tree::insert(iterator itr, dimension_type key, data_type_const_reference data)` (CO_Tree.cc:112) -/
def insertHinted (t : Tree) (hint : Hint) (key : Nat) (value : Int) : Option (Tree × TIt) :=
  if t.size = 0 then
    let t := insertInEmptyTree t key value
    some (t, t.getRoot)
  else
    match hint with
    | none => insert t key value
    | some h =>
      let c1 := t.toHoleArray.bisectNear h key
      if key = t.keyAt c1 then some (t.setCell c1 (some (key, value)), TIt.ofIndex c1)   -- `*candidate1 = data1;`
      else insertPrecise t key value (hintNode t c1 key)

/-- `CO_Tree::insert(iterator itr, dimension_type key)` (CO_Tree.cc:45): a stored key is left alone,
    a new key gets `Coefficient_zero()` -/
def insertHinted0 (t : Tree) (hint : Hint) (key : Nat) : Option (Tree × TIt) :=
  if t.size = 0 then
    let t := insertInEmptyTree t key 0
    some (t, t.getRoot)
  else
    match hint with
    | none =>                                             -- `insert(key)` (CO_Tree_inlines.hh:110)
      let itr := t.goDownSearchingKey key t.getRoot
      if t.keyAt itr.i = key then some (t, itr) else insertPrecise t key 0 itr
    | some h =>
      let c1 := t.toHoleArray.bisectNear h key
      if key = t.keyAt c1 then some (t, TIt.ofIndex c1)
      else insertPrecise t key 0 (hintNode t c1 key)

/-- a valid hint: `end()` or an iterator on a used slot -/
def Tree.ValidHint (t : Tree) (hint : Hint) : Prop :=
  ∀ h, hint = some h → 1 ≤ h ∧ h ≤ t.rs ∧ t.isUnused h = false

/-- **hinted insert refines `SMap.set`** for ANY valid hint (stale or not) -/
def InsertHintedSpec : Prop :=
  (∀ (hint : Hint) (key : Nat) (value : Int),
      ∃ t' it, insertHinted (init 0) hint key value = some (t', it) ∧ t'.Inv ∧ t'.toList = [(key, value)] ∧
        t'.cell it.i = some (key, value)) ∧
  (∀ (t : Tree) (hint : Hint) (key : Nat) (value : Int), t.Inv → 1 ≤ t.size → t.ValidHint hint →
      ∃ t' it, insertHinted t hint key value = some (t', it) ∧ t'.Inv ∧
        t'.toList = SMap.set t.toList key value ∧ t'.cell it.i = some (key, value) ∧
        (t'.size, t'.rs) = (if SMap.stored t.toList key then (t.size, t.rs) else afterInsert t.size t.rs))

/-- **hinted `insert(itr, key)` refines `SMap.touch`** -/
def InsertHinted0Spec : Prop :=
  ∀ (t : Tree) (hint : Hint) (key : Nat), t.Inv → 1 ≤ t.size → t.ValidHint hint →
    ∃ t' it, insertHinted0 t hint key = some (t', it) ∧ t'.Inv ∧
      t'.toList = SMap.touch t.toList key ∧ t'.cell it.i = some (key, SMap.get t.toList key) ∧
      (t'.size, t'.rs) = (if SMap.stored t.toList key then (t.size, t.rs) else afterInsert t.size t.rs)

/-- the iterator returned by the insertions is on a slot of the tree (`1 … reserved_size`), never
    on a marker — needed where the caller writes through it (`swap_coefficients`): the pair
    `(0, 0)` alone does not tell a slot from the markers `indexes[0]`, `indexes[rs+1]`. -/
def InsertSlotSpec : Prop :=
  ∀ (t : Tree) (hint : Hint) (key : Nat) (value : Int) (t' : Tree) (it : TIt),
    (t = init 0 ∨ (t.Inv ∧ 1 ≤ t.size)) → t.ValidHint hint →
    (insertHinted0 t hint key = some (t', it) ∨ insertHinted t hint key value = some (t', it)
      ∨ insert t key value = some (t', it)) →
    1 ≤ it.i ∧ it.i ≤ t'.rs

end PPLV.COTree
