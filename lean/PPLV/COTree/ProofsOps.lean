import PPLV.COTree.ProofsZip

/-! # dense ≡ sparse: scalar observations, `linear_combine`, `normalize`, permutations -/
namespace PPLV.COTree
open SMap

/-! ### sub-ranges -/

theorem slice_toDenseN {n : Nat} (m : SMap) (s e : Nat) (he : e ≤ n) :
    Dense.slice (toDenseN n m) s e = (List.range' s (e - s)).map m.get := by
  apply List.ext_getElem?
  intro j
  simp only [Dense.slice, List.getElem?_take, List.getElem?_drop, getElem?_toDenseN,
    List.getElem?_map]
  by_cases hj : j < e - s
  · rw [List.getElem?_range' hj]
    have : s + j < n := by omega
    simp [hj, this]
  · rw [List.getElem?_eq_none (by simpa using hj)]
    simp [hj]

theorem restrict_sorted {m : SMap} (h : Sorted m) (s e : Nat) : Sorted (m.restrict s e) :=
  h.filter _

theorem restrict_range (m : SMap) (s e : Nat) :
    ∀ p ∈ m.restrict s e, s ≤ p.1 ∧ p.1 < s + (e - s) := by
  intro p hp
  have := (List.mem_filter.mp hp).2
  simp at this
  omega

theorem map_get_restrict (m : SMap) (s e : Nat) :
    (List.range' s (e - s)).map (m.restrict s e).get = (List.range' s (e - s)).map m.get := by
  apply List.map_congr_left
  intro j hj
  have := List.mem_range'_1.mp hj
  rw [get_restrict]
  have : s ≤ j ∧ j < e := by omega
  simp [this]

/-- the generic statement for every scalar observation made by a merge walk over `[s, e)` -/
theorem zipWalk_restrict_eq {β : Type} (h : Int → Int → β → β) (z : β) (hz : ∀ r, h 0 0 r = r)
    {nx ny : Nat} {x y : SMap} (hx : Sorted x) (hy : Sorted y) (s e : Nat)
    (hex : e ≤ nx) (hey : e ≤ ny) :
    zipWalk (fun _ => h) z (x.restrict s e) (y.restrict s e) =
      Dense.zipDense h z (Dense.slice (toDenseN nx x) s e) (Dense.slice (toDenseN ny y) s e) := by
  rw [zipWalk_eq_zipDense h z hz (e - s) s _ _ (restrict_sorted hx s e) (restrict_sorted hy s e)
    (restrict_range x s e) (restrict_range y s e)]
  rw [map_get_restrict, map_get_restrict, slice_toDenseN x s e hex, slice_toDenseN y s e hey]

theorem dense_dot {nx ny : Nat} {x y : SMap} (hx : Sorted x) (hy : Sorted y) (s e : Nat)
    (hex : e ≤ nx) (hey : e ≤ ny) :
    x.dot y s e = Dense.dot (toDenseN nx x) (toDenseN ny y) s e :=
  zipWalk_restrict_eq (fun a b r => a * b + r) 0 (by simp) hx hy s e hex hey

theorem dense_eqIn {nx ny : Nat} {x y : SMap} (hx : Sorted x) (hy : Sorted y) (s e : Nat)
    (hex : e ≤ nx) (hey : e ≤ ny) :
    x.eqIn y s e = Dense.eqIn (toDenseN nx x) (toDenseN ny y) s e :=
  zipWalk_restrict_eq (fun a b r => decide (a = b) && r) true (by simp) hx hy s e hex hey

theorem dense_eqScaledIn {nx ny : Nat} {x y : SMap} (hx : Sorted x) (hy : Sorted y) (c1 c2 : Int)
    (s e : Nat) (hex : e ≤ nx) (hey : e ≤ ny) :
    x.eqScaledIn y c1 c2 s e = Dense.eqScaledIn (toDenseN nx x) (toDenseN ny y) c1 c2 s e :=
  zipWalk_restrict_eq (fun a b r => decide (a * c1 = b * c2) && r) true (by simp) hx hy s e hex hey

/-! ### `compare` -/

theorem drop1_toDenseN_pad {n N : Nat} {m : SMap} (hb : m.Below n) (hN : n ≤ N) :
    (List.range' 1 (N - 1)).map m.get = (toDenseN n m).drop 1 ++ List.replicate (N - 1 - (n - 1)) 0 := by
  apply List.ext_getElem?
  intro j
  simp only [List.getElem?_map, List.getElem?_append, List.length_drop, length_toDenseN,
    List.getElem?_drop, getElem?_toDenseN, List.getElem?_replicate]
  by_cases hj : j < N - 1
  · rw [List.getElem?_range' hj]
    by_cases hj2 : j < n - 1
    · have : 1 + j < n := by omega
      simp [hj2, this]
    · have : m.get (1 + j) = 0 := get_eq_zero_of_below hb (by omega)
      have h3 : j - (n - 1) < N - 1 - (n - 1) := by omega
      simp [hj2, this, h3]
  · rw [List.getElem?_eq_none (by simpa using hj)]
    have h2 : ¬ j < n - 1 := by omega
    have h3 : ¬ j - (n - 1) < N - 1 - (n - 1) := by omega
    simp [h2, h3]

theorem dense_compare {nx ny : Nat} {x y : SMap} (hx : Sorted x) (hy : Sorted y)
    (hbx : x.Below nx) (hby : y.Below ny) :
    x.compare y = Dense.compare (toDenseN nx x) (toDenseN ny y) := by
  unfold SMap.compare Dense.compare
  have hz : ∀ r : Int, cmpStep 0 0 r = r := by intro r; simp [cmpStep]
  have key : zipWalk (fun _ a b r => cmpStep a b r) 0
        (x.filter (fun p => decide (1 ≤ p.1))) (y.filter (fun p => decide (1 ≤ p.1))) =
      Dense.zipDense (fun a b r => cmpStep a b r) 0 ((toDenseN nx x).drop 1) ((toDenseN ny y).drop 1) := by
    let N := max nx ny
    have e1 : ∀ (m : SMap) (n : Nat), m.Below n → n ≤ N →
        ∀ p ∈ m.filter (fun p => decide (1 ≤ p.1)), 1 ≤ p.1 ∧ p.1 < 1 + (N - 1) := by
      intro m n hb hn p hp
      have h1 := (List.mem_filter.mp hp).2
      have h2 := hb p (List.mem_filter.mp hp).1
      simp at h1; omega
    rw [zipWalk_eq_zipDense (fun a b r => cmpStep a b r) 0 hz (N - 1) 1 _ _ (hx.filter _) (hy.filter _)
      (e1 x nx hbx (Nat.le_max_left ..)) (e1 y ny hby (Nat.le_max_right ..))]
    have e2 : ∀ (m : SMap), (List.range' 1 (N - 1)).map (SMap.get (m.filter (fun p => decide (1 ≤ p.1))))
        = (List.range' 1 (N - 1)).map (SMap.get m) := by
      intro m
      apply List.map_congr_left
      intro j hj
      have := List.mem_range'_1.mp hj
      rw [get_filter_key (fun k => decide (1 ≤ k))]
      simp [this.1]
    rw [e2, e2, drop1_toDenseN_pad hbx (Nat.le_max_left ..), drop1_toDenseN_pad hby (Nat.le_max_right ..)]
    exact Dense.zipDense_pad _ _ hz _ _ _ _
  rw [key]
  have g0 : ∀ (n : Nat) (m : SMap), m.Below n → (toDenseN n m).getD 0 0 = m.get 0 :=
    fun n m hb => getD_toDenseN_of_below hb 0
  rw [g0 nx x hbx, g0 ny y hby]

/-! ### gcd, `normalize` -/

theorem dvd_gcdBwd_iff (d : Nat) : ∀ l : List Int, d ∣ Dense.gcdBwd l ↔ ∀ a ∈ l, d ∣ a.natAbs
  | [] => by simp [Dense.gcdBwd]
  | a :: l => by
    have ih := dvd_gcdBwd_iff d l
    unfold Dense.gcdBwd at ih ⊢
    simp only [List.foldr_cons, Nat.dvd_gcd_iff, ih, List.mem_cons, forall_eq_or_imp]

theorem dvd_foldl_gcd_iff (d : Nat) : ∀ (l : List Int) (g : Nat),
    d ∣ l.foldl (fun g a => Nat.gcd a.natAbs g) g ↔ d ∣ g ∧ ∀ a ∈ l, d ∣ a.natAbs
  | [], g => by simp
  | a :: l, g => by
    simp only [List.foldl_cons, dvd_foldl_gcd_iff d l, Nat.dvd_gcd_iff, List.mem_cons,
      forall_eq_or_imp]
    constructor
    · rintro ⟨⟨h1, h2⟩, h3⟩; exact ⟨h2, h1, h3⟩
    · rintro ⟨h2, h1, h3⟩; exact ⟨⟨h1, h2⟩, h3⟩

theorem dvd_gcdFwd_iff (d : Nat) (l : List Int) : d ∣ gcdFwd l ↔ ∀ a ∈ l, d ∣ a.natAbs := by
  unfold gcdFwd
  rw [dvd_foldl_gcd_iff]
  simp

/-- the gcd of the stored values is the gcd of the dense readings over any index list that covers
    the stored keys -/
theorem gcd_vals_eq {m : SMap} (hs : Sorted m) (L : List Nat) (hk : ∀ p ∈ m, p.1 ∈ L) :
    gcdFwd m.vals = Dense.gcdBwd (L.map m.get) := by
  apply Nat.dvd_antisymm
  · rw [dvd_gcdBwd_iff]
    intro a ha
    obtain ⟨i, _, rfl⟩ := List.mem_map.mp ha
    by_cases h0 : m.get i = 0
    · simp [h0]
    · have hm := mem_of_get_ne_zero m i h0
      exact (dvd_gcdFwd_iff _ _).mp (Nat.dvd_refl _) _
        (List.mem_map.mpr ⟨(i, m.get i), hm, rfl⟩)
  · rw [dvd_gcdFwd_iff]
    intro a ha
    obtain ⟨p, hp, rfl⟩ := List.mem_map.mp ha
    have hg : m.get p.1 = p.2 := hs.get_of_mem (k := p.1) (v := p.2) hp
    exact (dvd_gcdBwd_iff _ _).mp (Nat.dvd_refl _) _
      (List.mem_map.mpr ⟨p.1, hk p hp, hg⟩)

theorem gcd_toDenseN {n : Nat} {m : SMap} (hs : Sorted m) (hb : m.Below n) :
    gcdFwd m.vals = Dense.gcdBwd (toDenseN n m) :=
  gcd_vals_eq hs (List.range n) (fun p hp => List.mem_range.mpr (hb p hp))

theorem dense_gcdIn {n : Nat} {m : SMap} (hs : Sorted m) (s e : Nat) (he : e ≤ n) :
    gcdFwd (m.restrict s e).vals = Dense.gcdBwd (Dense.slice (toDenseN n m) s e) := by
  rw [slice_toDenseN m s e he, ← map_get_restrict]
  apply gcd_vals_eq (restrict_sorted hs s e)
  intro p hp
  exact List.mem_range'_1.mpr (restrict_range m s e p hp)

theorem dense_normalize {n : Nat} {m : SMap} (hs : Sorted m) (hb : m.Below n) :
    toDenseN n m.normalize = Dense.normalize (toDenseN n m) := by
  unfold SMap.normalize Dense.normalize
  rw [gcd_toDenseN hs hb]
  dsimp only
  split
  · rfl
  · exact dense_mapVals (fun x => x / _) (Int.zero_ediv _) n m

theorem sorted_normalize {m : SMap} (hs : Sorted m) : Sorted m.normalize := by
  unfold SMap.normalize
  dsimp only
  split
  · exact hs
  · exact sorted_mapVals _ hs

theorem below_mapVals {m : SMap} {n : Nat} (f : Int → Int) (hb : m.Below n) : (m.mapVals f).Below n :=
  below_map_key id (fun p => f p.2) (fun _ h => h) hb

theorem below_mapValsIn {m : SMap} {n : Nat} (f : Int → Int) (lo hi : Nat) (hb : m.Below n) :
    (m.mapValsIn f lo hi).Below n :=
  below_map_key id (fun p => if lo ≤ p.1 ∧ p.1 < hi then f p.2 else p.2) (fun _ h => h) hb

theorem below_normalize {m : SMap} {n : Nat} (hb : m.Below n) : m.normalize.Below n := by
  unfold SMap.normalize
  dsimp only
  split
  · exact hb
  · exact below_mapVals _ hb

end PPLV.COTree
