import PPLV.COTree.ProofsRebCompactBasic

/-!
# C16 stage 2 — `compact_elements_in_the_rightmost_end`: the final `while (subtree_size != 0)`

`compactLoop2` started with `last` on the rightmost used slot of `[F, last]` (or 0), the slots
`(last, fu]` free and exactly `n` used slots in `[F, last]`: the `n` elements end up contiguous
in `(fu - n, fu]`, in the same order; `[F, fu - n]` is free; nothing outside `[F, fu]` is written.
-/
namespace PPLV.COTree
open Tree

/-- what `compactLoop2 t n last fu` returns -/
def Loop2Post (F : Nat) (t : Tree) (last fu n : Nat) (r : Tree × Nat) : Prop :=
  t.FrameOn r.1 F fu ∧ r.2 + n = fu ∧
  (∀ p, F ≤ p → p ≤ r.2 → r.1.cell p = none) ∧
  (∀ p, r.2 < p → p ≤ fu → r.1.isUnused p = false) ∧
  r.1.listRange (r.2 + 1) (fu + 1) = t.listRange F (last + 1)

/-- the state after one `compactMove` + `skipDown`, common to both loops -/
theorem cmp_step {F : Nat} {t : Tree} {last fu : Nat} {kv : Nat × Int}
    (hFl : F ≤ last + 1) (hlf : last + 1 ≤ fu + 1) (hfu : fu + 1 ≤ t.rs) (hsz : t.cells.size = t.rs + 2)
    (hnone : ∀ p, last + 1 < p → p ≤ fu + 1 → t.cell p = none)
    (hkv : t.cell (last + 1) = some kv) :
    let t1 := compactMove t (last + 1) (fu + 1)
    let last1 := t1.skipDown last
    t.FrameOn t1 F (fu + 1) ∧ last1 ≤ fu ∧ last1 ≤ last ∧
    (∀ p, last1 < p → p ≤ fu → t1.cell p = none) ∧
    (last1 = 0 ∨ t1.isUnused last1 = false) ∧
    t1.listRange F (last1 + 1) = t.listRange F (last + 1) ∧
    t1.cell (fu + 1) = some kv ∧
    (∀ p, fu + 1 < p → t1.cell p = t.cell p) := by
  intro t1 last1
  have hl : last + 1 < t.cells.size := by omega
  have hf : fu + 1 < t.cells.size := by omega
  have hcell := cmp_compactMove_cell t hl hf
  have hle : last1 ≤ last := cmp_skipDown_le t1 last
  refine ⟨cmp_compactMove_frame t hl hf hFl hlf, by omega, hle, ?_, cmp_skipDown_used t1 last,
    ?_, ?_, ?_⟩
  · intro p h1 h2
    by_cases hp : p ≤ last
    · exact cmp_skipDown_none t1 last p h1 hp
    · show (compactMove t (last + 1) (fu + 1)).cell p = none
      rw [hcell]
      have a : p ≠ fu + 1 := by omega
      simp only [a, if_false]
      by_cases b : p = last + 1
      · simp [b]
      · simp only [b, if_false]
        exact hnone p (by omega) (by omega)
  · rw [← cmp_listRange_trim (t := t1) (F := F) (a := last1 + 1) (b := last + 1) (by omega)
      (fun p h1 h2 => cmp_skipDown_none t1 last p (by omega) (by omega))]
    apply cmp_listRange_congr
    intro p h1 h2
    show (compactMove t (last + 1) (fu + 1)).cell p = _
    rw [hcell]
    have a : p ≠ fu + 1 := by omega
    have b : p ≠ last + 1 := by omega
    simp [a, b]
  · show (compactMove t (last + 1) (fu + 1)).cell (fu + 1) = _
    rw [hcell]; simp [hkv]
  · intro p hp
    show (compactMove t (last + 1) (fu + 1)).cell p = _
    rw [hcell]
    have a : p ≠ fu + 1 := by omega
    have b : p ≠ last + 1 := by omega
    simp [a, b]

theorem cmp_loop2 (F : Nat) (hF : 1 ≤ F) : ∀ (n : Nat) (t : Tree) (last fu : Nat),
    last ≤ fu → fu ≤ t.rs → t.cells.size = t.rs + 2 →
    (∀ p, last < p → p ≤ fu → t.cell p = none) →
    (last = 0 ∨ t.isUnused last = false) →
    t.countRange F (last + 1) = n →
    Loop2Post F t last fu n (compactLoop2 t n last fu)
  | 0, t, last, fu, hlf, hfu, hsz, hnone, hlast, hcnt => by
    have hz := cmp_countRange_zero hcnt
    refine ⟨cmp_frameOn_refl t F fu, rfl, ?_, ?_, ?_⟩
    · intro p h1 h2
      show t.cell p = none
      have h2' : p ≤ fu := h2
      by_cases hp : p ≤ last
      · exact hz p h1 (by omega)
      · exact hnone p (by omega) h2'
    · intro p h1 h2
      have h1' : fu < p := h1
      omega
    · show t.listRange (fu + 1) (fu + 1) = _
      rw [cmp_listRange_empty t (Nat.le_refl _), cmp_listRange_none hz]
  | n + 1, t, last, fu, hlf, hfu, hsz, hnone, hlast, hcnt => by
    -- `last` is a used slot of the segment
    have hFl : F ≤ last := by
      refine Nat.le_of_not_lt fun hc => ?_
      rw [cmp_countRange_eq_length, cmp_listRange_empty t (by omega : last + 1 ≤ F)] at hcnt
      simp at hcnt
    have hused : t.isUnused last = false := by
      rcases hlast with h | h
      · omega
      · exact h
    obtain ⟨kv, hkv⟩ := (cmp_isUnused_false_iff t last).1 hused
    obtain ⟨last', rfl⟩ : ∃ l', last = l' + 1 := ⟨last - 1, by omega⟩
    obtain ⟨fu', rfl⟩ : ∃ f', fu = f' + 1 := ⟨fu - 1, by omega⟩
    obtain ⟨s1, s2, s3, s4, s5, s6, s7, s8⟩ :=
      cmp_step (F := F) hFl (by omega) hfu hsz hnone hkv
    have hsnoc := cmp_listRange_snoc (F := F) hFl hkv
    have hcnt1 : (compactMove t (last' + 1) (fu' + 1)).countRange F
        ((compactMove t (last' + 1) (fu' + 1)).skipDown last' + 1) = n := by
      rw [cmp_countRange_eq_length, s6]
      rw [cmp_countRange_eq_length, hsnoc, List.length_append] at hcnt
      simpa using hcnt
    have ih := cmp_loop2 F hF n _ _ fu' s2 (by rw [cmp_compactMove_rs]; omega)
      (by rw [cmp_compactMove_cells_size, cmp_compactMove_rs]; exact hsz) s4 s5 hcnt1
    show Loop2Post F t (last' + 1) (fu' + 1) (n + 1)
      (compactLoop2 (compactMove t (last' + 1) (fu' + 1)) n
        ((compactMove t (last' + 1) (fu' + 1)).skipDown (last' + 1 - 1)) (fu' + 1 - 1))
    simp only [Nat.add_sub_cancel]
    generalize compactLoop2 (compactMove t (last' + 1) (fu' + 1)) n
        ((compactMove t (last' + 1) (fu' + 1)).skipDown last') fu' = r at ih
    obtain ⟨i1, i2, i3, i4, i5⟩ := ih
    have hrfu : r.1.cell (fu' + 1) = some kv := by
      rw [i1.2.2.2.2 (fu' + 1) (Or.inr (Nat.lt_succ_self _))]; exact s7
    refine ⟨cmp_frameOn_trans s1 i1 (Nat.le_refl _) (Nat.le_succ _), by omega, i3, ?_, ?_⟩
    · intro p h1 h2
      by_cases hp : p = fu' + 1
      · rw [hp]; exact (cmp_isUnused_false_iff _ _).2 ⟨kv, hrfu⟩
      · exact i4 p h1 (by omega)
    · rw [cmp_listRange_snoc (by omega) hrfu, i5, s6, hsnoc]

end PPLV.COTree
