import PPLV.COTree.ProofsRowOnTreeD

/-!
# C16 stage 3 — `delete_element_and_shift` (`CO_Tree::erase_element_and_shift_left`)
-/
namespace PPLV.COTree
open PPLV.COTree.Tree

namespace RowT

/-- a slot whose `keyAt` is non-zero is a used slot of `1 … rs` (unused slots and the two
    sentinels read as key `0`) -/
theorem slot_valid (t : Tree) (hv : t = init 0 ∨ t.Inv) (q : Nat) (hk : 1 ≤ t.keyAt q) :
    1 ≤ q ∧ q ≤ t.rs ∧ t.isUnused q = false := by
  have hcq : ∃ kv, t.cell q = some kv := by
    cases hc : t.cell q with
    | some kv => exact ⟨kv, rfl⟩
    | none =>
      have : t.keyAt q = 0 := by unfold Tree.keyAt; rw [hc]
      omega
  obtain ⟨kv, hkv⟩ := hcq
  rcases hv with he | hinv
  · rw [he] at hkv; cases hkv
  · have hsh := hinv.shape
    have hlt := Redist.lt_size_of_cell_some t q kv hkv
    rw [hsh.2.2.1] at hlt
    have hq0 : q ≠ 0 := by
      intro e
      have : t.keyAt 0 = 0 := by unfold Tree.keyAt; rw [hsh.2.2.2.1]; rfl
      rw [e] at hk; omega
    have hqN : q ≠ t.rs + 1 := by
      intro e
      have : t.keyAt (t.rs + 1) = 0 := by unfold Tree.keyAt; rw [hsh.2.2.2.2]; rfl
      rw [e] at hk; omega
    exact ⟨by omega, by omega, (isUnused_false_iff t q).2 ⟨kv, hkv⟩⟩

/-- `CO_Tree::erase(key)` with the returned iterator kept as a slot -/
theorem eraseIt_ok (t : Tree) (key : Nat) (hv : t = init 0 ∨ (t.Inv ∧ 1 ≤ t.size)) :
    ∃ t' s, eraseIt t key = some (t', s) ∧ (t' = init 0 ∨ (t'.Inv ∧ 1 ≤ t'.size)) ∧
      t'.toList = SMap.erase t.toList key ∧ s.map t'.keyAt = SMap.next t.toList key ∧
      ∀ q, s = some q → 1 ≤ q ∧ q ≤ t'.rs ∧ t'.isUnused q = false := by
  rcases hv with he | ⟨hinv, h1⟩
  · subst he
    exact ⟨init 0, none, rfl, Or.inl rfl, rfl, rfl, fun q hq => by cases hq⟩
  · obtain ⟨t', rk, h, hI, htl, hrk, -⟩ := eraseSpec t key hinv h1
    rw [eraseIt_key] at h
    cases hE : eraseIt t key with
    | none => rw [hE] at h; cases h
    | some q =>
      obtain ⟨t'', s⟩ := q
      rw [hE] at h
      simp only [Option.map_some, Option.some.injEq, Prod.mk.injEq] at h
      obtain ⟨e1, e2⟩ := h
      subst e1
      have hvalid : t'' = init 0 ∨ (t''.Inv ∧ 1 ≤ t''.size) := by
        by_cases h0 : t''.size = 0
        · rw [if_pos h0] at hI; exact Or.inl hI
        · rw [if_neg h0] at hI; exact Or.inr ⟨hI, Nat.pos_of_ne_zero h0⟩
      refine ⟨t'', s, rfl, hvalid, htl, by rw [← hrk]; exact e2, ?_⟩
      intro q hq
      subst hq
      simp only [Option.map_some] at e2
      rw [hrk] at e2
      have hge := lowerBound_ge _ _ _ e2.symm
      exact slot_valid t'' (hvalid.imp id (fun h => h.1)) q (by omega)

/-! ## the decrementing loop -/

def dec (c : Cell) : Cell := c.map (fun kv => (kv.1 - 1, kv.2))

theorem decKeysLoop_ok : ∀ (f p : Nat) (t : Tree), p + f ≤ t.cells.size →
    (decKeysLoop f p t).rs = t.rs ∧ (decKeysLoop f p t).maxDepth = t.maxDepth ∧
    (decKeysLoop f p t).size = t.size ∧ (decKeysLoop f p t).cells.size = t.cells.size ∧
    ∀ q, (decKeysLoop f p t).cell q = if p ≤ q ∧ q < p + f then dec (t.cell q) else t.cell q
  | 0, p, t, _ => by
    refine ⟨rfl, rfl, rfl, rfl, fun q => ?_⟩
    rw [if_neg (by omega)]; rfl
  | f + 1, p, t, h => by
    have hf : ∃ t1, decKeysLoop (f + 1) p t = decKeysLoop f (p + 1) t1 ∧
        t1.rs = t.rs ∧ t1.maxDepth = t.maxDepth ∧ t1.size = t.size ∧
        t1.cells.size = t.cells.size ∧
        ∀ q, t1.cell q = if q = p then dec (t.cell p) else t.cell q := by
      cases hc : t.cell p with
      | none =>
        refine ⟨t, by rw [decKeysLoop]; simp only [hc], rfl, rfl, rfl, rfl, fun q => ?_⟩
        by_cases hq : q = p
        · rw [if_pos hq, hq, hc]; rfl
        · rw [if_neg hq]
      | some kv =>
        obtain ⟨k, v⟩ := kv
        refine ⟨t.setCell p (some (k - 1, v)), by rw [decKeysLoop]; simp only [hc], rfl, rfl, rfl,
          by simp, fun q => ?_⟩
        rw [Tree.cell_setCell]
        by_cases hq : q = p
        · rw [if_pos hq, if_pos ⟨hq.symm, by omega⟩]; rfl
        · rw [if_neg hq, if_neg (fun h => hq h.1.symm)]
    obtain ⟨t1, hst, a, b, c, d, e⟩ := hf
    rw [hst]
    obtain ⟨a', b', c', d', e'⟩ := decKeysLoop_ok f (p + 1) t1 (by rw [d]; omega)
    refine ⟨by rw [a', a], by rw [b', b], by rw [c', c], by rw [d', d], fun q => ?_⟩
    rw [e' q, e q]
    by_cases hq : q = p
    · subst hq
      rw [if_neg (by omega), if_pos rfl, if_pos (by omega)]
    · rw [if_neg hq]
      by_cases h1 : p + 1 ≤ q ∧ q < p + 1 + f
      · rw [if_pos h1, if_pos (by omega)]
      · rw [if_neg h1, if_neg (by omega)]

/-- `CO_Tree::erase_element_and_shift_left(key)` -/
theorem eraseElementAndShiftLeft_ok (t : Tree) (key : Nat)
    (hv : t = init 0 ∨ (t.Inv ∧ 1 ≤ t.size)) :
    ∃ t', eraseElementAndShiftLeft t key = some t' ∧ (t' = init 0 ∨ (t'.Inv ∧ 1 ≤ t'.size)) ∧
      t'.toList = SMap.deleteShift t.toList key := by
  have hso : SMap.Sorted t.toList := by
    rcases hv with he | ⟨hinv, _⟩
    · rw [he]; exact SMap.sorted_nil
    · exact hinv.sorted
  obtain ⟨t', s, hrun, hv', htl, hs, hq⟩ := eraseIt_ok t key hv
  unfold eraseElementAndShiftLeft
  rw [hrun]
  unfold SMap.next at hs
  cases s with
  | none =>
    refine ⟨t', rfl, hv', ?_⟩
    have hall := lowerBound_none _ _ hs.symm
    unfold SMap.deleteShift
    rw [htl]
    symm
    calc List.map _ (SMap.erase t.toList key) = List.map id (SMap.erase t.toList key) := by
          apply List.map_congr_left
          intro p hp
          have := hall p (EraTop.mem_erase _ _ _ hp).1
          have h2 : ¬ key < p.1 := by omega
          simp only [h2, if_false, id]
      _ = _ := List.map_id _
  | some i =>
    obtain ⟨i1, i2, i3⟩ := hq i rfl
    simp only [Option.map_some] at hs
    have hinv' : t'.Inv ∧ 1 ≤ t'.size := by
      rcases hv' with he | h
      · rw [he] at i2; rw [init0_rs] at i2; omega
      · exact h
    have hsh' := hinv'.1.shape
    have hsc' := sorted_cells hinv'.1.sorted
    have hci := cell_eq_of_used i3
    have hge := lowerBound_ge _ _ _ hs.symm
    have hgap := lowerBound_gap _ _ _ hso hs.symm
    obtain ⟨a, b, c, d, e⟩ := decKeysLoop_ok (t'.rs + 1 - i) i t' (by rw [hsh'.2.2.1]; omega)
    have hA : ∀ q, 1 ≤ q → q ≤ t'.rs → (decKeysLoop (t'.rs + 1 - i) i t').cell q =
        (t'.cell q).map (fun p : Nat × Int => (if key < p.1 then p.1 - 1 else p.1, p.2)) := by
      intro q q1 q2
      rw [e q]
      by_cases hqi : i ≤ q ∧ q < i + (t'.rs + 1 - i)
      · rw [if_pos hqi]
        unfold dec
        cases hc : t'.cell q with
        | none => rfl
        | some kv =>
          have hlt : key < kv.1 := by
            by_cases hqe : q = i
            · rw [hqe, hci] at hc; cases hc; simp only; omega
            · have := hsc' i q _ kv i1 (by omega) q2 hci hc
              simp only at this; omega
          simp only [Option.map_some, hlt, if_true]
      · rw [if_neg hqi]
        cases hc : t'.cell q with
        | none => rfl
        | some kv =>
          have hlt : ¬ key < kv.1 := by
            have h1 := hsc' q i kv _ q1 (by omega) i2 hc hci
            simp only at h1
            have hmem : kv ∈ t'.toList := (mem_listRange t' 1 (t'.rs + 1) kv).2 ⟨q, q1, by omega, hc⟩
            rw [htl] at hmem
            have := hgap kv (EraTop.mem_erase _ _ _ hmem).1
            omega
          simp only [Option.map_some, hlt, if_false]
    have hB : ∀ q, (q = 0 ∨ t'.rs < q) → (decKeysLoop (t'.rs + 1 - i) i t').cell q = t'.cell q := by
      intro q hq
      rw [e q, if_neg (by omega)]
    have hC : SMap.Sorted (t'.toList.map (fun p : Nat × Int => (if key < p.1 then p.1 - 1 else p.1, p.2))) := by
      rw [htl]
      exact SMap.sorted_deleteShift t.toList key hso
    obtain ⟨hI, htl2⟩ := inv_relabel t' (decKeysLoop (t'.rs + 1 - i) i t')
      (fun p : Nat × Int => (if key < p.1 then p.1 - 1 else p.1, p.2)) hinv'.1 a b c d hA hB hC
    refine ⟨_, rfl, Or.inr ⟨hI, by rw [c]; exact hinv'.2⟩, ?_⟩
    rw [htl2, htl]; rfl

/-- `Sparse_Row::delete_element_and_shift(i)` -/
theorem deleteElementAndShift_ok (r : TRow) (i : Nat) (hv : r.Valid) (hi : i < r.size) :
    ∃ r', r.deleteElementAndShift i = some r' ∧ r'.Valid ∧
      r'.toSRow = RowOp.sparse r.toSRow (.deleteShift i) := by
  obtain ⟨hcase, hb⟩ := hv
  obtain ⟨t', hrun, hv', htl⟩ := eraseElementAndShiftLeft_ok r.tree i hcase
  refine ⟨⟨r.size - 1, t'⟩, ?_, ⟨hv', ?_⟩, ?_⟩
  · unfold TRow.deleteElementAndShift; rw [hrun]; rfl
  · show SMap.Below t'.toList (r.size - 1)
    rw [htl]; exact SMap.below_deleteShift i hb hi
  · unfold TRow.toSRow RowOp.sparse
    simp only [htl]

end RowT
end PPLV.COTree
