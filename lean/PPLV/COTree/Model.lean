/-!
# C16 — sparse rows (`CO_Tree`, `Sparse_Row`) and dense rows (`Dense_Row`): executable models

No Mathlib import: this file is linked into the native driver `pplv_c16`.

* §1 `SMap` — the *specification* of a sparse row: an association list `index ↦ coefficient`
  with strictly increasing keys; an index that is not stored reads as `0` (`SMap.get`).
  Stored zeroes are allowed (the library stores them too: `insert(i)`), they are observable
  only through iteration / `find` / `lower_bound`.
* §2 `HoleArray` and the code-shaped models of `CO_Tree::bisect_in` / `CO_Tree::bisect_near`
  (`src/CO_Tree.cc`): the `indexes[]` array with `unused_index` holes and a sentinel at both ends.
  Every `while` loop of the C++ text is a fuel-bounded structural recursion here; the theorems
  in `Proofs.lean` show that the fuel never runs out (termination) and that the result is the
  position of the key or of one of its neighbours.
* §3 the ratio tests and the rebuild thresholds of `insert_precise_aux` / `erase` / the
  bulk constructor (`CO_Tree_inlines.hh`, `CO_Tree_templates.hh`, `CO_Tree.cc`).
* §4 the row algorithms, once over `SMap` (`SRow`), once over dense `List Int`.
-/
namespace PPLV.COTree

/-! ## 1. `SMap` -/

abbrev SMap := List (Nat × Int)

namespace SMap

def keys (m : SMap) : List Nat := m.map Prod.fst
def vals (m : SMap) : List Int := m.map Prod.snd

/-- keys strictly increase -/
def Sorted (m : SMap) : Prop := m.Pairwise (fun p q => p.1 < q.1)

/-- executable version of `Sorted` -/
def sortedB : SMap → Bool
  | [] => true
  | [_] => true
  | (k, _) :: (k', v') :: t => decide (k < k') && sortedB ((k', v') :: t)

/-- all keys below `n` -/
def Below (m : SMap) (n : Nat) : Prop := ∀ p ∈ m, p.1 < n
def belowB (m : SMap) (n : Nat) : Bool := m.all (fun p => decide (p.1 < n))

/-- `Sparse_Row::get(i)`: the coefficient of index `i`; unstored entries read as zero -/
def get : SMap → Nat → Int
  | [], _ => 0
  | (k, v) :: t, i => if k = i then v else get t i

/-- `Sparse_Row::find(i)`: the stored coefficient, `none` for `end()` -/
def find? : SMap → Nat → Option Int
  | [], _ => none
  | (k, v) :: t, i => if k = i then some v else find? t i

def stored (m : SMap) (i : Nat) : Bool := (m.find? i).isSome

/-- `Sparse_Row::insert(i, v)` -/
def set : SMap → Nat → Int → SMap
  | [], i, v => [(i, v)]
  | (k, x) :: t, i, v =>
    if i < k then (i, v) :: (k, x) :: t
    else if i = k then (k, v) :: t
    else (k, x) :: set t i v

/-- `Sparse_Row::insert(i)`: make `i` a stored entry (value kept; `0` when it was unstored) -/
def touch (m : SMap) (i : Nat) : SMap :=
  match m.find? i with
  | some _ => m
  | none => m.set i 0

/-- `Sparse_Row::reset(i)` -/
def erase (m : SMap) (i : Nat) : SMap := m.filter (fun p => p.1 != i)

/-- `Sparse_Row::lower_bound(i)`: key of the first stored entry with key `≥ i` (`none` = `end()`) -/
def lowerBound : SMap → Nat → Option Nat
  | [], _ => none
  | (k, _) :: t, i => if i ≤ k then some k else lowerBound t i

/-- `++itr` from the entry with key `i` -/
def next (m : SMap) (i : Nat) : Option Nat := m.lowerBound (i + 1)

/-- key of the last stored entry with key `≤ i` -/
def floorKey : SMap → Nat → Option Nat
  | [], _ => none
  | (k, _) :: t, i => if k ≤ i then (match floorKey t i with | some k' => some k' | none => some k) else none

/-- `CO_Tree::increase_keys_from(i, n)` / `Sparse_Row::add_zeroes_and_shift(n, i)` -/
def shiftUp (m : SMap) (i n : Nat) : SMap :=
  m.map (fun p => (if i ≤ p.1 then p.1 + n else p.1, p.2))

/-- `CO_Tree::erase_element_and_shift_left(i)` / `Sparse_Row::delete_element_and_shift(i)` -/
def deleteShift (m : SMap) (i : Nat) : SMap :=
  (m.erase i).map (fun p => (if i < p.1 then p.1 - 1 else p.1, p.2))

/-- `Sparse_Row::reset_after(i)`: drop every entry with key `≥ i` -/
def resetFrom (m : SMap) (i : Nat) : SMap := m.filter (fun p => decide (p.1 < i))

/-- `Sparse_Row::reset(lower_bound(lo), lower_bound(hi))` -/
def resetRange (m : SMap) (lo hi : Nat) : SMap :=
  m.filter (fun p => decide (p.1 < lo) || decide (hi ≤ p.1))

/-- entries with key in `[lo, hi)`: the iterator range `lower_bound(lo) … lower_bound(hi)` -/
def restrict (m : SMap) (lo hi : Nat) : SMap :=
  m.filter (fun p => decide (lo ≤ p.1) && decide (p.1 < hi))

def mapVals (f : Int → Int) (m : SMap) : SMap := m.map (fun p => (p.1, f p.2))

/-- apply `f` to the values with key in `[lo, hi)` -/
def mapValsIn (f : Int → Int) (lo hi : Nat) (m : SMap) : SMap :=
  m.map (fun p => (p.1, if lo ≤ p.1 ∧ p.1 < hi then f p.2 else p.2))

/-- drop the stored zeroes -/
def canon (m : SMap) : SMap := m.filter (fun p => p.2 != 0)

/-- `Sparse_Row::swap_coefficients(i, j)`, case by case as in `Sparse_Row.cc` -/
def swap (m : SMap) (i j : Nat) : SMap :=
  match m.find? i, m.find? j with
  | some a, some b => (m.set i b).set j a
  | some a, none => (m.erase i).set j a
  | none, some b => (m.erase j).set i b
  | none, none => m

/-- `x[i] += n`, the entry is erased when it becomes zero
    (`Linear_Expression_Impl::add_mul_assign(n, v)`, `operator+=(Variable)` …) -/
def addAt (m : SMap) (i : Nat) (n : Int) : SMap :=
  let v := m.get i + n
  if v = 0 then m.erase i else m.set i v

/-- The merge walk shared by `Sparse_Row::linear_combine`, `operator==`,
    `Linear_Expression_Impl::compare`, `scalar_product_assign`, `is_equal_to`: two iterators
    advance over the stored entries; `g k a b rest` is what the loop body does at key `k`
    with `a`/`b` the stored coefficients (`0` for the row that has no entry at `k`). -/
def zipWalk {β : Type} (g : Nat → Int → Int → β → β) (z : β) : SMap → SMap → β
  | [], [] => z
  | (i, a) :: xs, [] => g i a 0 (zipWalk g z xs [])
  | [], (j, b) :: ys => g j 0 b (zipWalk g z [] ys)
  | (i, a) :: xs, (j, b) :: ys =>
    if i = j then g i a b (zipWalk g z xs ys)
    else if i < j then g i a 0 (zipWalk g z xs ((j, b) :: ys))
    else g j 0 b (zipWalk g z ((i, a) :: xs) ys)
termination_by xs ys => xs.length + ys.length

/-- loop body of `linear_combine`: `c1*a + c2*b`, reset when zero -/
def lcStep (c1 c2 : Int) (k : Nat) (a b : Int) (rest : SMap) : SMap :=
  let v := c1 * a + c2 * b
  if v = 0 then rest else (k, v) :: rest

/-- `Sparse_Row::linear_combine(y, c1, c2, start, end)`: entries below `start` and from `end`
    on are untouched, the entries in between are merged. -/
def linearCombine (x y : SMap) (c1 c2 : Int) (s e : Nat) : SMap :=
  x.filter (fun p => decide (p.1 < s))
    ++ zipWalk (lcStep c1 c2) [] (x.restrict s e) (y.restrict s e)
    ++ x.filter (fun p => decide (e ≤ p.1))

/-- gcd of the absolute values, accumulated front to back (`Sparse_Row::normalize`,
    `Linear_Expression_Impl<Sparse_Row>::gcd`) -/
def gcdFwd (l : List Int) : Nat := l.foldl (fun g a => Nat.gcd a.natAbs g) 0

/-- `Sparse_Row::normalize()` -/
def normalize (m : SMap) : SMap :=
  let g := gcdFwd m.vals
  if g ≤ 1 then m else m.mapVals (· / (g : Int))

/-- `scalar_product_assign(result, y, start, end)` -/
def dot (x y : SMap) (s e : Nat) : Int :=
  zipWalk (fun _ a b r => a * b + r) 0 (x.restrict s e) (y.restrict s e)

/-- `operator==(Sparse_Row, Sparse_Row)` on the entries / `is_equal_to(y, start, end)` -/
def eqIn (x y : SMap) (s e : Nat) : Bool :=
  zipWalk (fun _ a b r => decide (a = b) && r) true (x.restrict s e) (y.restrict s e)

/-- `is_equal_to(y, c1, c2, start, end)` for nonzero `c1`, `c2` -/
def eqScaledIn (x y : SMap) (c1 c2 : Int) (s e : Nat) : Bool :=
  zipWalk (fun _ a b r => decide (a * c1 = b * c2) && r) true (x.restrict s e) (y.restrict s e)

/-- loop body of `Linear_Expression_Impl::compare` on the homogeneous part -/
def cmpStep (a b : Int) (rest : Int) : Int :=
  if a < b then -2 else if b < a then 2 else rest

/-- `Linear_Expression_Impl::compare(y)`: lexicographic on indices `≥ 1` (result `±2`), then the
    inhomogeneous terms (index 0, result `±1`) -/
def compare (x y : SMap) : Int :=
  let tail := zipWalk (fun _ a b r => cmpStep a b r) 0
                (x.filter (fun p => decide (1 ≤ p.1))) (y.filter (fun p => decide (1 ≤ p.1)))
  if tail ≠ 0 then tail
  else if x.get 0 < y.get 0 then -1 else if y.get 0 < x.get 0 then 1 else 0

/-- `permute_space_dimensions(cycle)` as written: a chain of `swap_coefficients` from the back -/
def permute (m : SMap) : List Nat → SMap
  | [] => m
  | [_] => m
  | c0 :: c1 :: rest => (permute m (c1 :: rest)).swap c1 c0

end SMap

/-- a sparse row: declared size and stored entries -/
structure SRow where
  size : Nat
  m : SMap
deriving Repr, DecidableEq, Inhabited

/-- `Sparse_Row::OK()` together with the order invariant of the tree -/
def SRow.WF (r : SRow) : Prop := r.m.Sorted ∧ r.m.Below r.size
def SRow.wfB (r : SRow) : Bool := r.m.sortedB && r.m.belowB r.size

/-- the dense row denoted by a sparse one -/
def toDenseN (n : Nat) (m : SMap) : List Int := (List.range n).map m.get
def toDense (r : SRow) : List Int := toDenseN r.size r.m

/-- `Sparse_Row(const Dense_Row&)`: the nonzero entries -/
def ofDenseFrom : Nat → List Int → SMap
  | _, [] => []
  | k, a :: as => if a = 0 then ofDenseFrom (k + 1) as else (k, a) :: ofDenseFrom (k + 1) as
def ofDense (d : List Int) : SRow := ⟨d.length, ofDenseFrom 0 d⟩

/-! ## 2. `indexes[]` with holes; `bisect_in`, `bisect_near` -/

/-- `cells[p-1]` is `indexes[p]` for `1 ≤ p ≤ reserved_size` (`none` = `unused_index`);
    `indexes[0]` and `indexes[reserved_size+1]` are the sentinels (a used cell with key `0`). -/
structure HoleArray where
  cells : Array (Option Nat)
deriving Repr, Inhabited

namespace HoleArray

/-- `reserved_size` -/
def rs (a : HoleArray) : Nat := a.cells.size

/-- `indexes[p]`; positions outside `[1, rs]` behave as the sentinels do -/
def cell (a : HoleArray) (p : Nat) : Option Nat :=
  if p = 0 then some 0 else a.cells.getD (p - 1) (some 0)

/-- `indexes[p] == unused_index` -/
def isHole (a : HoleArray) (p : Nat) : Bool := (a.cell p).isNone

/-- the key stored at `p` (meaningful on used cells only) -/
def key (a : HoleArray) (p : Nat) : Nat := (a.cell p).getD 0

/-- `p` is the position of an element of the tree -/
def used (a : HoleArray) (p : Nat) : Prop := 1 ≤ p ∧ p ≤ a.rs ∧ a.isHole p = false
def usedB (a : HoleArray) (p : Nat) : Bool := decide (1 ≤ p) && decide (p ≤ a.rs) && !a.isHole p

/-- the keys of the used cells strictly increase with the position -/
def SortedUsed (a : HoleArray) : Prop :=
  ∀ p q, a.used p → a.used q → p < q → a.key p < a.key q

def has (a : HoleArray) (k : Nat) : Prop := ∃ p, a.used p ∧ a.key p = k

/-- among the used cells with position in `[lo, hi]` -/
def hasIn (a : HoleArray) (lo hi k : Nat) : Prop := ∃ p, a.used p ∧ lo ≤ p ∧ p ≤ hi ∧ a.key p = k

/-- `p` holds the immediate predecessor or the immediate successor of `k`
    among the used cells with position in `[lo, hi]` -/
def adjacentIn (a : HoleArray) (lo hi p k : Nat) : Prop :=
  (a.key p < k ∧ ∀ q, a.used q → lo ≤ q → q ≤ hi → a.key q < k → a.key q ≤ a.key p) ∨
  (k < a.key p ∧ ∀ q, a.used q → lo ≤ q → q ≤ hi → k < a.key q → a.key p ≤ a.key q)

def adjacent (a : HoleArray) (p k : Nat) : Prop :=
  (a.key p < k ∧ ∀ q, a.used q → a.key q < k → a.key q ≤ a.key p) ∨
  (k < a.key p ∧ ∀ q, a.used q → k < a.key q → a.key p ≤ a.key q)

/-- `while (indexes[p] == unused_index) ++p;` — stops at the right sentinel at the latest -/
def skipUpAux (a : HoleArray) : Nat → Nat → Nat
  | 0, p => p
  | f + 1, p => if a.isHole p then skipUpAux a f (p + 1) else p
def skipUp (a : HoleArray) (p : Nat) : Nat := skipUpAux a (a.rs + 1 - p) p

/-- `while (indexes[p] == unused_index) --p;` — stops at the left sentinel at the latest -/
def skipDown (a : HoleArray) : Nat → Nat
  | 0 => 0
  | p + 1 => if a.isHole (p + 1) then skipDown a p else p + 1

/-- `CO_Tree::bisect_in(first, last, key)`; one unit of fuel per iteration of `while (first < last)` -/
def bisectInAux (a : HoleArray) (k : Nat) : Nat → Nat → Nat → Nat
  | 0, _, last => last
  | f + 1, first, last =>
    if first < last then
      let half := (first + last) / 2
      let newHalf := a.skipUp half
      if a.key newHalf = k then newHalf
      else if a.key newHalf > k then
        bisectInAux a k f first (a.skipDown half)
      else
        bisectInAux a k f (a.skipUp (newHalf + 1)) last
    else last

def bisectIn (a : HoleArray) (first last k : Nat) : Nat :=
  bisectInAux a k (last + 1 - first) first last

/-- outcome of the galloping phase of `bisect_near` -/
inductive Gallop where
  | ret (p : Nat)              -- `return p;`
  | range (hint newHint : Nat) -- `break;` with the key strictly between the two used cells
deriving Repr, DecidableEq

/-- the `while (true)` of the branch `indexes[hint] > key` -/
def gallopDown (a : HoleArray) (k : Nat) : Nat → Nat → Nat → Gallop
  | 0, hint, _ => .ret hint
  | f + 1, hint, offset =>
    if hint ≤ offset then
      let newHint := hint
      let hint := a.skipUp 1
      if a.key hint ≥ k then .ret hint else .range hint newHint
    else
      let newHint := a.skipUp (hint - offset)
      if a.key newHint = k then .ret newHint
      else if a.key newHint < k then .range newHint hint   -- `swap(hint, new_hint); break;`
      else gallopDown a k f newHint (2 * offset)

/-- the `while (true)` of the branch `indexes[hint] < key` -/
def gallopUp (a : HoleArray) (k : Nat) : Nat → Nat → Nat → Gallop
  | 0, hint, _ => .ret hint
  | f + 1, hint, offset =>
    if hint + offset > a.rs then
      let newHint := a.skipDown a.rs
      if a.key newHint ≤ k then .ret newHint else .range hint newHint
    else
      let newHint := a.skipDown (hint + offset)
      if a.key newHint = k then .ret newHint
      else if a.key newHint > k then .range hint newHint
      else gallopUp a k f newHint (2 * offset)

/-- the common tail of `bisect_near` after the `break`s -/
def bisectNearFinish (a : HoleArray) (k hint newHint : Nat) : Nat :=
  let hint := a.skipUp (hint + 1)
  if hint = newHint then hint
  else
    let newHint := a.skipDown (newHint - 1)
    a.bisectIn hint newHint k

/-- `CO_Tree::bisect_near(hint, key)` on positions -/
def bisectNear (a : HoleArray) (hint k : Nat) : Nat :=
  if a.key hint = k then hint
  else
    let g := if a.key hint > k then gallopDown a k (hint + 1) hint 1
             else gallopUp a k (a.rs + 2) hint 1
    match g with
    | .ret p => p
    | .range h nh => bisectNearFinish a k h nh

/-- `CO_Tree::bisect(key)` = `bisect_in(begin(), --end(), key)` on a non-empty tree -/
def bisect (a : HoleArray) (k : Nat) : Nat := a.bisectIn (a.skipUp 1) (a.skipDown a.rs) k

/-- the in-order contents of the tree: `(key, position)` of the used cells -/
def usedKeys (a : HoleArray) : List Nat :=
  (List.range a.rs).filterMap (fun i => a.cells.getD i none)

/-- executable judge of the `bisect*` post-condition on a real output `p`, for positions in
    `[lo, hi]`: `p` is a used cell of the range holding `k`, or — when `k` is not there — the
    nearest smaller or nearest larger key of the range. -/
def judgeIn (a : HoleArray) (lo hi p k : Nat) : Bool :=
  let ps := (List.range (a.rs + 1)).filter (fun q => a.usedB q && decide (lo ≤ q) && decide (q ≤ hi))
  a.usedB p && decide (lo ≤ p) && decide (p ≤ hi) &&
  (if ps.any (fun q => a.key q == k) then a.key p == k
   else if a.key p < k then ps.all (fun q => decide (a.key q < k → a.key q ≤ a.key p))
   else ps.all (fun q => decide (k < a.key q → a.key p ≤ a.key q)))

def judge (a : HoleArray) (p k : Nat) : Bool := a.judgeIn 1 a.rs p k

end HoleArray

/-! ## 3. density arithmetic -/

def maxDensityPercent : Nat := 91
def minDensityPercent : Nat := 38
def minLeafDensityPercent : Nat := 1

/-- `CO_Tree::is_less_than_ratio(numer, denom, ratio)` -/
def isLessThanRatio (numer denom ratio : Nat) : Bool := decide (100 * numer < ratio * denom)
/-- `CO_Tree::is_greater_than_ratio(numer, denom, ratio)` -/
def isGreaterThanRatio (numer denom ratio : Nat) : Bool := decide (100 * numer > ratio * denom)

/-- the density clauses of `CO_Tree::OK()` -/
def densityOK (size rs : Nat) : Bool :=
  if rs = 0 then true
  else !(isGreaterThanRatio size rs maxDensityPercent && rs != 3)
       && !(isLessThanRatio size rs minDensityPercent
            && !isGreaterThanRatio size (rs / 2) maxDensityPercent)

/-- the test that opens `insert_precise_aux` -/
def insertRebuilds (size rs : Nat) : Bool := isGreaterThanRatio (size + 1) rs maxDensityPercent

/-- `reserved_size` after `rebuild_bigger_tree()` -/
def biggerRs (rs : Nat) : Nat := if rs = 0 then 3 else 2 * rs + 1

/-- `(size_, reserved_size)` after the insertion of a key that was not in the tree -/
def afterInsert (size rs : Nat) : Nat × Nat :=
  if size = 0 then (1, biggerRs rs)            -- `insert_in_empty_tree`
  else if insertRebuilds size rs then (size + 1, biggerRs rs) else (size + 1, rs)

/-- the test in `erase(tree_iterator)` -/
def eraseRebuilds (size rs : Nat) : Bool :=
  isLessThanRatio (size - 1) rs minDensityPercent
    && !isGreaterThanRatio (size - 1) (rs / 2) maxDensityPercent

/-- `(size_, reserved_size)` after erasing an element of the tree -/
def afterErase (size rs : Nat) : Nat × Nat :=
  if size = 1 then (0, 0)                      -- `clear()`
  else if eraseRebuilds size rs then (size - 1, rs / 2) else (size - 1, rs)

/-- `CO_Tree::integer_log2` -/
def integerLog2 : Nat → Nat → Nat
  | 0, _ => 0
  | f + 1, n => if n ≤ 1 then 0 else integerLog2 f (n / 2) + 1

/-- `reserved_size` chosen by the bulk constructor `CO_Tree(Iterator i, dimension_type n)` -/
def bulkRs (n : Nat) : Nat :=
  if n = 0 then 0
  else
    let rs := 2 ^ (integerLog2 n n + 1) - 1
    if isGreaterThanRatio n rs maxDensityPercent && rs != 3 then 2 * rs + 1 else rs

/-- thresholds used by `rebalance` at depth `d` (root = 1) of a tree of `maxDepth > 1` levels -/
def rebalanceMaxPercent (d maxDepth : Nat) : Nat :=
  maxDensityPercent + ((d - 1) * (100 - maxDensityPercent)) / (maxDepth - 1)
def rebalanceMinPercent (d maxDepth : Nat) : Nat :=
  minDensityPercent - ((d - 1) * (minDensityPercent - minLeafDensityPercent)) / (maxDepth - 1)

/-! ## 4. dense rows -/

namespace Dense

abbrev Row := List Int

def get (d : Row) (i : Nat) : Int := d.getD i 0
def set (d : Row) (i : Nat) (v : Int) : Row := d.set i v
def reset (d : Row) (i : Nat) : Row := d.set i 0
/-- `Dense_Row::reset(first, last)` -/
def resetRange (d : Row) (lo hi : Nat) : Row :=
  d.mapIdx (fun k a => if lo ≤ k ∧ k < hi then 0 else a)
def resetFrom (d : Row) (i : Nat) : Row := resetRange d i d.length
/-- `Dense_Row::add_zeroes_and_shift(n, i)` -/
def shiftUp (d : Row) (i n : Nat) : Row := d.take i ++ List.replicate n 0 ++ d.drop i
/-- what `remove_space_dimensions` does to one column -/
def deleteShift (d : Row) (i : Nat) : Row := d.eraseIdx i
/-- `Dense_Row::resize(n)` -/
def resize (d : Row) (n : Nat) : Row := d.take n ++ List.replicate (n - d.length) 0
/-- `Dense_Row::swap_coefficients(i, j)` -/
def swap (d : Row) (i j : Nat) : Row := (d.set i (d.getD j 0)).set j (d.getD i 0)
def addAt (d : Row) (i : Nat) (n : Int) : Row := d.set i (d.getD i 0 + n)
def mapIn (f : Int → Int) (lo hi : Nat) (d : Row) : Row :=
  d.mapIdx (fun k a => if lo ≤ k ∧ k < hi then f a else a)
/-- `Dense_Row::linear_combine(y, c1, c2, start, end)` -/
def linearCombine (x y : Row) (c1 c2 : Int) (s e : Nat) : Row :=
  x.mapIdx (fun k a => if s ≤ k ∧ k < e then c1 * a + c2 * y.getD k 0 else a)
/-- gcd accumulated from the last element down (`Dense_Row::normalize`) -/
def gcdBwd (l : List Int) : Nat := l.foldr (fun a g => Nat.gcd a.natAbs g) 0
def normalize (d : Row) : Row :=
  let g := gcdBwd d
  if g ≤ 1 then d else d.map (· / (g : Int))

/-- position-wise walk over two dense rows, the shorter one padded with zeroes -/
def zipDense {β : Type} (h : Int → Int → β → β) (z : β) : Row → Row → β
  | [], [] => z
  | a :: as, [] => h a 0 (zipDense h z as [])
  | [], b :: bs => h 0 b (zipDense h z [] bs)
  | a :: as, b :: bs => h a b (zipDense h z as bs)

def slice (d : Row) (s e : Nat) : Row := (d.drop s).take (e - s)

def dot (x y : Row) (s e : Nat) : Int :=
  zipDense (fun a b r => a * b + r) 0 (slice x s e) (slice y s e)
def eqIn (x y : Row) (s e : Nat) : Bool :=
  zipDense (fun a b r => decide (a = b) && r) true (slice x s e) (slice y s e)
def eqScaledIn (x y : Row) (c1 c2 : Int) (s e : Nat) : Bool :=
  zipDense (fun a b r => decide (a * c1 = b * c2) && r) true (slice x s e) (slice y s e)
def compare (x y : Row) : Int :=
  let tail := zipDense (fun a b r => SMap.cmpStep a b r) 0 (x.drop 1) (y.drop 1)
  if tail ≠ 0 then tail
  else if x.getD 0 0 < y.getD 0 0 then -1 else if y.getD 0 0 < x.getD 0 0 then 1 else 0
def permute (d : Row) : List Nat → Row
  | [] => d
  | [_] => d
  | c0 :: c1 :: rest => swap (permute d (c1 :: rest)) c1 c0

end Dense

/-! ## 5. the row operations, both ways -/

/-- operations that change a row -/
inductive RowOp where
  | set (i : Nat) (v : Int)            -- `insert(i, v)` / `row[i] = v`
  | touch (i : Nat)                    -- `insert(i)`
  | reset (i : Nat)                    -- `reset(i)`
  | resetRange (lo hi : Nat)           -- `reset(first, last)`
  | resetFrom (i : Nat)                -- `reset_after(i)`
  | swap (i j : Nat)                   -- `swap_coefficients(i, j)`
  | shiftUp (n i : Nat)                -- `add_zeroes_and_shift(n, i)`
  | deleteShift (i : Nat)              -- `delete_element_and_shift(i)`
  | resize (n : Nat)                   -- `resize(n)`
  | addAt (i : Nat) (n : Int)          -- `add_mul_assign(n, Variable)` on the row
  | scaleIn (c : Int) (s e : Nat)      -- `mul_assign(c, start, end)`
  | negateIn (s e : Nat)               -- `negate(first, last)`
  | linearCombine (y : SRow) (c1 c2 : Int) (s e : Nat)
  | normalize
  | permute (cycle : List Nat)
deriving Repr

/-- the side conditions asserted by the C++ functions -/
def RowOp.pre (r : SRow) : RowOp → Prop
  | .set i _ => i < r.size
  | .touch i => i < r.size
  | .reset _ => True
  | .resetRange _ _ => True
  | .resetFrom _ => True
  | .swap i j => i < r.size ∧ j < r.size
  | .shiftUp _ i => i ≤ r.size
  | .deleteShift i => i < r.size
  | .resize _ => True
  | .addAt i _ => i < r.size
  | .scaleIn _ _ _ => True
  | .negateIn _ _ => True
  | .linearCombine y _ _ s e => y.WF ∧ s ≤ e ∧ e ≤ r.size ∧ e ≤ y.size
  | .normalize => True
  | .permute c => ∀ i ∈ c, i < r.size

def RowOp.sparse (r : SRow) : RowOp → SRow
  | .set i v => ⟨r.size, r.m.set i v⟩
  | .touch i => ⟨r.size, r.m.touch i⟩
  | .reset i => ⟨r.size, r.m.erase i⟩
  | .resetRange lo hi => ⟨r.size, r.m.resetRange lo hi⟩
  | .resetFrom i => ⟨r.size, r.m.resetFrom i⟩
  | .swap i j => ⟨r.size, r.m.swap i j⟩
  | .shiftUp n i => ⟨r.size + n, r.m.shiftUp i n⟩
  | .deleteShift i => ⟨r.size - 1, r.m.deleteShift i⟩
  | .resize n => ⟨n, if n < r.size then r.m.resetFrom n else r.m⟩
  | .addAt i n => ⟨r.size, r.m.addAt i n⟩
  | .scaleIn c s e =>
      ⟨r.size, if c = 0 then r.m.resetRange s e else r.m.mapValsIn (c * ·) s e⟩
  | .negateIn s e => ⟨r.size, r.m.mapValsIn (fun v => -v) s e⟩
  | .linearCombine y c1 c2 s e => ⟨r.size, r.m.linearCombine y.m c1 c2 s e⟩
  | .normalize => ⟨r.size, r.m.normalize⟩
  | .permute c => ⟨r.size, r.m.permute c⟩

def RowOp.dense (d : Dense.Row) : RowOp → Dense.Row
  | .set i v => Dense.set d i v
  | .touch _ => d
  | .reset i => Dense.reset d i
  | .resetRange lo hi => Dense.resetRange d lo hi
  | .resetFrom i => Dense.resetFrom d i
  | .swap i j => Dense.swap d i j
  | .shiftUp n i => Dense.shiftUp d i n
  | .deleteShift i => Dense.deleteShift d i
  | .resize n => Dense.resize d n
  | .addAt i n => Dense.addAt d i n
  | .scaleIn c s e => Dense.mapIn (c * ·) s e d
  | .negateIn s e => Dense.mapIn (fun v => -v) s e d
  | .linearCombine y c1 c2 s e => Dense.linearCombine d (toDense y) c1 c2 s e
  | .normalize => Dense.normalize d
  | .permute c => Dense.permute d c

/-- observations of a row -/
inductive RowQuery where
  | get (i : Nat)
  | dot (y : SRow) (s e : Nat)
  | eqIn (y : SRow) (s e : Nat)
  | eqScaledIn (y : SRow) (c1 c2 : Int) (s e : Nat)
  | compare (y : SRow)
  | gcdIn (s e : Nat)
deriving Repr

def RowQuery.pre (r : SRow) : RowQuery → Prop
  | .get _ => True
  | .dot y _ e => y.WF ∧ e ≤ r.size ∧ e ≤ y.size
  | .eqIn y _ e => y.WF ∧ e ≤ r.size ∧ e ≤ y.size
  | .eqScaledIn y _ _ _ e => y.WF ∧ e ≤ r.size ∧ e ≤ y.size
  | .compare y => y.WF
  | .gcdIn _ e => e ≤ r.size

def RowQuery.sparse (r : SRow) : RowQuery → Int
  | .get i => r.m.get i
  | .dot y s e => r.m.dot y.m s e
  | .eqIn y s e => if r.m.eqIn y.m s e then 1 else 0
  | .eqScaledIn y c1 c2 s e => if r.m.eqScaledIn y.m c1 c2 s e then 1 else 0
  | .compare y => r.m.compare y.m
  | .gcdIn s e => (SMap.gcdFwd (r.m.restrict s e).vals : Int)

def RowQuery.dense (d : Dense.Row) : RowQuery → Int
  | .get i => Dense.get d i
  | .dot y s e => Dense.dot d (toDense y) s e
  | .eqIn y s e => if Dense.eqIn d (toDense y) s e then 1 else 0
  | .eqScaledIn y c1 c2 s e => if Dense.eqScaledIn d (toDense y) c1 c2 s e then 1 else 0
  | .compare y => Dense.compare d (toDense y)
  | .gcdIn s e => (Dense.gcdBwd (Dense.slice d s e) : Int)

end PPLV.COTree
