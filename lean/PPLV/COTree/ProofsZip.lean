import PPLV.COTree.ProofsRow

/-! # the merge walk over two sparse rows equals the position-wise walk over the dense rows -/
namespace PPLV.COTree
open SMap

namespace SMap

/-! ### unfolding equations of `zipWalk` -/
section
variable {β : Type} (g : Nat → Int → Int → β → β) (z : β)

theorem zipWalk_nil_nil : zipWalk g z [] [] = z := by simp [zipWalk]
theorem zipWalk_cons_nil (i : Nat) (a : Int) (xs : SMap) :
    zipWalk g z ((i, a) :: xs) [] = g i a 0 (zipWalk g z xs []) := by simp [zipWalk]
theorem zipWalk_nil_cons (j : Nat) (b : Int) (ys : SMap) :
    zipWalk g z [] ((j, b) :: ys) = g j 0 b (zipWalk g z [] ys) := by simp [zipWalk]
theorem zipWalk_cons_cons (i : Nat) (a : Int) (xs : SMap) (j : Nat) (b : Int) (ys : SMap) :
    zipWalk g z ((i, a) :: xs) ((j, b) :: ys) =
      if i = j then g i a b (zipWalk g z xs ys)
      else if i < j then g i a 0 (zipWalk g z xs ((j, b) :: ys))
      else g j 0 b (zipWalk g z ((i, a) :: xs) ys) := by
  rw [zipWalk]
end

/-- split off the entry at key `lo` (if it is the head) -/
def popAt (lo : Nat) : SMap → Int × SMap
  | [] => (0, [])
  | (k, v) :: t => if k = lo then (v, t) else (0, (k, v) :: t)

theorem popAt_get {lo : Nat} {m : SMap} (hs : Sorted m) (hlo : ∀ p ∈ m, lo ≤ p.1) :
    (popAt lo m).1 = m.get lo := by
  cases m with
  | nil => rfl
  | cons p t =>
    obtain ⟨k, v⟩ := p
    unfold popAt
    by_cases hk : k = lo
    · simp [hk]
    · simp only [hk, if_false, get_cons]
      have : lo < k := by
        have := hlo (k, v) (List.mem_cons_self ..); simp at this; omega
      symm
      apply get_eq_zero_of_not_mem
      intro q hq
      have := hs.head_lt q hq
      simp at this; omega

theorem popAt_sorted {lo : Nat} {m : SMap} (hs : Sorted m) : Sorted (popAt lo m).2 := by
  cases m with
  | nil => exact sorted_nil
  | cons p t =>
    obtain ⟨k, v⟩ := p
    by_cases hk : k = lo
    · simp only [popAt, hk, if_true]; exact hs.tail
    · simp only [popAt, hk, if_false]; exact hs

theorem popAt_range {lo d : Nat} {m : SMap} (hs : Sorted m)
    (hr : ∀ p ∈ m, lo ≤ p.1 ∧ p.1 < lo + (d + 1)) :
    ∀ p ∈ (popAt lo m).2, lo + 1 ≤ p.1 ∧ p.1 < lo + 1 + d := by
  cases m with
  | nil => intro p hp; simp [popAt] at hp
  | cons q t =>
    obtain ⟨k, v⟩ := q
    unfold popAt
    by_cases hk : k = lo
    · simp only [hk, if_true]
      intro p hp
      have h1 := hs.head_lt p hp
      have h2 := hr p (List.mem_cons_of_mem _ hp)
      simp at h1; omega
    · simp only [hk, if_false]
      intro p hp
      have h2 := hr p hp
      rcases List.mem_cons.mp hp with rfl | hp'
      · simp at h2 ⊢; omega
      · have h1 := hs.head_lt p hp'
        have h3 := hr (k, v) (List.mem_cons_self ..)
        simp at h1 h3; omega

theorem popAt_get_tail {lo : Nat} {m : SMap} {j : Nat} (hj : lo + 1 ≤ j) :
    (popAt lo m).2.get j = m.get j := by
  cases m with
  | nil => rfl
  | cons q t =>
    obtain ⟨k, v⟩ := q
    unfold popAt
    by_cases hk : k = lo
    · have : ¬ k = j := by omega
      simp [hk, get_cons]; intro h; omega
    · simp [hk]

/-- one dense position of the merge walk -/
theorem zipWalk_pop {β : Type} (h : Int → Int → β → β) (z : β) (hz : ∀ r, h 0 0 r = r)
    {lo : Nat} {xs ys : SMap} (hxs : Sorted xs) (hys : Sorted ys)
    (hx : ∀ p ∈ xs, lo ≤ p.1) (hy : ∀ p ∈ ys, lo ≤ p.1) :
    zipWalk (fun _ => h) z xs ys =
      h (popAt lo xs).1 (popAt lo ys).1 (zipWalk (fun _ => h) z (popAt lo xs).2 (popAt lo ys).2) := by
  cases xs with
  | nil =>
    cases ys with
    | nil => simp [popAt, zipWalk_nil_nil, hz]
    | cons q ys =>
      obtain ⟨j, b⟩ := q
      unfold popAt
      by_cases hj : j = lo
      · simp [hj, zipWalk_nil_cons]
      · simp [hj, hz]
  | cons p xs =>
    obtain ⟨i, a⟩ := p
    cases ys with
    | nil =>
      unfold popAt
      by_cases hi : i = lo
      · simp [hi, zipWalk_cons_nil]
      · simp [hi, hz]
    | cons q ys =>
      obtain ⟨j, b⟩ := q
      have hi0 := hx (i, a) (List.mem_cons_self ..)
      have hj0 := hy (j, b) (List.mem_cons_self ..)
      simp only at hi0 hj0
      unfold popAt
      by_cases hi : i = lo
      · by_cases hj : j = lo
        · simp [hi, hj, zipWalk_cons_cons]
        · have h1 : ¬ lo = j := fun e => hj e.symm
          have h2 : lo < j := by omega
          simp [hi, hj, zipWalk_cons_cons, h1, h2]
      · by_cases hj : j = lo
        · have h1 : ¬ i = lo := hi
          have h2 : ¬ i < lo := by omega
          simp [hi, hj, zipWalk_cons_cons, h2]
        · simp [hi, hj, hz]

end SMap

/-- padding with zeroes does not change a position-wise walk -/
theorem Dense.zipDense_zeros {β : Type} (h : Int → Int → β → β) (z : β) (hz : ∀ r, h 0 0 r = r) :
    ∀ (k k' : Nat), Dense.zipDense h z (List.replicate k 0) (List.replicate k' 0) = z
  | 0, 0 => by simp [Dense.zipDense]
  | k + 1, 0 => by
    have := Dense.zipDense_zeros h z hz k 0
    simp [List.replicate_succ, Dense.zipDense, hz] at this ⊢; exact this
  | 0, k' + 1 => by
    have := Dense.zipDense_zeros h z hz 0 k'
    simp [List.replicate_succ, Dense.zipDense, hz] at this ⊢; exact this
  | k + 1, k' + 1 => by
    have := Dense.zipDense_zeros h z hz k k'
    simp [List.replicate_succ, Dense.zipDense, hz]; exact this

theorem Dense.zipDense_pad {β : Type} (h : Int → Int → β → β) (z : β) (hz : ∀ r, h 0 0 r = r) :
    ∀ (l1 l2 : List Int) (k k' : Nat),
      Dense.zipDense h z (l1 ++ List.replicate k 0) (l2 ++ List.replicate k' 0) = Dense.zipDense h z l1 l2
  | [], [], k, k' => by simpa [Dense.zipDense] using Dense.zipDense_zeros h z hz k k'
  | a :: l1, [], k, k' => by
    cases k' with
    | zero =>
      have := Dense.zipDense_pad h z hz l1 [] k 0
      simp [Dense.zipDense] at this ⊢; rw [this]
    | succ k' =>
      have := Dense.zipDense_pad h z hz l1 [] k k'
      simp [Dense.zipDense, List.replicate_succ] at this ⊢; rw [this]
  | [], b :: l2, k, k' => by
    cases k with
    | zero =>
      have := Dense.zipDense_pad h z hz [] l2 0 k'
      simp [Dense.zipDense] at this ⊢; rw [this]
    | succ k =>
      have := Dense.zipDense_pad h z hz [] l2 k k'
      simp [Dense.zipDense, List.replicate_succ] at this ⊢; rw [this]
  | a :: l1, b :: l2, k, k' => by
    have := Dense.zipDense_pad h z hz l1 l2 k k'
    simp [Dense.zipDense] at this ⊢; rw [this]

/-- **merge walk = position-wise walk** on the index range `[lo, lo+d)` -/
theorem zipWalk_eq_zipDense {β : Type} (h : Int → Int → β → β) (z : β) (hz : ∀ r, h 0 0 r = r) :
    ∀ (d lo : Nat) (xs ys : SMap), Sorted xs → Sorted ys →
      (∀ p ∈ xs, lo ≤ p.1 ∧ p.1 < lo + d) → (∀ p ∈ ys, lo ≤ p.1 ∧ p.1 < lo + d) →
      zipWalk (fun _ => h) z xs ys =
        Dense.zipDense h z ((List.range' lo d).map xs.get) ((List.range' lo d).map ys.get)
  | 0, lo, xs, ys, _, _, hx, hy => by
    have ex : xs = [] := by
      cases xs with
      | nil => rfl
      | cons p t => have := hx p (List.mem_cons_self ..); omega
    have ey : ys = [] := by
      cases ys with
      | nil => rfl
      | cons p t => have := hy p (List.mem_cons_self ..); omega
    subst ex; subst ey
    simp [zipWalk_nil_nil, Dense.zipDense]
  | d + 1, lo, xs, ys, hxs, hys, hx, hy => by
    rw [zipWalk_pop h z hz hxs hys (fun p hp => (hx p hp).1) (fun p hp => (hy p hp).1)]
    rw [zipWalk_eq_zipDense h z hz d (lo + 1) _ _ (popAt_sorted hxs) (popAt_sorted hys)
      (popAt_range hxs hx) (popAt_range hys hy)]
    rw [popAt_get hxs (fun p hp => (hx p hp).1), popAt_get hys (fun p hp => (hy p hp).1)]
    simp only [List.range'_succ, List.map_cons, Dense.zipDense]
    congr 1
    congr 1
    · apply List.map_congr_left
      intro j hj
      exact popAt_get_tail (by have := (List.mem_range'_1.mp hj).1; omega)
    · apply List.map_congr_left
      intro j hj
      exact popAt_get_tail (by have := (List.mem_range'_1.mp hj).1; omega)

end PPLV.COTree
