import PPLV.COTree.Model

/-! # `bisect_in` / `bisect_near`: termination and post-condition (core Lean only) -/
namespace PPLV.COTree.HoleArray

/-! ### the two skip loops -/

theorem cell_zero (a : HoleArray) : a.cell 0 = some 0 := by simp [cell]

theorem isHole_zero (a : HoleArray) : a.isHole 0 = false := by simp [isHole, cell]

theorem isHole_beyond (a : HoleArray) {p : Nat} (h : a.rs < p) : a.isHole p = false := by
  have hp : p ≠ 0 := by omega
  have : a.cells.size ≤ p - 1 := by unfold rs at h; omega
  simp [isHole, cell, hp, Array.getD, Nat.not_lt.mpr this]

theorem skipUpAux_ge (a : HoleArray) : ∀ f p, p ≤ a.skipUpAux f p
  | 0, p => by simp [skipUpAux]
  | f + 1, p => by
    unfold skipUpAux
    split
    · have := skipUpAux_ge a f (p + 1); omega
    · exact Nat.le_refl _

theorem skipUpAux_notHole (a : HoleArray) : ∀ f p, a.rs + 1 ≤ f + p → a.isHole (a.skipUpAux f p) = false
  | 0, p, h => by
    unfold skipUpAux
    exact a.isHole_beyond (by omega)
  | f + 1, p, h => by
    unfold skipUpAux
    split
    · exact skipUpAux_notHole a f (p + 1) (by omega)
    · rename_i hh; simpa using hh

theorem skipUpAux_holes (a : HoleArray) : ∀ f p q, p ≤ q → q < a.skipUpAux f p → a.isHole q = true
  | 0, p, q, h1, h2 => by simp [skipUpAux] at h2; omega
  | f + 1, p, q, h1, h2 => by
    unfold skipUpAux at h2
    split at h2
    · rename_i hh
      by_cases hq : q = p
      · subst hq; exact hh
      · exact skipUpAux_holes a f (p + 1) q (by omega) h2
    · omega

theorem skipUp_ge (a : HoleArray) (p : Nat) : p ≤ a.skipUp p := skipUpAux_ge a _ p

theorem skipUp_notHole (a : HoleArray) (p : Nat) : a.isHole (a.skipUp p) = false :=
  skipUpAux_notHole a _ p (by omega)

theorem skipUp_holes (a : HoleArray) {p q : Nat} (h1 : p ≤ q) (h2 : q < a.skipUp p) :
    a.isHole q = true := skipUpAux_holes a _ p q h1 h2

theorem skipUp_le (a : HoleArray) {p q : Nat} (h1 : p ≤ q) (h2 : a.isHole q = false) :
    a.skipUp p ≤ q := by
  apply Nat.le_of_not_lt
  intro h
  have := a.skipUp_holes h1 h
  simp [h2] at this

theorem skipDown_le (a : HoleArray) : ∀ p, a.skipDown p ≤ p
  | 0 => by simp [skipDown]
  | p + 1 => by
    unfold skipDown
    split
    · have := skipDown_le a p; omega
    · exact Nat.le_refl _

theorem skipDown_notHole (a : HoleArray) : ∀ p, a.isHole (a.skipDown p) = false
  | 0 => by simp [skipDown, isHole_zero]
  | p + 1 => by
    unfold skipDown
    split
    · exact skipDown_notHole a p
    · rename_i hh; simpa using hh

theorem skipDown_holes (a : HoleArray) : ∀ p q, a.skipDown p < q → q ≤ p → a.isHole q = true
  | 0, q, h1, h2 => by simp [skipDown] at h1; omega
  | p + 1, q, h1, h2 => by
    unfold skipDown at h1
    split at h1
    · rename_i hh
      by_cases hq : q = p + 1
      · subst hq; exact hh
      · exact skipDown_holes a p q h1 (by omega)
    · omega

theorem skipDown_ge (a : HoleArray) {p q : Nat} (h1 : q ≤ p) (h2 : a.isHole q = false) :
    q ≤ a.skipDown p := by
  apply Nat.le_of_not_lt
  intro h
  have := a.skipDown_holes p q h h1
  simp [h2] at this

/-! ### `bisect_in` -/

/-- loop invariant of `while (first < last)` for a search started on `[F0, L0]` -/
structure InInv (a : HoleArray) (k F0 L0 first last : Nat) : Prop where
  lastUsed : a.used last
  lastLo : F0 ≤ last
  lastHi : last ≤ L0
  firstOk : (a.used first ∧ F0 ≤ first ∧ first ≤ last) ∨ last < first
  below : ∀ q, a.used q → F0 ≤ q → q < first → a.key q < k
  above : ∀ q, a.used q → last < q → q ≤ L0 → k < a.key q

/-- post-condition of `bisect_in` on `[F0, L0]` -/
def InPost (a : HoleArray) (k F0 L0 p : Nat) : Prop :=
  a.used p ∧ F0 ≤ p ∧ p ≤ L0 ∧ (a.hasIn F0 L0 k → a.key p = k) ∧
    (¬ a.hasIn F0 L0 k → a.adjacentIn F0 L0 p k)

theorem inPost_of_exit (a : HoleArray) (hs : a.SortedUsed) {k F0 L0 first last : Nat}
    (inv : InInv a k F0 L0 first last) (hex : ¬ first < last) : InPost a k F0 L0 last := by
  obtain ⟨hlu, hlo, hhi, _, hbelow, habove⟩ := inv
  have hfl : last ≤ first := Nat.le_of_not_lt hex
  have hkey : ∀ q, a.used q → F0 ≤ q → q ≤ L0 → a.key q = k → q = last := by
    intro q hq h1 h2 h3
    rcases Nat.lt_trichotomy q last with h | h | h
    · have := hbelow q hq h1 (by omega); omega
    · exact h
    · have := habove q hq h h2; omega
  refine ⟨hlu, hlo, hhi, ?_, ?_⟩
  · rintro ⟨q, hq, h1, h2, h3⟩
    have := hkey q hq h1 h2 h3
    subst this; exact h3
  · intro hno
    have hne : a.key last ≠ k := fun h => hno ⟨last, hlu, hlo, hhi, h⟩
    rcases Nat.lt_or_gt_of_ne hne with h | h
    · left
      refine ⟨h, ?_⟩
      intro q hq h1 h2 h3
      rcases Nat.lt_trichotomy q last with h' | h' | h'
      · exact Nat.le_of_lt (hs q last hq hlu h')
      · subst h'; exact Nat.le_refl _
      · have := habove q hq h' h2; omega
    · right
      refine ⟨h, ?_⟩
      intro q hq h1 h2 h3
      rcases Nat.lt_trichotomy q last with h' | h' | h'
      · have := hbelow q hq h1 (by omega); omega
      · subst h'; exact Nat.le_refl _
      · exact Nat.le_of_lt (hs last q hlu hq h')

theorem bisectInAux_spec (a : HoleArray) (hs : a.SortedUsed) (k F0 L0 : Nat) :
    ∀ fuel first last, InInv a k F0 L0 first last → last + 1 - first ≤ fuel →
      InPost a k F0 L0 (a.bisectInAux k fuel first last)
  | 0, first, last, inv, hf => by
    unfold bisectInAux
    exact inPost_of_exit a hs inv (by omega)
  | fuel + 1, first, last, inv, hf => by
    unfold bisectInAux
    by_cases hlt : first < last
    · simp only [hlt, if_true]
      obtain ⟨hlu, hlo, hhi, hfo, hbelow, habove⟩ := inv
      have hfu : a.used first ∧ F0 ≤ first ∧ first ≤ last := by
        rcases hfo with h | h
        · exact h
        · omega
      obtain ⟨⟨hf1, hf2, hf3⟩, hfF, _⟩ := hfu
      obtain ⟨hl1, hl2, hl3⟩ := hlu
      -- half and new_half
      have hh1 : first ≤ (first + last) / 2 := by omega
      have hh2 : (first + last) / 2 < last := by omega
      have hn1 : (first + last) / 2 ≤ a.skipUp ((first + last) / 2) := a.skipUp_ge _
      have hn2 : a.skipUp ((first + last) / 2) ≤ last := a.skipUp_le (by omega) hl3
      have hnu : a.used (a.skipUp ((first + last) / 2)) :=
        ⟨by omega, by omega, a.skipUp_notHole _⟩
      by_cases hk : a.key (a.skipUp ((first + last) / 2)) = k
      · simp only [hk, if_true]
        refine ⟨hnu, by omega, by omega, fun _ => ?_, fun hno => ?_⟩
        · exact hk
        · exact absurd ⟨_, hnu, by omega, by omega, hk⟩ hno
      · simp only [hk, if_false]
        by_cases hgt : a.key (a.skipUp ((first + last) / 2)) > k
        · simp only [hgt, if_true]
          have hd1 : a.skipDown ((first + last) / 2) ≤ (first + last) / 2 := a.skipDown_le _
          have hd2 : first ≤ a.skipDown ((first + last) / 2) := a.skipDown_ge hh1 hf3
          apply bisectInAux_spec a hs k F0 L0 fuel first _ _ (by omega)
          refine ⟨⟨by omega, by omega, a.skipDown_notHole _⟩, by omega, by omega,
            Or.inl ⟨⟨hf1, hf2, hf3⟩, hfF, hd2⟩, hbelow, ?_⟩
          intro q hq h1 h2
          by_cases hqh : q ≤ (first + last) / 2
          · have := a.skipDown_holes _ q h1 hqh
            simp [hq.2.2] at this
          · rcases Nat.lt_trichotomy q (a.skipUp ((first + last) / 2)) with h' | h' | h'
            · have := a.skipUp_holes (p := (first + last) / 2) (q := q) (by omega) h'
              simp [hq.2.2] at this
            · subst h'; exact hgt
            · have := hs _ q hnu hq h'; omega
        · simp only [hgt, if_false]
          have hlt' : a.key (a.skipUp ((first + last) / 2)) < k := by omega
          have hu1 : a.skipUp ((first + last) / 2) + 1 ≤ a.skipUp (a.skipUp ((first + last) / 2) + 1) :=
            a.skipUp_ge _
          apply bisectInAux_spec a hs k F0 L0 fuel _ last _ (by omega)
          refine ⟨⟨hl1, hl2, hl3⟩, hlo, hhi, ?_, ?_, habove⟩
          · by_cases hc : a.skipUp (a.skipUp ((first + last) / 2) + 1) ≤ last
            · exact Or.inl ⟨⟨by omega, by omega, a.skipUp_notHole _⟩, by omega, hc⟩
            · exact Or.inr (by omega)
          · intro q hq h1 h2
            rcases Nat.lt_trichotomy q (a.skipUp ((first + last) / 2)) with h' | h' | h'
            · have := hs q _ hq hnu h'; omega
            · subst h'; exact hlt'
            · have := a.skipUp_holes (p := a.skipUp ((first + last) / 2) + 1) (q := q) (by omega) h2
              simp [hq.2.2] at this
    · simp only [hlt, if_false]
      exact inPost_of_exit a hs inv hlt

theorem bisectIn_spec (a : HoleArray) (hs : a.SortedUsed) {first last : Nat}
    (hf : a.used first) (hl : a.used last) (hle : first ≤ last) (k : Nat) :
    InPost a k first last (a.bisectIn first last k) := by
  unfold bisectIn
  apply bisectInAux_spec a hs k first last _ first last _ (Nat.le_refl _)
  exact ⟨hl, hle, Nat.le_refl _, Or.inl ⟨hf, Nat.le_refl _, hle⟩,
    fun q _ h1 h2 => by omega, fun q _ h1 h2 => by omega⟩


/-! ### `bisect_near` -/

/-- post-condition of `bisect_near` / `bisect`: the key's position, or a neighbour's -/
def NearPost (a : HoleArray) (k p : Nat) : Prop :=
  a.used p ∧ (a.has k → a.key p = k) ∧ (¬ a.has k → a.adjacent p k)

theorem sorted_le (a : HoleArray) (hs : a.SortedUsed) {p q : Nat} (hp : a.used p) (hq : a.used q)
    (h : p ≤ q) : a.key p ≤ a.key q := by
  rcases Nat.lt_or_eq_of_le h with h | h
  · exact Nat.le_of_lt (hs p q hp hq h)
  · subst h; exact Nat.le_refl _

theorem sorted_inj (a : HoleArray) (hs : a.SortedUsed) {p q : Nat} (hp : a.used p) (hq : a.used q)
    (h : a.key p = a.key q) : p = q := by
  rcases Nat.lt_trichotomy p q with h' | h' | h'
  · have := hs p q hp hq h'; omega
  · exact h'
  · have := hs q p hq hp h'; omega

theorem nearPost_of_key (a : HoleArray) (_hs : a.SortedUsed) {k p : Nat} (hp : a.used p)
    (hk : a.key p = k) : NearPost a k p :=
  ⟨hp, fun _ => hk, fun hno => absurd ⟨p, hp, hk⟩ hno⟩

/-- what the galloping phase must deliver -/
def GallopOK (a : HoleArray) (k : Nat) : Gallop → Prop
  | .ret p => NearPost a k p
  | .range h nh => a.used h ∧ a.used nh ∧ h < nh ∧ a.key h < k ∧ k < a.key nh

theorem gallopDown_spec (a : HoleArray) (hs : a.SortedUsed) (k : Nat) :
    ∀ fuel hint offset, a.used hint → k < a.key hint → 1 ≤ fuel → 1 ≤ offset →
      hint + 1 ≤ offset + fuel → GallopOK a k (a.gallopDown k fuel hint offset)
  | 0, _, _, _, _, h, _, _ => by omega
  | fuel + 1, hint, offset, hu, hk, _, ho, hfu => by
    unfold gallopDown
    obtain ⟨hu1, hu2, hu3⟩ := hu
    by_cases hc : hint ≤ offset
    · simp only [hc, if_true]
      have h1 : 1 ≤ a.skipUp 1 := a.skipUp_ge 1
      have h2 : a.skipUp 1 ≤ hint := a.skipUp_le hu1 hu3
      have hfu' : a.used (a.skipUp 1) := ⟨h1, by omega, a.skipUp_notHole _⟩
      have hfirst : ∀ q, a.used q → a.skipUp 1 ≤ q := by
        intro q hq
        apply Nat.le_of_not_lt
        intro h
        have := a.skipUp_holes (p := 1) (q := q) hq.1 h
        simp [hq.2.2] at this
      by_cases hge : a.key (a.skipUp 1) ≥ k
      · simp only [hge, if_true]
        refine ⟨hfu', ?_, ?_⟩
        · rintro ⟨q, hq, hqk⟩
          have hle := hfirst q hq
          rcases Nat.lt_or_eq_of_le hle with h | h
          · have := hs _ q hfu' hq h; omega
          · rw [h]; exact hqk
        · intro hno
          have hne : a.key (a.skipUp 1) ≠ k := fun h => hno ⟨_, hfu', h⟩
          right
          refine ⟨by omega, ?_⟩
          intro q hq _
          exact a.sorted_le hs hfu' hq (hfirst q hq)
      · simp only [hge, if_false]
        refine ⟨hfu', ⟨hu1, hu2, hu3⟩, ?_, by omega, hk⟩
        rcases Nat.lt_or_eq_of_le h2 with h | h
        · exact h
        · rw [h] at hge; omega
    · simp only [hc, if_false]
      have h1 : hint - offset ≤ a.skipUp (hint - offset) := a.skipUp_ge _
      have h2 : a.skipUp (hint - offset) ≤ hint := a.skipUp_le (by omega) hu3
      have hnu : a.used (a.skipUp (hint - offset)) := ⟨by omega, by omega, a.skipUp_notHole _⟩
      by_cases heq : a.key (a.skipUp (hint - offset)) = k
      · simp only [heq, if_true]
        exact a.nearPost_of_key hs hnu heq
      · simp only [heq, if_false]
        by_cases hlt : a.key (a.skipUp (hint - offset)) < k
        · simp only [hlt, if_true]
          refine ⟨hnu, ⟨hu1, hu2, hu3⟩, ?_, hlt, hk⟩
          rcases Nat.lt_or_eq_of_le h2 with h | h
          · exact h
          · rw [h] at hlt; omega
        · simp only [hlt, if_false]
          exact gallopDown_spec a hs k fuel _ (2 * offset) hnu (by omega) (by omega) (by omega)
            (by omega)

theorem gallopUp_spec (a : HoleArray) (hs : a.SortedUsed) (k : Nat) :
    ∀ fuel hint offset, a.used hint → a.key hint < k → 1 ≤ fuel → 1 ≤ offset →
      a.rs + 2 ≤ hint + offset + fuel → GallopOK a k (a.gallopUp k fuel hint offset)
  | 0, _, _, _, _, h, _, _ => by omega
  | fuel + 1, hint, offset, hu, hk, _, ho, hfu => by
    unfold gallopUp
    obtain ⟨hu1, hu2, hu3⟩ := hu
    by_cases hc : hint + offset > a.rs
    · simp only [hc, if_true]
      have h1 : a.skipDown a.rs ≤ a.rs := a.skipDown_le _
      have h2 : hint ≤ a.skipDown a.rs := a.skipDown_ge hu2 hu3
      have hlu : a.used (a.skipDown a.rs) := ⟨by omega, h1, a.skipDown_notHole _⟩
      have hlast : ∀ q, a.used q → q ≤ a.skipDown a.rs := by
        intro q hq
        apply Nat.le_of_not_lt
        intro h
        have := a.skipDown_holes a.rs q h hq.2.1
        simp [hq.2.2] at this
      by_cases hle : a.key (a.skipDown a.rs) ≤ k
      · simp only [hle, if_true]
        refine ⟨hlu, ?_, ?_⟩
        · rintro ⟨q, hq, hqk⟩
          have hle' := hlast q hq
          rcases Nat.lt_or_eq_of_le hle' with h | h
          · have := hs q _ hq hlu h; omega
          · rw [← h]; exact hqk
        · intro hno
          have hne : a.key (a.skipDown a.rs) ≠ k := fun h => hno ⟨_, hlu, h⟩
          left
          refine ⟨by omega, ?_⟩
          intro q hq _
          exact a.sorted_le hs hq hlu (hlast q hq)
      · simp only [hle, if_false]
        refine ⟨⟨hu1, hu2, hu3⟩, hlu, ?_, hk, by omega⟩
        rcases Nat.lt_or_eq_of_le h2 with h | h
        · exact h
        · rw [← h] at hle; omega
    · simp only [hc, if_false]
      have h1 : a.skipDown (hint + offset) ≤ hint + offset := a.skipDown_le _
      have h2 : hint ≤ a.skipDown (hint + offset) := a.skipDown_ge (by omega) hu3
      have hnu : a.used (a.skipDown (hint + offset)) := ⟨by omega, by omega, a.skipDown_notHole _⟩
      by_cases heq : a.key (a.skipDown (hint + offset)) = k
      · simp only [heq, if_true]
        exact a.nearPost_of_key hs hnu heq
      · simp only [heq, if_false]
        by_cases hgt : a.key (a.skipDown (hint + offset)) > k
        · simp only [hgt, if_true]
          refine ⟨⟨hu1, hu2, hu3⟩, hnu, ?_, hk, hgt⟩
          rcases Nat.lt_or_eq_of_le h2 with h | h
          · exact h
          · rw [← h] at hgt; omega
        · simp only [hgt, if_false]
          exact gallopUp_spec a hs k fuel _ (2 * offset) hnu (by omega) (by omega) (by omega)
            (by omega)

theorem bisectNearFinish_spec (a : HoleArray) (hs : a.SortedUsed) {k h nh : Nat}
    (hh : a.used h) (hnh : a.used nh) (hlt : h < nh) (hk1 : a.key h < k) (hk2 : k < a.key nh) :
    NearPost a k (a.bisectNearFinish k h nh) := by
  unfold bisectNearFinish
  have e1 : h + 1 ≤ a.skipUp (h + 1) := a.skipUp_ge _
  have e2 : a.skipUp (h + 1) ≤ nh := a.skipUp_le (by omega) hnh.2.2
  have hu' : a.used (a.skipUp (h + 1)) := ⟨by omega, by have := hnh.2.1; omega, a.skipUp_notHole _⟩
  -- a used cell is at most `h` or at least `skipUp (h+1)`
  have hgapL : ∀ q, a.used q → h < q → a.skipUp (h + 1) ≤ q := by
    intro q hq hq'
    apply Nat.le_of_not_lt
    intro hc
    have := a.skipUp_holes (p := h + 1) (q := q) (by omega) hc
    simp [hq.2.2] at this
  -- every cell holding `k` lies strictly between `h` and `nh`
  have hbetween : ∀ q, a.used q → a.key q = k → h < q ∧ q < nh := by
    intro q hq hqk
    constructor
    · apply Nat.lt_of_not_le
      intro hc
      have := a.sorted_le hs hq hh hc; omega
    · apply Nat.lt_of_not_le
      intro hc
      have := a.sorted_le hs hnh hq hc; omega
  by_cases heq : a.skipUp (h + 1) = nh
  · simp only [heq, if_true]
    have hno : ¬ a.has k := by
      rintro ⟨q, hq, hqk⟩
      have := hbetween q hq hqk
      have := hgapL q hq this.1
      omega
    refine ⟨hnh, fun hc => absurd hc hno, fun _ => Or.inr ⟨hk2, ?_⟩⟩
    intro q hq hqk
    by_cases hc : q ≤ h
    · have := a.sorted_le hs hq hh hc; omega
    · have := hgapL q hq (by omega)
      exact a.sorted_le hs hnh hq (by omega)
  · simp only [heq, if_false]
    have d1 : a.skipDown (nh - 1) ≤ nh - 1 := a.skipDown_le _
    have d2 : a.skipUp (h + 1) ≤ a.skipDown (nh - 1) := a.skipDown_ge (by omega) hu'.2.2
    have hd' : a.used (a.skipDown (nh - 1)) :=
      ⟨by have := hu'.1; omega, by have := hnh.2.1; omega, a.skipDown_notHole _⟩
    have hgapR : ∀ q, a.used q → q < nh → q ≤ a.skipDown (nh - 1) := by
      intro q hq hq'
      apply Nat.le_of_not_lt
      intro hc
      have := a.skipDown_holes (nh - 1) q hc (by omega)
      simp [hq.2.2] at this
    obtain ⟨pu, plo, phi, pkey, padj⟩ := a.bisectIn_spec hs hu' hd' d2 k
    have hhas : a.has k → a.hasIn (a.skipUp (h + 1)) (a.skipDown (nh - 1)) k := by
      rintro ⟨q, hq, hqk⟩
      have hb := hbetween q hq hqk
      exact ⟨q, hq, hgapL q hq hb.1, hgapR q hq hb.2, hqk⟩
    refine ⟨pu, fun hc => pkey (hhas hc), fun hno => ?_⟩
    have hno' : ¬ a.hasIn (a.skipUp (h + 1)) (a.skipDown (nh - 1)) k := by
      rintro ⟨q, hq, _, _, hqk⟩
      exact hno ⟨q, hq, hqk⟩
    have kL : a.key h < a.key (a.skipUp (h + 1)) := hs _ _ hh hu' (by omega)
    have kR : a.key (a.skipDown (nh - 1)) < a.key nh := hs _ _ hd' hnh (by omega)
    have kpL := a.sorted_le hs hu' pu plo
    have kpR := a.sorted_le hs pu hd' phi
    rcases padj hno' with ⟨h1, h2⟩ | ⟨h1, h2⟩
    · left
      refine ⟨h1, ?_⟩
      intro q hq hqk
      by_cases hc : q ≤ h
      · have := a.sorted_le hs hq hh hc; omega
      · have g1 := hgapL q hq (by omega)
        by_cases hc' : q < nh
        · exact h2 q hq g1 (hgapR q hq hc') hqk
        · have := a.sorted_le hs hnh hq (by omega); omega
    · right
      refine ⟨h1, ?_⟩
      intro q hq hqk
      by_cases hc : q ≤ h
      · have := a.sorted_le hs hq hh hc; omega
      · have g1 := hgapL q hq (by omega)
        by_cases hc' : q < nh
        · exact h2 q hq g1 (hgapR q hq hc') hqk
        · have := a.sorted_le hs hnh hq (by omega); omega

theorem bisectNear_spec (a : HoleArray) (hs : a.SortedUsed) {hint : Nat} (hv : a.used hint)
    (k : Nat) : NearPost a k (a.bisectNear hint k) := by
  unfold bisectNear
  by_cases heq : a.key hint = k
  · simp only [heq, if_true]
    exact a.nearPost_of_key hs hv heq
  · simp only [heq, if_false]
    have hg : GallopOK a k (if a.key hint > k then a.gallopDown k (hint + 1) hint 1
        else a.gallopUp k (a.rs + 2) hint 1) := by
      by_cases hgt : a.key hint > k
      · simp only [hgt, if_true]
        exact a.gallopDown_spec hs k _ _ _ hv hgt (by omega) (by omega) (by omega)
      · simp only [hgt, if_false]
        exact a.gallopUp_spec hs k _ _ _ hv (by omega) (by omega) (by omega) (by omega)
    generalize (if a.key hint > k then a.gallopDown k (hint + 1) hint 1
        else a.gallopUp k (a.rs + 2) hint 1) = g at hg
    cases g with
    | ret p => exact hg
    | range h nh =>
      obtain ⟨h1, h2, h3, h4, h5⟩ := hg
      exact a.bisectNearFinish_spec hs h1 h2 h3 h4 h5

theorem bisect_spec (a : HoleArray) (hs : a.SortedUsed) (hne : ∃ p, a.used p) (k : Nat) :
    NearPost a k (a.bisect k) := by
  obtain ⟨p0, hp0⟩ := hne
  unfold bisect
  have f1 : 1 ≤ a.skipUp 1 := a.skipUp_ge 1
  have f2 : a.skipUp 1 ≤ p0 := a.skipUp_le hp0.1 hp0.2.2
  have l1 : a.skipDown a.rs ≤ a.rs := a.skipDown_le _
  have l2 : p0 ≤ a.skipDown a.rs := a.skipDown_ge hp0.2.1 hp0.2.2
  have hf : a.used (a.skipUp 1) := ⟨f1, by have := hp0.2.1; omega, a.skipUp_notHole _⟩
  have hl : a.used (a.skipDown a.rs) := ⟨by have := hp0.1; omega, l1, a.skipDown_notHole _⟩
  have hfirst : ∀ q, a.used q → a.skipUp 1 ≤ q := by
    intro q hq
    apply Nat.le_of_not_lt
    intro h
    have := a.skipUp_holes (p := 1) (q := q) hq.1 h
    simp [hq.2.2] at this
  have hlast : ∀ q, a.used q → q ≤ a.skipDown a.rs := by
    intro q hq
    apply Nat.le_of_not_lt
    intro h
    have := a.skipDown_holes a.rs q h hq.2.1
    simp [hq.2.2] at this
  obtain ⟨pu, _, _, pkey, padj⟩ := a.bisectIn_spec hs hf hl (by omega) k
  refine ⟨pu, ?_, ?_⟩
  · rintro ⟨q, hq, hqk⟩
    exact pkey ⟨q, hq, hfirst q hq, hlast q hq, hqk⟩
  · intro hno
    have hno' : ¬ a.hasIn (a.skipUp 1) (a.skipDown a.rs) k := by
      rintro ⟨q, hq, _, _, hqk⟩
      exact hno ⟨q, hq, hqk⟩
    rcases padj hno' with ⟨h1, h2⟩ | ⟨h1, h2⟩
    · exact Or.inl ⟨h1, fun q hq hqk => h2 q hq (hfirst q hq) (hlast q hq) hqk⟩
    · exact Or.inr ⟨h1, fun q hq hqk => h2 q hq (hfirst q hq) (hlast q hq) hqk⟩

end PPLV.COTree.HoleArray
