import PPLV.COTree.ProofsRebUp

/-!
# C16 stage 2 — basics for the `while (true)` of `erase(tree_iterator)`

Every slot is a node; nesting of subtree ranges; `skipDown` / `skipUp`; moving a pair over unused
slots keeps the in-order listing; erasing one slot of a sorted tree.  No Mathlib.
-/
namespace PPLV.COTree

/-- every positive number is `2^h * (2*m + 1)` -/
theorem exists_pow_mul_odd : ∀ (f p : Nat), p ≤ f → 0 < p → ∃ h m, p = 2 ^ h * (2 * m + 1)
  | 0, p, hf, hp => by omega
  | f + 1, p, hf, hp => by
    rcases Nat.mod_two_eq_zero_or_one p with h0 | h1
    · obtain ⟨h, m, e⟩ := exists_pow_mul_odd f (p / 2) (by omega) (by omega)
      refine ⟨h + 1, m, ?_⟩
      rw [Nat.pow_succ', Nat.mul_assoc, ← e]; omega
    · exact ⟨0, p / 2, by simp; omega⟩

namespace Tree

theorem IsNode.congr {t t' : Tree} {i o : Nat} (h : t'.rs = t.rs) (hn : t.IsNode i o) :
    t'.IsNode i o := by
  obtain ⟨a, b, h1, h2, h3⟩ := hn
  exact ⟨a, b, h1, h2, by rw [h]; exact h3⟩

/-- the offset of a node is determined by its slot -/
theorem IsNode.offset_eq {t : Tree} {i o : Nat} (hn : t.IsNode i o) : o = lowBit i := by
  obtain ⟨h, m, h1, h2, _⟩ := hn
  rw [h2, h1, lowBit_pow_mul]

theorem IsNode.offset_unique {t : Tree} {i o o' : Nat} (hn : t.IsNode i o) (hn' : t.IsNode i o') :
    o = o' := by rw [hn.offset_eq, hn'.offset_eq]

/-- every slot `1 … rs` is a node -/
theorem ofIndex_node (t : Tree) {p : Nat} (h1 : 1 ≤ p) (h2 : p ≤ t.rs) :
    ∃ o, TIt.ofIndex p = ⟨p, o⟩ ∧ t.IsNode p o := by
  obtain ⟨h, m, e⟩ := exists_pow_mul_odd p p (Nat.le_refl _) h1
  refine ⟨2 ^ h, ?_, ⟨h, m, rfl, e, h2⟩⟩
  rw [e, ofIndex_pow_mul]

/-- nesting: a slot `p = 2^h' * (2m'+1)` inside the range of the node `c = 2^h * (2m+1)` has a
    smaller-or-equal offset, equal only when `p = c`, and its range is inside the range of `c` -/
theorem block_nest {h h' m m' : Nat}
    (h1 : 2 ^ h * (2 * m + 1) - (2 ^ h - 1) ≤ 2 ^ h' * (2 * m' + 1))
    (h2 : 2 ^ h' * (2 * m' + 1) ≤ 2 ^ h * (2 * m + 1) + (2 ^ h - 1)) :
    2 ^ h' ≤ 2 ^ h ∧
    2 ^ h * (2 * m + 1) - (2 ^ h - 1) ≤ 2 ^ h' * (2 * m' + 1) - (2 ^ h' - 1) ∧
    2 ^ h' * (2 * m' + 1) + (2 ^ h' - 1) ≤ 2 ^ h * (2 * m + 1) + (2 ^ h - 1) ∧
    (2 ^ h' = 2 ^ h → m' = m) := by
  have hp := two_pow_pos' h
  have hp' := two_pow_pos' h'
  rcases Nat.lt_or_ge h h' with hlt | hge
  · -- impossible: `2 * 2^h` divides `p`
    exfalso
    have e : 2 ^ h' = 2 ^ h * (2 * 2 ^ (h' - h - 1)) := by
      rw [← Nat.pow_succ', ← Nat.pow_add]; congr 1; omega
    generalize 2 ^ (h' - h - 1) = r at e
    rw [e] at h1 h2
    generalize 2 ^ h = o at *
    have e2 : o * (2 * r) * (2 * m' + 1) = o * (2 * (r * (2 * m' + 1))) := by grind
    rw [e2] at h1 h2
    generalize r * (2 * m' + 1) = K at h1 h2
    have e3 : o * (2 * m + 1) = o * (2 * m) + o := by grind
    have a1 : o * (2 * m) < o * (2 * K) := by omega
    have a2 : o * (2 * K) < o * (2 * m + 2) := by
      have : o * (2 * m + 2) = o * (2 * m) + 2 * o := by grind
      omega
    have b1 := Nat.lt_of_mul_lt_mul_left a1
    have b2 := Nat.lt_of_mul_lt_mul_left a2
    omega
  · have e : 2 ^ h = 2 ^ h' * 2 ^ (h - h') := by
      rw [← Nat.pow_add]; congr 1; omega
    have hr := two_pow_pos' (h - h')
    generalize 2 ^ (h - h') = r at e hr
    rw [e] at h1 h2 ⊢
    generalize 2 ^ h' = o at *
    have hor := Nat.mul_pos hp' hr
    have e1 : o * r * (2 * m + 1) = o * (2 * (r * m)) + o * r := by grind
    have e2 : o * (2 * m' + 1) = 2 * (o * m') + o := by grind
    have e3 : o * (2 * (r * m)) = 2 * (o * (r * m)) := by grind
    have e4 : o * (2 * (r * m) + 2 * r) = o * (2 * (r * m)) + 2 * (o * r) := by grind
    have a1 : o * (2 * (r * m)) < o * (2 * m' + 1) := by omega
    have a2 : o * (2 * m' + 1) < o * (2 * (r * m) + 2 * r) := by omega
    have b1 := Nat.lt_of_mul_lt_mul_left a1
    have b2 := Nat.lt_of_mul_lt_mul_left a2
    have c1 : o * (r * m) ≤ o * m' := Nat.mul_le_mul_left o (by omega)
    have c2 : o * (m' + 1) ≤ o * (r * m + r) := Nat.mul_le_mul_left o (by omega)
    have e5 : o * (m' + 1) = o * m' + o := by grind
    have e6 : o * (r * m + r) = o * (r * m) + o * r := by grind
    have c3 : o * 1 ≤ o * r := Nat.mul_le_mul_left o hr
    rw [Nat.mul_one] at c3
    refine ⟨c3, by omega, by omega, ?_⟩
    intro heq
    have hr1 : r = 1 := by
      have : o * r = o * 1 := by rw [Nat.mul_one]; exact heq.symm
      exact Nat.eq_of_mul_eq_mul_left hp' this
    subst hr1
    omega

/-- `block_nest` on nodes -/
theorem IsNode.nest {t : Tree} {c oc p op : Nat} (hc : t.IsNode c oc) (hp : t.IsNode p op)
    (h1 : c - (oc - 1) ≤ p) (h2 : p ≤ c + (oc - 1)) :
    op ≤ oc ∧ c - (oc - 1) ≤ p - (op - 1) ∧ p + (op - 1) ≤ c + (oc - 1) ∧ (p ≠ c → op < oc) := by
  obtain ⟨h, m, e1, e2, _⟩ := hc
  obtain ⟨h', m', e1', e2', _⟩ := hp
  subst e1 e1' e2 e2'
  obtain ⟨r1, r2, r3, r4⟩ := block_nest h1 h2
  refine ⟨r1, r2, r3, fun hne => ?_⟩
  rcases Nat.lt_or_ge (2 ^ h') (2 ^ h) with hl | hg
  · exact hl
  · exfalso
    have heq : 2 ^ h' = 2 ^ h := Nat.le_antisymm r1 hg
    have := r4 heq
    apply hne; rw [heq, this]

/-! ## `skipDown`, `skipUp` -/

theorem skipDown_le (t : Tree) : ∀ p, t.skipDown p ≤ p
  | 0 => by simp [skipDown]
  | p + 1 => by
    unfold skipDown
    by_cases h : t.isUnused (p + 1) = true
    · simp only [h, if_true]; have := skipDown_le t p; omega
    · simp [h]

theorem skipDown_between (t : Tree) : ∀ p q, t.skipDown p < q → q ≤ p → t.isUnused q = true
  | 0, q, h1, h2 => by omega
  | p + 1, q, h1, h2 => by
    unfold skipDown at h1
    by_cases h : t.isUnused (p + 1) = true
    · simp only [h, if_true] at h1
      by_cases hq : q = p + 1
      · rw [hq]; exact h
      · exact skipDown_between t p q h1 (by omega)
    · simp only [h] at h1
      simp at h1; omega

/-- a used slot `q ≤ p` stops the downward scan at or above `q`, on a used slot -/
theorem skipDown_ge (t : Tree) {p q : Nat} (hq : q ≤ p) (hu : t.isUnused q = false) :
    q ≤ t.skipDown p ∧ t.isUnused (t.skipDown p) = false := by
  induction p with
  | zero =>
    have : q = 0 := by omega
    subst this; simp [skipDown, hu]
  | succ p ih =>
    unfold skipDown
    by_cases h : t.isUnused (p + 1) = true
    · simp only [h, if_true]
      by_cases hq' : q = p + 1
      · rw [hq'] at hu; rw [hu] at h; cases h
      · exact ih (by omega)
    · simp only [h]
      simp only [Bool.not_eq_true] at h
      simp [h]; exact hq

theorem skipUpAux_spec (t : Tree) : ∀ f p,
    p ≤ t.skipUpAux f p ∧ t.skipUpAux f p ≤ p + f ∧
    (∀ q, p ≤ q → q < t.skipUpAux f p → t.isUnused q = true) ∧
    (t.skipUpAux f p < p + f → t.isUnused (t.skipUpAux f p) = false)
  | 0, p => by
    simp only [skipUpAux]
    exact ⟨Nat.le_refl _, by omega, fun q a b => by omega, fun h => by omega⟩
  | f + 1, p => by
    unfold skipUpAux
    by_cases h : t.isUnused p = true
    · simp only [h, if_true]
      obtain ⟨r1, r2, r3, r4⟩ := skipUpAux_spec t f (p + 1)
      refine ⟨by omega, by omega, ?_, fun hh => r4 (by omega)⟩
      intro q hq1 hq2
      by_cases hq : q = p
      · rw [hq]; exact h
      · exact r3 q (by omega) hq2
    · simp only [h]
      simp only [Bool.not_eq_true] at h
      simp [h]
      intro q a b; omega

/-- a used slot `q ≥ p`, `q ≤ rs`, stops the upward scan at or below `q`, on a used slot -/
theorem skipUp_le (t : Tree) {p q : Nat} (hq : p ≤ q) (hq2 : q ≤ t.rs) (hu : t.isUnused q = false) :
    p ≤ t.skipUp p ∧ t.skipUp p ≤ q ∧ t.isUnused (t.skipUp p) = false ∧
    ∀ x, p ≤ x → x < t.skipUp p → t.isUnused x = true := by
  unfold skipUp
  obtain ⟨r1, r2, r3, r4⟩ := skipUpAux_spec t (t.rs + 1 - p) p
  have hle : t.skipUpAux (t.rs + 1 - p) p ≤ q := by
    rcases Nat.lt_or_ge q (t.skipUpAux (t.rs + 1 - p) p) with hl | hg
    · have := r3 q hq hl
      rw [hu] at this; cases this
    · exact hg
  exact ⟨r1, hle, r4 (by omega), r3⟩

/-! ## lists -/

theorem listRange_none (t : Tree) (lo hi : Nat) (h : ∀ p, lo ≤ p → p < hi → t.cell p = none) :
    t.listRange lo hi = [] := by
  simp only [listRange, List.filterMap_eq_nil_iff, List.mem_range'_1]
  intro p hp
  exact h p hp.1 (by omega)

theorem listRange_one (t : Tree) (p : Nat) : t.listRange p (p + 1) = (t.cell p).toList := by
  have : p + 1 - p = 1 := by omega
  simp only [listRange, this]
  cases h : t.cell p <;> simp [List.range', h]

/-- a range with at most one used slot -/
theorem listRange_single (t : Tree) (lo hi x : Nat) (h1 : lo ≤ x) (h2 : x < hi)
    (hn : ∀ p, lo ≤ p → p < hi → p ≠ x → t.cell p = none) :
    t.listRange lo hi = (t.cell x).toList := by
  rw [listRange_split t lo x hi h1 (by omega), listRange_split t x (x + 1) hi (by omega) (by omega),
    listRange_none t lo x (fun p a b => hn p a (by omega) (by omega)),
    listRange_none t (x + 1) hi (fun p a b => hn p (by omega) b (by omega)), listRange_one]
  simp

theorem toList_eq (t : Tree) : t.toList = t.listRange 1 (t.rs + 1) := rfl

/-- two trees that read `t` with the pair of slot `b` at `b` resp. at `a`, the other of the two
    slots being free, list the same when every other slot of `lo … hi-1` is free -/
theorem hole_move_gen (t T1 T2 : Tree) (a b lo hi : Nat) (hrs1 : T1.rs = t.rs) (hrs2 : T2.rs = t.rs)
    (c1 : ∀ p, T1.cell p = if p = b then none else if p = a then t.cell b else t.cell p)
    (c2 : ∀ p, T2.cell p = if p = a then none else t.cell p)
    (hab : a ≠ b) (h1 : 1 ≤ lo) (h2 : lo ≤ a) (h3 : a < hi) (h4 : lo ≤ b) (h5 : b < hi)
    (h6 : hi ≤ t.rs + 1)
    (hbet : ∀ p, lo ≤ p → p < hi → p ≠ a → p ≠ b → t.cell p = none) :
    T1.toList = T2.toList := by
  rw [toList_eq, toList_eq, hrs1, hrs2,
    listRange_split T1 1 lo (t.rs + 1) h1 (by omega), listRange_split T1 lo hi (t.rs + 1) (by omega) h6,
    listRange_split T2 1 lo (t.rs + 1) h1 (by omega), listRange_split T2 lo hi (t.rs + 1) (by omega) h6]
  have e1 : T1.listRange 1 lo = T2.listRange 1 lo := by
    apply listRange_congr
    intro p hp1 hp2
    rw [c1, c2]
    have : p ≠ a := by omega
    have : p ≠ b := by omega
    simp [*]
  have e3 : T1.listRange hi (t.rs + 1) = T2.listRange hi (t.rs + 1) := by
    apply listRange_congr
    intro p hp1 hp2
    rw [c1, c2]
    have : p ≠ a := by omega
    have : p ≠ b := by omega
    simp [*]
  have e2 : T1.listRange lo hi = T2.listRange lo hi := by
    rw [listRange_single T1 lo hi a h2 h3, listRange_single T2 lo hi b h4 h5]
    · rw [c1, c2]; simp [hab, Ne.symm hab]
    · intro p hp1 hp2 hp3
      rw [c2]
      by_cases hpa : p = a
      · simp [hpa]
      · simp only [hpa, if_false]; exact hbet p hp1 hp2 hpa hp3
    · intro p hp1 hp2 hp3
      rw [c1]
      by_cases hpb : p = b
      · simp [hpb]
      · simp only [hpb, hp3, if_false]; exact hbet p hp1 hp2 hp3 hpb
  rw [e1, e2, e3]

/-- moving the pair of slot `b` to the free slot `a` over unused slots keeps the listing
    (both trees are read with their hole — `a` before, `b` after — cleared) -/
theorem hole_move (t : Tree) (a b : Nat) (x : Cell) (hsz : t.cells.size = t.rs + 2)
    (ha1 : 1 ≤ a) (ha2 : a ≤ t.rs) (hb1 : 1 ≤ b) (hb2 : b ≤ t.rs) (hab : a ≠ b)
    (hbet : ∀ p, (a < p ∧ p < b) ∨ (b < p ∧ p < a) → t.cell p = none) :
    (((t.setCell a (t.cell b)).setCell b x).setCell b none).toList = (t.setCell a none).toList := by
  have c1 : ∀ p, (((t.setCell a (t.cell b)).setCell b x).setCell b none).cell p =
      if p = b then none else if p = a then t.cell b else t.cell p := by
    intro p
    simp only [cell_setCell, setCell_cells_size]
    by_cases h1 : b = p
    · subst h1; simp [hsz]; omega
    · have h1' : ¬ p = b := fun h => h1 h.symm
      simp only [h1, h1', false_and, if_false]
      by_cases h2 : a = p
      · subst h2; simp [hsz]; omega
      · have h2' : ¬ p = a := fun h => h2 h.symm
        simp [h2, h2']
  have c2 : ∀ p, (t.setCell a none).cell p = if p = a then none else t.cell p := by
    intro p
    simp only [cell_setCell]
    by_cases h2 : a = p
    · subst h2; simp [hsz]; omega
    · have h2' : ¬ p = a := fun h => h2 h.symm
      simp [h2, h2']
  rcases Nat.lt_or_gt_of_ne hab with hlt | hgt
  · exact hole_move_gen t _ _ a b a (b + 1) rfl rfl c1 c2 hab ha1 (Nat.le_refl _) (by omega) (by omega)
      (by omega) (by omega) (fun p q1 q2 q3 q4 => hbet p (Or.inl ⟨by omega, by omega⟩))
  · exact hole_move_gen t _ _ a b b (a + 1) rfl rfl c1 c2 hab hb1 (by omega) (by omega) (Nat.le_refl _)
      (by omega) (by omega) (fun p q1 q2 q3 q4 => hbet p (Or.inr ⟨by omega, by omega⟩))

/-- clearing one used slot of a sorted tree erases its key from the listing -/
theorem toList_setCell_none {t : Tree} {i : Nat} (hsz : t.cells.size = t.rs + 2)
    (hso : SMap.Sorted t.toList) (h1 : 1 ≤ i) (h2 : i ≤ t.rs) (hu : t.isUnused i = false) :
    (t.setCell i none).toList = SMap.erase t.toList (t.keyAt i) := by
  have hcs := sorted_cells hso
  obtain ⟨kv, hkv⟩ := (isUnused_false_iff t i).mp hu
  have hk := keyAt_of_cell hkv
  have c2 : ∀ p, (t.setCell i none).cell p = if p = i then none else t.cell p := by
    intro p
    simp only [cell_setCell]
    by_cases h2 : i = p
    · subst h2; simp [hsz]; omega
    · have h2' : ¬ p = i := fun h => h2 h.symm
      simp [h2, h2']
  have eA : (t.setCell i none).listRange 1 i = t.listRange 1 i := by
    apply listRange_congr; intro p a b; rw [c2]; have : p ≠ i := by omega
    simp [this]
  have eB : (t.setCell i none).listRange (i + 1) (t.rs + 1) = t.listRange (i + 1) (t.rs + 1) := by
    apply listRange_congr; intro p a b; rw [c2]; have : p ≠ i := by omega
    simp [this]
  have eM : (t.setCell i none).listRange i (i + 1) = [] := by
    rw [listRange_one, c2]; simp
  have eM' : t.listRange i (i + 1) = [kv] := by
    rw [listRange_one, hkv]; rfl
  rw [toList_eq, toList_eq, setCell_rs,
    listRange_split _ 1 i (t.rs + 1) h1 (by omega), listRange_split _ i (i + 1) (t.rs + 1) (by omega) (by omega),
    listRange_split t 1 i (t.rs + 1) h1 (by omega), listRange_split t i (i + 1) (t.rs + 1) (by omega) (by omega),
    eA, eB, eM, eM']
  unfold SMap.erase
  rw [List.filter_append, List.filter_append]
  have fA : (t.listRange 1 i).filter (fun p => p.1 != t.keyAt i) = t.listRange 1 i := by
    rw [List.filter_eq_self]
    intro a ha
    obtain ⟨p, q1, q2, q3⟩ := (mem_listRange t 1 i a).mp ha
    have := hcs p i a kv q1 q2 h2 q3 hkv
    simp; omega
  have fB : (t.listRange (i + 1) (t.rs + 1)).filter (fun p => p.1 != t.keyAt i)
      = t.listRange (i + 1) (t.rs + 1) := by
    rw [List.filter_eq_self]
    intro a ha
    obtain ⟨p, q1, q2, q3⟩ := (mem_listRange t (i + 1) (t.rs + 1) a).mp ha
    have := hcs i p kv a h1 (by omega) (by omega) hkv q3
    simp; omega
  rw [fA, fB]
  simp [hk]

theorem sorted_erase {m : SMap} (h : SMap.Sorted m) (k : Nat) : SMap.Sorted (SMap.erase m k) := by
  unfold SMap.Sorted SMap.erase at *
  exact List.Pairwise.filter _ h

/-- `countRange` reads only which slots are used -/
theorem countRange_congr_unused (t t' : Tree) (lo hi : Nat)
    (h : ∀ p, lo ≤ p → p < hi → t'.isUnused p = t.isUnused p) :
    t'.countRange lo hi = t.countRange lo hi := by
  simp only [countRange]
  congr 1
  apply List.filter_congr
  intro p hp
  rw [List.mem_range'_1] at hp
  rw [h p hp.1 (by omega)]

theorem UpClosed.congr {t t' : Tree} (hrs : t'.rs = t.rs) (h : ∀ p, t'.isUnused p = t.isUnused p)
    (hup : t.UpClosed) : t'.UpClosed := by
  intro i o hn hu hne
  rw [h] at hu ⊢
  rw [hrs] at hne
  exact hup i o (IsNode.congr hrs.symm hn) hu hne

end Tree
end PPLV.COTree
