import PPLV.COTree.RebSpec
import PPLV.COTree.ProofsDensity

/-!
# C16 stage 2 — basic lemmas on `cell` / `setCell` / `listRange` / `countRange` / `init`
(used by `ProofsRebBigger.lean` and `ProofsRebFill*.lean`; own namespace `FillB`, so that the file can be
imported together with the basics files of the other C16 proof workers)
-/
namespace PPLV.COTree.FillB
open Tree

theorem cell_eq (t : Tree) (p : Nat) : t.cell p = (t.cells[p]?).getD none := by
  unfold cell
  simp [Array.getD_eq_getD_getElem?]

theorem cell_setCell (t : Tree) (p q : Nat) (c : Cell) :
    (t.setCell p c).cell q = if p = q ∧ p < t.cells.size then c else t.cell q := by
  rw [cell_eq, cell_eq]
  unfold setCell
  simp only [Array.getElem?_setIfInBounds]
  by_cases h : p = q
  · subst h
    by_cases h2 : p < t.cells.size
    · simp [h2]
    · simp [h2]
  · simp [h]

@[simp] theorem setCell_rs (t : Tree) (p : Nat) (c : Cell) : (t.setCell p c).rs = t.rs := rfl
@[simp] theorem setCell_size (t : Tree) (p : Nat) (c : Cell) : (t.setCell p c).size = t.size := rfl
@[simp] theorem setCell_maxDepth (t : Tree) (p : Nat) (c : Cell) :
    (t.setCell p c).maxDepth = t.maxDepth := rfl
@[simp] theorem setCell_cells_size (t : Tree) (p : Nat) (c : Cell) :
    (t.setCell p c).cells.size = t.cells.size := by
  unfold setCell; simp

theorem cell_setCell_ne (t : Tree) (p q : Nat) (c : Cell) (h : p ≠ q) :
    (t.setCell p c).cell q = t.cell q := by
  rw [cell_setCell]; simp [h]

theorem cell_setCell_self (t : Tree) (p : Nat) (c : Cell) (h : p < t.cells.size) :
    (t.setCell p c).cell p = c := by
  rw [cell_setCell]; simp [h]

/-! ## `listRange` -/

theorem listRange_empty (t : Tree) (lo hi : Nat) (h : hi ≤ lo) : t.listRange lo hi = [] := by
  unfold listRange
  have : hi - lo = 0 := by omega
  simp [this]

theorem listRange_split (t : Tree) (lo mid hi : Nat) (h1 : lo ≤ mid) (h2 : mid ≤ hi) :
    t.listRange lo hi = t.listRange lo mid ++ t.listRange mid hi := by
  unfold listRange
  have : hi - lo = (mid - lo) + (hi - mid) := by omega
  rw [this, ← List.range'_append_1, List.filterMap_append]
  have : lo + (mid - lo) = mid := by omega
  rw [this]

theorem listRange_one (t : Tree) (p : Nat) :
    t.listRange p (p + 1) = match t.cell p with | none => [] | some kv => [kv] := by
  unfold listRange
  have : p + 1 - p = 1 := by omega
  rw [this]
  cases h : t.cell p <;> simp [List.range', h]

theorem listRange_congr (t t' : Tree) (lo hi : Nat)
    (h : ∀ p, lo ≤ p → p < hi → t'.cell p = t.cell p) : t'.listRange lo hi = t.listRange lo hi := by
  unfold listRange
  have key : ∀ l : List Nat, (∀ p ∈ l, t'.cell p = t.cell p) →
      l.filterMap t'.cell = l.filterMap t.cell := by
    intro l
    induction l with
    | nil => intro _; rfl
    | cons a l ih =>
      intro hl
      rw [List.filterMap_cons, List.filterMap_cons, hl a (by simp),
        ih (fun p hp => hl p (by simp [hp]))]
  apply key
  intro p hp
  rw [List.mem_range'_1] at hp
  exact h p hp.1 (by omega)

theorem listRange_none (t : Tree) (lo hi : Nat)
    (h : ∀ p, lo ≤ p → p < hi → t.cell p = none) : t.listRange lo hi = [] := by
  unfold listRange
  rw [List.filterMap_eq_nil_iff]
  intro p hp
  rw [List.mem_range'_1] at hp
  exact h p hp.1 (by omega)

theorem mem_listRange (t : Tree) (lo hi : Nat) (kv : Nat × Int) :
    kv ∈ t.listRange lo hi ↔ ∃ p, lo ≤ p ∧ p < hi ∧ t.cell p = some kv := by
  unfold listRange
  rw [List.mem_filterMap]
  constructor
  · rintro ⟨p, hp, h⟩
    rw [List.mem_range'_1] at hp
    exact ⟨p, hp.1, by omega, h⟩
  · rintro ⟨p, h1, h2, h⟩
    exact ⟨p, by rw [List.mem_range'_1]; omega, h⟩

/-! ## `countRange` -/

theorem countRange_eq_length (t : Tree) (lo hi : Nat) :
    t.countRange lo hi = (t.listRange lo hi).length := by
  unfold countRange listRange isUnused
  generalize List.range' lo (hi - lo) = l
  induction l with
  | nil => rfl
  | cons a l ih =>
    cases h : t.cell a
    · simp only [List.filter_cons, List.filterMap_cons, h, Option.isNone_none, Bool.not_true]
      simpa using ih
    · simp only [List.filter_cons, List.filterMap_cons, h, Option.isNone_some, Bool.not_false,
        if_true, List.length_cons]
      simpa using ih

theorem countRange_split (t : Tree) (lo mid hi : Nat) (h1 : lo ≤ mid) (h2 : mid ≤ hi) :
    t.countRange lo hi = t.countRange lo mid + t.countRange mid hi := by
  simp only [countRange_eq_length]
  rw [listRange_split t lo mid hi h1 h2, List.length_append]

theorem countRange_congr (t t' : Tree) (lo hi : Nat)
    (h : ∀ p, lo ≤ p → p < hi → t'.cell p = t.cell p) : t'.countRange lo hi = t.countRange lo hi := by
  simp only [countRange_eq_length]
  rw [listRange_congr t t' lo hi h]

theorem countRange_le (t : Tree) (lo hi : Nat) : t.countRange lo hi ≤ hi - lo := by
  unfold countRange
  calc _ ≤ (List.range' lo (hi - lo)).length := List.length_filter_le _ _
    _ = hi - lo := by simp

/-! ## `init` -/

theorem init_pos (n : Nat) (hn : n ≠ 0) :
    (init n).rs = 2 ^ (integerLog2 n n + 1) - 1 ∧ (init n).maxDepth = integerLog2 n n + 1 ∧
    (init n).size = 0 ∧ (init n).cells.size = (init n).rs + 2 ∧
    (init n).cell 0 = sentinel ∧ (init n).cell ((init n).rs + 1) = sentinel ∧
    ∀ p, 1 ≤ p → p ≤ (init n).rs → (init n).cell p = none := by
  have e : init n = ⟨2 ^ (integerLog2 n n + 1) - 1, integerLog2 n n + 1, 0,
      ((Array.replicate (2 ^ (integerLog2 n n + 1) - 1 + 2) none).setIfInBounds 0
        sentinel).setIfInBounds (2 ^ (integerLog2 n n + 1) - 1 + 1) sentinel⟩ := by
    unfold init
    rw [if_neg hn]
  rw [e]
  dsimp only
  have hR : 1 ≤ 2 ^ (integerLog2 n n + 1) := Nat.one_le_two_pow
  generalize 2 ^ (integerLog2 n n + 1) = R at hR ⊢
  refine ⟨rfl, rfl, rfl, by simp, ?_, ?_, ?_⟩
  · rw [cell_eq]
    simp
  · rw [cell_eq]
    simp
  · intro p h1 h2
    rw [cell_eq]
    simp only [Array.getElem?_setIfInBounds]
    have a : ¬ (R - 1 + 1 = p) := by omega
    have b : ¬ (0 = p) := by omega
    simp only [a, b, if_false]
    rw [Array.getElem?_replicate]
    split <;> rfl

/-- `integer_log2(2^k - 1) = k - 1` -/
theorem integerLog2_pow_sub_one (k : Nat) (hk : 1 ≤ k) :
    integerLog2 (2 ^ k - 1) (2 ^ k - 1) + 1 = k := by
  have hp : 1 ≤ 2 ^ k - 1 := by
    have : 2 ^ 1 ≤ 2 ^ k := Nat.pow_le_pow_right (by omega) hk
    omega
  have hs := integerLog2_spec (2 ^ k - 1) (2 ^ k - 1) hp (Nat.le_refl _)
  generalize integerLog2 (2 ^ k - 1) (2 ^ k - 1) = m at hs
  have h1 : m < k := by
    rcases Nat.lt_or_ge m k with h | h
    · exact h
    · have : 2 ^ k ≤ 2 ^ m := Nat.pow_le_pow_right (by omega) h
      omega
  have h2 : k < m + 2 := by
    rcases Nat.lt_or_ge k (m + 2) with h | h
    · exact h
    · have : 2 ^ (m + 2) ≤ 2 ^ k := Nat.pow_le_pow_right (by omega) h
      have : 2 ^ (m + 2) = 2 * 2 ^ (m + 1) := by rw [Nat.pow_succ]; omega
      omega
  omega

/-- `init (2^k - 1)` is the empty tree with `2^k - 1` slots -/
theorem init_pow (k : Nat) (hk : 2 ≤ k) :
    (init (2 ^ k - 1)).Shape ∧ (init (2 ^ k - 1)).rs = 2 ^ k - 1 ∧
    (init (2 ^ k - 1)).maxDepth = k ∧ (init (2 ^ k - 1)).size = 0 ∧
    ∀ p, 1 ≤ p → p ≤ 2 ^ k - 1 → (init (2 ^ k - 1)).cell p = none := by
  have h4 : 2 ^ 2 ≤ 2 ^ k := Nat.pow_le_pow_right (by omega) hk
  have hn : 2 ^ k - 1 ≠ 0 := by omega
  obtain ⟨h1, h2, h3, h5, h6, h7, h8⟩ := init_pos (2 ^ k - 1) hn
  have hl := integerLog2_pow_sub_one k (by omega)
  rw [hl] at h1 h2
  refine ⟨⟨?_, ?_, h5, h6, h7⟩, h1, h2, h3, ?_⟩
  · rw [h1, h2]
  · omega
  · intro p hp1 hp2
    exact h8 p hp1 (by omega)

end PPLV.COTree.FillB
