import PPLV.COTree.ProofsRebIns2A

/-!
# C16 stage 2 — `insert`: the tail of `insert_precise_aux` (non-leaf hint, leaf hint)

No Mathlib.
-/
namespace PPLV.COTree
open Tree

/-- what `insertTail` guarantees -/
def InsertTailPost (t : Tree) (key : Nat) (value : Int) (r : Option (Tree × TIt)) : Prop :=
  ∃ t' it', r = some (t', it') ∧ t'.Shape ∧
    t'.countRange 1 (t'.rs + 1) = t.countRange 1 (t.rs + 1) + 1 ∧
    t'.toList = SMap.set t.toList key value ∧ t'.UpClosed ∧
    t'.cell it'.i = some (key, value) ∧ t'.size = t.size + 1 ∧ t'.rs = t.rs ∧
    1 ≤ it'.i ∧ it'.i ≤ t'.rs

/-- non-leaf hint: the pair goes to the unused child on the side of the key -/
theorem insertTail_nonleaf (t : Tree) (key : Nat) (value : Int) (i o : Nat)
    (hs : t.Shape) (hup : t.UpClosed) (hn : t.IsNode i o) (hu : t.isUnused i = false)
    (hk : t.keyAt i ≠ key) (hbr : t.Brackets i i key) (hl : (⟨i, o⟩ : TIt).isLeaf = false)
    (hchild : t.isUnused (if key < t.keyAt i then (⟨i, o⟩ : TIt).getLeftChild
      else (⟨i, o⟩ : TIt).getRightChild).i = true) :
    InsertTailPost t key value (insertTail t key value ⟨i, o⟩) := by
  have ho1 : o ≠ 1 := by simpa [TIt.isLeaf] using hl
  obtain ⟨o', k1, k2, k3, k4, k5, k6, k7, k8, k9, _⟩ := hn.kids hs ho1
  obtain ⟨kv, hkv⟩ := (isUnused_false_iff t i).mp hu
  have hka := keyAt_of_cell hkv
  have hbi := hn.bounds hs
  by_cases hlt : key < t.keyAt i
  · simp only [hlt, if_true] at hchild
    have hchild' : t.isUnused (i - o') = true := by
      have : (TIt.getLeftChild ⟨i, o⟩).i = i - o' := by rw [getLeftChild_eq, k2]
      rw [this] at hchild; exact hchild
    have e : insertTail t key value ⟨i, o⟩ =
        some ({ t.setCell (i - o') (some (key, value)) with size := t.size + 1 }, ⟨i - o', o'⟩) := by
      simp [insertTail, hl, hlt, TIt.getLeftChild, k2]
    have hempty := UpClosed.empty_subtree' hs hup k6 hchild'
    have hbc := k6.bounds hs
    obtain ⟨a1, a2, a3, a4, a5⟩ := insert_at_unused t (i - o') key value (t.size + 1) hs hup
      (by omega) (by omega) hchild'
      (fun p kv' h1 h2 hc => hbr.1 p kv' h1 (by omega) hc)
      (fun p kv' h1 h2 hc => by
        by_cases hp : p < i
        · rw [hempty p (by omega) (by omega)] at hc; cases hc
        · by_cases hp2 : p = i
          · subst hp2; rw [hkv] at hc; cases hc; omega
          · exact hbr.2 p kv' (by omega) h2 hc)
      (fun oc hoc hroot => by
        have := k6.unique hoc
        subst this
        rw [k8]; exact hu)
    refine ⟨_, _, e, a1, a2, a3, a4, a5, rfl, rfl, ?_, ?_⟩
    · show 1 ≤ i - o'; omega
    · show i - o' ≤ t.rs; omega
  · simp only [hlt, if_false] at hchild
    have hgt : t.keyAt i < key := by omega
    have hchild' : t.isUnused (i + o') = true := by
      have : (TIt.getRightChild ⟨i, o⟩).i = i + o' := by rw [getRightChild_eq, k2]
      rw [this] at hchild; exact hchild
    have e : insertTail t key value ⟨i, o⟩ =
        some ({ t.setCell (i + o') (some (key, value)) with size := t.size + 1 }, ⟨i + o', o'⟩) := by
      simp [insertTail, hl, hlt, TIt.getRightChild, k2]
    have hempty := UpClosed.empty_subtree' hs hup k7 hchild'
    have hbc := k7.bounds hs
    obtain ⟨a1, a2, a3, a4, a5⟩ := insert_at_unused t (i + o') key value (t.size + 1) hs hup
      (by omega) (by omega) hchild'
      (fun p kv' h1 h2 hc => by
        by_cases hp : i < p
        · rw [hempty p (by omega) (by omega)] at hc; cases hc
        · by_cases hp2 : p = i
          · subst hp2; rw [hkv] at hc; cases hc; omega
          · exact hbr.1 p kv' h1 (by omega) hc)
      (fun p kv' h1 h2 hc => hbr.2 p kv' (by omega) h2 hc)
      (fun oc hoc hroot => by
        have := k7.unique hoc
        subst this
        rw [k9]; exact hu)
    refine ⟨_, _, e, a1, a2, a3, a4, a5, rfl, rfl, ?_, ?_⟩
    · show 1 ≤ i + o'; omega
    · show i + o' ≤ t.rs; omega

/-- leaf hint: `rebalance`, then the search restarts from the rebuilt subtree -/
theorem insertTail_leaf (hr : RedistSpec) (hg : GoDownSpec) (t : Tree) (key : Nat) (value : Int)
    (i o : Nat) (hs : t.Shape) (hsorted : SMap.Sorted t.toList) (hup : t.UpClosed)
    (hcnt : t.countRange 1 (t.rs + 1) = t.size)
    (hn : t.IsNode i o) (hu : t.isUnused i = false)
    (hk : t.keyAt i ≠ key) (hbr : t.Brackets i i key) (hl : (⟨i, o⟩ : TIt).isLeaf = true)
    (h7 : 7 ≤ t.rs) (hroot : rebalanceCond t.maxDepth (t.size + 1) t.rs 0 = false) :
    InsertTailPost t key value (insertTail t key value ⟨i, o⟩) := by
  have ho1 : o = 1 := by simpa [TIt.isLeaf] using hl
  subst ho1
  obtain ⟨t3, j, oj, r1, r2, r3, r4, r5, r6, r7, r8, r9, r10, r11, r12, r13, r14, ⟨p, p1, p2, p3⟩, _, _⟩ :=
    rebalanceInsertSpec_of hr { t with size := t.size + 1 } i key value hs h7 hsorted hup hn hu hk hbr
      (by show t.countRange 1 (t.rs + 1) + 1 = t.size + 1; omega) hroot
  have e : insertTail t key value ⟨i, 1⟩ = some (t3, t3.goDownSearchingKey key ⟨j, oj⟩) := by
    simp [insertTail, hl, r1]
  have hcs := sorted_cells r7
  have hbj := r10.bounds r2
  have hbr3 : t3.Brackets (j - (oj - 1)) (j + (oj - 1)) key := by
    constructor
    · intro q kv h1 h2 hc
      exact hcs q p kv (key, value) h1 (by omega) (by omega) hc p3
    · intro q kv h1 h2 hc
      exact hcs p q (key, value) kv (by omega) (by omega) h2 p3 hc
  obtain ⟨g1, g2, g3, g4, g5, _⟩ := hg t3 key j oj r2 r7 r8 r10 r14 hbr3
  have hkey := g5 ⟨p, p1, p2, value, p3⟩
  generalize t3.goDownSearchingKey key ⟨j, oj⟩ = it' at e g1 g2 g3 g4 hkey
  obtain ⟨kv', hkv'⟩ := (isUnused_false_iff t3 it'.i).mp g2
  have hbi' := g1.bounds r2
  rw [keyAt_of_cell hkv'] at hkey
  have hip : it'.i = p := by
    by_cases h1 : it'.i < p
    · have := hcs it'.i p kv' (key, value) (by omega) h1 (by omega) hkv' p3
      simp only at this; omega
    · by_cases h2 : p < it'.i
      · have := hcs p it'.i (key, value) kv' (by omega) h2 (by omega) p3 hkv'
        simp only at this; omega
      · omega
  refine ⟨t3, it', e, r2, ?_, r6, r8, by rw [hip]; exact p3, r5, r3, by omega, by omega⟩
  rw [r9]
  show t.size + 1 = t.countRange 1 (t.rs + 1) + 1
  omega

end PPLV.COTree
