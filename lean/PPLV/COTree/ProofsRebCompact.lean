import PPLV.COTree.ProofsRebCompactB

/-!
# C16 stage 2 — `CompactSpec`: correctness of `compact_elements_in_the_rightmost_end`

Assembly of `cmp_loop1` (the loop under `if (add_element)`) and `cmp_loop2` (the final `while`).
-/
namespace PPLV.COTree
open Tree

/-- the state `(t, skipDown t L, L)` the function starts its loops from -/
theorem cmp_init {t : Tree} {F L : Nat} :
    t.skipDown L ≤ L ∧ (∀ p, t.skipDown L < p → p ≤ L → t.cell p = none) ∧
    (t.skipDown L = 0 ∨ t.isUnused (t.skipDown L) = false) ∧
    t.listRange F (t.skipDown L + 1) = t.listRange F (L + 1) ∧
    t.countRange F (t.skipDown L + 1) = t.countRange F (L + 1) := by
  have hle := cmp_skipDown_le t L
  have hl : t.listRange F (t.skipDown L + 1) = t.listRange F (L + 1) :=
    (cmp_listRange_trim (by omega) (fun p h1 h2 => cmp_skipDown_none t L p (by omega) (by omega))).symm
  refine ⟨hle, cmp_skipDown_none t L, cmp_skipDown_used t L, hl, ?_⟩
  rw [cmp_countRange_eq_length, cmp_countRange_eq_length, hl]

/-- **`compact_elements_in_the_rightmost_end`** (`CompactSpec` of `RebSpec.lean`) -/
theorem compactSpec : CompactSpec := by
  intro t F L n key value add hF hFL hL hsz hn hn1 hnroom hadd r
  obtain ⟨j1, j2, j3, j4, j5⟩ := cmp_init (t := t) (F := F) (L := L)
  cases add with
  | false =>
    have hr : r = compactLoop2 t n (t.skipDown L) L := by
      show compactElementsInTheRightmostEnd t L n key value false = _
      simp [compactElementsInTheRightmostEnd]
    have hcnt : t.countRange F (t.skipDown L + 1) = n := by
      rw [j5, hn]; simp
    obtain ⟨p1, p2, p3, p4, p5⟩ := cmp_loop2 F hF n t (t.skipDown L) L j1 hL hsz j2 j3 hcnt
    rw [← hr] at p1 p2 p3 p4 p5
    refine ⟨p1, p3, p4, Or.inl ⟨p2, ?_⟩⟩
    rw [p5, j4]; simp
  | true =>
    obtain ⟨hsorted, hne, hleft⟩ := hadd rfl
    have hr : r = compactLoop2 (compactLoop1 key value t n (t.skipDown L) L).1
        (compactLoop1 key value t n (t.skipDown L) L).2.1
        (compactLoop1 key value t n (t.skipDown L) L).2.2.1
        (compactLoop1 key value t n (t.skipDown L) L).2.2.2 := by
      show compactElementsInTheRightmostEnd t L n key value true = _
      simp [compactElementsInTheRightmostEnd]
    have hcnt : t.countRange F (t.skipDown L + 1) + 1 = n := by
      rw [j5, hn]; simp
    have hM : t.listRange F (t.skipDown L + 1) ++ t.listRange (L + 1) (L + 1) =
        t.listRange F (L + 1) := by
      rw [j4, cmp_listRange_empty t (Nat.le_refl _), List.append_nil]
    have h1 := cmp_loop1 F L key value (t.listRange F (L + 1)) hF hsorted hne n t (t.skipDown L) L
      j1 (Nat.le_refl _) hL hsz j2 j3 hcnt (by omega) (fun p h1 h2 => by omega) hM hleft
    generalize compactLoop1 key value t n (t.skipDown L) L = s at hr h1
    obtain ⟨t', n', last', fu'⟩ := s
    obtain ⟨q1, q2, q3, q4, q5, q6, q7, q8⟩ := h1
    dsimp only at q1 q2 q3 q4 q5 q6 q7 q8 hr
    obtain ⟨p1, p2, p3, p4, p5⟩ := cmp_loop2 F hF n' t' last' fu' q3
      (by rw [q1.1]; omega) (by rw [q1.2.2.2.1, q1.1]; exact hsz) q4 q5 q6
    rw [← hr] at p1 p2 p3 p4 p5
    have hlist : r.1.listRange (r.2 + 1) (L + 1) =
        t'.listRange F (last' + 1) ++ t'.listRange (fu' + 1) (L + 1) := by
      rw [cmp_listRange_split r.1 (by omega : r.2 + 1 ≤ fu' + 1) (by omega : fu' + 1 ≤ L + 1), p5]
      congr 1
      apply cmp_listRange_congr
      intro p h1 h2
      exact p1.2.2.2.2 p (Or.inr (by omega))
    refine ⟨cmp_frameOn_trans q1 p1 (Nat.le_refl _) q2, p3, ?_, ?_⟩
    · intro p h1 h2
      by_cases hp : p ≤ fu'
      · exact p4 p h1 hp
      · have := q7 p (by omega) h2
        unfold Tree.isUnused at this ⊢
        rw [p1.2.2.2.2 p (Or.inr (by omega))]
        exact this
    · rcases q8 with ⟨a, b⟩ | ⟨a, b⟩
      · left
        refine ⟨by omega, ?_⟩
        rw [hlist, b]; simp
      · right
        exact ⟨rfl, by omega, by rw [hlist, b]⟩

/-- corollary in the form `rebalance` uses it: `first_unused` lies in `[F - 1, L]`, and the flag
    `first_unused_index != last_index_in_subtree - subtree_size` that `rebalance` hands to
    `redistribute_elements_in_subtree` tells which of the two alternatives of `CompactSpec` holds -/
theorem compactSpec_pend (t : Tree) (F L n key : Nat) (value : Int) (add : Bool)
    (hF : 1 ≤ F) (hFL : F ≤ L) (hL : L ≤ t.rs) (hsz : t.cells.size = t.rs + 2)
    (hn : n = t.countRange F (L + 1) + (if add then 1 else 0)) (hn1 : 1 ≤ n) (hnroom : n ≤ L + 1 - F)
    (hadd : add = true → SMap.Sorted (t.listRange F (L + 1)) ∧
        (∀ q ∈ t.listRange F (L + 1), q.1 ≠ key) ∧
        ∀ p, 1 ≤ p → p < F → ∀ kv, t.cell p = some kv → kv.1 < key) :
    let r := compactElementsInTheRightmostEnd t L n key value add
    F ≤ r.2 + 1 ∧ r.2 ≤ L ∧
    ((r.2 != L - n) = false → r.2 + n = L ∧ r.1.listRange (r.2 + 1) (L + 1) =
        (if add then SMap.set (t.listRange F (L + 1)) key value else t.listRange F (L + 1))) ∧
    ((r.2 != L - n) = true → add = true ∧ r.2 + n = L + 1 ∧
        r.1.listRange (r.2 + 1) (L + 1) = t.listRange F (L + 1)) := by
  intro r
  obtain ⟨_, _, _, h⟩ := compactSpec t F L n key value add hF hFL hL hsz hn hn1 hnroom hadd
  change (r.2 + n = L ∧ _) ∨ (add = true ∧ r.2 + n = L + 1 ∧ _) at h
  rcases h with ⟨a, b⟩ | ⟨a, b, c⟩
  · refine ⟨by omega, by omega, fun _ => ⟨a, b⟩, fun hc => ?_⟩
    have : r.2 = L - n := by omega
    simp [this] at hc
  · refine ⟨by omega, by omega, fun hc => ?_, fun _ => ⟨a, b, c⟩⟩
    have : r.2 ≠ L - n := by omega
    simp [this] at hc

end PPLV.COTree
