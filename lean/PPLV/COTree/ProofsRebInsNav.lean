import PPLV.COTree.ProofsRebUp
import PPLV.COTree.ProofsRebCompact

/-!
# C16 stage 2 — lemmas shared by the integration of `rebalance` (insertion and deletion)

Nesting of subtrees, `UpClosed` of a tree whose subtree `(j, 2^h)` was rebuilt in the half/half
layout, `Shape` / `toList` through a `FrameOn`, and `SMap.set` inside a concatenation.  No Mathlib.
-/
namespace PPLV.COTree
open Tree

namespace Tree

theorem IsNode.offset_eq {t : Tree} {a o : Nat} (h : t.IsNode a o) : o = lowBit a := by
  obtain ⟨h, m, ho, ha, _⟩ := h
  rw [ha, ho, lowBit_pow_mul]

theorem IsNode.unique {t t' : Tree} {a o o' : Nat} (h : t.IsNode a o) (h' : t'.IsNode a o') :
    o = o' := by
  rw [h.offset_eq, h'.offset_eq]

theorem IsNode.of_rs {t t' : Tree} (e : t'.rs = t.rs) {a o : Nat} (h : t.IsNode a o) :
    t'.IsNode a o := by
  obtain ⟨h, m, ho, ha, hle⟩ := h
  exact ⟨h, m, ho, ha, by rw [e]; exact hle⟩

theorem isUnused_congr {t t' : Tree} {p : Nat} (h : t'.cell p = t.cell p) :
    t'.isUnused p = t.isUnused p := by
  unfold Tree.isUnused; rw [h]

/-- subtrees are nested: a node lying in the subtree of `(j, 2^h)` has its whole subtree there -/
theorem range_nested {t : Tree} (hs : t.Shape) : ∀ (h j : Nat), t.IsNode j (2 ^ h) →
    ∀ p op, t.IsNode p op → j - (2 ^ h - 1) ≤ p → p ≤ j + (2 ^ h - 1) →
      j - (2 ^ h - 1) ≤ p - (op - 1) ∧ p + (op - 1) ≤ j + (2 ^ h - 1)
  | 0, j, hj, p, op, hp, h1, h2 => by
    simp only [Nat.pow_zero] at hj h1 h2 ⊢
    have : p = j := by omega
    subst this
    have := hj.unique hp
    subst this
    omega
  | h + 1, j, hj, p, op, hp, h1, h2 => by
    have hb := hj.bounds hs
    have hP := two_pow_pos' h
    have e : 2 ^ (h + 1) = 2 * 2 ^ h := Nat.pow_succ'
    by_cases hpj : p = j
    · subst hpj
      have := hj.unique hp
      subst this
      omega
    · have hne1 : 2 ^ (h + 1) ≠ 1 := by omega
      obtain ⟨o', k1, _, k3, _, k5, k6, k7, _, _, k10⟩ := hj.kids hs hne1
      have ho' : o' = 2 ^ h := k10 h rfl
      subst ho'
      by_cases hlt : p < j
      · have := range_nested hs h (j - 2 ^ h) k6 p op hp (by omega) (by omega)
        omega
      · have := range_nested hs h (j + 2 ^ h) k7 p op hp (by omega) (by omega)
        omega

/-- in a half/half subtree every used slot other than the root has a used parent -/
theorem balanced_parent_used {t : Tree} (hs : t.Shape) : ∀ (h j n : Nat), t.IsNode j (2 ^ h) →
    t.Balanced (h + 1) j n → ∀ a oa, t.IsNode a oa → j - (2 ^ h - 1) ≤ a → a ≤ j + (2 ^ h - 1) →
      a ≠ j → t.isUnused a = false → t.isUnused (TIt.getParent ⟨a, oa⟩).i = false
  | 0, j, n, hj, hb, a, oa, ha, h1, h2, hne, hu => by
    simp only [Nat.pow_zero] at h1 h2
    omega
  | h + 1, j, n, hj, hb, a, oa, ha, h1, h2, hne, hu => by
    have hbd := hj.bounds hs
    have hP := two_pow_pos' h
    have e : 2 ^ (h + 1) = 2 * 2 ^ h := Nat.pow_succ'
    have hne1 : 2 ^ (h + 1) ≠ 1 := by omega
    obtain ⟨o', k1, k2, k3, _, k5, k6, k7, k8, k9, k10⟩ := hj.kids hs hne1
    have ho' : o' = 2 ^ h := k10 h rfl
    subst ho'
    rw [Tree.Balanced] at hb
    rcases hb with ⟨_, hnone⟩ | ⟨_, hused, hbl, hbr⟩
    · have := hnone a h1 h2
      rw [(isUnused_true_iff t a).mpr this] at hu
      cases hu
    · rw [k2] at hbl hbr
      by_cases hlt : a < j
      · by_cases hc : a = j - 2 ^ h
        · subst hc
          have := k6.unique ha
          subst this
          rw [k8]; exact hused
        · exact balanced_parent_used hs h (j - 2 ^ h) _ k6 hbl a oa ha (by omega) (by omega) hc hu
      · by_cases hc : a = j + 2 ^ h
        · subst hc
          have := k7.unique ha
          subst this
          rw [k9]; exact hused
        · exact balanced_parent_used hs h (j + 2 ^ h) _ k7 hbr a oa ha (by omega) (by omega) hc hu

/-- the root of a non-empty half/half subtree is used -/
theorem balanced_root_used {t : Tree} {h j n : Nat} (hb : t.Balanced (h + 1) j n) (hn : n ≠ 0) :
    t.isUnused j = false := by
  rw [Tree.Balanced] at hb
  rcases hb with ⟨h0, _⟩ | ⟨_, hu, _, _⟩
  · exact absurd h0 hn
  · exact hu

theorem shape_of_frame {t t' : Tree} {F L : Nat} (hs : t.Shape) (hf : t.FrameOn t' F L)
    (hF : 1 ≤ F) (hL : L ≤ t.rs) : t'.Shape := by
  obtain ⟨s1, s2, s3, s4, s5⟩ := hs
  obtain ⟨f1, f2, _, f4, f5⟩ := hf
  refine ⟨by rw [f1, f2]; exact s1, by rw [f2]; exact s2, by rw [f4, f1]; exact s3, ?_, ?_⟩
  · rw [f5 0 (Or.inl (by omega))]; exact s4
  · rw [f1, f5 (t.rs + 1) (Or.inr (by omega))]; exact s5

theorem toList_of_frame {t t' : Tree} {F L : Nat} (hf : t.FrameOn t' F L)
    (hF : 1 ≤ F) (hFL : F ≤ L + 1) (hL : L ≤ t.rs) :
    t'.toList = t.listRange 1 F ++ t'.listRange F (L + 1) ++ t.listRange (L + 1) (t.rs + 1) ∧
    t.toList = t.listRange 1 F ++ t.listRange F (L + 1) ++ t.listRange (L + 1) (t.rs + 1) := by
  obtain ⟨f1, _, _, _, f5⟩ := hf
  unfold Tree.toList
  rw [f1]
  constructor
  · rw [listRange_split t' 1 F (t.rs + 1) hF (by omega),
      listRange_split t' F (L + 1) (t.rs + 1) hFL (by omega),
      listRange_congr t t' 1 F (fun p _ h2 => f5 p (Or.inl h2)),
      listRange_congr t t' (L + 1) (t.rs + 1) (fun p h1 _ => f5 p (Or.inr (by omega))),
      List.append_assoc]
  · rw [listRange_split t 1 F (t.rs + 1) hF (by omega),
      listRange_split t F (L + 1) (t.rs + 1) hFL (by omega), List.append_assoc]

/-- `UpClosed` after the subtree `(j, 2^h)` was rebuilt half/half;
    the parent of `j` was used and is unchanged -/
theorem upClosed_after {t t' : Tree} {j h n : Nat} (hs : t.Shape) (hu : t.UpClosed)
    (hn : t.IsNode j (2 ^ h)) (hf : t.FrameOn t' (j - (2 ^ h - 1)) (j + (2 ^ h - 1)))
    (hb : t'.Balanced (h + 1) j n)
    (hanc : 2 ^ h ≠ t.rs / 2 + 1 → t.isUnused (TIt.getParent ⟨j, 2 ^ h⟩).i = false) :
    t'.UpClosed := by
  have hbd := hn.bounds hs
  have hs' : t'.Shape := shape_of_frame hs hf hbd.2.2.1 hbd.2.2.2.1
  obtain ⟨f1, _, _, _, f5⟩ := hf
  have hn' : t'.IsNode j (2 ^ h) := hn.of_rs f1
  intro a oa ha hused hroot
  rw [f1] at hroot
  have ha0 : t.IsNode a oa := ha.of_rs f1.symm
  have hba := ha0.bounds hs
  by_cases hin : j - (2 ^ h - 1) ≤ a ∧ a ≤ j + (2 ^ h - 1)
  · by_cases haj : a = j
    · subst haj
      have := hn.unique ha0
      subst this
      have hpu := hanc hroot
      rcases hn.parent_cases hs with ⟨e, _⟩ | ⟨e, h3, _⟩
      · rw [e] at hpu ⊢
        rw [isUnused_congr (f5 _ (Or.inr (by show a + (2 ^ h - 1) < a + 2 ^ h; omega)))]
        exact hpu
      · rw [e] at hpu ⊢
        rw [isUnused_congr (f5 _ (Or.inl (by show a - 2 ^ h < a - (2 ^ h - 1); omega)))]
        exact hpu
    · exact balanced_parent_used hs' h j n hn' hb a oa ha hin.1 hin.2 haj hused
  · have hout : a < j - (2 ^ h - 1) ∨ j + (2 ^ h - 1) < a := by omega
    rw [isUnused_congr (f5 a hout)] at hused
    have hpu := hu a oa ha0 hused hroot
    have hpar := ha0.parent hs hroot
    have hpout : (TIt.getParent ⟨a, oa⟩).i < j - (2 ^ h - 1) ∨
        j + (2 ^ h - 1) < (TIt.getParent ⟨a, oa⟩).i := by
      refine Classical.byContradiction fun hc => ?_
      have hnest := range_nested hs h j hn _ _ hpar.1 (by omega) (by omega)
      rcases ha0.parent_cases hs with ⟨e, _⟩ | ⟨e, h3, _⟩
      · rw [e] at hnest
        have h1 : j - (2 ^ h - 1) ≤ a + oa - (2 * oa - 1) := hnest.1
        have h2 : a + oa + (2 * oa - 1) ≤ j + (2 ^ h - 1) := hnest.2
        omega
      · rw [e] at hnest
        have h1 : j - (2 ^ h - 1) ≤ a - oa - (2 * oa - 1) := hnest.1
        have h2 : a - oa + (2 * oa - 1) ≤ j + (2 ^ h - 1) := hnest.2
        omega
    rw [isUnused_congr (f5 _ hpout)]
    exact hpu

end Tree

/-! ## `SMap.set` inside a concatenation -/

theorem SMap.set_append_left (key : Nat) (value : Int) : ∀ (xs l : SMap),
    (∀ q ∈ xs, q.1 < key) → SMap.set (xs ++ l) key value = xs ++ SMap.set l key value
  | [], _, _ => rfl
  | (k, x) :: xs, l, h => by
    have hk : k < key := h (k, x) List.mem_cons_self
    have a : ¬ key < k := by omega
    have b : ¬ key = k := by omega
    have ih := SMap.set_append_left key value xs l (fun q hq => h q (List.mem_cons_of_mem _ hq))
    simp only [List.cons_append, SMap.set, a, b, if_false, ih]

theorem SMap.set_append_right (key : Nat) (value : Int) : ∀ (ys zs : SMap),
    (∀ q ∈ zs, key < q.1) → SMap.set (ys ++ zs) key value = SMap.set ys key value ++ zs
  | [], [], _ => rfl
  | [], (k, x) :: zs, h => by
    have : key < k := h (k, x) List.mem_cons_self
    simp [SMap.set, this]
  | (k, x) :: ys, zs, h => by
    have ih := SMap.set_append_right key value ys zs h
    simp only [List.cons_append, SMap.set]
    by_cases a : key < k
    · simp [a]
    · by_cases b : key = k
      · simp [b]
      · simp [a, b, ih]

theorem SMap.length_set (key : Nat) (value : Int) : ∀ (m : SMap), (∀ q ∈ m, q.1 ≠ key) →
    (SMap.set m key value).length = m.length + 1
  | [], _ => rfl
  | (k, x) :: m, h => by
    have hk : k ≠ key := h (k, x) List.mem_cons_self
    have ih := SMap.length_set key value m (fun q hq => h q (List.mem_cons_of_mem _ hq))
    simp only [SMap.set]
    by_cases a : key < k
    · simp [a]
    · have b : ¬ key = k := fun e => hk e.symm
      simp [a, b, ih]

theorem SMap.mem_set_self (key : Nat) (value : Int) : ∀ (m : SMap), (key, value) ∈ SMap.set m key value
  | [] => by simp [SMap.set]
  | (k, x) :: m => by
    have ih := SMap.mem_set_self key value m
    simp only [SMap.set]
    by_cases a : key < k
    · simp [a]
    · by_cases b : key = k
      · simp [b]
      · simp [a, b, ih]

end PPLV.COTree
