import PPLV.COTree.ProofsRebRedistA

/-!
# C16 stage 2 — `redistribute_elements_in_subtree`: the stack loop
Processing the entry `(n, i)` costs at most `2n - 1` iterations and lays the first `n` elements
of the stream out half/half in the subtree of `i`.
-/
namespace PPLV.COTree.Redist
open PPLV.COTree PPLV.COTree.Tree

theorem Step.refl (key : Nat) (value : Int) (L lo hi : Nat) (s : RState) (inv : RInv key L s)
    (hole : ∀ p, lo ≤ p → p < s.lastUsed → s.t.cell p = none) (h1 : hi + 1 ≤ s.lastUsed)
    (hlh : lo ≤ hi + 1) : Step key value L lo hi 0 s s := by
  refine ⟨inv, rfl, rfl, rfl, rfl, fun _ _ => rfl, rfl, ?_, ?_⟩
  · intro p a b
    exact hole p (by omega) b
  · rw [listRange_none s.t lo (hi + 1) (fun p a b => hole p a (by omega))]
    rfl

theorem Step.comp {key : Nat} {value : Int} {L lo mid hi n1 n2 : Nat} {s s1 s2 : RState}
    (h12 : Step key value L lo mid n1 s s1) (h23 : Step key value L (mid + 1) hi n2 s1 s2)
    (hlm : lo ≤ mid + 1) (hmh : mid ≤ hi) : Step key value L lo hi (n1 + n2) s s2 := by
  refine ⟨h23.inv, h23.rs.trans h12.rs, h23.maxDepth.trans h12.maxDepth, h23.size.trans h12.size,
    h23.csize.trans h12.csize, ?_, ?_, h23.hole, ?_⟩
  · intro p hp
    rw [h23.frame p (by omega), h12.frame p hp]
  · have := h12.rem; have := h23.rem; omega
  · rw [h12.strm, h23.strm, listRange_split s2.t lo (mid + 1) (hi + 1) hlm (by omega),
      listRange_congr s1.t s2.t lo (mid + 1) (fun p _ b => h23.frame p (Or.inl b)),
      List.append_assoc]


theorem redistLoop_one (key : Nat) (value : Int) (fuel i : Nat) (stk : List (Nat × Nat))
    (s : RState) :
    redistLoop key value (fuel + 1) ((1, i) :: stk) s
      = redistLoop key value fuel stk (redistPlace key value s i) := by
  simp [redistLoop]

theorem redistLoop_split (key : Nat) (value : Int) (fuel n i a : Nat) (stk : List (Nat × Nat))
    (s : RState) (hn : n ≠ 1) (ha : lowBit i / 2 = a) :
    redistLoop key value (fuel + 1) ((n, i) :: stk) s
      = redistLoop key value fuel
          (if (n + 1) / 2 - 1 ≠ 0 then
            ((n + 1) / 2 - 1, i - a) :: (1, i) :: (n - (n + 1) / 2, i + a) :: stk
           else (1, i) :: (n - (n + 1) / 2, i + a) :: stk) s := by
  rw [redistLoop]
  simp only [hn, if_false, ha]

theorem node_children (h m : Nat) :
    2 ^ h * (2 * (2 * m) + 1) = 2 ^ (h + 1) * (2 * m + 1) - 2 ^ h ∧
    2 ^ h * (2 * (2 * m + 1) + 1) = 2 ^ (h + 1) * (2 * m + 1) + 2 ^ h ∧
    2 * 2 ^ h ≤ 2 ^ (h + 1) * (2 * m + 1) := by
  have e : 2 ^ (h + 1) * (2 * m + 1) = 4 * (2 ^ h * m) + 2 * 2 ^ h := by
    rw [Nat.pow_succ, Nat.mul_add, Nat.mul_one, Nat.mul_assoc, ← Nat.mul_assoc 2 2 m,
      Nat.mul_left_comm]
    omega
  have e1 : 2 ^ h * (2 * (2 * m) + 1) = 4 * (2 ^ h * m) + 2 ^ h := by
    rw [Nat.mul_add, Nat.mul_one, ← Nat.mul_assoc 2 2 m, Nat.mul_left_comm]
  have e2 : 2 ^ h * (2 * (2 * m + 1) + 1) = 4 * (2 ^ h * m) + 3 * 2 ^ h := by
    rw [Nat.mul_add, Nat.mul_one, Nat.mul_add 2, ← Nat.mul_assoc 2 2 m, Nat.mul_add,
      Nat.mul_left_comm]
    omega
  omega


/-- an entry `(1, i)` at a node of any height -/
theorem loop_one (key : Nat) (value : Int) (L h i : Nat) (stk : List (Nat × Nat)) (s : RState)
    (hi : 2 ^ h ≤ i) (inv : RInv key L s) (h3 : 1 ≤ remaining L s)
    (h4 : i + (2 ^ h - 1) + (remaining L s - 1) ≤ L)
    (h5 : ∀ p, i - (2 ^ h - 1) ≤ p → p < s.lastUsed → s.t.cell p = none) :
    ∃ s' c, c ≤ 2 * 1 - 1 ∧
      (∀ fuel, redistLoop key value (fuel + c) ((1, i) :: stk) s = redistLoop key value fuel stk s') ∧
      Step key value L (i - (2 ^ h - 1)) (i + (2 ^ h - 1)) 1 s s' ∧ s'.t.Balanced (h + 1) i 1 := by
  obtain ⟨st, hu, hn⟩ := place_step key value L (i - (2 ^ h - 1)) (i + (2 ^ h - 1)) i s inv
    (by omega) (by omega) h3 h4 h5
  exact ⟨redistPlace key value s i, 1, by omega, fun fuel => redistLoop_one key value fuel i stk s,
    st, balanced_one _ h i hi hu hn⟩

/-- **the stack loop on one entry** `(n, i)`, `i` a node with offset `2^h` -/
theorem loop_entry (key : Nat) (value : Int) (L : Nat) : ∀ (h m n : Nat) (stk : List (Nat × Nat))
    (s : RState), RInv key L s → 1 ≤ n → n ≤ 2 * 2 ^ h - 1 → n ≤ remaining L s →
    2 ^ h * (2 * m + 1) + (2 ^ h - 1) + (remaining L s - n) ≤ L →
    (∀ p, 2 ^ h * (2 * m + 1) - (2 ^ h - 1) ≤ p → p < s.lastUsed → s.t.cell p = none) →
    ∃ s' c, c ≤ 2 * n - 1 ∧
      (∀ fuel, redistLoop key value (fuel + c) ((n, 2 ^ h * (2 * m + 1)) :: stk) s
        = redistLoop key value fuel stk s') ∧
      Step key value L (2 ^ h * (2 * m + 1) - (2 ^ h - 1)) (2 ^ h * (2 * m + 1) + (2 ^ h - 1)) n s s' ∧
      s'.t.Balanced (h + 1) (2 ^ h * (2 * m + 1)) n := by
  intro h
  induction h with
  | zero =>
    intro m n stk s inv h1 h2 h3 h4 h5
    have : n = 1 := by simp at h2; omega
    subst this
    exact loop_one key value L 0 _ stk s (by simp) inv h3 h4 h5
  | succ h ih =>
    intro m n stk s inv h1 h2 h3 h4 h5
    have hge : 2 ^ (h + 1) ≤ 2 ^ (h + 1) * (2 * m + 1) := Nat.le_mul_of_pos_right _ (by omega)
    by_cases hn1 : n = 1
    · subst hn1
      exact loop_one key value L (h + 1) _ stk s hge inv h3 h4 h5
    · obtain ⟨el, er, hia⟩ := node_children h m
      have hlb : lowBit (2 ^ (h + 1) * (2 * m + 1)) / 2 = 2 ^ h := by
        rw [lowBit_pow, two_pow_succ_half]
      have ea : 2 ^ (h + 1) = 2 * 2 ^ h := by rw [Nat.pow_succ]; omega
      have ea2 : 2 ^ (h + 1) / 2 = 2 ^ h := two_pow_succ_half h
      have hap : 1 ≤ 2 ^ h := Nat.one_le_two_pow
      have ihl := ih (2 * m)
      have ihr := ih (2 * m + 1)
      rw [el] at ihl
      rw [er] at ihr
      have hsplit := fun fuel => redistLoop_split key value fuel n _ _ stk s hn1 hlb
      have hbal : ∀ t' : Tree, t'.Balanced (h + 1 + 1) (2 ^ (h + 1) * (2 * m + 1)) n ↔
          ((n = 0 ∧ ∀ p, 2 ^ (h + 1) * (2 * m + 1) - (2 ^ (h + 1) - 1) ≤ p →
              p ≤ 2 ^ (h + 1) * (2 * m + 1) + (2 ^ (h + 1) - 1) → t'.cell p = none) ∨
           (n ≠ 0 ∧ t'.isUnused (2 ^ (h + 1) * (2 * m + 1)) = false ∧
            t'.Balanced (h + 1) (2 ^ (h + 1) * (2 * m + 1) - 2 ^ h) ((n + 1) / 2 - 1) ∧
            t'.Balanced (h + 1) (2 ^ (h + 1) * (2 * m + 1) + 2 ^ h) (n - (n + 1) / 2))) := by
        intro t'
        rw [Tree.Balanced, ea2]
      generalize 2 ^ (h + 1) * (2 * m + 1) = i at *
      rw [ea] at h2 h4 h5 ⊢
      generalize ha : 2 ^ h = a at *
      clear ea ea2 hge el er hlb
      -- the left subtree
      have hleft : ∃ s1 c1, ((n + 1) / 2 - 1 = 0 ∧ c1 = 0 ∨ c1 + 1 ≤ 2 * ((n + 1) / 2 - 1)) ∧
          (∀ fuel, redistLoop key value (fuel + c1 + 1) ((n, i) :: stk) s
            = redistLoop key value fuel ((1, i) :: (n - (n + 1) / 2, i + a) :: stk) s1) ∧
          Step key value L (i - (2 * a - 1)) (i - 1) ((n + 1) / 2 - 1) s s1 ∧
          s1.t.Balanced (h + 1) (i - a) ((n + 1) / 2 - 1) := by
        by_cases hnl : (n + 1) / 2 - 1 = 0
        · refine ⟨s, 0, Or.inl ⟨hnl, rfl⟩, ?_, ?_, ?_⟩
          · intro fuel
            rw [hsplit fuel, hnl]; rfl
          · rw [hnl]
            have hu := inv.hu
            have : i ≤ s.lastUsed := by
              unfold remaining at h3 h4; split at h3 <;> omega
            exact Step.refl key value L _ _ s inv h5 (by omega) (by omega)
          · rw [hnl]
            apply balanced_zero
            intro p pa pb
            simp only [Nat.add_sub_cancel, ha] at pa pb
            have hu := inv.hu
            have : i ≤ s.lastUsed := by
              unfold remaining at h3 h4; split at h3 <;> omega
            exact h5 p (by omega) (by omega)
        · obtain ⟨s1, c1, hc1, run1, st1, bal1⟩ := ihl ((n + 1) / 2 - 1)
            ((1, i) :: (n - (n + 1) / 2, i + a) :: stk) s inv (by omega) (by omega) (by omega)
            (by omega) (fun p pa pb => h5 p (by omega) pb)
          refine ⟨s1, c1, Or.inr (by omega), ?_, ?_, bal1⟩
          · intro fuel
            rw [hsplit (fuel + c1), if_pos hnl, run1 fuel]
          · have e1 : i - a - (a - 1) = i - (2 * a - 1) := by omega
            have e2 : i - a + (a - 1) = i - 1 := by omega
            rw [e1, e2] at st1; exact st1
      obtain ⟨s1, c1, hc1, run1, st1, bal1⟩ := hleft
      -- the root
      have hr1 := st1.rem
      obtain ⟨st2, hu2, -⟩ := place_step key value L i i i s1 st1.inv (Nat.le_refl _) (Nat.le_refl _)
        (by omega) (by omega) (fun p pa pb => st1.hole p (by omega) pb)
      have hr2 := st2.rem
      -- the right subtree
      obtain ⟨s3, c3, hc3, run3, st3, bal3⟩ := ihr (n - (n + 1) / 2) stk (redistPlace key value s1 i)
        st2.inv (by omega) (by omega) (by omega) (by omega)
        (fun p pa pb => st2.hole p (by omega) pb)
      refine ⟨s3, c3 + 1 + c1 + 1, by omega, ?_, ?_, ?_⟩
      · intro fuel
        have e : fuel + (c3 + 1 + c1 + 1) = (fuel + c3 + 1) + c1 + 1 := by omega
        rw [e, run1, redistLoop_one, run3]
      · have e1 : i + a - (a - 1) = i + 1 := by omega
        have e2 : i + a + (a - 1) = i + (2 * a - 1) := by omega
        rw [e1, e2] at st3
        have e3 : i = i - 1 + 1 := by omega
        have st2' : Step key value L (i - 1 + 1) i 1 s1 (redistPlace key value s1 i) := by
          rw [← e3]; exact st2
        have c12 := Step.comp st1 st2' (by omega) (by omega)
        have c123 := Step.comp c12 st3 (by omega) (by omega)
        have e4 : (n + 1) / 2 - 1 + 1 + (n - (n + 1) / 2) = n := by omega
        rw [e4] at c123; exact c123
      · rw [hbal]
        right
        refine ⟨by omega, ?_, ?_, bal3⟩
        · unfold Tree.isUnused at hu2 ⊢
          rw [st3.frame i (by omega)]; exact hu2
        · apply balanced_congr _ _ _ _ _ _ bal1
          intro p pa pb
          simp only [Nat.add_sub_cancel, ha] at pa pb
          rw [st3.frame p (by omega), st2.frame p (by omega)]

end PPLV.COTree.Redist
