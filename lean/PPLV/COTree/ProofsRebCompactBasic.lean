import PPLV.COTree.RebSpec
import PPLV.COTree.ProofsMap

/-!
# C16 stage 2 — basic lemmas for the proof of `CompactSpec`

`cell` / `setCell`, `listRange`, `countRange`, `skipDown`, `compactMove`, `FrameOn`, and the
`SMap.set` lemma used when the new pair is written in front of the compacted block.
(Private copies for the `compact_elements_in_the_rightmost_end` worker; no Mathlib.)
-/
namespace PPLV.COTree
namespace Tree

/-! ## `cell` and `setCell` -/

theorem cmp_cell_setCell (t : Tree) (p : Nat) (c : Cell) (q : Nat) :
    (t.setCell p c).cell q = if p = q ∧ p < t.cells.size then c else t.cell q := by
  unfold Tree.setCell Tree.cell
  simp only [Array.getD_eq_getD_getElem?, Array.getElem?_setIfInBounds]
  by_cases h : p = q
  · subst h
    by_cases h2 : p < t.cells.size
    · simp [h2]
    · simp [h2]
  · simp [h]

@[simp] theorem cmp_setCell_rs (t : Tree) (p : Nat) (c : Cell) : (t.setCell p c).rs = t.rs := rfl
@[simp] theorem cmp_setCell_maxDepth (t : Tree) (p : Nat) (c : Cell) :
    (t.setCell p c).maxDepth = t.maxDepth := rfl
@[simp] theorem cmp_setCell_size (t : Tree) (p : Nat) (c : Cell) : (t.setCell p c).size = t.size := rfl
@[simp] theorem cmp_setCell_cells_size (t : Tree) (p : Nat) (c : Cell) :
    (t.setCell p c).cells.size = t.cells.size := by
  simp [Tree.setCell]

theorem cmp_isUnused_false_iff (t : Tree) (p : Nat) :
    t.isUnused p = false ↔ ∃ kv, t.cell p = some kv := by
  unfold Tree.isUnused
  cases h : t.cell p <;> simp

theorem cmp_isUnused_true_iff (t : Tree) (p : Nat) : t.isUnused p = true ↔ t.cell p = none := by
  unfold Tree.isUnused
  cases h : t.cell p <;> simp

theorem cmp_keyAt_of_cell {t : Tree} {p : Nat} {kv : Nat × Int} (h : t.cell p = some kv) :
    t.keyAt p = kv.1 := by
  unfold Tree.keyAt
  rw [h]

/-! ## `listRange` -/

theorem cmp_listRange_empty (t : Tree) {lo hi : Nat} (h : hi ≤ lo) : t.listRange lo hi = [] := by
  unfold Tree.listRange
  have : hi - lo = 0 := by omega
  rw [this]; rfl

theorem cmp_listRange_split (t : Tree) {lo mid hi : Nat} (h1 : lo ≤ mid) (h2 : mid ≤ hi) :
    t.listRange lo hi = t.listRange lo mid ++ t.listRange mid hi := by
  unfold Tree.listRange
  have e : hi - lo = (mid - lo) + (hi - mid) := by omega
  have e2 : mid = lo + (mid - lo) := by omega
  rw [e, ← List.range'_append_1, List.filterMap_append, ← e2]

theorem cmp_filterMap_congr {α β : Type} {f g : α → Option β} :
    ∀ {l : List α}, (∀ a ∈ l, f a = g a) → l.filterMap f = l.filterMap g
  | [], _ => rfl
  | a :: l, h => by
    have ih := cmp_filterMap_congr (f := f) (g := g) (l := l)
      (fun b hb => h b (List.mem_cons_of_mem _ hb))
    rw [List.filterMap_cons, List.filterMap_cons, h a List.mem_cons_self, ih]

theorem cmp_listRange_congr {t t' : Tree} {lo hi : Nat}
    (h : ∀ p, lo ≤ p → p < hi → t.cell p = t'.cell p) : t.listRange lo hi = t'.listRange lo hi := by
  unfold Tree.listRange
  apply cmp_filterMap_congr
  intro p hp
  rw [List.mem_range'_1] at hp
  exact h p hp.1 (by omega)

theorem cmp_mem_listRange {t : Tree} {lo hi : Nat} {q : Nat × Int} :
    q ∈ t.listRange lo hi ↔ ∃ p, lo ≤ p ∧ p < hi ∧ t.cell p = some q := by
  unfold Tree.listRange
  rw [List.mem_filterMap]
  constructor
  · rintro ⟨p, hp, hq⟩
    rw [List.mem_range'_1] at hp
    exact ⟨p, hp.1, by omega, hq⟩
  · rintro ⟨p, h1, h2, hq⟩
    exact ⟨p, by rw [List.mem_range'_1]; omega, hq⟩

theorem cmp_listRange_none {t : Tree} {lo hi : Nat}
    (h : ∀ p, lo ≤ p → p < hi → t.cell p = none) : t.listRange lo hi = [] := by
  cases hl : t.listRange lo hi with
  | nil => rfl
  | cons q l =>
    have : q ∈ t.listRange lo hi := by rw [hl]; exact List.mem_cons_self
    obtain ⟨p, h1, h2, hq⟩ := cmp_mem_listRange.1 this
    rw [h p h1 h2] at hq
    cases hq

theorem cmp_listRange_single_some {t : Tree} {p : Nat} {kv : Nat × Int} (h : t.cell p = some kv) :
    t.listRange p (p + 1) = [kv] := by
  unfold Tree.listRange
  have : p + 1 - p = 1 := by omega
  rw [this]
  simp [List.range', h]

/-- a run of free slots at the right end of a range does not change the listing -/
theorem cmp_listRange_trim {t : Tree} {F a b : Nat} (hab : a ≤ b)
    (h : ∀ p, a ≤ p → p < b → t.cell p = none) : t.listRange F b = t.listRange F a := by
  by_cases hF : F ≤ a
  · rw [cmp_listRange_split t hF hab, cmp_listRange_none h, List.append_nil]
  · rw [cmp_listRange_empty t (by omega : a ≤ F)]
    exact cmp_listRange_none (fun p h1 h2 => h p (by omega) h2)

/-- the listing up to and including a used slot -/
theorem cmp_listRange_snoc {t : Tree} {F p : Nat} {kv : Nat × Int} (hF : F ≤ p)
    (h : t.cell p = some kv) : t.listRange F (p + 1) = t.listRange F p ++ [kv] := by
  rw [cmp_listRange_split t hF (Nat.le_succ p), cmp_listRange_single_some h]

/-- the listing from a used slot on -/
theorem cmp_listRange_cons {t : Tree} {p hi : Nat} {kv : Nat × Int} (hp : p < hi)
    (h : t.cell p = some kv) : t.listRange p hi = kv :: t.listRange (p + 1) hi := by
  rw [cmp_listRange_split t (Nat.le_succ p) (by omega : p + 1 ≤ hi), cmp_listRange_single_some h]
  rfl

/-! ## `countRange` -/

theorem cmp_length_filterMap_cell (t : Tree) (l : List Nat) :
    (l.filterMap t.cell).length = (l.filter (fun p => !t.isUnused p)).length := by
  induction l with
  | nil => rfl
  | cons a l ih =>
    unfold Tree.isUnused at ih ⊢
    cases h : t.cell a <;> simp [h, ih]

theorem cmp_countRange_eq_length (t : Tree) (lo hi : Nat) :
    t.countRange lo hi = (t.listRange lo hi).length := by
  unfold Tree.countRange Tree.listRange
  exact (cmp_length_filterMap_cell t _).symm

theorem cmp_countRange_zero {t : Tree} {lo hi : Nat} (h : t.countRange lo hi = 0) :
    ∀ p, lo ≤ p → p < hi → t.cell p = none := by
  intro p h1 h2
  rw [cmp_countRange_eq_length] at h
  have hl : t.listRange lo hi = [] := List.eq_nil_of_length_eq_zero h
  cases hc : t.cell p with
  | none => rfl
  | some kv =>
    have : kv ∈ t.listRange lo hi := cmp_mem_listRange.2 ⟨p, h1, h2, hc⟩
    rw [hl] at this
    cases this

/-! ## `skipDown` -/

theorem cmp_skipDown_le (t : Tree) : ∀ p, t.skipDown p ≤ p
  | 0 => Nat.le_refl 0
  | p + 1 => by
    unfold Tree.skipDown
    split
    · exact Nat.le_succ_of_le (cmp_skipDown_le t p)
    · exact Nat.le_refl _

theorem cmp_skipDown_used (t : Tree) : ∀ p, t.skipDown p = 0 ∨ t.isUnused (t.skipDown p) = false
  | 0 => Or.inl rfl
  | p + 1 => by
    unfold Tree.skipDown
    split
    · exact cmp_skipDown_used t p
    · next h => right; simpa using h

theorem cmp_skipDown_none (t : Tree) : ∀ p q, t.skipDown p < q → q ≤ p → t.cell q = none
  | 0, q, h1, h2 => by omega
  | p + 1, q, h1, h2 => by
    unfold Tree.skipDown at h1
    split at h1
    · next h =>
      by_cases hq : q = p + 1
      · subst hq; exact (cmp_isUnused_true_iff t _).1 h
      · exact cmp_skipDown_none t p q h1 (by omega)
    · omega

/-! ## `FrameOn` -/

theorem cmp_frameOn_refl (t : Tree) (lo hi : Nat) : t.FrameOn t lo hi :=
  ⟨rfl, rfl, rfl, rfl, fun _ _ => rfl⟩

theorem cmp_frameOn_trans {t t1 t2 : Tree} {lo hi lo' hi' : Nat}
    (h1 : t.FrameOn t1 lo hi) (h2 : t1.FrameOn t2 lo' hi') (hlo : lo ≤ lo') (hhi : hi' ≤ hi) :
    t.FrameOn t2 lo hi := by
  obtain ⟨a1, a2, a3, a4, a5⟩ := h1
  obtain ⟨b1, b2, b3, b4, b5⟩ := h2
  refine ⟨b1.trans a1, b2.trans a2, b3.trans a3, b4.trans a4, ?_⟩
  intro p hp
  rw [b5 p (by omega), a5 p hp]

end Tree

open Tree

/-! ## `compactMove` -/

theorem cmp_compactMove_rs (t : Tree) (last fu : Nat) : (compactMove t last fu).rs = t.rs := by
  unfold compactMove; split <;> rfl

theorem cmp_compactMove_maxDepth (t : Tree) (last fu : Nat) :
    (compactMove t last fu).maxDepth = t.maxDepth := by
  unfold compactMove; split <;> rfl

theorem cmp_compactMove_size (t : Tree) (last fu : Nat) : (compactMove t last fu).size = t.size := by
  unfold compactMove; split <;> rfl

theorem cmp_compactMove_cells_size (t : Tree) (last fu : Nat) :
    (compactMove t last fu).cells.size = t.cells.size := by
  unfold compactMove; split <;> simp

/-- one move, uniformly in `last = fu` / `last ≠ fu` -/
theorem cmp_compactMove_cell (t : Tree) {last fu : Nat} (hl : last < t.cells.size)
    (hf : fu < t.cells.size) (p : Nat) :
    (compactMove t last fu).cell p =
      if p = fu then t.cell last else if p = last then none else t.cell p := by
  unfold compactMove
  by_cases h : last = fu
  · subst h
    simp only [ne_eq, not_true_eq_false, if_false]
    by_cases hp : p = last
    · simp [hp]
    · simp [hp]
  · simp only [ne_eq, h, not_false_eq_true, if_true]
    rw [cmp_cell_setCell, cmp_cell_setCell, cmp_setCell_cells_size]
    by_cases hp : p = fu
    · subst hp
      have : ¬ (last = p ∧ last < t.cells.size) := fun c => h c.1
      simp [this, hf]
    · by_cases hp2 : p = last
      · subst hp2
        simp [hp, hl]
      · have a : ¬ (last = p ∧ last < t.cells.size) := fun c => hp2 c.1.symm
        have b : ¬ (fu = p ∧ fu < t.cells.size) := fun c => hp c.1.symm
        simp [a, b, hp, hp2]

theorem cmp_compactMove_frame (t : Tree) {F last fu : Nat} (hl : last < t.cells.size)
    (hf : fu < t.cells.size) (hFl : F ≤ last) (hlf : last ≤ fu) :
    t.FrameOn (compactMove t last fu) F fu := by
  refine ⟨cmp_compactMove_rs .., cmp_compactMove_maxDepth .., cmp_compactMove_size ..,
    cmp_compactMove_cells_size .., ?_⟩
  intro p hp
  rw [cmp_compactMove_cell t hl hf]
  have a : p ≠ fu := by omega
  have b : p ≠ last := by omega
  simp [a, b]

/-! ## `SMap.set` in the middle -/

theorem SMap.cmp_set_append_mid (key : Nat) (value : Int) :
    ∀ (xs ys : SMap), (∀ q ∈ xs, q.1 < key) → (∀ q ∈ ys, key < q.1) →
      SMap.set (xs ++ ys) key value = xs ++ (key, value) :: ys
  | [], [], _, _ => rfl
  | [], (k, x) :: ys, _, h2 => by
    have : key < k := h2 (k, x) List.mem_cons_self
    simp [SMap.set, this]
  | (k, x) :: xs, ys, h1, h2 => by
    have hk : k < key := h1 (k, x) List.mem_cons_self
    have a : ¬ key < k := by omega
    have b : ¬ key = k := by omega
    have ih := SMap.cmp_set_append_mid key value xs ys
      (fun q hq => h1 q (List.mem_cons_of_mem _ hq)) h2
    simp only [List.cons_append, SMap.set, a, b, if_false, ih]

end PPLV.COTree
