import PPLV.COTree.ProofsRebFillBasic
import PPLV.COTree.ProofsMap

/-!
# C16 — bridge from the full tree (`Tree`, stage 2) to the `HoleArray` of stage 1

`Tree.toHoleArray` keeps the `indexes[]` part of the slots `1 … rs`.  The stage-1 theorems
(`bisect_in_spec`, `bisect_near_spec`, `bisect_spec` in `Props/C16.lean`) need `SortedUsed` and
`used`; here they are derived from the stage-2 invariant.
-/
namespace PPLV.COTree
open FillB

theorem toHoleArray_rs (t : Tree) : t.toHoleArray.rs = t.rs := by
  simp [Tree.toHoleArray, HoleArray.rs]

theorem toHoleArray_cell (t : Tree) (p : Nat) (h1 : 1 ≤ p) (h2 : p ≤ t.rs) :
    t.toHoleArray.cell p = (t.cell p).map Prod.fst := by
  unfold HoleArray.cell Tree.toHoleArray
  have h0 : p ≠ 0 := by omega
  have hlt : p - 1 < t.rs := by omega
  have e : p - 1 + 1 = p := by omega
  rw [if_neg h0]
  simp [Array.getD_eq_getD_getElem?, hlt, e]

theorem toHoleArray_isHole (t : Tree) (p : Nat) (h1 : 1 ≤ p) (h2 : p ≤ t.rs) :
    t.toHoleArray.isHole p = t.isUnused p := by
  unfold HoleArray.isHole Tree.isUnused
  rw [toHoleArray_cell t p h1 h2]
  cases t.cell p <;> rfl

theorem toHoleArray_used (t : Tree) (p : Nat) :
    t.toHoleArray.used p ↔ (1 ≤ p ∧ p ≤ t.rs ∧ t.isUnused p = false) := by
  unfold HoleArray.used
  rw [toHoleArray_rs]
  constructor
  · rintro ⟨h1, h2, h3⟩
    exact ⟨h1, h2, by rw [← toHoleArray_isHole t p h1 h2]; exact h3⟩
  · rintro ⟨h1, h2, h3⟩
    exact ⟨h1, h2, by rw [toHoleArray_isHole t p h1 h2]; exact h3⟩

theorem toHoleArray_key (t : Tree) (p : Nat) (h : t.toHoleArray.used p) :
    t.toHoleArray.key p = t.keyAt p := by
  obtain ⟨h1, h2, _⟩ := (toHoleArray_used t p).mp h
  unfold HoleArray.key Tree.keyAt
  rw [toHoleArray_cell t p h1 h2]
  cases t.cell p with
  | none => rfl
  | some kv => rfl

/-- a used slot holds `(keyAt, valAt)` -/
theorem Bridge.cell_of_used (t : Tree) (p : Nat) (h : t.isUnused p = false) :
    t.cell p = some (t.keyAt p, t.valAt p) := by
  unfold Tree.isUnused at h
  unfold Tree.keyAt Tree.valAt
  cases hc : t.cell p with
  | none => rw [hc] at h; cases h
  | some kv => rfl

/-- slot order is key order -/
theorem Bridge.keyAt_lt_of_sorted (t : Tree) (hs : SMap.Sorted t.toList) (p q : Nat) (h1 : 1 ≤ p)
    (h2 : p < q) (h3 : q ≤ t.rs) (hp : t.isUnused p = false) (hq : t.isUnused q = false) :
    t.keyAt p < t.keyAt q := by
  have e : t.toList = t.listRange 1 q ++ t.listRange q (t.rs + 1) :=
    listRange_split t 1 q (t.rs + 1) (by omega) (by omega)
  unfold SMap.Sorted at hs
  rw [e, List.pairwise_append] at hs
  exact hs.2.2 _ ((mem_listRange t 1 q _).mpr ⟨p, h1, h2, Bridge.cell_of_used t p hp⟩) _
    ((mem_listRange t q (t.rs + 1) _).mpr ⟨q, Nat.le_refl _, by omega, Bridge.cell_of_used t q hq⟩)

theorem sortedUsed_of_sorted (t : Tree) (hs : SMap.Sorted t.toList) : t.toHoleArray.SortedUsed := by
  intro p q hp hq hlt
  rw [toHoleArray_key t p hp, toHoleArray_key t q hq]
  obtain ⟨p1, _, p3⟩ := (toHoleArray_used t p).mp hp
  obtain ⟨_, q2, q3⟩ := (toHoleArray_used t q).mp hq
  exact Bridge.keyAt_lt_of_sorted t hs p q p1 hlt q2 p3 q3

theorem has_iff_stored (t : Tree) (k : Nat) :
    t.toHoleArray.has k ↔ SMap.stored t.toList k = true := by
  unfold HoleArray.has SMap.stored
  rw [SMap.find?_isSome_iff_mem]
  constructor
  · rintro ⟨p, hp, hk⟩
    rw [toHoleArray_key t p hp] at hk
    obtain ⟨p1, p2, p3⟩ := (toHoleArray_used t p).mp hp
    refine ⟨(t.keyAt p, t.valAt p), ?_, hk⟩
    exact (mem_listRange t 1 (t.rs + 1) _).mpr ⟨p, p1, by omega, Bridge.cell_of_used t p p3⟩
  · rintro ⟨kv, hmem, hk⟩
    obtain ⟨p, p1, p2, hc⟩ := (mem_listRange t 1 (t.rs + 1) kv).mp hmem
    have hu : t.isUnused p = false := by unfold Tree.isUnused; rw [hc]; rfl
    have hused : t.toHoleArray.used p := (toHoleArray_used t p).mpr ⟨p1, by omega, hu⟩
    refine ⟨p, hused, ?_⟩
    rw [toHoleArray_key t p hused]
    unfold Tree.keyAt; rw [hc]; exact hk

theorem Bridge.filterMap_congr' {α β : Type} (f g : α → Option β) :
    ∀ l : List α, (∀ x ∈ l, f x = g x) → l.filterMap f = l.filterMap g
  | [], _ => rfl
  | a :: l, h => by
    rw [List.filterMap_cons, List.filterMap_cons, h a (by simp),
      Bridge.filterMap_congr' f g l (fun x hx => h x (by simp [hx]))]

/-- the in-order key list of stage 1 is the key list of the ordered map -/
theorem usedKeys_eq_keys (t : Tree) : t.toHoleArray.usedKeys = SMap.keys t.toList := by
  unfold HoleArray.usedKeys SMap.keys Tree.toList Tree.listRange
  rw [toHoleArray_rs]
  have e : t.rs + 1 - 1 = t.rs := by omega
  rw [e, List.range'_eq_map_range, List.filterMap_map, List.map_filterMap]
  apply Bridge.filterMap_congr'
  intro i hi
  rw [List.mem_range] at hi
  simp [Tree.toHoleArray, Array.getD_eq_getD_getElem?, hi, Nat.add_comm]

end PPLV.COTree
