import PPLV.COTree.Model

/-! # `SMap` behaves as an ordered map whose unstored entries read `0` (core Lean only) -/
namespace PPLV.COTree.SMap

/-! ### order invariant -/

theorem sorted_nil : Sorted ([] : SMap) := List.Pairwise.nil

theorem sorted_cons {p : Nat × Int} {t : SMap} :
    Sorted (p :: t) ↔ (∀ q ∈ t, p.1 < q.1) ∧ Sorted t := List.pairwise_cons

theorem Sorted.tail {p : Nat × Int} {t : SMap} (h : Sorted (p :: t)) : Sorted t :=
  (sorted_cons.mp h).2

theorem Sorted.head_lt {p : Nat × Int} {t : SMap} (h : Sorted (p :: t)) :
    ∀ q ∈ t, p.1 < q.1 := (sorted_cons.mp h).1

theorem Sorted.filter {m : SMap} (f : Nat × Int → Bool) (h : Sorted m) : Sorted (m.filter f) :=
  List.Pairwise.filter f h

theorem sortedB_iff : ∀ m : SMap, sortedB m = true ↔ Sorted m
  | [] => by simp [sortedB, sorted_nil]
  | [p] => by simp [sortedB, Sorted]
  | (k, v) :: (k', v') :: t => by
    have ih := sortedB_iff ((k', v') :: t)
    simp only [sortedB, Bool.and_eq_true, decide_eq_true_eq, ih]
    constructor
    · rintro ⟨h1, h2⟩
      refine sorted_cons.mpr ⟨?_, h2⟩
      intro q hq
      rcases List.mem_cons.mp hq with rfl | hq
      · exact h1
      · exact Nat.lt_trans h1 (h2.head_lt q hq)
    · intro h
      exact ⟨h.head_lt _ (List.mem_cons_self ..), h.tail⟩

theorem belowB_iff (m : SMap) (n : Nat) : belowB m n = true ↔ Below m n := by
  simp [belowB, Below, List.all_eq_true]

/-! ### `get`, `find?` -/

@[simp] theorem get_nil (i : Nat) : get [] i = 0 := rfl
@[simp] theorem get_cons (k : Nat) (v : Int) (t : SMap) (i : Nat) :
    get ((k, v) :: t) i = if k = i then v else get t i := rfl

theorem get_eq_zero_of_not_mem : ∀ (m : SMap) (i : Nat), (∀ p ∈ m, p.1 ≠ i) → get m i = 0
  | [], _, _ => rfl
  | (k, v) :: t, i, h => by
    have hk : k ≠ i := h (k, v) (List.mem_cons_self ..)
    simp only [get_cons, hk, if_false]
    exact get_eq_zero_of_not_mem t i (fun p hp => h p (List.mem_cons_of_mem _ hp))

theorem get_eq_zero_of_below {m : SMap} {n i : Nat} (h : Below m n) (hi : n ≤ i) : get m i = 0 :=
  get_eq_zero_of_not_mem m i (fun p hp => by have := h p hp; omega)

theorem Sorted.get_tail_zero {k : Nat} {v : Int} {t : SMap} (h : Sorted ((k, v) :: t)) {i : Nat}
    (hi : i ≤ k) : get t i = 0 :=
  get_eq_zero_of_not_mem t i (fun p hp => by have := h.head_lt p hp; simp at this; omega)

theorem find?_some_get : ∀ (m : SMap) (i : Nat) (v : Int), find? m i = some v → get m i = v
  | [], _, _, h => by simp [find?] at h
  | (k, x) :: t, i, v, h => by
    unfold find? at h
    by_cases hk : k = i
    · simp only [hk, if_true, Option.some.injEq] at h
      simp [hk, h]
    · simp only [hk, if_false] at h
      simp only [get_cons, hk, if_false]
      exact find?_some_get t i v h

theorem find?_none_not_mem : ∀ (m : SMap) (i : Nat), find? m i = none → ∀ p ∈ m, p.1 ≠ i
  | [], _, _ => by simp
  | (k, x) :: t, i, h => by
    unfold find? at h
    by_cases hk : k = i
    · simp [hk] at h
    · simp only [hk, if_false] at h
      intro p hp
      rcases List.mem_cons.mp hp with rfl | hp
      · exact hk
      · exact find?_none_not_mem t i h p hp

theorem find?_none_get (m : SMap) (i : Nat) (h : find? m i = none) : get m i = 0 :=
  get_eq_zero_of_not_mem m i (find?_none_not_mem m i h)

theorem find?_isSome_iff_mem : ∀ (m : SMap) (i : Nat), (find? m i).isSome = true ↔ ∃ p ∈ m, p.1 = i
  | [], _ => by simp [find?]
  | (k, x) :: t, i => by
    unfold find?
    by_cases hk : k = i
    · simp [hk]
    · simp only [hk, if_false, find?_isSome_iff_mem t i, List.mem_cons]
      constructor
      · rintro ⟨p, hp, h⟩; exact ⟨p, Or.inr hp, h⟩
      · rintro ⟨p, hp | hp, h⟩
        · subst hp; exact absurd h hk
        · exact ⟨p, hp, h⟩

/-- a stored entry is what `get` reads (no duplicates in a sorted map) -/
theorem Sorted.get_of_mem : ∀ {m : SMap}, Sorted m → ∀ {k : Nat} {v : Int}, (k, v) ∈ m → get m k = v
  | [], _, _, _, h => by simp at h
  | (k', v') :: t, hs, k, v, h => by
    rcases List.mem_cons.mp h with h | h
    · cases h; simp
    · have := hs.head_lt _ h
      have hne : k' ≠ k := by simp at this; omega
      simp only [get_cons, hne, if_false]
      exact hs.tail.get_of_mem h

/-- a nonzero reading comes from a stored entry -/
theorem mem_of_get_ne_zero : ∀ (m : SMap) (i : Nat), get m i ≠ 0 → (i, get m i) ∈ m
  | [], _, h => by simp at h
  | (k, v) :: t, i, h => by
    by_cases hk : k = i
    · subst hk; simp
    · simp only [get_cons, hk, if_false] at h ⊢
      exact List.mem_cons_of_mem _ (mem_of_get_ne_zero t i h)

/-! ### `set` (insert) -/

theorem get_set : ∀ (m : SMap) (i : Nat) (v : Int) (j : Nat),
    get (set m i v) j = if j = i then v else get m j
  | [], i, v, j => by
    simp only [set, get_cons, get_nil]
    by_cases h : i = j <;> simp [h, eq_comm]
  | (k, x) :: t, i, v, j => by
    unfold set
    by_cases h1 : i < k
    · simp only [h1, if_true, get_cons]
      by_cases h : i = j
      · simp [h]
      · have : ¬ j = i := fun e => h e.symm
        simp [h, this]
    · simp only [h1, if_false]
      by_cases h2 : i = k
      · subst h2
        simp only [if_true, get_cons]
        by_cases h : i = j
        · simp [h]
        · have : ¬ j = i := fun e => h e.symm
          simp [h, this]
      · simp only [h2, if_false, get_cons, get_set t i v j]
        by_cases h : k = j
        · have : ¬ j = i := by omega
          simp [h, this]
        · simp [h]

theorem mem_set : ∀ (m : SMap) (i : Nat) (v : Int) (p : Nat × Int),
    p ∈ set m i v → p = (i, v) ∨ p ∈ m
  | [], i, v, p, h => by simp [set] at h; exact Or.inl h
  | (k, x) :: t, i, v, p, h => by
    unfold set at h
    by_cases h1 : i < k
    · simp only [h1, if_true] at h
      rcases List.mem_cons.mp h with h | h
      · exact Or.inl h
      · exact Or.inr h
    · simp only [h1, if_false] at h
      by_cases h2 : i = k
      · simp only [h2, if_true] at h
        rcases List.mem_cons.mp h with h | h
        · left; rw [h, h2]
        · exact Or.inr (List.mem_cons_of_mem _ h)
      · simp only [h2, if_false] at h
        rcases List.mem_cons.mp h with h | h
        · right; rw [h]; exact List.mem_cons_self ..
        · rcases mem_set t i v p h with h | h
          · exact Or.inl h
          · exact Or.inr (List.mem_cons_of_mem _ h)

theorem sorted_set : ∀ (m : SMap) (i : Nat) (v : Int), Sorted m → Sorted (set m i v)
  | [], i, v, _ => by simp [set, Sorted]
  | (k, x) :: t, i, v, hs => by
    unfold set
    by_cases h1 : i < k
    · simp only [h1, if_true]
      refine sorted_cons.mpr ⟨?_, hs⟩
      intro q hq
      rcases List.mem_cons.mp hq with rfl | hq
      · exact h1
      · exact Nat.lt_trans h1 (hs.head_lt q hq)
    · simp only [h1, if_false]
      by_cases h2 : i = k
      · simp only [h2, if_true]
        exact sorted_cons.mpr ⟨hs.head_lt, hs.tail⟩
      · simp only [h2, if_false]
        refine sorted_cons.mpr ⟨?_, sorted_set t i v hs.tail⟩
        intro q hq
        rcases mem_set t i v q hq with rfl | hq
        · show k < i; omega
        · exact hs.head_lt q hq

theorem below_set {m : SMap} {n i : Nat} (v : Int) (h : Below m n) (hi : i < n) :
    Below (set m i v) n := by
  intro p hp
  rcases mem_set m i v p hp with rfl | hp
  · exact hi
  · exact h p hp

theorem find?_set_self : ∀ (m : SMap) (i : Nat) (v : Int), find? (set m i v) i = some v
  | [], i, v => by simp [set, find?]
  | (k, x) :: t, i, v => by
    unfold set
    by_cases h1 : i < k
    · simp [h1, find?]
    · simp only [h1, if_false]
      by_cases h2 : i = k
      · simp [h2, find?]
      · have : ¬ k = i := fun e => h2 e.symm
        simp [h2, find?, this, find?_set_self t i v]

/-! ### key filters: `erase`, `resetFrom`, `resetRange`, `restrict` -/

theorem get_filter_key (g : Nat → Bool) : ∀ (m : SMap) (i : Nat),
    get (m.filter (fun p => g p.1)) i = if g i then get m i else 0
  | [], i => by simp
  | (k, v) :: t, i => by
    have ih := get_filter_key g t i
    simp only [List.filter_cons]
    grind [get_cons]

theorem get_erase (m : SMap) (i j : Nat) : get (erase m i) j = if j = i then 0 else get m j := by
  unfold erase
  rw [get_filter_key (fun k => k != i)]
  by_cases h : j = i <;> simp [h]

theorem get_resetFrom (m : SMap) (i j : Nat) :
    get (resetFrom m i) j = if j < i then get m j else 0 := by
  unfold resetFrom
  rw [get_filter_key (fun k => decide (k < i))]
  simp

theorem get_resetRange (m : SMap) (lo hi j : Nat) :
    get (resetRange m lo hi) j = if lo ≤ j ∧ j < hi then 0 else get m j := by
  unfold resetRange
  rw [get_filter_key (fun k => decide (k < lo) || decide (hi ≤ k))]
  by_cases h : lo ≤ j ∧ j < hi
  · have : ¬ (j < lo ∨ hi ≤ j) := by omega
    simp [h, this]
  · have : (j < lo ∨ hi ≤ j) := by omega
    simp [h, this]

theorem get_restrict (m : SMap) (lo hi j : Nat) :
    get (restrict m lo hi) j = if lo ≤ j ∧ j < hi then get m j else 0 := by
  unfold restrict
  rw [get_filter_key (fun k => decide (lo ≤ k) && decide (k < hi))]
  simp

theorem find?_erase_self (m : SMap) (i : Nat) : find? (erase m i) i = none := by
  cases h : find? (erase m i) i with
  | none => rfl
  | some v =>
    have : (find? (erase m i) i).isSome = true := by simp [h]
    obtain ⟨p, hp, hpi⟩ := (find?_isSome_iff_mem _ _).mp this
    simp [erase, List.mem_filter] at hp
    exact absurd hpi hp.2

theorem Below.filter {m : SMap} {n : Nat} (f : Nat × Int → Bool) (h : Below m n) :
    Below (m.filter f) n := fun p hp => h p (List.mem_filter.mp hp).1

theorem below_resetFrom (m : SMap) (i : Nat) : Below (resetFrom m i) i := by
  intro p hp
  simpa using (List.mem_filter.mp hp).2

theorem Below.mono {m : SMap} {n n' : Nat} (h : Below m n) (hn : n ≤ n') : Below m n' :=
  fun p hp => Nat.lt_of_lt_of_le (h p hp) hn

/-! ### `touch`, `mapVals`, `addAt` -/

theorem get_touch (m : SMap) (i j : Nat) : get (touch m i) j = get m j := by
  unfold touch
  cases h : find? m i with
  | some v => rfl
  | none =>
    simp only [get_set]
    by_cases hj : j = i
    · subst hj; simp [find?_none_get m j h]
    · simp [hj]

theorem sorted_touch (m : SMap) (i : Nat) (h : Sorted m) : Sorted (touch m i) := by
  unfold touch
  cases find? m i with
  | some v => exact h
  | none => exact sorted_set m i 0 h

theorem below_touch {m : SMap} {n i : Nat} (h : Below m n) (hi : i < n) : Below (touch m i) n := by
  unfold touch
  cases find? m i with
  | some v => exact h
  | none => exact below_set 0 h hi

theorem stored_touch (m : SMap) (i : Nat) : stored (touch m i) i = true := by
  unfold touch stored
  cases h : find? m i with
  | some v => simp [h]
  | none => simp [find?_set_self]

theorem get_mapVals (f : Int → Int) (hf : f 0 = 0) : ∀ (m : SMap) (i : Nat),
    get (mapVals f m) i = f (get m i)
  | [], i => by simp [mapVals, hf]
  | (k, v) :: t, i => by
    have ih := get_mapVals f hf t i
    simp only [mapVals, List.map_cons, get_cons] at ih ⊢
    by_cases hk : k = i <;> simp [hk, ih]

theorem get_mapValsIn (f : Int → Int) (hf : f 0 = 0) (lo hi : Nat) : ∀ (m : SMap) (i : Nat),
    get (mapValsIn f lo hi m) i = if lo ≤ i ∧ i < hi then f (get m i) else get m i
  | [], i => by simp [mapValsIn, hf]
  | (k, v) :: t, i => by
    have ih := get_mapValsIn f hf lo hi t i
    simp only [mapValsIn, List.map_cons, get_cons] at ih ⊢
    by_cases hk : k = i
    · subst hk; simp
    · simp [hk, ih]

theorem sorted_map_key (φ : Nat → Nat) (ψ : Nat × Int → Int) {m : SMap}
    (hφ : ∀ p ∈ m, ∀ q ∈ m, p.1 < q.1 → φ p.1 < φ q.1) (h : Sorted m) :
    Sorted (m.map (fun p => (φ p.1, ψ p))) := by
  unfold Sorted at h ⊢
  rw [List.pairwise_map]
  induction h with
  | nil => exact List.Pairwise.nil
  | @cons a l hal _ ih =>
    refine List.Pairwise.cons ?_ (ih ?_)
    · intro q hq
      exact hφ a (List.mem_cons_self ..) q (List.mem_cons_of_mem _ hq) (hal q hq)
    · intro p hp q hq hpq
      exact hφ p (List.mem_cons_of_mem _ hp) q (List.mem_cons_of_mem _ hq) hpq

theorem sorted_mapVals (f : Int → Int) {m : SMap} (h : Sorted m) : Sorted (mapVals f m) :=
  sorted_map_key id (fun p => f p.2) (fun _ _ _ _ h => h) h

theorem sorted_mapValsIn (f : Int → Int) (lo hi : Nat) {m : SMap} (h : Sorted m) :
    Sorted (mapValsIn f lo hi m) :=
  sorted_map_key id (fun p => if lo ≤ p.1 ∧ p.1 < hi then f p.2 else p.2) (fun _ _ _ _ h => h) h

theorem below_map_key (φ : Nat → Nat) (ψ : Nat × Int → Int) {m : SMap} {n n' : Nat}
    (hφ : ∀ k, k < n → φ k < n') (h : Below m n) :
    Below (m.map (fun p => (φ p.1, ψ p))) n' := by
  intro p hp
  obtain ⟨q, hq, rfl⟩ := List.mem_map.mp hp
  exact hφ _ (h q hq)

theorem get_addAt (m : SMap) (i : Nat) (n : Int) (j : Nat) :
    get (addAt m i n) j = if j = i then get m i + n else get m j := by
  unfold addAt
  dsimp only
  split
  · rw [get_erase]; grind
  · rw [get_set]

theorem sorted_addAt (m : SMap) (i : Nat) (n : Int) (h : Sorted m) : Sorted (addAt m i n) := by
  unfold addAt
  dsimp only
  split
  · exact h.filter _
  · exact sorted_set _ _ _ h

theorem below_addAt {m : SMap} {s i : Nat} (n : Int) (h : Below m s) (hi : i < s) :
    Below (addAt m i n) s := by
  unfold addAt
  dsimp only
  split
  · exact h.filter _
  · exact below_set _ h hi

/-! ### index shifts -/

theorem get_shiftUp : ∀ (m : SMap) (i n j : Nat),
    get (shiftUp m i n) j = if j < i then get m j else if j < i + n then 0 else get m (j - n)
  | [], i, n, j => by simp [shiftUp]
  | (k, v) :: t, i, n, j => by
    have ih := get_shiftUp t i n j
    simp only [shiftUp, List.map_cons, get_cons] at ih ⊢
    rw [ih]
    by_cases h3 : k = j - n
    · subst h3; grind
    · grind

theorem sorted_shiftUp (m : SMap) (i n : Nat) (h : Sorted m) : Sorted (shiftUp m i n) := by
  apply sorted_map_key (fun k => if i ≤ k then k + n else k) (fun p => p.2) _ h
  intro p _ q _ hpq
  grind

theorem below_shiftUp {m : SMap} {s : Nat} (i n : Nat) (h : Below m s) :
    Below (shiftUp m i n) (s + n) := by
  apply below_map_key (fun k => if i ≤ k then k + n else k) (fun p => p.2) _ h
  intro k hk
  grind

theorem get_deleteShift (m : SMap) (i j : Nat) :
    get (deleteShift m i) j = if j < i then get m j else get m (j + 1) := by
  unfold deleteShift erase
  induction m with
  | nil => simp
  | cons p t ih =>
    obtain ⟨k, v⟩ := p
    simp only [List.filter_cons]
    by_cases hk : k = i
    · subst hk
      simp only [bne_self_eq_false, Bool.false_eq_true, if_false, ih, get_cons]
      grind
    · have hne : (k != i) = true := by simp [hk]
      simp only [hne, if_true, List.map_cons, get_cons, ih]
      by_cases h3 : k = j + 1
      · subst h3; grind
      · grind

theorem sorted_deleteShift (m : SMap) (i : Nat) (h : Sorted m) : Sorted (deleteShift m i) := by
  unfold deleteShift
  apply sorted_map_key (fun k => if i < k then k - 1 else k) (fun p => p.2) _ (h.filter _)
  intro p hp q hq hpq
  have hp' : p.1 ≠ i := by simpa [erase, List.mem_filter] using (List.mem_filter.mp hp).2
  have hq' : q.1 ≠ i := by simpa [erase, List.mem_filter] using (List.mem_filter.mp hq).2
  grind

theorem below_deleteShift {m : SMap} {s : Nat} (i : Nat) (h : Below m s) (hi : i < s) :
    Below (deleteShift m i) (s - 1) := by
  intro p hp
  unfold deleteShift at hp
  obtain ⟨q, hq, rfl⟩ := List.mem_map.mp hp
  have hq1 : q.1 ≠ i := by simpa [erase] using (List.mem_filter.mp hq).2
  have hq2 := h q (List.mem_filter.mp hq).1
  grind

/-! ### `swap` -/

theorem get_swap (m : SMap) (i j k : Nat) :
    get (swap m i j) k = if k = i then get m j else if k = j then get m i else get m k := by
  unfold swap
  cases hi : find? m i with
  | some a =>
    have ga := find?_some_get m i a hi
    cases hj : find? m j with
    | some b =>
      have gb := find?_some_get m j b hj
      simp only [get_set]
      grind
    | none =>
      have gb := find?_none_get m j hj
      simp only [get_set, get_erase]
      grind
  | none =>
    have ga := find?_none_get m i hi
    cases hj : find? m j with
    | some b =>
      have gb := find?_some_get m j b hj
      simp only [get_set, get_erase]
      grind
    | none =>
      have gb := find?_none_get m j hj
      grind

theorem sorted_swap (m : SMap) (i j : Nat) (h : Sorted m) : Sorted (swap m i j) := by
  unfold swap
  cases find? m i <;> cases find? m j <;> simp only
  · exact h
  · exact sorted_set _ _ _ (h.filter _)
  · exact sorted_set _ _ _ (h.filter _)
  · exact sorted_set _ _ _ (sorted_set _ _ _ h)

theorem below_swap {m : SMap} {s i j : Nat} (h : Below m s) (hi : i < s) (hj : j < s) :
    Below (swap m i j) s := by
  unfold swap
  cases find? m i <;> cases find? m j <;> simp only
  · exact h
  · exact below_set _ (h.filter _) hi
  · exact below_set _ (h.filter _) hj
  · exact below_set _ (below_set _ h hi) hj

/-! ### `lowerBound`, `next` -/

theorem lowerBound_spec : ∀ (m : SMap) (i : Nat), Sorted m →
    match lowerBound m i with
    | none => ∀ p ∈ m, p.1 < i
    | some k => i ≤ k ∧ (∃ v, (k, v) ∈ m) ∧ ∀ p ∈ m, i ≤ p.1 → k ≤ p.1
  | [], i, _ => by simp [lowerBound]
  | (k, v) :: t, i, hs => by
    unfold lowerBound
    by_cases h : i ≤ k
    · rw [if_pos h]
      refine ⟨h, ⟨v, List.mem_cons_self ..⟩, ?_⟩
      intro p hp _
      rcases List.mem_cons.mp hp with rfl | hp
      · exact Nat.le_refl _
      · exact Nat.le_of_lt (hs.head_lt p hp)
    · rw [if_neg h]
      have ih := lowerBound_spec t i hs.tail
      cases hlb : lowerBound t i with
      | none =>
        simp only [hlb] at ih ⊢
        intro p hp
        rcases List.mem_cons.mp hp with rfl | hp
        · show k < i; omega
        · exact ih p hp
      | some k' =>
        simp only [hlb] at ih ⊢
        obtain ⟨h1, ⟨v', hv'⟩, h3⟩ := ih
        refine ⟨h1, ⟨v', List.mem_cons_of_mem _ hv'⟩, ?_⟩
        intro p hp hip
        rcases List.mem_cons.mp hp with rfl | hp
        · exact absurd hip h
        · exact h3 p hp hip

end PPLV.COTree.SMap
