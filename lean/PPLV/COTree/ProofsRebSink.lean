import PPLV.COTree.ProofsRebSink1

/-!
# C16 stage 2 — the `while (true)` of `CO_Tree::erase(tree_iterator)`: the hole sinks

`eraseSinkSpec : EraseSinkSpec`.  The loop state is read "with the hole cleared":
`(t.setCell cur none).toList` never changes, and no step changes which slots are used.  No Mathlib.
-/
namespace PPLV.COTree

open Tree

/-- one iteration: the pair of slot `q` goes to the hole `c`, the travelling key to `q` -/
def sinkStep (t : Tree) (c q : Nat) : Tree :=
  (t.setCell c (t.cell q)).setCell q (some (t.keyAt c, t.valAt q))

theorem eraseSink_succ (t : Tree) (f : Nat) (itr : TIt) :
    eraseSink t (f + 1) itr =
      if itr.isLeaf then some (t, itr)
      else if !t.isUnused itr.getLeftChild.i then
        eraseSink (sinkStep t itr.i (t.followRightChildrenWithValue itr.getLeftChild).i) f
          (t.followRightChildrenWithValue itr.getLeftChild)
      else if !t.isUnused itr.getLeftChild.getParent.getRightChild.i then
        eraseSink (sinkStep t itr.i
            (t.followLeftChildrenWithValue itr.getLeftChild.getParent.getRightChild).i) f
          (t.followLeftChildrenWithValue itr.getLeftChild.getParent.getRightChild)
      else some (t, itr.getLeftChild.getParent.getRightChild.getParent) := rfl

/-- what the loop started on the hole `(c, oc)` of `t` guarantees about its result -/
def SinkPost (t : Tree) (c oc : Nat) (t1 : Tree) (e oe : Nat) : Prop :=
  t.IsNode e oe ∧ t.isUnused e = false ∧
  c - (oc - 1) ≤ e - (oe - 1) ∧ e + (oe - 1) ≤ c + (oc - 1) ∧ (e ≠ c → oe < oc) ∧ (e = c → oe = oc) ∧
  t1.rs = t.rs ∧ t1.maxDepth = t.maxDepth ∧ t1.size = t.size ∧ t1.cells.size = t.cells.size ∧
  (∀ p, t1.isUnused p = t.isUnused p) ∧
  (∀ p, (p < c - (oc - 1) ∨ c + (oc - 1) < p) → t1.cell p = t.cell p) ∧
  (t1.setCell e none).toList = (t.setCell c none).toList ∧
  (∀ p, e - (oe - 1) ≤ p → p ≤ e + (oe - 1) → p ≠ e → t1.cell p = none)

theorem sinkStep_cell (t : Tree) {c q : Nat} (hsz : t.cells.size = t.rs + 2) (hc : c ≤ t.rs)
    (hq : q ≤ t.rs) (_hne : c ≠ q) (p : Nat) :
    (sinkStep t c q).cell p =
      if p = q then some (t.keyAt c, t.valAt q) else if p = c then t.cell q else t.cell p := by
  simp only [sinkStep, cell_setCell, setCell_cells_size]
  by_cases h1 : q = p
  · subst h1; simp [hsz]; omega
  · have h1' : ¬ p = q := fun h => h1 h.symm
    simp only [h1, h1', false_and, if_false]
    by_cases h2 : c = p
    · subst h2; simp [hsz]; omega
    · have h2' : ¬ p = c := fun h => h2 h.symm
      simp [h2, h2']

theorem sinkStep_isUnused (t : Tree) {c q : Nat} (hsz : t.cells.size = t.rs + 2) (hc : c ≤ t.rs)
    (hq : q ≤ t.rs) (hne : c ≠ q) (huc : t.isUnused c = false) (huq : t.isUnused q = false) (p : Nat) :
    (sinkStep t c q).isUnused p = t.isUnused p := by
  obtain ⟨kq, hkq⟩ := (isUnused_false_iff t q).mp huq
  obtain ⟨kc, hkc⟩ := (isUnused_false_iff t c).mp huc
  simp only [isUnused, sinkStep_cell t hsz hc hq hne]
  by_cases h1 : p = q
  · subst h1; simp [hkq]
  · simp only [h1, if_false]
    by_cases h2 : p = c
    · subst h2; simp [hkq, hkc]
    · simp [h2]

theorem cell_setCell_none (t : Tree) {e : Nat} (he : e < t.cells.size) (p : Nat) :
    (t.setCell e none).cell p = if p = e then none else t.cell p := by
  simp only [cell_setCell]
  by_cases h : e = p
  · subst h; simp [he]
  · have h' : ¬ p = e := fun x => h x.symm
    simp [h, h']

/-- composing one pull with the rest of the loop -/
theorem sink_compose {t : Tree} {c oc q oq : Nat} {t1 : Tree} {e oe : Nat}
    (hs : t.Shape) (hc : t.IsNode c oc) (huc : t.isUnused c = false)
    (hq : t.IsNode q oq) (huq : t.isUnused q = false)
    (hr1 : c - (oc - 1) ≤ q - (oq - 1)) (hr2 : q + (oq - 1) ≤ c + (oc - 1)) (hlt : oq < oc)
    (hside : q + (oq - 1) < c ∨ c < q - (oq - 1))
    (hbet : ∀ p, (c < p ∧ p < q) ∨ (q < p ∧ p < c) → t.cell p = none)
    (hpost : SinkPost (sinkStep t c q) q oq t1 e oe) : SinkPost t c oc t1 e oe := by
  have hbc := hc.bounds hs
  have hbq := hq.bounds hs
  have hsz := hs.2.2.1
  have hne : c ≠ q := by omega
  obtain ⟨n1, n2, r1, r2, r3, r4, f1, f2, f3, f4, u, fr, li, em⟩ := hpost
  have hcell := sinkStep_cell t hsz (by omega : c ≤ t.rs) (by omega : q ≤ t.rs) hne
  have hun := sinkStep_isUnused t hsz (by omega : c ≤ t.rs) (by omega : q ≤ t.rs) hne huc huq
  have hbe := (IsNode.congr (t' := t) rfl n1).bounds hs
  have hoe : oe ≤ oq := by
    by_cases h : e = q
    · have := r4 h; omega
    · have := r3 h; omega
  refine ⟨IsNode.congr rfl n1, ?_, by omega, by omega, fun _ => by omega, fun h => ?_,
    f1, f2, f3, ?_, ?_, ?_, ?_, em⟩
  · rw [← hun]; exact n2
  · exfalso; omega
  · rw [f4]; simp [sinkStep]
  · intro p; rw [u, hun]
  · intro p hp
    rw [fr p (by omega), hcell]
    have : p ≠ q := by omega
    have : p ≠ c := by omega
    simp [*]
  · rw [li]
    exact hole_move t c q _ hsz (by omega) (by omega) (by omega) (by omega) hne hbet

/-- the state after one pull satisfies the loop invariant again -/
theorem sinkStep_inv {t : Tree} {c oc q oq : Nat} (hs : t.Shape) (hup : t.UpClosed)
    (hc : t.IsNode c oc) (huc : t.isUnused c = false) (hq : t.IsNode q oq)
    (huq : t.isUnused q = false) (hne : c ≠ q) :
    (sinkStep t c q).Shape ∧ (sinkStep t c q).UpClosed ∧ (sinkStep t c q).IsNode q oq ∧
      (sinkStep t c q).isUnused q = false := by
  have hbc := hc.bounds hs
  have hbq := hq.bounds hs
  obtain ⟨s1, s2, s3, s4, s5⟩ := hs
  have hcell := sinkStep_cell t s3 (by omega : c ≤ t.rs) (by omega : q ≤ t.rs) hne
  have hun := sinkStep_isUnused t s3 (by omega : c ≤ t.rs) (by omega : q ≤ t.rs) hne huc huq
  refine ⟨⟨s1, s2, ?_, ?_, ?_⟩, UpClosed.congr (t := t) rfl hun hup, IsNode.congr (t := t) rfl hq, ?_⟩
  · simp [sinkStep, s3]
  · rw [hcell]
    have : (0 : Nat) ≠ q := by omega
    have : (0 : Nat) ≠ c := by omega
    simp [*]
  · rw [hcell]
    have h1 : (sinkStep t c q).rs + 1 ≠ q := by show t.rs + 1 ≠ q; omega
    have h2 : (sinkStep t c q).rs + 1 ≠ c := by show t.rs + 1 ≠ c; omega
    simp only [h1, h2, if_false]; exact s5
  · rw [hun]; exact huq

/-- stopping on the current node -/
theorem sink_stop {t : Tree} {c oc : Nat} (hc : t.IsNode c oc) (huc : t.isUnused c = false)
    (hem : ∀ p, c - (oc - 1) ≤ p → p ≤ c + (oc - 1) → p ≠ c → t.cell p = none) :
    SinkPost t c oc t c oc :=
  ⟨hc, huc, Nat.le_refl _, Nat.le_refl _, fun h => absurd rfl h, fun _ => rfl, rfl, rfl, rfl, rfl,
    fun _ => rfl, fun _ _ => rfl, rfl, hem⟩

theorem eraseSink_aux : ∀ (f : Nat) (t : Tree) (c oc h : Nat), t.Shape → t.UpClosed →
    t.IsNode c oc → oc = 2 ^ h → h + 1 ≤ f → t.isUnused c = false →
    ∃ t1 e oe, eraseSink t f ⟨c, oc⟩ = some (t1, ⟨e, oe⟩) ∧ SinkPost t c oc t1 e oe := by
  intro f
  induction f with
  | zero => intro t c oc h _ _ _ _ hf; omega
  | succ f ih =>
    intro t c oc h hs hup hc ho hf huc
    rw [eraseSink_succ]
    dsimp only
    by_cases hleaf : oc = 1
    · subst hleaf
      simp only [TIt.isLeaf, beq_self_eq_true, if_true]
      exact ⟨t, c, 1, rfl, sink_stop hc huc (fun p a b d => by omega)⟩
    · have hl' : (TIt.isLeaf ⟨c, oc⟩) = false := by simp [TIt.isLeaf, hleaf]
      simp only [hl', Bool.false_eq_true, if_false]
      have hbc := hc.bounds hs
      obtain ⟨o', e1, e2, hpos', hlt, hge, hkl, hkr, hpl, hpr, hpow⟩ := hc.kids hs hleaf
      have hh : h = (h - 1) + 1 := by
        rcases Nat.eq_zero_or_pos h with h0 | h0
        · rw [h0] at ho; simp at ho; omega
        · omega
      have ho' : o' = 2 ^ (h - 1) := hpow (h - 1) (by rw [← hh]; exact ho)
      simp only [getLeftChild_eq, getRightChild_eq, e2, hpl]
      cases hul : t.isUnused (c - o') with
      | false =>
        simp only [Bool.not_false, if_true, followRightChildrenWithValue]
        have hsd := skipDown_ge t (p := c - o' + (o' - 1)) (q := c - o') (by omega) hul
        have hsl := skipDown_le t (c - o' + (o' - 1))
        have hsb := skipDown_between t (c - o' + (o' - 1))
        generalize t.skipDown (c - o' + (o' - 1)) = q at hsd hsl hsb
        obtain ⟨oq, hoq, hq⟩ := ofIndex_node t (p := q) (by omega) (by omega)
        rw [hoq]
        dsimp only
        obtain ⟨n1, n2, n3, n4⟩ := hkl.nest hq (by omega) (by omega)
        obtain ⟨hq', _, _, _, hoq2, _⟩ := hq.lin hs
        have hhq : hq' ≤ h - 1 := by
          rw [hoq2, ho'] at n1
          exact (Nat.pow_le_pow_iff_right (by decide : 1 < 2)).mp n1
        obtain ⟨i1, i2, i3, i4⟩ := sinkStep_inv hs hup hc huc hq hsd.2 (by omega)
        obtain ⟨t1, e, oe, r1, r2⟩ := ih (sinkStep t c q) q oq hq' i1 i2 i3 hoq2 (by omega) i4
        refine ⟨t1, e, oe, r1, sink_compose hs hc huc hq hsd.2 (by omega) (by omega) (by omega)
          (Or.inl (by omega)) ?_ r2⟩
        intro p hp
        rcases hp with hp | hp
        · omega
        · exact (isUnused_true_iff t p).mp (hsb p hp.1 (by omega))
      | true =>
        simp only [Bool.not_true, Bool.false_eq_true, if_false]
        cases hur : t.isUnused (c + o') with
        | false =>
          simp only [Bool.not_false, if_true, followLeftChildrenWithValue]
          have hbr := hkr.bounds hs
          have hsu := skipUp_le t (p := c + o' - (o' - 1)) (q := c + o') (by omega) (by omega) hur
          generalize t.skipUp (c + o' - (o' - 1)) = q at hsu
          obtain ⟨hs1, hs2, hs3, hs4⟩ := hsu
          obtain ⟨oq, hoq, hq⟩ := ofIndex_node t (p := q) (by omega) (by omega)
          rw [hoq]
          dsimp only
          obtain ⟨n1, n2, n3, n4⟩ := hkr.nest hq (by omega) (by omega)
          obtain ⟨hq', _, _, _, hoq2, _⟩ := hq.lin hs
          have hhq : hq' ≤ h - 1 := by
            rw [hoq2, ho'] at n1
            exact (Nat.pow_le_pow_iff_right (by decide : 1 < 2)).mp n1
          obtain ⟨i1, i2, i3, i4⟩ := sinkStep_inv hs hup hc huc hq hs3 (by omega)
          obtain ⟨t1, e, oe, r1, r2⟩ := ih (sinkStep t c q) q oq hq' i1 i2 i3 hoq2 (by omega) i4
          refine ⟨t1, e, oe, r1, sink_compose hs hc huc hq hs3 (by omega) (by omega) (by omega)
            (Or.inr (by omega)) ?_ r2⟩
          intro p hp
          rcases hp with hp | hp
          · exact (isUnused_true_iff t p).mp (hs4 p (by omega) hp.2)
          · omega
        | true =>
          simp only [Bool.not_true, Bool.false_eq_true, if_false, hpr]
          have hel := UpClosed.empty_subtree' hs hup hkl hul
          have her := UpClosed.empty_subtree' hs hup hkr hur
          refine ⟨t, c, oc, rfl, sink_stop hc huc ?_⟩
          intro p a b d
          rcases Nat.lt_or_gt_of_ne d with hp | hp
          · exact hel p (by omega) (by omega)
          · exact her p (by omega) (by omega)

/-- **the `while (true)` of `erase(tree_iterator)`** (`EraseSinkSpec` of `RebSpec.lean`) -/
theorem eraseSinkSpec : EraseSinkSpec := by
  intro t i o hs hsorted hup hn hu
  obtain ⟨h, _, _, _, ho, hh, _⟩ := hn.lin hs
  obtain ⟨t1, e, oe, hrun, n1, n2, r1, r2, r3, r4, f1, f2, f3, f4, u, fr, li, em⟩ :=
    eraseSink_aux t.maxDepth t i o h hs hup hn ho (by omega) hu
  have hbi := hn.bounds hs
  have hbe := n1.bounds hs
  obtain ⟨s1, s2, s3, s4, s5⟩ := hs
  have hs : t.Shape := ⟨s1, s2, s3, s4, s5⟩
  have he : e < t1.cells.size := by rw [f4, s3]; omega
  have hcell := cell_setCell_none t1 he
  have hunu : ∀ p, p ≠ e → (t1.setCell e none).isUnused p = t.isUnused p := by
    intro p hp
    rw [← u p]
    simp only [isUnused, hcell, hp, if_false]
  have hup1 : t1.UpClosed := UpClosed.congr f1 u hup
  have hs1 : t1.Shape := by
    refine ⟨by rw [f1, f2]; exact s1, by rw [f2]; exact s2, by rw [f4, f1]; exact s3, ?_, ?_⟩
    · rw [fr 0 (by omega)]; exact s4
    · rw [f1, fr (t.rs + 1) (by omega)]; exact s5
  have hnone : ∀ p, e - (oe - 1) ≤ p → p ≤ e + (oe - 1) → (t1.setCell e none).cell p = none := by
    intro p a b
    rw [hcell]
    by_cases hp : p = e
    · simp [hp]
    · simp only [hp, if_false]; exact em p a b hp
  refine ⟨t1, e, oe, hrun, IsNode.congr f1 n1, r1, r2, r3, r4, ?_⟩
  show (t1.setCell e none).Shape ∧ _
  refine ⟨?_, f1, f2, f3, ?_, ?_, ?_, hnone, ?_, ?_, ?_, ?_⟩
  · refine ⟨by show t1.rs = 2 ^ t1.maxDepth - 1; exact hs1.1, hs1.2.1, ?_, ?_, ?_⟩
    · rw [setCell_cells_size]; exact hs1.2.2.1
    · rw [hcell]
      have : (0 : Nat) ≠ e := by omega
      simp only [this, if_false]; exact hs1.2.2.2.1
    · rw [hcell]
      have : (t1.setCell e none).rs + 1 ≠ e := by show t1.rs + 1 ≠ e; omega
      simp only [this, if_false]; exact hs1.2.2.2.2
  · rw [li]
    exact toList_setCell_none s3 hsorted (by omega) (by omega) hu
  · rw [li, toList_setCell_none s3 hsorted (by omega) (by omega) hu]
    exact sorted_erase hsorted _
  · -- `UpClosed` after the hole is freed: the children of `e` are unused
    intro x ox hx hux hne
    have hx1 : t1.IsNode x ox := IsNode.congr (t' := t1) rfl hx
    have hxe : x ≠ e := by
      intro heq
      rw [heq, (isUnused_true_iff _ e).mpr (hnone e (by omega) (by omega))] at hux
      cases hux
    have hux1 : t1.isUnused x = false := by rw [u, ← hunu x hxe]; exact hux
    have hpar := hup1 x ox hx1 hux1 hne
    have hpn := (hx1.parent hs1 hne).1
    by_cases hpe : (TIt.getParent ⟨x, ox⟩).i = e
    · -- then `x` is a child of `e`, inside the freed range
      exfalso
      rw [hpe] at hpn
      have hoe := hpn.offset_unique (IsNode.congr f1 n1)
      have hbx := hx1.bounds hs1
      have hxin : e - (oe - 1) ≤ x ∧ x ≤ e + (oe - 1) := by
        rcases hx1.parent_cases hs1 with ⟨hp1, _⟩ | ⟨hp1, _, _⟩
        · rw [hp1] at hpe; simp only at hpe; omega
        · rw [hp1] at hpe; simp only at hpe; omega
      have := hnone x hxin.1 hxin.2
      rw [(isUnused_true_iff _ x).mpr this] at hux
      cases hux
    · show (t1.setCell e none).isUnused (TIt.getParent ⟨x, ox⟩).i = false
      rw [hunu _ hpe, ← u]; exact hpar
  · -- the proper ancestors of `(e, oe)` are used
    intro j oj hj a b d
    have hj1 : t1.IsNode j oj := IsNode.congr (t' := t1) rfl hj
    have hue1 : t1.isUnused e = false := by rw [u]; exact n2
    have := UpClosed.ancestors_used hs1 hup1 (IsNode.congr f1 n1) hue1 hj1 a b d
    have hje : j ≠ e := by
      intro heq
      rw [heq] at hj1
      have := hj1.offset_unique (IsNode.congr f1 n1)
      omega
    rw [hunu j hje, ← u]; exact this
  · intro p hp
    rw [hcell]
    have : p ≠ e := by omega
    simp only [this, if_false]
    exact fr p hp
  · show (t1.setCell e none).countRange 1 (t1.rs + 1) + 1 = t.countRange 1 (t.rs + 1)
    rw [f1, countRange_split3 _ 1 e (t.rs + 1) (by omega) (by omega),
      countRange_split3 t 1 e (t.rs + 1) (by omega) (by omega),
      countRange_congr_unused t (t1.setCell e none) 1 e (fun p a b => hunu p (by omega)),
      countRange_congr_unused t (t1.setCell e none) (e + 1) (t.rs + 1) (fun p a b => hunu p (by omega)),
      n2, (isUnused_true_iff _ e).mpr (hnone e (by omega) (by omega))]
    simp
    omega
  · intro hei
    rw [hunu i (fun h => hei h.symm)]; exact hu

end PPLV.COTree
