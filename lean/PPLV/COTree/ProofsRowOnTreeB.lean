import PPLV.COTree.ProofsRowOnTreeA

/-!
# C16 stage 3 — `Sparse_Row::find`, `Sparse_Row::lower_bound` (with or without hint)
-/
namespace PPLV.COTree
open PPLV.COTree.Tree

namespace RowT

theorem find?_of_mem_sorted : ∀ (m : SMap) (k : Nat) (v : Int), SMap.Sorted m → (k, v) ∈ m →
    SMap.find? m k = some v
  | [], _, _, _, h => by simp at h
  | (a, x) :: t, k, v, hs, h => by
    unfold SMap.find?
    rcases List.mem_cons.1 h with e | e
    · cases e; simp
    · have := SMap.Sorted.head_lt hs (k, v) e
      simp only at this
      have hne : ¬ a = k := by omega
      rw [if_neg hne]
      exact find?_of_mem_sorted t k v (SMap.Sorted.tail hs) e

theorem find?_none_of_not_stored (m : SMap) (k : Nat) (h : SMap.stored m k = false) :
    SMap.find? m k = none := by
  unfold SMap.stored at h
  cases hf : SMap.find? m k with
  | none => rfl
  | some v => rw [hf] at h; simp at h

/-- `lower_bound` read off the slots: `q` is the first used slot whose key is `≥ k` -/
theorem lowerBound_at (t : Tree) (k q : Nat) (h1 : 1 ≤ q) (h2 : q ≤ t.rs + 1)
    (hlt : ∀ x kv, 1 ≤ x → x < q → t.cell x = some kv → kv.1 < k)
    (hq : q ≤ t.rs → ∃ kv, t.cell q = some kv ∧ k ≤ kv.1) :
    SMap.lowerBound t.toList k = if q > t.rs then none else some (t.keyAt q) := by
  unfold Tree.toList
  rw [Tree.listRange_split t 1 q (t.rs + 1) h1 h2, EraTop.lowerBound_append_lt k _ _ ?_]
  · by_cases hqr : q > t.rs
    · rw [if_pos hqr]
      have : q = t.rs + 1 := by omega
      rw [this, Redist.listRange_empty t _ _ (Nat.le_refl _)]
      rfl
    · rw [if_neg hqr]
      obtain ⟨⟨kq, vq⟩, hc, hk⟩ := hq (by omega)
      rw [Redist.listRange_head t q (t.rs + 1) (kq, vq) (by omega) hc, keyAt_of_cell hc,
        EraTop.lowerBound_cons_ge _ _ _ _ hk]
  · intro p hp
    obtain ⟨x, x1, x2, hx⟩ := (mem_listRange t 1 q p).1 hp
    exact hlt x p x1 x2 hx

/-- `bisect` / `bisect_near` on a non-empty valid tree, in terms of the tree -/
theorem bisectNearIt_spec (t : Tree) (hinv : t.Inv) (h1 : 1 ≤ t.size) (hint : Hint)
    (hh : t.ValidHint hint) (i : Nat) :
    ∃ p, t.bisectNearIt hint i = some p ∧ 1 ≤ p ∧ p ≤ t.rs ∧ t.isUnused p = false ∧
      (SMap.stored t.toList i = true → t.keyAt p = i) ∧
      (SMap.stored t.toList i = false →
        (t.keyAt p < i ∧ ∀ q, 1 ≤ q → q ≤ t.rs → t.isUnused q = false → t.keyAt q < i →
            t.keyAt q ≤ t.keyAt p) ∨
        (i < t.keyAt p ∧ ∀ q, 1 ≤ q → q ≤ t.rs → t.isUnused q = false → i < t.keyAt q →
            t.keyAt p ≤ t.keyAt q)) := by
  have hs := sortedUsed_of_sorted t hinv.sorted
  have hpost : ∃ p, t.bisectNearIt hint i = some p ∧ HoleArray.NearPost t.toHoleArray i p := by
    cases hint with
    | none =>
      refine ⟨_, ?_, HoleArray.bisect_spec _ hs ?_ i⟩
      · unfold Tree.bisectNearIt Tree.bisectIt
        rw [if_neg (by omega)]
      · obtain ⟨p, kv, a, b, c⟩ := EraTop.exists_used_of_count t 1 (t.rs + 1)
          (by rw [hinv.count]; exact h1)
        exact ⟨p, (toHoleArray_used t p).2 ⟨a, by omega, (isUnused_false_iff t p).2 ⟨kv, c⟩⟩⟩
    | some h =>
      refine ⟨_, rfl, HoleArray.bisectNear_spec _ hs ?_ i⟩
      obtain ⟨a, b, c⟩ := hh h rfl
      exact (toHoleArray_used t h).2 ⟨a, b, c⟩
  obtain ⟨p, hp, hu, hhas, hadj⟩ := hpost
  obtain ⟨p1, p2, p3⟩ := (toHoleArray_used t p).1 hu
  have hkey := toHoleArray_key t p hu
  refine ⟨p, hp, p1, p2, p3, ?_, ?_⟩
  · intro hst
    rw [← hkey]; exact hhas ((has_iff_stored t i).2 hst)
  · intro hst
    have hno : ¬ t.toHoleArray.has i := by
      intro h; rw [(has_iff_stored t i).1 h] at hst; cases hst
    rcases hadj hno with ⟨a, b⟩ | ⟨a, b⟩
    · left
      rw [hkey] at a b
      refine ⟨a, fun q q1 q2 q3 q4 => ?_⟩
      have hq := (toHoleArray_used t q).2 ⟨q1, q2, q3⟩
      have := b q hq (by rw [toHoleArray_key t q hq]; exact q4)
      rw [toHoleArray_key t q hq] at this; exact this
    · right
      rw [hkey] at a b
      refine ⟨a, fun q q1 q2 q3 q4 => ?_⟩
      have hq := (toHoleArray_used t q).2 ⟨q1, q2, q3⟩
      have := b q hq (by rw [toHoleArray_key t q hq]; exact q4)
      rw [toHoleArray_key t q hq] at this; exact this

theorem validHint_init0 (hint : Hint) (h : (init 0).ValidHint hint) : hint = none := by
  cases hint with
  | none => rfl
  | some p =>
    obtain ⟨a, b, -⟩ := h p rfl
    rw [init0_rs] at b; omega

theorem stored_of_used (t : Tree) (p : Nat) (h1 : 1 ≤ p) (h2 : p ≤ t.rs)
    (hu : t.isUnused p = false) : SMap.stored t.toList (t.keyAt p) = true :=
  EraTop.stored_of_mem _ _ (t.valAt p)
    ((mem_listRange t 1 (t.rs + 1) _).2 ⟨p, h1, by omega, cell_eq_of_used hu⟩)

/-- `Sparse_Row::find(i)` / `find(hint, i)`: an iterator on the stored pair, or `end()` -/
theorem find_ok (r : TRow) (hint : Hint) (i : Nat) (hv : r.Valid) (hh : r.tree.ValidHint hint) :
    match r.find hint i with
    | some p => 1 ≤ p ∧ p ≤ r.tree.rs ∧
        ∃ v, r.tree.cell p = some (i, v) ∧ SMap.find? r.tree.toList i = some v
    | none => SMap.find? r.tree.toList i = none := by
  obtain ⟨hcase, -⟩ := hv
  rcases hcase with he | ⟨hinv, h1⟩
  · rw [he] at hh
    have := validHint_init0 hint hh
    subst this
    have : r.find none i = none := by
      unfold TRow.find Tree.bisectNearIt Tree.bisectIt
      rw [he]; rfl
    rw [this, he]; rfl
  · obtain ⟨p, hp, p1, p2, p3, hst, -⟩ := bisectNearIt_spec r.tree hinv h1 hint hh i
    have hf : r.find hint i = if r.tree.keyAt p = i then some p else none := by
      unfold TRow.find; rw [hp]
    rw [hf]
    by_cases hk : r.tree.keyAt p = i
    · rw [if_pos hk]
      have hc := cell_eq_of_used p3
      rw [hk] at hc
      refine ⟨p1, p2, _, hc, find?_of_mem_sorted _ _ _ hinv.sorted ?_⟩
      exact (mem_listRange r.tree 1 (r.tree.rs + 1) _).2 ⟨p, p1, by omega, hc⟩
    · rw [if_neg hk]
      apply find?_none_of_not_stored
      cases hs : SMap.stored r.tree.toList i with
      | false => rfl
      | true => exact absurd (hst hs) hk

/-- `Sparse_Row::lower_bound(i)` / `lower_bound(hint, i)`: the first stored index `≥ i` -/
theorem lowerBound_ok (r : TRow) (hint : Hint) (i : Nat) (hv : r.Valid)
    (hh : r.tree.ValidHint hint) :
    (r.lowerBound hint i).map r.tree.keyAt = SMap.lowerBound r.tree.toList i ∧
    ∀ p, r.lowerBound hint i = some p → 1 ≤ p ∧ p ≤ r.tree.rs ∧ r.tree.isUnused p = false := by
  obtain ⟨hcase, -⟩ := hv
  rcases hcase with he | ⟨hinv, h1⟩
  · rw [he] at hh
    have := validHint_init0 hint hh
    subst this
    have : r.lowerBound none i = none := by
      unfold TRow.lowerBound Tree.bisectNearIt Tree.bisectIt
      rw [he]; rfl
    rw [this, he]
    exact ⟨rfl, fun p hp => by cases hp⟩
  · obtain ⟨p, hp, p1, p2, p3, hst, hnst⟩ := bisectNearIt_spec r.tree hinv h1 hint hh i
    have hsc := sorted_cells hinv.sorted
    have hsh := hinv.shape
    have hcp := cell_eq_of_used p3
    unfold TRow.lowerBound
    rw [hp]
    simp only
    generalize r.tree = t at *
    by_cases hk : t.keyAt p < i
    · rw [if_pos hk]
      obtain ⟨a, b, c, d⟩ := EraTop.skipUp_spec t (p + 1) (by omega) (EraTop.sentinel_used t hsh)
      have hlb := lowerBound_at t i (t.skipUp (p + 1)) (by omega) b ?_ ?_
      · unfold Tree.nextIt
        simp only
        rw [hlb]
        constructor
        · split <;> rfl
        · intro q hq
          split at hq
          · cases hq
          · cases hq; exact ⟨by omega, by omega, c⟩
      · intro x kv x1 x2 hx
        by_cases hxp : x < p
        · have := hsc x p kv _ x1 hxp p2 hx hcp; simp only at this; omega
        · by_cases hxp' : x = p
          · rw [hxp', hcp] at hx; cases hx; exact hk
          · have := d x (by omega) x2
            rw [(isUnused_true_iff t x).1 this] at hx; cases hx
      · intro hq
        have hcq := cell_eq_of_used c
        refine ⟨_, hcq, ?_⟩
        simp only
        have hpq := hsc p _ _ _ p1 (by omega) hq hcp hcq
        simp only at hpq
        by_cases hlt : t.keyAt (t.skipUp (p + 1)) < i
        · exfalso
          cases hs : SMap.stored t.toList i with
          | true => have := hst hs; omega
          | false =>
            rcases hnst hs with ⟨_, b'⟩ | ⟨a', _⟩
            · have := b' _ (by omega) hq c hlt; omega
            · omega
        · omega
    · rw [if_neg hk]
      have hlb := lowerBound_at t i p p1 (by omega) ?_ (fun _ => ⟨_, hcp, by simp only; omega⟩)
      · rw [hlb, if_neg (by omega)]
        exact ⟨rfl, fun q hq => by cases hq; exact ⟨p1, p2, p3⟩⟩
      · intro x kv x1 x2 hx
        have hlt := hsc x p kv _ x1 x2 p2 hx hcp
        simp only at hlt
        have hux : t.isUnused x = false := (isUnused_false_iff t x).2 ⟨kv, hx⟩
        have hkx : t.keyAt x = kv.1 := keyAt_of_cell hx
        cases hs : SMap.stored t.toList i with
        | true => have := hst hs; omega
        | false =>
          rcases hnst hs with ⟨a', _⟩ | ⟨_, b'⟩
          · omega
          · by_cases hge : i ≤ kv.1
            · exfalso
              by_cases heq : kv.1 = i
              · have := stored_of_used t x x1 (by omega) hux
                rw [hkx, heq, hs] at this; cases this
              · have := b' x x1 (by omega) hux (by omega); omega
            · omega

end RowT
end PPLV.COTree
