import PPLV.COTree.ProofsRebCore

/-!
# C16 stage 2 — `rebalance(itr, key, value)` for an insertion (`RebalanceInsertSpec`)

Under the hypothesis `RedistSpec` (proved in `ProofsRebRedist*.lean`).  No Mathlib.
-/
namespace PPLV.COTree
open Tree

/-- a leaf holding one element plus the new one is always above the maximum density -/
theorem rebalanceCond_leaf (md d : Nat) (hd : d ≤ md - 1) : rebalanceCond md 2 1 d = true := by
  have h9 : d * (100 - maxDensityPercent) / (md - 1) ≤ 9 := by
    apply Nat.div_le_of_le_mul
    have := Nat.mul_le_mul_right 9 hd
    simp only [maxDensityPercent]; omega
  have : isGreaterThanRatio 2 1 (maxDensityPercent + d * (100 - maxDensityPercent) / (md - 1)) = true := by
    rw [isGreaterThanRatio_iff]
    generalize d * (100 - maxDensityPercent) / (md - 1) = x at h9
    simp only [maxDensityPercent]; omega
  simp [rebalanceCond, this]

theorem rebalanceInsertSpec_of (hr : RedistSpec) : RebalanceInsertSpec := by
  intro t i key value hs h7 hsorted hup hni hui hkey hbr hcnt hroot
  have hsz : t.cells.size = t.rs + 2 := hs.2.2.1
  have hbi := hni.bounds hs
  -- the key is stored nowhere
  have hcs := sorted_cells hsorted
  have hnokey : ∀ p kv, 1 ≤ p → p ≤ t.rs → t.cell p = some kv → kv.1 ≠ key := by
    intro p kv h1 h2 hc
    by_cases hlt : p < i
    · have := hbr.1 p kv h1 hlt hc; omega
    · by_cases hgt : i < p
      · have := hbr.2 p kv hgt h2 hc; omega
      · have : p = i := by omega
        subst this
        rw [keyAt_of_cell hc] at hkey; exact hkey
  -- the walk
  have hroot' : rebalanceCond t.maxDepth (t.countRange 1 (t.rs + 1) + 1) t.rs 0 = false := by
    rw [hcnt]; exact hroot
  obtain ⟨j, oj, n, w1, w2, w3, w4, w5, w6, w7, w8, w9, w10⟩ :=
    walkSpecA t i 1 1 hs hni (Nat.le_refl 1)
      (fun j oj hj l1 l2 l3 => UpClosed.ancestors_used hs hup hni hui hj l1 l2 l3) hroot'
  have e0 : i - (1 - 1) = i := by omega
  have hc1 : t.countRange i (i + 1) = 1 := by rw [countRange_one, hui]; rfl
  rw [e0, hc1] at w1 w9
  have hdep := depth_node hs (by simp : (1 : Nat) = 2 ^ 0) hni
  have hleaf : rebalanceCond t.maxDepth (1 + 1) (2 * 1 - 1) (t.depth ⟨i, 1⟩ - 1) = true :=
    rebalanceCond_leaf t.maxDepth _ (by omega)
  have hoj : 1 < oj := w9 hleaf
  obtain ⟨h, m, ho, hjm, hjle⟩ := w2
  subst ho
  have hj : t.IsNode j (2 ^ h) := ⟨h, m, rfl, hjm, hjle⟩
  have hbj := hj.bounds hs
  have e1 : i - (1 - 1) = i := by omega
  have e2 : i + (1 - 1) = i := by omega
  rw [e1] at w3
  rw [e2] at w4
  -- the segment `[F, L]`
  have hfr := cmp_frameOn_refl t (j - (2 ^ h - 1)) (j + (2 ^ h - 1))
  have eL1 : j + (2 ^ h - 1) + 1 = j + 2 ^ h := by omega
  have hsplit := (toList_of_frame hfr hbj.2.2.1 (by omega) hbj.2.2.2.1).2
  rw [eL1] at hsplit
  have hsortedB : SMap.Sorted (t.listRange (j - (2 ^ h - 1)) (j + 2 ^ h)) := by
    have := hsorted
    rw [hsplit] at this
    exact (List.pairwise_append.1 (List.pairwise_append.1 this).1).2.1
  have hA : ∀ q ∈ t.listRange 1 (j - (2 ^ h - 1)), q.1 < key := by
    intro q hq
    obtain ⟨p, p1, p2, p3⟩ := (mem_listRange t _ _ q).1 hq
    exact hbr.1 p q p1 (by omega) p3
  have hC : ∀ q ∈ t.listRange (j + 2 ^ h) (t.rs + 1), key < q.1 := by
    intro q hq
    obtain ⟨p, p1, p2, p3⟩ := (mem_listRange t _ _ q).1 hq
    exact hbr.2 p q (by omega) (by omega) p3
  have hB : ∀ q ∈ t.listRange (j - (2 ^ h - 1)) (j + 2 ^ h), q.1 ≠ key := by
    intro q hq
    obtain ⟨p, p1, p2, p3⟩ := (mem_listRange t _ _ q).1 hq
    exact hnokey p q (by omega) (by omega) p3
  have hall : ∀ q ∈ t.toList, q.1 ≠ key := by
    intro q hq
    obtain ⟨p, p1, p2, p3⟩ := (mem_listRange t _ _ q).1 hq
    exact hnokey p q p1 (by omega) p3
  obtain ⟨s, k1, k2, k3, k4⟩ := rebalance_core hr t j h n key value true hs hj
    (by simpa using w5) w6 w7
    (fun _ => ⟨hsortedB, hB, fun p p1 p2 kv hc => hbr.1 p kv p1 (by omega) hc,
      fun p p1 p2 kv hc => hbr.2 p kv (by omega) p2 hc⟩)
  have hreb : rebalance t ⟨i, 1⟩ key value = some (s.t, ⟨j, 2 ^ h⟩) := by
    apply rebalance_eq (n := n) (by omega)
    · show rebalanceLoop t (t.depth ⟨i, 1⟩ - 1) ⟨i, 1⟩ (if t.isUnused i then 0 else 2)
        (2 ^ (t.maxDepth - (t.depth ⟨i, 1⟩ - 1)) - 1) = _
      rw [w10, hui]
      exact w1
    · show redistributeElementsInSubtree
          (compactElementsInTheRightmostEnd t (j + 2 ^ h - 1) n key value (!t.isUnused i)).1 j n
          ((compactElementsInTheRightmostEnd t (j + 2 ^ h - 1) n key value (!t.isUnused i)).2 + 1)
          key value
          ((compactElementsInTheRightmostEnd t (j + 2 ^ h - 1) n key value (!t.isUnused i)).2
            != j + 2 ^ h - 1 - n) = some s
      rw [hui]
      exact k1
  have hs' : s.t.Shape := shape_of_frame hs k2 hbj.2.2.1 hbj.2.2.2.1
  obtain ⟨f1, f2, f3, f4, f5⟩ := k2
  have hsplit' := (toList_of_frame ⟨f1, f2, f3, f4, f5⟩ hbj.2.2.1 (by omega) hbj.2.2.2.1).1
  rw [eL1] at hsplit'
  have hlist : s.t.toList = SMap.set t.toList key value := by
    rw [hsplit', hsplit, k3, List.append_assoc, List.append_assoc,
      SMap.set_append_left key value _ _ hA, SMap.set_append_right key value _ _ hC]
    rfl
  have hn0 : n ≠ 0 := by omega
  refine ⟨s.t, j, 2 ^ h, hreb, hs', f1, f2, f3, hlist, ?_, ?_, ?_, hj.of_rs f1, hoj, w3, w4,
    balanced_root_used k4 hn0, ?_, f5, ?_⟩
  · rw [hlist]; exact SMap.sorted_set _ _ _ hsorted
  · refine upClosed_after hs hup hj ⟨f1, f2, f3, f4, f5⟩ k4 (fun hne => ?_)
    have hpar := hj.parent hs hne
    have hbp := hpar.1.bounds hs
    refine UpClosed.used_of_mem hs hup hpar.1 ?_ ?_ hui
    · rcases hj.parent_cases hs with ⟨e, _⟩ | ⟨e, g, _⟩
      · rw [e]; show j + 2 ^ h - (2 * 2 ^ h - 1) ≤ i; omega
      · rw [e]; show j - 2 ^ h - (2 * 2 ^ h - 1) ≤ i; omega
    · rcases hj.parent_cases hs with ⟨e, _⟩ | ⟨e, g, _⟩
      · rw [e]; show i ≤ j + 2 ^ h + (2 * 2 ^ h - 1); omega
      · rw [e]; show i ≤ j - 2 ^ h + (2 * 2 ^ h - 1); omega
  · rw [← length_listRange]
    show s.t.toList.length = t.size
    rw [hlist, SMap.length_set key value _ hall]
    show (t.listRange 1 (t.rs + 1)).length + 1 = t.size
    rw [length_listRange]; exact hcnt
  · have hm : (key, value) ∈ s.t.listRange (j - (2 ^ h - 1)) (j + 2 ^ h) := by
      rw [k3]; exact SMap.mem_set_self key value _
    obtain ⟨p, p1, p2, p3⟩ := (mem_listRange s.t _ _ _).1 hm
    exact ⟨p, p1, by omega, p3⟩
  · intro h' hh'
    have := pow2_inj hh'
    subst this
    rw [← w5]; exact k4

end PPLV.COTree
