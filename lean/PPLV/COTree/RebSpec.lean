import PPLV.COTree.Rebalance

/-!
# C16 stage 2 — vocabulary and the statements of the component theorems

No Mathlib.  Each `…Spec : Prop` below is the full-strength statement about one C++ function of
the rebalancing machinery (model: `PPLV/COTree/Rebalance.lean`); the proofs live in
`PPLV/COTree/ProofsReb*.lean`, the property theorems in `PPLV/Props/C16Rebalance.lean`.
-/
namespace PPLV.COTree
namespace Tree

/-- the fields and every slot outside `[lo, hi]` are unchanged -/
def FrameOn (t t' : Tree) (lo hi : Nat) : Prop :=
  t'.rs = t.rs ∧ t'.maxDepth = t.maxDepth ∧ t'.size = t.size ∧ t'.cells.size = t.cells.size ∧
  ∀ p, (p < lo ∨ hi < p) → t'.cell p = t.cell p

/-- the arrays of a non-empty tree: `reserved_size = 2^max_depth - 1 ≥ 3`, `reserved_size + 2`
    slots, the two markers -/
def Shape (t : Tree) : Prop :=
  t.rs = 2 ^ t.maxDepth - 1 ∧ 2 ≤ t.maxDepth ∧ t.cells.size = t.rs + 2 ∧
  t.cell 0 = sentinel ∧ t.cell (t.rs + 1) = sentinel

/-- slot `i` is a node of the tree and `o = i & -i = 2^h` (`h + 1` = height of its subtree,
    which occupies the slots `i - (o-1) … i + (o-1)`) -/
def IsNode (t : Tree) (i o : Nat) : Prop := ∃ h m, o = 2 ^ h ∧ i = o * (2 * m + 1) ∧ i ≤ t.rs

/-- the subtree of height `h` rooted at slot `i` holds exactly `n` elements laid out by the
    half/half rule of `redistribute_elements_in_subtree`: root used, `(n+1)/2 - 1` elements in
    the left subtree, `n - (n+1)/2` in the right one, recursively; nothing at all when `n = 0`.
    (A subtree of height `h + 1` has `offset = 2^h`; its children are the slots `i ∓ 2^h/2`.) -/
def Balanced (t : Tree) : Nat → Nat → Nat → Prop
  | 0, _, n => n = 0
  | h + 1, i, n =>
    (n = 0 ∧ ∀ p, i - (2 ^ h - 1) ≤ p → p ≤ i + (2 ^ h - 1) → t.cell p = none) ∨
    (n ≠ 0 ∧ t.isUnused i = false ∧ Balanced t h (i - 2 ^ h / 2) ((n + 1) / 2 - 1)
      ∧ Balanced t h (i + 2 ^ h / 2) (n - (n + 1) / 2))

/-- a used node that is not the root has a used parent (so an unused node roots an empty
    subtree): the invariant `go_down_searching_key` and `erase` rely on; `OK()` does not test it -/
def UpClosed (t : Tree) : Prop :=
  ∀ i o, t.IsNode i o → t.isUnused i = false → o ≠ t.rs / 2 + 1 →
    t.isUnused (TIt.getParent ⟨i, o⟩).i = false

/-- full representation invariant of a non-empty tree -/
structure Inv (t : Tree) : Prop where
  shape : t.Shape
  count : t.countRange 1 (t.rs + 1) = t.size
  sorted : SMap.Sorted t.toList
  upClosed : t.UpClosed
  density : densityOK t.size t.rs = true

end Tree

open Tree

/-- **`compact_elements_in_the_rightmost_end`** on the slots `F … L` (any segment, not only a
    subtree) holding `n` elements, the new one included when `add`.  The used slots end up
    contiguous at the right end `(fu, L]`, in the same order; the new pair is either merged at its
    sorted position (`fu = L - n`) or left to `redistribute` (`fu = L - (n-1)`); slots outside
    `F … L` are not written. -/
def CompactSpec : Prop :=
  ∀ (t : Tree) (F L n key : Nat) (value : Int) (add : Bool),
    1 ≤ F → F ≤ L → L ≤ t.rs → t.cells.size = t.rs + 2 →
    n = t.countRange F (L + 1) + (if add then 1 else 0) → 1 ≤ n → n ≤ L + 1 - F →
    (add = true → SMap.Sorted (t.listRange F (L + 1)) ∧ (∀ q ∈ t.listRange F (L + 1), q.1 ≠ key) ∧
        ∀ p, 1 ≤ p → p < F → ∀ kv, t.cell p = some kv → kv.1 < key) →
    let r := compactElementsInTheRightmostEnd t L n key value add
    t.FrameOn r.1 F L ∧
    (∀ p, F ≤ p → p ≤ r.2 → r.1.cell p = none) ∧
    (∀ p, r.2 < p → p ≤ L → r.1.isUnused p = false) ∧
    ((r.2 + n = L ∧ r.1.listRange (r.2 + 1) (L + 1) =
        (if add then SMap.set (t.listRange F (L + 1)) key value else t.listRange F (L + 1)))
     ∨ (add = true ∧ r.2 + n = L + 1 ∧ r.1.listRange (r.2 + 1) (L + 1) = t.listRange F (L + 1)))

/-- **`redistribute_elements_in_subtree`** on the subtree rooted at `i` (`offset o`), whose `n`
    elements are the compacted block `[u, L]` plus — when `pend` — the new pair: the loop
    terminates within the fuel `2n`, the subtree then lists the block with the pair merged at its
    sorted position, in the half/half layout; slots outside the subtree are not written.
    The subtree must lie inside the array (`i + (o-1) ≤ reserved_size`; it follows from
    `t.Shape ∧ t.IsNode i o`, lemma `isNode_hi_le_rs`): the C++ tests `last_used > reserved_size`
    to mean "the compacted block is exhausted", which is wrong for a segment reaching slot
    `reserved_size + 1` (counterexample found by the prover: rs = 2, i = o = 2). -/
def RedistSpec : Prop :=
  ∀ (t : Tree) (i o n u key : Nat) (value : Int) (pend : Bool),
    t.IsNode i o → i + (o - 1) ≤ t.rs → t.cells.size = t.rs + 2 → 1 ≤ n → n ≤ 2 * o - 1 →
    u + n = i + (o - 1) + 1 + (if pend then 1 else 0) →
    (∀ p, i - (o - 1) ≤ p → p < u → t.cell p = none) →
    (∀ p, u ≤ p → p ≤ i + (o - 1) → t.isUnused p = false) →
    (pend = true → SMap.Sorted (t.listRange u (i + o)) ∧ (∀ q ∈ t.listRange u (i + o), q.1 ≠ key) ∧
        ∀ p, i + (o - 1) < p → p ≤ t.rs → ∀ kv, t.cell p = some kv → key < kv.1) →
    ∃ s, redistributeElementsInSubtree t i n u key value pend = some s ∧ s.addElement = false ∧
      t.FrameOn s.t (i - (o - 1)) (i + (o - 1)) ∧
      s.t.listRange (i - (o - 1)) (i + o) =
        (if pend then SMap.set (t.listRange u (i + o)) key value else t.listRange u (i + o)) ∧
      ∀ h, o = 2 ^ h → s.t.Balanced (h + 1) i n

/-- **the `while` of `rebalance`** started at node `(i, o)` whose subtree holds `c` elements, with
    `extra` = 1 for an insertion, 0 for a deletion: when the whole tree (root, depth 1) is within
    its thresholds the loop stops — it never asks for the parent of the root — at an ancestor-or-self
    `(j, oj)`, with `n` = the number of elements of that subtree + `extra`, `1 ≤ n ≤ 2*oj - 1`,
    and `(j, oj)` is the FIRST node on the path whose density is within the thresholds of its depth. -/
def WalkSpec : Prop :=
  ∀ (t : Tree) (i o extra : Nat),
    t.Shape → t.IsNode i o → extra ≤ 1 →
    rebalanceCond t.maxDepth (t.countRange 1 (t.rs + 1) + extra) t.rs 0 = false →
    ∃ j oj n, rebalanceLoop t (t.depth ⟨i, o⟩ - 1) ⟨i, o⟩
                (t.countRange (i - (o - 1)) (i + o) + extra) (2 * o - 1) = some (⟨j, oj⟩, n) ∧
      t.IsNode j oj ∧ j - (oj - 1) ≤ i - (o - 1) ∧ i + (o - 1) ≤ j + (oj - 1) ∧
      n = t.countRange (j - (oj - 1)) (j + oj) + extra ∧ 1 ≤ n ∧ n ≤ 2 * oj - 1 ∧
      rebalanceCond t.maxDepth n (2 * oj - 1) (t.depth ⟨j, oj⟩ - 1) = false ∧
      (rebalanceCond t.maxDepth (t.countRange (i - (o - 1)) (i + o) + extra) (2 * o - 1)
          (t.depth ⟨i, o⟩ - 1) = true → o < oj) ∧
      2 ^ (t.maxDepth - (t.depth ⟨i, o⟩ - 1)) - 1 = 2 * o - 1

/-- `WalkSpec` under the hypothesis the C++ asserts inside the loop (`itr.index() != unused_index`
    after `get_parent()`): every proper ancestor of `(i, o)` is used — the loop counts the parent
    slot unconditionally (`++subtree_size`). -/
def WalkSpecA : Prop :=
  ∀ (t : Tree) (i o extra : Nat),
    t.Shape → t.IsNode i o → extra ≤ 1 →
    (∀ j oj, t.IsNode j oj → j - (oj - 1) ≤ i - (o - 1) → i + (o - 1) ≤ j + (oj - 1) → o < oj →
        t.isUnused j = false) →
    rebalanceCond t.maxDepth (t.countRange 1 (t.rs + 1) + extra) t.rs 0 = false →
    ∃ j oj n, rebalanceLoop t (t.depth ⟨i, o⟩ - 1) ⟨i, o⟩
                (t.countRange (i - (o - 1)) (i + o) + extra) (2 * o - 1) = some (⟨j, oj⟩, n) ∧
      t.IsNode j oj ∧ j - (oj - 1) ≤ i - (o - 1) ∧ i + (o - 1) ≤ j + (oj - 1) ∧
      n = t.countRange (j - (oj - 1)) (j + oj) + extra ∧ 1 ≤ n ∧ n ≤ 2 * oj - 1 ∧
      rebalanceCond t.maxDepth n (2 * oj - 1) (t.depth ⟨j, oj⟩ - 1) = false ∧
      (rebalanceCond t.maxDepth (t.countRange (i - (o - 1)) (i + o) + extra) (2 * o - 1)
          (t.depth ⟨i, o⟩ - 1) = true → o < oj) ∧
      2 ^ (t.maxDepth - (t.depth ⟨i, o⟩ - 1)) - 1 = 2 * o - 1

/-- **`rebuild_bigger_tree`** on a non-empty tree: slot `p` moves to slot `2p`, the odd slots
    (the new leaves) are free; contents, `size_` and the up-closed shape are kept. -/
def BiggerSpec : Prop :=
  ∀ (t : Tree), t.Shape →
    let t' := rebuildBiggerTree t
    t'.Shape ∧ t'.rs = 2 * t.rs + 1 ∧ t'.maxDepth = t.maxDepth + 1 ∧ t'.size = t.size ∧
    (∀ p, 1 ≤ p → p ≤ t.rs → t'.cell (2 * p) = t.cell p) ∧
    (∀ p, p ≤ t.rs → t'.cell (2 * p + 1) = none) ∧
    t'.toList = t.toList ∧ t'.countRange 1 (t'.rs + 1) = t.countRange 1 (t.rs + 1) ∧
    (t.UpClosed → t'.UpClosed)

/-- **`rebuild_smaller_tree`** (`init(reserved_size/2)` + `move_data_from`): the stack loop
    terminates within its fuel, the elements are laid out half/half in a tree of half the slots. -/
def SmallerSpec : Prop :=
  ∀ (t : Tree), t.Shape → 7 ≤ t.rs → t.countRange 1 (t.rs + 1) = t.size → 1 ≤ t.size →
    t.size ≤ t.rs / 2 →
    ∃ t', rebuildSmallerTree t = some t' ∧ t'.Shape ∧ t'.rs = t.rs / 2 ∧
      t'.maxDepth = t.maxDepth - 1 ∧ t'.size = t.size ∧ t'.toList = t.toList ∧
      t'.countRange 1 (t'.rs + 1) = t.size ∧ t'.Balanced t'.maxDepth (t'.rs / 2 + 1) t.size

/-- **`CO_Tree(Iterator, n)`** on a non-empty sequence: the stack loop terminates within its
    fuel, the tree has `bulkRs n` slots and lists exactly the sequence, laid out half/half. -/
def BulkSpec : Prop :=
  ∀ (l : List (Nat × Int)), l ≠ [] →
    ∃ t, bulk l = some t ∧ t.Shape ∧ t.rs = bulkRs l.length ∧ t.size = l.length ∧
      t.toList = l ∧ t.countRange 1 (t.rs + 1) = l.length ∧
      t.Balanced t.maxDepth (t.rs / 2 + 1) l.length

/-- a whole tree in the half/half layout is up-closed -/
def BalancedUpClosedSpec : Prop :=
  ∀ (t : Tree) (n : Nat), t.Shape → t.Balanced t.maxDepth (t.rs / 2 + 1) n → t.UpClosed

/-! ## search, `rebalance`, `insert`, `erase` (statements; proofs in `ProofsRebIns*.lean`, `ProofsRebEra*.lean`) -/

/-- all used slots left of slot `lo` hold keys `< key`, all used slots right of `hi` keys `> key` -/
def Tree.Brackets (t : Tree) (lo hi key : Nat) : Prop :=
  (∀ p kv, 1 ≤ p → p < lo → t.cell p = some kv → kv.1 < key) ∧
  (∀ p kv, hi < p → p ≤ t.rs → t.cell p = some kv → key < kv.1)

/-- **`go_down_searching_key(key)`** from a used node `(s, so)` whose subtree is where `key`
    belongs: ends (fuel `max_depth` suffices) on a used node of that subtree holding `key`, or —
    when `key` is not stored — on the node next to which `key` has to be inserted: every other
    used slot before it has a smaller key, every used slot after it a larger one, and it is a leaf
    or its child on the side of `key` is unused. -/
def GoDownSpec : Prop :=
  ∀ (t : Tree) (key s so : Nat),
    t.Shape → SMap.Sorted t.toList → t.UpClosed → t.IsNode s so → t.isUnused s = false →
    t.Brackets (s - (so - 1)) (s + (so - 1)) key →
    let it := t.goDownSearchingKey key ⟨s, so⟩
    t.IsNode it.i it.offset ∧ t.isUnused it.i = false ∧
    s - (so - 1) ≤ it.i - (it.offset - 1) ∧ it.i + (it.offset - 1) ≤ s + (so - 1) ∧
    ((∃ p, s - (so - 1) ≤ p ∧ p ≤ s + (so - 1) ∧ ∃ v, t.cell p = some (key, v)) → t.keyAt it.i = key) ∧
    (t.keyAt it.i ≠ key →
      t.Brackets it.i it.i key ∧
      (it.isLeaf = false →
        t.isUnused (if key < t.keyAt it.i then it.getLeftChild else it.getRightChild).i = true))

/-- **`rebalance(itr, key, value)` for an insertion**: `itr` is a used leaf next to which `key`
    belongs, `size_` already counts the new element, the whole tree is within the root thresholds. -/
def RebalanceInsertSpec : Prop :=
  ∀ (t : Tree) (i key : Nat) (value : Int),
    t.Shape → 7 ≤ t.rs → SMap.Sorted t.toList → t.UpClosed → t.IsNode i 1 → t.isUnused i = false →
    t.keyAt i ≠ key → t.Brackets i i key → t.countRange 1 (t.rs + 1) + 1 = t.size →
    rebalanceCond t.maxDepth t.size t.rs 0 = false →
    ∃ t' j oj, rebalance t ⟨i, 1⟩ key value = some (t', ⟨j, oj⟩) ∧
      t'.Shape ∧ t'.rs = t.rs ∧ t'.maxDepth = t.maxDepth ∧ t'.size = t.size ∧
      t'.toList = SMap.set t.toList key value ∧ SMap.Sorted t'.toList ∧ t'.UpClosed ∧
      t'.countRange 1 (t'.rs + 1) = t.size ∧
      t'.IsNode j oj ∧ 1 < oj ∧ j - (oj - 1) ≤ i ∧ i ≤ j + (oj - 1) ∧ t'.isUnused j = false ∧
      (∃ p, j - (oj - 1) ≤ p ∧ p ≤ j + (oj - 1) ∧ t'.cell p = some (key, value)) ∧
      (∀ p, (p < j - (oj - 1) ∨ j + (oj - 1) < p) → t'.cell p = t.cell p) ∧
      (∀ h, oj = 2 ^ h → t'.Balanced (h + 1) j (t.countRange (j - (oj - 1)) (j + oj) + 1))

/-- **`rebalance(itr, 0, 0)` for a deletion**: `itr` is the freed slot, its subtree is empty, its
    proper ancestors are used, `size_` no longer counts the erased element. -/
def RebalanceEraseSpec : Prop :=
  ∀ (t : Tree) (i o : Nat),
    t.Shape → 7 ≤ t.rs → SMap.Sorted t.toList → t.UpClosed → t.IsNode i o →
    (∀ p, i - (o - 1) ≤ p → p ≤ i + (o - 1) → t.cell p = none) →
    (∀ j oj, t.IsNode j oj → j - (oj - 1) ≤ i - (o - 1) → i + (o - 1) ≤ j + (oj - 1) → o < oj →
        t.isUnused j = false) →
    t.countRange 1 (t.rs + 1) = t.size → 1 ≤ t.size →
    rebalanceCond t.maxDepth t.size t.rs 0 = false →
    ∃ t' j oj, rebalance t ⟨i, o⟩ 0 0 = some (t', ⟨j, oj⟩) ∧
      t'.Shape ∧ t'.rs = t.rs ∧ t'.maxDepth = t.maxDepth ∧ t'.size = t.size ∧
      t'.toList = t.toList ∧ t'.UpClosed ∧ t'.countRange 1 (t'.rs + 1) = t.size ∧
      t'.IsNode j oj ∧ o < oj ∧ j - (oj - 1) ≤ i - (o - 1) ∧ i + (o - 1) ≤ j + (oj - 1) ∧
      t'.isUnused j = false ∧
      (∀ p, (p < j - (oj - 1) ∨ j + (oj - 1) < p) → t'.cell p = t.cell p) ∧
      (∀ h, oj = 2 ^ h → t'.Balanced (h + 1) j (t.countRange (j - (oj - 1)) (j + oj)))

/-- **`CO_Tree::insert(key, data)`** refines the ordered map: every loop terminates, the result
    satisfies the invariant, lists `SMap.set`, the returned iterator is on the pair, and the
    sizes follow the density rule `afterInsert` of stage 1 when the key is new. -/
def InsertSpec : Prop :=
  (∀ (key : Nat) (value : Int),
      ∃ t' it, insert (init 0) key value = some (t', it) ∧ t'.Inv ∧ t'.toList = [(key, value)] ∧
        t'.cell it.i = some (key, value) ∧ t'.rs = 3 ∧ t'.size = 1) ∧
  (∀ (t : Tree) (key : Nat) (value : Int), t.Inv → 1 ≤ t.size →
      ∃ t' it, insert t key value = some (t', it) ∧ t'.Inv ∧
        t'.toList = SMap.set t.toList key value ∧ t'.cell it.i = some (key, value) ∧
        (t'.size, t'.rs) = (if SMap.stored t.toList key then (t.size, t.rs) else afterInsert t.size t.rs))

/-- **`CO_Tree::erase(key)`** refines the ordered map; the returned iterator is on the first
    element after `key` (`none` = `end()`); `rebuild_smaller_tree` runs exactly when stage 1's
    `afterErase` says so; erasing the only element gives the empty tree `init 0`. -/
def EraseSpec : Prop :=
  ∀ (t : Tree) (key : Nat), t.Inv → 1 ≤ t.size →
    ∃ t' r, erase t key = some (t', r) ∧
      (if t'.size = 0 then t' = init 0 else t'.Inv) ∧
      t'.toList = SMap.erase t.toList key ∧ r = SMap.next t.toList key ∧
      (t'.size, t'.rs) = (if SMap.stored t.toList key then afterErase t.size t.rs else (t.size, t.rs))

/-- **the `while (true)` of `erase(tree_iterator)`** (CO_Tree.cc:551): from a used node `(i, o)` the
    hole sinks — pulling up the in-order predecessor or successor — to a node `(e, oe)` of the
    same subtree with no used child; fuel `max_depth` suffices.  `t2` = the tree after
    `itr.index() = unused_index`. -/
def EraseSinkSpec : Prop :=
  ∀ (t : Tree) (i o : Nat),
    t.Shape → SMap.Sorted t.toList → t.UpClosed → t.IsNode i o → t.isUnused i = false →
    ∃ t1 e oe, eraseSink t t.maxDepth ⟨i, o⟩ = some (t1, ⟨e, oe⟩) ∧
      t1.IsNode e oe ∧ i - (o - 1) ≤ e - (oe - 1) ∧ e + (oe - 1) ≤ i + (o - 1) ∧
      (e ≠ i → oe < o) ∧ (e = i → oe = o) ∧
      let t2 := t1.setCell e none
      t2.Shape ∧ t2.rs = t.rs ∧ t2.maxDepth = t.maxDepth ∧ t2.size = t.size ∧
      t2.toList = SMap.erase t.toList (t.keyAt i) ∧ SMap.Sorted t2.toList ∧ t2.UpClosed ∧
      (∀ p, e - (oe - 1) ≤ p → p ≤ e + (oe - 1) → t2.cell p = none) ∧
      (∀ j oj, t2.IsNode j oj → j - (oj - 1) ≤ e - (oe - 1) → e + (oe - 1) ≤ j + (oj - 1) → oe < oj →
          t2.isUnused j = false) ∧
      (∀ p, (p < i - (o - 1) ∨ i + (o - 1) < p) → t2.cell p = t.cell p) ∧
      t2.countRange 1 (t2.rs + 1) + 1 = t.countRange 1 (t.rs + 1) ∧
      (e ≠ i → t2.isUnused i = false)

end PPLV.COTree
