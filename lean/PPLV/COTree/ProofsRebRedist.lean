import PPLV.COTree.ProofsRebRedistC
import PPLV.COTree.ProofsRebRedistD
import PPLV.COTree.ProofsRebRedistE

/-!
# C16 stage 2 — `redistribute_elements_in_subtree` and the half/half layout: the results

* `redistSpec : RedistSpec` — correctness and termination (within the fuel `2 * subtree_size`) of
  `redistributeElementsInSubtree`; `redistSpec_core` is the same statement where the subtree has
  to lie inside the array only when the new pair is pending; `redistSpec_of_shape` derives the
  bound from `t.Shape`.
* `balancedUpClosedSpec : BalancedUpClosedSpec`.
* `Tree.Balanced.count`, `balanced_sibling_arith`, `balanced_sibling_diff`.

The proofs are in `ProofsRebRedistBasic/A/B/C/D/E.lean` (namespace `PPLV.COTree.Redist`).
-/
namespace PPLV.COTree
open PPLV.COTree.Tree

/-- a node of a well-shaped tree has its whole subtree inside the array -/
theorem isNode_hi_le_rs {t : Tree} {i o : Nat} (hs : t.Shape) (hn : t.IsNode i o) :
    i + (o - 1) ≤ t.rs :=
  Redist.isNode_hi_le_rs t i o hs hn

/-- `RedistSpec` with the bound `i + (o-1) ≤ reserved_size` required only while the new pair is
    pending -/
theorem redistSpec_core (t : Tree) (i o n u key : Nat) (value : Int) (pend : Bool)
    (hnode : t.IsNode i o) (hL : pend = true → i + (o - 1) ≤ t.rs)
    (hcs : t.cells.size = t.rs + 2) (h1 : 1 ≤ n) (h2 : n ≤ 2 * o - 1)
    (hun : u + n = i + (o - 1) + 1 + (if pend then 1 else 0))
    (hnone : ∀ p, i - (o - 1) ≤ p → p < u → t.cell p = none)
    (hused : ∀ p, u ≤ p → p ≤ i + (o - 1) → t.isUnused p = false)
    (hpend : pend = true → SMap.Sorted (t.listRange u (i + o)) ∧
        (∀ q ∈ t.listRange u (i + o), q.1 ≠ key) ∧
        ∀ p, i + (o - 1) < p → p ≤ t.rs → ∀ kv, t.cell p = some kv → key < kv.1) :
    ∃ s, redistributeElementsInSubtree t i n u key value pend = some s ∧ s.addElement = false ∧
      t.FrameOn s.t (i - (o - 1)) (i + (o - 1)) ∧
      s.t.listRange (i - (o - 1)) (i + o) =
        (if pend then SMap.set (t.listRange u (i + o)) key value else t.listRange u (i + o)) ∧
      ∀ h, o = 2 ^ h → s.t.Balanced (h + 1) i n :=
  Redist.redistSpec_core t i o n u key value pend hnode hL hcs h1 h2 hun hnone hused hpend

/-- **`redistribute_elements_in_subtree`** is correct and terminates within `2 * subtree_size`
    iterations of its stack loop -/
theorem redistSpec : RedistSpec := by
  intro t i o n u key value pend hnode hL hcs h1 h2 hun hnone hused hpend
  exact redistSpec_core t i o n u key value pend hnode (fun _ => hL) hcs h1 h2 hun hnone hused hpend

/-- `RedistSpec` with `t.Shape` in place of the bound on the subtree -/
theorem redistSpec_of_shape (t : Tree) (i o n u key : Nat) (value : Int) (pend : Bool)
    (hs : t.Shape) (hnode : t.IsNode i o) (h1 : 1 ≤ n) (h2 : n ≤ 2 * o - 1)
    (hun : u + n = i + (o - 1) + 1 + (if pend then 1 else 0))
    (hnone : ∀ p, i - (o - 1) ≤ p → p < u → t.cell p = none)
    (hused : ∀ p, u ≤ p → p ≤ i + (o - 1) → t.isUnused p = false)
    (hpend : pend = true → SMap.Sorted (t.listRange u (i + o)) ∧
        (∀ q ∈ t.listRange u (i + o), q.1 ≠ key) ∧
        ∀ p, i + (o - 1) < p → p ≤ t.rs → ∀ kv, t.cell p = some kv → key < kv.1) :
    ∃ s, redistributeElementsInSubtree t i n u key value pend = some s ∧ s.addElement = false ∧
      t.FrameOn s.t (i - (o - 1)) (i + (o - 1)) ∧
      s.t.listRange (i - (o - 1)) (i + o) =
        (if pend then SMap.set (t.listRange u (i + o)) key value else t.listRange u (i + o)) ∧
      ∀ h, o = 2 ^ h → s.t.Balanced (h + 1) i n :=
  redistSpec t i o n u key value pend hnode (isNode_hi_le_rs hs hnode) hs.2.2.1 h1 h2 hun hnone
    hused hpend

/-- a whole tree in the half/half layout is up-closed -/
theorem balancedUpClosedSpec : BalancedUpClosedSpec :=
  fun t n hs hb => Redist.balancedUpClosed t n hs hb

/-- a `Balanced (h+1) i n` subtree (`i` a node with offset `2^h`; `2^h ≤ i` is all that is used)
    holds exactly `n` elements -/
theorem Tree.Balanced.count {t : Tree} {h i n : Nat} (hb : t.Balanced (h + 1) i n)
    (hi : 2 ^ h ≤ i) : t.countRange (i - (2 ^ h - 1)) (i + 2 ^ h) = n :=
  Redist.balanced_count t h i n hb hi

theorem Balanced.count {t : Tree} {h i n : Nat} (hb : t.Balanced (h + 1) i n)
    (hi : 2 ^ h ≤ i) : t.countRange (i - (2 ^ h - 1)) (i + 2 ^ h) = n :=
  Redist.balanced_count t h i n hb hi

/-- the same for a node given by `IsNode` -/
theorem Tree.Balanced.count_of_isNode {t : Tree} {h i n : Nat} (hb : t.Balanced (h + 1) i n)
    (hn : t.IsNode i (2 ^ h)) : t.countRange (i - (2 ^ h - 1)) (i + 2 ^ h) = n := by
  obtain ⟨h', m, e, rfl, -⟩ := hn
  exact Redist.balanced_count t h _ n hb (Nat.le_mul_of_pos_right _ (by omega))

/-- the child counts `(n+1)/2 - 1` and `n - (n+1)/2` of the half/half rule sum to `n - 1` and
    differ by at most one (the right one is the larger) -/
theorem balanced_sibling_arith (n : Nat) :
    ((n + 1) / 2 - 1) + (n - (n + 1) / 2) = n - 1 ∧
    (n + 1) / 2 - 1 ≤ n - (n + 1) / 2 ∧ n - (n + 1) / 2 ≤ ((n + 1) / 2 - 1) + 1 :=
  Redist.half_half_arith n

/-- in a non-empty `Balanced (h+2) i n` subtree the element counts of the two child subtrees
    (slots `[i - (2^(h+1) - 1), i)` and `(i, i + 2^(h+1))`) are `(n+1)/2 - 1` and `n - (n+1)/2`:
    they differ by at most one and, with the root, add up to `n` -/
theorem balanced_sibling_diff {t : Tree} {h i n : Nat} (hb : t.Balanced (h + 2) i n) (hn : n ≠ 0)
    (hi : 2 ^ (h + 1) ≤ i) :
    t.countRange (i - (2 ^ (h + 1) - 1)) i = (n + 1) / 2 - 1 ∧
    t.countRange (i + 1) (i + 2 ^ (h + 1)) = n - (n + 1) / 2 ∧
    t.countRange (i - (2 ^ (h + 1) - 1)) i ≤ t.countRange (i + 1) (i + 2 ^ (h + 1)) ∧
    t.countRange (i + 1) (i + 2 ^ (h + 1)) ≤ t.countRange (i - (2 ^ (h + 1) - 1)) i + 1 ∧
    t.countRange (i - (2 ^ (h + 1) - 1)) i + 1 + t.countRange (i + 1) (i + 2 ^ (h + 1)) = n := by
  obtain ⟨cl, cr⟩ := Redist.balanced_children_count t h i n hb hn hi
  rw [cl, cr]
  refine ⟨rfl, rfl, ?_⟩
  omega

end PPLV.COTree
