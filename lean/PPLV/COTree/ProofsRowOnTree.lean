import PPLV.COTree.ProofsRowOnTreeG

/-!
# C16 stage 3 — `Sparse_Row` on the tree refines the abstract sparse row: `SparseRowOnTreeSpec`

The hinted insertions are taken from `InsertHintedSpec` / `InsertHinted0Spec`
(`RebalanceHint.lean`); everything else rests on `insertSpec`, `eraseSpec`, `goDownSpec` and the
stage-1 `bisect` theorems.  Proofs: `ProofsRowOnTreeA … G.lean` (namespace `PPLV.COTree.RowT`).
-/
namespace PPLV.COTree

theorem sparseRowOnTreeSpec_of (hh : InsertHintedSpec) (hh0 : InsertHinted0Spec) :
    SparseRowOnTreeSpec :=
  ⟨RowT.insert_ok,
   fun r hint i x hv hhint hi => RowT.insertHint_ok hh r hint i x hv hhint hi,
   fun r i hv hi => RowT.insert0_ok hh0 r i hv hi,
   fun r hint i hv hhint hi => RowT.insert0Hint_ok hh0 r hint i hv hhint hi,
   RowT.reset_ok,
   RowT.resetAt_ok,
   RowT.find_ok,
   RowT.lowerBound_ok,
   RowT.resetAfter_ok,
   RowT.addZeroesAndShift_ok,
   RowT.deleteElementAndShift_ok,
   fun r i j hv hi hj => RowT.swapCoefficients_ok hh0 r i j hv hi hj⟩

end PPLV.COTree
