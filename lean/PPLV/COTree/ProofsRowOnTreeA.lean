import PPLV.COTree.RowOnTree
import PPLV.COTree.ProofsRebFinal
import PPLV.COTree.ProofsRebSink
import PPLV.COTree.ProofsRebFill
import PPLV.COTree.ProofsRebEraTop
import PPLV.COTree.ProofsRebBridge
import PPLV.COTree.ProofsBisect

/-!
# C16 stage 3 — `Sparse_Row` on the tree: insertions, `reset(i)`, `find`, `lower_bound`
-/
namespace PPLV.COTree
open PPLV.COTree.Tree

/-- `EraseSpec`, unconditionally -/
theorem eraseSpec : EraseSpec := eraseSpec_of goDownSpec eraseSinkSpec rebalanceEraseSpec smallerSpec

namespace RowT

theorem init0_toList : (init 0).toList = [] := rfl
theorem init0_size : (init 0).size = 0 := rfl
theorem init0_rs : (init 0).rs = 0 := rfl

theorem set_ne_nil : ∀ (m : SMap) (i : Nat) (v : Int), SMap.set m i v ≠ []
  | [], _, _ => by simp [SMap.set]
  | (k, x) :: t, i, v => by
    unfold SMap.set
    split
    · simp
    · split <;> simp

theorem touch_ne_nil (m : SMap) (i : Nat) : SMap.touch m i ≠ [] := by
  unfold SMap.touch
  cases h : SMap.find? m i with
  | some v =>
    intro e
    have e' : m = [] := e
    subst e'
    simp [SMap.find?] at h
  | none => exact set_ne_nil m i 0

/-- a tree with the invariant and a non-empty listing has `size_ ≥ 1` -/
theorem size_pos (t : Tree) (hi : t.Inv) (hne : t.toList ≠ []) : 1 ≤ t.size := by
  rw [← hi.count, ← Tree.length_listRange]
  cases h : t.listRange 1 (t.rs + 1) with
  | nil => exact absurd h hne
  | cons a l => simp

theorem valid_of_inv {n : Nat} {t : Tree} (hi : t.Inv) (hne : t.toList ≠ [])
    (hb : SMap.Below t.toList n) : TRow.Valid ⟨n, t⟩ :=
  ⟨Or.inr ⟨hi, size_pos t hi hne⟩, hb⟩

theorem insert_init0 (key : Nat) :
    insertHinted0 (init 0) none key = PPLV.COTree.insert (init 0) key 0 := rfl

theorem insert_init0_hint (hint : Hint) (key : Nat) :
    insertHinted0 (init 0) hint key = PPLV.COTree.insert (init 0) key 0 := rfl

theorem validHint_none (t : Tree) : t.ValidHint none := by
  intro h e; cases e

/-- `Sparse_Row::insert(i, x)` -/
theorem insert_ok (r : TRow) (i : Nat) (x : Int) (hv : r.Valid) (hi : i < r.size) :
    ∃ r' it, r.insert i x = some (r', it) ∧ r'.Valid ∧
      r'.toSRow = RowOp.sparse r.toSRow (.set i x) ∧ r'.tree.cell it.i = some (i, x) := by
  obtain ⟨hcase, hb⟩ := hv
  rcases hcase with he | ⟨hinv, h1⟩
  · obtain ⟨t', it, h, hI, htl, hc, -, -⟩ := insertSpec.1 i x
    refine ⟨⟨r.size, t'⟩, it, ?_, ?_, ?_, hc⟩
    · unfold TRow.insert; rw [he, h]; rfl
    · apply valid_of_inv hI (by rw [htl]; simp)
      rw [htl]; intro p hp; simp at hp; rw [hp]; exact hi
    · unfold TRow.toSRow RowOp.sparse
      simp only [htl, he, init0_toList]
      rfl
  · obtain ⟨t', it, h, hI, htl, hc, -⟩ := insertSpec.2 r.tree i x hinv h1
    refine ⟨⟨r.size, t'⟩, it, ?_, ?_, ?_, hc⟩
    · unfold TRow.insert; rw [h]; rfl
    · apply valid_of_inv hI (by rw [htl]; exact set_ne_nil _ _ _)
      rw [htl]; exact SMap.below_set x hb hi
    · unfold TRow.toSRow RowOp.sparse
      simp only [htl]

/-- `Sparse_Row::insert(itr, i, x)`, any valid hint -/
theorem insertHint_ok (hh : InsertHintedSpec) (r : TRow) (hint : Hint) (i : Nat) (x : Int)
    (hv : r.Valid) (hhint : r.tree.ValidHint hint) (hi : i < r.size) :
    ∃ r' it, r.insertHint hint i x = some (r', it) ∧ r'.Valid ∧
      r'.toSRow = RowOp.sparse r.toSRow (.set i x) ∧ r'.tree.cell it.i = some (i, x) := by
  obtain ⟨hcase, hb⟩ := hv
  rcases hcase with he | ⟨hinv, h1⟩
  · obtain ⟨t', it, h, hI, htl, hc⟩ := hh.1 hint i x
    refine ⟨⟨r.size, t'⟩, it, ?_, ?_, ?_, hc⟩
    · unfold TRow.insertHint; rw [he, h]; rfl
    · apply valid_of_inv hI (by rw [htl]; simp)
      rw [htl]; intro p hp; simp at hp; rw [hp]; exact hi
    · unfold TRow.toSRow RowOp.sparse
      simp only [htl, he, init0_toList]
      rfl
  · obtain ⟨t', it, h, hI, htl, hc, -⟩ := hh.2 r.tree hint i x hinv h1 hhint
    refine ⟨⟨r.size, t'⟩, it, ?_, ?_, ?_, hc⟩
    · unfold TRow.insertHint; rw [h]; rfl
    · apply valid_of_inv hI (by rw [htl]; exact set_ne_nil _ _ _)
      rw [htl]; exact SMap.below_set x hb hi
    · unfold TRow.toSRow RowOp.sparse
      simp only [htl]

/-- `Sparse_Row::insert(itr, i)` (and `insert(i)` for `hint = none`), any valid hint -/
theorem insert0Hint_ok (hh0 : InsertHinted0Spec) (r : TRow) (hint : Hint) (i : Nat)
    (hv : r.Valid) (hhint : r.tree.ValidHint hint) (hi : i < r.size) :
    ∃ r' it, r.insert0Hint hint i = some (r', it) ∧ r'.Valid ∧
      r'.toSRow = RowOp.sparse r.toSRow (.touch i) ∧
      r'.tree.cell it.i = some (i, SMap.get r.tree.toList i) := by
  obtain ⟨hcase, hb⟩ := hv
  rcases hcase with he | ⟨hinv, h1⟩
  · obtain ⟨t', it, h, hI, htl, hc, -, -⟩ := insertSpec.1 i 0
    refine ⟨⟨r.size, t'⟩, it, ?_, ?_, ?_, ?_⟩
    · unfold TRow.insert0Hint; rw [he, insert_init0_hint, h]; rfl
    · apply valid_of_inv hI (by rw [htl]; simp)
      rw [htl]; intro p hp; simp at hp; rw [hp]; exact hi
    · unfold TRow.toSRow RowOp.sparse
      simp only [htl, he, init0_toList]
      rfl
    · rw [hc, he, init0_toList]; rfl
  · obtain ⟨t', it, h, hI, htl, hc, -⟩ := hh0 r.tree hint i hinv h1 hhint
    refine ⟨⟨r.size, t'⟩, it, ?_, ?_, ?_, hc⟩
    · unfold TRow.insert0Hint; rw [h]; rfl
    · apply valid_of_inv hI (by rw [htl]; exact touch_ne_nil _ _)
      rw [htl]; exact SMap.below_touch hb hi
    · unfold TRow.toSRow RowOp.sparse
      simp only [htl]

theorem insert0_ok (hh0 : InsertHinted0Spec) (r : TRow) (i : Nat) (hv : r.Valid) (hi : i < r.size) :
    ∃ r' it, r.insert0 i = some (r', it) ∧ r'.Valid ∧
      r'.toSRow = RowOp.sparse r.toSRow (.touch i) ∧
      r'.tree.cell it.i = some (i, SMap.get r.tree.toList i) :=
  insert0Hint_ok hh0 r none i hv (validHint_none _) hi

/-- `Sparse_Row::reset(i)` -/
theorem reset_ok (r : TRow) (i : Nat) (hv : r.Valid) :
    ∃ r', r.reset i = some r' ∧ r'.Valid ∧ r'.toSRow = RowOp.sparse r.toSRow (.reset i) := by
  obtain ⟨hcase, hb⟩ := hv
  rcases hcase with he | ⟨hinv, h1⟩
  · refine ⟨r, ?_, ⟨Or.inl he, hb⟩, ?_⟩
    · unfold TRow.reset; rw [he]
      cases r; subst he; rfl
    · unfold TRow.toSRow RowOp.sparse
      simp only [he, init0_toList]; rfl
  · obtain ⟨t', k, h, hI, htl, -, -⟩ := eraseSpec r.tree i hinv h1
    refine ⟨⟨r.size, t'⟩, ?_, ⟨?_, ?_⟩, ?_⟩
    · unfold TRow.reset; rw [h]; rfl
    · by_cases h0 : t'.size = 0
      · rw [if_pos h0] at hI; exact Or.inl hI
      · rw [if_neg h0] at hI; exact Or.inr ⟨hI, Nat.pos_of_ne_zero h0⟩
    · show SMap.Below t'.toList r.size
      rw [htl]; exact SMap.Below.filter _ hb
    · unfold TRow.toSRow RowOp.sparse
      simp only [htl]

end RowT
end PPLV.COTree
