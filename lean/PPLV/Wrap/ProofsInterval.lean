import PPLV.Wrap.ProofsArith

/-! # C17 lemmas, part 5: `Interval::wrap_assign` over rational boundaries; the executable image test -/
namespace PPLV.Wrap
open PPLV.Lin

/-! ### the executable image test is the specification -/

theorem inRangeB_iff (r : Repn) (w : Nat) (z : Int) : inRangeB r w z = true ↔ inRange r w z := by
  simp [inRangeB, inRange]

theorem coordImageB_iff (cfg : WrapCfg) (z z' : Int) :
    coordImageB cfg z z' = true ↔ Spec.CoordImage cfg (z : Rat) (z' : Rat) := by
  unfold coordImageB Spec.CoordImage
  constructor
  · intro h
    refine ⟨z, rfl, ?_⟩
    cases ho : cfg.o <;> rw [ho] at h <;> simp only at h ⊢
    · have : z' = wrapR cfg.r cfg.w z := by simpa using h
      rw [this]
    · by_cases hr : inRangeB cfg.r cfg.w z = true
      · rw [if_pos hr] at h
        have : z' = z := by simpa using h
        exact Or.inl ⟨(inRangeB_iff _ _ _).mp hr, by rw [this]⟩
      · rw [if_neg hr] at h
        exact Or.inr ⟨fun h' => hr ((inRangeB_iff _ _ _).mpr h'), z', (inRangeB_iff _ _ _).mp h, rfl⟩
    · simp only [Bool.and_eq_true, beq_iff_eq] at h
      exact ⟨(inRangeB_iff _ _ _).mp h.1, by rw [h.2]⟩
  · rintro ⟨z1, hz, h⟩
    have : z1 = z := by exact_mod_cast hz.symm
    subst this
    cases ho : cfg.o <;> rw [ho] at h <;> simp only at h ⊢
    · have : z' = wrapR cfg.r cfg.w z1 := by exact_mod_cast h
      simp [this]
    · rcases h with ⟨hr, h⟩ | ⟨hn, z2, hr, h⟩
      · rw [if_pos ((inRangeB_iff _ _ _).mpr hr)]
        have : z' = z1 := by exact_mod_cast h
        simp [this]
      · rw [if_neg (fun h' => hn ((inRangeB_iff _ _ _).mp h'))]
        have : z' = z2 := by exact_mod_cast h
        rw [this]; exact (inRangeB_iff _ _ _).mpr hr
    · have : z' = z1 := by exact_mod_cast h.2
      simp [this, (inRangeB_iff _ _ _).mpr h.1]

/-! ### boundaries -/

theorem memLo_closed_of (o : Option (Rat × Bool)) (q : Rat) (h : Itv.memLo o q) :
    ∀ l op, o = some (l, op) → l ≤ q := by
  intro l op ho; subst ho
  simp only [Itv.memLo] at h
  split at h
  · exact le_of_lt h
  · exact h

theorem memHi_closed_of (o : Option (Rat × Bool)) (q : Rat) (h : Itv.memHi q o) :
    ∀ u op, o = some (u, op) → q ≤ u := by
  intro u op ho; subst ho
  simp only [Itv.memHi] at h
  split at h
  · exact le_of_lt h
  · exact h

theorem not_mem_of_isEmpty (I : Itv) (q : Rat) (he : I.isEmpty = true) : ¬ I.mem q := by
  intro hm
  unfold Itv.isEmpty at he
  obtain ⟨h1, h2⟩ := hm
  cases hlo : I.lo with
  | none => rw [hlo] at he; simp at he
  | some a =>
    cases hhi : I.hi with
    | none => rw [hlo, hhi] at he; simp at he
    | some b =>
      obtain ⟨l, lo⟩ := a
      obtain ⟨u, uo⟩ := b
      rw [hlo, hhi] at he
      rw [hlo] at h1; rw [hhi] at h2
      simp only [Itv.memLo, Itv.memHi] at h1 h2
      simp only [Bool.or_eq_true, decide_eq_true_eq, Bool.and_eq_true] at he
      rcases he with he | ⟨he, hflag⟩
      · split at h1 <;> split at h2 <;> linarith
      · subst he
        rcases hflag with hf | hf <;> subst hf
        · simp only [↓reduceIte] at h1; split at h2 <;> linarith
        · simp only [↓reduceIte] at h2; split at h1 <;> linarith

theorem memLo_maxLo (a b : Option (Rat × Bool)) (q : Rat) (ha : Itv.memLo a q) (hb : Itv.memLo b q) :
    Itv.memLo (Itv.maxLo a b) q := by
  cases a with
  | none => simpa [Itv.maxLo] using hb
  | some x =>
    cases b with
    | none => simpa [Itv.maxLo] using ha
    | some y =>
      obtain ⟨a, ao⟩ := x; obtain ⟨b, bo⟩ := y
      simp only [Itv.maxLo]
      split
      · exact hb
      · split
        · exact ha
        · rename_i h1 h2
          have : a = b := le_antisymm (not_lt.mp h2) (not_lt.mp h1)
          subst this
          simp only [Itv.memLo] at ha hb ⊢
          cases ao <;> cases bo <;> simp_all

theorem memHi_minHi (a b : Option (Rat × Bool)) (q : Rat) (ha : Itv.memHi q a) (hb : Itv.memHi q b) :
    Itv.memHi q (Itv.minHi a b) := by
  cases a with
  | none => simpa [Itv.minHi] using hb
  | some x =>
    cases b with
    | none => simpa [Itv.minHi] using ha
    | some y =>
      obtain ⟨a, ao⟩ := x; obtain ⟨b, bo⟩ := y
      simp only [Itv.minHi]
      split
      · exact ha
      · split
        · exact hb
        · rename_i h1 h2
          have : a = b := le_antisymm (not_lt.mp h2) (not_lt.mp h1)
          subst this
          simp only [Itv.memHi] at ha hb ⊢
          cases ao <;> cases bo <;> simp_all

theorem mem_inter (I J : Itv) (q : Rat) (hI : I.mem q) (hJ : J.mem q) : (I.inter J).mem q :=
  ⟨memLo_maxLo _ _ _ hI.1 hJ.1, memHi_minHi _ _ _ hI.2 hJ.2⟩

theorem memLo_minLo_left (a b : Option (Rat × Bool)) (q : Rat) (ha : Itv.memLo a q) :
    Itv.memLo (Itv.minLo a b) q := by
  cases a with
  | none => simp [Itv.minLo, Itv.memLo]
  | some x =>
    cases b with
    | none => simp [Itv.minLo, Itv.memLo]
    | some y =>
      obtain ⟨a, ao⟩ := x; obtain ⟨b, bo⟩ := y
      simp only [Itv.minLo]
      split
      · exact ha
      · split
        · rename_i h1 h2
          simp only [Itv.memLo] at ha ⊢
          split at ha <;> split <;> linarith
        · rename_i h1 h2
          have : a = b := le_antisymm (not_lt.mp h2) (not_lt.mp h1)
          subst this
          simp only [Itv.memLo] at ha ⊢
          cases ao <;> cases bo <;> simp_all <;> exact le_of_lt ha

theorem memLo_minLo_right (a b : Option (Rat × Bool)) (q : Rat) (hb : Itv.memLo b q) :
    Itv.memLo (Itv.minLo a b) q := by
  cases a with
  | none => simp [Itv.minLo, Itv.memLo]
  | some x =>
    cases b with
    | none => simp [Itv.minLo, Itv.memLo]
    | some y =>
      obtain ⟨a, ao⟩ := x; obtain ⟨b, bo⟩ := y
      simp only [Itv.minLo]
      split
      · rename_i h1
        simp only [Itv.memLo] at hb ⊢
        split at hb <;> split <;> linarith
      · split
        · exact hb
        · rename_i h1 h2
          have : a = b := le_antisymm (not_lt.mp h2) (not_lt.mp h1)
          subst this
          simp only [Itv.memLo] at hb ⊢
          cases ao <;> cases bo <;> simp_all <;> exact le_of_lt hb

theorem memHi_maxHi_left (a b : Option (Rat × Bool)) (q : Rat) (ha : Itv.memHi q a) :
    Itv.memHi q (Itv.maxHi a b) := by
  cases a with
  | none => simp [Itv.maxHi, Itv.memHi]
  | some x =>
    cases b with
    | none => simp [Itv.maxHi, Itv.memHi]
    | some y =>
      obtain ⟨a, ao⟩ := x; obtain ⟨b, bo⟩ := y
      simp only [Itv.maxHi]
      split
      · rename_i h1
        simp only [Itv.memHi] at ha ⊢
        split at ha <;> split <;> linarith
      · split
        · exact ha
        · rename_i h1 h2
          have : a = b := le_antisymm (not_lt.mp h2) (not_lt.mp h1)
          subst this
          simp only [Itv.memHi] at ha ⊢
          cases ao <;> cases bo <;> simp_all <;> exact le_of_lt ha

theorem memHi_maxHi_right (a b : Option (Rat × Bool)) (q : Rat) (hb : Itv.memHi q b) :
    Itv.memHi q (Itv.maxHi a b) := by
  cases a with
  | none => simp [Itv.maxHi, Itv.memHi]
  | some x =>
    cases b with
    | none => simp [Itv.maxHi, Itv.memHi]
    | some y =>
      obtain ⟨a, ao⟩ := x; obtain ⟨b, bo⟩ := y
      simp only [Itv.maxHi]
      split
      · exact hb
      · split
        · rename_i h1 h2
          simp only [Itv.memHi] at hb ⊢
          split at hb <;> split <;> linarith
        · rename_i h1 h2
          have : a = b := le_antisymm (not_lt.mp h2) (not_lt.mp h1)
          subst this
          simp only [Itv.memHi] at hb ⊢
          cases ao <;> cases bo <;> simp_all <;> exact le_of_lt hb

theorem mem_hull_left (I J : Itv) (q : Rat) (hI : I.mem q) : (I.hull J).mem q := by
  unfold Itv.hull
  split
  · rename_i he; exact absurd hI (not_mem_of_isEmpty I q he)
  · split
    · exact hI
    · exact ⟨memLo_minLo_left _ _ _ hI.1, memHi_maxHi_left _ _ _ hI.2⟩

theorem mem_hull_right (I J : Itv) (q : Rat) (hJ : J.mem q) : (I.hull J).mem q := by
  unfold Itv.hull
  split
  · exact hJ
  · split
    · rename_i he; exact absurd hJ (not_mem_of_isEmpty J q he)
    · exact ⟨memLo_minLo_right _ _ _ hJ.1, memHi_maxHi_right _ _ _ hJ.2⟩

/-! ### the modulus of a rational boundary -/

theorem modR_spec (r : Repn) (w : Nat) (x : Rat) :
    ∃ k : Int, modR r w x = x - (k : Rat) * ((pow2 w : Int) : Rat) ∧
      ((minValue r w : Int) : Rat) ≤ modR r w x ∧
      modR r w x < ((minValue r w : Int) : Rat) + ((pow2 w : Int) : Rat) := by
  have hp : (0 : Rat) < ((pow2 w : Int) : Rat) := by exact_mod_cast pow2_pos w
  unfold modR
  simp only []
  generalize ((pow2 w : Int) : Rat) = p at hp ⊢
  generalize ((minValue r w : Int) : Rat) = m
  refine ⟨((x - m) / p).floor, rfl, ?_, ?_⟩
  · have h1 : ((((x - m) / p).floor : Int) : Rat) ≤ (x - m) / p := Rat.floor_le _
    have h2 : ((((x - m) / p).floor : Int) : Rat) * p ≤ x - m := by
      rw [le_div_iff₀ hp] at h1; exact h1
    linarith
  · have h1 : (x - m) / p < ((((x - m) / p).floor : Int) : Rat) + 1 := by
      have := Rat.lt_floor_add_one ((x - m) / p)
      push_cast at this; exact this
    have h2 : x - m < (((((x - m) / p).floor : Int) : Rat) + 1) * p := by
      rw [div_lt_iff₀ hp] at h1; exact h1
    linarith

/-- an integer multiple of a positive `p` below `p` is at most `0` -/
theorem int_mul_lt_one {a : Int} {p : Rat} (hp : 0 < p) (h : (a : Rat) * p < p) : a ≤ 0 := by
  by_contra hc
  have h1 : (1 : Rat) ≤ (a : Rat) := by exact_mod_cast (by omega : 1 ≤ a)
  nlinarith

/-- the arithmetic core: boundaries `l ≤ z ≤ u` less than one period apart, each reduced into the
period `[m, m+p)` by an integer number of periods -/
theorem wrap_core (p m l u l2 u2 wz zq : Rat) (kl ku q : Int) (hp : 0 < p)
    (hl2 : l2 = l - (kl : Rat) * p) (hl2a : m ≤ l2) (hl2b : l2 < m + p)
    (hu2 : u2 = u - (ku : Rat) * p) (hu2a : m ≤ u2) (hu2b : u2 < m + p)
    (hwz : wz = zq - (q : Rat) * p) (hwa : m ≤ wz) (hwb : wz < m + p)
    (hlz : l ≤ zq) (hzu : zq ≤ u) (hwidth : u - l < p) :
    (l2 ≤ u2 → l2 ≤ wz ∧ wz ≤ u2) ∧ (¬ l2 ≤ u2 → l2 ≤ wz ∨ wz ≤ u2) := by
  have h1 : kl ≤ q := by
    have : ((kl - q : Int) : Rat) * p < p := by push_cast; nlinarith
    have := int_mul_lt_one hp this; omega
  have h2 : q ≤ ku := by
    have : ((q - ku : Int) : Rat) * p < p := by push_cast; nlinarith
    have := int_mul_lt_one hp this; omega
  have h3 : ku ≤ kl + 1 := by
    have : ((ku - kl - 1 : Int) : Rat) * p < p := by push_cast; nlinarith
    have := int_mul_lt_one hp this; omega
  constructor
  · intro hle
    have hk : ku = kl := by
      by_contra hne
      have : ku = kl + 1 := by omega
      subst this
      push_cast at hu2
      nlinarith
    subst hk
    have hq : q = ku := by omega
    subst hq
    constructor <;> nlinarith
  · intro hnle
    have hk : ku = kl + 1 := by
      by_contra hne
      have : ku = kl := by omega
      subst this
      apply hnle
      nlinarith
    by_cases hq : q = kl
    · subst hq; left; nlinarith
    · have hq : q = ku := by omega
      subst hq; right; nlinarith

/-- **soundness of `Interval::wrap_assign`**, for the repaired comparison, and for the comparison as
written when the width is not exactly `2^w` -/
theorem ivWrap_sound (strictTest : Bool) (I : Itv) (w : Nat) (r : Repn) (ref : Itv)
    (h : strictTest = false ∨
      ∀ l lo u uo, I.lo = some (l, lo) → I.hi = some (u, uo) → u - l ≠ ((2 : Int) ^ w : Int))
    (z : Int) (hz : I.mem (z : Rat)) (hr : ref.mem ((wrapR r w z : Int) : Rat)) :
    (ivWrap strictTest I w r ref).mem ((wrapR r w z : Int) : Rat) := by
  unfold ivWrap
  split
  · rename_i he; exact absurd hz (not_mem_of_isEmpty I _ he)
  · split
    · rename_i l lo u uo hlo hhi
      simp only []
      by_cases htest : (if strictTest = true then decide (l < u - ((pow2 w : Int) : Rat))
          else decide (l ≤ u - ((pow2 w : Int) : Rat))) = true
      · rw [if_pos htest]; exact hr
      · rw [if_neg htest]
        have hp : (0 : Rat) < ((pow2 w : Int) : Rat) := by exact_mod_cast pow2_pos w
        have hlz : l ≤ (z : Rat) := memLo_closed_of _ _ hz.1 l lo hlo
        have hzu : (z : Rat) ≤ u := memHi_closed_of _ _ hz.2 u uo hhi
        have hwidth : u - l < ((pow2 w : Int) : Rat) := by
          rcases h with h | h
          · subst h
            simp only [Bool.false_eq_true, ↓reduceIte, decide_eq_true_eq, not_le] at htest
            linarith
          · have hne := h l lo u uo hlo hhi
            have hne' : u - l ≠ ((pow2 w : Int) : Rat) := by
              intro he; apply hne; rw [he]; simp [pow2]
            cases strictTest
            · simp only [Bool.false_eq_true, ↓reduceIte, decide_eq_true_eq, not_le] at htest
              linarith
            · simp only [↓reduceIte, decide_eq_true_eq, not_lt] at htest
              exact lt_of_le_of_ne (by linarith) hne'
        obtain ⟨kl, hl2, hl2a, hl2b⟩ := modR_spec r w l
        obtain ⟨ku, hu2, hu2a, hu2b⟩ := modR_spec r w u
        have hwz : ((wrapR r w z : Int) : Rat)
            = (z : Rat) - ((quadrant r w z : Int) : Rat) * ((pow2 w : Int) : Rat) := by
          rw [wrapR_eq_sub]; push_cast; rfl
        have hwr := wrapR_inRange r w z
        have hwa : ((minValue r w : Int) : Rat) ≤ ((wrapR r w z : Int) : Rat) := by exact_mod_cast hwr.1
        have hwb : ((wrapR r w z : Int) : Rat) < ((minValue r w : Int) : Rat) + ((pow2 w : Int) : Rat) := by
          have h1 : wrapR r w z < minValue r w + pow2 w := by
            have := hwr.2; unfold maxValue at this; omega
          have : ((wrapR r w z : Int) : Rat) < ((minValue r w + pow2 w : Int) : Rat) := by exact_mod_cast h1
          push_cast at this; exact this
        obtain ⟨c1, c2⟩ := wrap_core _ _ l u _ _ _ _ kl ku _ hp hl2 hl2a hl2b hu2 hu2a hu2b hwz hwa hwb hlz hzu hwidth
        split
        · rename_i hle
          obtain ⟨a1, a2⟩ := c1 hle
          apply mem_inter _ _ _ _ hr
          constructor
          · show Itv.memLo (some (_, false)) _
            simpa [Itv.memLo] using a1
          · show Itv.memHi _ (some (_, false))
            simpa [Itv.memHi] using a2
        · rename_i hnle
          rcases c2 hnle with a1 | a2
          · apply mem_hull_left
            apply mem_inter _ _ _ _ hr
            constructor
            · show Itv.memLo (some (_, false)) _
              simpa [Itv.memLo] using a1
            · trivial
          · apply mem_hull_right
            apply mem_inter _ _ _ _ hr
            constructor
            · trivial
            · show Itv.memHi _ (some (_, false))
              simpa [Itv.memHi] using a2
    · exact hr

end PPLV.Wrap
