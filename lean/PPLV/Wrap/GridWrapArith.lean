import PPLV.Wrap.GridWrap
import PPLV.Wrap.ProofsArith
import Mathlib.Tactic.Linarith
import Mathlib.Tactic.Ring
import Mathlib.Data.Rat.Lemmas

/-!
# `Grid::wrap_assign` lemmas, part 1: integer arithmetic of the range, of the wrapped constant and of the
  pinned value; two facts on reduced fractions
-/
namespace PPLV.Wrap.GW
open PPLV.Wrap

/-! ### helpers -/

theorem wrapFrequency_eq (w : Nat) : wrapFrequency w = pow2 w := rfl

/-- the truncating remainder by a positive modulus: congruent, strictly between `-P` and `P` -/
theorem tmod_spec (a P : Int) (hP : 0 < P) :
    ∃ q : Int, a = Int.tmod a P + q * P ∧ -P < Int.tmod a P ∧ Int.tmod a P < P := by
  refine ⟨a.tdiv P, (Int.tmod_add_tdiv_mul a P).symm, ?_, Int.tmod_lt_of_pos a hP⟩
  have h := Int.tmod_lt_of_pos (-a) hP
  rw [Int.neg_tmod] at h
  omega

/-- two congruent values, `b` in the window `[m, m+f)`, `a` in `[m, M]` where the next value `b + f` is
    already above `M`: they are equal -/
theorem eq_of_window (f m M a b k : Int) (hf : 0 < f) (hab : a = b + k * f)
    (ha1 : m ≤ a) (ha2 : a ≤ M) (hb2 : b < m + f) (hc : b + f > M) : a = b := by
  rcases lt_trichotomy k 0 with hk | hk | hk
  · have : k * f ≤ -f := by nlinarith
    linarith
  · subst hk; linarith
  · have : f ≤ k * f := by nlinarith
    linarith

theorem minValue_bounds (r : Repn) (w : Nat) : -pow2 w ≤ minValue r w ∧ minValue r w ≤ 0 := by
  have hP := pow2_pos w
  cases r with
  | unsigned => simp only [minValue]; omega
  | signed => simp only [minValue, half]; omega

/-- one correction step brings a value of `(-P, P)` into the window `[m, m + P)` when `-P ≤ m ≤ 0` -/
theorem correct_window (P m s : Int) (hm1 : -P ≤ m) (hm2 : m ≤ 0) (hlo : -P < s) (hhi : s < P) :
    m ≤ (if s < m then s + P else if s > m + P - 1 then s - P else s) ∧
    (if s < m then s + P else if s > m + P - 1 then s - P else s) < m + P ∧
    ∃ k : Int, (if s < m then s + P else if s > m + P - 1 then s - P else s) = s + k * P := by
  split_ifs with h1 h2
  · exact ⟨by omega, by omega, 1, by ring⟩
  · exact ⟨by omega, by omega, -1, by ring⟩
  · exact ⟨by omega, by omega, 0, by ring⟩

/-- the wrapped value is THE value of the window `[min, min + 2^w)` congruent to `z` modulo `2^w` -/
theorem wrapR_unique (r : Repn) (w : Nat) (z y k : Int) (h1 : minValue r w ≤ y)
    (h2 : y < minValue r w + pow2 w) (hy : y = z + k * pow2 w) : wrapR r w z = y := by
  have hP := pow2_pos w
  have hr := wrapR_inRange r w z
  have he := wrapR_eq_sub r w z
  unfold inRange maxValue at hr
  refine eq_of_window (pow2 w) (minValue r w) (minValue r w + pow2 w - 1) _ _
    (-quadrant r w z - k) hP ?_ hr.1 hr.2 h2 (by omega)
  rw [he, hy]; ring

/-- the range computed at Grid_public.cc:3013-3023 is the range of the specification (`w ≥ 1`: the enum
    `Bounded_Integer_Type_Width` has 8…128) -/
theorem rangeOf_eq (r : Repn) (w : Nat) (hw : 0 < w) : rangeOf r w = (minValue r w, maxValue r w) := by
  obtain ⟨k, rfl⟩ : ∃ k, w = k + 1 := ⟨w - 1, by omega⟩
  cases r with
  | unsigned => simp [rangeOf, minValue, maxValue, pow2]
  | signed =>
    have hh := half_eq (k + 1) (by omega)
    simp only [rangeOf, minValue, maxValue, hh, pow2, Nat.add_sub_cancel, Prod.mk.injEq, true_and]
    rw [pow_succ]; ring

/-- :3066-3074 `v_n %= wrap_frequency` (truncating) and one correction step give the wrapped value -/
theorem wrapConstant_eq (r : Repn) (w : Nat) (hw : 0 < w) (v : Int) :
    wrapConstant w (minValue r w) (maxValue r w) v = wrapR r w v := by
  have _ := hw  -- not needed: `-2^w ≤ min_value ≤ 0` holds for every width
  have hP := pow2_pos w
  obtain ⟨hm1, hm2⟩ := minValue_bounds r w
  obtain ⟨q, hq, hlo, hhi⟩ := tmod_spec v (pow2 w) hP
  obtain ⟨c1, c2, k, hk⟩ := correct_window (pow2 w) (minValue r w) (Int.tmod v (pow2 w)) hm1 hm2 hlo hhi
  have e : wrapConstant w (minValue r w) (maxValue r w) v
      = if Int.tmod v (pow2 w) < minValue r w then Int.tmod v (pow2 w) + pow2 w
        else if Int.tmod v (pow2 w) > minValue r w + pow2 w - 1 then Int.tmod v (pow2 w) - pow2 w
        else Int.tmod v (pow2 w) := rfl
  rw [e]
  exact (wrapR_unique r w v _ (k - q) c1 c2 (by linarith)).symm

/-- :3102-3107 -/
theorem leastNotBelow_spec (minV f v0 : Int) (hf : 0 < f) :
    minV ≤ leastNotBelow minV f v0 ∧ leastNotBelow minV f v0 < minV + f ∧
    ∃ t : Int, leastNotBelow minV f v0 = v0 + t * f := by
  obtain ⟨q, hq, hlo, hhi⟩ := tmod_spec (v0 - minV) f hf
  simp only [leastNotBelow]
  split_ifs with h1
  · exact ⟨by omega, by omega, 1 - q, by linarith⟩
  · exact ⟨by omega, by omega, -q, by linarith⟩

/-- frequency `2^w`, overflow wraps: every value `v0 + t·2^w` wraps to the pinned value -/
theorem pin_wraps (r : Repn) (w : Nat) (v0 z t : Int) (hz : z = v0 + t * wrapFrequency w) :
    wrapR r w z = leastNotBelow (minValue r w) (wrapFrequency w) v0 := by
  obtain ⟨h1, h2, s, hs⟩ := leastNotBelow_spec (minValue r w) (wrapFrequency w) v0 (pow2_pos w)
  rw [wrapFrequency_eq] at *
  refine wrapR_unique r w z _ (s - t) h1 h2 ?_
  rw [hs, hz]; ring

/-- overflow impossible: under the test of :3108 the pinned value is the only in-range value -/
theorem pin_impossible (r : Repn) (w : Nat) (f v0 z t : Int) (hf : 0 < f) (hz : z = v0 + t * f)
    (hr : inRange r w z)
    (hc : f = wrapFrequency w ∨ leastNotBelow (minValue r w) f v0 + f > maxValue r w) :
    z = leastNotBelow (minValue r w) f v0 := by
  obtain ⟨h1, h2, s, hs⟩ := leastNotBelow_spec (minValue r w) f v0 hf
  obtain ⟨hr1, hr2⟩ := hr
  refine eq_of_window f (minValue r w) (maxValue r w) z _ (t - s) hf ?_ hr1 hr2 h2 ?_
  · rw [hs, hz]; ring
  · rcases hc with hc | hc
    · rw [wrapFrequency_eq] at hc
      unfold maxValue
      omega
    · exact hc

/-- `Int.tmod f_d v_d ≠ 0` (:3084) is "`v_d` does not divide `f_d`" -/
theorem tmod_ne_zero_iff (a b : Int) : Int.tmod a b ≠ 0 ↔ ¬ b ∣ a := by
  rw [Int.dvd_iff_tmod_eq_zero]

/-- if `v + t·f` is an integer then the (reduced) denominator of `v` divides that of `f` -/
theorem den_dvd_of_value_int (v f : Rat) (t z : Int) (h : v + (t : Rat) * f = (z : Rat)) :
    (v.den : Int) ∣ (f.den : Int) := by
  have hv : v = (z : Rat) - (t : Rat) * f := by linarith
  have h1 := Rat.sub_den_dvd (z : Rat) ((t : Rat) * f)
  have h2 := Rat.mul_den_dvd (t : Rat) f
  rw [← hv] at h1
  simp only [Rat.den_intCast, one_mul] at h1 h2
  exact Int.natCast_dvd_natCast.mpr (h1.trans h2)

/-- if `t·f` is an integer then it is a multiple of the (reduced) numerator of `f` -/
theorem mul_int_of_int (f : Rat) (t m : Int) (h : (t : Rat) * f = (m : Rat)) :
    ∃ t' : Int, m = t' * f.num := by
  by_cases ht : t = 0
  · subst ht
    refine ⟨0, ?_⟩
    have : (m : Rat) = 0 := by rw [← h]; simp
    have : m = 0 := by exact_mod_cast this
    simp [this]
  · have htq : (t : Rat) ≠ 0 := by exact_mod_cast ht
    have hf : f = Rat.divInt m t := by
      rw [← Rat.intCast_div_eq_divInt]
      exact eq_div_of_mul_eq htq (by rw [mul_comm]; exact h)
    obtain ⟨c, hc⟩ : f.num ∣ m := by
      have := Rat.num_dvd m ht
      rwa [← hf] at this
    exact ⟨c, by rw [hc]; ring⟩

end PPLV.Wrap.GW
