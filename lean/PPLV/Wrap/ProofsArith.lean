import PPLV.Wrap.Model
import PPLV.Lin.Project

/-! # C17 lemmas, part 1: arithmetic of quadrants, range rows, coordinate images -/
namespace PPLV.Wrap
open PPLV.Lin

theorem pow2_pos (w : Nat) : 0 < pow2 w := by unfold pow2; positivity

/-- for the widths the library accepts, `half w` is `2^(w-1)` -/
theorem half_eq (w : Nat) (hw : 0 < w) : half w = 2 ^ (w - 1) := by
  obtain ⟨k, rfl⟩ : ∃ k, w = k + 1 := ⟨w - 1, by omega⟩
  unfold half pow2
  simp [pow_succ]

/-- **key lemma**: the wrapped value is the value translated by its quadrant -/
theorem wrapR_eq_sub (r : Repn) (w : Nat) (z : Int) :
    wrapR r w z = z - quadrant r w z * pow2 w := by
  have h := Int.emod_add_mul_ediv (z - minValue r w) (pow2 w)
  unfold quadrant
  cases r with
  | unsigned =>
    simp only [wrapR, wrapU, minValue, Int.sub_zero] at *
    rw [Int.mul_comm] at h; omega
  | signed =>
    simp only [wrapR, wrapS, minValue] at *
    have e : z - -half w = z + half w := by omega
    rw [e] at h ⊢
    rw [Int.mul_comm] at h; omega

theorem wrapR_eq_min_add (r : Repn) (w : Nat) (z : Int) :
    wrapR r w z = minValue r w + (z - minValue r w) % pow2 w := by
  cases r with
  | unsigned => simp [wrapR, wrapU, minValue]
  | signed =>
    simp only [wrapR, wrapS, minValue]
    have e : z - -half w = z + half w := by omega
    rw [e]; omega

theorem wrapR_inRange (r : Repn) (w : Nat) (z : Int) : inRange r w (wrapR r w z) := by
  rw [wrapR_eq_min_add]
  have h1 := Int.emod_nonneg (z - minValue r w) (Int.ne_of_gt (pow2_pos w))
  have h2 := Int.emod_lt_of_pos (z - minValue r w) (pow2_pos w)
  unfold inRange maxValue
  omega

/-- `quadrant = ⌊(x − min)/2^w⌋ = 0` exactly for the values in range -/
theorem inRange_iff_quadrant (r : Repn) (w : Nat) (z : Int) :
    inRange r w z ↔ quadrant r w z = 0 := by
  unfold inRange maxValue quadrant
  constructor
  · intro h
    exact Int.ediv_eq_zero_of_lt (by omega) (by omega)
  · intro h
    have h0 := Int.emod_add_mul_ediv (z - minValue r w) (pow2 w)
    rw [h] at h0
    have h1 := Int.emod_nonneg (z - minValue r w) (Int.ne_of_gt (pow2_pos w))
    have h2 := Int.emod_lt_of_pos (z - minValue r w) (pow2_pos w)
    omega

theorem wrapR_of_inRange (r : Repn) (w : Nat) (z : Int) (h : inRange r w z) : wrapR r w z = z := by
  rw [wrapR_eq_sub, (inRange_iff_quadrant r w z).mp h]; simp

theorem quadrant_mono (r : Repn) (w : Nat) {a b : Int} (h : a ≤ b) : quadrant r w a ≤ quadrant r w b := by
  unfold quadrant
  exact Int.ediv_le_ediv (pow2_pos w) (by omega)

/-- the quadrants of the floors of rational bounds enclose the quadrant of an integer value -/
theorem quadrant_bounds (r : Repn) (w : Nat) (l u : Rat) (z : Int)
    (hl : l ≤ (z : Rat)) (hu : (z : Rat) ≤ u) :
    quadrant r w l.floor ≤ quadrant r w z ∧ quadrant r w z ≤ quadrant r w u.floor := by
  constructor
  · apply quadrant_mono
    have h1 : ((l.floor : Int) : Rat) ≤ (z : Rat) := le_trans (Rat.floor_le l) hl
    exact_mod_cast h1
  · apply quadrant_mono
    exact Rat.le_floor_iff.mpr hu

theorem mem_quadrants (first last q : Int) (h1 : first ≤ q) (h2 : q ≤ last) : q ∈ quadrants first last := by
  unfold quadrants
  rw [List.mem_map]
  refine ⟨(q - first).toNat, ?_, ?_⟩
  · rw [List.mem_range]; omega
  · omega

/-! ### range rows -/

theorem lowRow_sat (r : Repn) (w : Nat) (x : Nat) (v : Pt) :
    (lowRow r w x).sat v ↔ ((minValue r w : Int) : Rat) ≤ v x := by
  unfold lowRow geRow Con.sat Con.eval
  simp only [dot_unitRow]
  simp only [Bool.false_eq_true, ↓reduceIte]
  push_cast
  constructor <;> intro h <;> linarith

theorem highRow_sat (r : Repn) (w : Nat) (x : Nat) (v : Pt) :
    (highRow r w x).sat v ↔ v x ≤ ((maxValue r w : Int) : Rat) := by
  unfold highRow geRow Con.sat Con.eval
  simp only [dot_unitRow]
  simp only [Bool.false_eq_true, ↓reduceIte]
  push_cast
  constructor <;> intro h <;> linarith

/-- the coordinate is an in-range integer -/
def InRangeQ (r : Repn) (w : Nat) (a : Rat) : Prop := ∃ z : Int, a = (z : Rat) ∧ inRange r w z

theorem lowRow_of_inRange {r : Repn} {w : Nat} {x : Nat} {v : Pt} (h : InRangeQ r w (v x)) :
    (lowRow r w x).sat v := by
  obtain ⟨z, hz, h1, _⟩ := h
  rw [lowRow_sat, hz]; exact_mod_cast h1

theorem highRow_of_inRange {r : Repn} {w : Nat} {x : Nat} {v : Pt} (h : InRangeQ r w (v x)) :
    (highRow r w x).sat v := by
  obtain ⟨z, hz, _, h2⟩ := h
  rw [highRow_sat, hz]; exact_mod_cast h2

theorem rangeRows_sat {r : Repn} {w : Nat} {x : Nat} {v : Pt} (h : InRangeQ r w (v x)) :
    Sat (rangeRows r w x) v := by
  intro c hc
  simp only [rangeRows, List.mem_cons, List.mem_nil_iff, or_false] at hc
  rcases hc with rfl | rfl
  · exact lowRow_of_inRange h
  · exact highRow_of_inRange h

theorem Sat_append {cs ds : List Con} {v : Pt} (h1 : Sat cs v) (h2 : Sat ds v) : Sat (cs ++ ds) v := by
  intro c hc
  rcases List.mem_append.mp hc with h | h
  · exact h1 c h
  · exact h2 c h

theorem Sat_nil (v : Pt) : Sat [] v := by intro c hc; cases hc

/-! ### coordinate images -/

theorem coordImage_inRange {cfg : WrapCfg} {a a' : Rat} (h : Spec.CoordImage cfg a a') :
    InRangeQ cfg.r cfg.w a' := by
  obtain ⟨z, _, h⟩ := h
  cases ho : cfg.o <;> rw [ho] at h <;> simp only at h
  · exact ⟨_, h, wrapR_inRange _ _ _⟩
  · rcases h with ⟨hr, h⟩ | ⟨_, z', hr, h⟩
    · exact ⟨z, h, hr⟩
    · exact ⟨z', h, hr⟩
  · exact ⟨z, h.2, h.1⟩

/-- a coordinate that is in range is its own (only) image -/
theorem coordImage_of_inRange {cfg : WrapCfg} {z : Int} {a' : Rat}
    (h : Spec.CoordImage cfg (z : Rat) a') (hr : inRange cfg.r cfg.w z) : a' = (z : Rat) := by
  obtain ⟨z1, hz, h⟩ := h
  have : z1 = z := by exact_mod_cast hz.symm
  subst this
  cases ho : cfg.o <;> rw [ho] at h <;> simp only at h
  · rw [h, wrapR_of_inRange _ _ _ hr]
  · rcases h with ⟨_, h⟩ | ⟨hn, _⟩
    · exact h
    · exact absurd hr hn
  · exact h.2

theorem coordImage_wraps {cfg : WrapCfg} {z : Int} {a' : Rat} (ho : cfg.o = .wraps)
    (h : Spec.CoordImage cfg (z : Rat) a') : a' = ((wrapR cfg.r cfg.w z : Int) : Rat) := by
  obtain ⟨z1, hz, h⟩ := h
  have : z1 = z := by exact_mod_cast hz.symm
  subst this
  rw [ho] at h; exact h

theorem coordImage_impossible {cfg : WrapCfg} {a a' : Rat} (ho : cfg.o = .impossible)
    (h : Spec.CoordImage cfg a a') : a' = a := by
  obtain ⟨z1, hz, h⟩ := h
  rw [ho] at h; rw [hz]; exact h.2

end PPLV.Wrap
