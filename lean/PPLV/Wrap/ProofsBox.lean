import PPLV.Wrap.ProofsInterval

/-! # C17 lemmas, part 7: `Box::wrap_assign` without guard, coordinate by coordinate -/
namespace PPLV.Wrap
open PPLV.Lin

theorem memLo_of_loLe (a b : Option (Rat × Bool)) (q : Rat) (h : Itv.loLe a b = true) (hb : Itv.memLo b q) :
    Itv.memLo a q := by
  cases a with
  | none => trivial
  | some x =>
    cases b with
    | none => simp [Itv.loLe] at h
    | some y =>
      obtain ⟨a, ao⟩ := x; obtain ⟨b, bo⟩ := y
      simp only [Itv.loLe, Bool.or_eq_true, decide_eq_true_eq, Bool.and_eq_true, Bool.not_eq_true'] at h
      simp only [Itv.memLo] at hb ⊢
      rcases h with h | ⟨rfl, h⟩
      · split at hb <;> split <;> linarith
      · rcases h with h | h
        · subst h; simp only [Bool.false_eq_true, ↓reduceIte]
          split at hb
          · exact le_of_lt hb
          · exact hb
        · subst h; simp only [↓reduceIte] at hb
          split
          · exact hb
          · exact le_of_lt hb

theorem memHi_of_hiGe (a b : Option (Rat × Bool)) (q : Rat) (h : Itv.hiGe a b = true) (hb : Itv.memHi q b) :
    Itv.memHi q a := by
  cases a with
  | none => trivial
  | some x =>
    cases b with
    | none => simp [Itv.hiGe] at h
    | some y =>
      obtain ⟨a, ao⟩ := x; obtain ⟨b, bo⟩ := y
      simp only [Itv.hiGe, Bool.or_eq_true, decide_eq_true_eq, Bool.and_eq_true, Bool.not_eq_true'] at h
      simp only [Itv.memHi] at hb ⊢
      rcases h with h | ⟨rfl, h⟩
      · split at hb <;> split <;> linarith
      · rcases h with h | h
        · subst h; simp only [Bool.false_eq_true, ↓reduceIte]
          split at hb
          · exact le_of_lt hb
          · exact hb
        · subst h; simp only [↓reduceIte] at hb
          split
          · exact hb
          · exact le_of_lt hb

theorem mem_of_contains (J I : Itv) (q : Rat) (h : J.contains I = true) (hq : I.mem q) : J.mem q := by
  unfold Itv.contains at h
  simp only [Bool.or_eq_true, Bool.and_eq_true] at h
  rcases h with h | ⟨h1, h2⟩
  · exact absurd hq (not_mem_of_isEmpty I q h)
  · exact ⟨memLo_of_loLe _ _ _ h1 hq.1, memHi_of_hiGe _ _ _ h2 hq.2⟩

theorem rangeItv_mem {r : Repn} {w : Nat} {a : Rat} (h : InRangeQ r w a) : (rangeItv r w).mem a := by
  obtain ⟨z, rfl, h1, h2⟩ := h
  constructor
  · show Itv.memLo (some (_, false)) _
    simp only [Itv.memLo, Bool.false_eq_true, ↓reduceIte]; exact_mod_cast h1
  · show Itv.memHi _ (some (_, false))
    simp only [Itv.memHi, Bool.false_eq_true, ↓reduceIte]; exact_mod_cast h2

/-- an integer of the quadrant interval is in range (open-boundary types, or the repaired closed one) -/
theorem inRange_of_quadrant_mem (storeOpen kf10 : Bool) (hk : storeOpen = true ∨ kf10 = false)
    (r : Repn) (w : Nat) (z : Int)
    (h : (rationalQuadrant storeOpen kf10 r w).mem (z : Rat)) : inRange r w z := by
  unfold rationalQuadrant at h
  cases storeOpen
  · have hk' : kf10 = false := by rcases hk with h | h; cases h; exact h
    subst hk'
    simp only [Bool.false_eq_true, ↓reduceIte] at h
    obtain ⟨h1, h2⟩ := h
    simp only [Itv.memLo, Itv.memHi, Bool.false_eq_true, ↓reduceIte] at h1 h2
    exact ⟨by exact_mod_cast h1, by exact_mod_cast h2⟩
  · simp only [↓reduceIte] at h
    obtain ⟨h1, h2⟩ := h
    simp only [Itv.memLo, Itv.memHi, Bool.false_eq_true, ↓reduceIte] at h1 h2
    have a1 : minValue r w ≤ z := by exact_mod_cast h1
    have a2 : z < maxValue r w + 1 := by exact_mod_cast h2
    exact ⟨a1, by omega⟩

/-- **`Box::wrap_assign` (no guard) is sound** for the interval comparison of the code (or, before the fix
of defect 12, when no interval has width exactly `2^w`), and — for undefined overflow — when the interval
type stores open boundaries or the quadrant test is the repaired one -/
theorem boxWrap_sound (strictTest storeOpen kf10 : Bool) (cfg : WrapCfg) (B : List Itv) (v v' : Pt)
    (himg : Spec.WrapImage cfg v v')
    (h1 : strictTest = false ∨ ∀ I ∈ B, ∀ l lo u uo, I.lo = some (l, lo) → I.hi = some (u, uo) →
      u - l ≠ ((2 : Int) ^ cfg.w : Int))
    (h2 : cfg.o = .undefined → storeOpen = true ∨ kf10 = false)
    (hB : boxMem B v) : boxMem (boxWrap strictTest storeOpen kf10 cfg B) v' := by
  unfold boxMem boxWrap at *
  generalize 0 = i at hB ⊢
  induction B generalizing i with
  | nil => trivial
  | cons I Is ih =>
    obtain ⟨hI, hIs⟩ := hB
    refine ⟨?_, ih (by
      rcases h1 with h | h
      · exact Or.inl h
      · exact Or.inr (fun J hJ => h J (List.mem_cons_of_mem _ hJ))) (i + 1) hIs⟩
    simp only []
    split
    · rename_i hi
      have hc := himg.2.1 i hi
      obtain ⟨z, hz, hcz⟩ := hc
      have hc' : Spec.CoordImage cfg (z : Rat) (v' i) := by rw [← hz]; exact himg.2.1 i hi
      rw [hz] at hI
      cases ho : cfg.o with
      | wraps =>
        simp only []
        rw [coordImage_wraps ho hc']
        apply ivWrap_sound strictTest I cfg.w cfg.r _ _ z hI
        · exact rangeItv_mem ⟨_, rfl, wrapR_inRange _ _ _⟩
        · rcases h1 with h | h
          · exact Or.inl h
          · exact Or.inr (h I List.mem_cons_self)
      | undefined =>
        simp only []
        split
        · rename_i hcont
          have hr := inRange_of_quadrant_mem storeOpen kf10 (h2 ho) cfg.r cfg.w z (mem_of_contains _ _ _ hcont hI)
          rw [coordImage_of_inRange hc' hr]; exact hI
        · exact rangeItv_mem (coordImage_inRange hc')
      | impossible =>
        simp only []
        have hr := coordImage_inRange hc'
        have hsame := coordImage_impossible ho hc'
        rw [hsame] at hr ⊢
        exact mem_inter _ _ _ hI (rangeItv_mem hr)
    · rename_i hi
      rw [himg.1 i hi]; exact hI

end PPLV.Wrap
