import PPLV.Wrap.ProofsArith
import PPLV.Lin.Sup
import PPLV.Lin.CertProofs

/-! # C17 lemmas, part 6: the reference for `contains_integer_point()`, the tightening step of
`drop_some_non_integer_points` -/
namespace PPLV.Wrap
open PPLV.Lin

/-! ### integer bounds from K1 -/

theorem intBound_spec (n : Nat) (cs : List Con) (i : Nat) (lo hi : Int) (hwf : WF n cs) (hi_lt : i < n)
    (h : intBound n cs i = some (lo, hi)) (x : Val) (hx : x ∈ sem cs) (z : Int) (hz : x i = (z : Rat)) :
    lo ≤ z ∧ z ≤ hi := by
  unfold intBound at h
  have s1 := supB_spec n (unitRow i 1) 0 cs hwf (by simp [unitRow]; omega)
  have s2 := supB_spec n (unitRow i (-1)) 0 cs hwf (by simp [unitRow]; omega)
  split at h
  · rename_i p q a1 p' q' a2 h1 h2
    rw [h1] at s1; rw [h2] at s2
    simp only [Option.some.injEq, Prod.mk.injEq] at h
    obtain ⟨hlo, hhi⟩ := h
    obtain ⟨hq, hub, _, _⟩ := s1
    obtain ⟨hq', hub', _, _⟩ := s2
    have u1 := hub x hx
    have u2 := hub' x hx
    rw [dot_unitRow, hz] at u1 u2
    have hqr : (0 : Rat) < (q : Rat) := by exact_mod_cast hq
    have hqr' : (0 : Rat) < (q' : Rat) := by exact_mod_cast hq'
    constructor
    · -- -(p'/q') ≤ z
      have : (-z) * q' ≤ p' := by
        have : ((-z : Int) : Rat) * (q' : Rat) ≤ (p' : Rat) := by
          rw [le_div_iff₀ hqr'] at u2; push_cast at u2 ⊢; linarith
        exact_mod_cast this
      have := (Int.le_ediv_iff_mul_le hq').mpr this
      omega
    · have : z * q ≤ p := by
        have : ((z : Int) : Rat) * (q : Rat) ≤ (p : Rat) := by
          rw [le_div_iff₀ hqr] at u1; push_cast at u1 ⊢; linarith
        exact_mod_cast this
      have := (Int.le_ediv_iff_mul_le hq).mpr this
      omega
  · cases h

/-! ### enumeration of a box -/

def InBox (z : Int) (b : Int × Int) : Prop := b.1 ≤ z ∧ z ≤ b.2

theorem mem_intRange (lo hi z : Int) (h1 : lo ≤ z) (h2 : z ≤ hi) : z ∈ intRange lo hi := by
  unfold intRange
  rw [List.mem_map]
  exact ⟨(z - lo).toNat, by rw [List.mem_range]; omega, by omega⟩

theorem mem_boxPoints (p : List Int) (box : List (Int × Int)) (h : List.Forall₂ InBox p box) :
    p ∈ boxPoints box := by
  induction h with
  | nil => simp [boxPoints]
  | @cons z b ps bs hab _ ih =>
    obtain ⟨lo, hi⟩ := b
    unfold boxPoints
    rw [List.mem_flatMap]
    exact ⟨z, mem_intRange lo hi z hab.1 hab.2, List.mem_map.mpr ⟨ps, ih, rfl⟩⟩

theorem forall₂_snoc {α β : Type} (R : α → β → Prop) (l1 : List α) (l2 : List β) (a : α) (b : β)
    (h : List.Forall₂ R l1 l2) (hab : R a b) : List.Forall₂ R (l1 ++ [a]) (l2 ++ [b]) := by
  induction h with
  | nil => exact List.Forall₂.cons hab List.Forall₂.nil
  | cons h1 _ ih => exact List.Forall₂.cons h1 ih

theorem allBounds_forall₂ (n : Nat) (cs : List Con) (hwf : WF n cs) (x : Val) (hx : x ∈ sem cs)
    (f : Nat → Int) (hf : ∀ i < n, x i = (f i : Rat)) :
    ∀ k, k ≤ n → ∀ box, allBounds n cs k = some box → List.Forall₂ InBox ((List.range k).map f) box := by
  intro k
  induction k with
  | zero =>
    intro _ box h
    simp only [allBounds, Option.some.injEq] at h
    subst h; simp
  | succ k ih =>
    intro hk box h
    unfold allBounds at h
    split at h
    · rename_i b lh hb hlh
      simp only [Option.some.injEq] at h
      subst h
      rw [List.range_succ, List.map_append]
      apply forall₂_snoc _ _ _ _ _ (ih (by omega) b hb)
      obtain ⟨lo, hi⟩ := lh
      exact intBound_spec n cs k lo hi hwf (by omega) hlh x hx (f k) (hf k (by omega))
    · cases h

/-! ### the reference -/

theorem ratPoint_one (p : List Int) (i : Nat) : ratPoint p 1 i = ((p.getD i 0 : Int) : Rat) := by
  simp [ratPoint]

theorem sat_of_agree (n : Nat) (c : Con) (hc : c.coeffs.length ≤ n) (x y : Val) (h : ∀ i < n, x i = y i) :
    c.sat x ↔ c.sat y := by
  have : dot c.coeffs x = dot c.coeffs y := dot_agree _ _ _ (fun i hi => h i (by omega))
  unfold Con.sat Con.eval; rw [this]

theorem containsIntegerPointRef_sound (cap n : Nat) (cs : List Con) (hwf : WF n cs) (b : Bool)
    (h : containsIntegerPointRef cap n cs = some b) :
    b = true ↔ ∃ x ∈ sem cs, ∀ i < n, isInt (x i) := by
  unfold containsIntegerPointRef at h
  split at h
  · -- infeasible
    rename_i hf
    simp only [Option.some.injEq] at h
    subst h
    constructor
    · intro h; cases h
    · rintro ⟨x, hx, _⟩
      have : feasible n cs = true := (feasible_iff n cs hwf).mpr ⟨x, hx⟩
      rw [this] at hf; simp at hf
  · split at h
    · cases h
    · rename_i box hbox
      split at h
      · simp only [Option.some.injEq] at h
        subst h
        rw [List.any_eq_true]
        constructor
        · rintro ⟨p, _, hp⟩
          rw [List.all_eq_true] at hp
          refine ⟨ratPoint p 1, ?_, ?_⟩
          · intro c hc
            exact (holdsAt_iff c p 1 (by decide)).mp (hp c hc)
          · intro i _; exact ⟨p.getD i 0, ratPoint_one p i⟩
        · rintro ⟨x, hx, hint⟩
          -- the integer coordinates of x
          have hf : ∀ i < n, x i = (((x i).floor : Int) : Rat) := by
            intro i hi
            obtain ⟨z, hz⟩ := hint i hi
            rw [hz]; simp
          let p := (List.range n).map fun i => (x i).floor
          refine ⟨p, ?_, ?_⟩
          · exact mem_boxPoints p box (allBounds_forall₂ n cs hwf x hx _ hf n (Nat.le_refl n) box hbox)
          · rw [List.all_eq_true]
            intro c hc
            rw [holdsAt_iff c p 1 (by decide)]
            rw [sat_of_agree n c (hwf c hc) (ratPoint p 1) x]
            · exact hx c hc
            · intro i hi
              rw [ratPoint_one]
              have : p.getD i 0 = (x i).floor := by
                simp [p, List.getD, hi]
              rw [this]; exact (hf i hi).symm
      · cases h

/-! ### one tightening step of `Polyhedron::drop_some_non_integer_points` -/

/-- a linear form with integer coefficients takes an integer value at a point that is integer on
the variables it mentions -/
theorem dot_isInt (e : List Int) (x : Val) (h : ∀ i, e.getD i 0 ≠ 0 → isInt (x i)) : isInt (dot e x) := by
  induction e generalizing x with
  | nil => exact ⟨0, by simp⟩
  | cons a as ih =>
    obtain ⟨t, ht⟩ := ih x.tail (fun i hi => h (i + 1) (by simpa using hi))
    by_cases ha : a = 0
    · exact ⟨t, by simp [ha, ht]⟩
    · obtain ⟨z, hz⟩ := h 0 (by simpa using ha)
      exact ⟨a * z + t, by simp [ht, hz]⟩

theorem drop_tighten_sound (vars : Set Nat) (cs : List Con) (c : Con) (e : List Int) (g k : Int) (hg : 0 < g)
    (hc : c.coeffs = e.map (g * ·)) (hk : c.k = k) (hvars : ∀ i, e.getD i 0 ≠ 0 → i ∈ vars) :
    (sem ((⟨e, (if c.strict then k - 1 else k) / g, false⟩ : Con) :: cs) ⊆ sem (c :: cs)) ∧
    ∀ x ∈ sem (c :: cs), (∀ i ∈ vars, isInt (x i)) →
      x ∈ sem ((⟨e, (if c.strict then k - 1 else k) / g, false⟩ : Con) :: cs) := by
  have hgr : (0 : Rat) < (g : Rat) := by exact_mod_cast hg
  constructor
  · intro x hx c' hc'
    rcases List.mem_cons.mp hc' with rfl | hc'
    · have h0 := hx _ List.mem_cons_self
      unfold Con.sat Con.eval at h0 ⊢
      simp only [Bool.false_eq_true, ↓reduceIte] at h0
      rw [hc, hk, dot_map_mul]
      set k' := (if c'.strict = true then k - 1 else k) with hk'
      have hfl : ((k' / g : Int) : Rat) * (g : Rat) ≤ (k' : Rat) := by
        have := Int.ediv_mul_le k' (Int.ne_of_gt hg)
        exact_mod_cast this
      have hmain : 0 ≤ (g : Rat) * dot e x + (k' : Rat) := by nlinarith
      split
      · rename_i hs
        rw [hs] at hk'; simp only [↓reduceIte] at hk'
        rw [hk'] at hmain; push_cast at hmain; linarith
      · rename_i hs
        have : c'.strict = false := by simpa using hs
        rw [this] at hk'; simp only [Bool.false_eq_true, ↓reduceIte] at hk'
        rw [hk'] at hmain; exact hmain
    · exact hx c' (List.mem_cons_of_mem _ hc')
  · intro x hx hint c' hc'
    rcases List.mem_cons.mp hc' with rfl | hc'
    · have h0 := hx c List.mem_cons_self
      obtain ⟨t, ht⟩ := dot_isInt e x (fun i hi => hint i (hvars i hi))
      unfold Con.sat Con.eval at h0 ⊢
      simp only [Bool.false_eq_true, ↓reduceIte]
      rw [hc, hk, dot_map_mul, ht] at h0
      rw [ht]
      -- integer reasoning: g t + k' ≥ 0
      have hint' : 0 ≤ g * t + (if c.strict = true then k - 1 else k) := by
        split at h0
        · rename_i hs
          rw [hs]; simp only [↓reduceIte]
          have : (0 : Rat) < ((g * t + k : Int) : Rat) := by push_cast; exact h0
          have : 0 < g * t + k := by exact_mod_cast this
          omega
        · rename_i hs
          have hs' : c.strict = false := by simpa using hs
          rw [hs']; simp only [Bool.false_eq_true, ↓reduceIte]
          have : (0 : Rat) ≤ ((g * t + k : Int) : Rat) := by push_cast; exact h0
          exact_mod_cast this
      have : (-t) * g ≤ (if c.strict = true then k - 1 else k) := by
        have : (-t) * g = -(g * t) := by ring
        omega
      have := (Int.le_ediv_iff_mul_le hg).mpr this
      have : 0 ≤ t + (if c.strict = true then k - 1 else k) / g := by omega
      exact_mod_cast this
    · exact hx c' (List.mem_cons_of_mem _ hc')

end PPLV.Wrap
