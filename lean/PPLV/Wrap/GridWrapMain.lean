import PPLV.Wrap.GridWrapStep
import PPLV.Wrap.ProofsLoop

/-!
# `Grid::wrap_assign` lemmas, part 5: induction over the loop on `vars`, and the whole function

Invariant (`Inv D this`): for every point `v` of the copy `gr` and every `v'` that agrees with `v` outside the set
`D` of the variables already processed and is an admissible image of `v` on `D`, `v'` is in the receiver.
(The frequencies are read from `gr`, the updates go to the receiver: the invariant relates the two.)
-/
namespace PPLV.Wrap.GW
open PPLV.Lattice PPLV.Wrap

/-- `v'` is an image of `v` on the coordinates in `D` and equal to `v` elsewhere -/
def Img (cfg : WrapCfg) (D : Nat → Prop) (v v' : Nat → Rat) : Prop :=
  (∀ i, ¬ D i → v' i = v i) ∧ (∀ i, D i → Spec.CoordImage cfg (v i) (v' i))

def Inv (cfg : WrapCfg) (gr : Gens) (D : Nat → Prop) (this : GridGens) : Prop :=
  ∀ v v', gr.Mem v → Img cfg D v v' → Gen.sem this v'

theorem Img_congr {cfg : WrapCfg} {D E : Nat → Prop} (h : ∀ i, E i ↔ D i) {v v' : Nat → Rat}
    (hi : Img cfg E v v') : Img cfg D v v' :=
  ⟨fun i hn => hi.1 i (fun he => hn ((h i).mp he)), fun i hd => hi.2 i ((h i).mpr hd)⟩

/-- the invariant after one more variable, from a step lemma -/
theorem Inv_step {cfg : WrapCfg} {gr : Gens} {D : Nat → Prop} {this t : GridGens} {x : Nat} (hx : ¬ D x)
    (step : GridGens → GridGens ⊕ Outcome)
    (hstep : ∀ (u : Nat → Rat), Gen.sem this u → (∃ v0, gr.Mem v0 ∧ u x = v0 x) → ∀ a', Spec.CoordImage cfg (u x) a' →
      ∃ t, step this = .inl t ∧ Gen.sem t (Function.update u x a'))
    (ht : step this = .inl t) (hinv : Inv cfg gr D this) :
    Inv cfg gr (fun i => D i ∨ i = x) t := by
  intro w w' hw himg
  -- `w'` with the coordinate `x` reset to its value in `w`
  have hI : Img cfg D w (Function.update w' x (w x)) := by
    constructor
    · intro i hn
      by_cases hix : i = x
      · subst hix; simp
      · rw [Function.update_of_ne hix]; exact himg.1 i (fun h => h.elim hn hix)
    · intro i hd
      have hix : i ≠ x := fun h => hx (h ▸ hd)
      rw [Function.update_of_ne hix]; exact himg.2 i (Or.inl hd)
  have hu := hinv w _ hw hI
  have hux : Function.update w' x (w x) x = w x := by simp
  obtain ⟨t', ht', hmem⟩ := hstep _ hu ⟨w, hw, hux⟩ (w' x) (by rw [hux]; exact himg.2 x (Or.inr rfl))
  rw [ht] at ht'
  cases ht'
  simpa using hmem

/-- some image pair exists ⇒ the step continues -/
theorem step_continues {cfg : WrapCfg} {gr : Gens} {D : Nat → Prop} {this : GridGens} {x : Nat} (hx : ¬ D x)
    (step : GridGens → GridGens ⊕ Outcome)
    (hstep : ∀ (u : Nat → Rat), Gen.sem this u → (∃ v0, gr.Mem v0 ∧ u x = v0 x) → ∀ a', Spec.CoordImage cfg (u x) a' →
      ∃ t, step this = .inl t ∧ Gen.sem t (Function.update u x a'))
    (hinv : Inv cfg gr D this) {E : Nat → Prop} (hE : ∀ i, D i ∨ i = x → E i)
    {v v' : Nat → Rat} (hv : gr.Mem v) (himg : Img cfg E v v') :
    ∃ t, step this = .inl t := by
  classical
  -- the image restricted to `D`
  let u : Nat → Rat := fun i => if D i then v' i else v i
  have hI : Img cfg D v u := by
    constructor
    · intro i hn; simp [u, hn]
    · intro i hd; simp only [u, if_pos hd]; exact himg.2 i (hE i (Or.inl hd))
  have hu := hinv v u hv hI
  have hux : u x = v x := by simp [u, hx]
  obtain ⟨t, ht, _⟩ := hstep u hu ⟨v, hv, hux⟩ (v' x) (by rw [hux]; exact himg.2 x (hE x (Or.inr rfl)))
  exact ⟨t, ht⟩

/-- the loop for `OVERFLOW_WRAPS` / `OVERFLOW_IMPOSSIBLE` -/
theorem loopWI_sound (fx : Repairs) (cfg : WrapCfg) (hw : 0 < cfg.w) (ho : cfg.o = .wraps ∨ cfg.o = .impossible) (gr : Gens) :
    ∀ (xs : List Nat), xs.Nodup → (∀ x ∈ xs, fx.kf12 = true ∨ flawedAt cfg.w cfg.o gr x = false) →
    ∀ (D : Nat → Prop), (∀ x ∈ xs, ¬ D x) → ∀ (this : GridGens), Inv cfg gr D this →
    ∀ (E : Nat → Prop), (∀ i, E i ↔ D i ∨ i ∈ xs) → ∀ v v', gr.Mem v → Img cfg E v v' →
    ∃ R, loopWI fx cfg.w cfg.o (minValue cfg.r cfg.w) (maxValue cfg.r cfg.w) gr xs this = .ok R ∧ Gen.sem R v' := by
  intro xs
  induction xs with
  | nil =>
    intro _ _ D _ this hinv E hE v v' hv himg
    exact ⟨this, rfl, hinv v v' hv (Img_congr (fun i => by rw [hE i]; simp) himg)⟩
  | cons x xs ih =>
    intro hnd hnf D hD this hinv E hE v v' hv himg
    have hx : ¬ D x := hD x (List.mem_cons_self)
    have hstep := fun u hu hval a' ha =>
      stepWI_sound fx cfg hw ho gr x (hnf x (List.mem_cons_self)) this u hu hval a' ha
    obtain ⟨t, ht⟩ := step_continues (cfg := cfg) (gr := gr) hx
      (stepWI fx cfg.w cfg.o (minValue cfg.r cfg.w) (maxValue cfg.r cfg.w) gr x) hstep hinv
      (E := E) (fun i h => (hE i).mpr (h.elim Or.inl (fun h => Or.inr (h ▸ List.mem_cons_self))))
      hv himg
    have hinv' := Inv_step hx _ hstep ht hinv
    have hnd' := List.nodup_cons.mp hnd
    simp only [loopWI, ht]
    exact ih hnd'.2 (fun y hy => hnf y (List.mem_cons_of_mem _ hy)) (fun i => D i ∨ i = x)
      (fun y hy h => h.elim (hD y (List.mem_cons_of_mem _ hy)) (fun h => hnd'.1 (h ▸ hy))) t hinv' E
      (fun i => by rw [hE i, List.mem_cons]; tauto) v v' hv himg

/-- the loop for `OVERFLOW_UNDEFINED` -/
theorem loopU_sound (cfg : WrapCfg) (ho : cfg.o = .undefined) (gr : Gens) :
    ∀ (xs : List Nat), xs.Nodup →
    ∀ (D : Nat → Prop), (∀ x ∈ xs, ¬ D x) → ∀ (this : GridGens), Inv cfg gr D this →
    ∀ (E : Nat → Prop), (∀ i, E i ↔ D i ∨ i ∈ xs) → ∀ v v', gr.Mem v → Img cfg E v v' →
    ∃ R, loopU (minValue cfg.r cfg.w) (maxValue cfg.r cfg.w) gr xs this = .ok R ∧ Gen.sem R v' := by
  intro xs
  induction xs with
  | nil =>
    intro _ D _ this hinv E hE v v' hv himg
    exact ⟨this, rfl, hinv v v' hv (Img_congr (fun i => by rw [hE i]; simp) himg)⟩
  | cons x xs ih =>
    intro hnd D hD this hinv E hE v v' hv himg
    have hx : ¬ D x := hD x (List.mem_cons_self)
    have hstep := fun u hu hval a' ha => stepU_sound cfg ho gr x this u hu hval a' ha
    obtain ⟨t, ht⟩ := step_continues (cfg := cfg) (gr := gr) hx
      (stepU (minValue cfg.r cfg.w) (maxValue cfg.r cfg.w) gr x) hstep hinv
      (E := E) (fun i h => (hE i).mpr (h.elim Or.inl (fun h => Or.inr (h ▸ List.mem_cons_self))))
      hv himg
    have hinv' := Inv_step hx _ hstep ht hinv
    have hnd' := List.nodup_cons.mp hnd
    simp only [loopU, ht]
    exact ih hnd'.2 (fun i => D i ∨ i = x)
      (fun y hy h => h.elim (hD y (List.mem_cons_of_mem _ hy)) (fun h => hnd'.1 (h ▸ hy))) t hinv' E
      (fun i => by rw [hE i, List.mem_cons]; tauto) v v' hv himg

/-- `flawed = false` says that no wrapped variable goes through the branch of KF-C17-12 -/
theorem flawedAt_of_flawed {cfg : WrapCfg} {gr : Gens} (h : flawed cfg (.gens gr) = false) :
    ∀ x ∈ normVars cfg.vars, flawedAt cfg.w cfg.o gr x = false := by
  intro x hx
  have hx' : x ∈ cfg.vars := (mem_normVars x cfg.vars).mp hx
  unfold flawed at h
  simp only [List.any_eq_false] at h
  have := h x hx'
  simpa using this

theorem flawed_of_not_wraps (cfg : WrapCfg) (G : GridGens) (ho : cfg.o ≠ .wraps) : flawed cfg G = false := by
  cases G with
  | empty => rfl
  | gens gr =>
    unfold flawed
    simp only [List.any_eq_false]
    intro x _
    unfold flawedAt
    split
    · simp
    · simp [ho]

/-- what is legal: the guard (if any) and `vars` fit the space dimension -/
def Legal (n : Nat) (cfg : WrapCfg) : Prop :=
  (∀ cs, cfg.guard = some cs → guardSpaceDim cs ≤ n) ∧ varsSpaceDim cfg.vars ≤ n

/-- **the whole function**: every wrapped image of a point of the argument that is integer on `vars` is in the
receiver after a normal return; the function returns normally on a legal call when such an image exists
(provided no wrapped variable goes through the branch of KF-C17-12) -/
theorem gridWrapAssignV_sound (fx : Repairs) (n : Nat) (cfg : WrapCfg) (hw : 0 < cfg.w) (G : GridGens)
    (hnf : fx.kf12 = true ∨ flawed cfg G = false) (hlegal : Legal n cfg)
    (v v' : Nat → Rat) (hv : Gen.sem G v) (himg : Spec.WrapImage cfg v v') :
    ∃ R, gridWrapAssignV fx n cfg G = .ok R ∧ Gen.sem R v' := by
  unfold gridWrapAssignV
  have hg : guardTooBig n cfg.guard = false := by
    unfold guardTooBig
    cases hgd : cfg.guard with
    | none => rfl
    | some cs =>
      have := hlegal.1 cs hgd
      simp only [decide_eq_false_iff_not]; omega
  rw [hg]
  simp only [Bool.false_eq_true, if_false]
  by_cases hemp : cfg.vars.isEmpty = true
  · rw [if_pos hemp]
    refine ⟨G, rfl, ?_⟩
    have : v' = v := by
      funext i
      apply himg.1 i
      have : cfg.vars = [] := List.isEmpty_iff.mp hemp
      rw [this]; simp
    rw [this]; exact hv
  · rw [if_neg hemp]
    rw [if_neg (by have := hlegal.2; omega)]
    cases G with
    | empty => exact absurd hv (by simp [Gen.sem])
    | gens gr =>
      simp only []
      rw [rangeOf_eq cfg.r cfg.w hw]
      simp only []
      have hinv0 : Inv cfg gr (fun _ => False) (.gens gr) := by
        intro w w' hwm hi
        have : w' = w := funext fun i => hi.1 i (fun h => h)
        rw [this]; exact hwm
      have hE : ∀ i, (i ∈ cfg.vars) ↔ False ∨ i ∈ normVars cfg.vars := by
        intro i; rw [mem_normVars]; simp
      have himg' : Img cfg (fun i => i ∈ cfg.vars) v v' := ⟨himg.1, himg.2.1⟩
      by_cases ho : cfg.o = .impossible ∨ cfg.o = .wraps
      · rw [if_pos ho]
        exact loopWI_sound fx cfg hw (ho.elim Or.inr Or.inl) gr (normVars cfg.vars) (normVars_nodup _)
          (fun x hx => hnf.elim Or.inl (fun h => Or.inr (flawedAt_of_flawed h x hx))) (fun _ => False) (fun _ _ h => h) (.gens gr) hinv0 _ hE v v' hv himg'
      · rw [if_neg ho]
        have hu : cfg.o = .undefined := by
          cases h : cfg.o with
          | wraps => exact absurd (Or.inr h) ho
          | undefined => rfl
          | impossible => exact absurd (Or.inl h) ho
        exact loopU_sound cfg hu gr (normVars cfg.vars) (normVars_nodup _)
          (fun _ => False) (fun _ _ h => h) (.gens gr) hinv0 _ hE v v' hv himg'

/-- **the function as it is written now** (repairs 3a4d83e, 4614ba1): full strength -/
theorem gridWrapAssign_sound (n : Nat) (cfg : WrapCfg) (hw : 0 < cfg.w) (G : GridGens) (hlegal : Legal n cfg)
    (v v' : Nat → Rat) (hv : Gen.sem G v) (himg : Spec.WrapImage cfg v v') :
    ∃ R, gridWrapAssign n cfg G = .ok R ∧ Gen.sem R v' :=
  gridWrapAssignV_sound repaired n cfg hw G (Or.inl rfl) hlegal v v' hv himg

/-- the function before the repairs: every call outside the branch of KF-C17-12 -/
theorem gridWrapAssignBeforeFix_sound (n : Nat) (cfg : WrapCfg) (hw : 0 < cfg.w) (G : GridGens)
    (hnf : flawed cfg G = false) (hlegal : Legal n cfg)
    (v v' : Nat → Rat) (hv : Gen.sem G v) (himg : Spec.WrapImage cfg v v') :
    ∃ R, gridWrapAssignBeforeFix n cfg G = .ok R ∧ Gen.sem R v' :=
  gridWrapAssignV_sound beforeFix n cfg hw G (Or.inr hnf) hlegal v v' hv himg

end PPLV.Wrap.GW
