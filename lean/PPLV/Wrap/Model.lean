import PPLV.Lin.Model

/-!
# C17 — wrapping to a bounded integer type: specification and code-shaped model (no Mathlib)

* `wrapU w x = x mod 2^w`, `wrapS w x` (two's complement), `quadrant r w x = ⌊(x − min)/2^w⌋`.
* `Spec.WrapImage cfg v v'` — `v'` is a wrapped image of the point `v` (which has integer values on
  the wrapped dimensions): the other coordinates are unchanged, and for every wrapped coordinate
  - `OVERFLOW_WRAPS`      ↦ the coordinate wrapped to width `w` and the given signedness,
  - `OVERFLOW_UNDEFINED`  ↦ the coordinate itself when it is in range (no overflow happened), any
                            in-range integer otherwise,
  - `OVERFLOW_IMPOSSIBLE` ↦ the coordinate itself, which has to be in range;
  and `v'` satisfies the optional guard `cs_p` (the guard is the conditional the wrapped program
  variables are tested with, `definitions.dox` "Wrapping Operator": it is applied to the wrapped
  values — `wrap_assign_col` refines *after* the translations).
* `Dom` — the abstract-domain interface the generic algorithm of `src/wrap_assign.hh` is a
  template over (`PSET`): concretisation `γ`, and one field per member function used, each with a
  soundness hypothesis.
* `wrapAssignG fix d cfg P` — transliteration of `Implementation::wrap_assign`, `wrap_assign_ind`,
  `wrap_assign_col`.  `fix = true` (`wrapAssign`) is the code with the repair of KF-C17-3, `fix = false`
  (`wrapAssignBeforeFix`) the code before it: when collective wrapping becomes too complex at a variable
  `x`, `x` itself was neither translated nor given the full range; the repair sends it to
  `set_full_range`.  The second component of the result is a ghost flag: the unrepaired branch was
  executed.  The check measures on every run which variant the library implements.
  `allZeroesAsRead` is `expression().all_zeroes(vars)` as `wrap_assign_ind` executes it (with `vars`
  beyond the space dimension of `*cs_p`, where it reads the ε coefficient of strict rows).  The model is
  validated against the real template on every run: the harness instantiates
  `Implementation::wrap_assign` with a PSET recording symbolic terms, the driver runs this model over the
  same symbolic domain and compares the final terms (`Driver/Wrap.lean`, `judgeTrace`).
* `ivWrap` — a small model of `Interval::wrap_assign` over rational boundaries; `boxWrap` — the branch
  of `Box::wrap_assign` without guard (both compared with the real results by the driver, `ivCheck`).
* `containsIntegerPointRef` — reference for `contains_integer_point()` by bounded enumeration inside
  bounds computed (and proved) by K1.
-/
namespace PPLV.Wrap
open PPLV.Lin

abbrev Pt := Val

inductive Repn | unsigned | signed
deriving DecidableEq, Repr, Inhabited

inductive Ovf | wraps | undefined | impossible
deriving DecidableEq, Repr, Inhabited

/-! ## arithmetic of a `w`-bit type -/

def pow2 (w : Nat) : Int := 2 ^ w
/-- `2^(w-1)` for `w ≥ 1` (`mul_2exp_assign(max_value, 1, w-1)`) -/
def half (w : Nat) : Int := pow2 w / 2
def minValue : Repn → Nat → Int
  | .unsigned, _ => 0
  | .signed, w => - half w
def maxValue (r : Repn) (w : Nat) : Int := minValue r w + pow2 w - 1

def wrapU (w : Nat) (x : Int) : Int := x % pow2 w
def wrapS (w : Nat) (x : Int) : Int := (x + half w) % pow2 w - half w
def wrapR : Repn → Nat → Int → Int
  | .unsigned, w, x => wrapU w x
  | .signed, w, x => wrapS w x

/-- the quadrant of `x`: `div_2exp_assign_r(x - min_value, w, ROUND_DOWN)` -/
def quadrant (r : Repn) (w : Nat) (x : Int) : Int := (x - minValue r w) / pow2 w

def inRange (r : Repn) (w : Nat) (z : Int) : Prop := minValue r w ≤ z ∧ z ≤ maxValue r w
instance (r : Repn) (w : Nat) (z : Int) : Decidable (inRange r w z) := by unfold inRange; exact inferInstance
def inRangeB (r : Repn) (w : Nat) (z : Int) : Bool := decide (minValue r w ≤ z) && decide (z ≤ maxValue r w)

/-! ## configuration and specification -/

structure WrapCfg where
  vars : List Nat
  w : Nat
  r : Repn
  o : Ovf
  guard : Option (List Con)
  threshold : Nat
  individually : Bool
deriving Repr, Inhabited

def isInt (q : Rat) : Prop := ∃ z : Int, q = (z : Rat)

namespace Spec

/-- the admissible values `a'` of a wrapped coordinate whose unwrapped value is `a` -/
def CoordImage (cfg : WrapCfg) (a a' : Rat) : Prop :=
  ∃ z : Int, a = (z : Rat) ∧
    match cfg.o with
    | .wraps => a' = ((wrapR cfg.r cfg.w z : Int) : Rat)
    | .undefined =>
        (inRange cfg.r cfg.w z ∧ a' = (z : Rat)) ∨
        (¬ inRange cfg.r cfg.w z ∧ ∃ z' : Int, inRange cfg.r cfg.w z' ∧ a' = (z' : Rat))
    | .impossible => inRange cfg.r cfg.w z ∧ a' = (z : Rat)

def GuardOK (cfg : WrapCfg) (v' : Pt) : Prop := ∀ cs, cfg.guard = some cs → Sat cs v'

/-- `v'` is a wrapped image of `v` -/
def WrapImage (cfg : WrapCfg) (v v' : Pt) : Prop :=
  (∀ i, i ∉ cfg.vars → v' i = v i) ∧ (∀ i, i ∈ cfg.vars → CoordImage cfg (v i) (v' i)) ∧ GuardOK cfg v'

end Spec

/-! ## the abstract-domain interface (`PSET` of `wrap_assign.hh`) -/

structure Dom where
  D : Type
  γ : D → Pt → Prop
  /-- `PSET(space_dim, EMPTY)` -/
  botLike : D → D
  isEmpty : D → Bool
  /-- `refine_with_constraint` -/
  refine : D → Con → D
  /-- `refine_with_constraints` -/
  refineAll : D → List Con → D
  /-- `affine_image(x, x - shift, 1)` -/
  translate : D → Nat → Int → D
  /-- `upper_bound_assign` -/
  join : D → D → D
  unconstrain : D → Nat → D
  /-- `minimize(x, n, d, extremum)`: `none` when it returns false -/
  minimize : D → Nat → Option Rat
  maximize : D → Nat → Option Rat
  isEmpty_sound : ∀ P, isEmpty P = true → ∀ v, ¬ γ P v
  refine_sound : ∀ P c v, γ P v → c.sat v → γ (refine P c) v
  refineAll_sound : ∀ P cs v, γ P v → Sat cs v → γ (refineAll P cs) v
  translate_sound : ∀ P x s v, γ P v → γ (translate P x s) (v.update x (v x - (s : Rat)))
  join_left : ∀ P Q v, γ P v → γ (join P Q) v
  join_right : ∀ P Q v, γ Q v → γ (join P Q) v
  unconstrain_sound : ∀ P x v t, γ P v → γ (unconstrain P x) (v.update x t)
  minimize_sound : ∀ P x l v, minimize P x = some l → γ P v → l ≤ v x
  maximize_sound : ∀ P x u v, maximize P x = some u → γ P v → v x ≤ u

/-! ## the generic algorithm -/

/-- `min_value <= x` -/
def lowRow (r : Repn) (w : Nat) (x : Nat) : Con := geRow (unitRow x 1) (-(minValue r w))
/-- `x <= max_value` -/
def highRow (r : Repn) (w : Nat) (x : Nat) : Con := geRow (unitRow x (-1)) (maxValue r w)
def rangeRows (r : Repn) (w : Nat) (x : Nat) : List Con := [lowRow r w x, highRow r w x]

/-- `for (quadrant = first; quadrant <= last; ++quadrant)` -/
def quadrants (first last : Int) : List Int :=
  (List.range (last - first + 1).toNat).map fun (i : Nat) => first + (i : Int)

/-- `Wrap_Dim_Translations` -/
structure Tr where
  var : Nat
  first : Int
  last : Int
deriving Repr, Inhabited

/-- `if (quadrant != 0) { mul_2exp_assign(shift, quadrant, w); p.affine_image(x, x - shift, 1); }` -/
def shiftTo (d : Dom) (w : Nat) (P : d.D) (x : Nat) (q : Int) : d.D :=
  if q ≠ 0 then d.translate P x (q * pow2 w) else P

/-- `Variables_Set` is an ordered set: insertion keeping the list strictly increasing -/
def insertVar (x : Nat) : List Nat → List Nat
  | [] => [x]
  | y :: ys => if x < y then x :: y :: ys else if x = y then y :: ys else y :: insertVar x ys
def normVars (l : List Nat) : List Nat := l.foldr insertVar []

/-- the constraint does not depend on the listed variables -/
def Con.allZeroOn (c : Con) (vars : List Nat) : Bool := vars.all fun i => c.at i == 0

/-- the space dimension of a row: one more than its last variable with a non-zero coefficient -/
def conDim (c : Con) : Nat := (c.coeffs.reverse.dropWhile (· == 0)).length
/-- `cs.space_dimension()` -/
def guardSpaceDim (cs : List Con) : Nat := cs.foldl (fun m c => max m (conDim c)) 0

/-- `j->expression().all_zeroes(vars)` as executed by `wrap_assign_ind`: the rows of `*cs_p` have `d`
    variables, `vars` may mention higher dimensions (the precondition
    `vars.space_dimension() <= space_dimension()` of `all_zeroes` is not established): index `d` then
    reads the ε coefficient of a not-necessarily-closed system (non-zero exactly for the strict rows),
    higher indexes are beyond the (sparse) row and read as zero. -/
def allZeroesAsRead (d : Nat) (eps : Bool) (c : Con) (vars : List Nat) : Bool :=
  vars.all fun i => if i < d then c.at i == 0 else if i = d ∧ eps = true then !c.strict else true

/-- `refine_with_constraint(min_value <= x); refine_with_constraint(x <= max_value)` -/
def refineRange (d : Dom) (cfg : WrapCfg) (p : d.D) (x : Nat) : d.D :=
  d.refine (d.refine p (lowRow cfg.r cfg.w x)) (highRow cfg.r cfg.w x)

/-- `wrap_assign_ind`: `vars` = the dimensions still to be translated -/
def wrapInd (d : Dom) (cfg : WrapCfg) (cs : List Con) : List Tr → d.D → List Nat → d.D
  | [], ps, _ => ps
  | t :: rest, ps, vars =>
    let vars' := vars.erase t.var
    let hull := (quadrants t.first t.last).foldl (fun hull q =>
      let p := shiftTo d cfg.w ps t.var q
      let p := if vars'.isEmpty then d.refineAll p cs
               else cs.foldl (fun p c =>
                 if allZeroesAsRead (guardSpaceDim cs) (cs.any (·.strict)) c vars' then d.refine p c else p) p
      d.join hull (refineRange d cfg p t.var)) (d.botLike ps)
    wrapInd d cfg cs rest hull vars'

/-- `wrap_assign_col` -/
def wrapCol (d : Dom) (cfg : WrapCfg) (vars : List Nat) : List Tr → d.D → d.D → d.D
  | [], dest, src =>
    let p := match cfg.guard with
      | some cs => d.refineAll src cs
      | none => src
    d.join dest (vars.foldl (fun p x => refineRange d cfg p x) p)
  | t :: rest, dest, src =>
    (quadrants t.first t.last).foldl
      (fun dest q => wrapCol d cfg vars rest dest (shiftTo d cfg.w src t.var q)) dest

/-- the state of the main loop of `wrap_assign` -/
structure St (D : Type) where
  ps : D
  trs : List Tr
  /-- `dimensions_to_be_translated` -/
  dims : List Nat
  /-- `collective_wrap_complexity` -/
  cplx : Nat
  tooComplex : Bool
  /-- `full_range_bounds` -/
  frb : List Con
  /-- ghost: the unrepaired branch (see `step`) was executed -/
  tripped : Bool

/-- `UINT_MAX` (`assign_r(extension, quadrants, ROUND_IGNORE)` overflows above it) -/
def uintMax : Int := 4294967295

/-- `set_full_range:` -/
def setFull (d : Dom) (cfg : WrapCfg) (s : St d.D) (x : Nat) : St d.D :=
  { s with ps := d.unconstrain s.ps x, frb := s.frb ++ rangeRows cfg.r cfg.w x }

/-- `collective_wrap_complexity *= extension`, and the fall-back of the dimensions already in
    `translations` to the full range when the product exceeds the threshold (`translations` is not
    cleared) -/
def cplxUpdate (d : Dom) (cfg : WrapCfg) (s : St d.D) (ext : Nat) : St d.D :=
  if cfg.individually = false ∧ s.tooComplex = false then
    let prod := s.cplx * ext
    if (prod : Int) > uintMax ∨ prod > cfg.threshold then
      { s with cplx := prod, tooComplex := true,
               ps := s.trs.foldl (fun p t => d.unconstrain p t.var) s.ps,
               frb := s.frb ++ s.trs.flatMap (fun t => rangeRows cfg.r cfg.w t.var) }
    else { s with cplx := prod }
  else s

/-- the hull of the translations of `ps` along `x`, each cut to the range (individual wrapping
    without guard) -/
def hullLoop (d : Dom) (cfg : WrapCfg) (ps : d.D) (x : Nat) (fq lq : Int) : d.D :=
  (quadrants fq lq).foldl (fun hull q =>
    d.join hull (refineRange d cfg (shiftTo d cfg.w ps x q) x)) (d.botLike ps)

/-- `x` spans the quadrants `fq..lq` (not both zero) and overflow wraps -/
def stepWrap (fix : Bool) (d : Dom) (cfg : WrapCfg) (s : St d.D) (x : Nat) (fq lq : Int) : St d.D :=
  let quads := lq - fq + 1
  -- `assign_r(extension, quadrants, ROUND_IGNORE)` overflows, or `extension > complexity_threshold`
  if quads < 0 ∨ quads > uintMax ∨ quads.toNat > cfg.threshold then setFull d cfg s x
  else
    let s1 := cplxUpdate d cfg s quads.toNat
    if cfg.individually = true ∧ cfg.guard = none then
      { s1 with ps := hullLoop d cfg s1.ps x fq lq }
    else if cfg.individually = true ∨ s1.tooComplex = false then
      { s1 with dims := s1.dims ++ [x], trs := s1.trs ++ [⟨x, fq, lq⟩] }
    else if fix then setFull d cfg s1 x
    else { s1 with tripped := true }

/-- the case analysis on the quadrants `fq..lq` spanned by `x` -/
def stepQ (fix : Bool) (d : Dom) (cfg : WrapCfg) (s : St d.D) (x : Nat) (fq lq : Int) : St d.D :=
  if fq = 0 ∧ lq = 0 then s
  else if cfg.o = .impossible then
    { s with frb := s.frb ++ (if fq < 0 then [lowRow cfg.r cfg.w x] else [])
                           ++ (if lq > 0 then [highRow cfg.r cfg.w x] else []) }
  else if cfg.o = .undefined ∨ s.tooComplex = true then setFull d cfg s x
  else stepWrap fix d cfg s x fq lq

/-- one iteration of the loop over `vars` -/
def step (fix : Bool) (d : Dom) (cfg : WrapCfg) (s : St d.D) (x : Nat) : St d.D :=
  match d.minimize s.ps x, d.maximize s.ps x with
  | some l, some u => stepQ fix d cfg s x (quadrant cfg.r cfg.w l.floor) (quadrant cfg.r cfg.w u.floor)
  | _, _ => setFull d cfg s x

def initSt (d : Dom) (P : d.D) : St d.D := ⟨P, [], [], 1, false, [], false⟩

def refineGuard (d : Dom) (cfg : WrapCfg) (P : d.D) : d.D :=
  match cfg.guard with
  | some cs => d.refineAll P cs
  | none => P

/-- `Implementation::wrap_assign`; the Boolean is the ghost flag `tripped` -/
def wrapAssignG (fix : Bool) (d : Dom) (cfg : WrapCfg) (P : d.D) : d.D × Bool :=
  let vars := normVars cfg.vars
  if vars.isEmpty then (refineGuard d cfg P, false)
  else if d.isEmpty P then (P, false)
  else
    let s := vars.foldl (step fix d cfg) (initSt d P)
    let ps :=
      if s.trs.isEmpty then s.ps
      else if cfg.individually then
        -- `PPL_ASSERT(cs_p != 0)`: translations are recorded in this mode only with a guard
        wrapInd d cfg (cfg.guard.getD []) s.trs s.ps s.dims
      else wrapCol d cfg s.dims s.trs (d.botLike s.ps) s.ps
    (d.refineAll (refineGuard d cfg ps) s.frb, s.tripped)

/-- `Implementation::wrap_assign` with the repair of KF-C17-3 (fixes/fix_c17_wrap_collective_too_complex.diff:
    `goto set_full_range` for the variable at which collective wrapping becomes too complex).  Which of
    the two variants the library implements is measured by the check on every run (symbolic traces). -/
def wrapAssign (d : Dom) (cfg : WrapCfg) (P : d.D) : d.D := (wrapAssignG true d cfg P).1
/-- the variant before that repair: the variable is left unwrapped -/
def wrapAssignBeforeFix (d : Dom) (cfg : WrapCfg) (P : d.D) : d.D := (wrapAssignG false d cfg P).1
/-- the ghost flag of the variant before the repair: collective wrapping became too complex at a
    variable that was then left unwrapped -/
def wrapTrips (d : Dom) (cfg : WrapCfg) (P : d.D) : Bool := (wrapAssignG false d cfg P).2

/-! ## executable forms used by the driver -/

/-- decidable form of `Spec.CoordImage` on integer values -/
def coordImageB (cfg : WrapCfg) (z z' : Int) : Bool :=
  match cfg.o with
  | .wraps => z' == wrapR cfg.r cfg.w z
  | .undefined => if inRangeB cfg.r cfg.w z then z' == z else inRangeB cfg.r cfg.w z'
  | .impossible => inRangeB cfg.r cfg.w z && z' == z

/-! ## `Interval::wrap_assign` over rational boundaries -/

/-- a boundary: value and OPEN flag; `none` is the infinity of that side -/
structure Itv where
  lo : Option (Rat × Bool)
  hi : Option (Rat × Bool)
deriving DecidableEq, Repr, Inhabited

def Itv.memLo : Option (Rat × Bool) → Rat → Prop
  | none, _ => True
  | some (l, op), q => if op then l < q else l ≤ q
def Itv.memHi : Rat → Option (Rat × Bool) → Prop
  | _, none => True
  | q, some (h, op) => if op then q < h else q ≤ h
def Itv.mem (I : Itv) (q : Rat) : Prop := Itv.memLo I.lo q ∧ Itv.memHi q I.hi

instance (o : Option (Rat × Bool)) (q : Rat) : Decidable (Itv.memLo o q) := by
  cases o with
  | none => unfold Itv.memLo; exact inferInstance
  | some p => cases p; unfold Itv.memLo; exact inferInstance
instance (q : Rat) (o : Option (Rat × Bool)) : Decidable (Itv.memHi q o) := by
  cases o with
  | none => unfold Itv.memHi; exact inferInstance
  | some p => cases p; unfold Itv.memHi; exact inferInstance
instance (I : Itv) (q : Rat) : Decidable (I.mem q) := by unfold Itv.mem; exact inferInstance

def Itv.isEmpty (I : Itv) : Bool :=
  match I.lo, I.hi with
  | some (l, lo), some (h, ho) => decide (h < l) || (decide (l = h) && (lo || ho))
  | _, _ => false

/-- the tighter of two lower boundaries -/
def Itv.maxLo : Option (Rat × Bool) → Option (Rat × Bool) → Option (Rat × Bool)
  | none, b => b
  | a, none => a
  | some (a, ao), some (b, bo) => if a < b then some (b, bo) else if b < a then some (a, ao) else some (a, ao || bo)
def Itv.minHi : Option (Rat × Bool) → Option (Rat × Bool) → Option (Rat × Bool)
  | none, b => b
  | a, none => a
  | some (a, ao), some (b, bo) => if a < b then some (a, ao) else if b < a then some (b, bo) else some (a, ao || bo)
/-- the looser of two lower boundaries -/
def Itv.minLo : Option (Rat × Bool) → Option (Rat × Bool) → Option (Rat × Bool)
  | none, _ => none
  | _, none => none
  | some (a, ao), some (b, bo) => if a < b then some (a, ao) else if b < a then some (b, bo) else some (a, ao && bo)
def Itv.maxHi : Option (Rat × Bool) → Option (Rat × Bool) → Option (Rat × Bool)
  | none, _ => none
  | _, none => none
  | some (a, ao), some (b, bo) => if a < b then some (b, bo) else if b < a then some (a, ao) else some (a, ao && bo)

def Itv.inter (I J : Itv) : Itv := ⟨Itv.maxLo I.lo J.lo, Itv.minHi I.hi J.hi⟩
/-- `join_assign`: the interval hull; an empty operand is neutral -/
def Itv.hull (I J : Itv) : Itv :=
  if I.isEmpty then J else if J.isEmpty then I else ⟨Itv.minLo I.lo J.lo, Itv.maxHi I.hi J.hi⟩

/-- `umod_2exp_assign` / `smod_2exp_assign` on a rational boundary -/
def modR (r : Repn) (w : Nat) (x : Rat) : Rat :=
  let m : Rat := (minValue r w : Int)
  let p : Rat := (pow2 w : Int)
  x - (((x - m) / p).floor : Int) * p

/-- `Interval::wrap_assign(w, r, refinement)`; `strictTest = false` is the comparison `u >= lower()` of
    the code (since the fix of defect 12, /repo commit 7a40b81), `true` the comparison `u > lower()`
    before that fix -/
def ivWrap (strictTest : Bool) (I : Itv) (w : Nat) (r : Repn) (ref : Itv) : Itv :=
  if I.isEmpty then I
  else match I.lo, I.hi with
  | some (l, _), some (u, _) =>
    let u' := u - ((pow2 w : Int) : Rat)
    if (if strictTest then decide (l < u') else decide (l ≤ u')) then ref
    else
      -- `info().clear()`: both boundaries become closed
      let l2 := modR r w l
      let u2 := modR r w u
      if l2 ≤ u2 then (Itv.mk (some (l2, false)) (some (u2, false))).inter ref
      else ((Itv.mk (some (l2, false)) none).inter ref).hull ((Itv.mk none (some (u2, false))).inter ref)
  | _, _ => ref

/-- the quadrant interval `[min_value, max_value]` -/
def rangeItv (r : Repn) (w : Nat) : Itv :=
  ⟨some (((minValue r w : Int) : Rat), false), some (((maxValue r w : Int) : Rat), false)⟩

/-! ## `Box::wrap_assign` without guard (`cs_p == nullptr`) -/

/-- `J.contains(I)` on boundaries: the lower boundary `a` of `J` admits everything the lower boundary
    `b` of `I` admits -/
def Itv.loLe : Option (Rat × Bool) → Option (Rat × Bool) → Bool
  | none, _ => true
  | some _, none => false
  | some (a, ao), some (b, bo) => decide (a < b) || (decide (a = b) && (!ao || bo))
def Itv.hiGe : Option (Rat × Bool) → Option (Rat × Bool) → Bool
  | none, _ => true
  | some _, none => false
  | some (a, ao), some (b, bo) => decide (b < a) || (decide (a = b) && (!ao || bo))
def Itv.contains (J I : Itv) : Bool := I.isEmpty || (Itv.loLe J.lo I.lo && Itv.hiGe J.hi I.hi)

/-- `rational_quadrant_itv`: `[min_value, max_value + 1)` for an interval type that stores open
    boundaries.  For one that cannot (`storeOpen = false`, e.g. `Z_Box`): the integer quadrant
    `[min_value, max_value]` (`kf10 = false`, fixes/fix_c17_box_wrap_undefined_closed_bounds.diff); before
    that repair (`kf10 = true`) the LESS_THAN bound was kept as `<= max_value + 1` (KF-C17-10).  The
    check measures which variant the library implements. -/
def rationalQuadrant (storeOpen kf10 : Bool) (r : Repn) (w : Nat) : Itv :=
  if storeOpen then ⟨some (((minValue r w : Int) : Rat), false), some (((maxValue r w + 1 : Int) : Rat), true)⟩
  else if kf10 then ⟨some (((minValue r w : Int) : Rat), false), some (((maxValue r w + 1 : Int) : Rat), false)⟩
  else ⟨some (((minValue r w : Int) : Rat), false), some (((maxValue r w : Int) : Rat), false)⟩

def mapIdxFrom (f : Nat → Itv → Itv) : Nat → List Itv → List Itv
  | _, [] => []
  | i, I :: Is => f i I :: mapIdxFrom f (i + 1) Is

/-- the three loops of the `cs_p == nullptr` branch of `Box::wrap_assign` (non-empty box) -/
def boxWrap (strictTest storeOpen kf10 : Bool) (cfg : WrapCfg) (B : List Itv) : List Itv :=
  mapIdxFrom (fun i I =>
    if i ∈ cfg.vars then
      match cfg.o with
      | .wraps => ivWrap strictTest I cfg.w cfg.r (rangeItv cfg.r cfg.w)
      | .undefined => if (rationalQuadrant storeOpen kf10 cfg.r cfg.w).contains I then I else rangeItv cfg.r cfg.w
      | .impossible => I.inter (rangeItv cfg.r cfg.w)
    else I) 0 B

/-- membership in a box whose first interval is for dimension `i` -/
def boxMemFrom : Nat → List Itv → Pt → Prop
  | _, [], _ => True
  | i, I :: Is, v => I.mem (v i) ∧ boxMemFrom (i + 1) Is v
instance boxMemFromDec : (i : Nat) → (B : List Itv) → (v : Pt) → Decidable (boxMemFrom i B v)
  | _, [], _ => isTrue trivial
  | i, I :: Is, v => by
    unfold boxMemFrom
    have := boxMemFromDec (i + 1) Is v
    exact inferInstance
def boxMem (B : List Itv) (v : Pt) : Prop := boxMemFrom 0 B v
instance (B : List Itv) (v : Pt) : Decidable (boxMem B v) := by unfold boxMem; exact inferInstance

/-! ## reference for `contains_integer_point()` -/

/-- `(⌈inf x_i⌉, ⌊sup x_i⌋)` over the solutions of `cs`, when both are finite -/
def intBound (n : Nat) (cs : List Con) (i : Nat) : Option (Int × Int) :=
  match supB n (unitRow i 1) 0 cs, supB n (unitRow i (-1)) 0 cs with
  | .val p q _, .val p' q' _ => some (-(p' / q'), p / q)
  | _, _ => none

def intRange (lo hi : Int) : List Int := (List.range (hi - lo + 1).toNat).map fun (k : Nat) => lo + (k : Int)

/-- all integer vectors of a box -/
def boxPoints : List (Int × Int) → List (List Int)
  | [] => [[]]
  | (lo, hi) :: rest => (intRange lo hi).flatMap fun z => (boxPoints rest).map (z :: ·)

def boxVolume : List (Int × Int) → Nat
  | [] => 1
  | (lo, hi) :: rest => (hi - lo + 1).toNat * boxVolume rest

def allBounds (n : Nat) (cs : List Con) : Nat → Option (List (Int × Int))
  | 0 => some []
  | k + 1 =>
    match allBounds n cs k, intBound n cs k with
    | some b, some lh => some (b ++ [lh])
    | _, _ => none

/-- `some b`: the set `sem cs ⊆ ℚ^n` contains a point with integer coordinates iff `b` — decided by
    enumerating the integer vectors of the bounding box proved by K1 (`supB`); `none` when the set
    is unbounded or the box has more than `cap` integer vectors. -/
def containsIntegerPointRef (cap : Nat) (n : Nat) (cs : List Con) : Option Bool :=
  if !feasible n cs then some false
  else match allBounds n cs n with
    | none => none
    | some box =>
      if boxVolume box ≤ cap then some ((boxPoints box).any fun p => cs.all fun c => c.holdsAt p 1)
      else none

end PPLV.Wrap
