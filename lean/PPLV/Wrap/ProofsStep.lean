import PPLV.Wrap.ProofsLoop

/-! # C17 lemmas, part 3: the invariant of the main loop of `wrap_assign` -/
namespace PPLV.Wrap
open PPLV.Lin

variable (d : Dom) (cfg : WrapCfg) (v v' : Pt)

/-- The invariant after the variables `done` have been processed and before `todo`:
the point that is `v` on the pending (recorded, not yet translated) and on the unprocessed
coordinates and the target `v'` elsewhere belongs to the current element. -/
structure Inv (ps : d.D) (trs : List Tr) (dims : List Nat) (frb : List Con) (done todo : List Nat) : Prop where
  mem : d.γ ps (mix v v' (trs.map Tr.var ++ todo))
  dims_eq : dims = trs.map Tr.var
  trsDone : ∀ t ∈ trs, t.var ∈ done
  trsNodup : (trs.map Tr.var).Nodup
  trsQ : ∀ t ∈ trs, ∃ z : Int, v t.var = (z : Rat) ∧
    t.first ≤ quadrant cfg.r cfg.w z ∧ quadrant cfg.r cfg.w z ≤ t.last
  trsWraps : trs ≠ [] → cfg.o = .wraps
  frbSat : Sat frb v'

abbrev InvS (s : St d.D) (done todo : List Nat) : Prop := Inv d cfg v v' s.ps s.trs s.dims s.frb done todo

variable {d cfg v v'}

theorem mix_at_mem {L : List Nat} {i : Nat} (h : i ∈ L) : mix v v' L i = v i := by simp [mix, h]

section
variable (himg : Spec.WrapImage cfg v v')
include himg

theorem target_inRange {x : Nat} (hx : x ∈ cfg.vars) : InRangeQ cfg.r cfg.w (v' x) :=
  coordImage_inRange (himg.2.1 x hx)

/-- the variable `x` is given the full range (or is unconstrained and bounded later) -/
theorem inv_setFull {s : St d.D} {done todo : List Nat} {x : Nat}
    (hnd : (done ++ x :: todo).Nodup) (hx : x ∈ cfg.vars)
    (inv : InvS d cfg v v' s done (x :: todo)) :
    InvS d cfg v v' (setFull d cfg s x) (done ++ [x]) todo := by
  have hxd : x ∉ done := by
    intro h
    have := List.nodup_append.mp hnd
    exact this.2.2 x h x (List.mem_cons_self) rfl
  have hxt : x ∉ todo := by
    have := (List.nodup_append.mp hnd).2.1
    exact (List.nodup_cons.mp this).1
  refine ⟨?_, inv.dims_eq, ?_, inv.trsNodup, inv.trsQ, inv.trsWraps, ?_⟩
  · have h := d.unconstrain_sound s.ps x _ (v' x) inv.mem
    rw [mix_update v v' x _ (s.trs.map Tr.var ++ todo)] at h
    · exact h
    · intro i; simp only [List.mem_append, List.mem_cons]; tauto
    · intro h
      rcases List.mem_append.mp h with h | h
      · obtain ⟨t, ht, rfl⟩ := List.mem_map.mp h
        exact hxd (inv.trsDone t ht)
      · exact hxt h
  · intro t ht; exact List.mem_append_left _ (inv.trsDone t ht)
  · exact Sat_append inv.frbSat (rangeRows_sat (target_inRange himg hx))

omit himg in
/-- the variable `x` keeps its value (`v' x = v x`), possibly with more full-range bounds -/
theorem inv_keep {ps : d.D} {trs : List Tr} {dims : List Nat} {frb extra : List Con}
    {done todo : List Nat} {x : Nat} (hsame : v' x = v x) (hextra : Sat extra v')
    (inv : Inv d cfg v v' ps trs dims frb done (x :: todo)) :
    Inv d cfg v v' ps trs dims (frb ++ extra) (done ++ [x]) todo := by
  refine ⟨?_, inv.dims_eq, ?_, inv.trsNodup, inv.trsQ, inv.trsWraps, Sat_append inv.frbSat hextra⟩
  · have : mix v v' (trs.map Tr.var ++ todo) = mix v v' (trs.map Tr.var ++ x :: todo) := by
      funext i
      simp only [mix, List.mem_append, List.mem_cons]
      by_cases hi : i = x
      · subst hi; simp [hsame]
      · simp [hi]
    rw [this]; exact inv.mem
  · intro t ht; exact List.mem_append_left _ (inv.trsDone t ht)

theorem inv_cplxUpdate {s : St d.D} {done todo : List Nat} (ext : Nat)
    (hsub : ∀ i ∈ done, i ∈ cfg.vars)
    (inv : InvS d cfg v v' s done todo) :
    InvS d cfg v v' (cplxUpdate d cfg s ext) done todo := by
  unfold cplxUpdate
  split
  · simp only []
    split
    · refine ⟨?_, inv.dims_eq, inv.trsDone, inv.trsNodup, inv.trsQ, inv.trsWraps, ?_⟩
      · exact foldl_unconstrain_mem d Tr.var s.trs s.ps _ inv.mem
      · apply Sat_append inv.frbSat
        intro c hc
        obtain ⟨t, ht, hc⟩ := List.mem_flatMap.mp hc
        exact rangeRows_sat (target_inRange himg (hsub _ (inv.trsDone t ht))) c hc
    · exact inv
  · exact inv

omit himg in
theorem cplxUpdate_tripped (s : St d.D) (ext : Nat) : (cplxUpdate d cfg s ext).tripped = s.tripped := by
  unfold cplxUpdate; split
  · simp only []; split <;> rfl
  · rfl

omit himg in
theorem cplxUpdate_trs (s : St d.D) (ext : Nat) : (cplxUpdate d cfg s ext).trs = s.trs := by
  unfold cplxUpdate; split
  · simp only []; split <;> rfl
  · rfl

/-- facts about the value of `x`, which is still unprocessed -/
theorem x_facts {ps : d.D} {trs : List Tr} {dims : List Nat} {frb : List Con}
    {done todo : List Nat} {x : Nat} (hx : x ∈ cfg.vars)
    (_inv : Inv d cfg v v' ps trs dims frb done (x :: todo)) :
    ∃ z : Int, v x = (z : Rat) ∧ mix v v' (trs.map Tr.var ++ x :: todo) x = (z : Rat) := by
  obtain ⟨z, hz, _⟩ := himg.2.1 x hx
  refine ⟨z, hz, ?_⟩
  rw [mix_at_mem (by simp), hz]

theorem inv_hull {s : St d.D} {done todo : List Nat} {x : Nat} {fq lq : Int} {z : Int}
    (hnd : (done ++ x :: todo).Nodup) (hx : x ∈ cfg.vars) (ho : cfg.o = .wraps)
    (hz : v x = (z : Rat)) (h1 : fq ≤ quadrant cfg.r cfg.w z) (h2 : quadrant cfg.r cfg.w z ≤ lq)
    (inv : InvS d cfg v v' s done (x :: todo)) :
    Inv d cfg v v' (hullLoop d cfg s.ps x fq lq) s.trs s.dims s.frb (done ++ [x]) todo := by
  have hxd : x ∉ done := by
    intro h
    exact (List.nodup_append.mp hnd).2.2 x h x (List.mem_cons_self) rfl
  have hxt : x ∉ todo := (List.nodup_cons.mp (List.nodup_append.mp hnd).2.1).1
  have hv' : v' x = ((wrapR cfg.r cfg.w z : Int) : Rat) := by
    have := himg.2.1 x hx
    rw [hz] at this
    exact coordImage_wraps ho this
  refine ⟨?_, inv.dims_eq, ?_, inv.trsNodup, inv.trsQ, inv.trsWraps, inv.frbSat⟩
  · unfold hullLoop
    apply foldl_join_mem
    refine Or.inr ⟨quadrant cfg.r cfg.w z, mem_quadrants _ _ _ h1 h2, ?_⟩
    have hux : mix v v' (s.trs.map Tr.var ++ x :: todo) x = (z : Rat) := by
      rw [mix_at_mem (by simp), hz]
    have hm := shiftTo_mem d cfg s.ps x _ z inv.mem hux
    rw [← hv', mix_update v v' x _ (s.trs.map Tr.var ++ todo)] at hm
    · apply refineRange_mem _ _ _ _ _ hm
      have : mix v v' (s.trs.map Tr.var ++ todo) x = v' x := by
        simp only [mix]
        rw [if_neg]
        intro h
        rcases List.mem_append.mp h with h | h
        · obtain ⟨t, ht, rfl⟩ := List.mem_map.mp h
          exact hxd (inv.trsDone t ht)
        · exact hxt h
      rw [this]; exact target_inRange himg hx
    · intro i; simp only [List.mem_append, List.mem_cons]; tauto
    · intro h
      rcases List.mem_append.mp h with h | h
      · obtain ⟨t, ht, rfl⟩ := List.mem_map.mp h
        exact hxd (inv.trsDone t ht)
      · exact hxt h
  · intro t ht; exact List.mem_append_left _ (inv.trsDone t ht)

omit himg in
theorem inv_push {s : St d.D} {done todo : List Nat} {x : Nat} {fq lq : Int} {z : Int}
    (hnd : (done ++ x :: todo).Nodup) (ho : cfg.o = .wraps)
    (hz : v x = (z : Rat)) (h1 : fq ≤ quadrant cfg.r cfg.w z) (h2 : quadrant cfg.r cfg.w z ≤ lq)
    (inv : InvS d cfg v v' s done (x :: todo)) :
    Inv d cfg v v' s.ps (s.trs ++ [⟨x, fq, lq⟩]) (s.dims ++ [x]) s.frb (done ++ [x]) todo := by
  have hxd : x ∉ done := by
    intro h
    exact (List.nodup_append.mp hnd).2.2 x h x (List.mem_cons_self) rfl
  refine ⟨?_, ?_, ?_, ?_, ?_, fun _ => ho, inv.frbSat⟩
  · have : mix v v' ((s.trs ++ [(⟨x, fq, lq⟩ : Tr)]).map Tr.var ++ todo)
        = mix v v' (s.trs.map Tr.var ++ x :: todo) := by
      apply mix_congr; intro i; simp
    rw [this]; exact inv.mem
  · rw [inv.dims_eq]; simp
  · intro t ht
    rcases List.mem_append.mp ht with ht | ht
    · exact List.mem_append_left _ (inv.trsDone t ht)
    · simp only [List.mem_singleton] at ht; subst ht; simp
  · rw [List.map_append, List.nodup_append]
    refine ⟨inv.trsNodup, by simp, ?_⟩
    intro a ha b hb
    simp only [List.map_cons, List.map_nil, List.mem_singleton] at hb
    subst hb
    obtain ⟨t, ht, rfl⟩ := List.mem_map.mp ha
    intro h; exact hxd (h ▸ inv.trsDone t ht)
  · intro t ht
    rcases List.mem_append.mp ht with ht | ht
    · exact inv.trsQ t ht
    · simp only [List.mem_singleton] at ht; subst ht; exact ⟨z, hz, h1, h2⟩

end

end PPLV.Wrap
