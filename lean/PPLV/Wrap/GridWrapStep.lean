import PPLV.Wrap.GridWrapArith
import PPLV.Wrap.GridWrapFreq
import PPLV.Wrap.GridWrapOps

/-!
# `Grid::wrap_assign` lemmas, part 4: one iteration of each loop keeps every wrapped image

`u` is a point of the receiver whose coordinate `x` is still the (integer) value of `x` at some point of the copy
`gr`; `a'` is an admissible image of that value (`Spec.CoordImage`).  Then the loop body does not return, and the
new receiver contains `u` with `x` replaced by `a'`.
-/
namespace PPLV.Wrap.GW
open PPLV.Lattice PPLV.Wrap

theorem update_self_val (u : Nat → Rat) (x : Nat) (a : Rat) (h : a = u x) : Function.update u x a = u := by
  subst h; exact Function.update_eq_self x u

theorem rat_of_den_one (v : Rat) (h : (v.den : Int) = 1) : v = (v.num : Rat) := by
  have h1 : v.den = 1 := by exact_mod_cast h
  have := Rat.num_div_den v
  rw [h1] at this
  simpa using this.symm

theorem intCast_num_den (z : Int) : ((z : Rat)).num = z ∧ (((z : Rat)).den : Int) = 1 := by
  constructor
  · exact Rat.num_intCast z
  · simp

/-- adding the parameter `c·e_x` reaches every value `u x + k·c` -/
theorem param_step (fx : Repairs) {this : GridGens} {x : Nat} {c : Int} {u : Nat → Rat} (hu : Gen.sem this u) (a' : Rat) (k : Int)
    (ha : a' = u x + (k : Rat) * (c : Rat)) :
    ∃ t, addParamOrLeave fx this x c = .inl t ∧ Gen.sem t (Function.update u x a') := by
  unfold addParamOrLeave
  cases h : addGridGeneratorParam this x c with
  | ok t => exact ⟨t, rfl, by rw [ha]; exact addGridGeneratorParam_ok h hu k⟩
  | error l => exact absurd hu ((addGridGeneratorParam_error h).2 u)

/-- `OVERFLOW_WRAPS` / `OVERFLOW_IMPOSSIBLE`, one variable (Grid_public.cc:3036-3121) -/
theorem stepWI_sound (fx : Repairs) (cfg : WrapCfg) (_hw : 0 < cfg.w) (ho : cfg.o = .wraps ∨ cfg.o = .impossible)
    (gr : Gens) (x : Nat) (hnf : fx.kf12 = true ∨ flawedAt cfg.w cfg.o gr x = false) (this : GridGens)
    (u : Nat → Rat) (hu : Gen.sem this u) (hval : ∃ v0, gr.Mem v0 ∧ u x = v0 x) (a' : Rat)
    (himg : Spec.CoordImage cfg (u x) a') :
    ∃ t, stepWI fx cfg.w cfg.o (minValue cfg.r cfg.w) (maxValue cfg.r cfg.w) gr x this = .inl t ∧
      Gen.sem t (Function.update u x a') := by
  obtain ⟨z, hz, -⟩ := id himg
  rw [hz] at himg
  have hwf : wrapFrequency cfg.w = pow2 cfg.w := rfl
  -- the image when overflow wraps / is impossible
  have hW : cfg.o = .wraps → a' = u x + ((-(quadrant cfg.r cfg.w z) : Int) : Rat) * ((wrapFrequency cfg.w : Int) : Rat) := by
    intro h
    rw [coordImage_wraps h himg, wrapR_eq_sub, hz, hwf]; push_cast; ring
  have hI : cfg.o = .impossible → a' = u x ∧ inRange cfg.r cfg.w z := by
    intro h
    obtain ⟨z1, hz1, h1⟩ := id himg
    have : z1 = z := by exact_mod_cast hz1.symm
    subst this
    rw [h] at h1
    exact ⟨by rw [hz]; exact h1.2, h1.1⟩
  unfold stepWI
  simp only []
  cases hfreq : frequencyNoCheck gr (unit x) with
  | none =>
    simp only []
    rcases ho with ho | ho
    · rw [if_pos ho]
      exact param_step fx hu a' _ (hW ho)
    · rw [if_neg (by rw [ho]; decide)]
      exact ⟨this, rfl, by rw [update_self_val u x a' (hI ho).1]; exact hu⟩
  | some q =>
    obtain ⟨f_n, f_d, v_n, v_d⟩ := q
    simp only []
    obtain ⟨f, v, hf0, rfl, rfl, rfl, rfl, hvals⟩ := frequencyNoCheck_some hfreq
    obtain ⟨v0, hv0, hux⟩ := hval
    obtain ⟨t, ht⟩ := hvals v0 hv0
    rw [dotF_unit, ← hux, hz] at ht
    -- ht : z = v + t f
    by_cases hfn : f.num = 0
    · -- constant
      rw [if_pos hfn]
      have hf : f = 0 := Rat.num_eq_zero.mp hfn
      rw [hf, mul_zero, add_zero] at ht
      have hvn : v.num = z := by rw [← ht]; exact (intCast_num_den z).1
      have hvd : (v.den : Int) = 1 := by rw [← ht]; exact (intCast_num_den z).2
      rw [if_neg (by rw [hvd]; decide)]
      rw [hvn]
      by_cases hout : z > maxValue cfg.r cfg.w ∨ z < minValue cfg.r cfg.w
      · rw [if_pos hout]
        rcases ho with ho | ho
        · rw [if_neg (by rw [ho]; decide)]
          refine ⟨_, rfl, ?_⟩
          rw [wrapConstant_eq cfg.r cfg.w _hw z, coordImage_wraps ho himg]
          exact pin_mem _ hu
        · exfalso
          have := (hI ho).2
          unfold inRange at this; omega
      · rw [if_neg hout]
        refine ⟨this, rfl, ?_⟩
        have hr : inRange cfg.r cfg.w z := by unfold inRange; omega
        rw [update_self_val u x a' (by rw [coordImage_of_inRange himg hr, hz])]; exact hu
    · -- not a constant
      rw [if_neg hfn]
      have hdvd : (v.den : Int) ∣ (f.den : Int) := den_dvd_of_value_int v f t z ht.symm
      rw [if_neg (by rw [not_not]; by_contra hc; exact ((tmod_ne_zero_iff _ _).mp hc) hdvd)]
      -- the receiver after the integrality congruence
      have hu1 : Gen.sem (if (f.den : Int) ≠ 1 then addCongruenceInt this x else this) u := by
        split
        · exact addCongruenceInt_mem hu ⟨z, hz⟩
        · exact hu
      generalize (if (f.den : Int) ≠ 1 then addCongruenceInt this x else this) = this1 at hu1 ⊢
      by_cases hpar : cfg.o = .wraps ∧ (f.num ≠ wrapFrequency cfg.w ∨ (fx.kf12 = true ∧ (v.den : Int) ≠ 1))
      · rw [if_pos hpar]
        exact param_step fx hu1 a' _ (hW hpar.1)
      · rw [if_neg hpar]
        by_cases hvd : (v.den : Int) = 1
        · rw [if_pos hvd]
          -- the values are `v.num + t' f.num`
          have hv : v = (v.num : Rat) := rat_of_den_one v hvd
          have htf : (t : Rat) * f = ((z - v.num : Int) : Rat) := by
            push_cast; rw [ht]; rw [← hv]; ring
          obtain ⟨t', ht'⟩ := mul_int_of_int f t (z - v.num) htf
          have hzf : z = v.num + t' * f.num := by omega
          have hfpos : 0 < f.num := by
            have : 0 ≤ f.num := Rat.num_nonneg.mpr hf0
            omega
          by_cases hc : f.num = wrapFrequency cfg.w ∨
              leastNotBelow (minValue cfg.r cfg.w) f.num v.num + f.num > maxValue cfg.r cfg.w
          · rw [if_pos hc]
            refine ⟨_, rfl, ?_⟩
            have ha : a' = ((leastNotBelow (minValue cfg.r cfg.w) f.num v.num : Int) : Rat) := by
              rcases ho with ho | ho
              · have hfw : f.num = wrapFrequency cfg.w := by
                  by_contra hne; exact hpar ⟨ho, Or.inl hne⟩
                rw [coordImage_wraps ho himg, hfw]
                rw [hfw] at hzf
                rw [pin_wraps cfg.r cfg.w v.num z t' hzf]
              · obtain ⟨ha, hr⟩ := hI ho
                rw [ha, hz]
                exact_mod_cast pin_impossible cfg.r cfg.w f.num v.num z t' hfpos hzf hr hc
            rw [ha]
            exact pin_mem _ hu1
          · rw [if_neg hc]
            refine ⟨this1, rfl, ?_⟩
            rcases ho with ho | ho
            · exfalso
              apply hc; left
              by_contra hne; exact hpar ⟨ho, Or.inl hne⟩
            · rw [update_self_val u x a' (hI ho).1]; exact hu1
        · rw [if_neg hvd]
          refine ⟨this1, rfl, ?_⟩
          rcases ho with ho | ho
          · -- the branch of KF-C17-12: excluded by `hnf`
            exfalso
            have hfw : f.num = wrapFrequency cfg.w := by
              by_contra hne; exact hpar ⟨ho, Or.inl hne⟩
            have hnf : flawedAt cfg.w cfg.o gr x = false := by
              rcases hnf with h12 | h
              · exact absurd ⟨ho, Or.inr ⟨h12, hvd⟩⟩ hpar
              · exact h
            have htm : Int.tmod (f.den : Int) (v.den : Int) = 0 := by
              by_contra hc; exact ((tmod_ne_zero_iff _ _).mp hc) hdvd
            unfold flawedAt at hnf
            rw [hfreq] at hnf
            simp only [] at hnf
            rw [ho] at hnf
            simp [htm, hfw, hvd] at hnf
            exact hfn (by rw [hfw]; exact hnf)
          · rw [update_self_val u x a' (hI ho).1]; exact hu1

/-- `OVERFLOW_UNDEFINED`, one variable (Grid_public.cc:3132-3167) -/
theorem stepU_sound (cfg : WrapCfg) (ho : cfg.o = .undefined)
    (gr : Gens) (x : Nat) (this : GridGens)
    (u : Nat → Rat) (hu : Gen.sem this u) (hval : ∃ v0, gr.Mem v0 ∧ u x = v0 x) (a' : Rat)
    (himg : Spec.CoordImage cfg (u x) a') :
    ∃ t, stepU (minValue cfg.r cfg.w) (maxValue cfg.r cfg.w) gr x this = .inl t ∧
      Gen.sem t (Function.update u x a') := by
  obtain ⟨z, hz, h1⟩ := id himg
  rw [ho] at h1
  simp only [] at h1
  -- the image is an integer `za`, equal to `z` when `z` is in range
  obtain ⟨za, hza, hzr⟩ : ∃ za : Int, a' = (za : Rat) ∧ (inRange cfg.r cfg.w z → za = z) := by
    rcases h1 with ⟨hr, h⟩ | ⟨hn, z', _, h⟩
    · exact ⟨z, h, fun _ => rfl⟩
    · exact ⟨z', h, fun hr => absurd hr hn⟩
  have hpar : a' = u x + ((za - z : Int) : Rat) * ((1 : Int) : Rat) := by
    rw [hza, hz]; push_cast; ring
  unfold stepU
  simp only []
  by_cases hb : boundsExpr (.gens gr) (unit x) = true
  · rw [hb]
    simp only [Bool.not_true, Bool.false_eq_true, if_false]
    -- `x` is constant on `gr`: its value is that of the point
    obtain ⟨v0, hv0, hux⟩ := hval
    have hconst := (boundsExpr_iff (.gens gr) (unit x)).mp hb v0 gr.pt.toFun hv0 Gens.Mem.pt
    rw [dotF_unit, dotF_unit] at hconst
    have hpx : gr.pt.getD x 0 = (z : Rat) := by
      have : gr.pt.toFun x = gr.pt.getD x 0 := rfl
      rw [← this, ← hconst, ← hux, hz]
    rw [hpx]
    rw [if_neg (by rw [not_not]; simp)]
    by_cases hout : (z : Rat) > ((maxValue cfg.r cfg.w : Int) : Rat) ∨ (z : Rat) < ((minValue cfg.r cfg.w : Int) : Rat)
    · rw [if_pos hout]
      exact param_step beforeFix hu a' _ hpar
    · rw [if_neg hout]
      refine ⟨this, rfl, ?_⟩
      have hr : inRange cfg.r cfg.w z := by
        unfold inRange
        constructor
        · by_contra hc
          apply hout; right
          exact_mod_cast (by omega : z < minValue cfg.r cfg.w)
        · by_contra hc
          apply hout; left
          exact_mod_cast (by omega : z > maxValue cfg.r cfg.w)
      rw [update_self_val u x a' (by rw [hza, hzr hr, hz])]; exact hu
  · have hb' : boundsExpr (.gens gr) (unit x) = false := by
      cases h : boundsExpr (.gens gr) (unit x) with
      | true => exact absurd h hb
      | false => rfl
    rw [hb']
    simp only [Bool.not_false, if_true]
    by_cases hden : (gr.pt.getD x 0).den ≠ 1
    · rw [if_pos hden]
      refine ⟨_, rfl, ?_⟩
      rw [hza]
      exact freeInt_mem za hu
    · rw [if_neg hden]
      exact param_step beforeFix hu a' _ hpar

end PPLV.Wrap.GW
