import PPLV.Wrap.ProofsStep

/-! # C17 lemmas, part 4: one loop iteration, `wrap_assign_ind`, `wrap_assign_col`, the theorem -/
namespace PPLV.Wrap
open PPLV.Lin

variable {d : Dom} {cfg : WrapCfg} {v v' : Pt}

/-! ### the ghost flag only ever goes up -/

theorem setFull_tripped (s : St d.D) (x : Nat) : (setFull d cfg s x).tripped = s.tripped := rfl

theorem stepWrap_tripped_mono (fix : Bool) (s : St d.D) (x : Nat) (fq lq : Int)
    (h : s.tripped = true) : (stepWrap fix d cfg s x fq lq).tripped = true := by
  unfold stepWrap
  simp only []
  split
  · exact h
  · split
    · simpa [cplxUpdate_tripped] using h
    · split
      · simpa [cplxUpdate_tripped] using h
      · split
        · simpa [setFull_tripped, cplxUpdate_tripped] using h
        · rfl

theorem step_tripped_mono (fix : Bool) (s : St d.D) (x : Nat)
    (h : s.tripped = true) : (step fix d cfg s x).tripped = true := by
  unfold step
  split
  · unfold stepQ
    split
    · exact h
    · split
      · exact h
      · split
        · exact h
        · exact stepWrap_tripped_mono fix s x _ _ h
  · exact h

theorem foldl_tripped_mono (fix : Bool) (l : List Nat) (s : St d.D)
    (h : s.tripped = true) : (l.foldl (step fix d cfg) s).tripped = true := by
  induction l generalizing s with
  | nil => exact h
  | cons x xs ih => exact ih _ (step_tripped_mono fix s x h)

/-- the repaired code never raises the flag -/
theorem stepWrap_tripped_fix (s : St d.D) (x : Nat) (fq lq : Int) :
    (stepWrap true d cfg s x fq lq).tripped = s.tripped := by
  unfold stepWrap
  simp only []
  split
  · rfl
  · split
    · simp [cplxUpdate_tripped]
    · split
      · simp [cplxUpdate_tripped]
      · simp [setFull_tripped, cplxUpdate_tripped]

theorem step_tripped_fix (s : St d.D) (x : Nat) : (step true d cfg s x).tripped = s.tripped := by
  unfold step
  split
  · unfold stepQ
    split
    · rfl
    · split
      · rfl
      · split
        · rfl
        · exact stepWrap_tripped_fix s x _ _
  · rfl

theorem foldl_tripped_fix (l : List Nat) (s : St d.D) :
    (l.foldl (step true d cfg) s).tripped = s.tripped := by
  induction l generalizing s with
  | nil => rfl
  | cons x xs ih => simp only [List.foldl_cons]; rw [ih, step_tripped_fix]

/-- individual wrapping never raises the flag -/
theorem stepWrap_tripped_ind (fix : Bool) (hi : cfg.individually = true) (s : St d.D) (x : Nat) (fq lq : Int) :
    (stepWrap fix d cfg s x fq lq).tripped = s.tripped := by
  unfold stepWrap
  simp only []
  split
  · rfl
  · split
    · simp [cplxUpdate_tripped]
    · split
      · simp [cplxUpdate_tripped]
      · rename_i h; exact absurd (Or.inl hi) h

theorem step_tripped_ind (fix : Bool) (hi : cfg.individually = true) (s : St d.D) (x : Nat) :
    (step fix d cfg s x).tripped = s.tripped := by
  unfold step
  split
  · unfold stepQ
    split
    · rfl
    · split
      · rfl
      · split
        · rfl
        · exact stepWrap_tripped_ind fix hi s x _ _
  · rfl

theorem foldl_tripped_ind (fix : Bool) (hi : cfg.individually = true) (l : List Nat) (s : St d.D) :
    (l.foldl (step fix d cfg) s).tripped = s.tripped := by
  induction l generalizing s with
  | nil => rfl
  | cons x xs ih => simp only [List.foldl_cons]; rw [ih, step_tripped_ind fix hi]

/-- unless overflow wraps, the flag is never raised -/
theorem step_tripped_notWraps (fix : Bool) (ho : cfg.o ≠ .wraps) (s : St d.D) (x : Nat) :
    (step fix d cfg s x).tripped = s.tripped := by
  unfold step
  split
  · unfold stepQ
    split
    · rfl
    · split
      · rfl
      · split
        · rfl
        · rename_i h1 h2
          exfalso
          cases hc : cfg.o
          · exact ho hc
          · exact h2 (Or.inl hc)
          · exact h1 hc
  · rfl

theorem foldl_tripped_notWraps (fix : Bool) (ho : cfg.o ≠ .wraps) (l : List Nat) (s : St d.D) :
    (l.foldl (step fix d cfg) s).tripped = s.tripped := by
  induction l generalizing s with
  | nil => rfl
  | cons x xs ih => simp only [List.foldl_cons]; rw [ih, step_tripped_notWraps fix ho]

/-! ### one iteration preserves the invariant -/

section
variable (himg : Spec.WrapImage cfg v v')
include himg

theorem stepWrap_inv (fix : Bool) {s : St d.D} {done todo : List Nat} {x : Nat} {fq lq z : Int}
    (hnd : (done ++ x :: todo).Nodup) (hx : x ∈ cfg.vars) (hsub : ∀ i ∈ done, i ∈ cfg.vars)
    (ho : cfg.o = .wraps)
    (hz : v x = (z : Rat)) (h1 : fq ≤ quadrant cfg.r cfg.w z) (h2 : quadrant cfg.r cfg.w z ≤ lq)
    (inv : InvS d cfg v v' s done (x :: todo))
    (htr : (stepWrap fix d cfg s x fq lq).tripped = false) :
    InvS d cfg v v' (stepWrap fix d cfg s x fq lq) (done ++ [x]) todo := by
  unfold stepWrap at htr ⊢
  simp only [] at htr ⊢
  split
  · exact inv_setFull himg hnd hx inv
  · have inv1 := inv_cplxUpdate himg (lq - fq + 1).toNat hsub inv
    split
    · exact inv_hull himg hnd hx ho hz h1 h2 inv1
    · split
      · exact inv_push hnd ho hz h1 h2 inv1
      · split
        · exact inv_setFull himg hnd hx inv1
        · rename_i h0 ha hb hc
          rw [if_neg h0, if_neg ha, if_neg hb, if_neg hc] at htr
          simp at htr

theorem stepQ_inv (fix : Bool) {s : St d.D} {done todo : List Nat} {x : Nat} {fq lq z : Int}
    (hnd : (done ++ x :: todo).Nodup) (hx : x ∈ cfg.vars) (hsub : ∀ i ∈ done, i ∈ cfg.vars)
    (hz : v x = (z : Rat)) (h1 : fq ≤ quadrant cfg.r cfg.w z) (h2 : quadrant cfg.r cfg.w z ≤ lq)
    (inv : InvS d cfg v v' s done (x :: todo))
    (htr : (stepQ fix d cfg s x fq lq).tripped = false) :
    InvS d cfg v v' (stepQ fix d cfg s x fq lq) (done ++ [x]) todo := by
  have himx := himg.2.1 x hx
  rw [hz] at himx
  unfold stepQ at htr ⊢
  split
  · rename_i h0
    have hq : quadrant cfg.r cfg.w z = 0 := by omega
    have hr := (inRange_iff_quadrant cfg.r cfg.w z).mpr hq
    have hsame : v' x = v x := by rw [hz]; exact coordImage_of_inRange himx hr
    have := inv_keep (extra := []) hsame (Sat_nil v') inv
    simpa using this
  · split
    · rename_i h0 hi
      have hsame : v' x = v x := by rw [hz]; exact coordImage_impossible hi himx
      have hr := target_inRange himg hx
      have := inv_keep (extra := (if fq < 0 then [lowRow cfg.r cfg.w x] else [])
                             ++ (if lq > 0 then [highRow cfg.r cfg.w x] else [])) hsame ?_ inv
      · simpa [InvS, List.append_assoc] using this
      · apply Sat_append
        · split
          · intro c hc; simp only [List.mem_singleton] at hc; subst hc; exact lowRow_of_inRange hr
          · exact Sat_nil _
        · split
          · intro c hc; simp only [List.mem_singleton] at hc; subst hc; exact highRow_of_inRange hr
          · exact Sat_nil _
    · split
      · exact inv_setFull himg hnd hx inv
      · rename_i h0 hi hu
        have ho : cfg.o = .wraps := by
          cases hc : cfg.o
          · rfl
          · exact absurd (Or.inl hc) hu
          · exact absurd hc hi
        rw [if_neg h0, if_neg hi, if_neg hu] at htr
        exact stepWrap_inv himg fix hnd hx hsub ho hz h1 h2 inv htr

theorem step_inv (fix : Bool) {s : St d.D} {done todo : List Nat} {x : Nat}
    (hnd : (done ++ x :: todo).Nodup) (hx : x ∈ cfg.vars) (hsub : ∀ i ∈ done, i ∈ cfg.vars)
    (inv : InvS d cfg v v' s done (x :: todo))
    (htr : (step fix d cfg s x).tripped = false) :
    InvS d cfg v v' (step fix d cfg s x) (done ++ [x]) todo := by
  obtain ⟨z, hz, hux⟩ := x_facts himg hx inv
  unfold step at htr ⊢
  split
  · rename_i l u hmin hmax
    rw [hmin, hmax] at htr
    have hl := d.minimize_sound s.ps x l _ hmin inv.mem
    have hu := d.maximize_sound s.ps x u _ hmax inv.mem
    rw [hux] at hl hu
    obtain ⟨b1, b2⟩ := quadrant_bounds cfg.r cfg.w l u z hl hu
    exact stepQ_inv himg fix hnd hx hsub hz b1 b2 inv htr
  · exact inv_setFull himg hnd hx inv

theorem loop_inv (fix : Bool) (todo : List Nat) : ∀ (s : St d.D) (done : List Nat),
    (done ++ todo).Nodup → (∀ i ∈ done ++ todo, i ∈ cfg.vars) →
    InvS d cfg v v' s done todo →
    (todo.foldl (step fix d cfg) s).tripped = false →
    InvS d cfg v v' (todo.foldl (step fix d cfg) s) (done ++ todo) [] := by
  induction todo with
  | nil => intro s done _ _ inv _; simpa using inv
  | cons x xs ih =>
    intro s done hnd hsub inv htr
    simp only [List.foldl_cons] at htr ⊢
    have hstep : (step fix d cfg s x).tripped = false := by
      cases h : (step fix d cfg s x).tripped
      · rfl
      · rw [foldl_tripped_mono fix xs _ h] at htr; cases htr
    have inv' := step_inv himg fix hnd (hsub x (by simp)) (fun i hi => hsub i (by simp [hi])) inv hstep
    have := ih (step fix d cfg s x) (done ++ [x]) (by simpa using hnd)
      (by intro i hi; apply hsub; simpa using hi) inv' htr
    simpa using this

/-! ### `wrap_assign_ind` -/

theorem wrapInd_mem (cs : List Con) (hcs : Sat cs v') (ho : cfg.o = .wraps) :
    ∀ (trs : List Tr) (ps : d.D) (vars : List Nat),
    vars = trs.map Tr.var → (trs.map Tr.var).Nodup →
    (∀ t ∈ trs, t.var ∈ cfg.vars ∧ ∃ z : Int, v t.var = (z : Rat) ∧
      t.first ≤ quadrant cfg.r cfg.w z ∧ quadrant cfg.r cfg.w z ≤ t.last) →
    d.γ ps (mix v v' (trs.map Tr.var)) →
    d.γ (wrapInd d cfg cs trs ps vars) v' := by
  intro trs
  induction trs with
  | nil => intro ps vars _ _ _ hm; simpa [wrapInd, mix_nil] using hm
  | cons t rest ih =>
    intro ps vars hvars hnd hq hm
    obtain ⟨htv, z, hz, h1, h2⟩ := hq t List.mem_cons_self
    have hnd' := List.nodup_cons.mp (by simpa using hnd : (t.var :: rest.map Tr.var).Nodup)
    have herase : vars.erase t.var = rest.map Tr.var := by
      rw [hvars]; simp
    unfold wrapInd
    simp only []
    rw [herase]
    apply ih _ _ rfl hnd'.2 (fun t' ht' => hq t' (List.mem_cons_of_mem _ ht'))
    apply foldl_join_mem
    refine Or.inr ⟨quadrant cfg.r cfg.w z, mem_quadrants _ _ _ h1 h2, ?_⟩
    have hv' : v' t.var = ((wrapR cfg.r cfg.w z : Int) : Rat) := by
      have := himg.2.1 t.var htv
      rw [hz] at this
      exact coordImage_wraps ho this
    have hux : mix v v' ((t :: rest).map Tr.var) t.var = (z : Rat) := by
      rw [mix_at_mem (by simp), hz]
    have hsh := shiftTo_mem d cfg ps t.var _ z hm hux
    rw [← hv', mix_update v v' t.var _ (rest.map Tr.var) (by intro i; simp) hnd'.1] at hsh
    have hrange : InRangeQ cfg.r cfg.w (mix v v' (rest.map Tr.var) t.var) := by
      have : mix v v' (rest.map Tr.var) t.var = v' t.var := by simp [mix, hnd'.1]
      rw [this]; exact target_inRange himg htv
    apply refineRange_mem _ _ _ _ _ _ hrange
    split
    · rename_i hemp
      have : rest.map Tr.var = [] := by simpa using hemp
      rw [this, mix_nil] at hsh ⊢
      exact d.refineAll_sound _ _ _ hsh hcs
    · apply foldl_refine_mem d _ cs _ _ hsh
      intro c hc hused
      rw [sat_of_allZeroOn c (rest.map Tr.var) _ v' (allZeroOn_of_asRead cs _ c hc _ hused)]
      · exact hcs c hc
      · intro i hi; simp [mix, hi]

/-! ### `wrap_assign_col` -/

omit himg in
theorem wrapCol_mono (vars : List Nat) (pt : Pt) : ∀ (trs : List Tr) (dest src : d.D),
    d.γ dest pt → d.γ (wrapCol d cfg vars trs dest src) pt := by
  intro trs
  induction trs with
  | nil => intro dest src h; exact d.join_left _ _ _ h
  | cons t rest ih =>
    intro dest src h
    unfold wrapCol
    apply foldl_acc_mem d.γ _ _ _ _ (fun a q ha => ih a _ ha) (Or.inl h)

theorem wrapCol_mem (vars : List Nat) (hvars : ∀ x ∈ vars, x ∈ cfg.vars) (ho : cfg.o = .wraps) :
    ∀ (trs : List Tr) (dest src : d.D),
    (trs.map Tr.var).Nodup →
    (∀ t ∈ trs, t.var ∈ cfg.vars ∧ ∃ z : Int, v t.var = (z : Rat) ∧
      t.first ≤ quadrant cfg.r cfg.w z ∧ quadrant cfg.r cfg.w z ≤ t.last) →
    d.γ src (mix v v' (trs.map Tr.var)) →
    d.γ (wrapCol d cfg vars trs dest src) v' := by
  intro trs
  induction trs with
  | nil =>
    intro dest src _ _ hm
    rw [List.map_nil, mix_nil] at hm
    unfold wrapCol
    apply d.join_right
    apply foldl_refineRange_mem d cfg vars _ v'
    · exact refineGuard_mem d cfg src v' hm himg.2.2
    · intro x hx; exact target_inRange himg (hvars x hx)
  | cons t rest ih =>
    intro dest src hnd hq hm
    obtain ⟨htv, z, hz, h1, h2⟩ := hq t List.mem_cons_self
    have hnd' := List.nodup_cons.mp (by simpa using hnd : (t.var :: rest.map Tr.var).Nodup)
    unfold wrapCol
    apply foldl_acc_mem d.γ _ _ _ _ (fun a q ha => wrapCol_mono vars v' rest a _ ha)
    refine Or.inr ⟨quadrant cfg.r cfg.w z, mem_quadrants _ _ _ h1 h2, fun a => ?_⟩
    apply ih a _ hnd'.2 (fun t' ht' => hq t' (List.mem_cons_of_mem _ ht'))
    have hv' : v' t.var = ((wrapR cfg.r cfg.w z : Int) : Rat) := by
      have := himg.2.1 t.var htv
      rw [hz] at this
      exact coordImage_wraps ho this
    have hux : mix v v' ((t :: rest).map Tr.var) t.var = (z : Rat) := by
      rw [mix_at_mem (by simp), hz]
    have hsh := shiftTo_mem d cfg src t.var _ z hm hux
    rw [← hv', mix_update v v' t.var _ (rest.map Tr.var) (by intro i; simp) hnd'.1] at hsh
    exact hsh

/-! ### the theorem -/

/-- **Soundness of the generic wrapping operator**, for every abstract domain, width, signedness,
overflow mode, guard, threshold, individual or collective wrapping — provided the unrepaired
branch is not executed (`fix = true`, or the ghost flag of the run is down). -/
theorem wrapAssignG_sound (fix : Bool) (P : d.D) (hv : d.γ P v)
    (htr : (wrapAssignG fix d cfg P).2 = false) : d.γ (wrapAssignG fix d cfg P).1 v' := by
  unfold wrapAssignG at htr ⊢
  simp only [] at htr ⊢
  split
  · -- no variable to wrap
    rename_i hemp
    have hnone : ∀ i, i ∉ cfg.vars := by
      intro i hi
      have := (mem_normVars i cfg.vars).mpr hi
      have hnil : normVars cfg.vars = [] := by simpa using hemp
      rw [hnil] at this; cases this
    have : v' = v := by funext i; exact himg.1 i (hnone i)
    rw [this] at himg ⊢
    exact refineGuard_mem d cfg P v hv himg.2.2
  · split
    · rename_i he; exact absurd hv (d.isEmpty_sound P he v)
    · rename_i hne hnE
      rw [if_neg hne, if_neg hnE] at htr
      simp only [] at htr
      have inv0 : InvS d cfg v v' (initSt d P) [] (normVars cfg.vars) := by
        refine ⟨?_, rfl, ?_, by simp [initSt], ?_, ?_, ?_⟩
        · have : mix v v' ((initSt d P).trs.map Tr.var ++ normVars cfg.vars) = v := by
            funext i
            simp only [initSt, List.map_nil, List.nil_append, mix]
            split
            · rfl
            · rename_i hi
              exact himg.1 i (fun h => hi ((mem_normVars i cfg.vars).mpr h))
          rw [this]; exact hv
        · intro t ht; simp [initSt] at ht
        · intro t ht; simp [initSt] at ht
        · intro h; simp [initSt] at h
        · exact Sat_nil v'
      have inv := loop_inv himg fix (normVars cfg.vars) (initSt d P) []
        (by simpa using normVars_nodup cfg.vars)
        (by intro i hi; exact (mem_normVars i cfg.vars).mp (by simpa using hi)) inv0 htr
      generalize (normVars cfg.vars).foldl (step fix d cfg) (initSt d P) = s at inv htr
      have hq : ∀ t ∈ s.trs, t.var ∈ cfg.vars ∧ ∃ z : Int, v t.var = (z : Rat) ∧
          t.first ≤ quadrant cfg.r cfg.w z ∧ quadrant cfg.r cfg.w z ≤ t.last := by
        intro t ht
        refine ⟨?_, inv.trsQ t ht⟩
        have := inv.trsDone t ht
        exact (mem_normVars _ _).mp (by simpa using this)
      have hmem : d.γ s.ps (mix v v' (s.trs.map Tr.var)) := by simpa using inv.mem
      apply d.refineAll_sound _ _ _ _ inv.frbSat
      apply refineGuard_mem d cfg _ v' _ himg.2.2
      split
      · rename_i hte
        have : s.trs = [] := by simpa using hte
        rw [this, List.map_nil, mix_nil] at hmem
        exact hmem
      · rename_i hte
        have hne : s.trs ≠ [] := by simpa using hte
        have ho := inv.trsWraps hne
        split
        · apply wrapInd_mem himg _ _ ho s.trs s.ps s.dims inv.dims_eq inv.trsNodup hq hmem
          cases hg : cfg.guard with
          | none => exact Sat_nil v'
          | some cs => exact himg.2.2 cs hg
        · apply wrapCol_mem himg s.dims _ ho s.trs _ s.ps inv.trsNodup hq hmem
          intro x hx
          rw [inv.dims_eq] at hx
          obtain ⟨t, ht, rfl⟩ := List.mem_map.mp hx
          exact (hq t ht).1

end

end PPLV.Wrap
