import PPLV.Wrap.GridWrap
import PPLV.Lattice.ProofsQueries
import Mathlib.Logic.Function.Basic

/-!
# `Grid::wrap_assign` lemmas, part 3: the member functions on point sets (K2: `addParam_sem`, `addLine_sem`,
  `intersectCon_sem`)
-/
namespace PPLV.Wrap.GW
open PPLV.Lattice PPLV.Wrap

/-! ### helpers -/

theorem toFun_vsmul_unit (c : Rat) (x j : Nat) :
    (vsmul c (unit x)).toFun j = if j = x then c else 0 := by
  rw [toFun_vsmul]
  simp only [Pi.smul_apply, smul_eq_mul, toFun_unit]
  split <;> simp

/-- moving the coordinate `x` of `u` by `d` is adding `d` times the unit vector -/
theorem update_eq_add_smul_unit (u : Nat → Rat) (x : Nat) (d : Rat) :
    Function.update u x (u x + d) = u + d • (unit x).toFun := by
  funext j
  simp only [Function.update_apply, Pi.add_apply, Pi.smul_apply, smul_eq_mul, toFun_unit]
  by_cases hj : j = x
  · subst hj; simp
  · simp [hj]

theorem update_eq_add_smul_unit' (u : Nat → Rat) (x : Nat) (v : Rat) :
    Function.update u x v = u + (v - u x) • (unit x).toFun := by
  rw [← update_eq_add_smul_unit]; congr 1; ring

/-- `add_grid_generator(parameter(c·x))` returned: the receiver is closed under moving `x` by multiples of `c` -/
theorem addGridGeneratorParam_ok {this t : GridGens} {x : Nat} {c : Int}
    (h : addGridGeneratorParam this x c = .ok t) {u : Nat → Rat} (hu : Gen.sem this u) (k : Int) :
    Gen.sem t (Function.update u x (u x + (k : Rat) * (c : Rat))) := by
  unfold addGridGeneratorParam at h
  split at h
  · cases h
  · injection h with h
    subst h
    rw [addParam_sem]
    refine ⟨u, k, hu, ?_⟩
    funext j
    simp only [Function.update_apply, Pi.add_apply, Pi.smul_apply, smul_eq_mul, toFun_vsmul_unit]
    by_cases hj : j = x
    · subst hj; simp
    · simp [hj]

/-- `add_grid_generator(parameter(…))` threw: the receiver was empty, and is left as it was -/
theorem addGridGeneratorParam_error {this l : GridGens} {x : Nat} {c : Int}
    (h : addGridGeneratorParam this x c = .error l) : l = this ∧ ∀ u, ¬ Gen.sem this u := by
  unfold addGridGeneratorParam at h
  split at h
  · rename_i he
    injection h with h
    subst h
    refine ⟨rfl, fun u hu => ?_⟩
    have := (isEmpty_false_iff this).mpr ⟨u, hu⟩
    rw [he] at this
    cases this
  · cases h

/-- `add_congruence(x %= 0)` keeps the points with an integer `x` -/
theorem addCongruenceInt_mem {this : GridGens} {x : Nat} {u : Nat → Rat} (hu : Gen.sem this u)
    (hi : isInt (u x)) : Gen.sem (addCongruenceInt this x) u := by
  unfold addCongruenceInt
  rw [intersectCon_sem, intCg_sem]
  obtain ⟨z, hz⟩ := hi
  exact ⟨hu, z, hz⟩

/-- `unconstrain(x); add_constraint(x == v)` -/
theorem pin_mem {this : GridGens} {x : Nat} {u : Nat → Rat} (v : Int) (hu : Gen.sem this u) :
    Gen.sem (addConstraintEq (unconstrain this x) x v) (Function.update u x (v : Rat)) := by
  unfold addConstraintEq unconstrain
  rw [intersectCon_sem, addLine_sem, eqCg_sem]
  exact ⟨⟨u, (v : Rat) - u x, hu, update_eq_add_smul_unit' u x v⟩, by simp⟩

/-- `unconstrain(x); add_congruence(x %= 0)` -/
theorem freeInt_mem {this : GridGens} {x : Nat} {u : Nat → Rat} (z : Int) (hu : Gen.sem this u) :
    Gen.sem (addCongruenceInt (unconstrain this x) x) (Function.update u x (z : Rat)) := by
  unfold addCongruenceInt unconstrain
  rw [intersectCon_sem, addLine_sem, intCg_sem]
  exact ⟨⟨u, (z : Rat) - u x, hu, update_eq_add_smul_unit' u x z⟩, z, by simp⟩

end PPLV.Wrap.GW
