import PPLV.Wrap.ProofsMain

/-!
# C17 — a concrete instance of the abstract-domain interface: closed rational boxes

Used for the non-vacuity examples of `C17.wrap_sound…` (every hypothesis field of `Dom` is proved)
and for the concrete witness of `C17.wrap_sound_fails`.  A box is `none` (empty) or a list of closed
intervals with optional bounds for the dimensions `0..n-1`; further dimensions are unconstrained.
-/
namespace PPLV.Wrap.BoxDom
open PPLV.Lin PPLV.Wrap

structure CI where
  lo : Option Rat
  hi : Option Rat
deriving DecidableEq, Repr, Inhabited

def CI.top : CI := ⟨none, none⟩

def leLo : Option Rat → Rat → Prop
  | none, _ => True
  | some l, q => l ≤ q
def leHi : Rat → Option Rat → Prop
  | _, none => True
  | q, some h => q ≤ h
instance (o : Option Rat) (q : Rat) : Decidable (leLo o q) := by cases o <;> unfold leLo <;> exact inferInstance
instance (q : Rat) (o : Option Rat) : Decidable (leHi q o) := by cases o <;> unfold leHi <;> exact inferInstance

def CI.mem (I : CI) (q : Rat) : Prop := leLo I.lo q ∧ leHi q I.hi
instance (I : CI) (q : Rat) : Decidable (I.mem q) := by unfold CI.mem; exact inferInstance

def memL : List CI → Pt → Prop
  | [], _ => True
  | I :: Is, v => I.mem (v 0) ∧ memL Is v.tail
instance memLDec : (L : List CI) → (v : Pt) → Decidable (memL L v)
  | [], _ => isTrue trivial
  | I :: Is, v => by
    unfold memL
    have := memLDec Is v.tail
    exact inferInstance

abbrev Bx := Option (List CI)

def gamma : Bx → Pt → Prop
  | none, _ => False
  | some L, v => memL L v
instance gammaDec (P : Bx) (v : Pt) : Decidable (gamma P v) := by
  cases P <;> unfold gamma <;> exact inferInstance

def modifyAt (L : List CI) (x : Nat) (f : CI → CI) : List CI :=
  match L, x with
  | [], _ => []
  | I :: Is, 0 => f I :: Is
  | I :: Is, x + 1 => I :: modifyAt Is x f

def maxLo (a : Option Rat) (b : Rat) : Option Rat :=
  match a with
  | none => some b
  | some l => some (if l ≤ b then b else l)
def minHi (a : Option Rat) (b : Rat) : Option Rat :=
  match a with
  | none => some b
  | some h => some (if b ≤ h then b else h)

/-- only the rows `x + k ≥ 0` and `-x + k ≥ 0` are used, the others are ignored -/
def refineL (L : List CI) (c : Con) : List CI :=
  let x := c.coeffs.length - 1
  if c.strict = false ∧ c.coeffs = unitRow x 1 then modifyAt L x (fun I => { I with lo := maxLo I.lo (-(c.k : Rat)) })
  else if c.strict = false ∧ c.coeffs = unitRow x (-1) then modifyAt L x (fun I => { I with hi := minHi I.hi (c.k : Rat) })
  else L

def refine (P : Bx) (c : Con) : Bx := P.map (fun L => refineL L c)

def hullLo : Option Rat → Option Rat → Option Rat
  | some a, some b => some (if a ≤ b then a else b)
  | _, _ => none
def hullHi : Option Rat → Option Rat → Option Rat
  | some a, some b => some (if a ≤ b then b else a)
  | _, _ => none
def hullCI (I J : CI) : CI := ⟨hullLo I.lo J.lo, hullHi I.hi J.hi⟩

def join : Bx → Bx → Bx
  | none, Q => Q
  | P, none => P
  | some L, some M => some (List.zipWith hullCI L M)

def shiftO (o : Option Rat) (s : Rat) : Option Rat := o.map (· - s)

theorem memL_modifyAt_update (L : List CI) : ∀ (x : Nat) (v : Pt) (f : CI → CI) (t : Rat), memL L v →
    (∀ I, I.mem (v x) → (f I).mem t) → memL (modifyAt L x f) (v.update x t) := by
  induction L with
  | nil => intro x v f t _ _; cases x <;> simp [modifyAt, memL]
  | cons I Is ih =>
    intro x v f t h hf
    cases x with
    | zero =>
      refine ⟨?_, ?_⟩
      · simp only [Val.update, ↓reduceIte]; exact hf I h.1
      · rw [update_tail_zero]; exact h.2
    | succ x =>
      refine ⟨?_, ?_⟩
      · simp only [Val.update]; rw [if_neg (by omega)]; exact h.1
      · rw [update_tail_succ]; exact ih x v.tail f t h.2 hf

theorem memL_modifyAt (L : List CI) (x : Nat) (v : Pt) (f : CI → CI) (h : memL L v)
    (hf : ∀ I, I.mem (v x) → (f I).mem (v x)) : memL (modifyAt L x f) v := by
  have := memL_modifyAt_update L x v f (v x) h hf
  rwa [update_self] at this

theorem memL_getD (L : List CI) : ∀ (x : Nat) (v : Pt), memL L v → (L.getD x CI.top).mem (v x) := by
  induction L with
  | nil => intro x v _; exact ⟨trivial, trivial⟩
  | cons I Is ih =>
    intro x v h
    cases x with
    | zero => exact h.1
    | succ x => simpa [Val.tail] using ih x v.tail h.2

theorem hullCI_left (I J : CI) (q : Rat) (h : I.mem q) : (hullCI I J).mem q := by
  constructor
  · show leLo (hullLo I.lo J.lo) _
    have := h.1
    cases hI : I.lo <;> cases hJ : J.lo <;> simp only [hullLo, leLo] <;> try trivial
    rw [hI] at this; simp only [leLo] at this
    split <;> linarith
  · show leHi _ (hullHi I.hi J.hi)
    have := h.2
    cases hI : I.hi <;> cases hJ : J.hi <;> simp only [hullHi, leHi] <;> try trivial
    rw [hI] at this; simp only [leHi] at this
    split <;> linarith

theorem hullCI_right (I J : CI) (q : Rat) (h : J.mem q) : (hullCI I J).mem q := by
  constructor
  · show leLo (hullLo I.lo J.lo) _
    have := h.1
    cases hI : I.lo <;> cases hJ : J.lo <;> simp only [hullLo, leLo] <;> try trivial
    rw [hJ] at this; simp only [leLo] at this
    split <;> linarith
  · show leHi _ (hullHi I.hi J.hi)
    have := h.2
    cases hI : I.hi <;> cases hJ : J.hi <;> simp only [hullHi, leHi] <;> try trivial
    rw [hJ] at this; simp only [leHi] at this
    split <;> linarith

theorem memL_zip_left (L : List CI) : ∀ (M : List CI) (v : Pt), memL L v → memL (List.zipWith hullCI L M) v := by
  induction L with
  | nil => intro M v _; simp [memL]
  | cons I Is ih =>
    intro M v h
    cases M with
    | nil => simp [memL]
    | cons J Js => exact ⟨hullCI_left I J _ h.1, ih Js v.tail h.2⟩

theorem memL_zip_right (L : List CI) : ∀ (M : List CI) (v : Pt), memL M v → memL (List.zipWith hullCI L M) v := by
  induction L with
  | nil => intro M v _; simp [memL]
  | cons I Is ih =>
    intro M v h
    cases M with
    | nil => simp [memL]
    | cons J Js => exact ⟨hullCI_right I J _ h.1, ih Js v.tail h.2⟩

theorem refine_mem (P : Bx) (c : Con) (v : Pt) (hv : gamma P v) (hc : c.sat v) : gamma (refine P c) v := by
  cases P with
  | none => exact hv
  | some L =>
    show memL (refineL L c) v
    have hv : memL L v := hv
    unfold refineL
    simp only []
    generalize c.coeffs.length - 1 = x
    split
    · rename_i hc1
      apply memL_modifyAt _ _ _ _ hv
      intro I hI
      have hsat : -(c.k : Rat) ≤ v x := by
        unfold Con.sat Con.eval at hc
        rw [hc1.1, hc1.2] at hc
        simp only [Bool.false_eq_true, ↓reduceIte, dot_unitRow] at hc
        push_cast at hc; linarith
      refine ⟨?_, hI.2⟩
      show leLo (maxLo I.lo _) _
      cases hlo : I.lo with
      | none => exact hsat
      | some l =>
        have h1 : l ≤ v x := by have := hI.1; rw [hlo] at this; exact this
        simp only [maxLo, leLo]; split <;> assumption
    · split
      · rename_i _ hc1
        apply memL_modifyAt _ _ _ _ hv
        intro I hI
        have hsat : v x ≤ (c.k : Rat) := by
          unfold Con.sat Con.eval at hc
          rw [hc1.1, hc1.2] at hc
          simp only [Bool.false_eq_true, ↓reduceIte, dot_unitRow] at hc
          push_cast at hc; linarith
        refine ⟨hI.1, ?_⟩
        show leHi _ (minHi I.hi _)
        cases hhi : I.hi with
        | none => exact hsat
        | some h =>
          have h1 : v x ≤ h := by have := hI.2; rw [hhi] at this; exact this
          simp only [minHi, leHi]; split <;> assumption
      · exact hv

@[reducible] def boxDom : Dom where
  D := Bx
  γ := gamma
  botLike := fun _ => none
  isEmpty := fun P => P.isNone
  refine := refine
  refineAll := fun P cs => cs.foldl refine P
  translate := fun P x s => P.map fun L => modifyAt L x fun I => ⟨shiftO I.lo s, shiftO I.hi s⟩
  join := join
  unconstrain := fun P x => P.map fun L => modifyAt L x fun _ => CI.top
  minimize := fun P x => match P with
    | none => none
    | some L => (L.getD x CI.top).lo
  maximize := fun P x => match P with
    | none => none
    | some L => (L.getD x CI.top).hi
  isEmpty_sound := by
    intro P h v hv
    cases P with
    | none => exact hv
    | some L => simp at h
  refine_sound := refine_mem
  refineAll_sound := by
    intro P cs v hv hcs
    induction cs generalizing P with
    | nil => exact hv
    | cons c cs ih =>
      simp only [List.foldl_cons]
      apply ih
      · exact refine_mem P c v hv (hcs c List.mem_cons_self)
      · intro c' hc'; exact hcs c' (List.mem_cons_of_mem _ hc')
  translate_sound := by
    intro P x s v hv
    cases P with
    | none => exact hv
    | some L =>
      apply memL_modifyAt_update L x v _ _ hv
      intro I hI
      constructor
      · show leLo (shiftO I.lo s) _
        cases hlo : I.lo with
        | none => trivial
        | some l =>
          have := hI.1; rw [hlo] at this
          simp only [shiftO, Option.map, leLo] at this ⊢; linarith
      · show leHi _ (shiftO I.hi s)
        cases hhi : I.hi with
        | none => trivial
        | some h =>
          have := hI.2; rw [hhi] at this
          simp only [shiftO, Option.map, leHi] at this ⊢; linarith
  join_left := by
    intro P Q v hv
    cases P with
    | none => exact absurd hv id
    | some L =>
      cases Q with
      | none => exact hv
      | some M => exact memL_zip_left L M v hv
  join_right := by
    intro P Q v hv
    cases Q with
    | none => exact absurd hv id
    | some M =>
      cases P with
      | none => exact hv
      | some L => exact memL_zip_right L M v hv
  unconstrain_sound := by
    intro P x v t hv
    cases P with
    | none => exact hv
    | some L =>
      apply memL_modifyAt_update L x v _ _ hv
      intro I _; exact ⟨trivial, trivial⟩
  minimize_sound := by
    intro P x l v h hv
    cases P with
    | none => exact absurd hv id
    | some L =>
      have := (memL_getD L x v hv).1
      simp only at h
      rw [h] at this; exact this
  maximize_sound := by
    intro P x u v h hv
    cases P with
    | none => exact absurd hv id
    | some L =>
      have := (memL_getD L x v hv).2
      simp only at h
      rw [h] at this; exact this

end PPLV.Wrap.BoxDom
