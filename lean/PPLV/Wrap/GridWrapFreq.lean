import PPLV.Wrap.GridWrap
import PPLV.Lattice.ProofsFreq
import PPLV.Lattice.ProofsQueries

/-!
# `Grid::wrap_assign` lemmas, part 2: what `frequency_no_check` (transliterated as `frequencyNoCheck`) returns
-/
namespace PPLV.Wrap.GW
open PPLV.Lattice

/-- `frequency_no_check` returned true with `f_n/f_d`, `v_n/v_d`: both are reduced fractions of rationals
    `f ≥ 0`, `v`, and every value of the expression on the grid is `v + t·f` for an integer `t`
    (K2: `boundsExpr_iff`, `freqOf_spec`, `value_form`) -/
theorem frequencyNoCheck_some {g : Gens} {e : Vec} {f_n f_d v_n v_d : Int}
    (h : frequencyNoCheck g e = some (f_n, f_d, v_n, v_d)) :
    ∃ f v : Rat, 0 ≤ f ∧ f_n = f.num ∧ f_d = (f.den : Int) ∧ v_n = v.num ∧ v_d = (v.den : Int) ∧
      ∀ x, g.Mem x → ∃ t : Int, dotF e x = v + (t : Rat) * f := by
  unfold frequencyNoCheck at h
  by_cases hb : boundsExpr (.gens g) e = true
  · simp only [hb, if_true, Option.some.injEq, Prod.mk.injEq] at h
    obtain ⟨rfl, rfl, rfl, rfl⟩ := h
    refine ⟨0, dot e g.pt, le_refl 0, rfl, rfl, rfl, rfl, ?_⟩
    intro x hx
    refine ⟨0, ?_⟩
    have := (boundsExpr_iff (.gens g) e).mp hb x g.pt.toFun hx Gens.Mem.pt
    rw [this, ← dot_eq_dotF]; simp
  · by_cases hany : g.lines.any (fun l => dot e l != 0) = true
    · simp [hb, hany] at h
    · simp only [hb, hany, if_false, Bool.false_eq_true, Option.some.injEq, Prod.mk.injEq] at h
      obtain ⟨rfl, rfl, rfl, rfl⟩ := h
      have hl : ∀ l ∈ g.lines, dot e l = 0 := by
        intro l hl
        by_contra hne
        exact hany (List.any_eq_true.mpr ⟨l, hl, by simpa using hne⟩)
      obtain ⟨hF0, hFq, _⟩ := freqOf_spec g e
      refine ⟨freqOf g e, _, hF0, rfl, rfl, rfl, rfl, ?_⟩
      intro x hx
      obtain ⟨t, ht⟩ := value_form g e 0 hl (freqOf g e) hFq x hx
      simp only [add_zero] at ht
      split
      · exact ⟨t + ratTrunc (dot e g.pt / freqOf g e) + 1, by rw [ht]; push_cast; ring⟩
      · split
        · exact ⟨t + ratTrunc (dot e g.pt / freqOf g e) - 1, by rw [ht]; push_cast; ring⟩
        · exact ⟨t + ratTrunc (dot e g.pt / freqOf g e), by rw [ht]; push_cast; ring⟩

end PPLV.Wrap.GW
