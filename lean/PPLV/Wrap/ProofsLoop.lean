import PPLV.Wrap.ProofsArith

/-! # C17 lemmas, part 2: the variable sets, fold lemmas, the point followed through the loops -/
namespace PPLV.Wrap
open PPLV.Lin

/-! ### `Variables_Set` -/

theorem mem_insertVar (x y : Nat) (l : List Nat) : y ∈ insertVar x l ↔ y = x ∨ y ∈ l := by
  induction l with
  | nil => simp [insertVar]
  | cons a as ih =>
    unfold insertVar
    split
    · simp
    · split
      · rename_i h1 h2; subst h2; simp
      · simp only [List.mem_cons, ih]
        constructor
        · rintro (h | h | h) <;> simp [h]
        · rintro (h | h | h) <;> simp [h]

theorem mem_normVars (y : Nat) (l : List Nat) : y ∈ normVars l ↔ y ∈ l := by
  induction l with
  | nil => simp [normVars]
  | cons a as ih =>
    have : normVars (a :: as) = insertVar a (normVars as) := rfl
    rw [this, mem_insertVar, ih]; simp

theorem insertVar_sorted (x : Nat) (l : List Nat) (h : l.Pairwise (· < ·)) :
    (insertVar x l).Pairwise (· < ·) := by
  induction l with
  | nil => simp [insertVar]
  | cons a as ih =>
    unfold insertVar
    have ha := List.pairwise_cons.mp h
    split
    · rename_i hlt
      refine List.pairwise_cons.mpr ⟨?_, h⟩
      intro b hb
      rcases List.mem_cons.mp hb with rfl | hb
      · exact hlt
      · exact Nat.lt_trans hlt (ha.1 b hb)
    · split
      · exact h
      · rename_i h1 h2
        refine List.pairwise_cons.mpr ⟨?_, ih ha.2⟩
        intro b hb
        rcases (mem_insertVar x b as).mp hb with rfl | hb
        · omega
        · exact ha.1 b hb

theorem normVars_sorted (l : List Nat) : (normVars l).Pairwise (· < ·) := by
  induction l with
  | nil => simp [normVars]
  | cons a as ih => exact insertVar_sorted a _ ih

theorem normVars_nodup (l : List Nat) : (normVars l).Nodup := by
  have h := normVars_sorted l
  exact h.imp (fun hab => Nat.ne_of_lt hab)

/-! ### the point that is followed: `v` on the listed coordinates, the target `v'` elsewhere -/

def mix (v v' : Pt) (L : List Nat) : Pt := fun i => if i ∈ L then v i else v' i

theorem mix_nil (v v' : Pt) : mix v v' [] = v' := by funext i; simp [mix]

theorem mix_congr (v v' : Pt) {L M : List Nat} (h : ∀ i, i ∈ L ↔ i ∈ M) : mix v v' L = mix v v' M := by
  funext i; simp only [mix, h i]

/-- moving `x` from "still `v`" to "already `v'`" is an update at `x` -/
theorem mix_update (v v' : Pt) (x : Nat) (L M : List Nat)
    (h : ∀ i, i ∈ L ↔ (i = x ∨ i ∈ M)) (hx : x ∉ M) :
    (mix v v' L).update x (v' x) = mix v v' M := by
  funext i
  simp only [Val.update, mix]
  by_cases hi : i = x
  · subst hi; simp [hx]
  · simp only [hi, ↓reduceIte, h i, false_or]

theorem update_self (u : Pt) (x : Nat) : u.update x (u x) = u := by
  funext i; simp only [Val.update]; split
  · rename_i h; rw [h]
  · rfl

/-! ### fold lemmas -/

/-- a hull accumulated with `join` contains every point of every joined element -/
theorem foldl_join_mem (d : Dom) {α : Type} (body : α → d.D) (qs : List α) (init : d.D) (pt : Pt)
    (h : d.γ init pt ∨ ∃ q ∈ qs, d.γ (body q) pt) :
    d.γ (qs.foldl (fun hull q => d.join hull (body q)) init) pt := by
  induction qs generalizing init with
  | nil =>
    rcases h with h | ⟨q, hq, _⟩
    · exact h
    · cases hq
  | cons a as ih =>
    simp only [List.foldl_cons]
    apply ih
    rcases h with h | ⟨q, hq, hb⟩
    · exact Or.inl (d.join_left _ _ _ h)
    · rcases List.mem_cons.mp hq with rfl | hq
      · exact Or.inl (d.join_right _ _ _ hb)
      · exact Or.inr ⟨q, hq, hb⟩

/-- a threaded accumulator that never loses a point and gains `pt` at some index -/
theorem foldl_acc_mem {D α : Type} (γ : D → Pt → Prop) (F : D → α → D) (qs : List α) (init : D) (pt : Pt)
    (mono : ∀ a q, γ a pt → γ (F a q) pt)
    (h : γ init pt ∨ ∃ q ∈ qs, ∀ a, γ (F a q) pt) :
    γ (qs.foldl F init) pt := by
  induction qs generalizing init with
  | nil =>
    rcases h with h | ⟨q, hq, _⟩
    · exact h
    · cases hq
  | cons a as ih =>
    simp only [List.foldl_cons]
    apply ih
    rcases h with h | ⟨q, hq, hb⟩
    · exact Or.inl (mono _ _ h)
    · rcases List.mem_cons.mp hq with rfl | hq
      · exact Or.inl (hb _)
      · exact Or.inr ⟨q, hq, hb⟩

theorem foldl_refine_mem (d : Dom) (used : Con → Bool) (cs : List Con) (p : d.D) (pt : Pt)
    (hp : d.γ p pt) (h : ∀ c ∈ cs, used c = true → c.sat pt) :
    d.γ (cs.foldl (fun p c => if used c then d.refine p c else p) p) pt := by
  induction cs generalizing p with
  | nil => exact hp
  | cons c cs ih =>
    simp only [List.foldl_cons]
    apply ih
    · split
      · rename_i hu
        exact d.refine_sound _ _ _ hp (h c (List.mem_cons_self) hu)
      · exact hp
    · intro c' hc'; exact h c' (List.mem_cons_of_mem _ hc')

theorem refineRange_mem (d : Dom) (cfg : WrapCfg) (p : d.D) (x : Nat) (pt : Pt)
    (hp : d.γ p pt) (hr : InRangeQ cfg.r cfg.w (pt x)) : d.γ (refineRange d cfg p x) pt := by
  unfold refineRange
  exact d.refine_sound _ _ _ (d.refine_sound _ _ _ hp (lowRow_of_inRange hr)) (highRow_of_inRange hr)

theorem foldl_refineRange_mem (d : Dom) (cfg : WrapCfg) (vars : List Nat) (p : d.D) (pt : Pt)
    (hp : d.γ p pt) (hr : ∀ x ∈ vars, InRangeQ cfg.r cfg.w (pt x)) :
    d.γ (vars.foldl (fun p x => refineRange d cfg p x) p) pt := by
  induction vars generalizing p with
  | nil => exact hp
  | cons x xs ih =>
    simp only [List.foldl_cons]
    apply ih
    · exact refineRange_mem d cfg p x pt hp (hr x List.mem_cons_self)
    · intro y hy; exact hr y (List.mem_cons_of_mem _ hy)

theorem foldl_unconstrain_mem (d : Dom) {α : Type} (f : α → Nat) (ts : List α) (p : d.D) (pt : Pt)
    (hp : d.γ p pt) : d.γ (ts.foldl (fun p t => d.unconstrain p (f t)) p) pt := by
  induction ts generalizing p with
  | nil => exact hp
  | cons t ts ih =>
    simp only [List.foldl_cons]
    apply ih
    have := d.unconstrain_sound p (f t) pt (pt (f t)) hp
    rwa [update_self] at this

theorem refineGuard_mem (d : Dom) (cfg : WrapCfg) (p : d.D) (pt : Pt)
    (hp : d.γ p pt) (hg : Spec.GuardOK cfg pt) : d.γ (refineGuard d cfg p) pt := by
  unfold refineGuard
  cases hc : cfg.guard with
  | none => exact hp
  | some cs => exact d.refineAll_sound _ _ _ hp (hg cs hc)

/-- translating by the quadrant of the value lands on the wrapped value -/
theorem shiftTo_mem (d : Dom) (cfg : WrapCfg) (p : d.D) (x : Nat) (u : Pt) (z : Int)
    (hp : d.γ p u) (hz : u x = (z : Rat)) :
    d.γ (shiftTo d cfg.w p x (quadrant cfg.r cfg.w z)) (u.update x ((wrapR cfg.r cfg.w z : Int) : Rat)) := by
  unfold shiftTo
  split
  · have := d.translate_sound p x (quadrant cfg.r cfg.w z * pow2 cfg.w) u hp
    rw [hz] at this
    have e : ((wrapR cfg.r cfg.w z : Int) : Rat) = (z : Rat) - ((quadrant cfg.r cfg.w z * pow2 cfg.w : Int) : Rat) := by
      rw [wrapR_eq_sub]; push_cast; ring
    rw [e]; exact this
  · rename_i hq
    have hq : quadrant cfg.r cfg.w z = 0 := by
      by_contra h; exact hq h
    have : wrapR cfg.r cfg.w z = z := by rw [wrapR_eq_sub, hq]; simp
    rw [this, ← hz, update_self]; exact hp

/-! ### constraints that do not mention the coordinates on which two points differ -/

theorem dot_eq_of_zero_coeff (as : List Int) (x y : Val)
    (h : ∀ i, as.getD i 0 ≠ 0 → x i = y i) : dot as x = dot as y := by
  induction as generalizing x y with
  | nil => simp
  | cons a as ih =>
    simp only [dot_cons]
    have h0 : (a : Rat) * x 0 = (a : Rat) * y 0 := by
      by_cases ha : a = 0
      · simp [ha]
      · rw [h 0 (by simpa using ha)]
    rw [h0, ih x.tail y.tail]
    intro i hi
    exact h (i + 1) (by simpa using hi)

theorem sat_of_allZeroOn (c : Con) (vars : List Nat) (x y : Val)
    (hz : Con.allZeroOn c vars = true) (h : ∀ i, i ∉ vars → x i = y i) : c.sat x ↔ c.sat y := by
  have : dot c.coeffs x = dot c.coeffs y := by
    apply dot_eq_of_zero_coeff
    intro i hi
    apply h
    intro hmem
    unfold Con.allZeroOn at hz
    rw [List.all_eq_true] at hz
    have := hz i hmem
    simp only [Con.at, beq_iff_eq] at this
    exact hi this
  unfold Con.sat Con.eval
  rw [this]

/-! ### `all_zeroes` as executed implies independence -/

theorem mem_takeWhile_sat (p : Int → Bool) : ∀ (l : List Int) (a : Int), a ∈ l.takeWhile p → p a = true
  | [], _, h => by simp at h
  | x :: xs, a, h => by
    simp only [List.takeWhile_cons] at h
    split at h
    · rcases List.mem_cons.mp h with rfl | h'
      · assumption
      · exact mem_takeWhile_sat p xs a h'
    · simp at h

theorem at_eq_zero_of_dim_le (c : Con) (i : Nat) (h : conDim c ≤ i) : c.at i = 0 := by
  unfold conDim at h
  unfold Con.at
  have hsplit : c.coeffs = (c.coeffs.reverse.dropWhile (· == 0)).reverse ++ (c.coeffs.reverse.takeWhile (· == 0)).reverse := by
    have := List.takeWhile_append_dropWhile (p := (· == 0)) (l := c.coeffs.reverse)
    have h2 := congrArg List.reverse this
    rw [List.reverse_append, List.reverse_reverse] at h2
    exact h2.symm
  rw [hsplit, List.getD_eq_getElem?_getD, List.getElem?_append_right (by simpa using h)]
  cases hget : ((c.coeffs.reverse.takeWhile (· == 0)).reverse)[i - (c.coeffs.reverse.dropWhile (· == 0)).reverse.length]? with
  | none => rfl
  | some a =>
    have hm : a ∈ (c.coeffs.reverse.takeWhile (· == 0)).reverse := List.mem_of_getElem? hget
    rw [List.mem_reverse] at hm
    have := mem_takeWhile_sat _ _ _ hm
    simpa using this

theorem dim_le_guardSpaceDim (cs : List Con) (c : Con) (hc : c ∈ cs) : conDim c ≤ guardSpaceDim cs := by
  unfold guardSpaceDim
  have key : ∀ (l : List Con) (m : Nat), m ≤ l.foldl (fun m c => max m (conDim c)) m ∧
      ∀ c ∈ l, conDim c ≤ l.foldl (fun m c => max m (conDim c)) m := by
    intro l
    induction l with
    | nil => intro m; exact ⟨Nat.le_refl _, fun c hc => by cases hc⟩
    | cons a as ih =>
      intro m
      simp only [List.foldl_cons]
      obtain ⟨h1, h2⟩ := ih (max m (conDim a))
      refine ⟨Nat.le_trans (Nat.le_max_left _ _) h1, ?_⟩
      intro c hc
      rcases List.mem_cons.mp hc with rfl | hc
      · exact Nat.le_trans (Nat.le_max_right _ _) h1
      · exact h2 c hc
  exact (key cs 0).2 c hc

theorem allZeroOn_of_asRead (cs : List Con) (eps : Bool) (c : Con) (hc : c ∈ cs) (vars : List Nat)
    (h : allZeroesAsRead (guardSpaceDim cs) eps c vars = true) : Con.allZeroOn c vars = true := by
  unfold allZeroesAsRead at h
  unfold Con.allZeroOn
  rw [List.all_eq_true] at h ⊢
  intro i hi
  have := h i hi
  by_cases hlt : i < guardSpaceDim cs
  · rw [if_pos hlt] at this; exact this
  · have : c.at i = 0 := at_eq_zero_of_dim_le c i (Nat.le_trans (dim_le_guardSpaceDim cs c hc) (by omega))
    simp [this]

end PPLV.Wrap
