import PPLV.Wrap.GridWrapPrecision

/-!
# `Grid::wrap_assign` lemmas, part 8: the three overflow modes in the explicit form of the property statement,
  for every variant of the function (`Repairs`)
-/
namespace PPLV.Wrap.GW
open PPLV.Lattice PPLV.Wrap

/-- the point obtained from `p` (integer values `z i` on `vars`) by wrapping those coordinates -/
def wrappedPoint (cfg : WrapCfg) (p : Nat → Rat) (z : Nat → Int) : Nat → Rat :=
  fun i => if i ∈ cfg.vars then ((wrapR cfg.r cfg.w (z i) : Int) : Rat) else p i

theorem flawed_guard (cfg : WrapCfg) (g : Option (List PPLV.Lin.Con)) (G : GridGens) :
    flawed { cfg with guard := g } G = flawed cfg G := rfl

theorem wraps_V (fx : Repairs) (n : Nat) (cfg : WrapCfg) (hw : 0 < cfg.w) (ho : cfg.o = .wraps) (G : GridGens)
    (hnf : fx.kf12 = true ∨ flawed cfg G = false) (hlegal : Legal n cfg)
    (p : Nat → Rat) (hp : Gen.sem G p) (z : Nat → Int) (hint : ∀ i ∈ cfg.vars, p i = (z i : Rat)) :
    ∃ R, gridWrapAssignV fx n cfg G = .ok R ∧ Gen.sem R (wrappedPoint cfg p z) := by
  rw [← gridWrapAssignV_noguard fx n cfg G hlegal]
  apply gridWrapAssignV_sound fx n { cfg with guard := none } hw G hnf ⟨fun cs h => (by cases h), hlegal.2⟩ p _ hp
  refine ⟨?_, ?_, ?_⟩
  · intro i hi; simp only [wrappedPoint]; rw [if_neg hi]
  · intro i hi
    refine ⟨z i, hint i hi, ?_⟩
    simp only [ho, wrappedPoint]
    rw [if_pos hi]
  · intro cs h; cases h

theorem undefined_V (fx : Repairs) (n : Nat) (cfg : WrapCfg) (hw : 0 < cfg.w) (ho : cfg.o = .undefined) (G : GridGens)
    (hlegal : Legal n cfg)
    (p : Nat → Rat) (hp : Gen.sem G p) (z : Nat → Int) (hint : ∀ i ∈ cfg.vars, p i = (z i : Rat))
    (p' : Nat → Rat) (hoff : ∀ i, i ∉ cfg.vars → p' i = p i)
    (hon : ∀ i ∈ cfg.vars, (inRange cfg.r cfg.w (z i) ∧ p' i = (z i : Rat)) ∨
      (¬ inRange cfg.r cfg.w (z i) ∧ ∃ z' : Int, inRange cfg.r cfg.w z' ∧ p' i = (z' : Rat))) :
    ∃ R, gridWrapAssignV fx n cfg G = .ok R ∧ Gen.sem R p' := by
  rw [← gridWrapAssignV_noguard fx n cfg G hlegal]
  apply gridWrapAssignV_sound fx n { cfg with guard := none } hw G
    (Or.inr (flawed_of_not_wraps _ G (by simp [ho]))) ⟨fun cs h => (by cases h), hlegal.2⟩ p _ hp
  refine ⟨hoff, ?_, ?_⟩
  · intro i hi
    refine ⟨z i, hint i hi, ?_⟩
    simp only [ho]
    exact hon i hi
  · intro cs h; cases h

theorem impossible_V (fx : Repairs) (n : Nat) (cfg : WrapCfg) (hw : 0 < cfg.w) (ho : cfg.o = .impossible) (G : GridGens)
    (hlegal : Legal n cfg)
    (p : Nat → Rat) (hp : Gen.sem G p) (z : Nat → Int) (hint : ∀ i ∈ cfg.vars, p i = (z i : Rat))
    (hin : ∀ i ∈ cfg.vars, inRange cfg.r cfg.w (z i)) :
    ∃ R, gridWrapAssignV fx n cfg G = .ok R ∧ Gen.sem R p := by
  rw [← gridWrapAssignV_noguard fx n cfg G hlegal]
  apply gridWrapAssignV_sound fx n { cfg with guard := none } hw G
    (Or.inr (flawed_of_not_wraps _ G (by simp [ho]))) ⟨fun cs h => (by cases h), hlegal.2⟩ p _ hp
  refine ⟨fun _ _ => rfl, ?_, ?_⟩
  · intro i hi
    refine ⟨z i, hint i hi, ?_⟩
    simp only [ho]
    exact ⟨hin i hi, hint i hi⟩
  · intro cs h; cases h

/-- a legal call returns normally unless overflow wraps and the repair of KF-C17-13 is missing -/
theorem no_throw_V (fx : Repairs) (n : Nat) (cfg : WrapCfg) (G : GridGens) (h : fx.kf13 = true ∨ cfg.o ≠ .wraps)
    (hlegal : Legal n cfg) : ∃ R, gridWrapAssignV fx n cfg G = .ok R := by
  cases hout : gridWrapAssignV fx n cfg G with
  | ok R => exact ⟨R, rfl⟩
  | dimensionIncompatible =>
    exfalso
    rcases (gridWrapAssignV_dim fx n cfg G).mp hout with h | ⟨_, h⟩
    · rw [guardTooBig_of_legal hlegal] at h; cases h
    · have := hlegal.2; omega
  | invalidGenerator l =>
    exfalso
    obtain ⟨_, ho, hk⟩ := gridWrapAssignV_invalidGenerator fx n cfg G l hout
    rcases h with h | h
    · rw [h] at hk; cases hk
    · exact h ho

end PPLV.Wrap.GW
