import PPLV.Wrap.Model
import PPLV.Lattice.ModelOps

/-!
# C17 — `Grid::wrap_assign` (src/Grid_public.cc:2968-3182), code-shaped model (no Mathlib)

The receiver `*this` and the copy `gr` are grids in K2's generator form (`PPLV.Lattice.GridGens`:
`empty`, or a point, parameters and lines with rational coordinates = the minimized `gen_sys` of the
library with the common divisor divided out).  The member functions `wrap_assign` calls are K2's verified
operations; the theorem of `PPLV/Props/C05.lean` that stands for each member function is

| member function (Grid_public.cc / Grid_nonpublic.cc)          | model                      | K2 theorem                         |
|----------------------------------------------------------------|----------------------------|------------------------------------|
| `marked_empty()`, `minimize()` found empty, `set_empty()`      | `GridGens.empty`           | `C05.isEmpty_iff`                  |
| `gr.bounds_no_check(x)` (Grid_nonpublic.cc:310)                | `boundsExpr (.gens gr) e_x`| `C05.boundsExpr_spec`              |
| `gr.frequency_no_check(x, f_n, f_d, v_n, v_d)` (…:332)         | `frequencyNoCheck gr e_x`  | `freqOf_spec`, `values_eq` (the lemmas behind `C05.frequency_spec`); transliterated because `wrap_assign` depends on WHICH representative `v_n/v_d` is returned |
| `add_grid_generator(parameter(c*x))` (Grid_public.cc:1286)     | `addGridGeneratorParam`    | `C05.addParam_spec` (+ the `throw_invalid_generator` of :1311 on an empty receiver) |
| `add_congruence((x %= 0) / 1)`                                 | `intersectCon · ⟨e_x,0,1⟩` | `C05.intersectCon_spec`            |
| `add_constraint(x == v)` (Grid_inlines.hh:305 → Congruence(c)) | `intersectCon · ⟨e_x,-v,0⟩`| `C05.intersectCon_spec`            |
| `unconstrain(x)` (Grid_public.cc:1474: inserts `grid_line(x)`) | `addLine · e_x`            | `C05.addLine_spec`                 |

`gridWrapAssign n cfg G` is the whole function: the dimension check of `*cs_p` (which is otherwise NOT
used: the guard never refines the result), the empty `vars` no-op, the dimension check of `vars`, the
empty receiver, the range computation for both representations, the loop over `vars` for
`OVERFLOW_WRAPS` / `OVERFLOW_IMPOSSIBLE` (frequencies and values are read from the COPY `gr` made before
the loop, the updates go to `*this`), and the loop for `OVERFLOW_UNDEFINED`.  `complexity_threshold` and
`wrap_individually` are unnamed parameters of the function (ignored).

Two defects found with this model (KF-C17-12, KF-C17-13) are repaired in /repo (3a4d83e: the test
`o == OVERFLOW_WRAPS && (f_n != wrap_frequency || v_d != 1)`; 4614ba1: `if (is_empty()) return;` before the two
`add_grid_generator(parameter(wrap_frequency * x))`).  The model carries a switch for each repair (`Repairs`):
`gridWrapAssign` = `gridWrapAssignV repaired` is the code as it is NOW; `gridWrapAssignBeforeFix` =
`gridWrapAssignV beforeFix` is kept as a named historical witness (`C17.grid_wrap_sound_wraps_before_fix_fails`, …).
The driver measures on every run which variant the library implements, so a regression is recognised.
-/
namespace PPLV.Wrap.GW
open PPLV.Lattice PPLV.Wrap

/-- what a call of `Grid::wrap_assign` does -/
inductive Outcome where
  /-- normal return; the receiver is now `G` -/
  | ok (G : GridGens)
  /-- `throw_dimension_incompatible` (Grid_public.cc:2981 / 2993); the receiver is unchanged -/
  | dimensionIncompatible
  /-- `throw_invalid_generator` out of `add_grid_generator(parameter(…))` (Grid_public.cc:1311): the receiver
      had become empty inside the loop; it is left as `left` -/
  | invalidGenerator (left : GridGens)
deriving Repr, Inhabited, DecidableEq

/-- which of the two repairs are applied -/
structure Repairs where
  /-- KF-C17-12 (3a4d83e): `if (o == OVERFLOW_WRAPS && (f_n != wrap_frequency || v_d != 1))` at :3099;
      `false`: the test before the repair, `o == OVERFLOW_WRAPS && f_n != wrap_frequency` -/
  kf12 : Bool
  /-- KF-C17-13 (4614ba1): `if (is_empty()) return;` before each `add_grid_generator(parameter(wrap_frequency * x))`
      (:3044, :3108); `false`: no such test -/
  kf13 : Bool
deriving Repr, Inhabited, DecidableEq

/-- the function as it is written now (both repairs are in /repo) -/
def repaired : Repairs := ⟨true, true⟩
/-- the function before the two repairs (historical) -/
def beforeFix : Repairs := ⟨false, false⟩

/-! ## the member functions used -/

/-- `⌊q⌋` towards zero: `mpz_tdiv_q` on a common denominator -/
def ratTrunc (q : Rat) : Int := Int.tdiv q.num (q.den : Int)

/-- `Grid::frequency_no_check(expr, freq_n, freq_d, val_n, val_d)` (Grid_nonpublic.cc:332-421) for a
    homogeneous expression `e`, on the minimized generators `g`: `none` = returns false;
    `some (f_n, f_d, v_n, v_d)` with both fractions reduced and positive denominators. -/
def frequencyNoCheck (g : Gens) (e : Vec) : Option (Int × Int × Int × Int) :=
  -- :344 `if (bounds_no_check(expr))`: constant, frequency 0, the value of the point (reduced :353-356)
  if boundsExpr (.gens g) e then
    let v := dot e g.pt
    some (0, 1, v.num, (v.den : Int))
  -- :368-382 a line with a non-zero scalar product: `return false`
  else if g.lines.any (fun l => dot e l != 0) then none
  else
    -- :380 `gcd_assign(freq_n, freq_n, sp)` over the parameters (divisor `freq_d = point.divisor()`)
    let f := freqOf g e
    let r0 := dot e g.pt
    -- :396 `val_n %= freq_n` (truncating remainder)
    let v1 := r0 - (ratTrunc (r0 / f) : Rat) * f
    -- :399-407 the value closest to zero (a tie keeps the sign of the remainder)
    let v := if 2 * v1 > f then v1 - f else if -(2 * v1) > f then v1 + f else v1
    -- :409-418 both fractions reduced
    some (f.num, (f.den : Int), v.num, (v.den : Int))

/-- `add_grid_generator(parameter(c * x))` (Grid_public.cc:1286-1331): on an empty receiver
    (`marked_empty() || !update_generators()`) a parameter is rejected with `throw_invalid_generator` -/
def addGridGeneratorParam (this : GridGens) (x : Nat) (c : Int) : Except GridGens GridGens :=
  if this.isEmpty then .error this else .ok (addParam this (vsmul (c : Rat) (unit x)))

/-- `if (is_empty()) return;` (only with `kf13`: :3044-3046, :3108-3110) followed by `add_grid_generator(parameter(c * x))`:
    `Sum.inl` = the loop goes on; on an empty receiver the function returns (`kf13`) or the exception of
    `add_grid_generator` leaves it (no such test: before the repair, and at the two sites of the `OVERFLOW_UNDEFINED` loop) -/
def addParamOrLeave (fx : Repairs) (this : GridGens) (x : Nat) (c : Int) : GridGens ⊕ Outcome :=
  match addGridGeneratorParam this x c with
  | .ok t => .inl t
  | .error l => .inr (if fx.kf13 then .ok l else .invalidGenerator l)

/-- `add_congruence((x %= 0) / 1)` -/
def addCongruenceInt (this : GridGens) (x : Nat) : GridGens := intersectCon this { a := unit x, b := 0, f := 1 }

/-- `add_constraint(x == v)` -/
def addConstraintEq (this : GridGens) (x : Nat) (v : Int) : GridGens :=
  intersectCon this { a := unit x, b := -(v : Rat), f := 0 }

/-- `unconstrain(x)` -/
def unconstrain (this : GridGens) (x : Nat) : GridGens := addLine this (unit x)

/-! ## the range of the bounded integer type (Grid_public.cc:3005-3023) -/

/-- `mul_2exp_assign(wrap_frequency, 1, w)` -/
def wrapFrequency (w : Nat) : Int := 2 ^ w

/-- `(min_value, max_value)` as computed at :3013-3023 -/
def rangeOf (r : Repn) (w : Nat) : Int × Int :=
  match r with
  | .unsigned => (0, 2 ^ w - 1)                      -- min = 0; max = 2^w; --max
  | .signed => (-(2 ^ (w - 1)), 2 ^ (w - 1) - 1)     -- max = 2^(w-1); min = -max; --max

/-! ## the loop for `OVERFLOW_IMPOSSIBLE` / `OVERFLOW_WRAPS` (Grid_public.cc:3029-3137) -/

/-- :3071-3079 the out-of-range constant `v_n` wrapped: `v_n %= wrap_frequency` (truncating), then one
    correction step into the range -/
def wrapConstant (w : Nat) (minV maxV v_n : Int) : Int :=
  let v := Int.tmod v_n (wrapFrequency w)
  if v < minV then v + wrapFrequency w else if v > maxV then v - wrapFrequency w else v

/-- :3116-3121 the least value congruent to `v_n` modulo `f_n` that is not below `min_value` -/
def leastNotBelow (minV f_n v_n : Int) : Int :=
  let v := Int.tmod (v_n - minV) f_n
  (if v < 0 then v + f_n else v) + minV

/-- the body of the loop for one variable `x`: `Sum.inl` = `continue` with the new receiver, `Sum.inr` = `return`
    (or throw) with that outcome -/
def stepWI (fx : Repairs) (w : Nat) (o : Ovf) (minV maxV : Int) (gr : Gens) (x : Nat) (this : GridGens) : GridGens ⊕ Outcome :=
  let wf := wrapFrequency w
  match frequencyNoCheck gr (unit x) with
  | none =>
    -- :3038-3050 `x` takes a continuum of values
    if o = .wraps then addParamOrLeave fx this x wf                         -- :3041-3048
    else .inl this
  | some (f_n, f_d, v_n, v_d) =>
    if f_n = 0 then
      -- :3051 `x` is a constant in `gr`
      if v_d ≠ 1 then .inr (.ok .empty)                                    -- :3054-3059
      else if v_n > maxV ∨ v_n < minV then
        if o = .impossible then .inr (.ok .empty)                          -- :3064-3068
        else
          let v := wrapConstant w minV maxV v_n                            -- :3071-3079
          .inl (addConstraintEq (unconstrain this x) x v)                  -- :3080-3081
      else .inl this                                                       -- :3083
    else
      -- :3086 `x` is not a constant in `gr`
      if Int.tmod f_d v_d ≠ 0 then .inr (.ok .empty)                       -- :3089-3093
      else
        let this1 := if f_d ≠ 1 then addCongruenceInt this x else this     -- :3094-3098
        if o = .wraps ∧ (f_n ≠ wf ∨ (fx.kf12 = true ∧ v_d ≠ 1)) then         -- :3099 (`kf12 = false`: the test before 3a4d83e)
          addParamOrLeave fx this1 x wf                                    -- :3100-3111
        else if v_d = 1 then                                               -- :3113
          let v := leastNotBelow minV f_n v_n                              -- :3116-3121
          if f_n = wf ∨ v + f_n > maxV then                                -- :3122
            .inl (addConstraintEq (unconstrain this1 x) x v)               -- :3125-3126
          else .inl this1
        else .inl this1                                                    -- :3132-3134 (overflow impossible; before 3a4d83e also wraps with `f_n = 2^w`)

def loopWI (fx : Repairs) (w : Nat) (o : Ovf) (minV maxV : Int) (gr : Gens) : List Nat → GridGens → Outcome
  | [], this => .ok this                                                   -- :3136 `return`
  | x :: xs, this =>
    match stepWI fx w o minV maxV gr x this with
    | .inl t => loopWI fx w o minV maxV gr xs t
    | .inr out => out

/-! ## the loop for `OVERFLOW_UNDEFINED` (Grid_public.cc:3139-3181) -/

/-- `point = gr.gen_sys[0]`, `div = point.divisor()`, `max_value *= div`, `min_value *= div`: the
    comparisons `coeff_x > max_value`, `coeff_x % div != 0` are those of the rational coordinate
    `coeff_x / div` with the unscaled bounds -/
def stepU (minV maxV : Int) (gr : Gens) (x : Nat) (this : GridGens) : GridGens ⊕ Outcome :=
  let px : Rat := gr.pt.getD x 0
  if !boundsExpr (.gens gr) (unit x) then                                  -- :3149
    if px.den ≠ 1 then                                                     -- :3153
      .inl (addCongruenceInt (unconstrain this x) x)                       -- :3156-3157
    else addParamOrLeave beforeFix this x 1                                -- :3163 (no `is_empty()` test at this site)
  else
    if px.den ≠ 1 then .inr (.ok .empty)                                   -- :3170-3173
    else if px > (maxV : Rat) ∨ px < (minV : Rat) then                     -- :3177
      addParamOrLeave beforeFix this x 1                                   -- :3178 (no `is_empty()` test at this site)
    else .inl this

def loopU (minV maxV : Int) (gr : Gens) : List Nat → GridGens → Outcome
  | [], this => .ok this
  | x :: xs, this =>
    match stepU minV maxV gr x this with
    | .inl t => loopU minV maxV gr xs t
    | .inr out => out

/-! ## `Grid::wrap_assign` -/

/-- `vars.space_dimension()`: one more than the greatest variable -/
def varsSpaceDim (vars : List Nat) : Nat := vars.foldl (fun m v => max m (v + 1)) 0

/-- :2978-2983 `cs_p != nullptr && cs_p->space_dimension() > space_dim` -/
def guardTooBig (n : Nat) (guard : Option (List PPLV.Lin.Con)) : Bool :=
  match guard with
  | some cs => decide (guardSpaceDim cs > n)
  | none => false

/-- `Grid::wrap_assign(vars, w, r, o, cs_p, complexity_threshold, wrap_individually)` on a grid of space
    dimension `n` whose minimized generators are `G` (`.empty`: marked empty, or `minimize()` finds it empty) -/
def gridWrapAssignV (fx : Repairs) (n : Nat) (cfg : WrapCfg) (G : GridGens) : Outcome :=
  -- :2978-2983 dimension-compatibility check of `*cs_p`, its only use
  if guardTooBig n cfg.guard then .dimensionIncompatible
  -- :2986 wrapping no variable is a no-op
  else if cfg.vars.isEmpty then .ok G
  -- :2991-2994
  else if n < varsSpaceDim cfg.vars then .dimensionIncompatible
  else match G with
  -- :2997-3003
  | .empty => .ok .empty
  | .gens gr =>
    let mm := rangeOf cfg.r cfg.w
    if cfg.o = .impossible ∨ cfg.o = .wraps then
      loopWI fx cfg.w cfg.o mm.1 mm.2 gr (normVars cfg.vars) (.gens gr)
    else
      loopU mm.1 mm.2 gr (normVars cfg.vars) (.gens gr)

/-- `Grid::wrap_assign` as it is written now (with the repairs 3a4d83e and 4614ba1) -/
def gridWrapAssign (n : Nat) (cfg : WrapCfg) (G : GridGens) : Outcome := gridWrapAssignV repaired n cfg G
/-- `Grid::wrap_assign` before the repairs of KF-C17-12 and KF-C17-13 (historical witness) -/
def gridWrapAssignBeforeFix (n : Nat) (cfg : WrapCfg) (G : GridGens) : Outcome := gridWrapAssignV beforeFix n cfg G

/-- the receiver after the call (a thrown `invalid_argument` leaves it as it was when the exception left
    `add_grid_generator`; a dimension error leaves it unchanged) -/
def Outcome.receiver (G : GridGens) : Outcome → GridGens
  | .ok R => R
  | .dimensionIncompatible => G
  | .invalidGenerator l => l

/-! ## the branch that was not sound before 3a4d83e (KF-C17-12) -/

/-- `x` went through the unchanged-grid branch (now :3132-3134, then also taken when overflow wraps): overflow wraps, `x` is not constant, its frequency numerator is
    exactly `2^w` and the representative `v_n/v_d` returned by `frequency_no_check` is not an integer: the grid
    (with the integrality congruence) is left as it is although `x` alone has to move by multiples of `2^w`. -/
def flawedAt (w : Nat) (o : Ovf) (gr : Gens) (x : Nat) : Bool :=
  match frequencyNoCheck gr (unit x) with
  | none => false
  | some (f_n, f_d, _, v_d) =>
    decide (o = .wraps) && decide (f_n ≠ 0) && decide (Int.tmod f_d v_d = 0) && decide (f_n = wrapFrequency w) && decide (v_d ≠ 1)

/-- some wrapped variable goes through that branch (a static property of the argument: every frequency is
    read from the copy `gr`) -/
def flawed (cfg : WrapCfg) (G : GridGens) : Bool :=
  match G with
  | .empty => false
  | .gens gr => cfg.vars.any (flawedAt cfg.w cfg.o gr)

end PPLV.Wrap.GW
