import PPLV.Wrap.GridWrapOutcome

/-!
# `Grid::wrap_assign` lemmas, part 7: what the code guarantees about the range (`OVERFLOW_WRAPS`)

A grid cannot express the range `[min,max]`; the only variables whose values end up inside the range are those the
code pins: a wrapped variable that is an integer constant in the argument, or whose frequency is exactly `2^w` with
an integer representative.  For such a variable every point of the result has the in-range value, whatever the other
wrapped variables are (`Pin x c G`: every point of `G` has `x = c`).
-/
namespace PPLV.Wrap.GW
open PPLV.Lattice PPLV.Wrap

/-- every point of `G` has the value `c` at coordinate `x` -/
def Pin (x : Nat) (c : Rat) (G : GridGens) : Prop := ∀ u, Gen.sem G u → u x = c

theorem Pin_of_isEmpty {x : Nat} {c : Rat} {G : GridGens} (h : G.isEmpty = true) : Pin x c G := by
  intro u hu
  have : G.isEmpty = false := (isEmpty_false_iff G).mpr ⟨u, hu⟩
  rw [h] at this; cases this

theorem Pin_addCongruenceInt {x y : Nat} {c : Rat} {G : GridGens} (h : Pin x c G) : Pin x c (addCongruenceInt G y) := by
  intro u hu
  unfold addCongruenceInt at hu
  rw [intersectCon_sem] at hu
  exact h u hu.1

theorem Pin_this1 {x y : Nat} {c : Rat} {G : GridGens} (p : Prop) [Decidable p] (h : Pin x c G) :
    Pin x c (if p then addCongruenceInt G y else G) := by
  split
  · exact Pin_addCongruenceInt h
  · exact h

/-- `unconstrain(y); add_constraint(y == v)` does not move another coordinate -/
theorem Pin_pin_other {x y : Nat} (hxy : y ≠ x) {c : Rat} {G : GridGens} (v : Int) (h : Pin x c G) :
    Pin x c (addConstraintEq (unconstrain G y) y v) := by
  intro u hu
  unfold addConstraintEq unconstrain at hu
  rw [intersectCon_sem, addLine_sem] at hu
  obtain ⟨⟨u0, d, hu0, rfl⟩, _⟩ := hu
  simp only [Pi.add_apply, Pi.smul_apply, smul_eq_mul, toFun_unit]
  rw [if_neg (fun h => hxy h.symm), mul_zero, add_zero]
  exact h u0 hu0

/-- `unconstrain(x); add_constraint(x == v)` pins `x` -/
theorem Pin_pin_self {x : Nat} {G : GridGens} (v : Int) : Pin x (v : Rat) (addConstraintEq (unconstrain G x) x v) := by
  intro u hu
  unfold addConstraintEq at hu
  rw [intersectCon_sem, eqCg_sem] at hu
  exact hu.2

theorem Pin_addParamOrLeave {fx : Repairs} {x y : Nat} (hxy : y ≠ x) {c : Rat} {G t : GridGens} {k : Int}
    (hstep : addParamOrLeave fx G y k = .inl t) (h : Pin x c G) : Pin x c t := by
  unfold addParamOrLeave at hstep
  split at hstep
  · rename_i t' ht'
    cases hstep
    unfold addGridGeneratorParam at ht'
    split at ht'
    · cases ht'
    · cases ht'
      intro u hu
      rw [addParam_sem] at hu
      obtain ⟨u0, j, hu0, rfl⟩ := hu
      simp only [Pi.add_apply, Pi.smul_apply, smul_eq_mul, toFun_vsmul_unit]
      rw [if_neg (fun h => hxy h.symm), mul_zero, add_zero]
      exact h u0 hu0
  · cases hstep

/-- the body of the loop for another variable `y` keeps `x` pinned -/
theorem stepWI_Pin {fx : Repairs} {w : Nat} {o : Ovf} {minV maxV : Int} {gr : Gens} {x y : Nat} (hxy : y ≠ x)
    {c : Rat} {this t : GridGens} (hstep : stepWI fx w o minV maxV gr y this = .inl t) (h : Pin x c this) : Pin x c t := by
  unfold stepWI at hstep
  simp only [] at hstep
  split at hstep
  · split at hstep
    · exact Pin_addParamOrLeave hxy hstep h
    · cases hstep; exact h
  · split at hstep
    · split at hstep
      · cases hstep
      · split at hstep
        · split at hstep
          · cases hstep
          · cases hstep; exact Pin_pin_other hxy _ h
        · cases hstep; exact h
    · split at hstep
      · cases hstep
      · split at hstep
        · exact Pin_addParamOrLeave hxy hstep (Pin_this1 _ h)
        · split at hstep
          · split at hstep
            · cases hstep; exact Pin_pin_other hxy _ (Pin_this1 _ h)
            · cases hstep; exact Pin_this1 _ h
          · cases hstep; exact Pin_this1 _ h

/-- the loop over variables other than `x` keeps `x` pinned -/
theorem loopWI_Pin (fx : Repairs) (w : Nat) (o : Ovf) (minV maxV : Int) (gr : Gens) (x : Nat) (c : Rat) :
    ∀ (xs : List Nat), x ∉ xs → ∀ (this R : GridGens), Pin x c this →
      loopWI fx w o minV maxV gr xs this = .ok R → Pin x c R := by
  intro xs
  induction xs with
  | nil => intro _ this R h hl; cases hl; exact h
  | cons y ys ih =>
    intro hx this R h hl
    have hxy : y ≠ x := fun e => hx (e ▸ List.mem_cons_self)
    unfold loopWI at hl
    cases hs : stepWI fx w o minV maxV gr y this with
    | inl t =>
      rw [hs] at hl
      exact ih (fun hm => hx (List.mem_cons_of_mem _ hm)) t R (stepWI_Pin hxy hs h) hl
    | inr out =>
      rw [hs] at hl
      simp only [] at hl
      subst hl
      rcases stepWI_inr hs with ⟨R', hR', he⟩ | ⟨l, hl', _⟩
      · cases hR'; exact Pin_of_isEmpty he
      · cases hl'

/-- the body of the loop at `x` itself: an integer constant, or frequency `2^w` with an integer representative,
    is pinned to an in-range value -/
theorem stepWI_pins {fx : Repairs} {r : Repn} {w : Nat} (hw : 0 < w) {gr : Gens} {x : Nat} {f_n f_d v_n : Int}
    (hfreq : frequencyNoCheck gr (unit x) = some (f_n, f_d, v_n, 1)) (he : f_n = 0 ∨ f_n = wrapFrequency w)
    {this t : GridGens} (hconst : f_n = 0 → Pin x (v_n : Rat) this)
    (hstep : stepWI fx w .wraps (minValue r w) (maxValue r w) gr x this = .inl t) :
    ∃ z : Int, inRange r w z ∧ Pin x (z : Rat) t := by
  unfold stepWI at hstep
  rw [hfreq] at hstep
  simp only [] at hstep
  have hwfpos : 0 < wrapFrequency w := pow2_pos w
  by_cases h0 : f_n = 0
  · rw [if_pos h0] at hstep
    rw [if_neg (by decide)] at hstep
    by_cases hout : v_n > maxValue r w ∨ v_n < minValue r w
    · rw [if_pos hout] at hstep
      rw [if_neg (by decide)] at hstep
      cases hstep
      refine ⟨wrapConstant w (minValue r w) (maxValue r w) v_n, ?_, Pin_pin_self _⟩
      rw [wrapConstant_eq r w hw]; exact wrapR_inRange r w v_n
    · rw [if_neg hout] at hstep
      cases hstep
      exact ⟨v_n, by unfold inRange; omega, hconst h0⟩
  · have hfw : f_n = wrapFrequency w := he.resolve_left h0
    rw [if_neg h0] at hstep
    rw [if_neg (by simp)] at hstep
    rw [if_neg (by intro hc; rcases hc.2 with h | h
                   · exact h hfw
                   · exact h.2 rfl)] at hstep
    rw [if_pos trivial] at hstep
    rw [if_pos (Or.inl hfw)] at hstep
    cases hstep
    refine ⟨leastNotBelow (minValue r w) f_n v_n, ?_, Pin_pin_self _⟩
    obtain ⟨h1, h2, _⟩ := leastNotBelow_spec (minValue r w) f_n v_n (by omega)
    unfold inRange maxValue
    have : pow2 w = wrapFrequency w := rfl
    omega

/-- the loop: once `x` has been processed it stays pinned -/
theorem loopWI_pins (fx : Repairs) (r : Repn) (w : Nat) (hw : 0 < w) (gr : Gens) (x : Nat) (f_n f_d v_n : Int)
    (hfreq : frequencyNoCheck gr (unit x) = some (f_n, f_d, v_n, 1)) (he : f_n = 0 ∨ f_n = wrapFrequency w) :
    ∀ (xs : List Nat), xs.Nodup → x ∈ xs → ∀ (this R : GridGens), (f_n = 0 → Pin x (v_n : Rat) this) →
      loopWI fx w .wraps (minValue r w) (maxValue r w) gr xs this = .ok R →
      R.isEmpty = true ∨ ∃ z : Int, inRange r w z ∧ Pin x (z : Rat) R := by
  intro xs
  induction xs with
  | nil => intro _ hx; cases hx
  | cons y ys ih =>
    intro hnd hx this R hconst hl
    have hnd' := List.nodup_cons.mp hnd
    unfold loopWI at hl
    cases hs : stepWI fx w .wraps (minValue r w) (maxValue r w) gr y this with
    | inr out =>
      rw [hs] at hl
      simp only [] at hl
      subst hl
      rcases stepWI_inr hs with ⟨R', hR', hemp⟩ | ⟨l, hl', _⟩
      · cases hR'; exact Or.inl hemp
      · cases hl'
    | inl t =>
      rw [hs] at hl
      simp only [] at hl
      by_cases hyx : y = x
      · subst hyx
        obtain ⟨z, hz, hp⟩ := stepWI_pins hw hfreq he hconst hs
        exact Or.inr ⟨z, hz, loopWI_Pin fx w .wraps _ _ gr y z ys hnd'.1 t R hp hl⟩
      · have hx' : x ∈ ys := by
          rcases List.mem_cons.mp hx with h | h
          · exact absurd h.symm hyx
          · exact h
        exact ih hnd'.2 hx' t R (fun h0 => stepWI_Pin hyx hs (hconst h0)) hl

/-- a constant of the argument pins the initial receiver -/
theorem Pin_of_constant {gr : Gens} {x : Nat} {f_d v_n : Int}
    (hfreq : frequencyNoCheck gr (unit x) = some (0, f_d, v_n, 1)) : Pin x (v_n : Rat) (.gens gr) := by
  obtain ⟨f, v, _, hfn, _, hvn, hvd, hvals⟩ := frequencyNoCheck_some hfreq
  intro u hu
  obtain ⟨t, ht⟩ := hvals u hu
  rw [dotF_unit] at ht
  have hf : f = 0 := Rat.num_eq_zero.mp hfn.symm
  rw [ht, hf, mul_zero, add_zero, rat_of_den_one v hvd.symm, hvn]

/-- **the whole function**, overflow wraps: a wrapped variable that is an integer constant of the argument, or has
frequency exactly `2^w` with an integer representative, has an in-range value at every point of the result -/
theorem gridWrapAssignV_in_range (fx : Repairs) (n : Nat) (cfg : WrapCfg) (hw : 0 < cfg.w) (ho : cfg.o = .wraps)
    (gr : Gens) (x : Nat) (hx : x ∈ cfg.vars) (f_n f_d v_n : Int)
    (hfreq : frequencyNoCheck gr (unit x) = some (f_n, f_d, v_n, 1)) (he : f_n = 0 ∨ f_n = wrapFrequency cfg.w)
    (R : GridGens) (hR : gridWrapAssignV fx n cfg (.gens gr) = .ok R) :
    ∀ u, Gen.sem R u → ∃ z : Int, u x = (z : Rat) ∧ inRange cfg.r cfg.w z := by
  unfold gridWrapAssignV at hR
  split at hR
  · cases hR
  · split at hR
    · rename_i hemp
      have : cfg.vars = [] := List.isEmpty_iff.mp hemp
      rw [this] at hx; cases hx
    · split at hR
      · cases hR
      · simp only [] at hR
        rw [rangeOf_eq cfg.r cfg.w hw] at hR
        simp only [] at hR
        rw [if_pos (Or.inr ho), ho] at hR
        have hconst : f_n = 0 → Pin x (v_n : Rat) (.gens gr) := by
          intro h0; subst h0; exact Pin_of_constant hfreq
        rcases loopWI_pins fx cfg.r cfg.w hw gr x f_n f_d v_n hfreq he (normVars cfg.vars) (normVars_nodup _)
          ((mem_normVars x cfg.vars).mpr hx) (.gens gr) R hconst hR with hemp | ⟨z, hz, hp⟩
        · intro u hu
          have : R.isEmpty = false := (isEmpty_false_iff R).mpr ⟨u, hu⟩
          rw [hemp] at this; cases this
        · intro u hu
          exact ⟨z, hp u hu, hz⟩

end PPLV.Wrap.GW
