import PPLV.Wrap.GridWrapMain

/-!
# `Grid::wrap_assign` lemmas, part 6: which outcomes are possible

* a dimension exception is thrown exactly by the two checks at the top of the function;
* `add_grid_generator` throws only when overflow wraps and the receiver has become empty inside the loop (it is left
  empty); with `OVERFLOW_UNDEFINED` the receiver never becomes empty, with `OVERFLOW_IMPOSSIBLE` no generator is added.
-/
namespace PPLV.Wrap.GW
open PPLV.Lattice PPLV.Wrap

theorem addGridGeneratorParam_error' {this l : GridGens} {x : Nat} {c : Int}
    (h : addGridGeneratorParam this x c = .error l) : l.isEmpty = true := by
  unfold addGridGeneratorParam at h
  split at h
  · cases h; assumption
  · cases h

theorem addParamOrLeave_inr {fx : Repairs} {this : GridGens} {x : Nat} {c : Int} {out : Outcome}
    (h : addParamOrLeave fx this x c = .inr out) :
    (∃ R, out = .ok R ∧ R.isEmpty = true ∧ fx.kf13 = true) ∨ ∃ l, out = .invalidGenerator l ∧ l.isEmpty = true ∧ fx.kf13 = false := by
  unfold addParamOrLeave at h
  split at h
  · cases h
  · rename_i l hl
    have he := addGridGeneratorParam_error' hl
    cases hk : fx.kf13 with
    | true => rw [hk] at h; simp only [if_true] at h; cases h; exact Or.inl ⟨l, rfl, he, rfl⟩
    | false => rw [hk] at h; simp only [Bool.false_eq_true, if_false] at h; cases h; exact Or.inr ⟨l, rfl, he, rfl⟩

/-- the outcomes with which the body of the first loop leaves the function -/
theorem stepWI_inr {fx : Repairs} {w : Nat} {o : Ovf} {minV maxV : Int} {gr : Gens} {x : Nat} {this : GridGens} {out : Outcome}
    (h : stepWI fx w o minV maxV gr x this = .inr out) :
    (∃ R, out = .ok R ∧ R.isEmpty = true) ∨ ∃ l, out = .invalidGenerator l ∧ l.isEmpty = true ∧ o = .wraps ∧ fx.kf13 = false := by
  have key : ∀ (t : GridGens) (c : Int), o = .wraps → addParamOrLeave fx t x c = .inr out →
      (∃ R, out = .ok R ∧ R.isEmpty = true) ∨ ∃ l, out = .invalidGenerator l ∧ l.isEmpty = true ∧ o = .wraps ∧ fx.kf13 = false := by
    intro t c ho h
    rcases addParamOrLeave_inr h with ⟨R, hR, he, _⟩ | ⟨l, hl, he, hk⟩
    · exact Or.inl ⟨R, hR, he⟩
    · exact Or.inr ⟨l, hl, he, ho, hk⟩
  unfold stepWI at h
  simp only [] at h
  split at h
  · split at h
    · rename_i ho
      exact key _ _ ho h
    · cases h
  · split at h
    · split at h
      · cases h; exact Or.inl ⟨_, rfl, rfl⟩
      · split at h
        · split at h
          · cases h; exact Or.inl ⟨_, rfl, rfl⟩
          · cases h
        · cases h
    · split at h
      · cases h; exact Or.inl ⟨_, rfl, rfl⟩
      · split at h
        · rename_i ho
          exact key _ _ ho.1 h
        · split at h
          · split at h <;> cases h
          · cases h

theorem loopWI_outcome (fx : Repairs) (w : Nat) (o : Ovf) (minV maxV : Int) (gr : Gens) :
    ∀ (xs : List Nat) (this : GridGens) (out : Outcome), loopWI fx w o minV maxV gr xs this = out →
      (∃ R, out = .ok R) ∨ ∃ l, out = .invalidGenerator l ∧ l.isEmpty = true ∧ o = .wraps ∧ fx.kf13 = false := by
  intro xs
  induction xs with
  | nil => intro this out h; exact Or.inl ⟨this, h.symm⟩
  | cons x xs ih =>
    intro this out h
    unfold loopWI at h
    cases hs : stepWI fx w o minV maxV gr x this with
    | inl t => rw [hs] at h; exact ih t out h
    | inr o' =>
      rw [hs] at h
      simp only [] at h
      subst h
      rcases stepWI_inr hs with ⟨R, h, _⟩ | h
      · exact Or.inl ⟨_, h⟩
      · exact Or.inr h

/-- `OVERFLOW_UNDEFINED`: a non-empty receiver stays non-empty, so `add_grid_generator` never throws -/
theorem stepU_nonempty {minV maxV : Int} {gr : Gens} {x : Nat} {this : GridGens} (hne : ∃ u, Gen.sem this u) :
    (∃ t, stepU minV maxV gr x this = .inl t ∧ ∃ u, Gen.sem t u) ∨ stepU minV maxV gr x this = .inr (.ok .empty) := by
  obtain ⟨u, hu⟩ := hne
  have hpar : ∀ c : Int, ∃ t, addParamOrLeave beforeFix this x c = .inl t ∧ ∃ u, Gen.sem t u := by
    intro c
    obtain ⟨t, ht, hm⟩ := param_step beforeFix (c := c) hu (u x + ((0 : Int) : Rat) * (c : Rat)) 0 rfl
    exact ⟨t, ht, _, hm⟩
  unfold stepU
  simp only []
  split
  · split
    · exact Or.inl ⟨_, rfl, _, freeInt_mem 0 hu⟩
    · exact Or.inl (hpar 1)
  · split
    · exact Or.inr rfl
    · split
      · exact Or.inl (hpar 1)
      · exact Or.inl ⟨this, rfl, u, hu⟩

theorem loopU_outcome (minV maxV : Int) (gr : Gens) :
    ∀ (xs : List Nat) (this : GridGens), (∃ u, Gen.sem this u) → ∃ R, loopU minV maxV gr xs this = .ok R := by
  intro xs
  induction xs with
  | nil => intro this _; exact ⟨this, rfl⟩
  | cons x xs ih =>
    intro this hne
    unfold loopU
    rcases stepU_nonempty (minV := minV) (maxV := maxV) (gr := gr) (x := x) hne with ⟨t, ht, hne'⟩ | h
    · rw [ht]; exact ih t hne'
    · rw [h]; exact ⟨_, rfl⟩

/-- a dimension exception is thrown by, and only by, the two checks at the top of the function -/
theorem gridWrapAssignV_dim (fx : Repairs) (n : Nat) (cfg : WrapCfg) (G : GridGens) :
    gridWrapAssignV fx n cfg G = .dimensionIncompatible ↔
      guardTooBig n cfg.guard = true ∨ (cfg.vars.isEmpty = false ∧ n < varsSpaceDim cfg.vars) := by
  unfold gridWrapAssignV
  by_cases hg : guardTooBig n cfg.guard = true
  · simp [hg]
  · rw [if_neg hg]
    by_cases he : cfg.vars.isEmpty = true
    · simp [hg, he]
    · rw [if_neg he]
      by_cases hd : n < varsSpaceDim cfg.vars
      · simp [hd, he]
      · rw [if_neg hd]
        have he' : cfg.vars.isEmpty = false := by simpa using he
        constructor
        · intro h
          exfalso
          cases G with
          | empty => cases h
          | gens gr =>
            simp only [] at h
            split at h
            · rcases loopWI_outcome _ _ _ _ _ _ _ _ _ h with ⟨R, hR⟩ | ⟨l, hl, _⟩
              · cases hR
              · cases hl
            · obtain ⟨R, hR⟩ := loopU_outcome (rangeOf cfg.r cfg.w).1 (rangeOf cfg.r cfg.w).2 gr (normVars cfg.vars)
                (.gens gr) ⟨_, Gens.Mem.pt⟩
              rw [hR] at h; cases h
        · rintro (h | ⟨_, h⟩)
          · exact absurd h hg
          · exact absurd h hd

/-- `add_grid_generator` throws only when overflow wraps, and leaves the receiver empty -/
theorem gridWrapAssignV_invalidGenerator (fx : Repairs) (n : Nat) (cfg : WrapCfg) (G : GridGens) (l : GridGens)
    (h : gridWrapAssignV fx n cfg G = .invalidGenerator l) : l.isEmpty = true ∧ cfg.o = .wraps ∧ fx.kf13 = false := by
  unfold gridWrapAssignV at h
  split at h
  · cases h
  · split at h
    · cases h
    · split at h
      · cases h
      · cases G with
        | empty => cases h
        | gens gr =>
          simp only [] at h
          split at h
          · rcases loopWI_outcome _ _ _ _ _ _ _ _ _ h with ⟨R, hR⟩ | ⟨l', hl, he, ho, hk⟩
            · cases hR
            · cases hl; exact ⟨he, ho, hk⟩
          · obtain ⟨R, hR⟩ := loopU_outcome (rangeOf cfg.r cfg.w).1 (rangeOf cfg.r cfg.w).2 gr (normVars cfg.vars)
              (.gens gr) ⟨_, Gens.Mem.pt⟩
            rw [hR] at h; cases h

theorem gridWrapAssign_dim (n : Nat) (cfg : WrapCfg) (G : GridGens) :
    gridWrapAssign n cfg G = .dimensionIncompatible ↔
      guardTooBig n cfg.guard = true ∨ (cfg.vars.isEmpty = false ∧ n < varsSpaceDim cfg.vars) :=
  gridWrapAssignV_dim repaired n cfg G

/-- the function as it is now never leaves through `add_grid_generator` -/
theorem gridWrapAssign_not_invalidGenerator (n : Nat) (cfg : WrapCfg) (G : GridGens) (l : GridGens) :
    gridWrapAssign n cfg G ≠ .invalidGenerator l := by
  intro h
  have := (gridWrapAssignV_invalidGenerator repaired n cfg G l h).2.2
  cases this

theorem gridWrapAssignBeforeFix_invalidGenerator (n : Nat) (cfg : WrapCfg) (G : GridGens) (l : GridGens)
    (h : gridWrapAssignBeforeFix n cfg G = .invalidGenerator l) : l.isEmpty = true ∧ cfg.o = .wraps :=
  let r := gridWrapAssignV_invalidGenerator beforeFix n cfg G l h
  ⟨r.1, r.2.1⟩

/-- `*cs_p` is only dimension-checked: the guard-free configuration has the same outcome on a legal call -/
theorem gridWrapAssignV_guard_unused (fx : Repairs) (n : Nat) (cfg : WrapCfg) (g : Option (List PPLV.Lin.Con)) (G : GridGens)
    (h1 : guardTooBig n cfg.guard = false) (h2 : guardTooBig n g = false) :
    gridWrapAssignV fx n { cfg with guard := g } G = gridWrapAssignV fx n cfg G := by
  unfold gridWrapAssignV
  simp only [h1, h2]

theorem guardTooBig_of_legal {n : Nat} {cfg : WrapCfg} (hlegal : Legal n cfg) : guardTooBig n cfg.guard = false := by
  unfold guardTooBig
  cases hg : cfg.guard with
  | none => rfl
  | some cs => have := hlegal.1 cs hg; simp only [decide_eq_false_iff_not]; omega

theorem gridWrapAssignV_noguard (fx : Repairs) (n : Nat) (cfg : WrapCfg) (G : GridGens) (hlegal : Legal n cfg) :
    gridWrapAssignV fx n { cfg with guard := none } G = gridWrapAssignV fx n cfg G :=
  gridWrapAssignV_guard_unused fx n cfg none G (guardTooBig_of_legal hlegal) rfl

end PPLV.Wrap.GW
